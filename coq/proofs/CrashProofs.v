(* proofs/CrashProofs.v -- lemmas about model/Crash.v (C05). *)
From Coq Require Import List NArith Bool Lia Arith PeanoNat.
From SV Require Import lib.Bytes lib.Closure model.Graph model.GraphInv gen.GenCrash model.Crash.
Import ListNotations.
Open Scope N_scope.

(* ------------------------------------------------------------------------------------------ *)
(* Keys, lookups                                                                               *)
(* ------------------------------------------------------------------------------------------ *)
Lemma kind_eqb_eq a b : kind_eqb a b = true <-> a = b.
Proof. destruct a, b; cbn; split; intro H; try reflexivity; try discriminate. Qed.

Lemma key_eqb_eq (a b : key) : key_eqb a b = true <-> a = b.
Proof.
  destruct a as [ka la], b as [kb lb]. unfold key_eqb. cbn [fst snd].
  rewrite andb_true_iff, kind_eqb_eq, str_eqb_eq. split.
  - intros [H1 H2]. subst. reflexivity.
  - intros H. inversion H. split; reflexivity.
Qed.
Lemma key_eqb_refl a : key_eqb a a = true.
Proof. apply key_eqb_eq. reflexivity. Qed.

Lemma mem_key_In k l : mem_key k l = true <-> In k l.
Proof.
  unfold mem_key. rewrite existsb_exists. split.
  - intros [x [Hin Heq]]. apply key_eqb_eq in Heq. subst. exact Hin.
  - intros Hin. exists k. split; [exact Hin | apply key_eqb_refl].
Qed.
Lemma mem_key_app k a b : mem_key k (a ++ b) = mem_key k a || mem_key k b.
Proof. unfold mem_key. apply existsb_app. Qed.

Lemma find_node_some k s n : find_node k s = Some n -> In n (nodes s) /\ nk n = k.
Proof.
  unfold find_node. intros H. apply find_some in H. destruct H as [Hin Heq].
  apply key_eqb_eq in Heq. split; assumption.
Qed.

Lemma nodup_find (l : list node) (n : node) :
  nodup_by key_eqb (map nk l) = true -> In n l -> find (fun m => key_eqb (nk m) (nk n)) l = Some n.
Proof.
  induction l as [|m l IH]; intros Hnd Hin; [destruct Hin|].
  cbn [map nodup_by] in Hnd. apply andb_true_iff in Hnd. destruct Hnd as [Hm Hnd].
  cbn [find]. destruct Hin as [Heq | Hin].
  - subst. rewrite key_eqb_refl. reflexivity.
  - destruct (key_eqb (nk m) (nk n)) eqn:E.
    + exfalso. apply negb_true_iff in Hm.
      assert (X : existsb (key_eqb (nk m)) (map nk l) = true).
      { apply existsb_exists. exists (nk n). split; [apply in_map; exact Hin | exact E]. }
      rewrite X in Hm. discriminate.
    + apply IH; assumption.
Qed.

Lemma find_node_nodup s n :
  nodup_by key_eqb (map nk (nodes s)) = true -> In n (nodes s) -> find_node (nk n) s = Some n.
Proof. intros. unfold find_node. apply nodup_find; assumption. Qed.

Lemma inv_nodes_nodup s : inv_nodes_b s = true -> nodup_by key_eqb (map nk (nodes s)) = true.
Proof.
  unfold inv_nodes_b. intros H. apply andb_true_iff in H. destruct H as [H _].
  apply andb_true_iff in H. destruct H as [H _]. exact H.
Qed.

Lemma inv_nodes_root s : inv_nodes_b s = true ->
  exists r, find_node root_key s = Some r /\ ncre r = Some root_key /\ ndet r = false.
Proof.
  unfold inv_nodes_b. intros H. apply andb_true_iff in H. destruct H as [H _].
  apply andb_true_iff in H. destruct H as [_ H].
  destruct (find_node root_key s) as [r|]; [|discriminate]. exists r. split; [reflexivity|].
  apply andb_true_iff in H. destruct H as [H1 H2]. split.
  - destruct (ncre r) as [c|]; [|discriminate]. cbn [okey_eqb] in H1. apply key_eqb_eq in H1. subst. reflexivity.
  - apply negb_true_iff in H2. exact H2.
Qed.

(* ------------------------------------------------------------------------------------------ *)
(* Reachability: the downward closure of the SQL query versus the invariant's upward walk      *)
(* ------------------------------------------------------------------------------------------ *)
Lemma prod_edges_In c k s :
  In (c, k) (prod_edges s) <->
  exists n, In n (nodes s) /\ ncre n = Some c /\ nk n = k /\ key_eqb k c = false.
Proof.
  unfold prod_edges. rewrite in_flat_map. split.
  - intros [n [Hin H]]. exists n. destruct (ncre n) as [c'|] eqn:Ec; [|destruct H].
    destruct (key_eqb (nk n) c') eqn:E; [destruct H|]. destruct H as [H|[]]. inversion H. subst.
    repeat split; assumption.
  - intros [n [Hin [Hc [Hk E]]]]. exists n. split; [exact Hin|]. rewrite Hc, Hk, E. left. reflexivity.
Qed.

Lemma prod_edges_length s : (length (prod_edges s) <= length (nodes s))%nat.
Proof.
  unfold prod_edges. induction (nodes s) as [|n l IH]; [apply le_n|].
  cbn [flat_map length]. rewrite app_length.
  destruct (ncre n) as [c|]; [destruct (key_eqb (nk n) c)|]; cbn [length]; lia.
Qed.

Lemma reaches_root_path d : forall k s, reaches_root d k s = true -> path (prod_edges s) root_key k.
Proof.
  induction d as [|d IH]; intros k s H; cbn [reaches_root] in H.
  - destruct (key_eqb k root_key) eqn:E; [|discriminate]. apply key_eqb_eq in E. subst. apply path_refl.
  - destruct (key_eqb k root_key) eqn:E; [apply key_eqb_eq in E; subst; apply path_refl|].
    unfold creator_of in H. destruct (find_node k s) as [n|] eqn:Ef; [|discriminate].
    destruct (ncre n) as [c|] eqn:Ec; [|discriminate].
    apply IH in H. apply find_node_some in Ef. destruct Ef as [Hin Hk].
    destruct (key_eqb k c) eqn:Ekc.
    + apply key_eqb_eq in Ekc. subst c. exact H.
    + eapply path_snoc; [exact H|]. apply prod_edges_In. exists n. repeat split; assumption.
Qed.

Definition attached_key (s : st) (k : key) : Prop := exists n, find_node k s = Some n /\ ndet n = false.

Lemma path_attached s : inv_nodes_b s = true -> inv_local_b s = true ->
  forall k, path (prod_edges s) root_key k -> attached_key s k.
Proof.
  intros Hn Hl. apply path_rind.
  - destruct (inv_nodes_root s Hn) as [r [Hf [_ Hd]]]. exists r. split; assumption.
  - intros b c _ [bn [Hfb Hdb]] He. apply prod_edges_In in He. destruct He as [m [Hin [Hc [Hk Hne]]]].
    unfold inv_local_b in Hl. rewrite forallb_forall in Hl. specialize (Hl m Hin).
    pose proof (find_node_nodup s m (inv_nodes_nodup s Hn) Hin) as Hfm. rewrite Hk in Hfm.
    destruct (key_eqb (nk m) root_key) eqn:Er.
    + apply key_eqb_eq in Er. rewrite Hk in Er. subst c.
      destruct (inv_nodes_root s Hn) as [r [Hf [_ Hd]]]. exists r. split; assumption.
    + cbn [orb] in Hl. rewrite Hc, Hfb in Hl.
      apply andb_true_iff in Hl. destruct Hl as [Hl _]. apply andb_true_iff in Hl. destruct Hl as [Hl _].
      apply eqb_prop in Hl. exists m. split; [exact Hfm | congruence].
Qed.

(* ------------------------------------------------------------------------------------------ *)
(* 1. _check_consistency accepts every state that satisfies the invariant                      *)
(* ------------------------------------------------------------------------------------------ *)
Lemma inv_b_parts s : inv_b s = true ->
  inv_nodes_b s = true /\ inv_local_b s = true /\ inv_reach_b s = true /\ inv_rows_b s = true.
Proof.
  unfold inv_b. intros H. rewrite !andb_true_iff in H. tauto.
Qed.

Lemma cc_row_of_inv s : inv_nodes_b s = true -> inv_local_b s = true -> cc_row_b s = true.
Proof.
  intros Hn Hl. unfold cc_row_b. apply forallb_forall. intros n Hin.
  unfold inv_local_b in Hl. rewrite forallb_forall in Hl. specialize (Hl n Hin).
  destruct (key_eqb (nk n) root_key) eqn:Er.
  - apply key_eqb_eq in Er. destruct (inv_nodes_root s Hn) as [r [Hf [Hc Hd]]].
    pose proof (find_node_nodup s n (inv_nodes_nodup s Hn) Hin) as Hf2. rewrite Er, Hf in Hf2.
    inversion Hf2. subst r. rewrite Hc, Hf. apply eqb_reflx.
  - cbn [orb] in Hl. destruct (ncre n) as [c|].
    + destruct (find_node c s) as [cn|]; [|discriminate].
      apply andb_true_iff in Hl. destruct Hl as [Hl _]. apply andb_true_iff in Hl. destruct Hl as [Hl _]. exact Hl.
    + rewrite Hl. reflexivity.
Qed.

Lemma cc_reach_of_inv s : inv_nodes_b s = true -> inv_local_b s = true -> inv_reach_b s = true ->
  cc_reach_b s = true.
Proof.
  intros Hn Hl Hr. unfold cc_reach_b. apply forallb_forall. intros n Hin.
  unfold inv_reach_b in Hr. rewrite forallb_forall in Hr. specialize (Hr n Hin).
  assert (Hspec : mem_key (nk n) (reach_down s) = true <-> path (prod_edges s) root_key (nk n)).
  { unfold reach_down, rec_products_from.
    change (mem_key (nk n)) with (memb key_eqb (nk n)).
    rewrite (closure_spec key_eqb key_eqb_eq); [|apply prod_edges_length]. split.
    - intros [a [[Ha|[]] Hp]]. subst a. exact Hp.
    - intros Hp. exists root_key. split; [left; reflexivity | exact Hp]. }
  destruct (ndet n) eqn:Ed.
  - destruct (mem_key (nk n) (reach_down s)) eqn:Em; [|reflexivity]. exfalso.
    pose proof (proj1 Hspec eq_refl) as Hp. apply (path_attached s Hn Hl) in Hp. destruct Hp as [m [Hf Hd]].
    rewrite (find_node_nodup s n (inv_nodes_nodup s Hn) Hin) in Hf. inversion Hf. subst m. congruence.
  - cbn [negb] in Hr. apply eqb_prop in Hr. symmetry in Hr. apply reaches_root_path in Hr.
    apply (proj2 Hspec) in Hr. rewrite Hr. reflexivity.
Qed.

Lemma cc_valid_of_inv s : inv_rows_b s = true -> cc_valid_b s = true.
Proof.
  unfold inv_rows_b, cc_valid_b. intros H.
  repeat (apply andb_true_iff in H; destruct H as [H ?]). assumption.
Qed.

Lemma check_consistency_accepts_inv s : inv_b s = true -> cc_trellis_b s = true.
Proof.
  intros H. apply inv_b_parts in H. destruct H as [Hn [Hl [Hr Hrows]]].
  unfold cc_trellis_b. rewrite (cc_row_of_inv s Hn Hl), (cc_reach_of_inv s Hn Hl Hr), (cc_valid_of_inv s Hrows).
  reflexivity.
Qed.

(* inv_succeeded_b (I4 of GraphInv.v) says exactly that the workflow part finds nothing *)
Lemma filter_nil {A} (p : A -> bool) l : (forall x, In x l -> p x = false) -> filter p l = [].
Proof.
  induction l as [|x l IH]; intros H; [reflexivity|]. cbn [filter].
  rewrite (H x (or_introl eq_refl)). apply IH. intros y Hy. apply H. right. exact Hy.
Qed.

Lemma no_violations_of_inv s : inv_succeeded_b s = true -> succ_violations s = [].
Proof.
  unfold inv_succeeded_b, succ_violations. intros H. rewrite forallb_forall in H.
  rewrite filter_nil; [reflexivity|]. intros r Hin. specialize (H r Hin). unfold succ_violation.
  destruct (sstate_eqb (sst r) SSucceeded); [|reflexivity]. cbn [negb orb andb] in *.
  rewrite forallb_forall in H.
  destruct (existsb _ (file_sinks_of_step (sl r) s)) eqn:E; [|reflexivity]. exfalso.
  apply existsb_exists in E. destruct E as [f [Hf E]]. specialize (H f Hf).
  destruct (is_detached (KFile, f) s); [discriminate|]. cbn [negb orb andb] in *.
  destruct (fstate_of f s) as [[]|]; discriminate.
Qed.

Theorem open_after_crash_consistent s strict :
  inv_b s = true -> inv_succeeded_b s = true -> check_consistency strict s = Ok s.
Proof.
  intros Hi Hs. unfold check_consistency.
  pose proof (check_consistency_accepts_inv s Hi) as Hc.
  apply inv_b_parts in Hi. destruct Hi as [Hn _]. destruct (inv_nodes_root s Hn) as [r [Hf _]].
  rewrite Hf, Hc, (no_violations_of_inv s Hs). reflexivity.
Qed.

(* every crash state of a history whose prefixes satisfy the invariants opens without error and
   unchanged (no repair needed) *)
Corollary open_prefix_ok cap ops k repair strict :
  inv_b (run_ops (firstn k ops) (init_st cap)) = true ->
  inv_succeeded_b (run_ops (firstn k ops) (init_st cap)) = true ->
  open_db repair strict cap (db_at cap ops (S k)) = Ok (run_ops (firstn k ops) (init_st cap)).
Proof. intros Hi Hs. cbn [db_at open_db]. apply open_after_crash_consistent; assumption. Qed.

(* crash point 0: the schema exists, the root row does not (D13) *)
Lemma open_point_zero cap ops repair strict :
  open_db repair strict cap (db_at cap ops 0) = if repair then Ok (init_st cap) else Internal 300.
Proof. reflexivity. Qed.

(* ------------------------------------------------------------------------------------------ *)
(* Generic helpers: bind, foldM, Forall2                                                       *)
(* ------------------------------------------------------------------------------------------ *)
Lemma bind_ok {A B} (r : res A) (f : A -> res B) b :
  bind r f = Ok b -> exists a, r = Ok a /\ f a = Ok b.
Proof. destruct r as [a|t|t]; cbn; intros H; try discriminate. exists a. split; [reflexivity | exact H]. Qed.

(* peel leading guards [if c then Internal/Usage _ else ...] of a successful operation; robust
   against guards being added to the model *)
Ltac guards H :=
  repeat match type of H with
         | (if ?c then Internal _ else _) = Ok _ => destruct c; [discriminate H|]
         | (if ?c then Usage _ else _) = Ok _ => destruct c; [discriminate H|]
         end.

Lemma foldM_rel {A S} (R : S -> S -> Prop) (f : S -> A -> res S) :
  (forall s, R s s) -> (forall a b c, R a b -> R b c -> R a c) ->
  forall l, (forall s a s', In a l -> f s a = Ok s' -> R s s') ->
  forall s s', foldM f l s = Ok s' -> R s s'.
Proof.
  intros Hrefl Htrans. induction l as [|a l IH]; intros Hf s s' H; cbn [foldM] in H.
  - inversion H. apply Hrefl.
  - apply bind_ok in H. destruct H as [s1 [H1 H2]].
    eapply Htrans; [eapply Hf; [left; reflexivity | exact H1]|].
    apply IH; [|exact H2]. intros s0 a0 s0' Hin. apply Hf. right. exact Hin.
Qed.

Lemma foldM_ext {A S} (f g : S -> A -> res S) l :
  (forall s a, In a l -> f s a = g s a) -> forall s, foldM f l s = foldM g l s.
Proof.
  induction l as [|a l IH]; intros H s; [reflexivity|]. cbn [foldM].
  rewrite (H s a (or_introl eq_refl)). destruct (g s a); cbn [bind]; try reflexivity.
  apply IH. intros s1 a1 Hin. apply H. right. exact Hin.
Qed.

Lemma Forall2_refl {A} (R : A -> A -> Prop) : (forall x, R x x) -> forall l, Forall2 R l l.
Proof. intros H. induction l; constructor; auto. Qed.
Lemma Forall2_trans {A} (R : A -> A -> Prop) : (forall x y z, R x y -> R y z -> R x z) ->
  forall a b c, Forall2 R a b -> Forall2 R b c -> Forall2 R a c.
Proof.
  intros H a b c Hab. revert c. induction Hab; intros c Hbc; inversion Hbc; subst; constructor; eauto.
Qed.
Lemma Forall2_map_r {A} (R : A -> A -> Prop) (g : A -> A) l : (forall x, R x (g x)) -> Forall2 R l (map g l).
Proof. intros H. induction l; cbn; constructor; auto. Qed.

(* ------------------------------------------------------------------------------------------ *)
(* 2. What state propagation can change: step states only move to PENDING, file states only    *)
(*    to OUTDATED, nothing else is touched                                                     *)
(* ------------------------------------------------------------------------------------------ *)
Definition Rs (r r' : srow) : Prop := sl r' = sl r /\ (sst r' = sst r \/ sst r' = SPending).
Definition Rf (r r' : frow) : Prop := fl r' = fl r /\ (fstt r' = fstt r \/ fstt r' = FOutdated).

Record frame (s s' : st) : Prop := mkFrame {
  fr_nodes : nodes s' = nodes s; fr_deps : deps s' = deps s; fr_shash : shash s' = shash s;
  fr_files : Forall2 Rf (files s) (files s') }.
Record mark_rel (s s' : st) : Prop := mkMR { mr_frame : frame s s'; mr_steps : Forall2 Rs (steps s) (steps s') }.

Lemma Rs_refl r : Rs r r. Proof. split; [reflexivity | left; reflexivity]. Qed.
Lemma Rf_refl r : Rf r r. Proof. split; [reflexivity | left; reflexivity]. Qed.
Lemma Rs_trans a b c : Rs a b -> Rs b c -> Rs a c.
Proof. intros [H1 H2] [H3 H4]. split; [congruence|]. destruct H4 as [H4|H4]; [|right; exact H4]. destruct H2; [left | right]; congruence. Qed.
Lemma Rf_trans a b c : Rf a b -> Rf b c -> Rf a c.
Proof. intros [H1 H2] [H3 H4]. split; [congruence|]. destruct H4 as [H4|H4]; [|right; exact H4]. destruct H2; [left | right]; congruence. Qed.

Lemma frame_refl s : frame s s.
Proof. constructor; try reflexivity. apply Forall2_refl. apply Rf_refl. Qed.
Lemma frame_trans a b c : frame a b -> frame b c -> frame a c.
Proof.
  intros [H1 H2 H3 H4] [G1 G2 G3 G4]. constructor; try congruence.
  eapply Forall2_trans; [apply Rf_trans | eassumption | eassumption].
Qed.
Lemma mark_rel_refl s : mark_rel s s.
Proof. constructor; [apply frame_refl | apply Forall2_refl; apply Rs_refl]. Qed.
Lemma mark_rel_trans a b c : mark_rel a b -> mark_rel b c -> mark_rel a c.
Proof.
  intros [H1 H2] [G1 G2]. constructor; [eapply frame_trans; eassumption|].
  eapply Forall2_trans; [apply Rs_trans | eassumption | eassumption].
Qed.

(* set_sstate only rewrites the state-related columns of the rows with that label *)
Lemma set_sstate_frame l new d s s' : set_sstate l new d s = Ok s' ->
  frame s s' /\ map sl (steps s') = map sl (steps s).
Proof.
  unfold set_sstate. destruct (find_step l s) as [r|]; [|intros H; inversion H; subst; split; [apply frame_refl | reflexivity]].
  intros H. guards H. inversion H. subst s'. clear H.
  split.
  - constructor; try reflexivity. cbn. apply Forall2_refl. apply Rf_refl.
  - cbn. rewrite map_map. apply map_ext. intros x. destruct (str_eqb (sl x) l); reflexivity.
Qed.

Lemma set_sstate_pending_rel l d s s' : set_sstate l SPending d s = Ok s' -> mark_rel s s'.
Proof.
  intros H. pose proof (set_sstate_frame _ _ _ _ _ H) as [Hf _]. constructor; [exact Hf|].
  unfold set_sstate in H. destruct (find_step l s) as [r|]; [|inversion H; subst; apply Forall2_refl; apply Rs_refl].
  guards H. inversion H. subst s'. cbn.
  apply Forall2_map_r. intros x. destruct (str_eqb (sl x) l); [|apply Rs_refl].
  split; [reflexivity | right; reflexivity].
Qed.

Lemma set_fstate_outdated_rel f s s' : set_fstate f FOutdated s = Ok s' -> mark_rel s s'.
Proof.
  unfold set_fstate, set_fstate_hash. destruct (find_file f s) as [r|]; [|intros H; inversion H; subst; apply mark_rel_refl].
  intros H. guards H. inversion H. subst s'. clear H.
  constructor; [|cbn; apply Forall2_refl; apply Rs_refl].
  constructor; try reflexivity. cbn. apply Forall2_map_r. intros x.
  destruct (str_eqb (fl x) f); [|apply Rf_refl]. split; [reflexivity | right; reflexivity].
Qed.

Lemma mark_effect fuel :
  (forall l s s', mark_step_pending_f fuel l s = Ok s' -> mark_rel s s') /\
  (forall f s s', mark_file_outdated_f fuel f s = Ok s' -> mark_rel s s').
Proof.
  induction fuel as [|fuel [IHs IHf]]; [split; intros; discriminate|]. split.
  - intros l s s' H. cbn [mark_step_pending_f] in H.
    destruct (sstate_of l s) as [old|] eqn:Eo; [|discriminate].
    assert (Hgen : forall s1, set_sstate l SPending false s = Ok s1 ->
              foldM (fun s f => match fstate_of f s with
                                | Some FBuilt => mark_file_outdated_f fuel f s
                                | _ => Ok s end) (file_sinks_of_step l s1) s1 = Ok s' -> mark_rel s s').
    { intros s1 H1 H2. eapply mark_rel_trans; [eapply set_sstate_pending_rel; exact H1|].
      revert H2. apply foldM_rel; [apply mark_rel_refl | apply mark_rel_trans|].
      intros s0 f s0' _ H0. destruct (fstate_of f s0) as [[]|]; try (inversion H0; subst; apply mark_rel_refl).
      eapply IHf. exact H0. }
    destruct old; try (inversion H; subst; apply mark_rel_refl);
      apply bind_ok in H; destruct H as [s1 [H1 H2]].
    + inversion H2. subst. eapply set_sstate_pending_rel. exact H1.
    + eapply Hgen; eassumption.
    + eapply Hgen; eassumption.
  - intros f s s' H. cbn [mark_file_outdated_f] in H.
    destruct (fstate_of f s) as [[]|]; try discriminate.
    + apply bind_ok in H. destruct H as [s1 [H1 H2]].
      eapply mark_rel_trans; [eapply set_fstate_outdated_rel; exact H1|].
      revert H2. apply foldM_rel; [apply mark_rel_refl | apply mark_rel_trans|].
      intros s0 l s0' _ H0. eapply IHs. exact H0.
    + inversion H. subst. apply mark_rel_refl.
Qed.

Lemma mark_step_pending_rel l s s' : mark_step_pending l s = Ok s' -> mark_rel s s'.
Proof. unfold mark_step_pending. apply (proj1 (mark_effect _)). Qed.

(* ------------------------------------------------------------------------------------------ *)
(* Function view of the step table                                                             *)
(* ------------------------------------------------------------------------------------------ *)
Lemma find_map_upd {A} (lab : A -> str) (g : A -> A) (l : list A) (x : str) :
  (forall r, lab (g r) = lab r) ->
  find (fun r => str_eqb (lab r) x) (map g l) =
  match find (fun r => str_eqb (lab r) x) l with Some r => Some (g r) | None => None end.
Proof.
  intros Hg. induction l as [|r l IH]; [reflexivity|]. cbn [map find]. rewrite Hg.
  destruct (str_eqb (lab r) x); [reflexivity | exact IH].
Qed.

Lemma str_eqb_sym a b : str_eqb a b = str_eqb b a.
Proof.
  destruct (str_eqb a b) eqn:E1, (str_eqb b a) eqn:E2; try reflexivity.
  - apply str_eqb_eq in E1. subst. rewrite str_eqb_refl in E2. discriminate.
  - apply str_eqb_eq in E2. subst. rewrite str_eqb_refl in E1. discriminate.
Qed.

Lemma sstate_of_set l new d s s' : set_sstate l new d s = Ok s' ->
  forall x, sstate_of x s' = if str_eqb x l then (match sstate_of x s with Some _ => Some new | None => None end)
                             else sstate_of x s.
Proof.
  unfold set_sstate. destruct (find_step l s) as [r0|] eqn:E0.
  - intros H. guards H. inversion H. subst s'. clear H.
    intros x. unfold sstate_of, find_step, upd_step. cbn [steps set_steps].
    rewrite (find_map_upd sl); [|intros r; destruct (str_eqb (sl r) l); reflexivity].
    destruct (find (fun r => str_eqb (sl r) x) (steps s)) as [r|] eqn:Ex.
    + apply find_some in Ex. destruct Ex as [_ Ex]. apply str_eqb_eq in Ex. subst x.
      rewrite (str_eqb_sym (sl r) l). destruct (str_eqb l (sl r)); reflexivity.
    + destruct (str_eqb x l); reflexivity.
  - intros H. inversion H. subst s'. intros x. destruct (str_eqb x l) eqn:E; [|reflexivity].
    apply str_eqb_eq in E. subst x. unfold sstate_of. rewrite E0. reflexivity.
Qed.

Lemma set_sstate_raw_spec l new s s' : set_sstate_raw l new s = Ok s' ->
  frame s s' /\ map sl (steps s') = map sl (steps s) /\
  forall x, sstate_of x s' = if str_eqb x l then (match sstate_of x s with Some _ => Some new | None => None end)
                             else sstate_of x s.
Proof.
  unfold set_sstate_raw. destruct (find_step l s) as [r|] eqn:E.
  - intros H. destruct (set_sstate_frame _ _ _ _ _ H) as [Hf Hl]. split; [exact Hf|]. split; [exact Hl|].
    eapply sstate_of_set. exact H.
  - intros H. inversion H. subst s'. split; [apply frame_refl|]. split; [reflexivity|].
    intros x. destruct (str_eqb x l) eqn:Ex; [|reflexivity]. apply str_eqb_eq in Ex. subst.
    unfold sstate_of. rewrite E. reflexivity.
Qed.

Lemma Forall2_find_s (a b : list srow) x : Forall2 Rs a b ->
  match find (fun r => str_eqb (sl r) x) a, find (fun r => str_eqb (sl r) x) b with
  | Some r, Some r' => Rs r r'
  | None, None => True
  | _, _ => False end.
Proof.
  induction 1 as [|r r' a b [Hl Hs] _ IH]; cbn [find]; [exact I|]. rewrite Hl.
  destruct (str_eqb (sl r) x); [split; assumption | exact IH].
Qed.
Lemma Forall2_find_f (a b : list frow) x : Forall2 Rf a b ->
  match find (fun r => str_eqb (fl r) x) a, find (fun r => str_eqb (fl r) x) b with
  | Some r, Some r' => Rf r r'
  | None, None => True
  | _, _ => False end.
Proof.
  induction 1 as [|r r' a b [Hl Hs] _ IH]; cbn [find]; [exact I|]. rewrite Hl.
  destruct (str_eqb (fl r) x); [split; assumption | exact IH].
Qed.

Lemma mark_rel_sstate s s' x : mark_rel s s' ->
  sstate_of x s' = sstate_of x s \/ (sstate_of x s <> None /\ sstate_of x s' = Some SPending).
Proof.
  intros [_ H]. pose proof (Forall2_find_s _ _ x H) as F. unfold sstate_of, find_step.
  destruct (find _ (steps s)) as [r|], (find _ (steps s')) as [r'|]; try contradiction; [|left; reflexivity].
  destruct F as [_ [F|F]]; [left | right]; rewrite F; [reflexivity | split; [discriminate | reflexivity]].
Qed.

Lemma frame_fstate s s' f : frame s s' ->
  fstate_of f s' = fstate_of f s \/ (fstate_of f s <> None /\ fstate_of f s' = Some FOutdated).
Proof.
  intros [_ _ _ H]. pose proof (Forall2_find_f _ _ f H) as F. unfold fstate_of, find_file.
  destruct (find _ (files s)) as [r|], (find _ (files s')) as [r'|]; try contradiction; [|left; reflexivity].
  destruct F as [_ [F|F]]; [left | right]; rewrite F; [reflexivity | split; [discriminate | reflexivity]].
Qed.

Lemma frame_is_detached s s' k : frame s s' -> is_detached k s' = is_detached k s.
Proof. intros [H _ _ _]. unfold is_detached, find_node. rewrite H. reflexivity. Qed.
Lemma frame_has_hash s s' l : frame s s' -> has_hash l s' = has_hash l s.
Proof. intros [_ _ H _]. unfold has_hash. rewrite H. reflexivity. Qed.

(* ------------------------------------------------------------------------------------------ *)
(* reset_interrupted_steps                                                                     *)
(* ------------------------------------------------------------------------------------------ *)
Definition sweep (sel : sstate -> bool) (new : sstate) (L : list srow) (s : st) : res st :=
  foldM (fun s r => if sel (sst r) then set_sstate_raw (sl r) new s else Ok s) L s.

Definition is_running (x : sstate) : bool := match x with SRunning => true | _ => false end.
Definition is_checking (x : sstate) : bool := match x with SChecking => true | _ => false end.

Definition pend_failed (L : list srow) (s : st) : res st :=
  foldM (fun s r => match sstate_of (sl r) s with
                    | Some SFailed => if is_detached (KStep, sl r) s then Ok s else mark_step_pending (sl r) s
                    | _ => Ok s end) L s.

Lemma reset_interrupted_unfold s :
  reset_interrupted s =
  (do s1 <- sweep is_running SFailed (steps s) s;
   do s2 <- sweep is_checking SPending (steps s1) s1;
   pend_failed (steps s2) s2).
Proof.
  unfold reset_interrupted, sweep, pend_failed.
  rewrite (foldM_ext _ (fun s r => if is_running (sst r) then set_sstate_raw (sl r) SFailed s else Ok s));
    [|intros s0 r _; destruct (sst r); reflexivity].
  destruct (foldM _ (steps s) s) as [s1|t|t]; cbn [bind]; try reflexivity.
  rewrite (foldM_ext _ (fun s r => if is_checking (sst r) then set_sstate_raw (sl r) SPending s else Ok s));
    [|intros s0 r _; destruct (sst r); reflexivity].
  reflexivity.
Qed.

(* a sweep changes states only to [new]; everything else is untouched *)
Lemma sweep_spec sel new L : forall s s', sweep sel new L s = Ok s' ->
  frame s s' /\ map sl (steps s') = map sl (steps s) /\
  (forall x, sstate_of x s' = sstate_of x s \/ (sstate_of x s <> None /\ sstate_of x s' = Some new)).
Proof.
  induction L as [|r L IH]; intros s s' H; unfold sweep in *; cbn [foldM] in H.
  - inversion H. subst. split; [apply frame_refl|]. split; [reflexivity|]. intros x. left. reflexivity.
  - apply bind_ok in H. destruct H as [s1 [H1 H2]]. apply IH in H2. destruct H2 as [F2 [L2 S2]].
    destruct (sel (sst r)).
    + apply set_sstate_raw_spec in H1. destruct H1 as [F1 [L1 S1]].
      split; [eapply frame_trans; eassumption|]. split; [congruence|]. intros x.
      specialize (S1 x). specialize (S2 x). destruct (str_eqb x (sl r)).
      * destruct (sstate_of x s) as [o|] eqn:Eo.
        -- right. split; [discriminate|]. destruct S2 as [S2|[_ S2]]; rewrite S2; [exact S1 | reflexivity].
        -- left. destruct S2 as [S2|[S2 _]]; [congruence | rewrite S1 in S2; contradiction].
      * rewrite S1 in S2. exact S2.
    + inversion H1. subst s1. split; [exact F2|]. split; [exact L2|]. exact S2.
Qed.

(* a row of the swept list that is selected ends in state [new] *)
Lemma sweep_hits sel new L : forall s s' r, sweep sel new L s = Ok s' ->
  In r L -> sel (sst r) = true -> sstate_of (sl r) s <> None -> sstate_of (sl r) s' = Some new.
Proof.
  induction L as [|r0 L IH]; intros s s' r H Hin Hsel Hsome; [destruct Hin|].
  unfold sweep in H. cbn [foldM] in H. apply bind_ok in H. destruct H as [s1 [H1 H2]].
  destruct Hin as [Heq | Hin].
  - subst r0. rewrite Hsel in H1. apply set_sstate_raw_spec in H1. destruct H1 as [_ [_ S1]].
    specialize (S1 (sl r)). rewrite str_eqb_refl in S1.
    destruct (sstate_of (sl r) s) eqn:E; [|contradiction].
    apply sweep_spec in H2. destruct H2 as [_ [_ S2]]. specialize (S2 (sl r)).
    destruct S2 as [S2|[_ S2]]; rewrite S2; [exact S1 | reflexivity].
  - apply (IH s1 s' r H2 Hin Hsel).
    destruct (sel (sst r0)).
    + apply set_sstate_raw_spec in H1. destruct H1 as [_ [_ S1]]. rewrite S1.
      destruct (str_eqb (sl r) (sl r0)); [|exact Hsome]. destruct (sstate_of (sl r) s); [discriminate | contradiction].
    + inversion H1. subst. exact Hsome.
Qed.

(* no row keeps a selected state, when the swept list is the step table itself *)
Lemma sweep_rows sel new L : sel new = false -> forall s s', sweep sel new L s = Ok s' ->
  (forall r', In r' (steps s) -> sel (sst r') = true -> exists r, In r L /\ sl r = sl r' /\ sel (sst r) = true) ->
  forall r', In r' (steps s') -> sel (sst r') = false.
Proof.
  intros Hnew. induction L as [|r0 L IH]; intros s s' H Hcov r' Hin.
  - unfold sweep in H. cbn [foldM] in H. inversion H. subst s'.
    destruct (sel (sst r')) eqn:E; [|reflexivity]. destruct (Hcov r' Hin E) as [r [[] _]].
  - unfold sweep in H. cbn [foldM] in H. apply bind_ok in H. destruct H as [s1 [H1 H2]].
    apply (IH s1 s' H2); [|exact Hin]. clear IH H2 Hin r'. intros r1 Hin1 Hs1.
    destruct (sel (sst r0)) eqn:E0.
    + unfold set_sstate_raw, set_sstate in H1. destruct (find_step (sl r0) s) as [rr|] eqn:Ef.
      * guards H1. inversion H1. subst s1. clear H1.
        cbn [steps upd_step set_steps] in Hin1. apply in_map_iff in Hin1. destruct Hin1 as [q [Hq Hinq]].
        destruct (str_eqb (sl q) (sl r0)) eqn:Eq.
        -- subst r1. cbn [sst] in Hs1. congruence.
        -- subst r1. destruct (Hcov q Hinq Hs1) as [r [[Hr|Hr] [Hl Hs]]].
           ++ subst r. rewrite Hl, str_eqb_refl in Eq. discriminate.
           ++ exists r. repeat split; assumption.
      * inversion H1. subst s1. destruct (Hcov r1 Hin1 Hs1) as [r [[Hr|Hr] [Hl Hs]]].
        -- subst r. exfalso. unfold find_step in Ef.
           apply (find_none _ _ Ef) in Hin1. rewrite Hl, str_eqb_refl in Hin1. discriminate.
        -- exists r. repeat split; assumption.
    + inversion H1. subst s1. destruct (Hcov r1 Hin1 Hs1) as [r [[Hr|Hr] [Hl Hs]]].
      * subst r. congruence.
      * exists r. repeat split; assumption.
Qed.

Lemma pend_failed_rel L : forall s s', pend_failed L s = Ok s' -> mark_rel s s'.
Proof.
  unfold pend_failed. intros s s'. apply foldM_rel; [apply mark_rel_refl | apply mark_rel_trans|].
  intros s0 r s0' _ H. destruct (sstate_of (sl r) s0) as [[]|]; try (inversion H; subst; apply mark_rel_refl).
  destruct (is_detached (KStep, sl r) s0); [inversion H; subst; apply mark_rel_refl|].
  apply mark_step_pending_rel in H. exact H.
Qed.

Lemma mark_step_pending_failed l s s' :
  mark_step_pending l s = Ok s' -> sstate_of l s = Some SFailed -> sstate_of l s' = Some SPending.
Proof.
  unfold mark_step_pending, fuel_of. intros H Hf. cbn [mark_step_pending_f] in H. rewrite Hf in H.
  apply bind_ok in H. destruct H as [s1 [H1 H2]].
  pose proof (sstate_of_set _ _ _ _ _ H1 l) as S1. rewrite str_eqb_refl, Hf in S1.
  assert (R : mark_rel s1 s').
  { revert H2. apply foldM_rel; [apply mark_rel_refl | apply mark_rel_trans|].
    intros s0 f s0' _ H0. destruct (fstate_of f s0) as [[]|]; try (inversion H0; subst; apply mark_rel_refl).
    eapply (proj2 (mark_effect _)). exact H0. }
  destruct (mark_rel_sstate _ _ l R) as [E|[_ E]]; rewrite E; [exact S1 | reflexivity].
Qed.

(* an attached FAILED step that occurs in the list ends PENDING *)
Lemma pend_failed_hits L l : forall s s', pend_failed L s = Ok s' ->
  (exists r, In r L /\ sl r = l) -> is_detached (KStep, l) s = false ->
  (sstate_of l s = Some SFailed \/ sstate_of l s = Some SPending) -> sstate_of l s' = Some SPending.
Proof.
  induction L as [|r0 L IH]; intros s s' H [r [Hin Hl]] Hdet Hst; [destruct Hin|].
  unfold pend_failed in H. cbn [foldM] in H. apply bind_ok in H. destruct H as [s1 [H1 H2]].
  assert (R1 : mark_rel s s1).
  { destruct (sstate_of (sl r0) s) as [[]|]; try (inversion H1; subst; apply mark_rel_refl).
    destruct (is_detached (KStep, sl r0) s); [inversion H1; subst; apply mark_rel_refl|].
    apply mark_step_pending_rel in H1. exact H1. }
  pose proof (pend_failed_rel L s1 s' H2) as R2.
  assert (Hkeep : sstate_of l s1 = Some SPending -> sstate_of l s' = Some SPending).
  { intros E. destruct (mark_rel_sstate _ _ l R2) as [E2|[_ E2]]; rewrite E2; [exact E | reflexivity]. }
  destruct Hin as [Heq | Hin].
  - subst r0. rewrite Hl in H1. destruct Hst as [Hst|Hst]; rewrite Hst in H1.
    + rewrite Hdet in H1. apply Hkeep. eapply mark_step_pending_failed; eassumption.
    + inversion H1. subst s1. apply Hkeep. exact Hst.
  - apply (IH s1 s' H2); [exists r; split; assumption | |].
    + rewrite (frame_is_detached _ _ _ (mr_frame _ _ R1)). exact Hdet.
    + destruct (mark_rel_sstate _ _ l R1) as [E|[_ E]]; [rewrite E; exact Hst | right; exact E].
Qed.

Lemma nodup_find_step (l : list srow) (r : srow) :
  nodup_by str_eqb (map sl l) = true -> In r l -> find (fun m => str_eqb (sl m) (sl r)) l = Some r.
Proof.
  induction l as [|m l IH]; intros Hnd Hin; [destruct Hin|].
  cbn [map nodup_by] in Hnd. apply andb_true_iff in Hnd. destruct Hnd as [Hm Hnd].
  cbn [find]. destruct Hin as [Heq | Hin].
  - subst. rewrite str_eqb_refl. reflexivity.
  - destruct (str_eqb (sl m) (sl r)) eqn:E.
    + exfalso. apply negb_true_iff in Hm.
      assert (X : existsb (str_eqb (sl m)) (map sl l) = true).
      { apply existsb_exists. exists (sl r). split; [apply in_map; exact Hin | exact E]. }
      rewrite X in Hm. discriminate.
    + apply IH; assumption.
Qed.

Lemma is_running_false_iff x : is_running x = false <-> x <> SRunning.
Proof. destruct x; cbn; split; intro H; try reflexivity; try discriminate; try (intro; discriminate); contradiction. Qed.
Lemma is_checking_false_iff x : is_checking x = false <-> x <> SChecking.
Proof. destruct x; cbn; split; intro H; try reflexivity; try discriminate; try (intro; discriminate); contradiction. Qed.

Lemma mark_rel_rows (P : sstate -> bool) s s' : P SPending = true -> mark_rel s s' ->
  (forall r, In r (steps s) -> P (sst r) = true) -> forall r', In r' (steps s') -> P (sst r') = true.
Proof.
  intros HP [_ H] Hall. induction H as [|r r' a b [_ Hs] _ IH]; intros q Hq; [destruct Hq|].
  destruct Hq as [Hq|Hq].
  - subst q. destruct Hs as [Hs|Hs]; rewrite Hs; [apply Hall; left; reflexivity | exact HP].
  - apply IH; [|exact Hq]. intros x Hx. apply Hall. right. exact Hx.
Qed.

(* Theorem 2.  After reset_interrupted_steps:
   (a) no step row is RUNNING or CHECKING;
   (b) nothing but step states and (through mark_step_pending) BUILT -> OUTDATED file states
       changed: nodes, edges, stored hashes are the same;
   (c) a step that was RUNNING is PENDING, or FAILED when it is detached;
   (d) a step that was CHECKING is PENDING and keeps its stored hash. *)
Theorem reset_interrupted_post s s' :
  nodup_by str_eqb (map sl (steps s)) = true ->
  reset_interrupted s = Ok s' ->
  no_running_checking_b s' = true /\
  frame s s' /\
  (forall l, sstate_of l s = Some SRunning ->
     sstate_of l s' = Some SPending \/ (sstate_of l s' = Some SFailed /\ is_detached (KStep, l) s = true)) /\
  (forall l, sstate_of l s = Some SChecking -> sstate_of l s' = Some SPending /\ has_hash l s' = has_hash l s).
Proof.
  intros Hnd H. rewrite reset_interrupted_unfold in H.
  apply bind_ok in H. destruct H as [s1 [H1 H]]. apply bind_ok in H. destruct H as [s2 [H2 H3]].
  pose proof (sweep_spec _ _ _ _ _ H1) as [F1 [L1 S1]].
  pose proof (sweep_spec _ _ _ _ _ H2) as [F2 [L2 S2]].
  pose proof (pend_failed_rel _ _ _ H3) as R3.
  assert (F : frame s s').
  { eapply frame_trans; [exact F1|]. eapply frame_trans; [exact F2 | exact (mr_frame _ _ R3)]. }
  assert (Hnd1 : nodup_by str_eqb (map sl (steps s1)) = true) by (rewrite L1; exact Hnd).
  (* rows *)
  assert (Rows1 : forall r, In r (steps s1) -> is_running (sst r) = false).
  { apply (sweep_rows is_running SFailed (steps s) eq_refl s s1 H1).
    intros r' Hin Hs. exists r'. repeat split; assumption. }
  assert (Rows2c : forall r, In r (steps s2) -> is_checking (sst r) = false).
  { apply (sweep_rows is_checking SPending (steps s1) eq_refl s1 s2 H2).
    intros r' Hin Hs. exists r'. repeat split; assumption. }
  assert (Rows2r : forall r, In r (steps s2) -> is_running (sst r) = false).
  { (* the second sweep only writes PENDING *)
    intros r Hin. destruct (is_running (sst r)) eqn:E; [|reflexivity]. exfalso.
    assert (Hst : sstate_of (sl r) s2 = Some (sst r)).
    { unfold sstate_of, find_step. rewrite (nodup_find_step (steps s2) r); [reflexivity | rewrite L2; exact Hnd1 | exact Hin]. }
    destruct (S2 (sl r)) as [E2|[_ E2]].
    - rewrite Hst in E2. symmetry in E2. unfold sstate_of in E2.
      destruct (find_step (sl r) s1) as [q|] eqn:Eq; [|discriminate]. inversion E2.
      unfold find_step in Eq. apply find_some in Eq. destruct Eq as [Hq _].
      specialize (Rows1 q Hq). congruence.
    - rewrite Hst in E2. inversion E2 as [E3]. rewrite E3 in E. discriminate. }
  split; [|split; [exact F|split]].
  - unfold no_running_checking_b. apply forallb_forall. intros r Hin.
    pose proof (mark_rel_rows (fun x => negb (is_running x) && negb (is_checking x)) s2 s' eq_refl R3) as HR.
    cbv beta in HR. assert (X : negb (is_running (sst r)) && negb (is_checking (sst r)) = true).
    { apply HR; [|exact Hin]. intros q Hq. rewrite (Rows2r q Hq), (Rows2c q Hq). reflexivity. }
    destruct (sst r); cbn in X |- *; try reflexivity; discriminate.
  - (* was RUNNING *)
    intros l Hl. unfold sstate_of in Hl. destruct (find_step l s) as [r|] eqn:Er; [|discriminate].
    inversion Hl as [Hr]. unfold find_step in Er. apply find_some in Er. destruct Er as [Hin El].
    apply str_eqb_eq in El. subst l.
    assert (E1 : sstate_of (sl r) s1 = Some SFailed).
    { eapply sweep_hits; [exact H1 | exact Hin | rewrite Hr; reflexivity|].
      unfold sstate_of, find_step. rewrite (nodup_find_step (steps s) r Hnd Hin). discriminate. }
    assert (E2 : sstate_of (sl r) s2 = Some SFailed).
    { destruct (S2 (sl r)) as [E|[_ E]]; [rewrite E; exact E1|]. exfalso.
      (* the second sweep would have had to select a row with this label *)
      clear - H2 E E1 Hnd1.
      assert (G : forall L s0 s0', sweep is_checking SPending L s0 = Ok s0' ->
                    (forall q, In q L -> sl q = sl r -> is_checking (sst q) = false) ->
                    sstate_of (sl r) s0' = sstate_of (sl r) s0).
      { induction L as [|q L IH]; intros s0 s0' HH Hno; unfold sweep in HH; cbn [foldM] in HH.
        - inversion HH. reflexivity.
        - apply bind_ok in HH. destruct HH as [sx [Hx Hy]].
          rewrite (IH sx s0' Hy); [|intros q' Hq'; apply Hno; right; exact Hq'].
          destruct (is_checking (sst q)) eqn:Eq; [|inversion Hx; reflexivity].
          apply set_sstate_raw_spec in Hx. destruct Hx as [_ [_ Sx]]. rewrite Sx.
          destruct (str_eqb (sl r) (sl q)) eqn:Eqq; [|reflexivity].
          apply str_eqb_eq in Eqq. rewrite (Hno q (or_introl eq_refl) (eq_sym Eqq)) in Eq. discriminate. }
      rewrite (G (steps s1) s1 s2 H2) in E; [congruence|].
      intros q Hq Hlq. unfold sstate_of, find_step in E1. rewrite <- Hlq in E1.
      rewrite (nodup_find_step (steps s1) q Hnd1 Hq) in E1. inversion E1 as [E3]. rewrite E3. reflexivity. }
    destruct (is_detached (KStep, sl r) s) eqn:Ed.
    + destruct (mark_rel_sstate _ _ (sl r) R3) as [E|[_ E]]; [right | left; exact E].
      split; [rewrite E; exact E2 | reflexivity].
    + left. eapply pend_failed_hits; [exact H3 | | | left; exact E2].
      * unfold sstate_of in E2. destruct (find_step (sl r) s2) as [q|] eqn:Eq; [|discriminate].
        unfold find_step in Eq. apply find_some in Eq. destruct Eq as [Hq Elq]. apply str_eqb_eq in Elq.
        exists q. split; assumption.
      * rewrite (frame_is_detached _ _ _ F2), (frame_is_detached _ _ _ F1). exact Ed.
  - (* was CHECKING *)
    intros l Hl. split; [|apply frame_has_hash; exact F].
    unfold sstate_of in Hl. destruct (find_step l s) as [r|] eqn:Er; [|discriminate].
    inversion Hl as [Hr]. unfold find_step in Er. apply find_some in Er. destruct Er as [Hin El].
    apply str_eqb_eq in El. subst l.
    assert (E1 : sstate_of (sl r) s1 = Some SChecking).
    { destruct (S1 (sl r)) as [E|[_ E]].
      - rewrite E. unfold sstate_of, find_step. rewrite (nodup_find_step (steps s) r Hnd Hin), Hr. reflexivity.
      - exfalso. (* the first sweep only touches labels of RUNNING rows *)
        assert (G : forall L s0 s0', sweep is_running SFailed L s0 = Ok s0' ->
                      (forall q, In q L -> sl q = sl r -> is_running (sst q) = false) ->
                      sstate_of (sl r) s0' = sstate_of (sl r) s0).
        { induction L as [|q L IH]; intros s0 s0' HH Hno; unfold sweep in HH; cbn [foldM] in HH.
          - inversion HH. reflexivity.
          - apply bind_ok in HH. destruct HH as [sx [Hx Hy]].
            rewrite (IH sx s0' Hy); [|intros q' Hq'; apply Hno; right; exact Hq'].
            destruct (is_running (sst q)) eqn:Eq; [|inversion Hx; reflexivity].
            apply set_sstate_raw_spec in Hx. destruct Hx as [_ [_ Sx]]. rewrite Sx.
            destruct (str_eqb (sl r) (sl q)) eqn:Eqq; [|reflexivity].
            apply str_eqb_eq in Eqq. rewrite (Hno q (or_introl eq_refl) (eq_sym Eqq)) in Eq. discriminate. }
        rewrite (G (steps s) s s1 H1) in E.
        + unfold sstate_of, find_step in E. rewrite (nodup_find_step (steps s) r Hnd Hin), Hr in E. discriminate.
        + intros q Hq Hlq. pose proof (nodup_find_step (steps s) q Hnd Hq) as Fq. rewrite Hlq in Fq.
          rewrite (nodup_find_step (steps s) r Hnd Hin) in Fq. inversion Fq. subst q. rewrite Hr. reflexivity. }
    assert (E2 : sstate_of (sl r) s2 = Some SPending).
    { unfold sstate_of in E1. destruct (find_step (sl r) s1) as [q|] eqn:Eq; [|discriminate].
      inversion E1 as [Hq]. unfold find_step in Eq. apply find_some in Eq. destruct Eq as [Hinq Elq].
      apply str_eqb_eq in Elq. rewrite <- Elq.
      eapply sweep_hits; [exact H2 | exact Hinq | rewrite Hq; reflexivity|].
      unfold sstate_of, find_step. rewrite (nodup_find_step (steps s1) q Hnd1 Hinq). discriminate. }
    destruct (mark_rel_sstate _ _ (sl r) R3) as [E|[_ E]]; rewrite E; [exact E2 | reflexivity].
Qed.

(* ------------------------------------------------------------------------------------------ *)
(* Outputs of interrupted steps                                                                *)
(* ------------------------------------------------------------------------------------------ *)
Lemma frame_built s s' f : frame s s' -> fstate_of f s' = Some FBuilt -> fstate_of f s = Some FBuilt.
Proof.
  intros F H. destruct (frame_fstate _ _ f F) as [E|[_ E]]; [rewrite <- E; exact H | rewrite E in H; discriminate].
Qed.

Lemma frame_products s s' k : frame s s' -> products k s' = products k s.
Proof. intros [H _ _ _]. unfold products. rewrite H. reflexivity. Qed.

Lemma map_filter_nil {A B} (g : A -> B) (p q : A -> bool) l :
  (forall x, In x l -> q x = true -> p x = true) -> map g (filter p l) = [] -> map g (filter q l) = [].
Proof.
  intros H. induction l as [|x l IH]; intros E; [reflexivity|]. cbn [filter] in *.
  destruct (q x) eqn:Eq.
  - rewrite (H x (or_introl eq_refl) Eq) in E. discriminate.
  - apply IH; [intros y Hy; apply H; right; exact Hy|].
    destruct (p x); [discriminate | exact E].
Qed.

(* a frame (in particular reset_interrupted_steps) never makes a product BUILT *)
Lemma frame_built_products s s' l : frame s s' -> built_products l s = [] -> built_products l s' = [].
Proof.
  intros F. unfold built_products, file_products_in. rewrite (frame_products _ _ _ F).
  apply map_filter_nil. intros k _ H. apply andb_true_iff in H. destruct H as [Hk H].
  rewrite Hk. cbn [andb]. destruct (fstate_of (snd k) s') as [x|] eqn:E; [|discriminate].
  destruct x; try discriminate. rewrite (frame_built _ _ _ F E). reflexivity.
Qed.

Lemma fstate_of_set_outdated f s s' : set_fstate f FOutdated s = Ok s' ->
  fstate_of f s <> None -> fstate_of f s' = Some FOutdated.
Proof.
  unfold set_fstate, set_fstate_hash, fstate_of. destruct (find_file f s) as [r|] eqn:E; [|intros _ H; contradiction].
  intros H _. guards H. inversion H. subst s'.
  unfold find_file, upd_file. cbn [files set_files].
  rewrite (find_map_upd fl); [|intros r0; destruct (str_eqb (fl r0) f); reflexivity].
  unfold find_file in E. rewrite E. pose proof (find_some _ _ E) as [_ El]. rewrite El. reflexivity.
Qed.

Lemma mark_file_outdated_spec f s s' : mark_file_outdated f s = Ok s' ->
  mark_rel s s' /\ fstate_of f s' = Some FOutdated.
Proof.
  unfold mark_file_outdated, fuel_of. intros H. split; [eapply (proj2 (mark_effect _)); exact H|].
  cbn [mark_file_outdated_f] in H. destruct (fstate_of f s) as [[]|] eqn:E; try discriminate.
  - apply bind_ok in H. destruct H as [s1 [H1 H2]].
    assert (E1 : fstate_of f s1 = Some FOutdated) by (eapply fstate_of_set_outdated; [exact H1 | rewrite E; discriminate]).
    assert (R : mark_rel s1 s').
    { revert H2. apply foldM_rel; [apply mark_rel_refl | apply mark_rel_trans|].
      intros s0 l s0' _ H0. eapply (proj1 (mark_effect _)). exact H0. }
    destruct (frame_fstate _ _ f (mr_frame _ _ R)) as [E2|[_ E2]]; rewrite E2; [exact E1 | reflexivity].
  - inversion H. subst. exact E.
Qed.

Lemma outdate_all L : forall s s', foldM (fun s f => mark_file_outdated f s) L s = Ok s' ->
  mark_rel s s' /\ forall f, In f L -> fstate_of f s' = Some FOutdated.
Proof.
  induction L as [|f0 L IH]; intros s s' H; cbn [foldM] in H.
  - inversion H. subst. split; [apply mark_rel_refl | intros f []].
  - apply bind_ok in H. destruct H as [s1 [H1 H2]]. apply mark_file_outdated_spec in H1. destruct H1 as [R1 E1].
    apply IH in H2. destruct H2 as [R2 E2]. split; [eapply mark_rel_trans; eassumption|].
    intros f [Hf|Hf]; [subst f0|apply E2; exact Hf].
    destruct (frame_fstate _ _ f (mr_frame _ _ R2)) as [E|[_ E]]; rewrite E; [exact E1 | reflexivity].
Qed.

(* reset_for_rerun, committed before the command starts, leaves no product of the step BUILT *)
Lemma reset_for_rerun_post l s s' : reset_for_rerun l s = Ok s' -> built_products l s' = [].
Proof.
  unfold reset_for_rerun. intros H.
  repeat (apply bind_ok in H; let sx := fresh "sx" in let Hx := fresh "Hx" in destruct H as [sx [Hx H]]).
  apply outdate_all in H. destruct H as [R E].
  unfold built_products, file_products_in at 1. rewrite (frame_products _ _ _ (mr_frame _ _ R)).
  match goal with |- map snd (filter ?q ?L) = [] =>
    destruct (filter q L) as [|k rest] eqn:Ef; [reflexivity|] end. exfalso.
  assert (Hk : In k (k :: rest)) by (left; reflexivity). rewrite <- Ef in Hk. apply filter_In in Hk.
  destruct Hk as [Hin Hk]. apply andb_true_iff in Hk. destruct Hk as [Hkind Hb].
  destruct (fstate_of (snd k) s') as [x|] eqn:Ex; [|discriminate]. destruct x; try discriminate.
  pose proof (frame_built _ _ _ (mr_frame _ _ R) Ex) as Eb.
  assert (Hl : In (snd k) (file_products_in l is_built sx2)).
  { unfold file_products_in. apply in_map. apply filter_In. split; [exact Hin|]. rewrite Hkind, Eb. reflexivity. }
  rewrite (E _ Hl) in Ex. discriminate.
Qed.

Lemma running_row s l : sstate_of l s = Some SRunning ->
  exists r, In r (steps s) /\ sl r = l /\ sst r = SRunning.
Proof.
  unfold sstate_of. destruct (find_step l s) as [r|] eqn:E; [|discriminate]. intros H. inversion H.
  unfold find_step in E. apply find_some in E. destruct E as [Hin El]. apply str_eqb_eq in El.
  exists r. repeat split; assumption.
Qed.

(* Theorem 2, second half: what a restart knows about a step that was RUNNING.
   [inv_running_nohash_b] is I5c of GraphInv.v (a RUNNING step has no stored hash);
   [built_products l s = []] is what reset_for_rerun established before the command started
   (reset_for_rerun_post) -- both are facts about the crashed state. *)
Theorem interrupted_outputs_not_up_to_date s s' l :
  nodup_by str_eqb (map sl (steps s)) = true -> inv_running_nohash_b s = true ->
  reset_interrupted s = Ok s' -> sstate_of l s = Some SRunning -> built_products l s = [] ->
  has_hash l s' = false /\ built_products l s' = [] /\
  (sstate_of l s' = Some SPending \/ sstate_of l s' = Some SFailed).
Proof.
  intros Hnd Hnh H Hl Hb. destruct (reset_interrupted_post s s' Hnd H) as [_ [F [HR _]]].
  split; [|split].
  - rewrite (frame_has_hash _ _ _ F). destruct (running_row s l Hl) as [r [Hin [El Er]]].
    unfold inv_running_nohash_b in Hnh. rewrite forallb_forall in Hnh. specialize (Hnh r Hin).
    rewrite Er, El in Hnh. cbn in Hnh. apply negb_true_iff in Hnh. exact Hnh.
  - apply (frame_built_products _ _ _ F Hb).
  - destruct (HR l Hl) as [E|[E _]]; [left | right]; exact E.
Qed.

(* operations of other jobs that only move states (dispatch, validate, mark pending, hold,
   release) keep the two facts about a started step *)
Lemma started_kept_by_frame s s' l : frame s s' ->
  has_hash l s = false -> built_products l s = [] -> has_hash l s' = false /\ built_products l s' = [].
Proof. intros F H1 H2. split; [rewrite (frame_has_hash _ _ _ F); exact H1 | apply (frame_built_products _ _ _ F H2)]. Qed.

Lemma upd_step_frame l g s : frame s (upd_step l g s).
Proof. constructor; try reflexivity. cbn. apply Forall2_refl. apply Rf_refl. Qed.

Lemma state_only_ops_frame o s s' :
  match o with OpDispatch _ | OpValidatePending _ | OpMarkStepPending _ | OpHold _ | OpRelease _ => True | _ => False end ->
  step_op o s = Ok s' -> frame s s'.
Proof.
  destruct o; intros Hk H; try contradiction; cbn [step_op] in H.
  - apply set_sstate_frame in H. apply H.
  - apply set_sstate_frame in H. apply H.
  - apply mark_step_pending_rel in H. apply H.
  - unfold hold in H. guards H. inversion H. apply upd_step_frame.
  - unfold release in H. destruct (find_step label s); [|discriminate].
    guards H. inversion H. apply upd_step_frame.
Qed.

(* ------------------------------------------------------------------------------------------ *)
(* 4. Orphans                                                                                  *)
(* ------------------------------------------------------------------------------------------ *)
Lemma same_paths_refl d : same_paths d d = true.
Proof.
  unfold same_paths. assert (X : forallb (fun p => mem_str p (disk_paths d)) (disk_paths d) = true).
  { apply forallb_forall. intros p Hp. unfold mem_str. apply existsb_exists. exists p. split; [exact Hp | apply str_eqb_refl]. }
  rewrite X. reflexivity.
Qed.

(* a kill before the first cleanup transaction commits loses nothing: the restarted build
   recomputes the same queue from the same graph *)
Theorem crash_no_orphans_W0 opt x : no_orphans_at W0 opt x.
Proof.
  unfold no_orphans_at, crash_then_restart. cbn [cleanup_until bind]. intros y z H1 H2.
  rewrite H1 in H2. inversion H2. apply same_paths_refl.
Qed.

Lemma no_orphans_b_spec w opt x : no_orphans_at w opt x <-> no_orphans_b w opt x = true.
Proof.
  unfold no_orphans_at, no_orphans_b. split.
  - intros H. destruct (cleanup opt x) as [y|t|t]; try reflexivity.
    destruct (crash_then_restart w opt x) as [z|t|t]; try reflexivity. apply H; reflexivity.
  - intros H y z H1 H2. rewrite H1, H2 in H. exact H.
Qed.

(* D6: kill after the delete_detached transaction committed, before the files were removed *)
Theorem crash_no_orphans_refuted_W2 :
  exists opt x, inv_b (g x) = true /\ inv_succeeded_b (g x) = true /\ ~ no_orphans_at W2 opt x.
Proof.
  exists [], d6_sys. split; [vm_compute; reflexivity|]. split; [vm_compute; reflexivity|].
  rewrite no_orphans_b_spec. assert (E : no_orphans_b W2 [] d6_sys = false) by (vm_compute; reflexivity).
  rewrite E. discriminate.
Qed.

(* D6b: kill after the revert_optional_steps transaction committed *)
Theorem crash_no_orphans_refuted_W1 :
  exists opt x, inv_b (g x) = true /\ inv_succeeded_b (g x) = true /\ ~ no_orphans_at W1 opt x.
Proof.
  exists [s_o], d6b_sys. split; [vm_compute; reflexivity|]. split; [vm_compute; reflexivity|].
  rewrite no_orphans_b_spec. assert (E : no_orphans_b W1 [s_o] d6b_sys = false) by (vm_compute; reflexivity).
  rewrite E. discriminate.
Qed.

(* on the two witnesses the other windows are clean: the defect is exactly the lost queue *)
Lemma witnesses_clean_W3 : no_orphans_at W3 [] d6_sys /\ no_orphans_at W3 [s_o] d6b_sys.
Proof. split; apply no_orphans_b_spec; vm_compute; reflexivity. Qed.

(* Everything the uninterrupted cleanup removes is, before its first transaction, a file row of
   the stored graph in state VOLATILE, BUILT or OUTDATED: the queue is a function of the graph
   that the restarted build still has (W0); after the commits the rows are PLANNED or gone. *)
Lemma omap_In {A B} (f : A -> option B) l y : In y (omap f l) -> exists x, In x l /\ f x = Some y.
Proof.
  induction l as [|x l IH]; cbn [omap]; [intros []|]. destruct (f x) as [b|] eqn:E.
  - intros [H|H]; [subst; exists x; split; [left; reflexivity | exact E]|].
    destruct (IH H) as [x' [Hin Hf]]. exists x'. split; [right; exact Hin | exact Hf].
  - intros H. destruct (IH H) as [x' [Hin Hf]]. exists x'. split; [right; exact Hin | exact Hf].
Qed.

Lemma queue_entry_row r e : queue_entry r = Some e ->
  fst e = fl r /\ (fstt r = FVolatile \/ fstt r = FBuilt \/ fstt r = FOutdated).
Proof.
  unfold queue_entry. destruct (fstt r) eqn:E; try discriminate.
  - destruct (fh r); [|discriminate]. intros H. inversion H. cbn. auto.
  - destruct (fh r); [|discriminate]. intros H. inversion H. cbn. auto.
  - intros H. inversion H. cbn. auto.
Qed.

Lemma revert_queue_recorded opt s s' q : revert_optional opt s = Ok (s', q) ->
  forall e, In e q -> exists r, In r (files s) /\ fl r = fst e /\
                                (fstt r = FVolatile \/ fstt r = FBuilt \/ fstt r = FOutdated) /\
                                existsb (fun l => mem_str (fl r) (file_sinks_of_step l s)) opt = true.
Proof.
  unfold revert_optional. intros H. apply bind_ok in H. destruct H as [s1 [_ H]].
  apply bind_ok in H. destruct H as [s2 [_ H]]. inversion H. subst. intros e He.
  apply omap_In in He. destruct He as [r [Hin Hq]]. unfold optional_outputs in Hin. apply filter_In in Hin.
  destruct Hin as [Hin Hopt]. apply queue_entry_row in Hq. destruct Hq as [Hl Hs].
  exists r. repeat split; auto.
Qed.

Lemma dd_queue_recorded s s' q : delete_detached_q s = Ok (s', q) ->
  forall e, In e q -> exists r, In r (files s) /\ fl r = fst e /\
                                (fstt r = FVolatile \/ fstt r = FBuilt \/ fstt r = FOutdated) /\
                                find_file (fl r) s' = None.
Proof.
  unfold delete_detached_q. intros H. apply bind_ok in H. destruct H as [s1 [_ H]]. inversion H. subst.
  intros e He. apply omap_In in He. destruct He as [r [Hin Hq]]. unfold deleted_files in Hin.
  apply filter_In in Hin. destruct Hin as [Hin Hgone]. apply queue_entry_row in Hq. destruct Hq as [Hl Hs].
  exists r. repeat split; auto. destruct (find_file (fl r) s'); [discriminate | reflexivity].
Qed.

(* ------------------------------------------------------------------------------------------ *)
(* 3. Stray UNCONFIRMED rows                                                                   *)
(* ------------------------------------------------------------------------------------------ *)
Definition Ru (P : str -> Prop) (r r' : frow) : Prop :=
  fl r' = fl r /\ (fstt r' = FUnconfirmed -> fstt r = FUnconfirmed /\ P (fl r)).

Lemma Rf_Ru r r' : Rf r r' -> Ru (fun _ => True) r r'.
Proof. intros [Hl [H|H]]; split; try exact Hl; intros E; [rewrite <- H; auto | rewrite H in E; discriminate]. Qed.

Lemma Forall2_impl {A} (R R' : A -> A -> Prop) a b : (forall x y, R x y -> R' x y) -> Forall2 R a b -> Forall2 R' a b.
Proof. intros H F. induction F; constructor; auto. Qed.
Lemma Forall2_trans_gen {A} (R1 R2 R3 : A -> A -> Prop) :
  (forall x y z, R1 x y -> R2 y z -> R3 x z) ->
  forall a b c, Forall2 R1 a b -> Forall2 R2 b c -> Forall2 R3 a c.
Proof.
  intros H a b c Hab. revert c. induction Hab; intros c Hbc; inversion Hbc; subst; constructor; eauto.
Qed.
Lemma Forall2_In_r {A} (R : A -> A -> Prop) a b y : Forall2 R a b -> In y b -> exists x, In x a /\ R x y.
Proof.
  induction 1 as [|x y0 a b Hxy _ IH]; intros Hin; [destruct Hin|]. destruct Hin as [E|Hin].
  - subst. exists x. split; [left; reflexivity | exact Hxy].
  - destruct (IH Hin) as [x' [Hx Hr]]. exists x'. split; [right; exact Hx | exact Hr].
Qed.

Lemma Ru_comp P Q a b c : Ru P a b -> Ru Q b c -> Ru (fun l => P l /\ Q l) a c.
Proof.
  intros [H1 H2] [H3 H4]. split; [congruence|]. intros E. destruct (H4 E) as [E2 HQ]. destruct (H2 E2) as [E1 HP].
  split; [exact E1|]. rewrite H1 in HQ. split; assumption.
Qed.

Lemma transition_confirmed old k ns a : transition CConfirmed old k = Some (ns, a) -> ns <> FUnconfirmed.
Proof. destruct old, k; cbn; intros H; inversion H; discriminate. Qed.

Lemma Forall2_refl_in {A} (R : A -> A -> Prop) l : (forall x, In x l -> R x x) -> Forall2 R l l.
Proof. induction l as [|x l IH]; intros H; constructor; [apply H; left; reflexivity | apply IH; intros y Hy; apply H; right; exact Hy]. Qed.

Lemma set_fstate_hash_files p ns hh s s' : set_fstate_hash p ns hh s = Ok s' -> ns <> FUnconfirmed ->
  nodes s' = nodes s /\ Forall2 (Ru (fun l => l <> p)) (files s) (files s').
Proof.
  unfold set_fstate_hash. destruct (find_file p s) as [r|] eqn:E.
  - intros H Hns. guards H. inversion H. subst s'. split; [reflexivity|]. cbn. apply Forall2_map_r. intros x.
    destruct (str_eqb (fl x) p) eqn:Ex.
    + split; [reflexivity|]. cbn. intros C. contradiction.
    + split; [reflexivity|]. intros C. split; [exact C|]. intros C2. subst p. rewrite str_eqb_refl in Ex. discriminate.
  - intros H _. inversion H. subst. split; [reflexivity|]. apply Forall2_refl_in. intros x Hx. split; [reflexivity|].
    intros C. split; [exact C|]. intros C2. subst p. unfold find_file in E.
    apply (find_none _ _ E) in Hx. rewrite str_eqb_refl in Hx. discriminate.
Qed.

Lemma mark_consumers_pending_rel f s s' : mark_consumers_pending f s = Ok s' -> mark_rel s s'.
Proof.
  unfold mark_consumers_pending. apply foldM_rel; [apply mark_rel_refl | apply mark_rel_trans|].
  intros s0 l s0' _ H. apply mark_step_pending_rel in H. exact H.
Qed.
Lemma handle_updated_file_rel l s s' : handle_updated_file l s = Ok s' -> mark_rel s s'.
Proof.
  unfold handle_updated_file. destruct (fstate_of l s) as [[]|]; intros H; try (inversion H; subst; apply mark_rel_refl).
  - apply mark_consumers_pending_rel in H. exact H.
  - destruct (step_creator_of_file l s); [apply mark_step_pending_rel in H; exact H | inversion H; subst; apply mark_rel_refl].
  - destruct (step_creator_of_file l s); [apply mark_step_pending_rel in H; exact H | inversion H; subst; apply mark_rel_refl].
Qed.
Lemma handle_deleted_file_rel l s s' : handle_deleted_file l s = Ok s' -> mark_rel s s'.
Proof.
  unfold handle_deleted_file. intros H. apply bind_ok in H. destruct H as [s1 [H1 H2]].
  apply mark_consumers_pending_rel in H2. eapply mark_rel_trans; [|exact H2].
  destruct (fstate_of l s) as [[]|]; try (inversion H1; subst; apply mark_rel_refl).
  destruct (step_creator_of_file l s); [apply mark_step_pending_rel in H1; exact H1 | inversion H1; subst; apply mark_rel_refl].
Qed.

Lemma mark_rel_Ru s s' : mark_rel s s' -> nodes s' = nodes s /\ Forall2 (Ru (fun _ => True)) (files s) (files s').
Proof. intros [[H1 _ _ H2] _]. split; [exact H1|]. eapply Forall2_impl; [apply Rf_Ru | exact H2]. Qed.

(* one application of a CONFIRMED hash result to path p *)
Lemma confirm_one p h s s' : update_file_hashes CConfirmed [(p, h)] s = Ok s' ->
  nodes s' = nodes s /\ Forall2 (Ru (fun l => l <> p)) (files s) (files s').
Proof.
  unfold update_file_hashes. intros H. apply bind_ok in H. destruct H as [plan [Hp H]].
  cbn [foldM fst snd] in Hp. apply bind_ok in Hp. destruct Hp as [acc [Hp1 Hp2]]. inversion Hp2. subst acc. clear Hp2.
  destruct (find_file p s) as [r|] eqn:Ef; [|discriminate].
  destruct (transition CConfirmed (fstt r) (is_some h)) as [[ns act]|] eqn:Et; [|discriminate].
  inversion Hp1. subst plan. clear Hp1. cbn [app foldM p_path p_state p_hash] in H.
  apply bind_ok in H. destruct H as [s1 [H1 H]]. apply bind_ok in H1. destruct H1 as [s1' [H1 H1']].
  inversion H1'. subst s1'. clear H1'.
  apply set_fstate_hash_files in H1; [|eapply transition_confirmed; exact Et]. destruct H1 as [N1 F1].
  cbv zeta in H. apply bind_ok in H. destruct H as [s2 [H2 H]]. apply bind_ok in H. destruct H as [s3 [H3 H4]].
  assert (R2 : mark_rel s1 s2).
  { revert H2. apply (foldM_rel mark_rel); [apply mark_rel_refl | apply mark_rel_trans|]. intros a b c _. apply handle_updated_file_rel. }
  assert (R3 : mark_rel s2 s3).
  { revert H3. apply (foldM_rel mark_rel); [apply mark_rel_refl | apply mark_rel_trans|]. intros a b c _. apply handle_deleted_file_rel. }
  assert (R4 : mark_rel s3 s').
  { revert H4. apply (foldM_rel mark_rel); [apply mark_rel_refl | apply mark_rel_trans|]. intros a b c _. apply mark_consumers_pending_rel. }
  assert (R : mark_rel s1 s') by (eapply mark_rel_trans; [exact R2 | eapply mark_rel_trans; eassumption]).
  apply mark_rel_Ru in R. destruct R as [N2 F2]. split; [congruence|].
  eapply Forall2_trans_gen; [|exact F1 | exact F2].
  intros a b c Hab Hbc. pose proof (Ru_comp _ _ _ _ _ Hab Hbc) as [Hl Hu]. split; [exact Hl|].
  intros E. destruct (Hu E) as [E1 [HP _]]. split; assumption.
Qed.

Lemma fstate_eqb_eq a b : fstate_eqb a b = true -> a = b.
Proof. destruct a, b; cbn; intros H; try reflexivity; discriminate. Qed.

Lemma confirm_all d L : forall s s',
  foldM (fun s p => update_file_hashes CConfirmed [(p, disk_get p d)] s) L s = Ok s' ->
  nodes s' = nodes s /\ Forall2 (Ru (fun l => ~ In l L)) (files s) (files s').
Proof.
  induction L as [|p L IH]; intros s s' H; cbn [foldM] in H.
  - inversion H. subst. split; [reflexivity|]. apply Forall2_refl. intros x. split; [reflexivity|].
    intros E. split; [exact E | intros []].
  - apply bind_ok in H. destruct H as [s1 [H1 H2]]. apply confirm_one in H1. destruct H1 as [N1 F1].
    apply IH in H2. destruct H2 as [N2 F2]. split; [congruence|].
    eapply Forall2_trans_gen; [|exact F1 | exact F2].
    intros a b c Hab Hbc. pose proof (Ru_comp _ _ _ _ _ Hab Hbc) as [Hl Hu]. split; [exact Hl|].
    intros E. destruct (Hu E) as [E1 [HP HQ]]. split; [exact E1|]. intros [C|C]; [apply HP; symmetry; exact C | exact (HQ C)].
Qed.

(* Theorem 3.  A file left UNCONFIRMED by a kill between its declaration and the application
   of its hash job is resolved at the next start: rescan_files applies the fresh hash with
   cause CONFIRMED, the only cause with a transition out of UNCONFIRMED, so that afterwards no
   attached file is UNCONFIRMED (it is CONFIRMED or MISSING, possibly degraded further). *)
Theorem stray_unconfirmed_resolved d s s' :
  rescan_unconfirmed d s = Ok s' -> attached_unconfirmed s' = [].
Proof.
  unfold rescan_unconfirmed. intros H. apply confirm_all in H. destruct H as [N F].
  unfold attached_unconfirmed at 1. rewrite filter_nil; [reflexivity|]. intros r' Hin.
  destruct (fstate_eqb (fstt r') FUnconfirmed) eqn:E; [|reflexivity]. cbn [andb]. apply fstate_eqb_eq in E.
  destruct (Forall2_In_r _ _ _ _ F Hin) as [r [Hr [Hl Hu]]]. destruct (Hu E) as [E1 Hno].
  destruct (is_detached (KFile, fl r') s') eqn:Ed; [reflexivity|]. exfalso. apply Hno.
  unfold attached_unconfirmed. apply in_map_iff. exists r. split; [reflexivity|]. apply filter_In.
  split; [exact Hr|]. rewrite E1. cbn [fstate_eqb fstate_code N.eqb Pos.eqb andb].
  unfold is_detached, find_node in *. rewrite N, Hl in Ed. rewrite Ed. reflexivity.
Qed.

(* CONFIRMED is the cause with transitions out of UNCONFIRMED to a settled static state *)
Lemma confirmed_resolves known :
  exists ns a, transition CConfirmed FUnconfirmed known = Some (ns, a) /\ (ns = FConfirmed \/ ns = FMissing).
Proof. destruct known; cbn; eauto. Qed.

(* ------------------------------------------------------------------------------------------ *)
(* 4b. A kill after the files were removed (window W3)                                         *)
(* ------------------------------------------------------------------------------------------ *)
Lemma filter_id {A} (p : A -> bool) l : (forall x, In x l -> p x = true) -> filter p l = l.
Proof.
  induction l as [|x l IH]; intros H; [reflexivity|]. cbn [filter]. rewrite (H x (or_introl eq_refl)).
  f_equal. apply IH. intros y Hy. apply H. right. exact Hy.
Qed.

Lemma mem_str_In x l : mem_str x l = true <-> In x l.
Proof.
  unfold mem_str. rewrite existsb_exists. split.
  - intros [y [Hy E]]. apply str_eqb_eq in E. subst. exact Hy.
  - intros H. exists x. split; [exact H | apply str_eqb_refl].
Qed.

(* removal on the abstract disk *)
Lemma remove_one_absent d e : ~ In (fst e) (disk_paths d) -> remove_one d e = d.
Proof.
  intros H. unfold remove_one.
  assert (Hall : forall x, In x d -> negb (str_eqb (fst x) (fst e)) = true).
  { intros x Hx. destruct (str_eqb (fst x) (fst e)) eqn:E; [|reflexivity]. exfalso. apply H.
    apply str_eqb_eq in E. rewrite <- E. unfold disk_paths. apply in_map. exact Hx. }
  destruct (snd e) as [h|].
  - unfold disk_get. destruct (find (fun x => str_eqb (fst x) (fst e)) d) as [x|] eqn:Ef; [|reflexivity].
    apply find_some in Ef. destruct Ef as [Hx E]. specialize (Hall x Hx). rewrite E in Hall. discriminate.
  - unfold disk_remove. apply filter_id. exact Hall.
Qed.

Lemma remove_one_paths d e p : In p (disk_paths (remove_one d e)) -> In p (disk_paths d).
Proof.
  unfold remove_one. destruct (snd e) as [h|].
  - destruct (disk_get (fst e) d) as [h'|]; [|auto]. destruct (h =? h'); [|auto].
    unfold disk_paths, disk_remove. intros H. apply in_map_iff in H. destruct H as [x [E Hx]].
    apply filter_In in Hx. subst. apply in_map. apply Hx.
  - unfold disk_paths, disk_remove. intros H. apply in_map_iff in H. destruct H as [x [E Hx]].
    apply filter_In in Hx. subst. apply in_map. apply Hx.
Qed.

Lemma remove_deletable_paths q : forall d p, In p (disk_paths (remove_deletable q d)) -> In p (disk_paths d).
Proof.
  induction q as [|e q IH]; intros d p H; [exact H|]. unfold remove_deletable in *. cbn [fold_left] in H.
  apply IH in H. eapply remove_one_paths. exact H.
Qed.

Lemma remove_deletable_absent q : forall d, (forall e, In e q -> ~ In (fst e) (disk_paths d)) -> remove_deletable q d = d.
Proof.
  induction q as [|e q IH]; intros d H; [reflexivity|]. unfold remove_deletable in *. cbn [fold_left].
  rewrite remove_one_absent; [|apply H; left; reflexivity]. apply IH. intros e' He'. apply H. right. exact He'.
Qed.

Lemma remove_volatile_gone q : forall d p, In (p, None) q -> ~ In p (disk_paths (remove_deletable q d)).
Proof.
  induction q as [|e q IH]; intros d p Hin; [destruct Hin|]. unfold remove_deletable in *. cbn [fold_left].
  destruct Hin as [E|Hin]; [|apply IH; exact Hin]. subst e. intros H. apply remove_deletable_paths in H.
  unfold remove_one in H. cbn [fst snd] in H. unfold disk_paths, disk_remove in H.
  apply in_map_iff in H. destruct H as [x [E Hx]]. apply filter_In in Hx. destruct Hx as [_ Hx].
  rewrite E, str_eqb_refl in Hx. discriminate.
Qed.

(* revert_optional_steps *)
Definition opt_out (opt : list str) (s : st) (l : str) : bool :=
  existsb (fun o => mem_str l (file_sinks_of_step o s)) opt.
Definition Tr (opt : list str) (s : st) (r r' : frow) : Prop :=
  fl r' = fl r /\ (fstt r' = fstt r \/ fstt r' = FPlanned).

Lemma set_planned_spec l s s' : set_fstate_hash l FPlanned (Some None) s = Ok s' ->
  nodes s' = nodes s /\ deps s' = deps s /\
  files s' = map (fun r => if str_eqb (fl r) l then mkF (fl r) FPlanned None else r) (files s).
Proof.
  unfold set_fstate_hash. destruct (find_file l s) as [r0|] eqn:E.
  - cbn [needs_hash andb clears_hash fstate_eqb fstate_code N.eqb Pos.eqb]. intros H. inversion H. subst s'.
    repeat split; reflexivity.
  - intros H. inversion H. subst s'. repeat split; try reflexivity. symmetry.
    rewrite <- (map_id (files s)) at 2. apply map_ext_in. intros r Hr.
    unfold find_file in E. apply (find_none _ _ E) in Hr. rewrite Hr. reflexivity.
Qed.

Definition is_bo (f : fstate) : bool := match f with FBuilt | FOutdated => true | _ => false end.

Lemma planned_sweep L : forall s s',
  foldM (fun s r => match fstt r with
                    | FBuilt | FOutdated => set_fstate_hash (fl r) FPlanned (Some None) s
                    | _ => Ok s end) L s = Ok s' ->
  nodes s' = nodes s /\ deps s' = deps s /\
  Forall2 (fun r r' => fl r' = fl r /\ (fstt r' = fstt r \/ fstt r' = FPlanned)) (files s) (files s') /\
  forall (P : str -> Prop),
    (forall c, In c (files s) -> P (fl c) -> is_bo (fstt c) = true ->
               exists r, In r L /\ fl r = fl c /\ is_bo (fstt r) = true) ->
    forall c, In c (files s') -> P (fl c) -> is_bo (fstt c) = false.
Proof.
  induction L as [|r L IH]; intros s s' H; cbn [foldM] in H.
  - inversion H. subst s'. repeat split; try reflexivity.
    + apply Forall2_refl. intros x. split; [reflexivity | left; reflexivity].
    + intros P Hcov c Hc HP. destruct (is_bo (fstt c)) eqn:E; [|reflexivity].
      destruct (Hcov c Hc HP E) as [r [[] _]].
  - apply bind_ok in H. destruct H as [s1 [H1 H2]]. apply IH in H2. destruct H2 as [N2 [D2 [F2 C2]]].
    assert (Hstep : nodes s1 = nodes s /\ deps s1 = deps s /\
              files s1 = map (fun x => if is_bo (fstt r) && str_eqb (fl x) (fl r) then mkF (fl x) FPlanned None else x) (files s)).
    { destruct (fstt r) eqn:Er; cbn [is_bo andb];
        try (inversion H1; subst s1; repeat split; try reflexivity; symmetry; apply map_id).
      - apply set_planned_spec in H1. exact H1.
      - apply set_planned_spec in H1. exact H1. }
    destruct Hstep as [N1 [D1 F1]]. split; [congruence|]. split; [congruence|]. split.
    + eapply Forall2_trans; [| |exact F2].
      * intros a b c [Hl1 Hs1] [Hl2 Hs2]. split; [congruence|]. destruct Hs2 as [Hs2|Hs2]; [|right; exact Hs2].
        destruct Hs1 as [Hs1|Hs1]; [left | right]; congruence.
      * rewrite F1. apply Forall2_map_r. intros x. destruct (is_bo (fstt r) && str_eqb (fl x) (fl r)).
        -- split; [reflexivity | right; reflexivity].
        -- split; [reflexivity | left; reflexivity].
    + intros P Hcov. apply (C2 P). intros c Hc HP Hbo. rewrite F1 in Hc. apply in_map_iff in Hc.
      destruct Hc as [x [Ex Hx]]. destruct (is_bo (fstt r) && str_eqb (fl x) (fl r)) eqn:Eb.
      * subst c. cbn in Hbo. discriminate.
      * subst c. destruct (Hcov x Hx HP Hbo) as [r0 [[Hr0|Hr0] [Hl0 Hb0]]].
        -- subst r0. rewrite Hb0, Hl0, str_eqb_refl in Eb. discriminate.
        -- exists r0. repeat split; assumption.
Qed.

Lemma set_sstate_raw_files l new s s' : set_sstate_raw l new s = Ok s' -> files s' = files s.
Proof.
  unfold set_sstate_raw, set_sstate. destruct (find_step l s) as [r|]; [|intros H; inversion H; reflexivity].
  intros H. guards H. inversion H. reflexivity.
Qed.

Lemma revert_optional_spec opt s s' q : revert_optional opt s = Ok (s', q) ->
  nodes s' = nodes s /\ deps s' = deps s /\ q = omap queue_entry (optional_outputs opt s) /\
  Forall2 (fun r r' => fl r' = fl r /\ (fstt r' = fstt r \/ fstt r' = FPlanned)) (files s) (files s') /\
  forall c, In c (files s') -> opt_out opt s (fl c) = true -> is_bo (fstt c) = false.
Proof.
  unfold revert_optional. intros H. apply bind_ok in H. destruct H as [s1 [H1 H]].
  apply bind_ok in H. destruct H as [s2 [H2 H]]. inversion H. subst s2 q. clear H.
  assert (F1 : frame s s1 /\ files s1 = files s).
  { clear H2. revert s s1 H1. induction opt as [|o opt IH]; intros s s1 H1; cbn [foldM] in H1.
    - inversion H1. subst. split; [apply frame_refl | reflexivity].
    - apply bind_ok in H1. destruct H1 as [sa [Ha Hb]]. apply IH in Hb. destruct Hb as [Fb Eb].
      assert (Fa : frame s sa /\ files sa = files s).
      { destruct (sstate_of o s) as [[]|]; try (inversion Ha; subst; split; [apply frame_refl | reflexivity]);
          (split; [apply set_sstate_raw_spec in Ha; apply Ha | eapply set_sstate_raw_files; exact Ha]). }
      destruct Fa as [Fa Ea]. split; [eapply frame_trans; eassumption | congruence]. }
  destruct F1 as [[N1 D1 _ _] E1].
  pose proof (planned_sweep _ _ _ H2) as [N2 [D2 [F2 C2]]].
  split; [congruence|]. split; [congruence|]. split; [reflexivity|]. split; [rewrite <- E1; exact F2|].
  intros c Hc Hopt. apply (C2 (fun l => opt_out opt s l = true)); [|exact Hc | exact Hopt].
  intros c0 Hc0 HP Hbo. rewrite E1 in Hc0. exists c0. split; [|split; [reflexivity | exact Hbo]].
  unfold optional_outputs. apply filter_In. split; [exact Hc0 | exact HP].
Qed.

(* delete_detached *)
Lemma filter_length_lt' {A} (p : A -> bool) l x : In x l -> p x = false -> (length (filter p l) < length l)%nat.
Proof.
  induction l as [|y l IH]; intros Hin Hp; [destruct Hin|]. cbn [filter length].
  assert (Hle : (length (filter p l) <= length l)%nat).
  { clear. induction l as [|z l IH]; [apply le_n|]. cbn [filter length]. destruct (p z); cbn [length]; lia. }
  destruct Hin as [E|Hin].
  - subst y. rewrite Hp. lia.
  - specialize (IH Hin Hp). destruct (p y); cbn [length]; lia.
Qed.

Lemma delete_node_spec k s :
  incl (files (delete_node k s)) (files s) /\ incl (deps (delete_node k s)) (deps s) /\
  nodes (delete_node k s) = filter (fun n => negb (key_eqb (nk n) k)) (nodes s).
Proof.
  assert (Hd : incl (deps (del_all_sources k s)) (deps s)).
  { unfold del_all_sources, del_deps_where. cbn. intros x Hx. apply filter_In in Hx. apply Hx. }
  unfold delete_node. destruct (fst k); cbn; repeat split; try exact Hd; try (apply incl_refl);
    intros x Hx; apply filter_In in Hx; apply Hx.
Qed.

Lemma dd_loop_spec fuel : forall lost s s' lost', dd_loop fuel lost s = (s', lost') ->
  (length (nodes s) <= fuel)%nat ->
  incl (files s') (files s) /\ incl (deps s') (deps s) /\ find (fun n => deletable n s') (nodes s') = None.
Proof.
  induction fuel as [|fuel IH]; intros lost s s' lost' H Hlen; cbn [dd_loop] in H.
  - inversion H. subst. repeat split; try apply incl_refl.
    destruct (nodes s'); [reflexivity | cbn in Hlen; lia].
  - destruct (find (fun n => deletable n s) (nodes s)) as [n|] eqn:Ef.
    + destruct (delete_node_spec (nk n) s) as [Hf [Hd Hn]].
      apply IH in H.
      * destruct H as [H1 [H2 H3]]. repeat split; [| |exact H3].
        -- eapply incl_tran; eassumption.
        -- eapply incl_tran; eassumption.
      * rewrite Hn. apply find_some in Ef. destruct Ef as [Hin _].
        pose proof (filter_length_lt' (fun m => negb (key_eqb (nk m) (nk n))) (nodes s) n Hin) as Hlt.
        cbv beta in Hlt. rewrite key_eqb_refl in Hlt. specialize (Hlt eq_refl). lia.
    + inversion H. subst. repeat split; try apply incl_refl. exact Ef.
Qed.

Lemma deletable_ext n a b : nodes a = nodes b -> deps a = deps b -> deletable n a = deletable n b.
Proof. intros Hn Hd. unfold deletable, products. rewrite Hn, Hd. reflexivity. Qed.

Lemma find_ext' {A} (p q : A -> bool) l : (forall x, p x = q x) -> find p l = find q l.
Proof. intros H. induction l as [|x l IH]; [reflexivity|]. cbn [find]. rewrite H, IH. reflexivity. Qed.

Lemma settled_ext a b : nodes a = nodes b -> deps a = deps b ->
  find (fun n => deletable n a) (nodes a) = None -> find (fun n => deletable n b) (nodes b) = None.
Proof.
  intros Hn Hd H. rewrite <- Hn. rewrite <- H. apply find_ext'. intros x. symmetry. apply deletable_ext; assumption.
Qed.

Lemma alp_fold L : forall s s',
  foldM (fun s c => match find_node c s with Some _ => after_lost_product c s | None => Ok s end) L s = Ok s' ->
  nodes s' = nodes s /\ deps s' = deps s /\ files s' = files s.
Proof.
  induction L as [|c L IH]; intros s s' H; cbn [foldM] in H.
  - inversion H. repeat split; reflexivity.
  - apply bind_ok in H. destruct H as [s1 [H1 H2]]. apply IH in H2. destruct H2 as [A [B C]].
    assert (X : nodes s1 = nodes s /\ deps s1 = deps s /\ files s1 = files s).
    { destruct (find_node c s); [|inversion H1; repeat split; reflexivity].
      unfold after_lost_product in H1. destruct (fst c); try discriminate; inversion H1; repeat split; reflexivity. }
    destruct X as [A1 [B1 C1]]. repeat split; congruence.
Qed.

Lemma delete_detached_spec s s' : delete_detached s = Ok s' ->
  incl (files s') (files s) /\ incl (deps s') (deps s) /\ find (fun n => deletable n s') (nodes s') = None.
Proof.
  unfold delete_detached. destruct (dd_loop (length (nodes s)) [] s) as [s1 lost] eqn:E. cbn [fst snd].
  intros H. apply alp_fold in H. destruct H as [A [B C]].
  apply dd_loop_spec in E; [|apply le_n]. destruct E as [E1 [E2 E3]].
  rewrite C, B. repeat split; try assumption. eapply settled_ext; [symmetry; exact A | symmetry; exact B | exact E3].
Qed.

Lemma delete_detached_q_settled s s' q :
  find (fun n => deletable n s) (nodes s) = None -> delete_detached_q s = Ok (s', q) -> q = [].
Proof.
  intros Hs H. unfold delete_detached_q in H. apply bind_ok in H. destruct H as [s1 [H1 H2]].
  inversion H2. subst s1 q. clear H2.
  assert (E : s' = s).
  { unfold delete_detached in H1. destruct (length (nodes s)); cbn [dd_loop] in H1; [|rewrite Hs in H1];
      cbn [fst snd foldM] in H1; inversion H1; reflexivity. }
  subst s'. unfold deleted_files. rewrite filter_nil; [reflexivity|]. intros r Hr.
  unfold find_file. destruct (find (fun r0 => str_eqb (fl r0) (fl r)) (files s)) eqn:Ef; [reflexivity|].
  apply (find_none _ _ Ef) in Hr. rewrite str_eqb_refl in Hr. discriminate.
Qed.

Lemma omap_In_conv {A B} (f : A -> option B) l x y : In x l -> f x = Some y -> In y (omap f l).
Proof.
  induction l as [|z l IH]; intros Hin Hf; [destruct Hin|]. cbn [omap]. destruct Hin as [E|Hin].
  - subst z. rewrite Hf. left. reflexivity.
  - destruct (f z); [right|]; apply IH; assumption.
Qed.

Lemma opt_out_incl opt a b l : incl (deps a) (deps b) -> opt_out opt a l = true -> opt_out opt b l = true.
Proof.
  intros Hi. unfold opt_out. rewrite !existsb_exists. intros [o [Ho H]]. exists o. split; [exact Ho|].
  apply mem_str_In in H. apply mem_str_In. unfold file_sinks_of_step, sinks_of in *.
  apply in_map_iff in H. destruct H as [k [Ek Hk]]. apply in_map_iff. exists k. split; [exact Ek|].
  apply filter_In in Hk. destruct Hk as [Hk Hkind]. apply filter_In. split; [|exact Hkind].
  apply in_map_iff in Hk. destruct Hk as [d [Ed Hd]]. apply in_map_iff. exists d. split; [exact Ed|].
  apply filter_In in Hd. destruct Hd as [Hd Hsrc]. apply filter_In. split; [apply Hi; exact Hd | exact Hsrc].
Qed.

(* A kill after the cleanup finished (the files are removed, build_completed not yet committed):
   the restarted cleanup finds nothing more to remove.  For ALL states and disks. *)
Theorem crash_no_orphans_W3 opt x : no_orphans_at W3 opt x.
Proof.
  unfold no_orphans_at, crash_then_restart, cleanup. intros y z H1 H2. rewrite H1 in H2. cbn [bind] in H2.
  cbn [cleanup_until] in H1, H2.
  apply bind_ok in H1. destruct H1 as [[s1 q1] [R1 H1]]. apply bind_ok in H1. destruct H1 as [[s2 q2] [D1 H1]].
  cbn [fst snd] in *. inversion H1. subst y. clear H1. cbn [g dk] in H2.
  apply bind_ok in H2. destruct H2 as [[s3 q3] [R2 H2]]. apply bind_ok in H2. destruct H2 as [[s4 q4] [D2 H2]].
  cbn [fst snd] in *. inversion H2. subst z. clear H2. cbn [dk].
  apply revert_optional_spec in R1. destruct R1 as [N1 [Dp1 [Q1 [F1 C1]]]].
  pose proof D1 as D1'. unfold delete_detached_q in D1'. apply bind_ok in D1'. destruct D1' as [s2' [D1' E]].
  inversion E. subst s2'. clear E. apply delete_detached_spec in D1'. destruct D1' as [If [Id Hset]].
  apply revert_optional_spec in R2. destruct R2 as [N2 [Dp2 [Q2 [F2 C2]]]].
  assert (Q4 : q4 = []).
  { eapply delete_detached_q_settled; [|exact D2]. eapply settled_ext; [symmetry; exact N2 | symmetry; exact Dp2 | exact Hset]. }
  subst q4. rewrite app_nil_r. rewrite remove_deletable_absent; [apply same_paths_refl|].
  intros e He. rewrite Q2 in He. apply omap_In in He. destruct He as [r' [Hr' Hq]].
  unfold optional_outputs in Hr'. apply filter_In in Hr'. destruct Hr' as [Hin2 Hopt2].
  assert (Hopt : opt_out opt (g x) (fl r') = true).
  { apply (opt_out_incl opt s1); [rewrite Dp1; apply incl_refl|]. apply (opt_out_incl opt s2); [exact Id | exact Hopt2]. }
  pose proof (C1 r' (If _ Hin2) Hopt) as Hbo.
  unfold queue_entry in Hq. destruct (fstt r') eqn:Es; try discriminate; try (cbn in Hbo; discriminate).
  inversion Hq. subst e. cbn [fst]. clear Hq.
  destruct (Forall2_In_r _ _ _ _ F1 (If _ Hin2)) as [r [Hr [Hl Hst]]].
  assert (Hv : fstt r = FVolatile) by (destruct Hst as [Hst|Hst]; congruence).
  apply remove_volatile_gone. apply in_or_app. left. rewrite Q1.
  apply (omap_In_conv queue_entry _ r); [|unfold queue_entry; rewrite Hv, Hl; reflexivity].
  unfold optional_outputs. apply filter_In. split; [exact Hr|]. rewrite <- Hl. exact Hopt.
Qed.

(* ------------------------------------------------------------------------------------------ *)
(* Statements in the form used by props/C05.v                                                  *)
(* ------------------------------------------------------------------------------------------ *)
Lemma source_structure :
  schema_before_first_transaction = true /\
  cleanup_sequence = [1; 2; 3] /\ revert_optional_transactions = 1 /\
  removal_outside_transaction = true /\ removal_clears_queue = true /\ queue_in_memory_only = true /\
  execute_job_sequence = [1; 2; 3; 4] /\
  reset_interrupted_updates = [(24, 22); (21, 25)] /\ reset_interrupted_failed_loop = true /\
  rescan_unconfirmed_cause = cause_code CConfirmed /\
  serve_sequence = [1; 2; 3; 4; 5].
Proof. repeat split; reflexivity. Qed.

Lemma open_point_zero_now cap ops strict :
  open_db_now strict cap (db_at cap ops 0) =
  if open_creates_missing_root then Ok (init_st cap) else Internal 300.
Proof. apply open_point_zero. Qed.

Lemma open_point_zero_refuted cap ops strict :
  exists t, open_db false strict cap (db_at cap ops 0) = Internal t.
Proof. exists 300. reflexivity. Qed.

Lemma started_kept_by_state_only o s s' l :
  match o with OpDispatch _ | OpValidatePending _ | OpMarkStepPending _ | OpHold _ | OpRelease _ => True
             | _ => False end ->
  step_op o s = Ok s' -> has_hash l s = false -> built_products l s = [] ->
  has_hash l s' = false /\ built_products l s' = [].
Proof. intros Hk H. apply started_kept_by_frame. eapply state_only_ops_frame; eassumption. Qed.

Lemma crash_no_orphans_partial :
  (forall opt x, no_orphans_at W0 opt x) /\
  (forall opt s s' q, revert_optional opt s = Ok (s', q) ->
     forall e, In e q -> exists r, In r (files s) /\ fl r = fst e /\
       (fstt r = FVolatile \/ fstt r = FBuilt \/ fstt r = FOutdated) /\
       existsb (fun l => mem_str (fl r) (file_sinks_of_step l s)) opt = true) /\
  (forall s s' q, delete_detached_q s = Ok (s', q) ->
     forall e, In e q -> exists r, In r (files s) /\ fl r = fst e /\
       (fstt r = FVolatile \/ fstt r = FBuilt \/ fstt r = FOutdated) /\ find_file (fl r) s' = None).
Proof.
  split; [exact crash_no_orphans_W0|]. split; [exact revert_queue_recorded | exact dd_queue_recorded].
Qed.
