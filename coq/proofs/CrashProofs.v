(* proofs/CrashProofs.v -- lemmas about model/Crash.v (C05). *)
From Coq Require Import List NArith Bool Lia Arith PeanoNat.
From SV Require Import lib.Bytes lib.Closure model.Graph model.GraphInv gen.GenCrash model.Crash.
Import ListNotations.
Open Scope N_scope.

(* ------------------------------------------------------------------------------------------ *)
(* Keys, lookups                                                                               *)
(* ------------------------------------------------------------------------------------------ *)
Lemma kind_eqb_eq a b : kind_eqb a b = true <-> a = b.
Proof. destruct a, b; cbn; split; intro H; try reflexivity; try discriminate. Qed.

Lemma key_eqb_eq (a b : key) : key_eqb a b = true <-> a = b.
Proof.
  destruct a as [ka la], b as [kb lb]. unfold key_eqb. cbn [fst snd].
  rewrite andb_true_iff, kind_eqb_eq, str_eqb_eq. split.
  - intros [H1 H2]. subst. reflexivity.
  - intros H. inversion H. split; reflexivity.
Qed.
Lemma key_eqb_refl a : key_eqb a a = true.
Proof. apply key_eqb_eq. reflexivity. Qed.

Lemma mem_key_In k l : mem_key k l = true <-> In k l.
Proof.
  unfold mem_key. rewrite existsb_exists. split.
  - intros [x [Hin Heq]]. apply key_eqb_eq in Heq. subst. exact Hin.
  - intros Hin. exists k. split; [exact Hin | apply key_eqb_refl].
Qed.
Lemma mem_key_app k a b : mem_key k (a ++ b) = mem_key k a || mem_key k b.
Proof. unfold mem_key. apply existsb_app. Qed.

Lemma find_node_some k s n : find_node k s = Some n -> In n (nodes s) /\ nk n = k.
Proof.
  unfold find_node. intros H. apply find_some in H. destruct H as [Hin Heq].
  apply key_eqb_eq in Heq. split; assumption.
Qed.

Lemma nodup_find (l : list node) (n : node) :
  nodup_by key_eqb (map nk l) = true -> In n l -> find (fun m => key_eqb (nk m) (nk n)) l = Some n.
Proof.
  induction l as [|m l IH]; intros Hnd Hin; [destruct Hin|].
  cbn [map nodup_by] in Hnd. apply andb_true_iff in Hnd. destruct Hnd as [Hm Hnd].
  cbn [find]. destruct Hin as [Heq | Hin].
  - subst. rewrite key_eqb_refl. reflexivity.
  - destruct (key_eqb (nk m) (nk n)) eqn:E.
    + exfalso. apply negb_true_iff in Hm.
      assert (X : existsb (key_eqb (nk m)) (map nk l) = true).
      { apply existsb_exists. exists (nk n). split; [apply in_map; exact Hin | exact E]. }
      rewrite X in Hm. discriminate.
    + apply IH; assumption.
Qed.

Lemma find_node_nodup s n :
  nodup_by key_eqb (map nk (nodes s)) = true -> In n (nodes s) -> find_node (nk n) s = Some n.
Proof. intros. unfold find_node. apply nodup_find; assumption. Qed.

Lemma inv_nodes_nodup s : inv_nodes_b s = true -> nodup_by key_eqb (map nk (nodes s)) = true.
Proof.
  unfold inv_nodes_b. intros H. apply andb_true_iff in H. destruct H as [H _].
  apply andb_true_iff in H. destruct H as [H _]. exact H.
Qed.

Lemma inv_nodes_root s : inv_nodes_b s = true ->
  exists r, find_node root_key s = Some r /\ ncre r = Some root_key /\ ndet r = false.
Proof.
  unfold inv_nodes_b. intros H. apply andb_true_iff in H. destruct H as [H _].
  apply andb_true_iff in H. destruct H as [_ H].
  destruct (find_node root_key s) as [r|]; [|discriminate]. exists r. split; [reflexivity|].
  apply andb_true_iff in H. destruct H as [H1 H2]. split.
  - destruct (ncre r) as [c|]; [|discriminate]. cbn [okey_eqb] in H1. apply key_eqb_eq in H1. subst. reflexivity.
  - apply negb_true_iff in H2. exact H2.
Qed.

(* ------------------------------------------------------------------------------------------ *)
(* Reachability: the downward closure of the SQL query versus the invariant's upward walk      *)
(* ------------------------------------------------------------------------------------------ *)
Lemma prod_edges_In c k s :
  In (c, k) (prod_edges s) <->
  exists n, In n (nodes s) /\ ncre n = Some c /\ nk n = k /\ key_eqb k c = false.
Proof.
  unfold prod_edges. rewrite in_flat_map. split.
  - intros [n [Hin H]]. exists n. destruct (ncre n) as [c'|] eqn:Ec; [|destruct H].
    destruct (key_eqb (nk n) c') eqn:E; [destruct H|]. destruct H as [H|[]]. inversion H. subst.
    repeat split; assumption.
  - intros [n [Hin [Hc [Hk E]]]]. exists n. split; [exact Hin|]. rewrite Hc, Hk, E. left. reflexivity.
Qed.

Lemma prod_edges_length s : (length (prod_edges s) <= length (nodes s))%nat.
Proof.
  unfold prod_edges. induction (nodes s) as [|n l IH]; [apply le_n|].
  cbn [flat_map length]. rewrite app_length.
  destruct (ncre n) as [c|]; [destruct (key_eqb (nk n) c)|]; cbn [length]; lia.
Qed.

Lemma reaches_root_path d : forall k s, reaches_root d k s = true -> path (prod_edges s) root_key k.
Proof.
  induction d as [|d IH]; intros k s H; cbn [reaches_root] in H.
  - destruct (key_eqb k root_key) eqn:E; [|discriminate]. apply key_eqb_eq in E. subst. apply path_refl.
  - destruct (key_eqb k root_key) eqn:E; [apply key_eqb_eq in E; subst; apply path_refl|].
    unfold creator_of in H. destruct (find_node k s) as [n|] eqn:Ef; [|discriminate].
    destruct (ncre n) as [c|] eqn:Ec; [|discriminate].
    apply IH in H. apply find_node_some in Ef. destruct Ef as [Hin Hk].
    destruct (key_eqb k c) eqn:Ekc.
    + apply key_eqb_eq in Ekc. subst c. exact H.
    + eapply path_snoc; [exact H|]. apply prod_edges_In. exists n. repeat split; assumption.
Qed.

Definition attached_key (s : st) (k : key) : Prop := exists n, find_node k s = Some n /\ ndet n = false.

Lemma path_attached s : inv_nodes_b s = true -> inv_local_b s = true ->
  forall k, path (prod_edges s) root_key k -> attached_key s k.
Proof.
  intros Hn Hl. apply path_rind.
  - destruct (inv_nodes_root s Hn) as [r [Hf [_ Hd]]]. exists r. split; assumption.
  - intros b c _ [bn [Hfb Hdb]] He. apply prod_edges_In in He. destruct He as [m [Hin [Hc [Hk Hne]]]].
    unfold inv_local_b in Hl. rewrite forallb_forall in Hl. specialize (Hl m Hin).
    pose proof (find_node_nodup s m (inv_nodes_nodup s Hn) Hin) as Hfm. rewrite Hk in Hfm.
    destruct (key_eqb (nk m) root_key) eqn:Er.
    + apply key_eqb_eq in Er. rewrite Hk in Er. subst c.
      destruct (inv_nodes_root s Hn) as [r [Hf [_ Hd]]]. exists r. split; assumption.
    + cbn [orb] in Hl. rewrite Hc, Hfb in Hl.
      apply andb_true_iff in Hl. destruct Hl as [Hl _]. apply andb_true_iff in Hl. destruct Hl as [Hl _].
      apply eqb_prop in Hl. exists m. split; [exact Hfm | congruence].
Qed.

(* ------------------------------------------------------------------------------------------ *)
(* 1. _check_consistency accepts every state that satisfies the invariant                      *)
(* ------------------------------------------------------------------------------------------ *)
Lemma inv_b_parts s : inv_b s = true ->
  inv_nodes_b s = true /\ inv_local_b s = true /\ inv_reach_b s = true /\ inv_rows_b s = true.
Proof.
  unfold inv_b. intros H. rewrite !andb_true_iff in H. tauto.
Qed.

Lemma cc_row_of_inv s : inv_nodes_b s = true -> inv_local_b s = true -> cc_row_b s = true.
Proof.
  intros Hn Hl. unfold cc_row_b. apply forallb_forall. intros n Hin.
  unfold inv_local_b in Hl. rewrite forallb_forall in Hl. specialize (Hl n Hin).
  destruct (key_eqb (nk n) root_key) eqn:Er.
  - apply key_eqb_eq in Er. destruct (inv_nodes_root s Hn) as [r [Hf [Hc Hd]]].
    pose proof (find_node_nodup s n (inv_nodes_nodup s Hn) Hin) as Hf2. rewrite Er, Hf in Hf2.
    inversion Hf2. subst r. rewrite Hc, Hf. apply eqb_reflx.
  - cbn [orb] in Hl. destruct (ncre n) as [c|].
    + destruct (find_node c s) as [cn|]; [|discriminate].
      apply andb_true_iff in Hl. destruct Hl as [Hl _]. apply andb_true_iff in Hl. destruct Hl as [Hl _]. exact Hl.
    + rewrite Hl. reflexivity.
Qed.

Lemma cc_reach_of_inv s : inv_nodes_b s = true -> inv_local_b s = true -> inv_reach_b s = true ->
  cc_reach_b s = true.
Proof.
  intros Hn Hl Hr. unfold cc_reach_b. apply forallb_forall. intros n Hin.
  unfold inv_reach_b in Hr. rewrite forallb_forall in Hr. specialize (Hr n Hin).
  assert (Hspec : mem_key (nk n) (reach_down s) = true <-> path (prod_edges s) root_key (nk n)).
  { unfold reach_down, rec_products_from.
    change (mem_key (nk n)) with (memb key_eqb (nk n)).
    rewrite (closure_spec key_eqb key_eqb_eq); [|apply prod_edges_length]. split.
    - intros [a [[Ha|[]] Hp]]. subst a. exact Hp.
    - intros Hp. exists root_key. split; [left; reflexivity | exact Hp]. }
  destruct (ndet n) eqn:Ed.
  - destruct (mem_key (nk n) (reach_down s)) eqn:Em; [|reflexivity]. exfalso.
    pose proof (proj1 Hspec eq_refl) as Hp. apply (path_attached s Hn Hl) in Hp. destruct Hp as [m [Hf Hd]].
    rewrite (find_node_nodup s n (inv_nodes_nodup s Hn) Hin) in Hf. inversion Hf. subst m. congruence.
  - cbn [negb] in Hr. apply eqb_prop in Hr. symmetry in Hr. apply reaches_root_path in Hr.
    apply (proj2 Hspec) in Hr. rewrite Hr. reflexivity.
Qed.

Lemma cc_valid_of_inv s : inv_rows_b s = true -> cc_valid_b s = true.
Proof.
  unfold inv_rows_b, cc_valid_b. intros H.
  repeat (apply andb_true_iff in H; destruct H as [H ?]). assumption.
Qed.

Lemma check_consistency_accepts_inv s : inv_b s = true -> cc_trellis_b s = true.
Proof.
  intros H. apply inv_b_parts in H. destruct H as [Hn [Hl [Hr Hrows]]].
  unfold cc_trellis_b. rewrite (cc_row_of_inv s Hn Hl), (cc_reach_of_inv s Hn Hl Hr), (cc_valid_of_inv s Hrows).
  reflexivity.
Qed.

(* inv_succeeded_b (I4 of GraphInv.v) says exactly that the workflow part finds nothing *)
Lemma filter_nil {A} (p : A -> bool) l : (forall x, In x l -> p x = false) -> filter p l = [].
Proof.
  induction l as [|x l IH]; intros H; [reflexivity|]. cbn [filter].
  rewrite (H x (or_introl eq_refl)). apply IH. intros y Hy. apply H. right. exact Hy.
Qed.

Lemma no_violations_of_inv s : inv_succeeded_b s = true -> succ_violations s = [].
Proof.
  unfold inv_succeeded_b, succ_violations. intros H. rewrite forallb_forall in H.
  rewrite filter_nil; [reflexivity|]. intros r Hin. specialize (H r Hin). unfold succ_violation.
  destruct (sstate_eqb (sst r) SSucceeded); [|reflexivity]. cbn [negb orb andb] in *.
  rewrite forallb_forall in H.
  destruct (existsb _ (file_sinks_of_step (sl r) s)) eqn:E; [|reflexivity]. exfalso.
  apply existsb_exists in E. destruct E as [f [Hf E]]. specialize (H f Hf).
  destruct (is_detached (KFile, f) s); [discriminate|]. cbn [negb orb andb] in *.
  destruct (fstate_of f s) as [[]|]; discriminate.
Qed.

Theorem open_after_crash_consistent s strict :
  inv_b s = true -> inv_succeeded_b s = true -> check_consistency strict s = Ok s.
Proof.
  intros Hi Hs. unfold check_consistency.
  pose proof (check_consistency_accepts_inv s Hi) as Hc.
  apply inv_b_parts in Hi. destruct Hi as [Hn _]. destruct (inv_nodes_root s Hn) as [r [Hf _]].
  rewrite Hf, Hc, (no_violations_of_inv s Hs). reflexivity.
Qed.

(* every crash state of a history whose prefixes satisfy the invariants opens without error and
   unchanged (no repair needed) *)
Corollary open_prefix_ok cap ops k repair strict :
  inv_b (run_ops (firstn k ops) (init_st cap)) = true ->
  inv_succeeded_b (run_ops (firstn k ops) (init_st cap)) = true ->
  open_db repair strict cap (db_at cap ops (S k)) = Ok (run_ops (firstn k ops) (init_st cap)).
Proof. intros Hi Hs. cbn [db_at open_db]. apply open_after_crash_consistent; assumption. Qed.

(* crash point 0: the schema exists, the root row does not (D13) *)
Lemma open_point_zero cap ops repair strict :
  open_db repair strict cap (db_at cap ops 0) = if repair then Ok (init_st cap) else Internal 300.
Proof. reflexivity. Qed.

(* ------------------------------------------------------------------------------------------ *)
(* Generic helpers: bind, foldM, Forall2                                                       *)
(* ------------------------------------------------------------------------------------------ *)
Lemma bind_ok {A B} (r : res A) (f : A -> res B) b :
  bind r f = Ok b -> exists a, r = Ok a /\ f a = Ok b.
Proof. destruct r as [a|t|t]; cbn; intros H; try discriminate. exists a. split; [reflexivity | exact H]. Qed.

Lemma foldM_rel {A S} (R : S -> S -> Prop) (f : S -> A -> res S) :
  (forall s, R s s) -> (forall a b c, R a b -> R b c -> R a c) ->
  forall l, (forall s a s', In a l -> f s a = Ok s' -> R s s') ->
  forall s s', foldM f l s = Ok s' -> R s s'.
Proof.
  intros Hrefl Htrans. induction l as [|a l IH]; intros Hf s s' H; cbn [foldM] in H.
  - inversion H. apply Hrefl.
  - apply bind_ok in H. destruct H as [s1 [H1 H2]].
    eapply Htrans; [eapply Hf; [left; reflexivity | exact H1]|].
    apply IH; [|exact H2]. intros s0 a0 s0' Hin. apply Hf. right. exact Hin.
Qed.

Lemma foldM_ext {A S} (f g : S -> A -> res S) l :
  (forall s a, In a l -> f s a = g s a) -> forall s, foldM f l s = foldM g l s.
Proof.
  induction l as [|a l IH]; intros H s; [reflexivity|]. cbn [foldM].
  rewrite (H s a (or_introl eq_refl)). destruct (g s a); cbn [bind]; try reflexivity.
  apply IH. intros s1 a1 Hin. apply H. right. exact Hin.
Qed.

Lemma Forall2_refl {A} (R : A -> A -> Prop) : (forall x, R x x) -> forall l, Forall2 R l l.
Proof. intros H. induction l; constructor; auto. Qed.
Lemma Forall2_trans {A} (R : A -> A -> Prop) : (forall x y z, R x y -> R y z -> R x z) ->
  forall a b c, Forall2 R a b -> Forall2 R b c -> Forall2 R a c.
Proof.
  intros H a b c Hab. revert c. induction Hab; intros c Hbc; inversion Hbc; subst; constructor; eauto.
Qed.
Lemma Forall2_map_r {A} (R : A -> A -> Prop) (g : A -> A) l : (forall x, R x (g x)) -> Forall2 R l (map g l).
Proof. intros H. induction l; cbn; constructor; auto. Qed.

(* ------------------------------------------------------------------------------------------ *)
(* 2. What state propagation can change: step states only move to PENDING, file states only    *)
(*    to OUTDATED, nothing else is touched                                                     *)
(* ------------------------------------------------------------------------------------------ *)
Definition Rs (r r' : srow) : Prop := sl r' = sl r /\ (sst r' = sst r \/ sst r' = SPending).
Definition Rf (r r' : frow) : Prop := fl r' = fl r /\ (fstt r' = fstt r \/ fstt r' = FOutdated).

Record frame (s s' : st) : Prop := mkFrame {
  fr_nodes : nodes s' = nodes s; fr_deps : deps s' = deps s; fr_shash : shash s' = shash s;
  fr_files : Forall2 Rf (files s) (files s') }.
Record mark_rel (s s' : st) : Prop := mkMR { mr_frame : frame s s'; mr_steps : Forall2 Rs (steps s) (steps s') }.

Lemma Rs_refl r : Rs r r. Proof. split; [reflexivity | left; reflexivity]. Qed.
Lemma Rf_refl r : Rf r r. Proof. split; [reflexivity | left; reflexivity]. Qed.
Lemma Rs_trans a b c : Rs a b -> Rs b c -> Rs a c.
Proof. intros [H1 H2] [H3 H4]. split; [congruence|]. destruct H4 as [H4|H4]; [|right; exact H4]. destruct H2; [left | right]; congruence. Qed.
Lemma Rf_trans a b c : Rf a b -> Rf b c -> Rf a c.
Proof. intros [H1 H2] [H3 H4]. split; [congruence|]. destruct H4 as [H4|H4]; [|right; exact H4]. destruct H2; [left | right]; congruence. Qed.

Lemma frame_refl s : frame s s.
Proof. constructor; try reflexivity. apply Forall2_refl. apply Rf_refl. Qed.
Lemma frame_trans a b c : frame a b -> frame b c -> frame a c.
Proof.
  intros [H1 H2 H3 H4] [G1 G2 G3 G4]. constructor; try congruence.
  eapply Forall2_trans; [apply Rf_trans | eassumption | eassumption].
Qed.
Lemma mark_rel_refl s : mark_rel s s.
Proof. constructor; [apply frame_refl | apply Forall2_refl; apply Rs_refl]. Qed.
Lemma mark_rel_trans a b c : mark_rel a b -> mark_rel b c -> mark_rel a c.
Proof.
  intros [H1 H2] [G1 G2]. constructor; [eapply frame_trans; eassumption|].
  eapply Forall2_trans; [apply Rs_trans | eassumption | eassumption].
Qed.

(* set_sstate only rewrites the state-related columns of the rows with that label *)
Lemma set_sstate_frame l new d s s' : set_sstate l new d s = Ok s' ->
  frame s s' /\ map sl (steps s') = map sl (steps s).
Proof.
  unfold set_sstate. destruct (find_step l s) as [r|]; [|intros H; inversion H; subst; split; [apply frame_refl | reflexivity]].
  destruct (d && negb (sstate_eqb new SPending)); [discriminate|]. intros H. inversion H. subst s'. clear H.
  split.
  - constructor; try reflexivity. cbn. apply Forall2_refl. apply Rf_refl.
  - cbn. rewrite map_map. apply map_ext. intros x. destruct (str_eqb (sl x) l); reflexivity.
Qed.

Lemma set_sstate_pending_rel l d s s' : set_sstate l SPending d s = Ok s' -> mark_rel s s'.
Proof.
  intros H. pose proof (set_sstate_frame _ _ _ _ _ H) as [Hf _]. constructor; [exact Hf|].
  unfold set_sstate in H. destruct (find_step l s) as [r|]; [|inversion H; subst; apply Forall2_refl; apply Rs_refl].
  destruct (d && negb (sstate_eqb SPending SPending)); [discriminate|]. inversion H. subst s'. cbn.
  apply Forall2_map_r. intros x. destruct (str_eqb (sl x) l); [|apply Rs_refl].
  split; [reflexivity | right; reflexivity].
Qed.

Lemma set_fstate_outdated_rel f s s' : set_fstate f FOutdated s = Ok s' -> mark_rel s s'.
Proof.
  unfold set_fstate, set_fstate_hash. destruct (find_file f s) as [r|]; [|intros H; inversion H; subst; apply mark_rel_refl].
  destruct (needs_hash FOutdated && _); [discriminate|].
  destruct (fstate_eqb FOutdated FUndeclared && _); [discriminate|]. intros H. inversion H. subst s'. clear H.
  constructor; [|cbn; apply Forall2_refl; apply Rs_refl].
  constructor; try reflexivity. cbn. apply Forall2_map_r. intros x.
  destruct (str_eqb (fl x) f); [|apply Rf_refl]. split; [reflexivity | right; reflexivity].
Qed.

Lemma mark_effect fuel :
  (forall l s s', mark_step_pending_f fuel l s = Ok s' -> mark_rel s s') /\
  (forall f s s', mark_file_outdated_f fuel f s = Ok s' -> mark_rel s s').
Proof.
  induction fuel as [|fuel [IHs IHf]]; [split; intros; discriminate|]. split.
  - intros l s s' H. cbn [mark_step_pending_f] in H.
    destruct (sstate_of l s) as [old|] eqn:Eo; [|discriminate].
    assert (Hgen : forall s1, set_sstate l SPending false s = Ok s1 ->
              foldM (fun s f => match fstate_of f s with
                                | Some FBuilt => mark_file_outdated_f fuel f s
                                | _ => Ok s end) (file_sinks_of_step l s1) s1 = Ok s' -> mark_rel s s').
    { intros s1 H1 H2. eapply mark_rel_trans; [eapply set_sstate_pending_rel; exact H1|].
      revert H2. apply foldM_rel; [apply mark_rel_refl | apply mark_rel_trans|].
      intros s0 f s0' _ H0. destruct (fstate_of f s0) as [[]|]; try (inversion H0; subst; apply mark_rel_refl).
      eapply IHf. exact H0. }
    destruct old; try (inversion H; subst; apply mark_rel_refl);
      apply bind_ok in H; destruct H as [s1 [H1 H2]].
    + inversion H2. subst. eapply set_sstate_pending_rel. exact H1.
    + eapply Hgen; eassumption.
    + eapply Hgen; eassumption.
  - intros f s s' H. cbn [mark_file_outdated_f] in H.
    destruct (fstate_of f s) as [[]|]; try discriminate.
    + apply bind_ok in H. destruct H as [s1 [H1 H2]].
      eapply mark_rel_trans; [eapply set_fstate_outdated_rel; exact H1|].
      revert H2. apply foldM_rel; [apply mark_rel_refl | apply mark_rel_trans|].
      intros s0 l s0' _ H0. eapply IHs. exact H0.
    + inversion H. subst. apply mark_rel_refl.
Qed.

Lemma mark_step_pending_rel l s s' : mark_step_pending l s = Ok s' -> mark_rel s s'.
Proof. unfold mark_step_pending. apply (proj1 (mark_effect _)). Qed.
