(* C01: proofs about the abstract engine model/Engine.v (static-DAG fragment).
   skip_sound, step_build_ok (one dispatch decision keeps the invariant and establishes the
   defining equations at its step), build_establishes_K, edits keep the invariant
   (pending propagation), uniqueness of finished states, and the equivalence of any history of
   edits and builds with a build from scratch. *)
From Coq Require Import List NArith Bool Lia.
From SV Require Import model.Engine.
Import ListNotations.
Open Scope N_scope.

(* ------------------------------------------------------------------------------------------ *)
(* Lists of numbers                                                                            *)
(* ------------------------------------------------------------------------------------------ *)
Lemma memN_In (x : N) (l : list N) : memN x l = true <-> In x l.
Proof.
  unfold memN. rewrite existsb_exists. split.
  - intros (y & Hin & He). apply N.eqb_eq in He. subst. exact Hin.
  - intros H. exists x. split; [exact H | apply N.eqb_refl].
Qed.

Lemma memN_false (x : N) (l : list N) : memN x l = false <-> ~ In x l.
Proof.
  rewrite <- memN_In. destruct (memN x l); split; intros H.
  - discriminate.
  - exfalso. apply H. reflexivity.
  - intros Hf. discriminate.
  - reflexivity.
Qed.

Lemma nodupN_NoDup (l : list N) : nodupN l = true -> NoDup l.
Proof.
  induction l as [|x l IH]; cbn [nodupN]; intros H; [constructor|].
  apply andb_true_iff in H. destruct H as [H1 H2]. constructor.
  - apply negb_true_iff in H1. apply memN_false in H1. exact H1.
  - apply IH; exact H2.
Qed.

Lemma oN_eqb_eq (a b : option N) : oN_eqb a b = true -> a = b.
Proof.
  destruct a, b; cbn; intros H; try discriminate; try reflexivity.
  apply N.eqb_eq in H. subst. reflexivity.
Qed.

Lemma ingr_eqb_eq (a b : list (N * option N)) : ingr_eqb a b = true -> a = b.
Proof.
  revert b. induction a as [|[p c] a IH]; intros [|[q d] b]; cbn [ingr_eqb]; intros H;
    try discriminate; try reflexivity.
  apply andb_true_iff in H. destruct H as [H H3]. apply andb_true_iff in H. destruct H as [H1 H2].
  apply N.eqb_eq in H1. apply oN_eqb_eq in H2. subst. f_equal. apply IH; exact H3.
Qed.

Lemma map_fst_ingredients (f : N -> option N) (ks : list N) : map fst (ingredients f ks) = ks.
Proof. unfold ingredients. rewrite map_map. cbn. apply map_id. Qed.

Lemma map_snd_ingredients (f : N -> option N) (ks : list N) : map snd (ingredients f ks) = map f ks.
Proof. unfold ingredients. rewrite map_map. reflexivity. Qed.

Lemma ingredients_ext (f g : N -> option N) (ks : list N) :
  (forall k, In k ks -> f k = g k) -> ingredients f ks = ingredients g ks.
Proof.
  intros H. unfold ingredients. apply map_ext_in. intros k Hk. rewrite (H k Hk). reflexivity.
Qed.

Lemma forallb_ext_in' {A} (f g : A -> bool) (l : list A) :
  (forall x, In x l -> f x = g x) -> forallb f l = forallb g l.
Proof.
  induction l as [|x l IH]; intros H; cbn; [reflexivity|].
  rewrite (H x (or_introl eq_refl)). rewrite IH; [reflexivity|].
  intros y Hy. apply H. right. exact Hy.
Qed.

Lemma upd_same {A} (f : N -> A) (k : N) (v : A) : upd f k v k = v.
Proof. unfold upd. rewrite N.eqb_refl. reflexivity. Qed.

Lemma upd_other {A} (f : N -> A) (k x : N) (v : A) : x <> k -> upd f k v x = f x.
Proof. intros H. unfold upd. apply N.eqb_neq in H. rewrite H. reflexivity. Qed.

(* ------------------------------------------------------------------------------------------ *)
(* Project structure                                                                           *)
(* ------------------------------------------------------------------------------------------ *)
Lemma in_outs (proj : project) (p : N) : In p (outs proj) <-> exists s, In s proj /\ In p (out s).
Proof. unfold outs. rewrite in_flat_map. reflexivity. Qed.

Lemma outs_app (a b : project) : outs (a ++ b) = outs a ++ outs b.
Proof. unfold outs. apply flat_map_app. Qed.

Lemma NoDup_app_disjoint {A} (a b : list A) (x : A) : NoDup (a ++ b) -> In x a -> In x b -> False.
Proof.
  induction a as [|y a IH]; cbn; intros Hnd Ha Hb; [contradiction|].
  inversion Hnd as [|? ? Hn Hnd']; subst. destruct Ha as [->|Ha].
  - apply Hn. apply in_or_app. right. exact Hb.
  - exact (IH Hnd' Ha Hb).
Qed.

Lemma NoDup_app_l {A} (a b : list A) : NoDup (a ++ b) -> NoDup a.
Proof.
  induction a as [|y a IH]; cbn; intros H; [constructor|].
  inversion H as [|? ? Hn Hnd]; subst. constructor.
  - intros Hin. apply Hn. apply in_or_app. left. exact Hin.
  - apply IH; exact Hnd.
Qed.

Lemma NoDup_app_r {A} (a b : list A) : NoDup (a ++ b) -> NoDup b.
Proof. induction a as [|y a IH]; cbn; intros H; [exact H|]. inversion H; subst. auto. Qed.

(* with unique output paths, a path is an output of exactly one step *)
Lemma out_unique (proj : project) (s q : step) (p : N) :
  NoDup (outs proj) -> In s proj -> In q proj -> In p (out s) -> In p (out q) -> s = q.
Proof.
  induction proj as [|x proj IH]; intros Hnd Hs Hq Hps Hpq; [contradiction|].
  change (outs (x :: proj)) with (out x ++ outs proj) in Hnd.
  destruct Hs as [->|Hs], Hq as [->|Hq].
  - reflexivity.
  - exfalso. apply (NoDup_app_disjoint _ _ p Hnd Hps). apply in_outs. exists q. auto.
  - exfalso. apply (NoDup_app_disjoint _ _ p Hnd Hpq). apply in_outs. exists s. auto.
  - apply IH; auto. apply NoDup_app_r in Hnd. exact Hnd.
Qed.

Lemma out_nodup (proj : project) (s : step) : NoDup (outs proj) -> In s proj -> NoDup (out s).
Proof.
  induction proj as [|x proj IH]; intros Hnd Hs; [contradiction|].
  change (outs (x :: proj)) with (out x ++ outs proj) in Hnd. destruct Hs as [->|Hs].
  - apply NoDup_app_l in Hnd. exact Hnd.
  - apply IH; auto. apply NoDup_app_r in Hnd. exact Hnd.
Qed.

Lemma sid_unique (proj : project) (s q : step) :
  NoDup (map sid proj) -> In s proj -> In q proj -> sid s = sid q -> s = q.
Proof.
  induction proj as [|x proj IH]; intros Hnd Hs Hq He; [contradiction|].
  cbn in Hnd. inversion Hnd as [|? ? Hn Hnd']; subst.
  destruct Hs as [->|Hs], Hq as [->|Hq]; auto.
  - exfalso. apply Hn. rewrite He. apply in_map. exact Hq.
  - exfalso. apply Hn. rewrite <- He. apply in_map. exact Hs.
Qed.

Lemma producer_none (proj : project) (p : N) : producer proj p = None <-> ~ In p (outs proj).
Proof.
  unfold producer. destruct (find (fun s => memN p (out s)) proj) as [s|] eqn:E.
  - split; [discriminate|]. intros H. exfalso. apply H. apply find_some in E.
    destruct E as [Hin Hm]. apply memN_In in Hm. apply in_outs. exists s. auto.
  - split; [|reflexivity]. intros _ Hin. apply in_outs in Hin. destruct Hin as (s & Hs & Hp).
    apply (find_none _ _ E) in Hs. apply memN_In in Hp. rewrite Hp in Hs. discriminate.
Qed.

Lemma producer_some (proj : project) (p id : N) :
  producer proj p = Some id -> exists s, In s proj /\ sid s = id /\ In p (out s).
Proof.
  unfold producer. destruct (find (fun s => memN p (out s)) proj) as [s|] eqn:E; [|discriminate].
  intros H. injection H as <-. apply find_some in E. destruct E as [Hin Hm].
  apply memN_In in Hm. exists s. auto.
Qed.

Lemma producer_of_out (proj : project) (s : step) (p : N) :
  NoDup (outs proj) -> In s proj -> In p (out s) -> producer proj p = Some (sid s).
Proof.
  intros Hnd Hs Hp. destruct (producer proj p) as [id|] eqn:E.
  - apply producer_some in E. destruct E as (q & Hq & <- & Hpq).
    rewrite (out_unique proj s q p Hnd Hs Hq Hp Hpq). reflexivity.
  - exfalso. apply producer_none in E. apply E. apply in_outs. exists s. auto.
Qed.

Lemma is_output_false (proj : project) (p : N) : is_output proj p = false <-> ~ In p (outs proj).
Proof. unfold is_output. apply memN_false. Qed.

(* topological order: inputs never come from the step itself or a later one *)
Lemma topo_app (a b : project) :
  topo (a ++ b) = true ->
  topo b = true /\ forall q p s, In q a -> In p (inp q) -> In s b -> ~ In p (out s).
Proof.
  induction a as [|x a IH]; cbn [app topo]; intros H.
  - split; [exact H|]. intros q p s [].
  - apply andb_true_iff in H. destruct H as [H1 H2]. destruct (IH H2) as [Hb Hd].
    split; [exact Hb|]. intros q p s [->|Hq] Hp Hs.
    + rewrite forallb_forall in H1. specialize (H1 p Hp). apply negb_true_iff in H1.
      apply memN_false in H1. intros Hps. apply H1. apply in_outs. exists s. split; [|exact Hps].
      right. apply in_or_app. right. exact Hs.
    + exact (Hd q p s Hq Hp Hs).
Qed.

Lemma topo_head (s : step) (rest : project) :
  topo (s :: rest) = true ->
  forall p q, In p (inp s) -> In q (s :: rest) -> ~ In p (out q).
Proof.
  cbn [topo]. intros H p q Hp Hq Hpq. apply andb_true_iff in H. destruct H as [H _].
  rewrite forallb_forall in H. specialize (H p Hp). apply negb_true_iff in H.
  apply memN_false in H. apply H. apply in_outs. exists q. auto.
Qed.

Section Proofs.
  Variable run : N -> list (option N) -> list (option N) -> N -> N.

  Notation produced := (produced run).
  Notation do_run := (do_run run).
  Notation step_build := (step_build run).
  Notation build_from := (build_from run).
  Notation build := (build run).
  Notation phase := (phase run).
  Notation run_history := (run_history run).
  Notation scratch := (scratch run).
  Notation trace_valid := (trace_valid run).
  Notation Pre := (Pre run).
  Notation Local := (Local run).
  Notation Finished := (Finished run).

  (* ---------------------------------------------------------------------------------------- *)
  (* Writing the outputs                                                                      *)
  (* ---------------------------------------------------------------------------------------- *)
  Lemma write_all_other (l : list (N * option N)) (f : N -> option N) (p : N) :
    ~ In p (map fst l) -> write_all f l p = f p.
  Proof.
    revert f. induction l as [|[q c] l IH]; intros f H; cbn [write_all]; [reflexivity|].
    rewrite IH.
    - apply upd_other. intros ->. apply H. left. reflexivity.
    - intros Hin. apply H. right. exact Hin.
  Qed.

  Lemma write_all_in (l : list (N * option N)) (f : N -> option N) (p : N) (c : option N) :
    NoDup (map fst l) -> In (p, c) l -> write_all f l p = c.
  Proof.
    revert f. induction l as [|[q d] l IH]; intros f Hnd Hin; [contradiction|].
    cbn [write_all]. cbn in Hnd. inversion Hnd as [|? ? Hn Hnd']; subst.
    destruct Hin as [He|Hin].
    - injection He as -> ->. rewrite write_all_other; [apply upd_same|exact Hn].
    - apply IH; assumption.
  Qed.

  Lemma map_fst_produced (s : step) ii ee : map fst (produced s ii ee) = out s.
  Proof. unfold Engine.produced. rewrite map_map. cbn. apply map_id. Qed.

  Lemma fs_do_run_other (s : step) (y : sys) (p : N) : ~ In p (out s) -> fs (do_run s y) p = fs y p.
  Proof.
    intros H. cbn [Engine.do_run fs]. apply write_all_other. rewrite map_fst_produced. exact H.
  Qed.

  Lemma fs_do_run_out (s : step) (y : sys) (p : N) :
    NoDup (out s) -> In p (out s) ->
    fs (do_run s y) p = Some (run (sid s) (map (fs y) (inp s)) (map (ev y) (envn s)) p).
  Proof.
    intros Hnd Hp. cbn [Engine.do_run fs]. apply write_all_in.
    - rewrite map_fst_produced. exact Hnd.
    - unfold Engine.produced. rewrite !map_snd_ingredients. apply in_map_iff. exists p. auto.
  Qed.

  Lemma ingredients_do_run_out (s : step) (y : sys) :
    NoDup (out s) ->
    ingredients (fs (do_run s y)) (out s)
    = produced s (ingredients (fs y) (inp s)) (ingredients (ev y) (envn s)).
  Proof.
    intros Hnd. unfold ingredients at 1. unfold Engine.produced. apply map_ext_in. intros p Hp.
    rewrite (fs_do_run_out s y p Hnd Hp). rewrite !map_snd_ingredients. reflexivity.
  Qed.

  (* ---------------------------------------------------------------------------------------- *)
  (* skip_sound                                                                               *)
  (* ---------------------------------------------------------------------------------------- *)
  (* Skipping a step whose recorded input and output ingredients match the present leaves the
     file system exactly as running it would: by determinism of the program. *)
  Lemma skip_sound (s : step) (y : sys) (t : trace) :
    NoDup (out s) -> (forall p, In p (inp s) -> ~ In p (out s)) ->
    tr y (sid s) = Some t -> trace_valid s t -> can_skip s y = true ->
    forall p, fs (do_run s y) p = fs (do_skip s y) p.
  Proof.
    intros Hnd Hdis Htr (Hi & He & Ho) Hskip p. unfold can_skip in Hskip. rewrite Htr in Hskip.
    apply andb_true_iff in Hskip. destruct Hskip as [Hs Hout].
    apply andb_true_iff in Hs. destruct Hs as [Hinp Henv].
    apply ingr_eqb_eq in Hinp. apply ingr_eqb_eq in Henv. apply ingr_eqb_eq in Hout.
    cbn [do_skip fs]. destruct (in_dec N.eq_dec p (out s)) as [Hp|Hp].
    - rewrite (fs_do_run_out s y p Hnd Hp).
      assert (Hin : In (p, fs y p) (t_out t)).
      { rewrite Hout. unfold ingredients. apply in_map_iff. exists p. auto. }
      rewrite Ho, Hinp, Henv in Hin. unfold Engine.produced in Hin. apply in_map_iff in Hin.
      destruct Hin as (p' & Heq & _). injection Heq as -> Hc. rewrite <- Hc.
      rewrite !map_snd_ingredients. reflexivity.
    - apply fs_do_run_other. exact Hp.
  Qed.

  (* ---------------------------------------------------------------------------------------- *)
  (* Frames: what readiness and the defining equations depend on                              *)
  (* ---------------------------------------------------------------------------------------- *)
  Lemma avail_fs (proj : project) (y : sys) (p : N) (c : N) : avail proj y p = Some c -> fs y p = Some c.
  Proof.
    unfold avail. destruct (producer proj p) as [q|]; [|auto].
    destruct (is_succ (stt y q)); [auto|discriminate].
  Qed.

  Lemma ready_avail (proj : project) (y : sys) (s : step) (p : N) :
    ready proj y s = true -> In p (inp s) -> avail proj y p = fs y p /\ fs y p <> None.
  Proof.
    unfold ready. rewrite forallb_forall. intros H Hp. specialize (H p Hp).
    destruct (avail proj y p) as [c|] eqn:E; [|discriminate].
    rewrite (avail_fs proj y p c E). split; [reflexivity|discriminate].
  Qed.

  (* readiness only looks at the inputs and at the states of their producers *)
  Lemma ready_ext (proj : project) (y z : sys) (s : step) :
    (forall p, In p (inp s) -> avail proj y p = avail proj z p) -> ready proj y s = ready proj z s.
  Proof.
    intros H. unfold ready. apply forallb_ext_in'. intros p Hp. rewrite (H p Hp). reflexivity.
  Qed.

  Definition WF (proj : project) : Prop :=
    NoDup (map sid proj) /\ NoDup (outs proj) /\ topo proj = true.

  Lemma wf_WF (proj : project) : wf proj = true -> WF proj.
  Proof.
    unfold wf. intros H. apply andb_true_iff in H. destruct H as [H H3].
    apply andb_true_iff in H. destruct H as [H1 H2].
    repeat split; [apply nodupN_NoDup; exact H1 | apply nodupN_NoDup; exact H2 | exact H3].
  Qed.

  (* a system that differs from [y] only at the outputs, the state and the trace of step [s] *)
  Definition frame (s : step) (y y' : sys) : Prop :=
    (forall p, ~ In p (out s) -> fs y' p = fs y p) /\ (forall n, ev y' n = ev y n) /\
    (forall id, id <> sid s -> stt y' id = stt y id) /\
    (forall id, id <> sid s -> tr y' id = tr y id).

  Lemma step_build_frame (proj : project) (s : step) (y : sys) : frame s y (step_build proj s y).
  Proof.
    unfold Engine.step_build.
    destruct (is_succ (stt y (sid s))); [repeat split; auto|].
    destruct (negb (ready proj y s)); [repeat split; auto|].
    destruct (can_skip s y).
    - repeat split; auto. intros id Hid. cbn. apply upd_other. exact Hid.
    - repeat split.
      + intros p Hp. apply fs_do_run_other. exact Hp.
      + intros id Hid. cbn. apply upd_other. exact Hid.
      + intros id Hid. cbn. apply upd_other. exact Hid.
  Qed.

  (* availability of a path that is not an output of [s] is not affected by a change at [s] *)
  Lemma avail_frame (proj : project) (s : step) (y y' : sys) (p : N) :
    WF proj -> In s proj -> frame s y y' -> ~ In p (out s) ->
    avail proj y' p = avail proj y p.
  Proof.
    intros (Hid & Hnd & _) Hs (Hfs & _ & Hst & _) Hp. unfold avail.
    destruct (producer proj p) as [id|] eqn:E.
    - assert (Hne : id <> sid s).
      { intros ->. apply producer_some in E. destruct E as (q & Hq & He & Hpq).
        apply Hp. rewrite <- (sid_unique proj q s Hid Hq Hs He). exact Hpq. }
      rewrite (Hst id Hne). rewrite (Hfs p Hp). reflexivity.
    - apply Hfs. exact Hp.
  Qed.

  (* the defining equations at [q] survive a change at another step [s] whose outputs [q]
     neither reads nor writes *)
  Lemma Local_frame (proj : project) (s q : step) (y y' : sys) :
    WF proj -> In s proj -> In q proj -> frame s y y' -> sid q <> sid s ->
    (forall p, In p (inp q) -> ~ In p (out s)) -> (forall p, In p (out q) -> ~ In p (out s)) ->
    Local proj y q -> Local proj y' q.
  Proof.
    intros Hwf Hs Hq Hfr Hne Hinp Hout HL. unfold Engine.Local in *.
    assert (Hr : ready proj y' q = ready proj y q).
    { apply ready_ext. intros p Hp. apply (avail_frame proj s y y' p Hwf Hs Hfr). apply Hinp. exact Hp. }
    rewrite Hr. destruct Hfr as (Hfs & Hev & Hst & _).
    destruct (ready proj y q).
    - destruct HL as [H1 H2]. split; [rewrite (Hst _ Hne); exact H1|].
      intros p Hp. rewrite (Hfs p (Hout p Hp)). rewrite (H2 p Hp). f_equal. f_equal.
      + apply map_ext_in. intros x Hx. symmetry. apply Hfs. apply Hinp. exact Hx.
      + apply map_ext. intros n. symmetry. apply Hev.
    - rewrite (Hst _ Hne). exact HL.
  Qed.

  (* ---------------------------------------------------------------------------------------- *)
  (* One dispatch decision                                                                    *)
  (* ---------------------------------------------------------------------------------------- *)
  Lemma self_disjoint (proj : project) (s : step) :
    WF proj -> In s proj -> forall p, In p (inp s) -> ~ In p (out s).
  Proof.
    intros (_ & _ & Ht) Hs p Hp. apply in_split in Hs. destruct Hs as (a & b & ->).
    apply topo_app in Ht. destruct Ht as [Ht _]. apply (topo_head s b Ht p s Hp). left. reflexivity.
  Qed.

  (* a SUCCEEDED step reads no output of a PENDING step (closure) *)
  Lemma succeeded_reads_no_pending (proj : project) (y : sys) (s q : step) (p : N) :
    WF proj -> In s proj -> stt y (sid s) = Pending -> ready proj y q = true ->
    In p (inp q) -> ~ In p (out s).
  Proof.
    intros (_ & Hnd & _) Hs Hpend Hr Hp Hps.
    unfold ready in Hr. rewrite forallb_forall in Hr. specialize (Hr p Hp).
    unfold avail in Hr. rewrite (producer_of_out proj s p Hnd Hs Hps) in Hr.
    rewrite Hpend in Hr. cbn in Hr. discriminate.
  Qed.

  Lemma ready_mono (proj : project) (y y' : sys) (q : step) :
    (forall p, In p (inp q) -> fs y' p = fs y p) ->
    (forall id, stt y id = Succeeded -> stt y' id = Succeeded) ->
    ready proj y q = true -> ready proj y' q = true.
  Proof.
    intros Hfs Hst. unfold ready. rewrite !forallb_forall. intros H p Hp. specialize (H p Hp).
    unfold avail in *. destruct (producer proj p) as [id|].
    - destruct (stt y id) eqn:E; cbn in H; [discriminate|].
      rewrite (Hst id E). cbn. rewrite (Hfs p Hp). exact H.
    - rewrite (Hfs p Hp). exact H.
  Qed.

  Lemma step_build_ok (proj : project) (s : step) (y : sys) :
    WF proj -> In s proj -> Pre proj y ->
    Pre proj (step_build proj s y) /\ Local proj (step_build proj s y) s.
  Proof.
    intros Hwf Hs (Htv & HK & Hcl).
    pose proof Hwf as (Hid & Hnd & Htopo).
    pose proof (out_nodup proj s Hnd Hs) as Hnds.
    pose proof (self_disjoint proj s Hwf Hs) as Hself.
    unfold Engine.step_build.
    destruct (stt y (sid s)) eqn:Est; cbn [is_succ].
    2:{ (* already SUCCEEDED: K and trace validity give the equations *)
      split; [exact (conj Htv (conj HK Hcl))|]. unfold Engine.Local.
      rewrite (Hcl s Hs Est). split; [exact Est|]. intros p Hp.
      destruct (HK s Hs Est) as (t & Ht & Hi & He & Ho).
      destruct (Htv s t Hs Ht) as (_ & _ & Hv).
      assert (Hin : In (p, fs y p) (t_out t)).
      { rewrite Ho. unfold ingredients. apply in_map_iff. exists p. auto. }
      rewrite Hv, Hi, He in Hin. unfold Engine.produced in Hin. apply in_map_iff in Hin.
      destruct Hin as (p' & Heq & _). injection Heq as -> Hc. rewrite <- Hc.
      rewrite !map_snd_ingredients. reflexivity. }
    destruct (ready proj y s) eqn:Er; cbn [negb].
    2:{ split; [exact (conj Htv (conj HK Hcl))|]. unfold Engine.Local. rewrite Er. exact Est. }
    destruct (can_skip s y) eqn:Esk.
    - (* skip *)
      unfold can_skip in Esk. destruct (tr y (sid s)) as [t|] eqn:Et; [|discriminate].
      apply andb_true_iff in Esk. destruct Esk as [Hsk Ho].
      apply andb_true_iff in Hsk. destruct Hsk as [Hi He].
      apply ingr_eqb_eq in Hi. apply ingr_eqb_eq in He. apply ingr_eqb_eq in Ho.
      assert (Hmono : forall id, stt y id = Succeeded -> stt (do_skip s y) id = Succeeded).
      { intros id H. cbn. unfold upd. destruct (id =? sid s); [reflexivity|exact H]. }
      split; [split; [|split]|].
      + exact Htv.
      + intros q Hq Hsq. cbn [do_skip tr fs ev]. destruct (N.eq_dec (sid q) (sid s)) as [E|E].
        * rewrite (sid_unique proj q s Hid Hq Hs E). exists t. auto.
        * apply (HK q Hq). cbn in Hsq. rewrite (upd_other _ _ _ _ E) in Hsq. exact Hsq.
      + intros q Hq Hsq. apply (ready_mono proj y); auto.
        destruct (N.eq_dec (sid q) (sid s)) as [E|E].
        * rewrite (sid_unique proj q s Hid Hq Hs E). exact Er.
        * apply (Hcl q Hq). cbn in Hsq. rewrite (upd_other _ _ _ _ E) in Hsq. exact Hsq.
      + unfold Engine.Local. rewrite (ready_mono proj y (do_skip s y) s); auto.
        split; [cbn; apply upd_same|]. intros p Hp. cbn [do_skip fs ev].
        destruct (Htv s t Hs Et) as (_ & _ & Hv).
        assert (Hin : In (p, fs y p) (t_out t)).
        { rewrite Ho. unfold ingredients. apply in_map_iff. exists p. auto. }
        rewrite Hv, Hi, He in Hin. unfold Engine.produced in Hin. apply in_map_iff in Hin.
        destruct Hin as (p' & Heq & _). injection Heq as -> Hc. rewrite <- Hc.
        rewrite !map_snd_ingredients. reflexivity.
    - (* run *)
      assert (Hmono : forall id, stt y id = Succeeded -> stt (do_run s y) id = Succeeded).
      { intros id H. cbn. unfold upd. destruct (id =? sid s); [reflexivity|exact H]. }
      assert (Hinp_s : forall p, In p (inp s) -> fs (do_run s y) p = fs y p).
      { intros p Hp. apply fs_do_run_other. apply Hself. exact Hp. }
      (* a step that is SUCCEEDED in [y] reads and writes nothing that [s] writes *)
      assert (Hother : forall q, In q proj -> sid q <> sid s -> stt y (sid q) = Succeeded ->
                                 (forall p, In p (inp q) -> fs (do_run s y) p = fs y p) /\
                                 (forall p, In p (out q) -> fs (do_run s y) p = fs y p)).
      { intros q Hq Hne Hsq. split; intros p Hp; apply fs_do_run_other.
        - apply (succeeded_reads_no_pending proj y s q p Hwf Hs Est (Hcl q Hq Hsq) Hp).
        - intros Hps. apply Hne. f_equal. apply (out_unique proj q s p Hnd Hq Hs Hp Hps). }
      split; [split; [|split]|].
      + intros q t Hq Ht. cbn [Engine.do_run tr] in Ht. destruct (N.eq_dec (sid q) (sid s)) as [E|E].
        * rewrite E, upd_same in Ht. injection Ht as <-.
          rewrite (sid_unique proj q s Hid Hq Hs E). unfold Engine.trace_valid. cbn.
          rewrite !map_fst_ingredients. auto.
        * rewrite (upd_other _ _ _ _ E) in Ht. exact (Htv q t Hq Ht).
      + intros q Hq Hsq. destruct (N.eq_dec (sid q) (sid s)) as [E|E].
        * rewrite (sid_unique proj q s Hid Hq Hs E). cbn [Engine.do_run tr ev].
          rewrite upd_same. eexists. split; [reflexivity|]. cbn [t_inp t_env t_out]. repeat split.
          -- apply ingredients_ext. intros p Hp. symmetry. apply Hinp_s. exact Hp.
          -- symmetry. apply ingredients_do_run_out. exact Hnds.
        * assert (Hsq' : stt y (sid q) = Succeeded).
          { cbn in Hsq. rewrite (upd_other _ _ _ _ E) in Hsq. exact Hsq. }
          destruct (Hother q Hq E Hsq') as [Hqi Hqo].
          destruct (HK q Hq Hsq') as (t & Ht & Hi & He & Ho).
          exists t. cbn [Engine.do_run tr ev]. rewrite (upd_other _ _ _ _ E). repeat split; auto.
          -- rewrite Hi. apply ingredients_ext. intros p Hp. symmetry. apply Hqi. exact Hp.
          -- rewrite Ho. apply ingredients_ext. intros p Hp. symmetry. apply Hqo. exact Hp.
      + intros q Hq Hsq. destruct (N.eq_dec (sid q) (sid s)) as [E|E].
        * rewrite (sid_unique proj q s Hid Hq Hs E). apply (ready_mono proj y); auto.
        * assert (Hsq' : stt y (sid q) = Succeeded).
          { cbn in Hsq. rewrite (upd_other _ _ _ _ E) in Hsq. exact Hsq. }
          apply (ready_mono proj y); auto. apply (Hother q Hq E Hsq').
      + unfold Engine.Local. rewrite (ready_mono proj y (do_run s y) s); auto.
        split; [cbn; apply upd_same|]. intros p Hp.
        rewrite (fs_do_run_out s y p Hnds Hp). cbn [Engine.do_run ev]. f_equal. f_equal.
        apply map_ext_in. intros x Hx. symmetry. apply Hinp_s. exact Hx.
  Qed.

  (* ---------------------------------------------------------------------------------------- *)
  (* A build                                                                                  *)
  (* ---------------------------------------------------------------------------------------- *)
  Lemma sid_before (done rest : project) (s q : step) :
    NoDup (map sid (done ++ s :: rest)) -> In q done -> sid q <> sid s.
  Proof.
    rewrite map_app. cbn [map]. intros Hnd Hq He.
    apply (NoDup_app_disjoint _ _ (sid s) Hnd).
    - rewrite <- He. apply in_map. exact Hq.
    - left. reflexivity.
  Qed.

  Lemma build_from_ok (proj : project) :
    WF proj ->
    forall todo done y,
      proj = done ++ todo -> Pre proj y -> (forall q, In q done -> Local proj y q) ->
      Pre proj (build_from proj todo y) /\
      (forall q, In q proj -> Local proj (build_from proj todo y) q).
  Proof.
    intros Hwf. pose proof Hwf as (Hid & Hnd & Htopo).
    induction todo as [|s rest IH]; intros done y Hp HPre Hdone.
    - cbn. split; [exact HPre|]. intros q Hq. apply Hdone. rewrite Hp, app_nil_r in Hq. exact Hq.
    - assert (Hs : In s proj). { rewrite Hp. apply in_or_app. right. left. reflexivity. }
      destruct (step_build_ok proj s y Hwf Hs HPre) as [HPre1 HL1].
      unfold Engine.build_from. cbn [fold_left].
      change (fold_left (fun y0 s0 => step_build proj s0 y0) rest (step_build proj s y))
        with (build_from proj rest (step_build proj s y)).
      apply (IH (done ++ [s])).
      + rewrite <- app_assoc. exact Hp.
      + exact HPre1.
      + intros q Hq. apply in_app_or in Hq. destruct Hq as [Hq|[<-|[]]]; [|exact HL1].
        assert (Hqp : In q proj). { rewrite Hp. apply in_or_app. left. exact Hq. }
        assert (Hne : sid q <> sid s). { apply (sid_before done rest s q); [rewrite <- Hp; exact Hid|exact Hq]. }
        apply (Local_frame proj s q y _ Hwf Hs Hqp (step_build_frame proj s y) Hne).
        * intros p Hpi. rewrite Hp in Htopo. apply topo_app in Htopo. destruct Htopo as [_ Hd].
          apply (Hd q p s Hq Hpi). left. reflexivity.
        * intros p Hpo Hps. apply Hne. f_equal. apply (out_unique proj q s p Hnd Hqp Hs Hpo Hps).
        * apply Hdone. exact Hq.
  Qed.

  Lemma same_world_refl (proj : project) (y : sys) : same_world proj y y.
  Proof. split; reflexivity. Qed.

  Lemma same_world_trans (proj : project) (x y z : sys) :
    same_world proj x y -> same_world proj y z -> same_world proj x z.
  Proof.
    intros [H1 H2] [H3 H4]. split.
    - intros p Hp. rewrite (H1 p Hp). apply H3. exact Hp.
    - intros n. rewrite H2. apply H4.
  Qed.

  Lemma same_world_sym (proj : project) (x y : sys) : same_world proj x y -> same_world proj y x.
  Proof. intros [H1 H2]. split; intros; symmetry; auto. Qed.

  Lemma step_build_world (proj : project) (s : step) (y : sys) :
    In s proj -> same_world proj y (step_build proj s y).
  Proof.
    intros Hs. destruct (step_build_frame proj s y) as (Hfs & Hev & _). split.
    - intros p Hp. symmetry. apply Hfs. intros Hps. apply is_output_false in Hp. apply Hp.
      apply in_outs. exists s. auto.
    - intros n. symmetry. apply Hev.
  Qed.

  Lemma build_from_world (proj : project) (todo : project) (y : sys) :
    (forall s, In s todo -> In s proj) -> same_world proj y (build_from proj todo y).
  Proof.
    revert y. induction todo as [|s rest IH]; intros y Hsub; [apply same_world_refl|].
    unfold Engine.build_from. cbn [fold_left].
    apply (same_world_trans proj y (step_build proj s y)).
    - apply step_build_world. apply Hsub. left. reflexivity.
    - apply IH. intros q Hq. apply Hsub. right. exact Hq.
  Qed.

  (* build_establishes_K: from a state satisfying the invariant, a build ends in a state that
     satisfies it again (in particular K = NoStaleSuccess) and that is finished *)
  Lemma build_establishes_K (proj : project) (y : sys) :
    WF proj -> Pre proj y ->
    Pre proj (build proj y) /\ K proj (build proj y) /\ Finished proj (build proj y) /\
    same_world proj y (build proj y).
  Proof.
    intros Hwf HPre. unfold Engine.build.
    destruct (build_from_ok proj Hwf proj [] y eq_refl HPre) as [H1 H2]; [intros q []|].
    split; [exact H1|]. split; [apply H1|]. split; [exact H2|].
    apply build_from_world. auto.
  Qed.

  Lemma init_Pre (proj : project) (src env : N -> option N) : Pre proj (init proj src env).
  Proof.
    split; [|split].
    - intros s t _ H. cbn in H. discriminate.
    - intros s _ H. cbn in H. discriminate.
    - intros s _ H. cbn in H. discriminate.
  Qed.

  (* ---------------------------------------------------------------------------------------- *)
  (* Pending propagation after an edit                                                        *)
  (* ---------------------------------------------------------------------------------------- *)
  Lemma mark_only_lowers (todo : project) d de st id :
    mark todo d de st id = Succeeded -> st id = Succeeded.
  Proof.
    revert d st. induction todo as [|x rest IH]; intros d st H; cbn [mark] in H; [exact H|].
    destruct (existsb d (inp x) || existsb de (envn x) || negb (is_succ (st (sid x)))).
    - apply IH in H. unfold upd in H. destruct (id =? sid x); [discriminate|exact H].
    - exact (IH _ _ H).
  Qed.

  Lemma mark_elsewhere (todo : project) d de st id :
    (forall s, In s todo -> sid s <> id) -> mark todo d de st id = st id.
  Proof.
    revert d st. induction todo as [|x rest IH]; intros d st H; cbn [mark]; [reflexivity|].
    assert (Hr : forall s, In s rest -> sid s <> id) by (intros s Hs; apply H; right; exact Hs).
    destruct (existsb d (inp x) || existsb de (envn x) || negb (is_succ (st (sid x)))).
    - rewrite (IH _ _ Hr). apply upd_other. intros ->. apply (H x (or_introl eq_refl)). reflexivity.
    - exact (IH _ _ Hr).
  Qed.

  Lemma not_in_tail_ids (x : step) (rest : project) :
    NoDup (map sid (x :: rest)) -> forall s, In s rest -> sid s <> sid x.
  Proof.
    cbn. intros Hnd s Hs He. inversion Hnd as [|? ? Hn _]; subst. apply Hn. rewrite <- He.
    apply in_map. exact Hs.
  Qed.

  Lemma existsb_false_all {A} (f : A -> bool) (l : list A) :
    existsb f l = false -> forall x, In x l -> f x = false.
  Proof.
    intros H x Hx. destruct (f x) eqn:E; [|reflexivity].
    assert (existsb f l = true) by (apply existsb_exists; exists x; auto). congruence.
  Qed.

  (* a step that stays SUCCEEDED was SUCCEEDED, has no dirty input and no changed variable *)
  Lemma mark_unmarked (todo : project) d de st (s : step) :
    NoDup (map sid todo) -> In s todo -> mark todo d de st (sid s) = Succeeded ->
    st (sid s) = Succeeded /\ (forall p, In p (inp s) -> d p = false) /\
    (forall n, In n (envn s) -> de n = false).
  Proof.
    revert d st. induction todo as [|x rest IH]; intros d st Hnd Hs H; [contradiction|].
    pose proof (not_in_tail_ids x rest Hnd) as Hids.
    assert (Hnd' : NoDup (map sid rest)) by (cbn in Hnd; inversion Hnd; assumption).
    cbn [mark] in H.
    destruct (existsb d (inp x) || existsb de (envn x) || negb (is_succ (st (sid x)))) eqn:Ec.
    - destruct Hs as [->|Hs].
      + rewrite mark_elsewhere in H; [|exact Hids]. rewrite upd_same in H. discriminate.
      + destruct (IH _ _ Hnd' Hs H) as (H1 & H2 & H3). split; [|split].
        * rewrite upd_other in H1; [exact H1|]. apply Hids. exact Hs.
        * intros p Hp. specialize (H2 p Hp). cbn in H2. apply orb_false_iff in H2. apply H2.
        * exact H3.
    - apply orb_false_iff in Ec. destruct Ec as [Ec E3]. apply orb_false_iff in Ec.
      destruct Ec as [E1 E2]. destruct Hs as [->|Hs].
      + split; [|split].
        * apply negb_false_iff in E3. destruct (st (sid s)); [discriminate|reflexivity].
        * apply existsb_false_all. exact E1.
        * apply existsb_false_all. exact E2.
      + exact (IH _ _ Hnd' Hs H).
  Qed.

  (* closure: the producers of the inputs of a step that stays SUCCEEDED stay SUCCEEDED *)
  Lemma mark_closed (todo : project) d de st (s q : step) (p : N) :
    NoDup (map sid todo) -> topo todo = true -> In s todo -> In q todo ->
    In p (out q) -> In p (inp s) ->
    mark todo d de st (sid s) = Succeeded -> mark todo d de st (sid q) = Succeeded.
  Proof.
    revert d st. induction todo as [|x rest IH]; intros d st Hnd Ht Hs Hq Hpo Hpi H; [contradiction|].
    pose proof (not_in_tail_ids x rest Hnd) as Hids.
    assert (Hnd' : NoDup (map sid rest)) by (cbn in Hnd; inversion Hnd; assumption).
    assert (Ht' : topo rest = true) by (cbn [topo] in Ht; apply andb_true_iff in Ht; apply Ht).
    destruct Hs as [->|Hs].
    - exfalso. exact (topo_head s rest Ht p q Hpi Hq Hpo).
    - cbn [mark] in *.
      destruct (existsb d (inp x) || existsb de (envn x) || negb (is_succ (st (sid x)))) eqn:Ec.
      + destruct Hq as [->|Hq].
        * exfalso. destruct (mark_unmarked rest _ de _ s Hnd' Hs H) as (_ & H2 & _).
          specialize (H2 p Hpi). cbn in H2. apply orb_false_iff in H2. destruct H2 as [_ H2].
          apply memN_false in H2. apply H2. exact Hpo.
        * exact (IH _ _ Hnd' Ht' Hs Hq Hpo Hpi H).
      + destruct Hq as [->|Hq].
        * rewrite mark_elsewhere; [|exact Hids]. apply orb_false_iff in Ec. destruct Ec as [_ E3].
          apply negb_false_iff in E3. destruct (st (sid q)); [discriminate|reflexivity].
        * exact (IH _ _ Hnd' Ht' Hs Hq Hpo Hpi H).
  Qed.

  Lemma mark_Pre (proj : project) (y : sys) (d de : N -> bool) (f' e' : N -> option N) :
    WF proj -> Pre proj y ->
    (forall x, d x = false -> f' x = fs y x) ->
    (forall m, de m = false -> e' m = ev y m) ->
    (forall x, In x (outs proj) -> f' x = fs y x) ->
    Pre proj (mkSys f' e' (tr y) (mark proj d de (stt y))).
  Proof.
    intros (Hid & Hnd & Htopo) (Htv & HK & Hcl) Hf He Ho.
    set (y' := mkSys f' e' (tr y) (mark proj d de (stt y))).
    assert (Hkeep : forall s, In s proj -> stt y' (sid s) = Succeeded ->
                    stt y (sid s) = Succeeded /\ (forall p, In p (inp s) -> f' p = fs y p) /\
                    (forall n, In n (envn s) -> e' n = ev y n)).
    { intros s Hs H. destruct (mark_unmarked proj d de (stt y) s Hid Hs H) as (H1 & H2 & H3).
      split; [exact H1|]. split; intros; [apply Hf|apply He]; auto. }
    split; [|split].
    - exact Htv.
    - intros s Hs H. destruct (Hkeep s Hs H) as (H1 & H2 & H3).
      destruct (HK s Hs H1) as (t & Ht & Hi & Hev & Hou). exists t. cbn [tr fs ev y'].
      split; [exact Ht|]. split; [|split].
      + rewrite Hi. apply ingredients_ext. intros k Hk. symmetry. apply H2. exact Hk.
      + rewrite Hev. apply ingredients_ext. intros k Hk. symmetry. apply H3. exact Hk.
      + rewrite Hou. apply ingredients_ext. intros k Hk. symmetry. apply Ho. apply in_outs.
        exists s. auto.
    - intros s Hs H. destruct (Hkeep s Hs H) as (H1 & H2 & _).
      pose proof (Hcl s Hs H1) as Hr. unfold ready in *. rewrite forallb_forall in *.
      intros p Hp. specialize (Hr p Hp). unfold avail in *. cbn [fs stt y'].
      destruct (producer proj p) as [id|] eqn:E.
      + destruct (stt y id) eqn:Eid; cbn in Hr; [discriminate|].
        apply producer_some in E. destruct E as (q & Hq & <- & Hpq).
        rewrite (mark_closed proj d de (stt y) s q p Hid Htopo Hs Hq Hpq Hp H). cbn.
        rewrite (H2 p Hp). exact Hr.
      + rewrite (H2 p Hp). exact Hr.
  Qed.

  Lemma apply_edit_Pre (proj : project) (y : sys) (e : edit) :
    WF proj -> Pre proj y -> Pre proj (apply_edit proj y e).
  Proof.
    intros Hwf HPre. destruct e as [p c|n v]; cbn [Engine.apply_edit].
    - destruct (is_output proj p) eqn:Eo; [exact HPre|].
      apply (mark_Pre proj y (N.eqb p) (fun _ => false) (upd (fs y) p c) (ev y) Hwf HPre).
      + intros x Hx. apply upd_other. intros ->. rewrite N.eqb_refl in Hx. discriminate.
      + reflexivity.
      + intros x Hx. apply upd_other. intros ->. apply is_output_false in Eo. contradiction.
    - apply (mark_Pre proj y (fun _ => false) (N.eqb n) (fs y) (upd (ev y) n v) Hwf HPre).
      + reflexivity.
      + intros m Hm. apply upd_other. intros ->. rewrite N.eqb_refl in Hm. discriminate.
      + reflexivity.
  Qed.

  Lemma edits_Pre (proj : project) (es : list edit) (y : sys) :
    WF proj -> Pre proj y -> Pre proj (fold_left (apply_edit proj) es y).
  Proof.
    intros Hwf. revert y. induction es as [|e es IH]; intros y H; [exact H|].
    cbn [fold_left]. apply IH. apply apply_edit_Pre; assumption.
  Qed.

  (* ---------------------------------------------------------------------------------------- *)
  (* A finished state is determined by the sources and the environment                        *)
  (* ---------------------------------------------------------------------------------------- *)
  Lemma avail_agree (proj : project) (y z : sys) :
    WF proj -> Finished proj y -> Finished proj z -> same_world proj y z ->
    forall todo done, proj = done ++ todo ->
      (forall p, ~ In p (outs todo) -> avail proj y p = avail proj z p) ->
      forall p, avail proj y p = avail proj z p.
  Proof.
    intros Hwf Hy Hz [Hsrc Henv]. pose proof Hwf as (Hid & Hnd & Htopo).
    induction todo as [|s rest IH]; intros done Hp Hag; [intros p; apply Hag; intros []|].
    apply (IH (done ++ [s])); [rewrite <- app_assoc; exact Hp|].
    intros p Hnr. destruct (in_dec N.eq_dec p (out s)) as [Hps|Hps].
    2:{ apply Hag. change (outs (s :: rest)) with (out s ++ outs rest). intros Hin.
        apply in_app_or in Hin. tauto. }
    assert (Hs : In s proj). { rewrite Hp. apply in_or_app. right. left. reflexivity. }
    assert (Hinp : forall x, In x (inp s) -> avail proj y x = avail proj z x).
    { intros x Hx. apply Hag. rewrite Hp in Htopo. apply topo_app in Htopo. destruct Htopo as [Ht _].
      intros Hin. apply in_outs in Hin. destruct Hin as (q & Hq & Hxq).
      exact (topo_head s rest Ht x q Hx Hq Hxq). }
    pose proof (ready_ext proj y z s Hinp) as Hr.
    pose proof (Hy s Hs) as Ly. pose proof (Hz s Hs) as Lz. unfold Engine.Local in Ly, Lz.
    unfold avail. rewrite (producer_of_out proj s p Hnd Hs Hps).
    rewrite <- Hr in Lz. destruct (ready proj y s) eqn:Er.
    - destruct Ly as [Sy Fy], Lz as [Sz Fz]. rewrite Sy, Sz. cbn.
      rewrite (Fy p Hps), (Fz p Hps). f_equal. f_equal.
      + apply map_ext_in. intros x Hx.
        destruct (ready_avail proj y s x Er Hx) as [Ay _].
        assert (Erz : ready proj z s = true) by (symmetry; exact Hr).
        destruct (ready_avail proj z s x Erz Hx) as [Az _].
        rewrite <- Ay, <- Az. apply Hinp. exact Hx.
      + apply map_ext. intros n. apply Henv.
    - rewrite Ly, Lz. reflexivity.
  Qed.

  Lemma finished_unique (proj : project) (y z : sys) :
    WF proj -> Finished proj y -> Finished proj z -> same_world proj y z -> same_result proj y z.
  Proof.
    intros Hwf Hy Hz Hw.
    assert (Hav : forall p, avail proj y p = avail proj z p).
    { apply (avail_agree proj y z Hwf Hy Hz Hw proj [] eq_refl).
      intros p Hp. unfold avail. apply producer_none in Hp. rewrite Hp. apply Hw.
      apply is_output_false. apply producer_none. exact Hp. }
    intros s Hs. pose proof (Hy s Hs) as Ly. pose proof (Hz s Hs) as Lz.
    unfold Engine.Local in Ly, Lz.
    assert (Hr : ready proj y s = ready proj z s) by (apply ready_ext; intros; apply Hav).
    rewrite <- Hr in Lz. destruct (ready proj y s) eqn:Er.
    - destruct Ly as [Sy Fy], Lz as [Sz Fz]. split; [congruence|]. intros _ p Hp.
      rewrite (Fy p Hp), (Fz p Hp). f_equal. f_equal.
      + apply map_ext_in. intros x Hx.
        destruct (ready_avail proj y s x Er Hx) as [Ay _].
        assert (Erz : ready proj z s = true) by (symmetry; exact Hr).
        destruct (ready_avail proj z s x Erz Hx) as [Az _].
        rewrite <- Ay, <- Az. apply Hav.
      + apply map_ext. intros n. apply Hw.
    - split; [congruence|]. intros H. congruence.
  Qed.

  (* ---------------------------------------------------------------------------------------- *)
  (* Histories                                                                                *)
  (* ---------------------------------------------------------------------------------------- *)
  Lemma history_inv (proj : project) (hist : list (list edit)) (y : sys) :
    WF proj -> Pre proj y -> Finished proj y ->
    Pre proj (run_history proj hist y) /\ Finished proj (run_history proj hist y).
  Proof.
    intros Hwf. revert y. induction hist as [|es hist IH]; intros y HP HF; [auto|].
    change (run_history proj (es :: hist) y) with (run_history proj hist (phase proj y es)).
    unfold Engine.phase.
    destruct (build_establishes_K proj (fold_left (apply_edit proj) es y) Hwf
                (edits_Pre proj es y Hwf HP)) as (H1 & _ & H3 & _).
    apply IH; assumption.
  Qed.

  (* For every static-DAG project, every initial source tree and environment and every finite
     history of edits to sources and tracked variables interleaved with builds, the final state
     has the step states of a from-scratch build of the final sources, and every output of a
     SUCCEEDED step has the from-scratch content. *)
  Theorem K_implies_scratch_equiv_static_dag (proj : project) :
    wf proj = true ->
    forall (hist : list (list edit)) (src env : N -> option N),
      let y := run_history proj hist (scratch proj src env) in
      K proj y /\ same_result proj y (scratch proj (fs y) (ev y)).
  Proof.
    intros Hwf0 hist src env y. pose proof (wf_WF proj Hwf0) as Hwf.
    destruct (build_establishes_K proj (init proj src env) Hwf (init_Pre proj src env))
      as (P0 & _ & F0 & _).
    destruct (history_inv proj hist (scratch proj src env) Hwf P0 F0) as [Py Fy].
    fold y in Py, Fy. split; [apply Py|].
    destruct (build_establishes_K proj (init proj (fs y) (ev y)) Hwf (init_Pre proj (fs y) (ev y)))
      as (_ & _ & Fz & Wz).
    apply (finished_unique proj y _ Hwf Fy Fz).
    apply (same_world_trans proj y (init proj (fs y) (ev y))); [|exact Wz].
    split; [|reflexivity]. intros p Hp. cbn. unfold sources. rewrite Hp. reflexivity.
  Qed.

  (* ---------------------------------------------------------------------------------------- *)
  (* Restart flavour: absolute worlds, startup rescan                                         *)
  (* ---------------------------------------------------------------------------------------- *)
  Lemma oN_eqb_false_eq (a b : option N) : negb (oN_eqb a b) = false -> a = b.
  Proof. intros H. apply negb_false_iff in H. apply oN_eqb_eq. exact H. Qed.

  Lemma resync_Pre (proj : project) (y : sys) (w : world) :
    WF proj -> Pre proj y -> Pre proj (resync proj y w).
  Proof.
    intros Hwf HP. unfold resync. apply mark_Pre; auto.
    - intros x Hx. apply oN_eqb_false_eq. exact Hx.
    - intros m Hm. apply oN_eqb_false_eq. exact Hm.
    - intros x Hx. assert (E : is_output proj x = true) by (apply memN_In; exact Hx).
      rewrite E. reflexivity.
  Qed.

  Lemma empty_Pre (proj : project) : Pre proj empty_sys.
  Proof. split; [|split]; intros s; intros; cbn in *; discriminate. Qed.

  Lemma build_world_inv (proj : project) (w : world) (y : sys) :
    WF proj -> Pre proj y ->
    Pre proj (build_world run proj w y) /\ Finished proj (build_world run proj w y) /\
    (forall p, is_output proj p = false -> fs (build_world run proj w y) p = fst w p) /\
    (forall n, ev (build_world run proj w y) n = snd w n).
  Proof.
    intros Hwf HP. unfold build_world.
    destruct (build_establishes_K proj (resync proj y w) Hwf (resync_Pre proj y w Hwf HP))
      as (H1 & _ & H3 & [H4 H5]).
    split; [exact H1|]. split; [exact H3|]. split.
    - intros p Hp. rewrite <- (H4 p Hp). cbn. rewrite Hp. reflexivity.
    - intros n. rewrite <- H5. reflexivity.
  Qed.

  Lemma worlds_inv (proj : project) (ws : list world) (y : sys) :
    WF proj -> Pre proj y -> Pre proj (fold_left (fun s x => build_world run proj x s) ws y).
  Proof.
    intros Hwf. revert y. induction ws as [|w ws IH]; intros y HP; [exact HP|].
    cbn [fold_left]. apply IH. apply build_world_inv; assumption.
  Qed.

  (* Restart flavour of the equivalence: after ANY sequence of worlds (sources and environment
     changed arbitrarily between builds), building the last world on top of what the earlier
     builds left gives the result of building it on nothing. *)
  Theorem restart_equiv_scratch_static_dag (proj : project) :
    wf proj = true ->
    forall (ws : list world) (w : world),
      same_result proj
        (build_world run proj w (fold_left (fun s x => build_world run proj x s) ws empty_sys))
        (build_world run proj w empty_sys).
  Proof.
    intros Hwf0 ws w. pose proof (wf_WF proj Hwf0) as Hwf.
    pose proof (worlds_inv proj ws empty_sys Hwf (empty_Pre proj)) as HP.
    destruct (build_world_inv proj w _ Hwf HP) as (_ & F1 & S1 & E1).
    destruct (build_world_inv proj w empty_sys Hwf (empty_Pre proj)) as (_ & F2 & S2 & E2).
    apply (finished_unique proj _ _ Hwf F1 F2). split.
    - intros p Hp. rewrite (S1 p Hp), (S2 p Hp). reflexivity.
    - intros n. rewrite E1, E2. reflexivity.
  Qed.
End Proofs.

(* ------------------------------------------------------------------------------------------ *)
(* Plan edits with recycling                                                                   *)
(* ------------------------------------------------------------------------------------------ *)
Lemma listN_eqb_eq (a b : list N) : listN_eqb a b = true -> a = b.
Proof.
  revert b. induction a as [|x a IH]; intros [|y b]; cbn; intros H; try discriminate; try reflexivity.
  apply andb_true_iff in H. destruct H as [H1 H2]. apply N.eqb_eq in H1. subst. f_equal. auto.
Qed.

Lemma step_eqb_eq (a b : step) : step_eqb a b = true -> a = b.
Proof.
  unfold step_eqb. intros H. apply andb_true_iff in H. destruct H as [H H4].
  apply andb_true_iff in H. destruct H as [H H3]. apply andb_true_iff in H. destruct H as [H1 H2].
  apply N.eqb_eq in H1. apply listN_eqb_eq in H2, H3, H4. destruct a, b. cbn in *. subst. reflexivity.
Qed.

Lemma find_step_in (P : project) (s : step) :
  NoDup (map sid P) -> In s P -> find_step P (sid s) = Some s.
Proof.
  intros Hnd Hs. unfold find_step. destruct (find (fun x => sid x =? sid s) P) as [q|] eqn:E.
  - apply find_some in E. destruct E as [Hq He]. apply N.eqb_eq in He.
    rewrite (sid_unique P q s Hnd Hq Hs He). reflexivity.
  - exfalso. apply (find_none _ _ E) in Hs. rewrite N.eqb_refl in Hs. discriminate.
Qed.

(* a step of the new project that is kept is, as a whole, a step of the old project *)
Lemma kept_in_old (P P' : project) (s : step) :
  NoDup (map sid P') -> In s P' -> kept P P' (sid s) = true -> In s P.
Proof.
  intros Hnd Hs H. unfold kept in H. rewrite (find_step_in P' s Hnd Hs) in H.
  destruct (find_step P (sid s)) as [a|] eqn:E; [|discriminate].
  apply step_eqb_eq in H. subst a. unfold find_step in E. apply find_some in E. apply E.
Qed.

Section DynProofs.
  Variable run : N -> list (option N) -> list (option N) -> N -> N.
  Notation Pre := (Pre run).
  Notation Finished := (Finished run).
  Notation trace_valid := (trace_valid run).

  (* what is left of the invariant when the project changes under a state: traces are valid, K
     holds, and every input of a SUCCEEDED step has a content; the closure is NOT assumed *)
  Definition PreWeak (proj : project) (y : sys) : Prop :=
    (forall s t, In s proj -> tr y (sid s) = Some t -> trace_valid s t) /\
    K proj y /\
    (forall s, In s proj -> stt y (sid s) = Succeeded ->
               forall p, In p (inp s) -> fs y p <> None).

  Lemma Pre_PreWeak (proj : project) (y : sys) : Pre proj y -> PreWeak proj y.
  Proof.
    intros (H1 & H2 & H3). split; [exact H1|]. split; [exact H2|].
    intros s Hs Hst p Hp. apply (ready_avail proj y s p (H3 s Hs Hst) Hp).
  Qed.

  (* the outputs of a SUCCEEDED step with a valid matching trace exist *)
  Lemma succeeded_output_some (proj : project) (y : sys) (q : step) (p : N) :
    PreWeak proj y -> In q proj -> stt y (sid q) = Succeeded -> In p (out q) -> fs y p <> None.
  Proof.
    intros (Htv & HK & _) Hq Hst Hp. destruct (HK q Hq Hst) as (t & Ht & _ & _ & Ho).
    destruct (Htv q t Hq Ht) as (_ & _ & Hv).
    assert (Hin : In (p, fs y p) (t_out t)).
    { rewrite Ho. unfold ingredients. apply in_map_iff. exists p. auto. }
    rewrite Hv in Hin. unfold produced in Hin. apply in_map_iff in Hin.
    destruct Hin as (p' & Heq & _). injection Heq as _ Hc. rewrite <- Hc. discriminate.
  Qed.

  (* pending propagation REPAIRS the closure: from the weak invariant it establishes the full one *)
  Lemma mark_Pre_weak (proj : project) (y : sys) (d de : N -> bool) (f' e' : N -> option N) :
    WF proj -> PreWeak proj y ->
    (forall x, d x = false -> f' x = fs y x) ->
    (forall m, de m = false -> e' m = ev y m) ->
    (forall x, In x (outs proj) -> f' x = fs y x) ->
    Pre proj (mkSys f' e' (tr y) (mark proj d de (stt y))).
  Proof.
    intros (Hid & Hnd & Htopo) HW Hf He Ho. pose proof HW as (Htv & HK & Hsome).
    set (y' := mkSys f' e' (tr y) (mark proj d de (stt y))).
    assert (Hkeep : forall s, In s proj -> stt y' (sid s) = Succeeded ->
                    stt y (sid s) = Succeeded /\ (forall p, In p (inp s) -> f' p = fs y p) /\
                    (forall n, In n (envn s) -> e' n = ev y n)).
    { intros s Hs H. destruct (mark_unmarked proj d de (stt y) s Hid Hs H) as (H1 & H2 & H3).
      split; [exact H1|]. split; intros; [apply Hf|apply He]; auto. }
    split; [|split].
    - exact Htv.
    - intros s Hs H. destruct (Hkeep s Hs H) as (H1 & H2 & H3).
      destruct (HK s Hs H1) as (t & Ht & Hi & Hev & Hou). exists t. cbn [tr fs ev y'].
      split; [exact Ht|]. split; [|split].
      + rewrite Hi. apply ingredients_ext. intros k Hk. symmetry. apply H2. exact Hk.
      + rewrite Hev. apply ingredients_ext. intros k Hk. symmetry. apply H3. exact Hk.
      + rewrite Hou. apply ingredients_ext. intros k Hk. symmetry. apply Ho. apply in_outs.
        exists s. auto.
    - intros s Hs H. destruct (Hkeep s Hs H) as (H1 & H2 & _).
      unfold ready. rewrite forallb_forall. intros p Hp. unfold avail. cbn [fs stt y'].
      pose proof (Hsome s Hs H1 p Hp) as Hne. rewrite (H2 p Hp).
      destruct (producer proj p) as [id|] eqn:E.
      + apply producer_some in E. destruct E as (q & Hq & <- & Hpq).
        rewrite (mark_closed proj d de (stt y) s q p Hid Htopo Hs Hq Hpq Hp H). cbn.
        destruct (fs y p); [reflexivity|contradiction].
      + destruct (fs y p); [reflexivity|contradiction].
  Qed.

  (* retargeting the stored workflow to the new project keeps the weak invariant *)
  Lemma retarget_PreWeak (P P' : project) (y : sys) :
    WF P' -> Pre P y -> PreWeak P' (retarget P P' y).
  Proof.
    intros (Hid' & _ & _) HP. pose proof (Pre_PreWeak P y HP) as (Htv & HK & Hsome).
    split; [|split].
    - intros s t Hs Ht. cbn in Ht. destruct (kept P P' (sid s)) eqn:Ek; [|discriminate].
      apply (Htv s t (kept_in_old P P' s Hid' Hs Ek) Ht).
    - intros s Hs Hst. cbn in Hst. destruct (kept P P' (sid s)) eqn:Ek; [|discriminate].
      destruct (HK s (kept_in_old P P' s Hid' Hs Ek) Hst) as (t & Ht & Hrest).
      exists t. cbn. rewrite Ek. auto.
    - intros s Hs Hst p Hp. cbn in Hst. destruct (kept P P' (sid s)) eqn:Ek; [|discriminate].
      cbn. apply (Hsome s (kept_in_old P P' s Hid' Hs Ek) Hst p Hp).
  Qed.

  Lemma rebuild_dyn_inv (P P' : project) (w : world) (y : sys) :
    WF P' -> Pre P y ->
    Pre P' (rebuild_dyn run P y P' w) /\ Finished P' (rebuild_dyn run P y P' w) /\
    (forall p, is_output P' p = false -> fs (rebuild_dyn run P y P' w) p = fst w p) /\
    (forall n, ev (rebuild_dyn run P y P' w) n = snd w n).
  Proof.
    intros Hwf HP. unfold rebuild_dyn.
    assert (HPre : Pre P' (resync P' (retarget P P' y) w)).
    { unfold resync. apply mark_Pre_weak; auto.
      - apply retarget_PreWeak; assumption.
      - intros x Hx. apply oN_eqb_false_eq. exact Hx.
      - intros m Hm. apply oN_eqb_false_eq. exact Hm.
      - intros x Hx. assert (E : is_output P' x = true) by (apply memN_In; exact Hx).
        rewrite E. reflexivity. }
    destruct (build_establishes_K run P' _ Hwf HPre) as (H1 & _ & H3 & [H4 H5]).
    split; [exact H1|]. split; [exact H3|]. split.
    - intros p Hp. rewrite <- (H4 p Hp). cbn. rewrite Hp. reflexivity.
    - intros n. rewrite <- H5. reflexivity.
  Qed.

  (* every state reached by a history of (project, world) pairs satisfies the invariant of its
     current project *)
  Lemma run_dyn_inv (hist : list (project * world)) (acc : project * sys) :
    (forall pw, In pw hist -> wf (fst pw) = true) -> Pre (fst acc) (snd acc) ->
    Pre (fst (fold_left (dyn_step run) hist acc)) (snd (fold_left (dyn_step run) hist acc)).
  Proof.
    revert acc. induction hist as [|pw hist IH]; intros acc Hwf HP; [exact HP|].
    cbn [fold_left]. apply IH.
    - intros x Hx. apply Hwf. right. exact Hx.
    - cbn. apply rebuild_dyn_inv; [|exact HP]. apply wf_WF. apply Hwf. left. reflexivity.
  Qed.

  (* Plan edits with recycling: after ANY history of (project, world) pairs -- the plan may add,
     drop and redefine steps between builds, sources, declarations and variables may change
     arbitrarily -- building the last pair on top of what the earlier builds left gives the result
     of building it on nothing. *)
  Theorem dyn_equiv_scratch (hist : list (project * world)) (P : project) (w : world) :
    (forall pw, In pw hist -> wf (fst pw) = true) -> wf P = true ->
    same_result P (snd (run_dyn run (hist ++ [(P, w)]))) (build_world run P w empty_sys).
  Proof.
    intros Hh HP. pose proof (wf_WF P HP) as Hwf.
    unfold run_dyn. rewrite fold_left_app. cbn [fold_left dyn_step fst snd].
    set (acc := fold_left (dyn_step run) hist ([], empty_sys)).
    assert (Hacc : Pre (fst acc) (snd acc)).
    { apply run_dyn_inv; [exact Hh|]. cbn. apply empty_Pre. }
    destruct (rebuild_dyn_inv (fst acc) P w (snd acc) Hwf Hacc) as (_ & F1 & S1 & E1).
    destruct (build_world_inv run P w empty_sys Hwf (empty_Pre run P)) as (_ & F2 & S2 & E2).
    apply (finished_unique run P _ _ Hwf F1 F2). split.
    - intros p Hp. rewrite (S1 p Hp), (S2 p Hp). reflexivity.
    - intros n. rewrite E1, E2. reflexivity.
  Qed.
End DynProofs.
