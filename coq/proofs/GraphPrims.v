(* C09: the primitives of model/Graph.v preserve the invariant Inv (proofs/GraphInvP.v).
   Every lemma is stated with wpg: for strict = false only the Ok outcome is constrained; for
   strict = true the lemma also excludes every Internal outcome (under its strict-mode
   hypotheses). *)
From Coq Require Import List NArith Bool Lia.
From SV Require Import lib.Bytes lib.Closure model.Graph model.GraphInv
  proofs.GraphBase proofs.GraphNodes proofs.GraphInvP.
Import ListNotations.
Open Scope N_scope.

Section HH.
Context {hh : bool}.

(* ------------------------------------------------------------------------------------------ *)
(* frames                                                                                      *)
(* ------------------------------------------------------------------------------------------ *)
(* only row contents (file states/hashes, step columns, stored hashes) change *)
Record SO (s s' : st) : Prop := {
  so_nodes : nodes s' = nodes s;
  so_deps : deps s' = deps s;
  so_envs : envs s' = envs s;
  so_fl : FL (files s') = FL (files s);
  so_sl : SL (steps s') = SL (steps s);
  so_cap : defer_cap s' = defer_cap s }.

Lemma SO_refl s : SO s s.
Proof. constructor; reflexivity. Qed.
Lemma SO_trans s1 s2 s3 : SO s1 s2 -> SO s2 s3 -> SO s1 s3.
Proof.
  intros [a1 a2 a3 a4 a5 a6] [b1 b2 b3 b4 b5 b6]. constructor; congruence.
Qed.

Lemma RWl_ext ns fs ss sh es ns' fs' ss' :
  KL ns' = KL ns -> FL fs' = FL fs -> SL ss' = SL ss ->
  RWl ns fs ss sh es -> RWl ns' fs' ss' sh es.
Proof.
  intros Hk Hf Hs [H1 H2 H3 H4 H5 H6 H7]. constructor; rewrite ?Hk, ?Hf, ?Hs; assumption.
Qed.

Lemma DWl_ext ns ns' ds : KL ns' = KL ns -> DWl ns ds -> DWl ns' ds.
Proof. intros Hk [H1 H2 H3 H4]. constructor; rewrite ?Hk; assumption. Qed.

Lemma DWl_incl ns ns' ds : incl (KL ns) (KL ns') -> DWl ns ds -> DWl ns' ds.
Proof.
  intros Hk [H1 H2 H3 H4]. constructor; try assumption; intros d Hd; apply Hk; auto.
Qed.

Lemma Inv_SO s s' :
  Inv hh s -> SO s s' -> FHl (files s') -> SWl hh (steps s') -> UDl (nodes s) (files s') ->
  NoDup (shash s') -> incl (shash s') (SL (steps s)) -> OEl (nodes s) (files s') (deps s) -> Inv hh s'.
Proof.
  intros HI [E1 E2 E3 E4 E5 E6] HF HS HU Hh1 Hh2 HO. destruct HI as [I1 I2 I3 I4 I5 I6 I7 I8].
  constructor; rewrite ?E1, ?E2, ?E3; try assumption.
  destruct I2 as [H1 H2 H3 H4 H5 H6 H7]. constructor; rewrite ?E4, ?E5; assumption.
Qed.

(* ------------------------------------------------------------------------------------------ *)
(* file rows                                                                                   *)
(* ------------------------------------------------------------------------------------------ *)
Definition updf (l : str) (g : frow -> frow) (fs : list frow) : list frow :=
  map (fun r => if str_eqb (fl r) l then g r else r) fs.
Definition upds (l : str) (g : srow -> srow) (ss : list srow) : list srow :=
  map (fun r => if str_eqb (sl r) l then g r else r) ss.

Lemma files_upd_file l g s : files (upd_file l g s) = updf l g (files s).
Proof. reflexivity. Qed.
Lemma steps_upd_step l g s : steps (upd_step l g s) = upds l g (steps s).
Proof. reflexivity. Qed.

Lemma FL_updf l g fs : (forall r, fl (g r) = fl r) -> FL (updf l g fs) = FL fs.
Proof.
  intros H. unfold FL, updf. rewrite map_map. apply map_ext. intros r.
  destruct (str_eqb (fl r) l); [apply H | reflexivity].
Qed.
Lemma SL_upds l g ss : (forall r, sl (g r) = sl r) -> SL (upds l g ss) = SL ss.
Proof.
  intros H. unfold SL, upds. rewrite map_map. apply map_ext. intros r.
  destruct (str_eqb (sl r) l); [apply H | reflexivity].
Qed.

Lemma In_updf l g fs r' : In r' (updf l g fs) ->
  exists r, In r fs /\ ((fl r = l /\ r' = g r) \/ (fl r <> l /\ r' = r)).
Proof.
  unfold updf. rewrite in_map_iff. intros [r [Hr Hin]]. exists r. split; [exact Hin|].
  destruct (str_eqb (fl r) l) eqn:E; [apply str_eqb_eq in E; left | apply str_eqb_neq in E; right]; auto.
Qed.
Lemma In_upds l g ss r' : In r' (upds l g ss) ->
  exists r, In r ss /\ ((sl r = l /\ r' = g r) \/ (sl r <> l /\ r' = r)).
Proof.
  unfold upds. rewrite in_map_iff. intros [r [Hr Hin]]. exists r. split; [exact Hin|].
  destruct (str_eqb (sl r) l) eqn:E; [apply str_eqb_eq in E; left | apply str_eqb_neq in E; right]; auto.
Qed.

Lemma findf_updf x l g fs : (forall r, fl (g r) = fl r) ->
  findf x (updf l g fs) = if str_eqb x l then option_map g (findf x fs) else findf x fs.
Proof.
  intros H. unfold updf. rewrite findf_map.
  - destruct (findf x fs) as [r|] eqn:Hf; cbn; [|destruct (str_eqb x l); reflexivity].
    apply findf_In in Hf. destruct Hf as [_ Hf]. rewrite Hf. destruct (str_eqb x l); reflexivity.
  - intros r. destruct (str_eqb (fl r) l); [apply H | reflexivity].
Qed.
Lemma finds_upds x l g ss : (forall r, sl (g r) = sl r) ->
  finds x (upds l g ss) = if str_eqb x l then option_map g (finds x ss) else finds x ss.
Proof.
  intros H. unfold upds. rewrite finds_map.
  - destruct (finds x ss) as [r|] eqn:Hf; cbn; [|destruct (str_eqb x l); reflexivity].
    apply finds_In in Hf. destruct Hf as [_ Hf]. rewrite Hf. destruct (str_eqb x l); reflexivity.
  - intros r. destruct (str_eqb (sl r) l); [apply H | reflexivity].
Qed.

(* Built -> Outdated is the only file state change; everything else is kept *)
Definition Outd (s s' : st) : Prop :=
  forall l, fstate_of l s' = fstate_of l s \/
            (fstate_of l s = Some FBuilt /\ fstate_of l s' = Some FOutdated).
Lemma Outd_refl s : Outd s s.
Proof. intros l. left. reflexivity. Qed.
Lemma Outd_trans s1 s2 s3 : Outd s1 s2 -> Outd s2 s3 -> Outd s1 s3.
Proof.
  intros H1 H2 l. destruct (H1 l) as [A|[A1 A2]], (H2 l) as [B|[B1 B2]].
  - left. congruence.
  - right. split; congruence.
  - right. split; congruence.
  - congruence.
Qed.

Lemma fstate_of_findf l s : fstate_of l s = option_map fstt (findf l (files s)).
Proof. unfold fstate_of, find_file. fold (findf l (files s)). destruct (findf l (files s)); reflexivity. Qed.
Lemma sstate_of_finds l s : sstate_of l s = option_map sst (finds l (steps s)).
Proof. unfold sstate_of, find_step. fold (finds l (steps s)). destruct (finds l (steps s)); reflexivity. Qed.

Lemma OEl_updf ns fs ds l g :
  (forall r, fl (g r) = fl r) ->
  (forall d sl, In d ds -> dsrc d = (KStep, sl) -> dsnk d = (KFile, l) ->
     forall n c, findn (KFile, l) ns = Some n -> ncre n = Some c ->
     forall r, findf l fs = Some r -> out_state (fstt (g r)) = true) ->
  OEl ns fs ds -> OEl ns (updf l g fs) ds.
Proof.
  intros Hg Hnew HO d sl f Hd Hs Hk n c Hn Hc. destruct (HO d sl f Hd Hs Hk n c Hn Hc) as [H1 [r [H2 H3]]].
  split; [exact H1|]. rewrite findf_updf; [|exact Hg].
  destruct (str_eqb f l) eqn:E.
  - apply str_eqb_eq in E. subst f. rewrite H2. cbn. exists (g r). split; [reflexivity|].
    eapply Hnew; eassumption.
  - exists r. auto.
Qed.

Lemma OEl_mono_nodes ns ns' fs ds :
  (forall l n', findn (KFile, l) ns' = Some n' ->
     exists n, findn (KFile, l) ns = Some n /\ (ncre n' = None \/ ncre n' = ncre n)) ->
  OEl ns fs ds -> OEl ns' fs ds.
Proof.
  intros H HO d sl f Hd Hs Hk n' c Hn' Hc. destruct (H _ _ Hn') as [n [Hn [Hcn|Hcn]]]; [congruence|].
  apply (HO d sl f Hd Hs Hk n c Hn). congruence.
Qed.

Lemma OEl_filter ns fs ds p : OEl ns fs ds -> OEl ns fs (filter p ds).
Proof. intros HO d sl f Hd. apply filter_In in Hd. apply HO. tauto. Qed.

(* set_fstate_hash *)
Lemma set_fstate_hash_spec strict l new newh s :
  Inv hh s -> new <> FUndeclared ->
  (forall d sl, In d (deps s) -> dsrc d = (KStep, sl) -> dsnk d = (KFile, l) ->
     forall n c, findn (KFile, l) (nodes s) = Some n -> ncre n = Some c -> out_state new = true) ->
  (strict = true -> needs_hash new = true ->
     match newh with
     | Some h => h <> None
     | None => forall r, find_file l s = Some r -> fh r <> None
     end) ->
  wpg strict (set_fstate_hash l new newh s)
      (fun s' => Inv hh s' /\ SO s s' /\ steps s' = steps s /\ shash s' = shash s /\
                 (forall l', l' <> l -> find_file l' s' = find_file l' s) /\
                 (find_file l s <> None -> fstate_of l s' = Some new) /\
                 (find_file l s = None -> s' = s)).
Proof.
  intros HI Hnew Hoe Hstrict. unfold set_fstate_hash.
  destruct (find_file l s) as [r|] eqn:Hf.
  2:{ cbn. split; [exact HI|]. split; [apply SO_refl|]. split; [reflexivity|]. split; [reflexivity|].
      split; [reflexivity|]. split; [intros H; congruence | reflexivity]. }
  set (h1 := match newh with Some h => h | None => fh r end).
  destruct (needs_hash new && match h1 with None => true | Some _ => false end) eqn:Echk.
  { destruct strict; [|exact I]. cbn. apply andb_true_iff in Echk. destruct Echk as [E1 E2].
    specialize (Hstrict eq_refl E1). unfold h1 in E2. destruct newh as [h|].
    - destruct h; [discriminate | congruence].
    - specialize (Hstrict r eq_refl). destruct (fh r); [discriminate | congruence]. }
  destruct (fstate_eqb new FUndeclared && negb (is_detached (KFile, l) s)) eqn:Eund.
  { apply andb_true_iff in Eund. destruct Eund as [E1 _]. apply fstate_eqb_eq in E1. congruence. }
  cbn [wpg].
  set (h2 := if clears_hash (fstt r) new then None else h1).
  set (g := fun r0 : frow => mkF (fl r0) new h2).
  assert (Hg : forall r0, fl (g r0) = fl r0) by reflexivity.
  assert (HSO : SO s (upd_file l g s)).
  { constructor; try reflexivity. rewrite files_upd_file. apply FL_updf. exact Hg. }
  assert (Hrow : fh_ok_b (mkF (fl r) new h2) = true).
  { unfold fh_ok_b. cbn [fstt fh]. unfold h2.
    destruct new; cbn in *; try reflexivity; try congruence;
      try (destruct h1; [reflexivity | discriminate]). }
  split; [|split; [exact HSO|]].
  - apply (Inv_SO s); [exact HI | exact HSO | | apply (inv_sw _ HI) | | apply (rw_hnodup _ _ _ _ _ (inv_rw _ HI))
                      | apply (rw_hstep _ _ _ _ _ (inv_rw _ HI)) |].
    + intros r' Hr'. rewrite files_upd_file in Hr'. apply In_updf in Hr'.
      destruct Hr' as [r0 [Hr0 [[Hl ->]|[Hl ->]]]]; [|apply (inv_fh _ HI); exact Hr0].
      unfold g. unfold fh_ok_b. cbn [fstt fh]. unfold fh_ok_b in Hrow. cbn [fstt fh] in Hrow. exact Hrow.
    + intros r' Hr' Hst. rewrite files_upd_file in Hr'. apply In_updf in Hr'.
      destruct Hr' as [r0 [Hr0 [[Hl ->]|[Hl ->]]]]; [cbn in Hst; congruence|].
      apply (inv_ud _ HI); assumption.
    + rewrite files_upd_file. apply OEl_updf; [exact Hg | | apply (inv_oe _ HI)].
      intros d sl Hd Hs Hk n c Hn Hc r0 _. cbn. eapply Hoe; eassumption.
  - repeat split; try reflexivity.
    + intros l' Hl'. unfold find_file. rewrite files_upd_file. fold (findf l' (updf l g (files s))).
      rewrite findf_updf; [|exact Hg]. apply str_eqb_neq in Hl'. rewrite Hl'. reflexivity.
    + intros _. rewrite fstate_of_findf, files_upd_file, findf_updf; [|exact Hg].
      rewrite str_eqb_refl. unfold find_file in Hf. fold (findf l (files s)) in Hf. rewrite Hf. reflexivity.
    + intros H; discriminate.
Qed.

(* ------------------------------------------------------------------------------------------ *)
(* step rows                                                                                   *)
(* ------------------------------------------------------------------------------------------ *)
Lemma upd_step_inv l g s :
  Inv hh s -> (forall r, sl (g r) = sl r) ->
  (forall r, In r (steps s) -> sl r = l -> sw_ok_b hh (g r) = true) ->
  Inv hh (upd_step l g s) /\ SO s (upd_step l g s).
Proof.
  intros HI Hg Hok.
  assert (HSO : SO s (upd_step l g s)).
  { constructor; try reflexivity. rewrite steps_upd_step. apply SL_upds. exact Hg. }
  split; [|exact HSO].
  apply (Inv_SO s); [exact HI | exact HSO | apply (inv_fh _ HI) | | apply (inv_ud _ HI)
                    | apply (rw_hnodup _ _ _ _ _ (inv_rw _ HI)) | apply (rw_hstep _ _ _ _ _ (inv_rw _ HI))
                    | apply (inv_oe _ HI)].
  intros r' Hr'. rewrite steps_upd_step in Hr'. apply In_upds in Hr'.
  destruct Hr' as [r0 [Hr0 [[Hl ->]|[Hl ->]]]]; [apply Hok; assumption | apply (inv_sw _ HI); exact Hr0].
Qed.

Lemma find_step_upd_step x l g s : (forall r, sl (g r) = sl r) ->
  find_step x (upd_step l g s) = if str_eqb x l then option_map g (find_step x s) else find_step x s.
Proof.
  intros Hg. unfold find_step. rewrite steps_upd_step.
  fold (finds x (upds l g (steps s))). fold (finds x (steps s)). apply finds_upds. exact Hg.
Qed.

Lemma set_sstate_spec strict l new d s :
  Inv hh s -> (strict = true -> d = true -> new = SPending) ->
  wpg strict (set_sstate l new d s)
      (fun s' => Inv hh s' /\ SO s s' /\ files s' = files s /\ shash s' = shash s /\
                 (forall l', l' <> l -> find_step l' s' = find_step l' s) /\
                 (find_step l s <> None -> sstate_of l s' = Some new) /\
                 (find_step l s = None -> s' = s)).
Proof.
  intros HI Hstrict. unfold set_sstate. destruct (find_step l s) as [r|] eqn:Hf.
  2:{ cbn. split; [exact HI|]. split; [apply SO_refl|]. split; [reflexivity|]. split; [reflexivity|].
      split; [reflexivity|]. split; [intros H; congruence | reflexivity]. }
  destruct (d && negb (sstate_eqb new SPending)) eqn:Echk.
  { destruct strict; [|exact I]. cbn. apply andb_true_iff in Echk. destruct Echk as [E1 E2].
    subst d. rewrite (Hstrict eq_refl eq_refl) in E2. discriminate. }
  cbn [wpg].
  set (g := fun r0 : srow => mkS (sl r0) new (sneed r0)
              (match new with SSucceeded | SFailed => false | _ => d end)
              (match new with SSucceeded => 0 | _ => sdc r end)
              (if sstate_eqb new SRunning then shold r else 0)).
  assert (Hg : forall r0, sl (g r0) = sl r0) by reflexivity.
  destruct (upd_step_inv l g s HI Hg) as [HI' HSO].
  { intros r0 _ _. unfold g, sw_ok_b. cbn [sdef sst shold].
    destruct new, d; cbn in *; try reflexivity; try discriminate; rewrite ?N.eqb_refl, ?orb_true_r; reflexivity. }
  split; [exact HI'|]. split; [exact HSO|]. split; [reflexivity|]. split; [reflexivity|].
  split; [|split].
  - intros l' Hl'. rewrite find_step_upd_step; [|exact Hg]. apply str_eqb_neq in Hl'. rewrite Hl'. reflexivity.
  - intros _. unfold sstate_of. rewrite find_step_upd_step; [|exact Hg]. rewrite str_eqb_refl, Hf. reflexivity.
  - intros H; discriminate.
Qed.

(* ------------------------------------------------------------------------------------------ *)
(* stored hashes and env rows                                                                  *)
(* ------------------------------------------------------------------------------------------ *)
Lemma Inv_set_shash s sh :
  Inv hh s -> NoDup sh -> incl sh (SL (steps s)) -> Inv hh (set_shash s sh) /\ SO s (set_shash s sh).
Proof.
  intros HI H1 H2.
  assert (HSO : SO s (set_shash s sh)) by (constructor; reflexivity).
  split; [|exact HSO].
  apply (Inv_SO s); [exact HI | exact HSO | apply (inv_fh _ HI) | apply (inv_sw _ HI) | apply (inv_ud _ HI)
                    | exact H1 | exact H2 | apply (inv_oe _ HI)].
Qed.

Lemma delete_hash_inv l s : Inv hh s -> Inv hh (delete_hash l s) /\ SO s (delete_hash l s).
Proof.
  intros HI. unfold delete_hash. apply Inv_set_shash; [exact HI | |].
  - apply NoDup_filter. apply (rw_hnodup _ _ _ _ _ (inv_rw _ HI)).
  - intros x Hx. apply filter_In in Hx. apply (rw_hstep _ _ _ _ _ (inv_rw _ HI)). tauto.
Qed.

Lemma has_hash_In l s : has_hash l s = true <-> In l (shash s).
Proof. unfold has_hash. apply (memb_In str_eqb str_eqb_eq). Qed.

Lemma find_step_SL l s : find_step l s <> None <-> In l (SL (steps s)).
Proof.
  unfold find_step. fold (finds l (steps s)). rewrite finds_some_in. split.
  - intros H. destruct (finds l (steps s)); [eexists; reflexivity | congruence].
  - intros [r ->]. discriminate.
Qed.
Lemma find_file_FL l s : find_file l s <> None <-> In l (FL (files s)).
Proof.
  unfold find_file. fold (findf l (files s)). rewrite findf_some_in. split.
  - intros H. destruct (findf l (files s)); [eexists; reflexivity | congruence].
  - intros [r ->]. discriminate.
Qed.
Lemma find_node_KL k s : find_node k s <> None <-> In k (KL (nodes s)).
Proof.
  unfold find_node. fold (findn k (nodes s)). rewrite findn_some_iff. split.
  - intros H. destruct (findn k (nodes s)); [eexists; reflexivity | congruence].
  - intros [r ->]. discriminate.
Qed.

Lemma store_hash_inv l s : Inv hh s -> find_step l s <> None -> Inv hh (store_hash l s) /\ SO s (store_hash l s).
Proof.
  intros HI Hl. unfold store_hash. destruct (has_hash l s) eqn:E; [split; [exact HI | apply SO_refl]|].
  apply Inv_set_shash; [exact HI | |].
  - constructor; [|apply (rw_hnodup _ _ _ _ _ (inv_rw _ HI))].
    intros Hin. apply has_hash_In in Hin. congruence.
  - intros x [<-|Hx]; [apply find_step_SL; exact Hl | apply (rw_hstep _ _ _ _ _ (inv_rw _ HI)); exact Hx].
Qed.

Lemma Inv_set_envs s es :
  Inv hh s -> incl (map estep es) (SL (steps s)) -> Inv hh (set_envs s es).
Proof.
  intros [I1 I2 I3 I4 I5 I6 I7 I8] H. constructor; try assumption.
  destruct I2 as [H1 H2 H3 H4 H5 H6 H7]. constructor; assumption.
Qed.

Lemma add_env_inv step name dyn replace s :
  Inv hh s -> find_step step s <> None -> Inv hh (add_env step name dyn replace s).
Proof.
  intros HI Hs. unfold add_env.
  pose proof (rw_estep _ _ _ _ _ (inv_rw _ HI)) as He.
  destruct (existsb _ (envs s)); [destruct replace; [|exact HI]|].
  - apply Inv_set_envs; [exact HI|]. intros x Hx. rewrite map_map in Hx. apply in_map_iff in Hx.
    destruct Hx as [e [He1 He2]]. destruct (str_eqb (estep e) step && str_eqb (ename e) name).
    + cbn in He1. subst x. apply find_step_SL. exact Hs.
    + subst x. apply He. apply in_map. exact He2.
  - apply Inv_set_envs; [exact HI|]. rewrite map_app. intros x Hx. apply in_app_or in Hx.
    destruct Hx as [Hx|[<-|[]]]; [apply He; exact Hx | apply find_step_SL; exact Hs].
Qed.

Lemma add_env_frame step name dyn replace s :
  nodes (add_env step name dyn replace s) = nodes s /\ files (add_env step name dyn replace s) = files s /\
  steps (add_env step name dyn replace s) = steps s /\ deps (add_env step name dyn replace s) = deps s /\
  shash (add_env step name dyn replace s) = shash s.
Proof. unfold add_env. destruct (existsb _ (envs s)); [destruct replace|]; repeat split; reflexivity. Qed.

(* ------------------------------------------------------------------------------------------ *)
(* state propagation: mark_step_pending / mark_file_outdated                                   *)
(* ------------------------------------------------------------------------------------------ *)
Definition depth_lt (s : st) (k : key) (n : nat) : Prop :=
  forall m x, pathn (EL (deps s)) m k x -> (m < n)%nat.

Lemma depth_lt_SO s s' k n : SO s s' -> depth_lt s k n -> depth_lt s' k n.
Proof. intros HSO H m x Hp. rewrite (so_deps _ _ HSO) in Hp. eapply H; exact Hp. Qed.

Lemma depth_lt_edge s k k' n : In (k, k') (EL (deps s)) -> depth_lt s k (S n) -> depth_lt s k' n.
Proof.
  intros He H m x Hp. assert (S m < S n)%nat; [|lia]. eapply H. econstructor; eassumption.
Qed.

Lemma sinks_of_In k x s : In x (sinks_of k s) <-> In (k, x) (EL (deps s)).
Proof.
  unfold sinks_of, EL. rewrite !in_map_iff. split.
  - intros [d [Hd1 Hd2]]. apply filter_In in Hd2. destruct Hd2 as [Hd2 Hd3]. apply key_eqb_eq in Hd3.
    exists d. split; [unfold edge_of; congruence | exact Hd2].
  - intros [d [Hd1 Hd2]]. inversion Hd1; subst. exists d. split; [reflexivity|].
    apply filter_In. split; [exact Hd2 | apply key_eqb_refl].
Qed.

Lemma file_sinks_In l f s : In f (file_sinks_of_step l s) <-> In ((KStep, l), (KFile, f)) (EL (deps s)).
Proof.
  unfold file_sinks_of_step. rewrite in_map_iff. split.
  - intros [k [Hk1 Hk2]]. apply filter_In in Hk2. destruct Hk2 as [Hk2 Hk3]. apply kind_eqb_eq in Hk3.
    apply sinks_of_In in Hk2. destruct k as [kk kl]. cbn in *. subst. exact Hk2.
  - intros H. exists (KFile, f). split; [reflexivity|]. apply filter_In. split; [|reflexivity].
    apply sinks_of_In. exact H.
Qed.
Lemma step_sinks_In f l s : In l (step_sinks_of_file f s) <-> In ((KFile, f), (KStep, l)) (EL (deps s)).
Proof.
  unfold step_sinks_of_file. rewrite in_map_iff. split.
  - intros [k [Hk1 Hk2]]. apply filter_In in Hk2. destruct Hk2 as [Hk2 Hk3]. apply kind_eqb_eq in Hk3.
    apply sinks_of_In in Hk2. destruct k as [kk kl]. cbn in *. subst. exact Hk2.
  - intros H. exists (KStep, l). split; [reflexivity|]. apply filter_In. split; [|reflexivity].
    apply sinks_of_In. exact H.
Qed.

(* the sink of an edge exists, with its row *)
Lemma edge_snk_step s k l : Inv hh s -> In (k, (KStep, l)) (EL (deps s)) -> find_step l s <> None.
Proof.
  intros HI He. apply in_map_iff in He. destruct He as [d [Hd1 Hd2]]. inversion Hd1; subst.
  apply find_step_SL. apply (rw_steps _ _ _ _ _ (inv_rw _ HI)). rewrite <- H1.
  apply (dw_snk _ _ (inv_dw _ HI)). exact Hd2.
Qed.
Lemma edge_snk_file s k f : Inv hh s -> In (k, (KFile, f)) (EL (deps s)) -> find_file f s <> None.
Proof.
  intros HI He. apply in_map_iff in He. destruct He as [d [Hd1 Hd2]]. inversion Hd1; subst.
  apply find_file_FL. apply (rw_files _ _ _ _ _ (inv_rw _ HI)). rewrite <- H1.
  apply (dw_snk _ _ (inv_dw _ HI)). exact Hd2.
Qed.

Definition mark_post (s s' : st) : Prop := Inv hh s' /\ SO s s' /\ Outd s s'.

Lemma mark_post_refl s : Inv hh s -> mark_post s s.
Proof. intros H. split; [exact H|]. split; [apply SO_refl | apply Outd_refl]. Qed.
Lemma mark_post_trans s1 s2 s3 : mark_post s1 s2 -> mark_post s2 s3 -> mark_post s1 s3.
Proof.
  intros [_ [A2 A3]] [B1 [B2 B3]]. split; [exact B1|]. split; [eapply SO_trans | eapply Outd_trans]; eassumption.
Qed.

Lemma Outd_of_files_eq s s' : files s' = files s -> Outd s s'.
Proof. intros H l. left. unfold fstate_of, find_file. rewrite H. reflexivity. Qed.

Lemma mark_spec strict fuel :
  (forall l s, Inv hh s ->
     (strict = true -> find_step l s <> None /\ depth_lt s (KStep, l) fuel) ->
     wpg strict (mark_step_pending_f fuel l s) (mark_post s)) /\
  (forall f s, Inv hh s ->
     (strict = true -> (fstate_of f s = Some FBuilt \/ fstate_of f s = Some FOutdated) /\
                       depth_lt s (KFile, f) fuel) ->
     wpg strict (mark_file_outdated_f fuel f s) (mark_post s)).
Proof.
  induction fuel as [|fuel [IHs IHf]].
  - split; intros x s HI Hst; cbn; (destruct strict; [|exact I]);
      destruct (Hst eq_refl) as [_ Hd]; specialize (Hd 0%nat _ (pathn_O _ _)); lia.
  - split.
    + (* mark_step_pending_f *)
      intros l s HI Hst. cbn [mark_step_pending_f].
      destruct (sstate_of l s) as [old|] eqn:Hold.
      2:{ destruct strict; [|exact I]. cbn. destruct (Hst eq_refl) as [Hf _].
          unfold sstate_of in Hold. destruct (find_step l s); [discriminate | congruence]. }
      assert (Hmain : forall (after : st -> res st),
                 (forall s1, Inv hh s1 -> SO s s1 -> files s1 = files s -> wpg strict (after s1) (mark_post s1)) ->
                 wpg strict (bind (set_sstate l SPending false s) after) (mark_post s)).
      { intros after Hafter. apply wpg_bind.
        eapply wpg_weaken; [apply set_sstate_spec; [exact HI | intros _ H; discriminate]|].
        intros s1 [HI1 [HSO1 [Hfiles1 _]]]. eapply wpg_weaken; [apply Hafter; assumption|].
        intros s2 Hp. eapply mark_post_trans; [|exact Hp].
        split; [exact HI1|]. split; [exact HSO1 | apply Outd_of_files_eq; exact Hfiles1]. }
      assert (Hprop : forall s1, Inv hh s1 -> SO s s1 -> files s1 = files s ->
                 wpg strict (foldM (fun s f => match fstate_of f s with
                                               | Some FBuilt => mark_file_outdated_f fuel f s
                                               | _ => Ok s end) (file_sinks_of_step l s1) s1) (mark_post s1)).
      { intros s1 HI1 HSO1 _.
        apply (wpg_foldM strict _ (mark_post s1)); [|apply mark_post_refl; exact HI1].
        intros s2 f Hf [HI2 [HSO2 HO2]].
        assert (Hgoal : wpg strict (match fstate_of f s2 with
                                    | Some FBuilt => mark_file_outdated_f fuel f s2
                                    | _ => Ok s2 end) (mark_post s2)).
        { destruct (fstate_of f s2) as [[]|] eqn:Hfs; try (apply mark_post_refl; exact HI2).
          apply IHf; [exact HI2|]. intros Hs. split; [left; exact Hfs|].
          destruct (Hst Hs) as [_ Hd]. apply (depth_lt_SO s); [eapply SO_trans; eassumption|].
          eapply depth_lt_edge; [|exact Hd]. rewrite <- (so_deps _ _ HSO1). apply file_sinks_In. exact Hf. }
        eapply wpg_weaken; [exact Hgoal|]. intros s3 Hp.
        eapply mark_post_trans; [|exact Hp]. split; [exact HI2|]. split; assumption. }
      destruct old; try (apply mark_post_refl; exact HI).
      * apply Hmain. intros s1 HI1 _ _. apply mark_post_refl. exact HI1.
      * apply Hmain. exact Hprop.
      * apply Hmain. exact Hprop.
    + (* mark_file_outdated_f *)
      intros f s HI Hst. cbn [mark_file_outdated_f].
      assert (Hbad : forall t, (fstate_of f s <> Some FBuilt) -> (fstate_of f s <> Some FOutdated) ->
                               wpg strict (@Internal st t) (mark_post s)).
      { intros t H1 H2. destruct strict; [|exact I]. cbn. destruct (Hst eq_refl) as [[H|H] _]; congruence. }
      destruct (fstate_of f s) as [[]|] eqn:Hfs; try (apply Hbad; congruence).
      2:{ apply mark_post_refl. exact HI. }
      apply wpg_bind. unfold set_fstate.
      eapply wpg_weaken.
      { apply set_fstate_hash_spec; [exact HI | discriminate | intros; reflexivity |].
        intros _ _ r Hr. rewrite fstate_of_findf in Hfs. unfold find_file in Hr.
        fold (findf f (files s)) in Hr. rewrite Hr in Hfs. cbn in Hfs.
        pose proof (findf_In _ _ _ Hr) as [Hin _]. pose proof (inv_fh _ HI r Hin) as Hok.
        unfold fh_ok_b in Hok. inversion Hfs as [Hst']. rewrite Hst' in Hok.
        destruct (fh r); [discriminate | discriminate]. }
      intros s1 [HI1 [HSO1 [Hsteps1 [Hsh1 [Hoth1 [Hnew1 _]]]]]].
      assert (HO1 : Outd s s1).
      { intros l'. destruct (str_eq_dec l' f) as [->|Hne].
        - right. split; [exact Hfs|]. apply Hnew1. unfold fstate_of in Hfs.
          destruct (find_file f s); [discriminate | discriminate].
        - left. unfold fstate_of. rewrite (Hoth1 l' Hne). reflexivity. }
      eapply wpg_weaken.
      { apply (wpg_foldM strict _ (mark_post s1)); [|apply mark_post_refl; exact HI1].
        intros s2 l Hl [HI2 [HSO2 HO2]].
        eapply wpg_weaken.
        - apply IHs; [exact HI2|]. intros Hs. split.
          + apply (edge_snk_step s2 (KFile, f)); [exact HI2|]. rewrite (so_deps _ _ HSO2).
            apply step_sinks_In. exact Hl.
          + destruct (Hst Hs) as [_ Hd]. apply (depth_lt_SO s); [eapply SO_trans; eassumption|].
            eapply depth_lt_edge; [|exact Hd]. rewrite <- (so_deps _ _ HSO1). apply step_sinks_In. exact Hl.
        - intros s3 Hp. eapply mark_post_trans; [|exact Hp]. split; [exact HI2|]. split; assumption. }
      intros s2 Hp. eapply mark_post_trans; [|exact Hp]. split; [exact HI1|]. split; assumption.
Qed.

(* fuel_of suffices: a dependency path cannot be longer than the number of nodes *)
Lemma depth_ok s k : Inv hh s -> depth_lt s k (fuel_of s).
Proof.
  intros HI m x Hp. unfold fuel_of.
  destruct (acyclic_pathn_bound (EL (deps s)) (KL (nodes s)) m k x (inv_ac _ HI)) as [->|Hle]; [| exact Hp | | ].
  - intros a b Hab. apply in_map_iff in Hab. destruct Hab as [d [Hd1 Hd2]]. inversion Hd1; subst.
    split; [apply (dw_src _ _ (inv_dw _ HI)) | apply (dw_snk _ _ (inv_dw _ HI))]; exact Hd2.
  - lia.
  - unfold KL in Hle. rewrite map_length in Hle. lia.
Qed.

Lemma mark_step_pending_spec strict l s :
  Inv hh s -> (strict = true -> find_step l s <> None) ->
  wpg strict (mark_step_pending l s) (mark_post s).
Proof.
  intros HI Hst. unfold mark_step_pending. apply (proj1 (mark_spec strict (fuel_of s))); [exact HI|].
  intros Hs. split; [apply Hst; exact Hs | apply depth_ok; exact HI].
Qed.

Lemma mark_file_outdated_spec strict f s :
  Inv hh s -> (strict = true -> fstate_of f s = Some FBuilt \/ fstate_of f s = Some FOutdated) ->
  wpg strict (mark_file_outdated f s) (mark_post s).
Proof.
  intros HI Hst. unfold mark_file_outdated. apply (proj2 (mark_spec strict (fuel_of s))); [exact HI|].
  intros Hs. split; [apply Hst; exact Hs | apply depth_ok; exact HI].
Qed.

Lemma mark_consumers_pending_spec strict f s :
  Inv hh s -> wpg strict (mark_consumers_pending f s) (mark_post s).
Proof.
  intros HI. unfold mark_consumers_pending.
  apply (wpg_foldM strict _ (mark_post s)); [|apply mark_post_refl; exact HI].
  intros s2 l Hl [HI2 [HSO2 HO2]]. eapply wpg_weaken.
  - apply mark_step_pending_spec; [exact HI2|]. intros _.
    apply (edge_snk_step s2 (KFile, f)); [exact HI2|]. rewrite (so_deps _ _ HSO2).
    apply step_sinks_In. exact Hl.
  - intros s3 Hp. eapply mark_post_trans; [|exact Hp]. split; [exact HI2|]. split; assumption.
Qed.

(* ------------------------------------------------------------------------------------------ *)
(* node-table primitives                                                                       *)
(* ------------------------------------------------------------------------------------------ *)
(* NF K: nodes only appear, and only the keys in K may become attached *)
Definition NF (K : list key) (s s' : st) : Prop :=
  incl (KL (nodes s)) (KL (nodes s')) /\
  (forall x, ~ In x K -> is_detached x s = true -> is_detached x s' = true).

Lemma NF_refl K s : NF K s s.
Proof. split; [apply incl_refl | auto]. Qed.
Lemma NF_trans K s1 s2 s3 : NF K s1 s2 -> NF K s2 s3 -> NF K s1 s3.
Proof. intros [A1 A2] [B1 B2]. split; [eapply incl_tran; eassumption | auto]. Qed.
Lemma NF_weaken K K' s s' : incl K K' -> NF K s s' -> NF K' s s'.
Proof. intros Hi [A1 A2]. split; [exact A1|]. intros x Hx. apply A2. intros H. apply Hx. apply Hi. exact H. Qed.

Lemma NF_SO K s s' : SO s s' -> NF K s s'.
Proof.
  intros HSO. split; [rewrite (so_nodes _ _ HSO); apply incl_refl|].
  intros x _ H. unfold is_detached, find_node in *. rewrite (so_nodes _ _ HSO). exact H.
Qed.

Lemma UDl_mono ns ns' fs :
  (forall l n', findn (KFile, l) ns' = Some n' ->
     exists n, findn (KFile, l) ns = Some n /\ (ncre n' = None \/ ncre n' = ncre n)) ->
  UDl ns fs -> UDl ns' fs.
Proof.
  intros H HU r Hr Hst n' Hn'. destruct (H _ _ Hn') as [n [Hn [Hc|Hc]]]; [exact Hc|].
  rewrite Hc. eapply HU; eassumption.
Qed.

(* rebuild Inv when only the node table (and possibly stored hashes) changed, keys kept *)
Lemma Inv_nodes_change s s' :
  Inv hh s -> NWl (nodes s') -> KL (nodes s') = KL (nodes s) ->
  files s' = files s -> steps s' = steps s -> deps s' = deps s -> envs s' = envs s ->
  NoDup (shash s') -> incl (shash s') (shash s) ->
  UDl (nodes s') (files s) -> OEl (nodes s') (files s) (deps s) -> Inv hh s'.
Proof.
  intros [I1 I2 I3 I4 I5 I6 I7 I8] HN HK Hf Hs Hd He Hh1 Hh2 HU HO.
  constructor; rewrite ?Hf, ?Hs, ?Hd, ?He; try assumption.
  - destruct I2 as [H1 H2 H3 H4 H5 H6 H7]. constructor; rewrite ?HK; try assumption.
    eapply incl_tran; eassumption.
  - eapply DWl_ext; eassumption.
Qed.

Lemma detach_nodes_findn ns k n x n' :
  findn k ns = Some n -> findn x (detach_nodes k n ns) = Some n' ->
  exists m, findn x ns = Some m /\ (ncre n' = None \/ ncre n' = ncre m) /\ (ndet m = true -> ndet n' = true).
Proof.
  intros Hk. unfold detach_nodes.
  set (ns1 := updn k (fun n => mkNode (nk n) None true) ns).
  assert (H1 : forall y m1, findn y ns1 = Some m1 ->
            exists m, findn y ns = Some m /\ (ncre m1 = None \/ ncre m1 = ncre m) /\ (ndet m = true -> ndet m1 = true)).
  { intros y m1. unfold ns1. rewrite findn_updn; [|reflexivity]. destruct (key_eqb y k).
    - destruct (findn y ns) as [m|]; [|discriminate]. cbn. intros H. inversion H; subst m1.
      exists m. cbn. auto.
    - intros H. exists m1. auto. }
  destruct (ndet n).
  - apply H1.
  - rewrite findn_setdet. destruct (findn x ns1) as [m1|] eqn:Hm1; [|discriminate]. cbn.
    intros H. inversion H; subst n'. destruct (H1 _ _ Hm1) as [m [Hm [Hc Hd]]]. exists m.
    split; [exact Hm|]. destruct (mem_key x (recl k ns1)); cbn; auto.
Qed.

Lemma KL_detach_nodes ns k n : KL (detach_nodes k n ns) = KL ns.
Proof.
  unfold detach_nodes, KL. destruct (ndet n); rewrite ?map_nk_setdet; apply map_nk_updn; reflexivity.
Qed.

Lemma findn_none_KL ns ns' x : KL ns' = KL ns -> findn x ns = None -> findn x ns' = None.
Proof. intros HK H. apply findn_none. unfold KL in HK. rewrite HK. apply findn_none. exact H. Qed.

Lemma is_detached_findn x s : is_detached x s = match findn x (nodes s) with Some n => ndet n | None => true end.
Proof. reflexivity. Qed.

Definition NodeOnly (s s' : st) : Prop :=
  KL (nodes s') = KL (nodes s) /\ files s' = files s /\ steps s' = steps s /\ deps s' = deps s /\
  envs s' = envs s /\ incl (shash s') (shash s) /\ defer_cap s' = defer_cap s.

Lemma NodeOnly_refl s : NodeOnly s s.
Proof. repeat split; try reflexivity. apply incl_refl. Qed.
Lemma NodeOnly_trans s1 s2 s3 : NodeOnly s1 s2 -> NodeOnly s2 s3 -> NodeOnly s1 s3.
Proof.
  intros [A1 [A2 [A3 [A4 [A5 [A6 A7]]]]]] [B1 [B2 [B3 [B4 [B5 [B6 B7]]]]]].
  repeat split; try congruence. eapply incl_tran; eassumption.
Qed.

Lemma node_detach_spec strict k s :
  Inv hh s -> k <> root_key -> (strict = true -> find_node k s <> None) ->
  wpg strict (node_detach k s) (fun s' => Inv hh s' /\ NodeOnly s s' /\ NF [] s s').
Proof.
  intros HI Hk Hst. unfold node_detach.
  destruct (find_node k s) as [n|] eqn:Hf.
  2:{ destruct strict; [|exact I]. cbn. apply (Hst eq_refl). reflexivity. }
  destruct (ncre n) as [c|] eqn:Hc.
  2:{ cbn. split; [exact HI|]. split; [apply NodeOnly_refl | apply NF_refl]. }
  cbn [wpg].
  set (s1 := upd_node k (fun n => mkNode (nk n) None true) s).
  set (s' := if ndet n then s1 else set_detached_rec k true s1).
  assert (Hnodes : nodes s' = detach_nodes k n (nodes s)).
  { unfold s', detach_nodes. destruct (ndet n); reflexivity. }
  assert (Hrest : files s' = files s /\ steps s' = steps s /\ deps s' = deps s /\ envs s' = envs s /\
                  shash s' = shash s /\ defer_cap s' = defer_cap s).
  { unfold s'. destruct (ndet n); repeat split; reflexivity. }
  destruct Hrest as [R1 [R2 [R3 [R4 [R5 R6]]]]].
  unfold find_node in Hf. fold (findn k (nodes s)) in Hf.
  assert (HK : KL (nodes s') = KL (nodes s)). { rewrite Hnodes. apply KL_detach_nodes. }
  split; [|split].
  - apply (Inv_nodes_change s); try assumption.
    + rewrite Hnodes. apply NW_detach; [apply (inv_nw _ HI) | exact Hk | exact Hf].
    + rewrite R5. apply (rw_hnodup _ _ _ _ _ (inv_rw _ HI)).
    + rewrite R5. apply incl_refl.
    + apply (UDl_mono (nodes s)); [|apply (inv_ud _ HI)].
      intros l n' Hn'. rewrite Hnodes in Hn'. destruct (detach_nodes_findn _ _ _ _ _ Hf Hn') as [m [Hm [Hcm _]]].
      exists m. auto.
    + apply (OEl_mono_nodes (nodes s)); [|apply (inv_oe _ HI)].
      intros l n' Hn'. rewrite Hnodes in Hn'. destruct (detach_nodes_findn _ _ _ _ _ Hf Hn') as [m [Hm [Hcm _]]].
      exists m. auto.
  - repeat split; try assumption. rewrite R5. apply incl_refl.
  - split; [rewrite HK; apply incl_refl|]. intros x _. rewrite !is_detached_findn, Hnodes.
    destruct (findn x (detach_nodes k n (nodes s))) as [n'|] eqn:Hn'; [|reflexivity].
    destruct (detach_nodes_findn _ _ _ _ _ Hf Hn') as [m [Hm [_ Hd]]]. rewrite Hm. exact Hd.
Qed.

Lemma reattach_nodes_findn ns k c det x n' :
  findn x (reattach_nodes k c det ns) = Some n' ->
  exists m, findn x ns = Some m /\ (x <> k -> ncre n' = ncre m).
Proof.
  unfold reattach_nodes. rewrite findn_setdet, findn_updn; [|reflexivity].
  destruct (key_eqb x k) eqn:E.
  - destruct (findn x ns) as [m|]; [|discriminate]. intros _. exists m. split; [reflexivity|].
    apply key_eqb_eq in E. congruence.
  - destruct (findn x ns) as [m|]; [|discriminate]. cbn. intros H. inversion H; subst n'.
    exists m. split; [reflexivity|]. intros _. destruct (mem_key x _); reflexivity.
Qed.

Lemma KL_reattach_nodes ns k c det : KL (reattach_nodes k c det ns) = KL ns.
Proof. unfold reattach_nodes, KL. rewrite map_nk_setdet. apply map_nk_updn. reflexivity. Qed.

Lemma after_lost_product_spec strict oc s :
  Inv hh s -> (strict = true -> fst oc = KStep \/ fst oc = KTree) ->
  wpg strict (after_lost_product oc s)
      (fun s' => Inv hh s' /\ SO s s' /\ files s' = files s /\ steps s' = steps s /\ incl (shash s') (shash s)).
Proof.
  intros HI Hst. unfold after_lost_product. destruct (fst oc) eqn:Ek.
  - destruct strict; [|exact I]. cbn. destruct (Hst eq_refl); discriminate.
  - destruct strict; [|exact I]. cbn. destruct (Hst eq_refl); discriminate.
  - cbn. destruct (delete_hash_inv (snd oc) s HI) as [H1 H2]. split; [exact H1|]. split; [exact H2|].
    split; [reflexivity|]. split; [reflexivity|]. cbn. intros x Hx. apply filter_In in Hx. tauto.
  - cbn. split; [exact HI|]. split; [apply SO_refl|]. split; [reflexivity|]. split; [reflexivity|]. apply incl_refl.
Qed.

(* the old creator of a detached non-root node is a detached step or static tree *)
Lemma old_creator_facts s k n oc :
  Inv hh s -> find_node k s = Some n -> ndet n = true -> ncre n = Some oc ->
  is_detached oc s = true /\ (fst oc = KStep \/ fst oc = KTree).
Proof.
  intros HI Hf Hd Hc. pose proof (inv_nw _ HI) as HW.
  unfold find_node in Hf. fold (findn k (nodes s)) in Hf.
  assert (Hkr : k <> root_key).
  { intros ->. rewrite (nw_root _ HW) in Hf. inversion Hf; subst n. discriminate. }
  pose proof (findn_In _ _ _ Hf) as [Hin Hkey].
  assert (Hl : local_ok (nodes s) n). { apply (nw_local _ HW); [exact Hin | rewrite Hkey; exact Hkr]. }
  unfold local_ok in Hl. rewrite Hc in Hl. destruct Hl as [H1 [H2 [cn [H3 H4]]]].
  split.
  - rewrite is_detached_findn, H3. congruence.
  - pose proof (findn_In _ _ _ H3) as [Hcin Hckey].
    destruct (fst oc) eqn:Ek; auto.
    + exfalso. assert (Hoc : oc = root_key). { rewrite <- Hckey. apply (nw_kroot _ HW); [exact Hcin | rewrite Hckey; exact Ek]. }
      rewrite Hoc, (nw_root _ HW) in H3. inversion H3; subst cn. cbn in H4. congruence.
    + exfalso. destruct (fst (nk n)); discriminate.
Qed.

Lemma node_reattach_spec strict k c s :
  Inv hh s -> fst k = KStep ->
  (strict = true -> find_node k s <> None /\ find_node c s <> None /\ is_detached k s = true /\
                    c <> k /\ creator_kind_ok (fst k) (fst c) = true /\
                    mem_key c (rec_products k s) = false) ->
  wpg strict (node_reattach k c s)
      (fun s' => Inv hh s' /\ NodeOnly s s' /\
                 (forall n cn, find_node k s = Some n -> find_node c s = Some cn ->
                    nodes s' = reattach_nodes k c (ndet cn) (nodes s))).
Proof.
  intros HI Hkind Hst. unfold node_reattach.
  destruct (find_node k s) as [n|] eqn:Hf.
  2:{ destruct strict; [|exact I]. cbn. destruct (Hst eq_refl) as [H _]. congruence. }
  destruct (find_node c s) as [cn|] eqn:Hfc.
  2:{ destruct strict; [|exact I]. cbn. destruct (Hst eq_refl) as [_ [H _]]. congruence. }
  destruct (ndet n) eqn:Hdn; cbn [negb].
  2:{ destruct strict; [|exact I]. cbn. destruct (Hst eq_refl) as [_ [_ [H _]]].
      rewrite is_detached_findn in H. unfold find_node in Hf. fold (findn k (nodes s)) in Hf.
      rewrite Hf in H. congruence. }
  destruct (key_eqb c k) eqn:Eck.
  { destruct strict; [|exact I]. cbn. destruct (Hst eq_refl) as [_ [_ [_ [H _]]]]. apply key_eqb_eq in Eck. congruence. }
  destruct (creator_kind_ok (fst k) (fst c)) eqn:Ekind; cbn [negb].
  2:{ destruct strict; [|exact I]. cbn. destruct (Hst eq_refl) as [_ [_ [_ [_ [H _]]]]]. congruence. }
  destruct (mem_key c (rec_products k s)) eqn:Ecyc.
  { destruct strict; [|exact I]. cbn. destruct (Hst eq_refl) as [_ [_ [_ [_ [_ H]]]]]. congruence. }
  apply key_eqb_neq in Eck.
  set (det := ndet cn).
  set (s1 := upd_node k (fun n => mkNode (nk n) (Some c) det) s).
  assert (Hfin : forall s2, nodes s2 = nodes s1 -> files s2 = files s -> steps s2 = steps s ->
             deps s2 = deps s -> envs s2 = envs s -> defer_cap s2 = defer_cap s ->
             incl (shash s2) (shash s) -> NoDup (shash s2) ->
             Inv hh (set_detached_rec k det s2) /\ NodeOnly s (set_detached_rec k det s2) /\
             (forall n0 cn0, Some n = Some n0 -> Some cn = Some cn0 ->
                nodes (set_detached_rec k det s2) = reattach_nodes k c (ndet cn0) (nodes s))).
  { intros s2 E1 E2 E3 E4 E5 E6 E7 E8.
    assert (Hnodes : nodes (set_detached_rec k det s2) = reattach_nodes k c det (nodes s)).
    { rewrite nodes_set_detached_rec, E1. reflexivity. }
    assert (HK : KL (nodes (set_detached_rec k det s2)) = KL (nodes s)).
    { rewrite Hnodes. apply KL_reattach_nodes. }
    unfold find_node in Hf, Hfc. fold (findn k (nodes s)) in Hf. fold (findn c (nodes s)) in Hfc.
    split; [|split].
    - apply (Inv_nodes_change s); try assumption.
      + rewrite Hnodes. eapply NW_reattach; try eassumption. apply (inv_nw _ HI).
      + apply (UDl_mono (nodes s)); [|apply (inv_ud _ HI)].
        intros l n' Hn'. rewrite Hnodes in Hn'. destruct (reattach_nodes_findn _ _ _ _ _ _ Hn') as [m [Hm Hcm]].
        exists m. split; [exact Hm|]. right. apply Hcm. intros He. rewrite <- He in Hkind. discriminate.
      + apply (OEl_mono_nodes (nodes s)); [|apply (inv_oe _ HI)].
        intros l n' Hn'. rewrite Hnodes in Hn'. destruct (reattach_nodes_findn _ _ _ _ _ _ Hn') as [m [Hm Hcm]].
        exists m. split; [exact Hm|]. right. apply Hcm. intros He. rewrite <- He in Hkind. discriminate.
    - repeat split; assumption.
    - intros n0 cn0 H1 H2. inversion H2; subst cn0. exact Hnodes. }
  destruct (ncre n) as [oc|] eqn:Hoc.
  2:{ cbn. apply Hfin; try reflexivity; [apply incl_refl | apply (rw_hnodup _ _ _ _ _ (inv_rw _ HI))]. }
  destruct (old_creator_facts s k n oc HI Hf Hdn Hoc) as [Hocd Hock].
  rewrite Hocd. cbn [negb]. unfold after_lost_product.
  destruct Hock as [Hock|Hock]; rewrite Hock; cbn.
  - apply Hfin; try reflexivity.
    + intros x Hx. apply filter_In in Hx. tauto.
    + apply NoDup_filter. apply (rw_hnodup _ _ _ _ _ (inv_rw _ HI)).
  - apply Hfin; try reflexivity; [apply incl_refl | apply (rw_hnodup _ _ _ _ _ (inv_rw _ HI))].
Qed.

(* ------------------------------------------------------------------------------------------ *)
(* dependency edges                                                                            *)
(* ------------------------------------------------------------------------------------------ *)
Lemma has_dep_In a b s : has_dep a b s = true <-> In (a, b) (EL (deps s)).
Proof.
  unfold has_dep, EL. rewrite existsb_exists, in_map_iff. split.
  - intros [d [Hd H]]. apply andb_true_iff in H. destruct H as [H1 H2].
    apply key_eqb_eq in H1. apply key_eqb_eq in H2. exists d. unfold edge_of. split; [congruence | exact Hd].
  - intros [d [H Hd]]. inversion H; subst. exists d. split; [exact Hd|]. rewrite !key_eqb_refl. reflexivity.
Qed.

Lemma EL_app ds1 ds2 : EL (ds1 ++ ds2) = EL ds1 ++ EL ds2.
Proof. apply map_app. Qed.

Lemma add_dep_spec strict a b dyn s :
  Inv hh s -> In a (KL (nodes s)) -> In b (KL (nodes s)) -> ~ path (EL (deps s)) b a ->
  (forall sl f, a = (KStep, sl) -> b = (KFile, f) ->
     forall n c, findn (KFile, f) (nodes s) = Some n -> ncre n = Some c ->
     c = (KStep, sl) /\ exists r, findf f (files s) = Some r /\ out_state (fstt r) = true) ->
  (strict = true -> dep_kinds_ok a b = true) ->
  wpg strict (add_dep a b dyn s)
      (fun s' => Inv hh s' /\ s' = set_deps s (deps s ++ [mkD a b dyn])).
Proof.
  intros HI Ha Hb Hp Hout Hst. unfold add_dep.
  destruct (has_dep a b s) eqn:Ehd; [exact I|].
  destruct (dep_kinds_ok a b) eqn:Ek; cbn [negb].
  2:{ destruct strict; [|exact I]. cbn. specialize (Hst eq_refl). discriminate. }
  cbn [wpg]. split; [|reflexivity].
  destruct HI as [I1 I2 I3 I4 I5 I6 I7 I8]. constructor; try assumption; cbn [deps set_deps nodes files].
  3:{ intros d sl f Hd Hs Hk. apply in_app_or in Hd. destruct Hd as [Hd|[<-|[]]]; [apply (I8 d sl f Hd Hs Hk)|].
      cbn in Hs, Hk. apply Hout; assumption. }
  - destruct I3 as [D1 D2 D3 D4]. constructor.
    + intros d Hd. apply in_app_or in Hd. destruct Hd as [Hd|[<-|[]]]; [apply D1; exact Hd | exact Ek].
    + intros d Hd. apply in_app_or in Hd. destruct Hd as [Hd|[<-|[]]]; [apply D2; exact Hd | exact Ha].
    + intros d Hd. apply in_app_or in Hd. destruct Hd as [Hd|[<-|[]]]; [apply D3; exact Hd | exact Hb].
    + rewrite EL_app. cbn. apply NoDup_app_single; [exact D4|].
      intros Hin. assert (has_dep a b s = true) by (apply has_dep_In; exact Hin). congruence.
  - rewrite EL_app. cbn. apply (acyclic_incl _ ((a, b) :: EL (deps s))).
    + intros e He. apply in_app_or in He. destruct He as [He|[<-|[]]]; [right; exact He | left; reflexivity].
    + apply acyclic_add_edge; assumption.
Qed.

Lemma Inv_filter_deps s p : Inv hh s -> Inv hh (set_deps s (filter p (deps s))).
Proof.
  intros [I1 I2 I3 I4 I5 I6 I7 I8]. constructor; try assumption; cbn [deps set_deps nodes files].
  3:{ apply OEl_filter. exact I8. }
  - destruct I3 as [D1 D2 D3 D4]. constructor.
    + intros d Hd. apply filter_In in Hd. apply D1. tauto.
    + intros d Hd. apply filter_In in Hd. apply D2. tauto.
    + intros d Hd. apply filter_In in Hd. apply D3. tauto.
    + unfold EL. apply NoDup_map_filter. exact D4.
  - apply (acyclic_incl _ (EL (deps s))); [|exact I4].
    unfold EL. intros e He. apply in_map_iff in He. destruct He as [d [Hd1 Hd2]].
    apply filter_In in Hd2. apply in_map_iff. exists d. tauto.
Qed.

Lemma del_deps_where_inv p s : Inv hh s -> Inv hh (del_deps_where p s).
Proof. intros HI. unfold del_deps_where. apply Inv_filter_deps. exact HI. Qed.

Lemma path_filter_deps p ds a b : path (EL (filter p ds)) a b -> path (EL ds) a b.
Proof.
  apply path_incl. unfold EL. intros e He. apply in_map_iff in He. destruct He as [d [Hd1 Hd2]].
  apply filter_In in Hd2. apply in_map_iff. exists d. tauto.
Qed.

(* ------------------------------------------------------------------------------------------ *)
(* delete_node                                                                                 *)
(* ------------------------------------------------------------------------------------------ *)
Lemma In_KL_removen x k ns : In x (KL (removen k ns)) <-> In x (KL ns) /\ x <> k.
Proof.
  unfold KL, removen. rewrite !in_map_iff. split.
  - intros [n [Hn1 Hn2]]. apply filter_In in Hn2. destruct Hn2 as [Hn2 Hn3].
    apply negb_true_iff in Hn3. apply key_eqb_neq in Hn3. split; [exists n; auto | congruence].
  - intros [[n [Hn1 Hn2]] Hx]. exists n. split; [exact Hn1|]. apply filter_In. split; [exact Hn2|].
    apply negb_true_iff. apply key_eqb_neq. congruence.
Qed.
Lemma In_FL_filter x l fs :
  In x (FL (filter (fun r => negb (str_eqb (fl r) l)) fs)) <-> In x (FL fs) /\ x <> l.
Proof.
  unfold FL. rewrite !in_map_iff. split.
  - intros [n [Hn1 Hn2]]. apply filter_In in Hn2. destruct Hn2 as [Hn2 Hn3].
    apply negb_true_iff in Hn3. apply str_eqb_neq in Hn3. split; [exists n; auto | congruence].
  - intros [[n [Hn1 Hn2]] Hx]. exists n. split; [exact Hn1|]. apply filter_In. split; [exact Hn2|].
    apply negb_true_iff. apply str_eqb_neq. congruence.
Qed.
Lemma In_SL_filter x l ss :
  In x (SL (filter (fun r => negb (str_eqb (sl r) l)) ss)) <-> In x (SL ss) /\ x <> l.
Proof.
  unfold SL. rewrite !in_map_iff. split.
  - intros [n [Hn1 Hn2]]. apply filter_In in Hn2. destruct Hn2 as [Hn2 Hn3].
    apply negb_true_iff in Hn3. apply str_eqb_neq in Hn3. split; [exists n; auto | congruence].
  - intros [[n [Hn1 Hn2]] Hx]. exists n. split; [exact Hn1|]. apply filter_In. split; [exact Hn2|].
    apply negb_true_iff. apply str_eqb_neq. congruence.
Qed.

Lemma products_nil k s : products k s = [] ->
  forall n, In n (nodes s) -> ncre n = Some k -> nk n = k.
Proof.
  unfold products. intros H n Hn Hc.
  destruct (key_eq_dec (nk n) k) as [He|He]; [exact He|]. exfalso.
  assert (Hin : In (nk n) (map nk (filter (fun n0 => okey_eqb (ncre n0) (Some k) && negb (key_eqb (nk n0) k)) (nodes s)))).
  { apply in_map. apply filter_In. split; [exact Hn|]. rewrite Hc. cbn. rewrite key_eqb_refl. cbn.
    apply negb_true_iff. apply key_eqb_neq. exact He. }
  rewrite H in Hin. contradiction.
Qed.

Lemma delete_node_inv k kn s :
  Inv hh s -> find_node k s = Some kn -> ndet kn = true -> products k s = [] ->
  (forall d, In d (deps s) -> dsrc d <> k) ->
  Inv hh (delete_node k s).
Proof.
  intros HI Hf Hdet Hprod Hsrc. pose proof HI as [I1 I2 I3 I4 I5 I6 I7 I8].
  unfold find_node in Hf. fold (findn k (nodes s)) in Hf.
  assert (HNW : NWl (removen k (nodes s))).
  { eapply NW_remove; try eassumption. apply products_nil. exact Hprod. }
  assert (Hkr : k <> root_key).
  { intros ->. rewrite (nw_root _ I1) in Hf. inversion Hf; subst kn. discriminate. }
  set (ds' := filter (fun d => negb (key_eqb (dsnk d) k)) (deps s)).
  assert (HDW : DWl (removen k (nodes s)) ds').
  { destruct I3 as [D1 D2 D3 D4]. constructor.
    - intros d Hd. apply filter_In in Hd. apply D1. tauto.
    - intros d Hd. apply filter_In in Hd. destruct Hd as [Hd _]. apply In_KL_removen. split; [apply D2; exact Hd | apply Hsrc; exact Hd].
    - intros d Hd. apply filter_In in Hd. destruct Hd as [Hd Hk]. apply In_KL_removen. split; [apply D3; exact Hd|].
      apply negb_true_iff in Hk. apply key_eqb_neq in Hk. exact Hk.
    - unfold EL. apply NoDup_map_filter. exact D4. }
  assert (HAC : acyclic (EL ds')).
  { apply (acyclic_incl _ (EL (deps s))); [|exact I4]. unfold EL, ds'. intros e He.
    apply in_map_iff in He. destruct He as [d [Hd1 Hd2]]. apply filter_In in Hd2. apply in_map_iff. exists d. tauto. }
  assert (HUD : forall fs', incl fs' (files s) -> UDl (removen k (nodes s)) fs').
  { intros fs' Hi r Hr Hst n Hn. unfold removen in Hn. rewrite findn_remove in Hn.
    destruct (key_eqb (KFile, fl r) k); [discriminate|]. eapply I5; [apply Hi; exact Hr | exact Hst | exact Hn]. }
  assert (HOE : forall fs', (forall f r, (KFile, f) <> k -> findf f (files s) = Some r -> findf f fs' = Some r) ->
                 OEl (removen k (nodes s)) fs' ds').
  { intros fs' Hfs d sl f Hd Hs Hk n c Hn Hc. apply filter_In in Hd. destruct Hd as [Hd Hne].
    apply negb_true_iff in Hne. apply key_eqb_neq in Hne. rewrite Hk in Hne.
    unfold removen in Hn. rewrite findn_remove in Hn. apply key_eqb_neq in Hne. rewrite Hne in Hn.
    destruct (I8 d sl f Hd Hs Hk n c Hn Hc) as [H1 [r [H2 H3]]]. split; [exact H1|]. exists r. split; [|exact H3].
    apply Hfs; [apply key_eqb_neq; exact Hne | exact H2]. }
  destruct I2 as [R1 R2 R3 R4 R5 R6 R7].
  assert (Hnotroot : fst k <> KRoot).
  { intros Hk. apply Hkr. pose proof (findn_In _ _ _ Hf) as [Hin Hkey].
    rewrite <- Hkey. apply (nw_kroot _ I1); [exact Hin | rewrite Hkey; exact Hk]. }
  unfold delete_node. destruct k as [kk kl]. destruct kk; cbn [fst snd] in *; [congruence | | |];
    constructor; cbn [nodes files steps deps shash envs set_nodes set_files set_steps set_shash set_envs
                      set_deps del_all_sources del_deps_where];
    try match goal with |- context [filter (fun n => negb (key_eqb (nk n) ?k)) (nodes s)] =>
      change (filter (fun n => negb (key_eqb (nk n) k)) (nodes s)) with (removen k (nodes s)) end;
    try exact HNW; try exact HDW; try exact HAC; try exact I6; try exact I7;
    try (apply HOE; intros f r _ Hr; exact Hr);
    try (apply HOE; intros f r Hne Hr; unfold findf in *; rewrite find_filter;
         rewrite <- Hr; apply find_ext; intros x _;
         destruct (str_eqb (fl x) f) eqn:Ex; [|apply andb_false_r];
         apply str_eqb_eq in Ex; subst f; rewrite andb_true_r; apply negb_true_iff; apply str_eqb_neq;
         intros He; apply Hne; rewrite He; reflexivity);
    try (apply HUD; apply incl_refl); try (apply HUD; intros x Hx; apply filter_In in Hx; tauto);
    try (intros r Hr; apply filter_In in Hr; destruct Hr as [Hr _]; first [apply I6; exact Hr | apply I7; exact Hr]).
  - (* file *)
    constructor; try assumption.
    + unfold FL. apply NoDup_map_filter. exact R1.
    + intros l. rewrite In_FL_filter, In_KL_removen, R3. split; intros [H1 H2]; (split; [exact H1|]); congruence.
    + intros l. rewrite In_KL_removen, R4. split; [intros H; split; [exact H | discriminate] | tauto].
  - (* step *)
    constructor.
    + exact R1.
    + unfold SL. apply NoDup_map_filter. exact R2.
    + intros l. rewrite In_KL_removen, R3. split; [intros H; split; [exact H | discriminate] | tauto].
    + intros l. rewrite In_SL_filter, In_KL_removen, R4. split; intros [H1 H2]; (split; [exact H1|]); congruence.
    + apply NoDup_filter. exact R5.
    + intros x Hx. apply filter_In in Hx. destruct Hx as [Hx1 Hx2]. apply In_SL_filter.
      split; [apply R6; exact Hx1|]. apply negb_true_iff in Hx2. apply str_eqb_neq in Hx2. exact Hx2.
    + intros x Hx. apply in_map_iff in Hx. destruct Hx as [e [He1 He2]]. apply filter_In in He2.
      destruct He2 as [He2 He3]. apply In_SL_filter. subst x. split; [apply R7; apply in_map; exact He2|].
      apply negb_true_iff in He3. apply str_eqb_neq in He3. exact He3.
  - (* tree *)
    constructor; try assumption.
    + intros l. rewrite In_KL_removen, R3. split; [intros H; split; [exact H | discriminate] | tauto].
    + intros l. rewrite In_KL_removen, R4. split; [intros H; split; [exact H | discriminate] | tauto].
Qed.

(* ------------------------------------------------------------------------------------------ *)
(* Inv without the "undeclared has no creator" part, for the middle of Trellis.create          *)
(* ------------------------------------------------------------------------------------------ *)
Record InvU (s : st) : Prop := {
  iu_nw : NWl (nodes s);
  iu_rw : RWl (nodes s) (files s) (steps s) (shash s) (envs s);
  iu_dw : DWl (nodes s) (deps s);
  iu_ac : acyclic (EL (deps s));
  iu_fh : FHl (files s);
  iu_sw : SWl hh (steps s);
  iu_oe : OEl (nodes s) (files s) (deps s) }.

Lemma Inv_InvU s : Inv hh s -> InvU s.
Proof. intros [I1 I2 I3 I4 I5 I6 I7 I8]. constructor; assumption. Qed.
Lemma InvU_Inv s : InvU s -> UDl (nodes s) (files s) -> Inv hh s.
Proof. intros [I1 I2 I3 I4 I6 I7 I8] I5. constructor; assumption. Qed.

Lemma InvU_SO s s' :
  InvU s -> SO s s' -> FHl (files s') -> SWl hh (steps s') ->
  NoDup (shash s') -> incl (shash s') (SL (steps s)) -> OEl (nodes s) (files s') (deps s) -> InvU s'.
Proof.
  intros [I1 I2 I3 I4 I6 I7 I8] [E1 E2 E3 E4 E5 E6] HF HS Hh1 Hh2 HO.
  constructor; rewrite ?E1, ?E2, ?E3; try assumption.
  destruct I2 as [H1 H2 H3 H4 H5 H6 H7]. constructor; rewrite ?E4, ?E5; assumption.
Qed.

Definition others (l : str) (fs : list frow) : list frow := filter (fun r => negb (str_eqb (fl r) l)) fs.

Lemma set_fstate_hash_gen strict l new newh s :
  InvU s -> UDl (nodes s) (others l (files s)) ->
  (new = FUndeclared -> forall n, findn (KFile, l) (nodes s) = Some n -> ncre n = None /\ ndet n = true) ->
  (forall d sl, In d (deps s) -> dsrc d = (KStep, sl) -> dsnk d = (KFile, l) ->
     forall n c, findn (KFile, l) (nodes s) = Some n -> ncre n = Some c -> out_state new = true) ->
  (strict = true -> needs_hash new = true ->
     match newh with
     | Some h => h <> None
     | None => forall r, find_file l s = Some r -> fh r <> None
     end) ->
  wpg strict (set_fstate_hash l new newh s)
      (fun s' => (find_file l s <> None -> Inv hh s') /\ SO s s' /\ steps s' = steps s /\ shash s' = shash s /\
                 (forall l', l' <> l -> find_file l' s' = find_file l' s) /\
                 (find_file l s <> None -> fstate_of l s' = Some new) /\
                 (find_file l s = None -> s' = s)).
Proof.
  intros HI HUo Hnew Hoe Hstrict. unfold set_fstate_hash.
  destruct (find_file l s) as [r|] eqn:Hf.
  2:{ cbn. split; [intros H; congruence|]. split; [apply SO_refl|]. split; [reflexivity|]. split; [reflexivity|].
      split; [reflexivity|]. split; [intros H; congruence | reflexivity]. }
  set (h1 := match newh with Some h => h | None => fh r end).
  destruct (needs_hash new && match h1 with None => true | Some _ => false end) eqn:Echk.
  { destruct strict; [|exact I]. cbn. apply andb_true_iff in Echk. destruct Echk as [E1 E2].
    specialize (Hstrict eq_refl E1). unfold h1 in E2. destruct newh as [h|].
    - destruct h; [discriminate | congruence].
    - specialize (Hstrict r eq_refl). destruct (fh r); [discriminate | congruence]. }
  assert (Eund : fstate_eqb new FUndeclared && negb (is_detached (KFile, l) s) = false).
  { destruct (fstate_eqb new FUndeclared) eqn:E; [|reflexivity]. apply fstate_eqb_eq in E. cbn.
    rewrite is_detached_findn. destruct (findn (KFile, l) (nodes s)) as [n|] eqn:Hn; [|reflexivity].
    destruct (Hnew E n eq_refl) as [_ Hd]. rewrite Hd. reflexivity. }
  rewrite Eund. cbn [wpg].
  set (h2 := if clears_hash (fstt r) new then None else h1).
  set (g := fun r0 : frow => mkF (fl r0) new h2).
  assert (Hg : forall r0, fl (g r0) = fl r0) by reflexivity.
  assert (HSO : SO s (upd_file l g s)).
  { constructor; try reflexivity. rewrite files_upd_file. apply FL_updf. exact Hg. }
  assert (Hrow : fh_ok_b (mkF (fl r) new h2) = true).
  { unfold fh_ok_b. cbn [fstt fh]. unfold h2.
    destruct new; cbn in *; try reflexivity; try congruence;
      try (destruct h1; [reflexivity | discriminate]). }
  split; [|split; [exact HSO|]].
  - intros _. apply InvU_Inv.
    + apply (InvU_SO s); [exact HI | exact HSO | | apply (iu_sw _ HI) | apply (rw_hnodup _ _ _ _ _ (iu_rw _ HI))
                        | apply (rw_hstep _ _ _ _ _ (iu_rw _ HI)) |].
      * intros r' Hr'. rewrite files_upd_file in Hr'. apply In_updf in Hr'.
        destruct Hr' as [r0 [Hr0 [[Hl ->]|[Hl ->]]]]; [|apply (iu_fh _ HI); exact Hr0].
        unfold g. unfold fh_ok_b. cbn [fstt fh]. unfold fh_ok_b in Hrow. cbn [fstt fh] in Hrow. exact Hrow.
      * rewrite files_upd_file. apply OEl_updf; [exact Hg | | apply (iu_oe _ HI)].
        intros d sl Hd Hs Hk n c Hn Hc r0 _. cbn. eapply Hoe; eassumption.
    + intros r' Hr' Hst. cbn [nodes upd_file set_files]. rewrite files_upd_file in Hr'. apply In_updf in Hr'.
      destruct Hr' as [r0 [Hr0 [[Hl ->]|[Hl ->]]]].
      * cbn in Hst. cbn [fl g]. rewrite Hl. intros n Hn. apply (Hnew Hst n Hn).
      * apply HUo; [|exact Hst]. apply filter_In. split; [exact Hr0|]. apply negb_true_iff. apply str_eqb_neq. exact Hl.
  - repeat split; try reflexivity.
    + intros l' Hl'. unfold find_file. rewrite files_upd_file. fold (findf l' (updf l g (files s))).
      rewrite findf_updf; [|exact Hg]. apply str_eqb_neq in Hl'. rewrite Hl'. reflexivity.
    + intros _. rewrite fstate_of_findf, files_upd_file, findf_updf; [|exact Hg].
      rewrite str_eqb_refl. unfold find_file in Hf. fold (findf l (files s)) in Hf. rewrite Hf. reflexivity.
    + intros H; discriminate.
Qed.

End HH.
Arguments InvU : clear implicits.
Arguments mark_post : clear implicits.
