(* C09: the primitives of model/Graph.v preserve the invariant Inv (proofs/GraphInvP.v).
   Every lemma is stated with wpg: for strict = false only the Ok outcome is constrained; for
   strict = true the lemma also excludes every Internal outcome (under its strict-mode
   hypotheses). *)
From Coq Require Import List NArith Bool Lia.
From SV Require Import lib.Bytes lib.Closure model.Graph model.GraphInv
  proofs.GraphBase proofs.GraphNodes proofs.GraphInvP.
Import ListNotations.
Open Scope N_scope.

(* ------------------------------------------------------------------------------------------ *)
(* frames                                                                                      *)
(* ------------------------------------------------------------------------------------------ *)
(* only row contents (file states/hashes, step columns, stored hashes) change *)
Record SO (s s' : st) : Prop := {
  so_nodes : nodes s' = nodes s;
  so_deps : deps s' = deps s;
  so_envs : envs s' = envs s;
  so_fl : FL (files s') = FL (files s);
  so_sl : SL (steps s') = SL (steps s);
  so_cap : defer_cap s' = defer_cap s }.

Lemma SO_refl s : SO s s.
Proof. constructor; reflexivity. Qed.
Lemma SO_trans s1 s2 s3 : SO s1 s2 -> SO s2 s3 -> SO s1 s3.
Proof.
  intros [a1 a2 a3 a4 a5 a6] [b1 b2 b3 b4 b5 b6]. constructor; congruence.
Qed.

Lemma RWl_ext ns fs ss sh es ns' fs' ss' :
  KL ns' = KL ns -> FL fs' = FL fs -> SL ss' = SL ss ->
  RWl ns fs ss sh es -> RWl ns' fs' ss' sh es.
Proof.
  intros Hk Hf Hs [H1 H2 H3 H4 H5 H6 H7]. constructor; rewrite ?Hk, ?Hf, ?Hs; assumption.
Qed.

Lemma DWl_ext ns ns' ds : KL ns' = KL ns -> DWl ns ds -> DWl ns' ds.
Proof. intros Hk [H1 H2 H3 H4]. constructor; rewrite ?Hk; assumption. Qed.

Lemma DWl_incl ns ns' ds : incl (KL ns) (KL ns') -> DWl ns ds -> DWl ns' ds.
Proof.
  intros Hk [H1 H2 H3 H4]. constructor; try assumption; intros d Hd; apply Hk; auto.
Qed.

Lemma Inv_SO s s' :
  Inv s -> SO s s' -> FHl (files s') -> SWl (steps s') -> UDl (nodes s) (files s') ->
  NoDup (shash s') -> incl (shash s') (SL (steps s)) -> Inv s'.
Proof.
  intros HI [E1 E2 E3 E4 E5 E6] HF HS HU Hh1 Hh2. destruct HI as [I1 I2 I3 I4 I5 I6 I7].
  constructor; rewrite ?E1, ?E2, ?E3; try assumption.
  destruct I2 as [H1 H2 H3 H4 H5 H6 H7]. constructor; rewrite ?E4, ?E5; assumption.
Qed.

(* ------------------------------------------------------------------------------------------ *)
(* file rows                                                                                   *)
(* ------------------------------------------------------------------------------------------ *)
Definition updf (l : str) (g : frow -> frow) (fs : list frow) : list frow :=
  map (fun r => if str_eqb (fl r) l then g r else r) fs.
Definition upds (l : str) (g : srow -> srow) (ss : list srow) : list srow :=
  map (fun r => if str_eqb (sl r) l then g r else r) ss.

Lemma files_upd_file l g s : files (upd_file l g s) = updf l g (files s).
Proof. reflexivity. Qed.
Lemma steps_upd_step l g s : steps (upd_step l g s) = upds l g (steps s).
Proof. reflexivity. Qed.

Lemma FL_updf l g fs : (forall r, fl (g r) = fl r) -> FL (updf l g fs) = FL fs.
Proof.
  intros H. unfold FL, updf. rewrite map_map. apply map_ext. intros r.
  destruct (str_eqb (fl r) l); [apply H | reflexivity].
Qed.
Lemma SL_upds l g ss : (forall r, sl (g r) = sl r) -> SL (upds l g ss) = SL ss.
Proof.
  intros H. unfold SL, upds. rewrite map_map. apply map_ext. intros r.
  destruct (str_eqb (sl r) l); [apply H | reflexivity].
Qed.

Lemma In_updf l g fs r' : In r' (updf l g fs) ->
  exists r, In r fs /\ ((fl r = l /\ r' = g r) \/ (fl r <> l /\ r' = r)).
Proof.
  unfold updf. rewrite in_map_iff. intros [r [Hr Hin]]. exists r. split; [exact Hin|].
  destruct (str_eqb (fl r) l) eqn:E; [apply str_eqb_eq in E; left | apply str_eqb_neq in E; right]; auto.
Qed.
Lemma In_upds l g ss r' : In r' (upds l g ss) ->
  exists r, In r ss /\ ((sl r = l /\ r' = g r) \/ (sl r <> l /\ r' = r)).
Proof.
  unfold upds. rewrite in_map_iff. intros [r [Hr Hin]]. exists r. split; [exact Hin|].
  destruct (str_eqb (sl r) l) eqn:E; [apply str_eqb_eq in E; left | apply str_eqb_neq in E; right]; auto.
Qed.

Lemma findf_updf x l g fs : (forall r, fl (g r) = fl r) ->
  findf x (updf l g fs) = if str_eqb x l then option_map g (findf x fs) else findf x fs.
Proof.
  intros H. unfold updf. rewrite findf_map.
  - destruct (findf x fs) as [r|] eqn:Hf; cbn; [|destruct (str_eqb x l); reflexivity].
    apply findf_In in Hf. destruct Hf as [_ Hf]. rewrite Hf. destruct (str_eqb x l); reflexivity.
  - intros r. destruct (str_eqb (fl r) l); [apply H | reflexivity].
Qed.
Lemma finds_upds x l g ss : (forall r, sl (g r) = sl r) ->
  finds x (upds l g ss) = if str_eqb x l then option_map g (finds x ss) else finds x ss.
Proof.
  intros H. unfold upds. rewrite finds_map.
  - destruct (finds x ss) as [r|] eqn:Hf; cbn; [|destruct (str_eqb x l); reflexivity].
    apply finds_In in Hf. destruct Hf as [_ Hf]. rewrite Hf. destruct (str_eqb x l); reflexivity.
  - intros r. destruct (str_eqb (sl r) l); [apply H | reflexivity].
Qed.

(* Built -> Outdated is the only file state change; everything else is kept *)
Definition Outd (s s' : st) : Prop :=
  forall l, fstate_of l s' = fstate_of l s \/
            (fstate_of l s = Some FBuilt /\ fstate_of l s' = Some FOutdated).
Lemma Outd_refl s : Outd s s.
Proof. intros l. left. reflexivity. Qed.
Lemma Outd_trans s1 s2 s3 : Outd s1 s2 -> Outd s2 s3 -> Outd s1 s3.
Proof.
  intros H1 H2 l. destruct (H1 l) as [A|[A1 A2]], (H2 l) as [B|[B1 B2]].
  - left. congruence.
  - right. split; congruence.
  - right. split; congruence.
  - congruence.
Qed.

Lemma fstate_of_findf l s : fstate_of l s = option_map fstt (findf l (files s)).
Proof. unfold fstate_of, find_file. fold (findf l (files s)). destruct (findf l (files s)); reflexivity. Qed.
Lemma sstate_of_finds l s : sstate_of l s = option_map sst (finds l (steps s)).
Proof. unfold sstate_of, find_step. fold (finds l (steps s)). destruct (finds l (steps s)); reflexivity. Qed.

(* set_fstate_hash *)
Lemma set_fstate_hash_spec strict l new newh s :
  Inv s -> new <> FUndeclared ->
  (strict = true -> needs_hash new = true ->
     match newh with
     | Some h => h <> None
     | None => forall r, find_file l s = Some r -> fh r <> None
     end) ->
  wpg strict (set_fstate_hash l new newh s)
      (fun s' => Inv s' /\ SO s s' /\ steps s' = steps s /\ shash s' = shash s /\
                 (forall l', l' <> l -> find_file l' s' = find_file l' s) /\
                 (find_file l s <> None -> fstate_of l s' = Some new) /\
                 (find_file l s = None -> s' = s)).
Proof.
  intros HI Hnew Hstrict. unfold set_fstate_hash.
  destruct (find_file l s) as [r|] eqn:Hf.
  2:{ cbn. split; [exact HI|]. split; [apply SO_refl|]. split; [reflexivity|]. split; [reflexivity|].
      split; [reflexivity|]. split; [intros H; congruence | reflexivity]. }
  set (h1 := match newh with Some h => h | None => fh r end).
  destruct (needs_hash new && match h1 with None => true | Some _ => false end) eqn:Echk.
  { destruct strict; [|exact I]. cbn. apply andb_true_iff in Echk. destruct Echk as [E1 E2].
    specialize (Hstrict eq_refl E1). unfold h1 in E2. destruct newh as [h|].
    - destruct h; [discriminate | congruence].
    - specialize (Hstrict r eq_refl). destruct (fh r); [discriminate | congruence]. }
  destruct (fstate_eqb new FUndeclared && negb (is_detached (KFile, l) s)) eqn:Eund.
  { apply andb_true_iff in Eund. destruct Eund as [E1 _]. apply fstate_eqb_eq in E1. congruence. }
  cbn [wpg].
  set (h2 := if clears_hash (fstt r) new then None else h1).
  set (g := fun r0 : frow => mkF (fl r0) new h2).
  assert (Hg : forall r0, fl (g r0) = fl r0) by reflexivity.
  assert (HSO : SO s (upd_file l g s)).
  { constructor; try reflexivity. rewrite files_upd_file. apply FL_updf. exact Hg. }
  assert (Hrow : fh_ok_b (mkF (fl r) new h2) = true).
  { unfold fh_ok_b. cbn [fstt fh]. unfold h2.
    destruct new; cbn in *; try reflexivity; try congruence;
      try (destruct h1; [reflexivity | discriminate]). }
  split; [|split; [exact HSO|]].
  - apply (Inv_SO s); [exact HI | exact HSO | | apply (inv_sw _ HI) | | apply (rw_hnodup _ _ _ _ _ (inv_rw _ HI))
                      | apply (rw_hstep _ _ _ _ _ (inv_rw _ HI))].
    + intros r' Hr'. rewrite files_upd_file in Hr'. apply In_updf in Hr'.
      destruct Hr' as [r0 [Hr0 [[Hl ->]|[Hl ->]]]]; [|apply (inv_fh _ HI); exact Hr0].
      unfold g. unfold fh_ok_b. cbn [fstt fh]. unfold fh_ok_b in Hrow. cbn [fstt fh] in Hrow. exact Hrow.
    + intros r' Hr' Hst. rewrite files_upd_file in Hr'. apply In_updf in Hr'.
      destruct Hr' as [r0 [Hr0 [[Hl ->]|[Hl ->]]]]; [cbn in Hst; congruence|].
      apply (inv_ud _ HI); assumption.
  - repeat split; try reflexivity.
    + intros l' Hl'. unfold find_file. rewrite files_upd_file. fold (findf l' (updf l g (files s))).
      rewrite findf_updf; [|exact Hg]. apply str_eqb_neq in Hl'. rewrite Hl'. reflexivity.
    + intros _. rewrite fstate_of_findf, files_upd_file, findf_updf; [|exact Hg].
      rewrite str_eqb_refl. unfold find_file in Hf. fold (findf l (files s)) in Hf. rewrite Hf. reflexivity.
    + intros H; discriminate.
Qed.

(* ------------------------------------------------------------------------------------------ *)
(* step rows                                                                                   *)
(* ------------------------------------------------------------------------------------------ *)
Lemma upd_step_inv l g s :
  Inv s -> (forall r, sl (g r) = sl r) ->
  (forall r, In r (steps s) -> sl r = l -> sw_ok_b (g r) = true) ->
  Inv (upd_step l g s) /\ SO s (upd_step l g s).
Proof.
  intros HI Hg Hok.
  assert (HSO : SO s (upd_step l g s)).
  { constructor; try reflexivity. rewrite steps_upd_step. apply SL_upds. exact Hg. }
  split; [|exact HSO].
  apply (Inv_SO s); [exact HI | exact HSO | apply (inv_fh _ HI) | | apply (inv_ud _ HI)
                    | apply (rw_hnodup _ _ _ _ _ (inv_rw _ HI)) | apply (rw_hstep _ _ _ _ _ (inv_rw _ HI))].
  intros r' Hr'. rewrite steps_upd_step in Hr'. apply In_upds in Hr'.
  destruct Hr' as [r0 [Hr0 [[Hl ->]|[Hl ->]]]]; [apply Hok; assumption | apply (inv_sw _ HI); exact Hr0].
Qed.

Lemma find_step_upd_step x l g s : (forall r, sl (g r) = sl r) ->
  find_step x (upd_step l g s) = if str_eqb x l then option_map g (find_step x s) else find_step x s.
Proof.
  intros Hg. unfold find_step. rewrite steps_upd_step.
  fold (finds x (upds l g (steps s))). fold (finds x (steps s)). apply finds_upds. exact Hg.
Qed.

Lemma set_sstate_spec strict l new d s :
  Inv s -> (strict = true -> d = true -> new = SPending) ->
  wpg strict (set_sstate l new d s)
      (fun s' => Inv s' /\ SO s s' /\ files s' = files s /\ shash s' = shash s /\
                 (forall l', l' <> l -> find_step l' s' = find_step l' s) /\
                 (find_step l s <> None -> sstate_of l s' = Some new) /\
                 (find_step l s = None -> s' = s)).
Proof.
  intros HI Hstrict. unfold set_sstate. destruct (find_step l s) as [r|] eqn:Hf.
  2:{ cbn. split; [exact HI|]. split; [apply SO_refl|]. split; [reflexivity|]. split; [reflexivity|].
      split; [reflexivity|]. split; [intros H; congruence | reflexivity]. }
  destruct (d && negb (sstate_eqb new SPending)) eqn:Echk.
  { destruct strict; [|exact I]. cbn. apply andb_true_iff in Echk. destruct Echk as [E1 E2].
    subst d. rewrite (Hstrict eq_refl eq_refl) in E2. discriminate. }
  cbn [wpg].
  set (g := fun r0 : srow => mkS (sl r0) new (sneed r0)
              (match new with SSucceeded | SFailed => false | _ => d end)
              (match new with SSucceeded => 0 | _ => sdc r end)
              (if sstate_eqb new SRunning then shold r else 0)).
  assert (Hg : forall r0, sl (g r0) = sl r0) by reflexivity.
  destruct (upd_step_inv l g s HI Hg) as [HI' HSO].
  { intros r0 _ _. unfold g, sw_ok_b. cbn [sdef sst shold].
    destruct new, d; cbn in *; try reflexivity; try discriminate; rewrite ?N.eqb_refl, ?orb_true_r; reflexivity. }
  split; [exact HI'|]. split; [exact HSO|]. split; [reflexivity|]. split; [reflexivity|].
  split; [|split].
  - intros l' Hl'. rewrite find_step_upd_step; [|exact Hg]. apply str_eqb_neq in Hl'. rewrite Hl'. reflexivity.
  - intros _. unfold sstate_of. rewrite find_step_upd_step; [|exact Hg]. rewrite str_eqb_refl, Hf. reflexivity.
  - intros H; discriminate.
Qed.

(* ------------------------------------------------------------------------------------------ *)
(* stored hashes and env rows                                                                  *)
(* ------------------------------------------------------------------------------------------ *)
Lemma Inv_set_shash s sh :
  Inv s -> NoDup sh -> incl sh (SL (steps s)) -> Inv (set_shash s sh) /\ SO s (set_shash s sh).
Proof.
  intros HI H1 H2.
  assert (HSO : SO s (set_shash s sh)) by (constructor; reflexivity).
  split; [|exact HSO].
  apply (Inv_SO s); [exact HI | exact HSO | apply (inv_fh _ HI) | apply (inv_sw _ HI) | apply (inv_ud _ HI)
                    | exact H1 | exact H2].
Qed.

Lemma delete_hash_inv l s : Inv s -> Inv (delete_hash l s) /\ SO s (delete_hash l s).
Proof.
  intros HI. unfold delete_hash. apply Inv_set_shash; [exact HI | |].
  - apply NoDup_filter. apply (rw_hnodup _ _ _ _ _ (inv_rw _ HI)).
  - intros x Hx. apply filter_In in Hx. apply (rw_hstep _ _ _ _ _ (inv_rw _ HI)). tauto.
Qed.

Lemma has_hash_In l s : has_hash l s = true <-> In l (shash s).
Proof. unfold has_hash. apply (memb_In str_eqb str_eqb_eq). Qed.

Lemma find_step_SL l s : find_step l s <> None <-> In l (SL (steps s)).
Proof.
  unfold find_step. fold (finds l (steps s)). rewrite finds_some_in. split.
  - intros H. destruct (finds l (steps s)); [eexists; reflexivity | congruence].
  - intros [r ->]. discriminate.
Qed.
Lemma find_file_FL l s : find_file l s <> None <-> In l (FL (files s)).
Proof.
  unfold find_file. fold (findf l (files s)). rewrite findf_some_in. split.
  - intros H. destruct (findf l (files s)); [eexists; reflexivity | congruence].
  - intros [r ->]. discriminate.
Qed.
Lemma find_node_KL k s : find_node k s <> None <-> In k (KL (nodes s)).
Proof.
  unfold find_node. fold (findn k (nodes s)). rewrite findn_some_iff. split.
  - intros H. destruct (findn k (nodes s)); [eexists; reflexivity | congruence].
  - intros [r ->]. discriminate.
Qed.

Lemma store_hash_inv l s : Inv s -> find_step l s <> None -> Inv (store_hash l s) /\ SO s (store_hash l s).
Proof.
  intros HI Hl. unfold store_hash. destruct (has_hash l s) eqn:E; [split; [exact HI | apply SO_refl]|].
  apply Inv_set_shash; [exact HI | |].
  - constructor; [|apply (rw_hnodup _ _ _ _ _ (inv_rw _ HI))].
    intros Hin. apply has_hash_In in Hin. congruence.
  - intros x [<-|Hx]; [apply find_step_SL; exact Hl | apply (rw_hstep _ _ _ _ _ (inv_rw _ HI)); exact Hx].
Qed.

Lemma Inv_set_envs s es :
  Inv s -> incl (map estep es) (SL (steps s)) -> Inv (set_envs s es).
Proof.
  intros [I1 I2 I3 I4 I5 I6 I7] H. constructor; try assumption.
  destruct I2 as [H1 H2 H3 H4 H5 H6 H7]. constructor; assumption.
Qed.

Lemma add_env_inv step name dyn replace s :
  Inv s -> find_step step s <> None -> Inv (add_env step name dyn replace s).
Proof.
  intros HI Hs. unfold add_env.
  pose proof (rw_estep _ _ _ _ _ (inv_rw _ HI)) as He.
  destruct (existsb _ (envs s)); [destruct replace; [|exact HI]|].
  - apply Inv_set_envs; [exact HI|]. intros x Hx. rewrite map_map in Hx. apply in_map_iff in Hx.
    destruct Hx as [e [He1 He2]]. destruct (str_eqb (estep e) step && str_eqb (ename e) name).
    + cbn in He1. subst x. apply find_step_SL. exact Hs.
    + subst x. apply He. apply in_map. exact He2.
  - apply Inv_set_envs; [exact HI|]. rewrite map_app. intros x Hx. apply in_app_or in Hx.
    destruct Hx as [Hx|[<-|[]]]; [apply He; exact Hx | apply find_step_SL; exact Hs].
Qed.

Lemma add_env_frame step name dyn replace s :
  nodes (add_env step name dyn replace s) = nodes s /\ files (add_env step name dyn replace s) = files s /\
  steps (add_env step name dyn replace s) = steps s /\ deps (add_env step name dyn replace s) = deps s /\
  shash (add_env step name dyn replace s) = shash s.
Proof. unfold add_env. destruct (existsb _ (envs s)); [destruct replace|]; repeat split; reflexivity. Qed.

(* ------------------------------------------------------------------------------------------ *)
(* state propagation: mark_step_pending / mark_file_outdated                                   *)
(* ------------------------------------------------------------------------------------------ *)
Definition depth_lt (s : st) (k : key) (n : nat) : Prop :=
  forall m x, pathn (EL (deps s)) m k x -> (m < n)%nat.

Lemma depth_lt_SO s s' k n : SO s s' -> depth_lt s k n -> depth_lt s' k n.
Proof. intros HSO H m x Hp. rewrite (so_deps _ _ HSO) in Hp. eapply H; exact Hp. Qed.

Lemma depth_lt_edge s k k' n : In (k, k') (EL (deps s)) -> depth_lt s k (S n) -> depth_lt s k' n.
Proof.
  intros He H m x Hp. assert (S m < S n)%nat; [|lia]. eapply H. econstructor; eassumption.
Qed.

Lemma sinks_of_In k x s : In x (sinks_of k s) <-> In (k, x) (EL (deps s)).
Proof.
  unfold sinks_of, EL. rewrite !in_map_iff. split.
  - intros [d [Hd1 Hd2]]. apply filter_In in Hd2. destruct Hd2 as [Hd2 Hd3]. apply key_eqb_eq in Hd3.
    exists d. split; [unfold edge_of; congruence | exact Hd2].
  - intros [d [Hd1 Hd2]]. inversion Hd1; subst. exists d. split; [reflexivity|].
    apply filter_In. split; [exact Hd2 | apply key_eqb_refl].
Qed.

Lemma file_sinks_In l f s : In f (file_sinks_of_step l s) <-> In ((KStep, l), (KFile, f)) (EL (deps s)).
Proof.
  unfold file_sinks_of_step. rewrite in_map_iff. split.
  - intros [k [Hk1 Hk2]]. apply filter_In in Hk2. destruct Hk2 as [Hk2 Hk3]. apply kind_eqb_eq in Hk3.
    apply sinks_of_In in Hk2. destruct k as [kk kl]. cbn in *. subst. exact Hk2.
  - intros H. exists (KFile, f). split; [reflexivity|]. apply filter_In. split; [|reflexivity].
    apply sinks_of_In. exact H.
Qed.
Lemma step_sinks_In f l s : In l (step_sinks_of_file f s) <-> In ((KFile, f), (KStep, l)) (EL (deps s)).
Proof.
  unfold step_sinks_of_file. rewrite in_map_iff. split.
  - intros [k [Hk1 Hk2]]. apply filter_In in Hk2. destruct Hk2 as [Hk2 Hk3]. apply kind_eqb_eq in Hk3.
    apply sinks_of_In in Hk2. destruct k as [kk kl]. cbn in *. subst. exact Hk2.
  - intros H. exists (KStep, l). split; [reflexivity|]. apply filter_In. split; [|reflexivity].
    apply sinks_of_In. exact H.
Qed.

(* the sink of an edge exists, with its row *)
Lemma edge_snk_step s k l : Inv s -> In (k, (KStep, l)) (EL (deps s)) -> find_step l s <> None.
Proof.
  intros HI He. apply in_map_iff in He. destruct He as [d [Hd1 Hd2]]. inversion Hd1; subst.
  apply find_step_SL. apply (rw_steps _ _ _ _ _ (inv_rw _ HI)). rewrite <- H1.
  apply (dw_snk _ _ (inv_dw _ HI)). exact Hd2.
Qed.
Lemma edge_snk_file s k f : Inv s -> In (k, (KFile, f)) (EL (deps s)) -> find_file f s <> None.
Proof.
  intros HI He. apply in_map_iff in He. destruct He as [d [Hd1 Hd2]]. inversion Hd1; subst.
  apply find_file_FL. apply (rw_files _ _ _ _ _ (inv_rw _ HI)). rewrite <- H1.
  apply (dw_snk _ _ (inv_dw _ HI)). exact Hd2.
Qed.

Definition mark_post (s s' : st) : Prop := Inv s' /\ SO s s' /\ Outd s s'.

Lemma mark_post_refl s : Inv s -> mark_post s s.
Proof. intros H. split; [exact H|]. split; [apply SO_refl | apply Outd_refl]. Qed.
Lemma mark_post_trans s1 s2 s3 : mark_post s1 s2 -> mark_post s2 s3 -> mark_post s1 s3.
Proof.
  intros [_ [A2 A3]] [B1 [B2 B3]]. split; [exact B1|]. split; [eapply SO_trans | eapply Outd_trans]; eassumption.
Qed.

Lemma Outd_of_files_eq s s' : files s' = files s -> Outd s s'.
Proof. intros H l. left. unfold fstate_of, find_file. rewrite H. reflexivity. Qed.

Lemma mark_spec strict fuel :
  (forall l s, Inv s ->
     (strict = true -> find_step l s <> None /\ depth_lt s (KStep, l) fuel) ->
     wpg strict (mark_step_pending_f fuel l s) (mark_post s)) /\
  (forall f s, Inv s ->
     (strict = true -> (fstate_of f s = Some FBuilt \/ fstate_of f s = Some FOutdated) /\
                       depth_lt s (KFile, f) fuel) ->
     wpg strict (mark_file_outdated_f fuel f s) (mark_post s)).
Proof.
  induction fuel as [|fuel [IHs IHf]].
  - split; intros x s HI Hst; cbn; (destruct strict; [|exact I]);
      destruct (Hst eq_refl) as [_ Hd]; specialize (Hd 0%nat _ (pathn_O _ _)); lia.
  - split.
    + (* mark_step_pending_f *)
      intros l s HI Hst. cbn [mark_step_pending_f].
      destruct (sstate_of l s) as [old|] eqn:Hold.
      2:{ destruct strict; [|exact I]. cbn. destruct (Hst eq_refl) as [Hf _].
          unfold sstate_of in Hold. destruct (find_step l s); [discriminate | congruence]. }
      assert (Hmain : forall (after : st -> res st),
                 (forall s1, Inv s1 -> SO s s1 -> files s1 = files s -> wpg strict (after s1) (mark_post s1)) ->
                 wpg strict (bind (set_sstate l SPending false s) after) (mark_post s)).
      { intros after Hafter. apply wpg_bind.
        eapply wpg_weaken; [apply set_sstate_spec; [exact HI | intros _ H; discriminate]|].
        intros s1 [HI1 [HSO1 [Hfiles1 _]]]. eapply wpg_weaken; [apply Hafter; assumption|].
        intros s2 Hp. eapply mark_post_trans; [|exact Hp].
        split; [exact HI1|]. split; [exact HSO1 | apply Outd_of_files_eq; exact Hfiles1]. }
      assert (Hprop : forall s1, Inv s1 -> SO s s1 -> files s1 = files s ->
                 wpg strict (foldM (fun s f => match fstate_of f s with
                                               | Some FBuilt => mark_file_outdated_f fuel f s
                                               | _ => Ok s end) (file_sinks_of_step l s1) s1) (mark_post s1)).
      { intros s1 HI1 HSO1 _.
        apply (wpg_foldM strict _ (mark_post s1)); [|apply mark_post_refl; exact HI1].
        intros s2 f Hf [HI2 [HSO2 HO2]].
        assert (Hgoal : wpg strict (match fstate_of f s2 with
                                    | Some FBuilt => mark_file_outdated_f fuel f s2
                                    | _ => Ok s2 end) (mark_post s2)).
        { destruct (fstate_of f s2) as [[]|] eqn:Hfs; try (apply mark_post_refl; exact HI2).
          apply IHf; [exact HI2|]. intros Hs. split; [left; exact Hfs|].
          destruct (Hst Hs) as [_ Hd]. apply (depth_lt_SO s); [eapply SO_trans; eassumption|].
          eapply depth_lt_edge; [|exact Hd]. rewrite <- (so_deps _ _ HSO1). apply file_sinks_In. exact Hf. }
        eapply wpg_weaken; [exact Hgoal|]. intros s3 Hp.
        eapply mark_post_trans; [|exact Hp]. split; [exact HI2|]. split; assumption. }
      destruct old; try (apply mark_post_refl; exact HI).
      * apply Hmain. intros s1 HI1 _ _. apply mark_post_refl. exact HI1.
      * apply Hmain. exact Hprop.
      * apply Hmain. exact Hprop.
    + (* mark_file_outdated_f *)
      intros f s HI Hst. cbn [mark_file_outdated_f].
      assert (Hbad : forall t, (fstate_of f s <> Some FBuilt) -> (fstate_of f s <> Some FOutdated) ->
                               wpg strict (@Internal st t) (mark_post s)).
      { intros t H1 H2. destruct strict; [|exact I]. cbn. destruct (Hst eq_refl) as [[H|H] _]; congruence. }
      destruct (fstate_of f s) as [[]|] eqn:Hfs; try (apply Hbad; congruence).
      2:{ apply mark_post_refl. exact HI. }
      apply wpg_bind. unfold set_fstate.
      eapply wpg_weaken.
      { apply set_fstate_hash_spec; [exact HI | discriminate |].
        intros _ _ r Hr. rewrite fstate_of_findf in Hfs. unfold find_file in Hr.
        fold (findf f (files s)) in Hr. rewrite Hr in Hfs. cbn in Hfs.
        pose proof (findf_In _ _ _ Hr) as [Hin _]. pose proof (inv_fh _ HI r Hin) as Hok.
        unfold fh_ok_b in Hok. inversion Hfs as [Hst']. rewrite Hst' in Hok.
        destruct (fh r); [discriminate | discriminate]. }
      intros s1 [HI1 [HSO1 [Hsteps1 [Hsh1 [Hoth1 [Hnew1 _]]]]]].
      assert (HO1 : Outd s s1).
      { intros l'. destruct (str_eq_dec l' f) as [->|Hne].
        - right. split; [exact Hfs|]. apply Hnew1. unfold fstate_of in Hfs.
          destruct (find_file f s); [discriminate | discriminate].
        - left. unfold fstate_of. rewrite (Hoth1 l' Hne). reflexivity. }
      eapply wpg_weaken.
      { apply (wpg_foldM strict _ (mark_post s1)); [|apply mark_post_refl; exact HI1].
        intros s2 l Hl [HI2 [HSO2 HO2]].
        eapply wpg_weaken.
        - apply IHs; [exact HI2|]. intros Hs. split.
          + apply (edge_snk_step s2 (KFile, f)); [exact HI2|]. rewrite (so_deps _ _ HSO2).
            apply step_sinks_In. exact Hl.
          + destruct (Hst Hs) as [_ Hd]. apply (depth_lt_SO s); [eapply SO_trans; eassumption|].
            eapply depth_lt_edge; [|exact Hd]. rewrite <- (so_deps _ _ HSO1). apply step_sinks_In. exact Hl.
        - intros s3 Hp. eapply mark_post_trans; [|exact Hp]. split; [exact HI2|]. split; assumption. }
      intros s2 Hp. eapply mark_post_trans; [|exact Hp]. split; [exact HI1|]. split; assumption.
Qed.

(* fuel_of suffices: a dependency path cannot be longer than the number of nodes *)
Lemma depth_ok s k : Inv s -> depth_lt s k (fuel_of s).
Proof.
  intros HI m x Hp. unfold fuel_of.
  destruct (acyclic_pathn_bound (EL (deps s)) (KL (nodes s)) m k x (inv_ac _ HI)) as [->|Hle]; [| exact Hp | | ].
  - intros a b Hab. apply in_map_iff in Hab. destruct Hab as [d [Hd1 Hd2]]. inversion Hd1; subst.
    split; [apply (dw_src _ _ (inv_dw _ HI)) | apply (dw_snk _ _ (inv_dw _ HI))]; exact Hd2.
  - lia.
  - unfold KL in Hle. rewrite map_length in Hle. lia.
Qed.

Lemma mark_step_pending_spec strict l s :
  Inv s -> (strict = true -> find_step l s <> None) ->
  wpg strict (mark_step_pending l s) (mark_post s).
Proof.
  intros HI Hst. unfold mark_step_pending. apply (proj1 (mark_spec strict (fuel_of s))); [exact HI|].
  intros Hs. split; [apply Hst; exact Hs | apply depth_ok; exact HI].
Qed.

Lemma mark_file_outdated_spec strict f s :
  Inv s -> (strict = true -> fstate_of f s = Some FBuilt \/ fstate_of f s = Some FOutdated) ->
  wpg strict (mark_file_outdated f s) (mark_post s).
Proof.
  intros HI Hst. unfold mark_file_outdated. apply (proj2 (mark_spec strict (fuel_of s))); [exact HI|].
  intros Hs. split; [apply Hst; exact Hs | apply depth_ok; exact HI].
Qed.

Lemma mark_consumers_pending_spec strict f s :
  Inv s -> wpg strict (mark_consumers_pending f s) (mark_post s).
Proof.
  intros HI. unfold mark_consumers_pending.
  apply (wpg_foldM strict _ (mark_post s)); [|apply mark_post_refl; exact HI].
  intros s2 l Hl [HI2 [HSO2 HO2]]. eapply wpg_weaken.
  - apply mark_step_pending_spec; [exact HI2|]. intros _.
    apply (edge_snk_step s2 (KFile, f)); [exact HI2|]. rewrite (so_deps _ _ HSO2).
    apply step_sinks_In. exact Hl.
  - intros s3 Hp. eapply mark_post_trans; [|exact Hp]. split; [exact HI2|]. split; assumption.
Qed.
