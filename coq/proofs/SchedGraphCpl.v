(* C10: the coupling between a state of the transaction model (model/Graph.v) and a scheduling
   snapshot (model/Sched.v): the snapshot's structural columns are those of the state, under an
   injective naming of keys by node ids; cached columns and flags are unconstrained. *)
From Coq Require Import List NArith Bool Arith Lia.
From SV Require Import lib.Bytes lib.Closure lib.SqlExpr gen.GenSched model.Graph model.GraphInv model.Sched
  model.SchedGraph proofs.GraphBase proofs.GraphNodes proofs.GraphInvP proofs.SchedProofs proofs.SchedPrims
  proofs.SchedSeq proofs.SchedSkel.
Import ListNotations.
Open Scope N_scope.

Section Cpl.
Variable idf : key -> N.
Hypothesis idf_inj : forall a b, idf a = idf b -> a = b.

Definition row_sk (s : st) (r : srow) : sskel :=
  mkSk (sk idf (sl r)) (sstate_code (sst r)) (need_code (sneed r)) (sdef r) (sdc r) (shold r)
       (node_det (KStep, sl r) s) (node_cre idf (KStep, sl r) s) (has_hash (sl r) s) (has_hash (sl r) s).

Record coupled (s : st) (g : graph) : Prop := {
  cp_steps : sks g = map (row_sk s) (steps s);
  cp_files : g_files g = map (file_of idf s) (files s);
  cp_others : g_others g = others_of idf s;
  cp_deps : g_deps g = map (dep_of idf) (deps s) }.

Lemma idf_eqb a b : (idf a =? idf b) = key_eqb a b.
Proof.
  destruct (key_eqb a b) eqn:E.
  - apply key_eqb_eq in E. subst. apply N.eqb_refl.
  - apply N.eqb_neq. intros H. apply idf_inj in H. apply key_eqb_neq in E. contradiction.
Qed.

Lemma fk_eqb a b : (fk idf a =? fk idf b) = str_eqb a b.
Proof. unfold fk. rewrite idf_eqb. apply key_file_eqb. Qed.
Lemma sk_eqb a b : (sk idf a =? sk idf b) = str_eqb a b.
Proof. unfold sk. rewrite idf_eqb. apply key_step_eqb. Qed.
Lemma fk_sk_neq a b : fk idf a <> sk idf b.
Proof. unfold fk, sk. intros H. apply idf_inj in H. discriminate. Qed.

(* ---- lookups ---- *)
Lemma find_file_cpl s g l : coupled s g ->
  Sched.find_file g (fk idf l) = option_map (file_of idf s) (Graph.find_file l s).
Proof.
  intros C. unfold Sched.find_file, Graph.find_file. rewrite (cp_files s g C).
  induction (files s) as [|r rs IH]; [reflexivity|]. cbn [map find f_key file_of].
  rewrite fk_eqb. destruct (str_eqb (fl r) l); [reflexivity | exact IH].
Qed.

Lemma find_file_cpl_key s g k f : coupled s g -> Sched.find_file g k = Some f ->
  exists r, In r (files s) /\ f = file_of idf s r /\ k = fk idf (fl r).
Proof.
  intros C H. unfold Sched.find_file in H. apply find_some in H. destruct H as [Hin Hk].
  rewrite (cp_files s g C) in Hin. apply in_map_iff in Hin. destruct Hin as [r [<- Hr]].
  exists r. split; [exact Hr|]. split; [reflexivity|]. apply N.eqb_eq in Hk. symmetry. exact Hk.
Qed.

Lemma find_file_cpl_step s g l : coupled s g -> Sched.find_file g (sk idf l) = None.
Proof.
  intros C. destruct (Sched.find_file g (sk idf l)) as [f|] eqn:E; [|reflexivity].
  destruct (find_file_cpl_key s g _ f C E) as [r [_ [_ Hk]]]. symmetry in Hk. apply fk_sk_neq in Hk. contradiction.
Qed.

(* step rows: the list of skeletons determines lookups up to cached columns *)
Lemma find_sk_gen (xs : list step) (rs : list srow) s l :
  map sk_step xs = map (row_sk s) rs ->
  match find (fun x => s_key x =? sk idf l) xs, find (fun r => str_eqb (sl r) l) rs with
  | Some x, Some r => sk_step x = row_sk s r
  | None, None => True
  | _, _ => False
  end.
Proof.
  revert rs. induction xs as [|x xs IH]; intros [|r rs] E; try discriminate; [exact I|].
  cbn [map] in E. assert (E1 : sk_step x = row_sk s r) by congruence.
  assert (E2 : map sk_step xs = map (row_sk s) rs) by congruence.
  cbn [find]. pose proof (f_equal q_key E1) as Hk. cbn [q_key sk_step row_sk] in Hk.
  rewrite Hk, sk_eqb. destruct (str_eqb (sl r) l); [exact E1 | apply IH; exact E2].
Qed.

Lemma find_step_cpl s g l : coupled s g ->
  match Sched.find_step g (sk idf l), Graph.find_step l s with
  | Some x, Some r => sk_step x = row_sk s r
  | None, None => True
  | _, _ => False
  end.
Proof. intros C. apply find_sk_gen. exact (cp_steps s g C). Qed.

Lemma in_steps_cpl s g x : coupled s g -> In x (g_steps g) ->
  exists r, In r (steps s) /\ sk_step x = row_sk s r.
Proof.
  intros C Hx. assert (H : In (sk_step x) (sks g)) by (apply in_map; exact Hx).
  rewrite (cp_steps s g C) in H. apply in_map_iff in H. destruct H as [r [Hr1 Hr2]]. exists r. auto.
Qed.

Lemma step_key_cpl s g x : coupled s g -> In x (g_steps g) -> exists r, In r (steps s) /\ s_key x = sk idf (sl r).
Proof.
  intros C Hx. destruct (in_steps_cpl s g x C Hx) as [r [Hr E]]. exists r. split; [exact Hr|].
  apply (f_equal q_key) in E. exact E.
Qed.

Lemma file_key_cpl s g f : coupled s g -> In f (g_files g) -> exists r, In r (files s) /\ f = file_of idf s r.
Proof.
  intros C Hf. rewrite (cp_files s g C) in Hf. apply in_map_iff in Hf. destruct Hf as [r [<- Hr]]. exists r. auto.
Qed.

Lemma dep_cpl s g d : coupled s g -> In d (g_deps g) -> exists d0, In d0 (deps s) /\ d = dep_of idf d0.
Proof.
  intros C Hd. rewrite (cp_deps s g C) in Hd. apply in_map_iff in Hd. destruct Hd as [d0 [<- H0]]. exists d0. auto.
Qed.

(* no file row has the id of a step *)
Lemma no_file_with_step_id s g l : coupled s g -> forall f, In f (g_files g) -> f_key f <> sk idf l.
Proof.
  intros C f Hf. destruct (file_key_cpl s g f C Hf) as [r [_ ->]]. cbn [f_key file_of]. apply fk_sk_neq.
Qed.
Lemma no_step_with_file_id s g l : coupled s g -> forall x, In x (g_steps g) -> s_key x <> fk idf l.
Proof.
  intros C x Hx. destruct (step_key_cpl s g x C Hx) as [r [_ ->]]. intros H. symmetry in H. apply fk_sk_neq in H. exact H.
Qed.

(* unique step keys *)
Lemma WF_cpl s g : coupled s g -> NoDup (SL (steps s)) -> WF g.
Proof.
  intros C Hnd. unfold WF.
  assert (E : map s_key (g_steps g) = map (fun r => sk idf (sl r)) (steps s)).
  { transitivity (map q_key (sks g)); [unfold sks; rewrite map_map; reflexivity|].
    rewrite (cp_steps s g C), map_map. reflexivity. }
  rewrite E. unfold SL in Hnd. clear E C.
  induction (steps s) as [|r rs IH]; [constructor|]. cbn [map] in *. inversion Hnd as [|? ? Hn Hd]; subst.
  constructor; [|apply IH; exact Hd]. intros Hin. apply Hn. apply in_map_iff in Hin. destruct Hin as [r' [Hk Hr']].
  apply in_map_iff. exists r'. split; [|exact Hr'].
  unfold sk in Hk. apply idf_inj in Hk. congruence.
Qed.

End Cpl.
