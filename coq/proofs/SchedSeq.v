(* C10: sequences of Sched primitives keep the flag invariant (each primitive applied where its side
   condition holds), with the decidable form of the side conditions. *)
From Coq Require Import List NArith Bool Arith Lia.
From SV Require Import lib.Bytes lib.SqlExpr gen.GenSched model.Sched proofs.SchedProofs proofs.SchedPrims.
Import ListNotations.
Open Scope N_scope.

Definition prim_ok (g : graph) (p : prim) : Prop :=
  match p with
  | PSetState _ _ _ | PHold _ | PRelease _ | PInsDep _ | PDelDep _ | PSetHash _ _ | PIncDefer _ => True
  | PSetFileState k st _ =>
      (forall f, In f (g_files g) -> f_key f = k -> (f_state f =? FS_VOLATILE) = (st =? FS_VOLATILE))
      \/ (forall d, In d (g_deps g) -> d_snk d <> k)
  | PDetach k =>
      (forall f, In f (g_files g) -> f_key f <> k) /\
      (forall d f, In d (g_deps g) -> find_file g (d_snk d) = Some f ->
         mem_N (f_key f) (k :: below g k) = true -> mem_N (d_src d) (k :: below g k) = true)
  | PDetachFile k =>
      (no_step_in g (k :: below g k) /\
       (forall d f, In d (g_deps g) -> find_file g (d_snk d) = Some f -> mem_N (f_key f) (k :: below g k) = false))
      \/ ((forall s, In s (g_steps g) -> s_key s <> k) /\
          (forall f, In f (g_files g) -> f_key f = k -> f_detached f = true))
  | PReattach k _ cdet =>
      (forall d f, In d (g_deps g) -> find_file g (d_snk d) = Some f ->
         mem_N (f_key f) (k :: below g k) = true -> mem_N (d_src d) (k :: below g k) = true) /\
      (cdet = true -> forall s, In s (g_steps g) -> mem_N (s_key s) (k :: below g k) = true -> s_detached s = true)
  | PCreate k creator det need safe stored dur res =>
      ~ In k (map s_key (g_steps g)) /\
      (forall d, In d (g_deps g) -> d_snk d <> k) /\
      (forall s, In s (g_steps g) -> s_creator s <> Some k) /\
      (exists rank, CreatorRank g rank) /\
      (safe = true ->
       creator_step (create_step g k creator det need safe stored dur res)
         (mkStep k init_state need false 0 0 det creator safe safe need false stored stored
                 (negb safe) true true dur 1 res) = None)
  | PCreateFile k _ _ _ _ => forall d, In d (g_deps g) -> d_src d <> k /\ d_snk d <> k
  | PDeleteStep k =>
      (forall s, In s (g_steps g) -> s_creator s <> Some k) /\
      (forall d, In d (g_deps g) -> d_snk d <> k) /\
      (exists rank, CreatorRank (delete_step g k) rank)
  | PDeleteFile k => forall d, In d (g_deps g) -> d_src d <> k /\ d_snk d <> k
  | PPlaceFile k _ _ =>
      (forall s, In s (g_steps g) -> s_key s <> k) /\ (forall d, In d (g_deps g) -> d_snk d <> k)
  | PSetNeed k _ =>
      forall s, In s (g_steps g) -> s_key s = k -> s_chk_safe s = true /\ s_chk_after s = true
  | PSetDuration _ _ | PSetRes _ _ => True
  end.

Fixpoint run_ok (g : graph) (l : list prim) : Prop :=
  match l with
  | [] => True
  | p :: r => prim_ok g p /\ forall g1, apply_prim g p = Some g1 -> run_ok g1 r
  end.

Lemma apply_prim_sound g p g1 :
  WF g -> FlagInv g -> prim_ok g p -> apply_prim g p = Some g1 -> WF g1 /\ FlagInv g1.
Proof.
  intros Hwf HF Hok E. destruct p; cbn [apply_prim prim_ok] in *; try (injection E as <-).
  - split; [eapply same_keys_WF; [apply same_keys_set_state | exact Hwf] | apply set_step_state_sound_repo; exact HF].
  - split; [eapply same_keys_WF; [apply same_keys_hold | exact Hwf] | apply hold_step_sound; assumption].
  - split; [eapply same_keys_WF; [eapply same_keys_release; exact E | exact Hwf] | eapply release_step_sound; eassumption].
  - split; [eapply same_keys_WF; [apply same_keys_ins_dep | exact Hwf] | apply ins_dep_sound_repo; assumption].
  - split; [eapply same_keys_WF; [apply same_keys_del_dep | exact Hwf] | apply del_dep_sound_full_repo; assumption].
  - split; [eapply same_keys_WF; [apply same_keys_set_file_state | exact Hwf]|].
    destruct HF as [HFs [HFn HFr]].
    destruct (set_file_state_sound_repo g k st h (conj HFs HFr)) as [H1 H2].
    split; [exact H1|]. split; [|exact H2].
    destruct Hok as [Hok|Hok]; [apply set_file_state_need_sound | apply set_file_state_need_sound_noin]; assumption.
  - destruct Hok as [H1 H2].
    split; [eapply same_keys_WF; [eapply same_keys_place_rel; apply detach_step_place_rel | exact Hwf]
           | apply detach_step_sound_repo; assumption].
  - split; [eapply same_keys_WF; [eapply same_keys_place_rel; apply detach_file_place_rel | exact Hwf]|].
    destruct Hok as [[H1 H2]|[H1 H2]]; [apply detach_file_sound_repo | apply detach_file_sound_detached]; assumption.
  - destruct Hok as [H1 H2].
    split; [eapply same_keys_WF; [eapply same_keys_place_rel; apply reattach_step_place_rel | exact Hwf]
           | apply reattach_step_sound_repo; assumption].
  - split; [eapply same_keys_WF; [apply same_keys_set_step_hash | exact Hwf] | apply set_step_hash_sound; exact HF].
  - split; [eapply same_keys_WF; [apply same_keys_inc_defer | exact Hwf] | apply inc_defer_sound; exact HF].
  - destruct Hok as [H1 [H2 [H3 [[rank HR] H4]]]]. split.
    + unfold WF, create_step. cbn [g_steps with_steps]. rewrite map_app. cbn [map s_key].
      apply NoDup_app_fresh; assumption.
    + destruct HF as [HFs [HFn HFr]]. split; [|split].
      * eapply create_step_safe_sound; eassumption.
      * apply create_step_need_sound; assumption.
      * apply create_step_ready_sound; assumption.
  - split; [eapply same_keys_WF; [apply same_keys_create_file | exact Hwf] | apply create_file_sound; assumption].
  - destruct Hok as [H1 [H2 [rank HR]]].
    split; [apply delete_step_WF; exact Hwf | eapply delete_step_sound; eassumption].
  - split; [eapply same_keys_WF; [apply same_keys_delete_file | exact Hwf] | apply delete_file_sound; assumption].
  - destruct Hok as [H1 H2].
    split; [eapply same_keys_WF; [apply same_keys_place_file | exact Hwf] | apply place_file_sound; assumption].
  - split; [eapply same_keys_WF; [apply same_keys_set_step_need | exact Hwf] | apply set_step_need_sound; assumption].
  - split; [eapply same_keys_WF; [apply same_keys_set_step_duration | exact Hwf] | apply set_step_duration_sound; assumption].
  - split; [eapply same_keys_WF; [apply same_keys_set_step_res | exact Hwf] | apply set_step_res_sound; assumption].
Qed.

(* Any sequence of the modelled primitives, each applied where its side condition holds, keeps the
   flag invariant: a composite operation that decomposes into them cannot leave a stale cached
   value unflagged. *)
Theorem prims_preserve_FlagInv l : forall g g',
  WF g -> FlagInv g -> run_ok g l -> run_prims g l = Some g' -> WF g' /\ FlagInv g'.
Proof.
  induction l as [|p r IH]; intros g g' Hwf HF Hok E.
  - cbn in E. injection E as <-. split; assumption.
  - cbn [run_prims] in E. destruct (apply_prim g p) as [g1|] eqn:Ep; [|discriminate].
    destruct Hok as [Hp Hr].
    destruct (apply_prim_sound g p g1 Hwf HF Hp Ep) as [Hwf1 HF1].
    apply (IH g1 g' Hwf1 HF1 (Hr g1 Ep) E).
Qed.

(* reflection of the decidable side conditions *)
Lemma outputs_owned_refl g S : outputs_owned_b g S = true ->
  forall d f, In d (g_deps g) -> find_file g (d_snk d) = Some f -> mem_N (f_key f) S = true -> mem_N (d_src d) S = true.
Proof.
  unfold outputs_owned_b. rewrite forallb_forall. intros H d f Hd Hf Hm.
  specialize (H d Hd). rewrite Hf, Hm in H. exact H.
Qed.
Lemma no_edge_into_refl g S : no_edge_into_b g S = true ->
  forall d f, In d (g_deps g) -> find_file g (d_snk d) = Some f -> mem_N (f_key f) S = false.
Proof.
  unfold no_edge_into_b. rewrite forallb_forall. intros H d f Hd Hf.
  specialize (H d Hd). rewrite Hf in H. apply negb_true_iff in H. exact H.
Qed.
Lemma no_edge_to_refl g k : no_edge_to_b g k = true -> forall d, In d (g_deps g) -> d_snk d <> k.
Proof.
  unfold no_edge_to_b. rewrite forallb_forall. intros H d Hd. specialize (H d Hd).
  apply negb_true_iff, N.eqb_neq in H. exact H.
Qed.
Lemma no_edge_at_refl g k : no_edge_at_b g k = true ->
  forall d, In d (g_deps g) -> d_src d <> k /\ d_snk d <> k.
Proof.
  unfold no_edge_at_b. rewrite forallb_forall. intros H d Hd. specialize (H d Hd).
  apply andb_true_iff in H. destruct H as [H1 H2].
  apply negb_true_iff, N.eqb_neq in H1. apply negb_true_iff, N.eqb_neq in H2. auto.
Qed.
Lemma no_child_step_refl g k : no_child_step_b g k = true ->
  forall s, In s (g_steps g) -> s_creator s <> Some k.
Proof.
  unfold no_child_step_b. rewrite forallb_forall. intros H s Hs E. specialize (H s Hs).
  rewrite E in H. cbn in H. rewrite N.eqb_refl in H. discriminate.
Qed.
Lemma no_step_key_refl g k : no_step_key_b g k = true -> forall s, In s (g_steps g) -> s_key s <> k.
Proof.
  unfold no_step_key_b. rewrite forallb_forall. intros H s Hs. specialize (H s Hs).
  apply negb_true_iff, N.eqb_neq in H. exact H.
Qed.
Lemma creator_acyclic_refl g : creator_acyclic_b g = true -> exists rank, CreatorRank g rank.
Proof. intros H. exists (crank g). apply creator_rank_refl. exact H. Qed.

Lemma prim_ok_refl g p : prim_ok_b g p = true -> prim_ok g p.
Proof.
  destruct p; cbn [prim_ok_b prim_ok]; try (intros _; exact I); try discriminate.
  - intros H. apply orb_true_iff in H. destruct H as [H|H].
    + left. rewrite forallb_forall in H. intros f Hf Ek. specialize (H f Hf).
      apply N.eqb_eq in Ek. rewrite Ek in H. cbn in H. apply eqb_prop in H. exact H.
    + right. apply no_edge_to_refl. exact H.
  - intros H. apply andb_true_iff in H. destruct H as [H1 H2]. split.
    + rewrite forallb_forall in H1. intros f Hf E. specialize (H1 f Hf). apply negb_true_iff in H1.
      apply N.eqb_neq in H1. contradiction.
    + apply outputs_owned_refl. exact H2.
  - intros H. apply orb_true_iff in H. destruct H as [H|H]; apply andb_true_iff in H; destruct H as [H1 H2].
    + left. split.
      * rewrite forallb_forall in H1. intros s Hs. specialize (H1 s Hs). apply negb_true_iff in H1. exact H1.
      * apply no_edge_into_refl. exact H2.
    + right. split; [apply no_step_key_refl; exact H1|].
      rewrite forallb_forall in H2. intros f Hf Ek. specialize (H2 f Hf).
      apply N.eqb_eq in Ek. rewrite Ek in H2. exact H2.
  - intros H. apply andb_true_iff in H. destruct H as [H1 H2]. split.
    + apply outputs_owned_refl. exact H1.
    + intros -> s Hs Hm. cbn [negb orb] in H2. rewrite forallb_forall in H2. specialize (H2 s Hs).
      rewrite Hm in H2. cbn in H2. exact H2.
  - intros H. rewrite !andb_true_iff in H. destruct H as [[[[H1 H2] H3] H4] H5].
    split; [|split; [|split; [|split]]].
    + intros Hin. apply in_map_iff in Hin. destruct Hin as [s [Hk Hs]]. apply (no_step_key_refl g k H1 s Hs Hk).
    + apply no_edge_to_refl. exact H2.
    + apply no_child_step_refl. exact H3.
    + apply creator_acyclic_refl. exact H4.
    + intros ->. cbn [negb orb] in H5. unfold creator_step. cbn [s_creator].
      destruct creator as [c|]; [|reflexivity]. apply andb_true_iff in H5. destruct H5 as [Hck Hc].
      apply negb_true_iff, N.eqb_neq in Hck.
      unfold find_step, create_step. cbn [g_steps with_steps]. rewrite find_app_other by (cbn [s_key]; congruence).
      destruct (find (fun s => s_key s =? c) (g_steps g)) as [s|] eqn:Ef; [|reflexivity].
      apply find_some in Ef. destruct Ef as [Hs Ek]. apply N.eqb_eq in Ek.
      exfalso. apply (no_step_key_refl g c Hc s Hs Ek).
  - intros H. apply andb_true_iff in H. destruct H as [_ H]. apply no_edge_at_refl. exact H.
  - intros H. rewrite !andb_true_iff in H. destruct H as [[H1 H2] H3].
    split; [apply no_child_step_refl; exact H1|]. split; [apply no_edge_to_refl; exact H2|].
    apply creator_acyclic_refl. exact H3.
  - apply no_edge_at_refl.
  - intros H. apply andb_true_iff in H. destruct H as [H1 H2].
    split; [apply no_step_key_refl; exact H1 | apply no_edge_to_refl; exact H2].
  - rewrite forallb_forall. intros H s Hs Ek. specialize (H s Hs). apply N.eqb_eq in Ek. rewrite Ek in H.
    cbn in H. apply andb_true_iff in H. exact H.
Qed.

Lemma run_ok_refl l : forall g, run_ok_b g l = true -> run_ok g l.
Proof.
  induction l as [|p r IH]; intros g H; [exact I|].
  cbn [run_ok_b run_ok] in *. apply andb_true_iff in H. destruct H as [H1 H2].
  split; [apply prim_ok_refl; exact H1|]. intros g1 E. rewrite E in H2. apply IH. exact H2.
Qed.

Theorem prims_preserve_FlagInv_b l g g' :
  WF g -> FlagInv g -> run_ok_b g l = true -> run_prims g l = Some g' -> WF g' /\ FlagInv g'.
Proof. intros Hwf HF Hok E. eapply prims_preserve_FlagInv; try eassumption. apply run_ok_refl. exact Hok. Qed.
