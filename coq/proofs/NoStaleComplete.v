(* C01, graph level: the transaction that MAKES a step SUCCEEDED establishes K for it and keeps K
   for everybody else.  Step.mark_completed(new_hash, ...) in its success branch (model:
   Graph.mark_completed l true wd): state := SUCCEEDED; every OUTDATED product becomes BUILT and
   its consumers PENDING; the hash is stored.
   Protocol hypotheses (what Executor.execute_job / try_skip_job guarantee when they take this
   branch): every file input of the step is usable (attached, BUILT or CONFIRMED), and every
   attached output is BUILT or VOLATILE already or is one of the OUTDATED products that this
   transaction turns BUILT. *)
From Coq Require Import List NArith Bool Lia.
From SV Require Import lib.Bytes model.Graph model.NoStale proofs.NoStaleMark proofs.NoStaleRescan.
Import ListNotations.
Open Scope N_scope.

(* K for every step except [l] *)
Definition KexL (l : str) (s : st) : Prop :=
  forall r, In r (steps s) -> sst r = SSucceeded -> is_detached (KStep, sl r) s = false -> sl r <> l ->
    has_hash (sl r) s = true /\
    (forall k, In k (file_inputs_of_step (sl r) s) -> input_ok k s = true) /\
    (forall f, In f (file_sinks_of_step (sl r) s) -> output_ok f s = true).

(* [l] itself: as long as it is SUCCEEDED its inputs are usable and every output is fine or still
   waits in [todo] *)
Definition GoodL (l : str) (todo : list str) (s : st) : Prop :=
  not_succ s l \/
  ((forall k, In k (file_inputs_of_step l s) -> input_ok k s = true) /\
   (forall f, In f (file_sinks_of_step l s) -> output_ok f s = true \/ In f todo)).

Definition Bundle (l : str) (todo : list str) (s : st) : Prop :=
  unique_labels s /\ single_producer s /\ KexL l s /\ GoodL l todo s.

Lemma consumer_of_input (r : str) (k : key) (s : st) :
  In k (file_inputs_of_step r s) -> In r (step_sinks_of_file (snd k) s).
Proof.
  intros Hk. unfold file_inputs_of_step, sources_of in Hk. apply filter_In in Hk.
  destruct Hk as [Hk Hkind]. apply in_map_iff in Hk. destruct Hk as (d & Hd & Hdin).
  apply filter_In in Hdin. destruct Hdin as [Hdin Hsnk].
  unfold step_sinks_of_file, sinks_of. apply in_map_iff. exists (KStep, r). split; [reflexivity|].
  apply filter_In. split; [|reflexivity]. apply in_map_iff. exists d. split.
  - unfold key_eqb in Hsnk. apply andb_true_iff in Hsnk. destruct Hsnk as [K1 K2].
    apply str_eqb_eq in K2. destruct (dsnk d) as [kk ll]. cbn in *. destruct kk; try discriminate.
    subst. reflexivity.
  - apply filter_In. split; [exact Hdin|]. unfold key_eqb. subst k. destruct (dsrc d) as [kk ll].
    cbn in *. destruct kk; try discriminate. cbn. apply str_eqb_refl.
Qed.

(* marking keeps the bundle *)
Lemma Bundle_Mk_Cl (l : str) (todo : list str) (s s' : st) :
  Mk s s' -> Cl s s' -> Bundle l todo s -> Bundle l todo s'.
Proof.
  intros M C (Hu & Hsp & HK & HG). pose proof M as ((Nn & Dd & Hh) & Ll & Ss & Ff).
  assert (Hu' : unique_labels s') by (unfold unique_labels; rewrite Ll; exact Hu).
  assert (Hdet : forall k, is_detached k s' = is_detached k s).
  { intros k. unfold is_detached, find_node. rewrite Nn. reflexivity. }
  assert (Hinp : forall r k, In k (file_inputs_of_step r s') -> ~ not_succ s' r ->
                             input_ok k s = true -> input_ok k s' = true).
  { intros r k Hk Hns Hok. unfold input_ok in *. rewrite Hdet.
    apply andb_true_iff in Hok. destruct Hok as [Ha Hb]. rewrite Ha. cbn [andb].
    destruct (Ff (snd k)) as [E|[B O]]; [rewrite E; exact Hb|].
    exfalso. apply Hns. destruct (C (snd k) B O) as [Hc _]. apply Hc.
    rewrite <- (Mk_consumers s s' (snd k) M). apply consumer_of_input. exact Hk. }
  assert (Hout : forall r f, In f (file_sinks_of_step r s) -> ~ not_succ s' r ->
                             output_ok f s = true -> output_ok f s' = true).
  { intros r f Hf Hns Hok. unfold output_ok in *. rewrite Hdet.
    destruct (is_detached (KFile, f) s) eqn:Edf; [reflexivity|]. cbn [orb] in *.
    destruct (Ff f) as [E|[B O]]; [rewrite E; exact Hok|].
    exfalso. apply Hns. destruct (C f B O) as [_ Hp]. apply (Hp Edf). exact Hf. }
  split; [exact Hu'|]. split; [exact (single_producer_Mk _ _ M Hsp)|]. split.
  - intros r' Hr' Hs' Hd' Hne.
    assert (Hst' : sstate_of (sl r') s' = Some SSucceeded).
    { unfold sstate_of. rewrite (find_step_in s' r' Hu' Hr'). rewrite Hs'. reflexivity. }
    assert (Hst : sstate_of (sl r') s = Some SSucceeded).
    { destruct (Ss (sl r')) as [E|[E _]]; rewrite Hst' in E; [symmetry; exact E|discriminate]. }
    unfold sstate_of in Hst. destruct (find_step (sl r') s) as [r|] eqn:Ef; [|discriminate].
    injection Hst as Hsr. unfold find_step in Ef. apply find_some in Ef. destruct Ef as [Hin Hlab].
    apply str_eqb_eq in Hlab. rewrite Hdet in Hd'. rewrite <- Hlab in Hd', Hne.
    destruct (HK r Hin Hsr Hd' Hne) as (Hha & Hi & Ho). rewrite Hlab in Hha, Hi, Ho.
    assert (Hns : ~ not_succ s' (sl r')) by (intros Hn; apply Hn; exact Hst').
    split; [|split].
    + unfold has_hash in *. rewrite Hh. exact Hha.
    + intros k Hk. apply (Hinp (sl r') k Hk Hns). apply Hi.
      unfold file_inputs_of_step, sources_of in *. rewrite Dd in Hk. exact Hk.
    + intros f Hf. rewrite (Mk_outputs s s' (sl r') M) in Hf. exact (Hout (sl r') f Hf Hns (Ho f Hf)).
  - destruct (sstate_of l s') as [[]|] eqn:El; try (left; unfold not_succ; rewrite El; discriminate).
    (* l is SUCCEEDED after: it was before *)
    assert (Hns : ~ not_succ s' l) by (intros Hn; apply Hn; exact El).
    destruct HG as [Hn|[Hi Ho]].
    { exfalso. apply Hns. exact (Mk_not_succ s s' l M Hn). }
    right. split.
    + intros k Hk. apply (Hinp l k Hk Hns). apply Hi.
      unfold file_inputs_of_step, sources_of in *. rewrite Dd in Hk. exact Hk.
    + intros f Hf. rewrite (Mk_outputs s s' l M) in Hf. destruct (Ho f Hf) as [Hok|Ht]; [|right; exact Ht].
      left. exact (Hout l f Hf Hns Hok).
Qed.

(* OUTDATED -> BUILT of one file *)
Lemma set_built (f : str) (s s1 : st) :
  set_fstate f FBuilt s = Ok s1 ->
  same_graph s s1 /\ steps s1 = steps s /\
  (forall f', f' <> f -> fstate_of f' s1 = fstate_of f' s) /\
  (fstate_of f s1 = Some FBuilt \/ fstate_of f s1 = fstate_of f s) /\
  (fstate_of f s <> None -> fstate_of f s1 = Some FBuilt).
Proof.
  unfold set_fstate, set_fstate_hash. destruct (find_file f s) as [r|] eqn:Ef.
  - intros H. cbv zeta in H.
    repeat match type of H with (if ?c then _ else _) = _ => destruct c; try discriminate end.
    injection H as <-.
    match goal with |- context [upd_file f ?g0 s] => set (g := g0) end.
    assert (Hg : forall r0, fl (g r0) = fl r0) by reflexivity.
    split; [repeat split|]. split; [reflexivity|]. split.
    + intros f' Hne. rewrite (fstate_of_upd_file f f' g s Hg). apply str_eqb_false in Hne.
      rewrite Hne. reflexivity.
    + assert (E : fstate_of f (upd_file f g s) = Some FBuilt).
      { rewrite (fstate_of_upd_file f f g s Hg), str_eqb_refl, Ef. reflexivity. }
      split; [left; exact E|intros _; exact E].
  - intros H. injection H as <-. split; [repeat split|]. split; [reflexivity|]. split; [auto|].
    split; [right; reflexivity|]. intros Hn. exfalso. apply Hn. unfold fstate_of. rewrite Ef. reflexivity.
Qed.

Lemma ok_states_monotone (s s1 : st) (f : str) :
  same_graph s s1 ->
  (forall f', f' <> f -> fstate_of f' s1 = fstate_of f' s) ->
  (fstate_of f s1 = Some FBuilt \/ fstate_of f s1 = fstate_of f s) ->
  (forall k, input_ok k s = true -> input_ok k s1 = true) /\
  (forall g, output_ok g s = true -> output_ok g s1 = true).
Proof.
  intros (Nn & _ & _) Oth Self.
  assert (Hdet : forall k, is_detached k s1 = is_detached k s).
  { intros k. unfold is_detached, find_node. rewrite Nn. reflexivity. }
  split.
  - intros k Hok. unfold input_ok in *. rewrite Hdet. apply andb_true_iff in Hok.
    destruct Hok as [Ha Hb]. rewrite Ha. cbn [andb]. destruct (str_eqb (snd k) f) eqn:E.
    + apply str_eqb_eq in E. rewrite E in *. destruct Self as [B|Same]; [rewrite B; reflexivity|].
      rewrite Same. exact Hb.
    + apply str_eqb_false in E. rewrite (Oth _ E). exact Hb.
  - intros g Hok. unfold output_ok in *. rewrite Hdet. destruct (is_detached (KFile, g) s); [reflexivity|].
    cbn [orb] in *. destruct (str_eqb g f) eqn:E.
    + apply str_eqb_eq in E. subst g. destruct Self as [B|Same]; [rewrite B; reflexivity|].
      rewrite Same. exact Hok.
    + apply str_eqb_false in E. rewrite (Oth _ E). exact Hok.
Qed.

(* one product turned BUILT: the bundle moves the file from todo to done *)
Lemma Bundle_set_built (l f : str) (todo : list str) (s s1 : st) :
  set_fstate f FBuilt s = Ok s1 -> fstate_of f s <> None ->
  Bundle l (f :: todo) s -> Bundle l todo s1.
Proof.
  intros H Hex (Hu & Hsp & HK & HG).
  destruct (set_built f s s1 H) as (G & St & Oth & Self & Built).
  destruct (ok_states_monotone s s1 f G Oth Self) as [Mi Mo].
  pose proof G as (Nn & Dd & Hh).
  assert (Hdet : forall k, is_detached k s1 = is_detached k s).
  { intros k. unfold is_detached, find_node. rewrite Nn. reflexivity. }
  assert (Hst : forall x, sstate_of x s1 = sstate_of x s).
  { intros x. unfold sstate_of, find_step. rewrite St. reflexivity. }
  assert (Hins : forall r, file_inputs_of_step r s1 = file_inputs_of_step r s).
  { intros r. unfold file_inputs_of_step, sources_of. rewrite Dd. reflexivity. }
  assert (Hsinks : forall r, file_sinks_of_step r s1 = file_sinks_of_step r s).
  { intros r. unfold file_sinks_of_step, sinks_of. rewrite Dd. reflexivity. }
  split; [unfold unique_labels; rewrite St; exact Hu|]. split.
  { exact (single_producer_same_graph s s1 G Hsp). }
  split.
  - intros r Hr Hs Hd Hne. rewrite St in Hr. rewrite Hdet in Hd.
    destruct (HK r Hr Hs Hd Hne) as (Hha & Hi & Ho). split; [|split].
    + unfold has_hash in *. rewrite Hh. exact Hha.
    + intros k Hk. rewrite Hins in Hk. exact (Mi k (Hi k Hk)).
    + intros g Hg. rewrite Hsinks in Hg. exact (Mo g (Ho g Hg)).
  - destruct HG as [Hn|[Hi Ho]]; [left; unfold not_succ in *; rewrite Hst; exact Hn|].
    right. split.
    + intros k Hk. rewrite Hins in Hk. exact (Mi k (Hi k Hk)).
    + intros g Hg. rewrite Hsinks in Hg. destruct (Ho g Hg) as [Hok|[<-|Ht]].
      * left. exact (Mo g Hok).
      * left. unfold output_ok. rewrite (Built Hex). apply orb_true_r.
      * right. exact Ht.
Qed.

(* the loop of Step.mark_completed: every OUTDATED product becomes BUILT, its consumers PENDING *)
Lemma completion_loop (l : str) :
  forall (todo : list str) (t t' : st),
    Bundle l todo t -> (forall f, In f todo -> fstate_of f t <> None) ->
    foldM (fun s f => do s1 <- set_fstate f FBuilt s; mark_consumers_pending f s1) todo t = Ok t' ->
    Bundle l [] t'.
Proof.
  induction todo as [|f todo IH]; intros t t' HB Hex H; cbn [foldM] in H.
  - injection H as <-. exact HB.
  - unfold bind in H. destruct (set_fstate f FBuilt t) as [t1| |] eqn:E1; try discriminate.
    destruct (mark_consumers_pending f t1) as [t2| |] eqn:E2; try discriminate.
    pose proof (Bundle_set_built l f todo t t1 E1 (Hex f (or_introl eq_refl)) HB) as HB1.
    destruct HB1 as (Hu1 & Hsp1 & HK1 & HG1).
    destruct (marks_consumers f t1 t2 Hsp1 E2) as (M & C & _).
    pose proof (Bundle_Mk_Cl l todo t1 t2 M C (conj Hu1 (conj Hsp1 (conj HK1 HG1)))) as HB2.
    apply (IH t2 t' HB2); [|exact H].
    intros g Hg. destruct (set_built f t t1 E1) as (_ & _ & Oth & Self & _).
    pose proof M as (_ & _ & _ & Ff).
    assert (Hg1 : fstate_of g t1 <> None).
    { destruct (str_eqb g f) eqn:E.
      - apply str_eqb_eq in E. subst g. destruct Self as [B|Same]; [rewrite B; discriminate|].
        rewrite Same. apply Hex. left. reflexivity.
      - apply str_eqb_false in E. rewrite (Oth g E). apply Hex. right. exact Hg. }
    destruct (Ff g) as [E|[_ O]]; [rewrite E; exact Hg1|rewrite O; discriminate].
Qed.

Lemma has_hash_store (x l : str) (s : st) :
  has_hash x (store_hash l s) = true <-> (x = l \/ has_hash x s = true).
Proof.
  unfold store_hash. destruct (has_hash l s) eqn:El.
  - split; [auto|]. intros [->|H]; auto.
  - unfold has_hash at 1. cbn [shash set_shash existsb]. rewrite orb_true_iff.
    split; intros [H|H]; auto.
    + left. apply str_eqb_eq. exact H.
    + left. apply str_eqb_eq. exact H.
Qed.

(* Step.mark_completed, success branch *)
Lemma K_mark_completed_success (l : str) (wd : bool) (s s' : st) :
  unique_labels s -> single_producer s -> K_b s = true ->
  (forall k, In k (file_inputs_of_step l s) -> input_ok k s = true) ->
  (forall f, In f (file_sinks_of_step l s) ->
             output_ok f s = true \/ In f (file_products_in l is_outdated s)) ->
  mark_completed l true wd s = Ok s' -> K_b s' = true.
Proof.
  intros Hu Hsp HK Hin Hout H. unfold mark_completed in H.
  destruct (negb (is_some (find_step l s))) eqn:Efs; [discriminate|].
  unfold bind in H. destruct (set_sstate l SSucceeded false s) as [s1| |] eqn:E1; try discriminate.
  (* s1 = s with the row of l SUCCEEDED *)
  assert (Hs1 : exists g, (forall r, sl (g r) = sl r) /\ s1 = upd_step l g s).
  { unfold set_sstate in E1. destruct (find_step l s) as [r|]; [|discriminate Efs].
    cbn [andb negb] in E1. cbv zeta in E1. injection E1 as <-. eexists. split; [|reflexivity]. reflexivity. }
  destruct Hs1 as (g & Hg & ->).
  set (s1 := upd_step l g s) in *.
  set (todo := file_products_in l is_outdated s1) in *.
  assert (HB1 : Bundle l todo s1).
  { split; [unfold unique_labels, s1; rewrite (map_sl_upd_step l g s Hg); exact Hu|].
    split; [apply (single_producer_same_graph s s1); [repeat split|exact Hsp]|]. split.
    - intros r' Hr' Hs' Hd' Hne. unfold s1, upd_step in Hr'. cbn [steps set_steps] in Hr'.
      apply in_map_iff in Hr'. destruct Hr' as (r & Hr & Hin').
      destruct (str_eqb (sl r) l) eqn:E.
      + exfalso. apply Hne. rewrite <- Hr, Hg. apply str_eqb_eq. exact E.
      + subst r'. apply K_b_KexP in HK. destruct (HK r Hin' Hs' Hd') as (A & B & C).
        split; [exact A|]. split; [|exact C]. intros k Hk. destruct (B k Hk) as [Hok|[]]. exact Hok.
    - right. split; [exact Hin|]. intros f Hf. exact (Hout f Hf). }
  match type of H with match ?t with _ => _ end = _ => destruct t as [t'| |] eqn:E2; try discriminate end.
  injection H as <-.
  assert (Hex : forall f, In f todo -> fstate_of f s1 <> None).
  { intros f Hf. unfold todo, file_products_in in Hf. apply in_map_iff in Hf.
    destruct Hf as (k & <- & Hk). apply filter_In in Hk. destruct Hk as [_ Hk].
    apply andb_true_iff in Hk. destruct Hk as [_ Hk]. destruct (fstate_of (snd k) s1); [discriminate|discriminate]. }
  destruct (completion_loop l todo s1 t' HB1 Hex E2) as (Hu' & Hsp' & HK' & HG').
  (* the hash is stored *)
  unfold K_b. rewrite forallb_forall. intros r Hr. unfold K_step_b.
  destruct (sstate_eqb (sst r) SSucceeded) eqn:Es; [|reflexivity]. apply sstate_eqb_succ in Es.
  assert (Hdet : is_detached (KStep, sl r) (store_hash l t') = is_detached (KStep, sl r) t').
  { unfold store_hash. destruct (has_hash l t'); reflexivity. }
  rewrite Hdet.
  destruct (is_detached (KStep, sl r) t') eqn:Ed; [reflexivity|]. cbn [negb orb].
  assert (Hr' : In r (steps t')).
  { unfold store_hash in Hr. destruct (has_hash l t'); exact Hr. }
  assert (Hfiles : forall k, input_ok k (store_hash l t') = input_ok k t').
  { intros k. unfold store_hash. destruct (has_hash l t'); reflexivity. }
  assert (Houts : forall f, output_ok f (store_hash l t') = output_ok f t').
  { intros f. unfold store_hash. destruct (has_hash l t'); reflexivity. }
  assert (Hi_eq : file_inputs_of_step (sl r) (store_hash l t') = file_inputs_of_step (sl r) t').
  { unfold store_hash. destruct (has_hash l t'); reflexivity. }
  assert (Ho_eq : file_sinks_of_step (sl r) (store_hash l t') = file_sinks_of_step (sl r) t').
  { unfold store_hash. destruct (has_hash l t'); reflexivity. }
  rewrite Hi_eq, Ho_eq.
  destruct (str_eqb (sl r) l) eqn:El.
  - apply str_eqb_eq in El.
    assert (Hh : has_hash (sl r) (store_hash l t') = true) by (apply has_hash_store; left; exact El).
    rewrite Hh. cbn [andb]. destruct HG' as [Hn|[Hi Ho]].
    + exfalso. apply Hn. unfold sstate_of. rewrite <- El. rewrite (find_step_in t' r Hu' Hr'). rewrite Es. reflexivity.
    + rewrite El. apply andb_true_iff. split; rewrite forallb_forall.
      * intros k Hk. rewrite Hfiles. exact (Hi k Hk).
      * intros f Hf. rewrite Houts. destruct (Ho f Hf) as [Hok|[]]. exact Hok.
  - apply str_eqb_false in El. destruct (HK' r Hr' Es Ed El) as (A & B & C).
    assert (Hh : has_hash (sl r) (store_hash l t') = true) by (apply has_hash_store; right; exact A).
    rewrite Hh. cbn [andb]. apply andb_true_iff. split; rewrite forallb_forall.
    + intros k Hk. rewrite Hfiles. exact (B k Hk).
    + intros f Hf. rewrite Houts. exact (C f Hf).
Qed.
