(* C08: either order for a step definition WITH AN INPUT versus a static declaration. *)
From Coq Require Import List NArith Bool Lia String.
From SV Require Import lib.Bytes lib.Tmpl gen.GenClaims model.Claims proofs.ClaimsProofs.
Import ListNotations.
Open Scope N_scope.
Arguments gkey : simpl never.

Definition define_inp1 (c : creator) (lbl p : str) : req := RqDefine c lbl [p] [] [].
Definition static1 (c : creator) (q : str) : req := RqStatic c [q].

Section Inputs.
Variable gm : str -> str -> bool.
Variable ow gr : bool.

(* side condition of the proved part: neither path lies under a static tree *)
Definition no_owner (st : state) (p : str) : bool :=
  match owners ow st p with [] => true | _ => false end.

Lemma no_owner_find st p : no_owner st p = true -> find_owner ow st p = Ok None.
Proof. unfold no_owner, find_owner. destruct (owners ow st p); [reflexivity|discriminate]. Qed.

(* declare_static_files of ONE path that no tree owns, by a step or the root, in closed form *)
Definition static1_sem (c' : creator) (q : str) (s : state) : res state :=
  match lookup q (claims s) with
  | Some cl =>
      if role_eqb (c_role cl) RStatic && creator_eqb (c_by cl) c' then Ok s
      else match decl_of_node RStatic c' with
           | Err m => Err m
           | Ok d => Err (claim_collision q cl d)
           end
  | None =>
      if is_prefix stepup_prefix q then Err (MStepupFile q)
      else match bad_name q with
           | Some m => Err m
           | None => Ok (set_claim s q (mkClaim RStatic c'))
           end
  end.

Lemma static1_spec c' q s :
  (forall t, c' <> CTree t) -> find_owner ow s q = Ok None ->
  declare_static_files ow c' s [q] = static1_sem c' q s.
Proof.
  intros Hc Ho. unfold declare_static_files, static1_sem. cbn [sort_uniq fold_right insert_uniq static_checks].
  unfold static_check. destruct c' as [|l|t]; [| |exfalso; eapply Hc; eauto]; rewrite Ho; cbn [bind];
    unfold check_decl; destruct (lookup q (claims s)) as [cl|] eqn:El; cbn [bind].
  - destruct (role_eqb (c_role cl) RStatic && creator_eqb (c_by cl) CRoot); cbn [bind fold_res fst snd]; [reflexivity|].
    destruct (decl_of_node RStatic CRoot); reflexivity.
  - cbn [fold_res fst snd]. unfold declare_file. cbn [role_eqb andb]. rewrite Ho. cbn [bind]. rewrite El.
    destruct (is_prefix stepup_prefix q); [reflexivity|]. destruct (bad_name q); reflexivity.
  - destruct (role_eqb (c_role cl) RStatic && creator_eqb (c_by cl) (CStep l)); cbn [bind fold_res fst snd]; [reflexivity|].
    destruct (decl_of_node RStatic (CStep l)); reflexivity.
  - cbn [fold_res fst snd]. unfold declare_file. cbn [role_eqb andb]. rewrite Ho. cbn [bind]. rewrite El.
    destruct (is_prefix stepup_prefix q); [reflexivity|]. destruct (bad_name q); reflexivity.
Qed.

Definition add_step (s : state) (lbl : str) (c : creator) : state :=
  mkState (claims s) (loose s) (trees s) ((lbl, c) :: steps s) (globs s) (sinks s).

(* the checks of define_step that only read the table of steps *)
Definition define_pre (c : creator) (lbl : str) (p : str) (s : state) : res unit :=
  bind (require_step s c) (fun _ =>
  if creator_eqb c CRoot && existsb (fun sc => creator_eqb (snd sc) CRoot) (steps s) then Err MBoot else
  bind (dir_inputs [p]) (fun _ =>
  if creator_eqb c (CStep lbl) then Err (MSelfDefine lbl) else
  if (match c with CStep l => is_ancestor (List.length (steps s)) (steps s) l lbl | _ => false end)
  then Err (MDefineCreator (creator_label c) lbl) else
  match lookup lbl (steps s) with
  | None => Ok tt
  | Some c0 =>
      match phrase_of c0, phrase_of c with
      | Ok a, Ok b => let (c1, c2) := sort2_str a b in Err (MDupStep lbl c1 c2)
      | Err m, _ => Err m
      | _, Err m => Err m
      end
  end)).

Lemma define_inp1_spec c lbl p s :
  define_step gm ow c lbl [p] [] [] s =
  bind (define_pre c lbl p s) (fun _ => supply ow lbl (add_step s lbl c) p).
Proof.
  unfold define_step, define_pre. cbn [sort_uniq fold_right insert_uniq app].
  destruct (require_step s c); cbn [bind]; [|reflexivity].
  destruct (creator_eqb c CRoot && _); [reflexivity|].
  destruct (dir_inputs [p]); cbn [bind]; [|reflexivity].
  destruct (creator_eqb c (CStep lbl)); [reflexivity|].
  match goal with |- (if ?b then _ else _) = _ => destruct b; [reflexivity|] end.
  rewrite glob_check_nil. cbn [bind].
  destruct (lookup lbl (steps s)) as [c0|]; cbn [bind].
  - destruct (phrase_of c0) as [x|]; [destruct (phrase_of c) as [y|]|]; cbn [bind]; try reflexivity.
    destruct (sort2_str x y). reflexivity.
  - cbn [check_all bind overlap_check find_first fold_res]. fold (add_step s lbl c).
    destruct (supply ow lbl (add_step s lbl c) p); reflexivity.
Qed.

Lemma define_pre_steps c lbl p s s' : steps s' = steps s -> define_pre c lbl p s' = define_pre c lbl p s.
Proof. intros H. unfold define_pre, require_step, step_exists. now rewrite H. Qed.

Lemma mem_str_remove p q l : str_eqb p q = false -> mem_str p (remove_str q l) = mem_str p l.
Proof.
  intros H. unfold remove_str. induction l as [|x l IH]; cbn [filter mem_str]; [reflexivity|].
  destruct (str_eqb q x) eqn:E; cbn [negb mem_str].
  - apply str_eqb_eq in E. subst x. now rewrite H.
  - now rewrite IH.
Qed.

Lemma require_step_add s lbl c c' : require_step s c' = Ok tt -> require_step (add_step s lbl c) c' = Ok tt.
Proof.
  unfold require_step, step_exists, add_step. destruct c' as [|l|t]; cbn [steps lookup]; auto.
  destruct (str_eqb l lbl); auto.
Qed.

(* _resolve_supply_file of a path that no tree owns, in closed form *)
Definition supply_sem (lbl : str) (s : state) (p : str) : res state :=
  match lookup p (claims s) with
  | Some cl =>
      if role_eqb (c_role cl) RVolatile
      then match phrase_of (c_by cl) with
           | Ok ph => Err (MVolInput p ph (phrase_step lbl))
           | Err m => Err m
           end
      else Ok (add_sink s p lbl)
  | None =>
      match bad_name p with
      | Some m => Err m
      | None => Ok (add_sink (if mem_str p (loose s) then s
                              else mkState (claims s) (p :: loose s) (trees s) (steps s) (globs s) (sinks s)) p lbl)
      end
  end.

Lemma supply_spec lbl s p : find_owner ow s p = Ok None -> supply ow lbl s p = supply_sem lbl s p.
Proof.
  intros Ho. unfold supply, supply_sem. destruct (lookup p (claims s)); [reflexivity|].
  rewrite Ho. cbn [bind]. destruct (bad_name p); reflexivity.
Qed.

Lemma static1_sem_frame c' q s s' : static1_sem c' q s = Ok s' -> steps s' = steps s /\ trees s' = trees s.
Proof.
  unfold static1_sem. intros H. destruct (lookup q (claims s)) as [cl|].
  - destruct (role_eqb (c_role cl) RStatic && creator_eqb (c_by cl) c'); [inversion H; auto|].
    destruct (decl_of_node RStatic c'); discriminate.
  - destruct (is_prefix stepup_prefix q); [discriminate|]. destruct (bad_name q); [discriminate|].
    inversion H. auto.
Qed.

Lemma supply_sem_frame lbl s p s' : supply_sem lbl s p = Ok s' -> steps s' = steps s /\ trees s' = trees s.
Proof.
  unfold supply_sem. intros H. destruct (lookup p (claims s)) as [cl|].
  - destruct (role_eqb (c_role cl) RVolatile); [destruct (phrase_of (c_by cl)); discriminate|]. inversion H. auto.
  - destruct (bad_name p); [discriminate|]. inversion H. destruct (mem_str p (loose s)); auto.
Qed.

Lemma require_step_cons s s' lbl c c' :
  steps s' = (lbl, c) :: steps s -> require_step s c' = Ok tt -> require_step s' c' = Ok tt.
Proof.
  unfold require_step, step_exists. intros ->. destruct c' as [|l|t]; cbn [lookup]; auto.
  destruct (str_eqb l lbl); auto.
Qed.

(* Either order, a step definition with ONE INPUT versus ONE static file, any creators, any two
   paths (the same path: the input is adopted by / finds the static declaration), any `ow gr`,
   from ANY state in which no static tree owns either path: each acceptable alone => accepted in
   both orders with the SAME final state. *)
Theorem define_input_static_commute st c lbl p c' q :
  no_owner st p = true -> no_owner st q = true ->
  accepted (step gm ow gr st (static1 c' q)) = true ->
  accepted (step gm ow gr st (define_inp1 c lbl p)) = true ->
  both (run gm ow gr st [define_inp1 c lbl p; static1 c' q])
       (run gm ow gr st [static1 c' q; define_inp1 c lbl p]) /\
  accepted (run gm ow gr st [define_inp1 c lbl p; static1 c' q]) = true.
Proof.
  intros Hp Hq HS HD. rewrite !run2.
  unfold define_inp1, static1 in *. cbn [step] in *.
  apply no_owner_find in Hp. apply no_owner_find in Hq.
  destruct (require_step st c') as [[]|] eqn:Erq; cbn [bind] in *; [|discriminate HS].
  assert (Hc' : forall t, c' <> CTree t).
  { intros t ->. unfold require_step in Erq. cbn in Erq. discriminate. }
  rewrite (static1_spec c' q st Hc' Hq) in *.
  rewrite define_inp1_spec in *.
  destruct (define_pre c lbl p st) as [[]|] eqn:Epre; cbn [bind] in *; [|discriminate HD].
  assert (Hp1 : find_owner ow (add_step st lbl c) p = Ok None) by exact Hp.
  rewrite (supply_spec _ _ _ Hp1) in *.
  destruct (static1_sem c' q st) as [ss|] eqn:ES; [|discriminate HS].
  destruct (supply_sem lbl (add_step st lbl c) p) as [sd|] eqn:ED; [|discriminate HD].
  cbn [bind].
  destruct (static1_sem_frame _ _ _ _ ES) as [Hss Hst].
  destruct (supply_sem_frame _ _ _ _ ED) as [Hds Hdt]. cbn [steps trees add_step] in Hds, Hdt.
  rewrite (require_step_cons st sd lbl c c' Hds Erq). cbn [bind].
  rewrite (static1_spec c' q sd Hc'); [|rewrite (find_owner_frame ow st sd q Hdt); exact Hq].
  rewrite define_inp1_spec, (define_pre_steps c lbl p st ss Hss), Epre. cbn [bind].
  rewrite supply_spec; [|rewrite (find_owner_frame ow st (add_step ss lbl c) p Hst); exact Hp].
  clear HS HD Hss Hst Hds Hdt Hp1 Epre Erq.
  unfold static1_sem, supply_sem in *. cbn [claims loose add_step] in *.
  destruct (lookup q (claims st)) as [clq|] eqn:Elq.
  - destruct (role_eqb (c_role clq) RStatic && creator_eqb (c_by clq) c') eqn:Eh;
      [|destruct (decl_of_node RStatic c'); discriminate ES].
    inversion ES; subst ss; clear ES.
    destruct (lookup p (claims st)) as [clp|] eqn:Elp.
    + destruct (role_eqb (c_role clp) RVolatile); [destruct (phrase_of (c_by clp)); discriminate ED|].
      inversion ED; subst sd. cbn [claims add_sink add_step]. rewrite Elq, Eh. split; reflexivity.
    + destruct (bad_name p); [discriminate ED|]. inversion ED; subst sd.
      destruct (mem_str p (loose st)); cbn [claims add_sink add_step]; rewrite Elq, Eh; split; reflexivity.
  - destruct (is_prefix stepup_prefix q); [discriminate ES|]. destruct (bad_name q); [discriminate ES|].
    inversion ES; subst ss; clear ES. cbn [claims loose set_claim lookup].
    destruct (str_eqb p q) eqn:Epq.
    + apply str_eqb_eq in Epq. subst q. rewrite Elq in ED.
      destruct (bad_name p); [discriminate ED|]. inversion ED; subst sd. cbn [c_role role_eqb].
      destruct (mem_str p (loose st)); cbn [claims add_sink add_step]; rewrite Elq;
        unfold set_claim, add_sink, remove_str; cbn [claims loose trees steps globs sinks filter];
        rewrite ?str_eqb_refl; cbn [negb both accepted]; split; reflexivity.
    + destruct (lookup p (claims st)) as [clp|] eqn:Elp.
      * destruct (role_eqb (c_role clp) RVolatile); [destruct (phrase_of (c_by clp)); discriminate ED|].
        inversion ED; subst sd. cbn [claims add_sink add_step]. rewrite Elq. split; reflexivity.
      * destruct (bad_name p); [discriminate ED|]. inversion ED; subst sd.
        rewrite (mem_str_remove p q (loose st) Epq).
        destruct (mem_str p (loose st)); cbn [claims add_sink add_step]; rewrite Elq;
          unfold set_claim, add_sink, remove_str; cbn [claims loose trees steps globs sinks filter];
          rewrite ?(str_eqb_sym q p), ?Epq; cbn [negb both accepted]; split; reflexivity.
Qed.

End Inputs.
