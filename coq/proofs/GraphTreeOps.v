(* C09: the tree-aware operations of model/GraphTree.v (register_static_tree, the _t variants of the
   declaration functions, the pre-step of delete_detached) preserve Inv, the frame GG (I4, I5c) and
   the frame TT (tree conjunct T1). *)
From Coq Require Import List NArith Bool Lia.
From SV Require Import lib.Bytes lib.Closure model.Graph model.GraphInv model.GraphTree model.GraphTreeInv
  proofs.GraphBase proofs.GraphNodes proofs.GraphInvP proofs.GraphPrims proofs.GraphFrames proofs.GraphCreate
  proofs.GraphOps proofs.GraphLife proofs.GraphSucc proofs.GraphTrans proofs.GraphTreeSim proofs.GraphNodeFrame
  proofs.GraphProofs proofs.GraphTreeT1.
Import ListNotations.
Open Scope N_scope.

(* nodes only appear *)
Definition KI (s s' : st) : Prop := incl (KL (nodes s)) (KL (nodes s')).

Lemma In_insert_str x y l : In x (insert_str y l) -> x = y \/ In x l.
Proof.
  induction l as [|z l IH]; cbn; [intros [H|[]]; auto|].
  destruct (lex_lt y z); cbn; [intros [H|[H|H]]; auto | intros [H|H]; [auto | destruct (IH H); auto]].
Qed.
Lemma In_sort_strs x l : In x (sort_strs l) -> In x l.
Proof.
  induction l as [|y l IH]; cbn; [auto|]. intros H. apply In_insert_str in H. destruct H as [H|H]; auto.
Qed.

Lemma find_owning_tree_prefix l s t : find_owning_tree l s = Ok (Some t) -> is_prefix t l = true.
Proof.
  unfold find_owning_tree. destruct (owning_trees l s) as [|t0 [|t1 r]] eqn:E; try discriminate.
  intros H; inversion H; subst t0. clear H.
  assert (Hin : In t (owning_trees l s)) by (rewrite E; left; reflexivity).
  unfold owning_trees in Hin. apply in_map_iff in Hin. destruct Hin as [n [Hn1 Hn2]].
  apply filter_In in Hn2. destruct Hn2 as [_ Hc]. rewrite !andb_true_iff in Hc. subst t. tauto.
Qed.

Lemma wpg_imp {A} (P : Prop) (r : res A) (Q : A -> Prop) :
  (P -> wpg false r Q) -> wpg false r (fun a => P -> Q a).
Proof. destruct r; cbn; auto. Qed.

Lemma add_dep_files a b dyn s s' : add_dep a b dyn s = Ok s' -> files s' = files s.
Proof.
  unfold add_dep. destruct (has_dep a b s); [discriminate|]. destruct (negb _); [discriminate|].
  intros H; inversion H. reflexivity.
Qed.
Lemma add_output_edge_files step l dyn s s' : add_output_edge step l dyn s = Ok s' -> files s' = files s.
Proof. unfold add_output_edge. destruct (would_cycle _ _ s); [discriminate|]. apply add_dep_files. Qed.
Lemma fold_add_env_files label dyn rep env s : files (fold_left (fun s e => add_env label e dyn rep s) env s) = files s.
Proof.
  revert s. induction env as [|e env IH]; intros s; cbn; [reflexivity|]. rewrite IH.
  destruct (add_env_frame label e dyn rep s) as [_ [E _]]. exact E.
Qed.

Section HH.
Context {hh : bool}.

(* ------------------------------------------------------------------------------------------ *)
(* _declare_file with the owning-tree guard                                                    *)
(* ------------------------------------------------------------------------------------------ *)
Lemma declare_file_TT c l f s :
  Inv hh s -> (fst c = KTree -> f = FUnconfirmed /\ is_prefix (snd c) l = true) ->
  wpg false (declare_file c l f s) (TT s).
Proof.
  intros HI Htree. unfold declare_file.
  assert (Hc : (f = FUnconfirmed \/ f = FPlanned \/ f = FVolatile) ->
               wpg false (create (KFile, l) (Some c) (InitFile f) s) (TT s)).
  { intros Hf. apply (@create_TT hh); [exact HI | split; [reflexivity | destruct Hf as [->|[->| ->]]; discriminate]|].
    intros t Hc _. inversion Hc; subst c. destruct (Htree eq_refl) as [-> Hp]. split; [reflexivity | exact Hp]. }
  destruct f; try exact I; apply wpg_bind; (eapply wpg_weaken; [apply Hc; auto|]); intros s1 H1; cbn [wpg]; try exact H1.
  destruct (attached_step_sinks l s1); cbn; [exact H1 | exact I].
Qed.

Lemma declare_file_t_spec c l f s :
  Inv hh s ->
  wpg false (declare_file_t c l f s)
      (fun s' => (Inv hh s' /\ NF [(KFile, l)] s s' /\ In (KFile, l) (KL (nodes s')) /\
                 creator_of (KFile, l) s' = Some c /\
                 (exists st, fstate_of l s' = Some st /\ (st = f \/ out_state st = true)) /\
                 (creator_quiet (Some c) f s -> GG s s')) /\
                 ((fst c = KTree -> f = FUnconfirmed /\ is_prefix (snd c) l = true) -> TT s s')).
Proof.
  intros HI. unfold declare_file_t.
  destruct f; try exact I; (destruct (tree_guard c l s) as [[]|t|t]; [|exact I|exact I]); cbn [bind];
    (apply wpg_conj; [apply (@declare_file_spec hh); [exact HI | intros H; discriminate H]
                     | apply wpg_imp; intros Htree; apply declare_file_TT; assumption]).
Qed.

Lemma static_declarer_prefix c l s d :
  (fst c = KTree -> is_prefix (snd c) l = true) ->
  static_declarer c l s = Ok d -> fst d = KTree -> is_prefix (snd d) l = true.
Proof.
  intros Hc. unfold static_declarer. destruct (kind_eqb (fst c) KTree) eqn:Ek.
  - intros H; inversion H; subst d. exact Hc.
  - destruct (find_owning_tree l s) as [[t|]|x|x] eqn:Eo; cbn [bind]; try discriminate.
    + destruct (okey_eqb _ _); [|discriminate]. intros H; inversion H; subst d. intros _. cbn.
      eapply find_owning_tree_prefix; exact Eo.
    + intros H; inversion H; subst d. intros E. apply kind_eqb_eq in E. congruence.
Qed.

Lemma declare_static_files_t_spec c paths s :
  Inv hh s ->
  wpg false (declare_static_files_t c paths s)
      (fun s' => Inv hh s' /\ GG s s' /\ KI s s' /\
                 ((fst c = KTree -> forall l, In l paths -> is_prefix (snd c) l = true) -> TT s s')).
Proof.
  intros HI. unfold declare_static_files_t. destruct (negb _); [exact I|].
  set (HC := fst c = KTree -> forall l, In l paths -> is_prefix (snd c) l = true).
  apply wpg_bind. eapply wpg_weaken.
  { apply (wpg_foldM false _ (fun acc : list (key * str) => HC ->
             forall dl, In dl acc -> fst (fst dl) = KTree -> is_prefix (snd (fst dl)) (snd dl) = true)).
    - intros acc l Hl Hacc0. apply wpg_bind. apply wpg_of_ok. intros d Hd. apply wpg_bind.
      destruct (check_declaration_node_t d l 61 s) as [[]|x|x]; try exact I; cbn [wpg]; [|exact Hacc0].
      intros Hc. pose proof (Hacc0 Hc) as Hacc.
      intros dl Hin. apply in_app_or in Hin. destruct Hin as [Hin|[<-|[]]]; [apply Hacc; exact Hin|].
      cbn [fst snd]. eapply static_declarer_prefix; [|exact Hd]. intros E. apply Hc; assumption.
    - intros _ dl []. }
  intros todo Htodo. cbn beta in Htodo.
  apply (wpg_foldM false _ (fun s' => Inv hh s' /\ GG s s' /\ KI s s' /\ (HC -> TT s s'))).
  - intros s1 dl Hdl [I1 [G1 [K1 T1']]]. eapply wpg_weaken.
    + apply declare_file_t_spec; exact I1.
    + intros s2 [[I2 [N2 [_ [_ [_ G2]]]]] T2]. split; [exact I2|]. split; [|split].
      * eapply GG_trans; [exact G1|]. apply G2. intros x _ Hx. congruence.
      * eapply incl_tran; [exact K1 | apply (proj1 N2)].
      * intros Hc. eapply TT_trans; [apply T1'; exact Hc|]. apply T2.
        intros E. split; [reflexivity | apply (Htodo Hc dl Hdl E)].
  - split; [exact HI|]. split; [apply GG_refl|]. split; [apply incl_refl | intros _; apply TT_refl].
Qed.

(* ------------------------------------------------------------------------------------------ *)
(* _resolve_supply_file, _supply_files                                                         *)
(* ------------------------------------------------------------------------------------------ *)
Lemma resolve_supply_file_TT step l rn s :
  Inv hh s -> wpg false (resolve_supply_file step l rn s) (fun r => TT s (fst r)).
Proof.
  intros HI. unfold resolve_supply_file. apply wpg_bind.
  assert (Hc : wpg false (create (KFile, l) None (InitFile FUndeclared) s) (TT s)).
  { apply (@create_TT hh); [exact HI | split; reflexivity | intros t H; discriminate H]. }
  assert (Hfin : forall s1, TT s s1 ->
            wpg false (let isnew := negb (has_dep (KFile, l) (KStep, step) s1) in
                       if negb isnew && rn then Usage 205 else Ok (s1, isnew)) (fun r => TT s (fst r))).
  { intros s1 H1. cbn zeta. destruct (negb (negb (has_dep (KFile, l) (KStep, step) s1)) && rn); cbn; auto. }
  destruct (find_node (KFile, l) s) as [n|].
  2:{ eapply wpg_weaken; [exact Hc | exact Hfin]. }
  destruct (ncre n); [|eapply wpg_weaken; [exact Hc | exact Hfin]].
  destruct (fstate_of l s) as [[]|]; try exact I; cbn [wpg]; apply Hfin; apply TT_refl.
Qed.

Lemma resolve_supply_file_t_spec step l rn s :
  Inv hh s ->
  wpg false (resolve_supply_file_t step l rn s)
      (fun r => Inv hh (fst r) /\ KI s (fst r) /\ In (KFile, l) (KL (nodes (fst r))) /\ GG s (fst r) /\ TT s (fst r)).
Proof.
  intros HI.
  assert (Hbase : wpg false (resolve_supply_file step l rn s)
            (fun r => Inv hh (fst r) /\ KI s (fst r) /\ In (KFile, l) (KL (nodes (fst r))) /\ GG s (fst r) /\ TT s (fst r))).
  { eapply wpg_weaken; [apply wpg_conj; [apply (@resolve_supply_file_spec hh); exact HI | apply resolve_supply_file_TT; exact HI]|].
    intros r [[H1 [H2 [H3 H4]]] H5]. split; [exact H1|]. split; [apply (proj1 H2)|]. split; [assumption|]. split; assumption. }
  unfold resolve_supply_file_t. destruct (is_detached (KFile, l) s) eqn:Hd; [|exact Hbase].
  apply wpg_bind. destruct (find_owning_tree l s) as [[t|]|x|x] eqn:Eo; try exact I; cbn [wpg]; [|exact Hbase].
  apply wpg_bind. eapply wpg_weaken.
  { apply wpg_conj.
    - apply (@create_spec hh); [exact HI | split; [reflexivity | discriminate] | intros H; discriminate H].
    - apply (@create_TT hh); [exact HI | split; [reflexivity | discriminate]|].
      intros t0 Ht _. inversion Ht; subst t0. split; [reflexivity|]. cbn. eapply find_owning_tree_prefix; exact Eo. }
  intros s1 [[H1 [H2 [H3 [_ [_ [_ [H7 _]]]]]]] HT]. cbn zeta.
  destruct (negb (negb (has_dep (KFile, l) (KStep, step) s1)) && rn); cbn; [exact I|].
  split; [exact H1|]. split; [apply (proj1 H2)|]. split; [exact H3|]. split; [|exact HT].
  apply H7. intros f0 _ x Hx. discriminate.
Qed.

Lemma supply_files_t_spec step paths rn dyn s :
  Inv hh s -> In (KStep, step) (KL (nodes s)) ->
  wpg false (supply_files_t step paths rn dyn s) (fun s' => Inv hh s' /\ KI s s' /\ GG s s' /\ TT s s').
Proof.
  intros HI Hstep. unfold supply_files_t. apply wpg_bind.
  eapply wpg_weaken.
  { apply (wpg_foldM false _ (fun acc : st * list str =>
             Inv hh (fst acc) /\ KI s (fst acc) /\ (forall l, In l (snd acc) -> In (KFile, l) (KL (nodes (fst acc)))) /\
             GG s (fst acc) /\ TT s (fst acc))).
    - intros acc l _ [H1 [H2 [H3 [H4 H5]]]]. apply wpg_bind.
      eapply wpg_weaken; [apply resolve_supply_file_t_spec; exact H1|].
      intros r [R1 [R2 [R3 [R4 R5]]]]. cbn [wpg fst snd]. split; [exact R1|]. split; [eapply incl_tran; eassumption|].
      split; [|split; [eapply GG_trans; eassumption | eapply TT_trans; eassumption]].
      intros l' Hl'. destruct (snd r).
      + apply in_app_or in Hl'. destruct Hl' as [Hl'|[<-|[]]]; [|exact R3]. apply R2. apply H3. exact Hl'.
      + apply R2. apply H3. exact Hl'.
    - cbn. split; [exact HI|]. split; [apply incl_refl |]. split; [intros l []|]. split; [apply GG_refl | apply TT_refl]. }
  intros [s1 news] [H1 [H2 [H3 [H4g H5]]]]. cbn [fst snd] in *.
  assert (Hstep1 : In (KStep, step) (KL (nodes s1))) by (apply H2; exact Hstep).
  assert (Hadd : (forall l, In l news -> ~ path (EL (deps s1)) (KStep, step) (KFile, l)) ->
            wpg false (foldM (fun s l => add_dep (KFile, l) (KStep, step) dyn s) news s1)
                (fun s' => Inv hh s' /\ KI s s' /\ GG s s' /\ TT s s')).
  { intros Hnp. eapply wpg_weaken.
    - apply (wpg_foldM_rem false _ (fun rest s' =>
               (Inv hh s' /\ G3 s1 s') /\ (nodes s' = nodes s1 /\ files s' = files s1) /\ incl rest news /\
               (forall l, In l rest -> ~ path (EL (deps s')) (KStep, step) (KFile, l)))).
      + intros s' l rest [[I1 I1g] [[I2 I2f] [I3 I4]]]. eapply wpg_weaken.
        * apply (@add_dep_spec hh); [exact I1 | rewrite I2; apply H3; apply I3; left; reflexivity
                              | rewrite I2; exact Hstep1 | apply I4; left; reflexivity
                              | intros sl f Ha; discriminate | reflexivity].
        * intros s'' [J1 J2]. split; [split; [exact J1 | subst s''; eapply G3_trans; [exact I1g | apply set_deps_G3]]|].
          subst s''. cbn [nodes files deps set_deps].
          split; [split; [exact I2 | exact I2f]|]. split; [intros x Hx; apply I3; right; exact Hx|].
          intros l' Hl' Hp. apply path_app_edge in Hp. destruct Hp as [Hp|[Hp _]].
          -- apply (I4 l'); [right; exact Hl' | exact Hp].
          -- apply (I4 l); [left; reflexivity | exact Hp].
      + split; [split; [exact H1 | apply G3_refl]|]. split; [split; reflexivity|]. split; [apply incl_refl | exact Hnp].
    - intros s' [[J1 J1g] [[J2 J2f] _]]. split; [exact J1|]. split; [unfold KI; rewrite J2; exact H2|].
      split; [eapply GG_trans; [exact H4g | apply G3_GG; exact J1g]|].
      eapply TT_trans; [exact H5 | apply TT_nodes_files; assumption]. }
  destruct news as [|l0 news'].
  - apply Hadd. intros l [].
  - destruct (would_cycle (KStep, step) (map (fun l => (KFile, l)) (l0 :: news')) s1) eqn:Ewc; [exact I|].
    apply Hadd. intros l Hl. eapply would_cycle_false; [exact Ewc|]. apply in_map. exact Hl.
Qed.

(* ------------------------------------------------------------------------------------------ *)
(* folds of declarations                                                                       *)
(* ------------------------------------------------------------------------------------------ *)
Lemma declare_fold_t_spec c f (after : str -> st -> res st) ls s :
  fst c <> KTree ->
  (forall l s1, Inv hh s1 -> In c (KL (nodes s1)) -> In (KFile, l) (KL (nodes s1)) ->
                creator_of (KFile, l) s1 = Some c ->
                (exists st, fstate_of l s1 = Some st /\ (st = f \/ out_state st = true)) ->
                wpg false (after l s1) (fun s2 => Inv hh s2 /\ nodes s2 = nodes s1 /\ GG s1 s2 /\ files s2 = files s1)) ->
  Inv hh s -> In c (KL (nodes s)) ->
  wpg false (foldM (fun s l => do s' <- declare_file_t c l f s; after l s') ls s)
      (fun s' => Inv hh s' /\ KI s s' /\ (creator_quiet (Some c) f s -> GG s s') /\ TT s s').
Proof.
  intros Hct Hafter HI Hc.
  apply (wpg_foldM false _ (fun s' => Inv hh s' /\ KI s s' /\ (creator_quiet (Some c) f s -> GG s s') /\ TT s s')).
  - intros s' l _ [I1 [I2 [I1g I1t]]].
    assert (Hc' : In c (KL (nodes s'))) by (apply I2; exact Hc).
    apply wpg_bind. eapply wpg_weaken; [apply declare_file_t_spec; exact I1|].
    intros s1 [[J1 [J2 [J3 [J4 [J5 J6]]]]] J7]. specialize (J7 (fun E => False_ind _ (Hct E))). eapply wpg_weaken.
    + apply Hafter; [exact J1 | apply (proj1 J2); exact Hc' | exact J3 | exact J4 | exact J5].
    + intros s2 [K1 [K2 [K3 K4]]]. split; [exact K1|]. split; [|split].
      * unfold KI. rewrite K2. eapply incl_tran; [exact I2 | apply (proj1 J2)].
      * intros Hq. pose proof (I1g Hq) as G1.
        eapply GG_trans; [exact G1|]. eapply GG_trans; [|exact K3]. apply J6. eapply creator_quiet_GG; eassumption.
      * eapply TT_trans; [exact I1t|]. eapply TT_trans; [exact J7 | apply TT_nodes_files; assumption].
  - split; [exact HI|]. split; [apply incl_refl|]. split; [intros _; apply GG_refl | apply TT_refl].
Qed.

(* ------------------------------------------------------------------------------------------ *)
(* define_step                                                                                 *)
(* ------------------------------------------------------------------------------------------ *)
Lemma define_step_new_t_spec creator label inp env out vol nd s :
  Inv hh s ->
  wpg false (define_step_new_t creator label inp env out vol nd s) (fun s' => Inv hh s' /\ GG s s' /\ TT s s').
Proof.
  intros HI. unfold define_step_new_t. set (k := (KStep, label)).
  apply wpg_bind. eapply wpg_weaken; [apply (@phrase_fold_spec hh); exact HI|]. intros u1 _.
  apply wpg_bind. eapply wpg_weaken; [apply (@phrase_fold_spec hh); exact HI|]. intros u2 _.
  destruct (existsb (fun l => mem_str l vol) out) eqn:Eov; [exact I|].
  apply wpg_bind. eapply wpg_weaken.
  { apply wpg_conj.
    - apply (@create_spec hh); [exact HI | reflexivity | intros Hs; discriminate Hs].
    - apply (@create_TT hh); [exact HI | reflexivity | intros t0 _ Hk; discriminate Hk]. }
  intros s1 [[I1 [NF1 [K1 [_ [_ [_ [G1 P1]]]]]]] T01].
  assert (G01 : GG s s1). { apply G1. intros f Hf. discriminate. }
  assert (Hp1 : sstate_of label s1 = Some SPending) by (apply (P1 nd); reflexivity).
  apply wpg_bind. eapply wpg_weaken; [apply supply_files_t_spec; [exact I1 | exact K1]|].
  intros s2 [I2 [NF2 [G12 T12]]].
  assert (K2 : In k (KL (nodes s2))) by (apply NF2; exact K1).
  destruct (@fold_add_env_inv hh label false true env s2 I2 K2) as [I3 N3].
  pose proof (fold_add_env_G3 label false true env s2) as G23.
  pose proof (fold_add_env_files label false true env s2) as F23.
  set (s3 := fold_left (fun s e => add_env label e false true s) env s2) in *.
  assert (G03 : GG s s3). { eapply GG_trans; [exact G01|]. eapply GG_trans; [exact G12 | apply G3_GG; exact G23]. }
  assert (K3 : In k (KL (nodes s3))) by (rewrite N3; exact K2).
  assert (Hq3 : forall f, creator_quiet (Some k) f s3).
  { intros f x Hx _ _. inversion Hx; subst x. eapply not_succ_GG; [|eapply GG_trans; [exact G12 | apply G3_GG; exact G23]].
    rewrite Hp1. discriminate. }
  assert (Hafter : forall f, (f = FPlanned \/ f = FVolatile) ->
             forall l s1, Inv hh s1 -> In k (KL (nodes s1)) -> In (KFile, l) (KL (nodes s1)) ->
             creator_of (KFile, l) s1 = Some k ->
             (exists st, fstate_of l s1 = Some st /\ (st = f \/ out_state st = true)) ->
             wpg false (add_output_edge label l false s1) (fun s2 => Inv hh s2 /\ nodes s2 = nodes s1 /\ GG s1 s2 /\ files s2 = files s1)).
  { intros f Hf l t H1 H2 H3 H4 [st0 [H5 H6]]. eapply wpg_weaken.
    - apply wpg_conj; [apply (@add_output_edge_spec hh); try assumption |
                       apply wpg_of_ok; intros s9 H9; exact (add_output_edge_files _ _ _ _ _ H9)].
      exists st0. split; [exact H5|]. destruct H6 as [->|H6]; [destruct Hf as [->| ->]; reflexivity | exact H6].
    - intros s9 [[A1 [A2 A3]] A4]. auto. }
  apply wpg_bind. eapply wpg_weaken.
  { apply (declare_fold_t_spec k FPlanned (fun l s => add_output_edge label l false s) out s3);
      [discriminate | apply Hafter; auto | exact I3 | exact K3]. }
  intros s4 [I4 [NF4 [G34 T34]]]. specialize (G34 (Hq3 FPlanned)).
  eapply wpg_weaken.
  { apply (declare_fold_t_spec k FVolatile (fun l s => add_output_edge label l false s) vol s4);
      [discriminate | apply Hafter; auto | exact I4 | apply NF4; exact K3]. }
  intros s5 [I5 [_ [G45 T45]]]. split; [exact I5|]. split.
  - eapply GG_trans; [exact G03|]. eapply GG_trans; [exact G34|]. apply G45.
    intros x _ _ Hv. exfalso. apply Hv. reflexivity.
  - eapply TT_trans; [exact T01|]. eapply TT_trans; [exact T12|].
    eapply TT_trans; [apply (TT_nodes_files s2 s3 N3 F23)|]. eapply TT_trans; eassumption.
Qed.

Lemma define_step_t_spec creator label inp env out vol nd s :
  Inv hh s ->
  wpg false (define_step_t creator label inp env out vol nd s) (fun s' => Inv hh s' /\ GG s s' /\ TT s s').
Proof.
  intros HI. unfold define_step_t. set (k := (KStep, label)).
  destruct (is_some (find_node creator s)) eqn:Ec; cbn [negb]; [|exact I].
  destruct (key_eqb creator root_key && root_has_step s); [exact I|].
  destruct (key_eqb creator k) eqn:Eself; [exact I|]. apply key_eqb_neq in Eself.
  destruct (mem_key creator (rec_products k s)) eqn:Ecyc; [exact I|].
  pose proof (define_step_new_t_spec creator label inp env out vol nd s HI) as Hnew.
  destruct (find_node k s) as [n|] eqn:Hn; [|exact Hnew].
  destruct (ndet n) eqn:Hdn; cbn [andb negb]; [|exact I].
  destruct (can_recycle label inp env out vol s); [|exact Hnew].
  apply wpg_bind. eapply wpg_weaken.
  { apply wpg_conj.
    - apply (@node_reattach_spec hh); [exact HI | reflexivity | intros Hs; discriminate Hs].
    - apply (@node_reattach_G3 hh); [exact HI | reflexivity]. }
  intros s1 [[I1 [NO1 _]] G01].
  assert (T01 : TT s s1).
  { apply TT_cre_files; [apply (g3_cre _ _ G01)|]. destruct NO1 as [_ [E _]]. exact E. }
  set (g := fun r : srow => mkS (sl r) (sst r) nd (sdef r) (sdc r) 0).
  destruct (@upd_step_inv hh label g s1 I1) as [I2 SO2]; [reflexivity | |].
  { intros r Hr _. pose proof (inv_sw _ I1 r Hr) as Hok. unfold sw_ok_b, g in *. cbn [sdef sst shold].
    apply andb_true_iff in Hok. destruct Hok as [Hok _]. rewrite Hok. destruct hh; reflexivity. }
  assert (G12 : G3 s1 (upd_step label g s1)). { apply upd_step_G3; [reflexivity | intros r; left; reflexivity]. }
  fold g. set (s2 := upd_step label g s1) in *.
  assert (G02 : GG s s2). { apply G3_GG. eapply G3_trans; eassumption. }
  assert (T02 : TT s s2). { eapply TT_trans; [exact T01 | apply TT_nodes_files; reflexivity]. }
  destruct (sstate_of label s2) as [st0|] eqn:Hss; [|cbn; split; [|split]; assumption].
  destruct st0; try (cbn; split; [|split]; assumption).
  eapply wpg_weaken.
  - apply wpg_conj; [apply wpg_conj; [apply wpg_conj|]|].
    + apply (@mark_step_pending_spec hh); [exact I2 | intros Hs; discriminate Hs].
    + apply (@mark_step_pending_GG hh). exact I2.
    + apply mark_step_pending_nodes.
    + apply mark_step_pending_FT.
  - intros s3 [[[[I3 _] G23] N23] F23]. split; [exact I3|]. split; [eapply GG_trans; eassumption|].
    eapply TT_trans; [exact T02|]. apply TT_ND_FT; [apply ND_nodes; exact N23 | exact F23 | apply (Inv_Rows hh); exact I3].
Qed.

(* ------------------------------------------------------------------------------------------ *)
(* amend_step                                                                                  *)
(* ------------------------------------------------------------------------------------------ *)
Lemma amend_step_t_spec label inp env out vol s :
  Inv hh s ->
  wpg false (amend_step_t label inp env out vol s)
      (fun s' => Inv hh s' /\ (sstate_of label s <> Some SSucceeded -> GG s s') /\ TT s s').
Proof.
  intros HI. unfold amend_step_t. set (k := (KStep, label)).
  destruct (is_some (find_node k s) && is_some (find_step label s)) eqn:Eg; cbn [negb]; [|exact I].
  apply andb_true_iff in Eg. destruct Eg as [Ek _]. apply is_some_true in Ek. apply find_node_KL in Ek.
  apply wpg_bind. eapply wpg_weaken; [apply supply_files_t_spec; [exact HI | exact Ek]|].
  intros s1 [I1 [NF1 [G01 T01]]].
  assert (K1 : In k (KL (nodes s1))) by (apply NF1; exact Ek).
  destruct (@fold_add_env_inv hh label true false env s1 I1 K1) as [I2 N2].
  pose proof (fold_add_env_G3 label true false env s1) as G12.
  pose proof (fold_add_env_files label true false env s1) as F12.
  set (s2 := fold_left (fun s e => add_env label e true false s) env s1) in *.
  assert (G02 : GG s s2). { eapply GG_trans; [exact G01 | apply G3_GG; exact G12]. }
  assert (K2 : In k (KL (nodes s2))) by (rewrite N2; exact K1).
  apply wpg_bind. eapply wpg_weaken; [apply (@todo_fold_spec hh false k 62 s2 out I2 []); intros l []|].
  intros out' _.
  apply wpg_bind. eapply wpg_weaken; [apply (@todo_fold_spec hh false k 63 s2 vol I2 []); intros l []|].
  intros vol' _.
  destruct (existsb (fun l => mem_str l vol') out') eqn:Eov; [exact I|].
  assert (Hafter : forall f, (f = FPlanned \/ f = FVolatile) ->
             forall l s1, Inv hh s1 -> In k (KL (nodes s1)) -> In (KFile, l) (KL (nodes s1)) ->
             creator_of (KFile, l) s1 = Some k ->
             (exists st, fstate_of l s1 = Some st /\ (st = f \/ out_state st = true)) ->
             wpg false (add_output_edge label l true s1) (fun s2 => Inv hh s2 /\ nodes s2 = nodes s1 /\ GG s1 s2 /\ files s2 = files s1)).
  { intros f Hf l t H1 H2 H3 H4 [st0 [H5 H6]]. eapply wpg_weaken.
    - apply wpg_conj; [apply (@add_output_edge_spec hh); try assumption |
                       apply wpg_of_ok; intros s9 H9; exact (add_output_edge_files _ _ _ _ _ H9)].
      exists st0. split; [exact H5|]. destruct H6 as [->|H6]; [destruct Hf as [->| ->]; reflexivity | exact H6].
    - intros s9 [[A1 [A2 A3]] A4]. auto. }
  apply wpg_bind. eapply wpg_weaken.
  { apply (declare_fold_t_spec k FPlanned (fun l s => add_output_edge label l true s) out' s2);
      [discriminate | apply Hafter; auto | exact I2 | exact K2]. }
  intros s3 [I3 [NF3 [G23 T23]]].
  eapply wpg_weaken.
  { apply (declare_fold_t_spec k FVolatile (fun l s => add_output_edge label l true s) vol' s3);
      [discriminate | apply Hafter; auto | exact I3 | apply NF3; exact K2]. }
  intros s4 [I4 [_ [G34 T34]]]. split; [exact I4|]. split.
  - intros Hns.
    assert (Hq2 : creator_quiet (Some k) FPlanned s2).
    { intros x Hx _ _. inversion Hx; subst x. eapply not_succ_GG; eassumption. }
    eapply GG_trans; [exact G02|]. eapply GG_trans; [apply G23; exact Hq2|]. apply G34.
    intros x _ _ Hv. exfalso. apply Hv. reflexivity.
  - eapply TT_trans; [exact T01|]. eapply TT_trans; [apply (TT_nodes_files s1 s2 N2 F12)|]. eapply TT_trans; eassumption.
Qed.

(* ------------------------------------------------------------------------------------------ *)
(* register_static_tree                                                                        *)
(* ------------------------------------------------------------------------------------------ *)
Lemma create_tree_spec0 p c s :
  Inv hh s ->
  wpg false (create (KTree, p) (Some c) InitTree s)
      (fun s1 => Inv hh s1 /\ NPost (KTree, p) (Some c) (cdet_of (Some c) s) s s1 /\ GG s s1).
Proof.
  intros HI. rewrite create_unfold.
  destruct (creator_ok (KTree, p) (Some c) s) as [[]|t|t] eqn:Hco; try exact I.
  cbn [bind]. apply wpg_bind. eapply wpg_weaken.
  { apply (@create_nodes_spec hh); [exact HI | cbn; discriminate | apply creator_ok_new_node; exact Hco | intros Hs; discriminate Hs]. }
  intros s1 HP. cbn [wpg]. split; [eapply tree_row_inv; eassumption|]. split; [exact HP|].
  apply (NPost_GG (KTree, p) (Some c) (cdet_of (Some c) s) s s1); [cbn; discriminate | exact HP].
Qed.

Lemma create_tree_spec p c s :
  Inv hh s ->
  wpg false (create (KTree, p) (Some c) InitTree s)
      (fun s1 => Inv hh s1 /\ NPost (KTree, p) (Some c) (cdet_of (Some c) s) s s1 /\ GG s s1 /\ TT s s1).
Proof.
  intros HI. eapply wpg_weaken.
  - apply wpg_conj; [apply create_tree_spec0; exact HI|].
    apply (@create_TT hh (KTree, p) (Some c) InitTree s HI); [reflexivity | intros t0 _ Hk; discriminate Hk].
  - intros s1 [[A [B C]] D]. auto.
Qed.

(* the hand-over of a static file to its tree: only the creator column changes *)
Definition retarget (c' : key) (m : node) : node := mkNode (nk m) (Some c') (ndet m).

Lemma static_not_out l s r : is_static_fstate l s = true -> findf l (files s) = Some r -> out_state (fstt r) = false /\ fstt r <> FUndeclared.
Proof.
  unfold is_static_fstate. rewrite fstate_of_findf. intros H Hr. rewrite Hr in H. cbn in H.
  destruct (fstt r); try discriminate; split; try reflexivity; discriminate.
Qed.

Lemma retarget_inv x c' s n cn :
  Inv hh s -> fst x = KFile -> fst c' = KTree ->
  findn x (nodes s) = Some n -> ndet n = false ->
  findn c' (nodes s) = Some cn -> ndet cn = false ->
  is_static_fstate (snd x) s = true -> is_prefix (snd c') (snd x) = true ->
  Inv hh (upd_node x (retarget c') s) /\ GG s (upd_node x (retarget c') s) /\ TT s (upd_node x (retarget c') s).
Proof.
  intros HI Hx Hc' Hn Hdn Hcn Hdc Hst Hpre.
  pose proof (inv_nw _ HI) as HW.
  set (s' := upd_node x (retarget c') s).
  assert (Hns : nodes s' = updn x (retarget c') (nodes s)) by reflexivity.
  assert (Hxc : x <> c'). { intros E. rewrite E in Hx. rewrite Hx in Hc'. discriminate. }
  assert (Hxr : x <> root_key). { intros E. rewrite E in Hx. discriminate. }
  assert (Hff : forall y, findn y (nodes s') = if key_eqb y x then Some (retarget c' n) else findn y (nodes s)).
  { intros y. rewrite Hns, findn_updn; [|reflexivity]. destruct (key_eqb y x) eqn:E; [|reflexivity].
    apply key_eqb_eq in E. subst y. rewrite Hn. reflexivity. }
  assert (Hnx : nk n = x) by (eapply findn_key; exact Hn).
  assert (Hnf : forall y m c, y <> root_key -> findn y (nodes s) = Some m -> ncre m = Some c -> c <> x).
  { intros y m c Hy Hm Hc E. pose proof (findn_In _ _ _ Hm) as [Hin Hk].
    assert (Hl : local_ok (nodes s) m). { apply (nw_local _ HW); [exact Hin | rewrite Hk; exact Hy]. }
    unfold local_ok in Hl. rewrite Hc in Hl. destruct Hl as [_ [Hkind _]]. rewrite E, Hx in Hkind.
    destruct (fst (nk m)); discriminate. }
  assert (Hxs : x = (KFile, snd x)). { destruct x as [xk xl]. cbn in Hx. subst xk. reflexivity. }
  assert (HW' : NWl (nodes s')).
  { apply (NW_intro_findn (nodes s)); [exact HW | rewrite Hns; apply map_nk_updn; reflexivity | | |].
    - rewrite Hff. apply key_eqb_neq in Hxr. rewrite key_eqb_sym, Hxr. apply (nw_root _ HW).
    - intros y n' Hy Hyr. rewrite Hff in Hy. destruct (key_eqb y x) eqn:E.
      + inversion Hy; subst n'. unfold local_ok, retarget. cbn [ncre nk ndet]. rewrite Hnx.
        split; [intros E'; apply Hxc; symmetry; exact E'|]. split; [rewrite Hx, Hc'; reflexivity|].
        exists cn. split; [|congruence]. rewrite Hff. pose proof Hxc as Hxc'. apply key_eqb_neq in Hxc'.
        rewrite key_eqb_sym, Hxc'. exact Hcn.
      + pose proof (findn_In _ _ _ Hy) as [Hin Hk].
        assert (Hl : local_ok (nodes s) n'). { apply (nw_local _ HW); [exact Hin | rewrite Hk; exact Hyr]. }
        unfold local_ok in *. destruct (ncre n') as [c|] eqn:Hc; [|exact Hl].
        destruct Hl as [L1 [L2 [cn0 [L3 L4]]]]. split; [exact L1|]. split; [exact L2|]. exists cn0. split; [|exact L4].
        rewrite Hff. assert (Hcx : c <> x) by (eapply Hnf; eassumption). apply key_eqb_neq in Hcx. rewrite Hcx. exact L3.
    - intros y n' Hy Hdy.
      assert (Hfr : forall z, Reach (nodes s) z -> z <> x -> Reach (nodes s') z).
      { intros z HR. apply (reach_frame (fun z => z <> x) (nodes s) (nodes s')); [|exact HR].
        intros z0 m c Hz0 Hzr Hm Hc. split; [eapply Hnf; eassumption|]. exists m. split; [|exact Hc].
        rewrite Hff. apply key_eqb_neq in Hz0. rewrite Hz0. exact Hm. }
      rewrite Hff in Hy. destruct (key_eqb y x) eqn:E.
      + apply key_eqb_eq in E. subst y. eapply Reach_step; [rewrite Hff, key_eqb_refl; reflexivity | reflexivity |].
        apply Hfr; [|intros E; apply Hxc; symmetry; exact E].
        rewrite <- (findn_key _ _ _ Hcn). apply (nw_reach _ HW); [apply (findn_In _ _ _ Hcn) | exact Hdc].
      + apply key_eqb_neq in E. apply Hfr; [|exact E]. rewrite <- (findn_key _ _ _ Hy).
        apply (nw_reach _ HW); [apply (findn_In _ _ _ Hy) | exact Hdy]. }
  split.
  - apply (@Inv_nodes_change hh s s' HI HW'); try reflexivity.
    + unfold KL. rewrite Hns. apply map_nk_updn. reflexivity.
    + apply (rw_hnodup _ _ _ _ _ (inv_rw _ HI)).
    + apply incl_refl.
    + intros r Hr Hu n' Hn'. rewrite Hff in Hn'. destruct (key_eqb (KFile, fl r) x) eqn:E.
      * exfalso. apply key_eqb_eq in E. rewrite <- E in Hst. cbn [snd] in Hst.
        pose proof (In_findf _ _ (rw_fnodup _ _ _ _ _ (inv_rw _ HI)) Hr) as Hfr.
        destruct (static_not_out _ _ _ Hst Hfr) as [_ H]. contradiction.
      * apply (inv_ud _ HI r Hr Hu n' Hn').
    + intros d l f Hd Hsrc Hsnk n' c Hn' Hc. rewrite Hff in Hn'. destruct (key_eqb (KFile, f) x) eqn:E.
      * exfalso. apply key_eqb_eq in E. rewrite <- E in Hst, Hn. cbn [snd] in Hst.
        assert (Hl : local_ok (nodes s) n).
        { apply (nw_local _ HW); [apply (findn_In _ _ _ Hn) | rewrite Hnx; exact Hxr]. }
        unfold local_ok in Hl. destruct (ncre n) as [c0|] eqn:Hc0; [|congruence].
        destruct (inv_oe _ HI d l f Hd Hsrc Hsnk n c0 Hn Hc0) as [_ [r [Hr Ho]]].
        destruct (static_not_out _ _ _ Hst Hr) as [H _]. congruence.
      * apply (inv_oe _ HI d l f Hd Hsrc Hsnk n' c Hn' Hc).
  - split.
    + constructor.
      * intros l H. exact H.
      * intros l H. exact H.
      * intros l H. exact H.
      * intros l f [A [B C]]. split; [exact A|]. split; [|exact C].
        rewrite creator_of_findn in *. rewrite Hff in B. destruct (key_eqb (KFile, f) x); [|exact B].
        cbn in B. inversion B. subst c'. discriminate Hc'.
    + intros f t H. rewrite creator_of_findn, Hff in H. destruct (key_eqb (KFile, f) x) eqn:E.
      * left. apply key_eqb_eq in E. cbn in H. inversion H; subst c'. rewrite <- E in Hpre, Hst. cbn [snd] in *. split; [exact Hpre | exact Hst].
      * right. split; [rewrite creator_of_findn; exact H | auto].
Qed.

Definition handover (c' : key) (under : list node) (s : st) : st :=
  fold_left (fun s n => upd_node (nk n) (retarget c') s) under s.

Lemma handover_spec c' (under : list node) : forall s,
  Inv hh s -> fst c' = KTree ->
  (forall n, In n under -> fst (nk n) = KFile /\ is_detached (nk n) s = false /\
                           is_static_fstate (snd (nk n)) s = true /\ is_detached c' s = false /\
                           is_prefix (snd c') (snd (nk n)) = true) ->
  Inv hh (handover c' under s) /\ GG s (handover c' under s) /\ KL (nodes (handover c' under s)) = KL (nodes s) /\
  TT s (handover c' under s).
Proof.
  unfold handover. induction under as [|n under IH]; intros s HI Hc' Hall; cbn [fold_left].
  - split; [exact HI|]. split; [apply GG_refl|]. split; [reflexivity | apply TT_refl].
  - destruct (Hall n (or_introl eq_refl)) as [A1 [A2 [A3 [A4 A5]]]].
    rewrite is_detached_findn in A2, A4.
    destruct (findn (nk n) (nodes s)) as [m|] eqn:Hm; [|discriminate].
    destruct (findn c' (nodes s)) as [cn|] eqn:Hcn; [|discriminate].
    destruct (retarget_inv (nk n) c' s m cn HI A1 Hc' Hm A2 Hcn A4 A3 A5) as [I1 [G1 T01]].
    set (s1 := upd_node (nk n) (retarget c') s) in *.
    destruct (IH s1 I1 Hc') as [I2 [G2 [K2 T12]]].
    { intros n' Hn'. destruct (Hall n' (or_intror Hn')) as [B1 [B2 [B3 [B4 B5]]]]. split; [exact B1|].
      assert (Hd : forall y, is_detached y s1 = is_detached y s).
      { intros y. rewrite !is_detached_findn. unfold s1. rewrite nodes_upd_node, findn_updn; [|reflexivity].
        destruct (key_eqb y (nk n)); [|reflexivity]. destruct (findn y (nodes s)); reflexivity. }
      rewrite !Hd. split; [exact B2|]. split; [exact B3|]. split; [exact B4 | exact B5]. }
    split; [exact I2|]. split; [eapply GG_trans; eassumption|]. split; [|eapply TT_trans; eassumption].
    rewrite K2. unfold s1, KL. rewrite nodes_upd_node. apply map_nk_updn. reflexivity.
Qed.

Lemma register_static_tree_spec c p s :
  Inv hh s -> wpg false (register_static_tree c p s) (fun s' => Inv hh s' /\ GG s s' /\ TT s s').
Proof.
  intros HI. pose proof (inv_nw _ HI) as HW. unfold register_static_tree.
  destruct (negb (is_some (find_node c s))); [exact I|].
  apply wpg_bind. destruct (find_owning_tree p s) as [[t|]|x|x]; try exact I; cbn [wpg].
  - destruct (okey_eqb _ _); [cbn; split; [exact HI|]; split; [apply GG_refl | apply TT_refl]|]. destruct (str_eqb t p); exact I.
  - destruct (existsb _ (nodes s)); [exact I|]. cbn zeta.
    set (under := file_nodes_under p false s).
    destruct (existsb (fun n => negb (is_static_fstate (snd (nk n)) s)) under) eqn:E1; [exact I|].
    destruct (existsb (fun n => negb (okey_eqb (ncre n) (Some c))) under) eqn:E2; [exact I|].
    apply wpg_bind. eapply wpg_weaken; [apply create_tree_spec; exact HI|].
    intros s1 [I1 [HP [G1 T01]]].
    assert (Hall : forall n, In n under -> fst (nk n) = KFile /\ is_detached (nk n) s1 = false /\
                     is_static_fstate (snd (nk n)) s1 = true /\ is_detached (KTree, p) s1 = false /\
                     is_prefix (snd (KTree, p)) (snd (nk n)) = true).
    { intros n Hn. pose proof Hn as Hu. unfold under, file_nodes_under in Hn. apply filter_In in Hn. destruct Hn as [Hin Hcond].
      rewrite !andb_true_iff in Hcond. destruct Hcond as [[[C1 C2] C3] _].
      apply kind_eqb_eq in C1. assert (Hdn : ndet n = false) by (destruct (ndet n); [discriminate | reflexivity]).
      pose proof (In_findn _ _ (nw_nodup _ HW) Hin) as Hfn.
      assert (Hne : nk n <> (KTree, p)). { intros E. rewrite E in C1. discriminate. }
      pose proof (np_att _ _ _ _ _ HP _ _ Hne Hfn Hdn) as Hfn1.
      split; [exact C1|]. split; [rewrite is_detached_findn, Hfn1; exact Hdn|]. split; [|split; [|exact C3]].
      - rewrite existsb_false_iff in E1. specialize (E1 n Hu). apply negb_false_iff in E1.
        unfold is_static_fstate, fstate_of, find_file in *. rewrite (np_files _ _ _ _ _ HP). exact E1.
      - rewrite is_detached_findn, (np_k _ _ _ _ _ HP). cbn [ndet cdet_of].
        rewrite existsb_false_iff in E2. specialize (E2 n Hu). apply negb_false_iff in E2. apply okey_eqb_eq in E2.
        assert (Hl : local_ok (nodes s) n).
        { apply (nw_local _ HW); [exact Hin | intros E; rewrite E in C1; discriminate]. }
        unfold local_ok in Hl. rewrite E2 in Hl. destruct Hl as [_ [_ [cn [Hcn Hd]]]].
        rewrite is_detached_findn, Hcn. congruence. }
    destruct (handover_spec (KTree, p) under s1 I1 eq_refl Hall) as [I2 [G2 [K2 T12]]].
    unfold handover, retarget in I2, G2, K2, T12.
    eapply wpg_weaken.
    { apply declare_static_files_t_spec; exact I2. }
    intros s3 [I3 [G3' [_ T23]]]. split; [exact I3|]. split.
    + eapply GG_trans; [exact G1|]. eapply GG_trans; [exact G2 | exact G3'].
    + eapply TT_trans; [exact T01|]. eapply TT_trans; [exact T12|]. apply T23.
      intros _ l Hl. apply In_sort_strs in Hl.
      apply in_map_iff in Hl. destruct Hl as [n [Hn1 Hn2]]. unfold file_nodes_under in Hn2. apply filter_In in Hn2.
      destruct Hn2 as [_ Hc]. rewrite !andb_true_iff in Hc. subst l. cbn [snd]. tauto.
Qed.

(* ------------------------------------------------------------------------------------------ *)
(* delete_detached with the tree pre-step                                                      *)
(* ------------------------------------------------------------------------------------------ *)
Lemma delete_detached_t_spec s : Inv hh s -> wpg false (delete_detached_t s) (fun s' => Inv hh s' /\ GG s s' /\ TT s s').
Proof.
  intros HI. unfold delete_detached_t. apply wpg_bind. eapply wpg_weaken.
  - apply wpg_conj; [|apply (foldM_ND (fun s k => node_detach k s)); intros; apply node_detach_NDw].
    apply (@detach_list_spec hh false (unused_tree_files s) s HI).
    intros k Hk. unfold unused_tree_files in Hk. apply in_map_iff in Hk. destruct Hk as [n [Hn1 Hn2]].
    apply filter_In in Hn2. destruct Hn2 as [Hin Hc]. rewrite !andb_true_iff in Hc. destruct Hc as [[C1 _] _].
    apply kind_eqb_eq in C1. subst k. split; [intros E; rewrite E in C1; discriminate|].
    unfold KL. apply in_map. exact Hin.
  - intros s1 [[I1 [NO1 G1]] N1]. eapply wpg_weaken.
    + apply wpg_conj; [apply wpg_conj; [apply wpg_conj|]|];
        [apply (@delete_detached_spec hh); exact I1 | apply delete_detached_GG | apply delete_detached_ND | apply delete_detached_FT].
    + intros s2 [[[I2 G2] N2] F2]. split; [exact I2|]. split; [eapply GG_trans; [apply G3_GG; exact G1 | exact G2]|].
      eapply TT_trans.
      * apply TT_cre_files; [apply ND_creator; exact N1|]. destruct NO1 as [_ [E _]]. exact E.
      * apply TT_ND_FT; [exact N2 | exact F2 | apply (Inv_Rows hh); exact I2].
Qed.

End HH.

(* ------------------------------------------------------------------------------------------ *)
(* every operation of the alphabet with trees preserves the invariant                          *)
(* ------------------------------------------------------------------------------------------ *)
Lemma step_op_t_inv hh o s :
  Inv hh s -> (hh = true -> protocol_hold_t_b s o = true) ->
  wpg false (step_op_t o s) (fun s' => Inv hh s').
Proof.
  intros HI Hp. destruct o as [o|c p].
  - cbn [protocol_hold_t_b] in Hp. destruct o; cbn [step_op_t];
      try (apply (step_op_inv hh _ s HI Hp)).
    + eapply wpg_weaken; [apply (@declare_static_files_t_spec hh); exact HI|]. intros s' [H _]. exact H.
    + eapply wpg_weaken; [apply (@define_step_t_spec hh); exact HI|]. intros s' [H _]. exact H.
    + eapply wpg_weaken; [apply (@amend_step_t_spec hh); exact HI|]. intros s' [H _]. exact H.
    + eapply wpg_weaken; [apply (@delete_detached_t_spec hh); exact HI|]. intros s' [H _]. exact H.
  - cbn [step_op_t]. eapply wpg_weaken; [apply (@register_static_tree_spec hh); exact HI|]. intros s' [H _]. exact H.
Qed.

Lemma apply_op_t_inv hh o s :
  Inv hh s -> (hh = true -> protocol_hold_t_b s o = true) -> Inv hh (apply_op_t s o).
Proof.
  intros HI Hp. unfold apply_op_t. pose proof (step_op_t_inv hh o s HI Hp) as H.
  destruct (step_op_t o s); [exact H | exact HI | exact HI].
Qed.

Lemma inv_t_preserved s o :
  inv_b s = true -> protocol_hold_t_b s o = true -> inv_b (apply_op_t s o) = true.
Proof.
  intros H Hp. apply inv_b_iff. apply apply_op_t_inv; [apply inv_b_iff; exact H | intros _; exact Hp].
Qed.

Lemma inv_core_t_preserved s o : inv_core_b s = true -> inv_core_b (apply_op_t s o) = true.
Proof.
  intros H. apply inv_core_b_iff. apply apply_op_t_inv; [apply inv_core_b_iff; exact H | intros Hlax; discriminate Hlax].
Qed.

Lemma reachable_inv_core_t cap ops : inv_core_b (run_ops_t ops (init_st cap)) = true.
Proof.
  unfold run_ops_t. generalize (inv_core_init cap). generalize (init_st cap).
  induction ops as [|o ops IH]; intros s Hs; cbn [fold_left]; [exact Hs|].
  apply IH. apply inv_core_t_preserved. exact Hs.
Qed.

Lemma reachable_inv_t_prefixes cap ops :
  protocol_run_t_b (init_st cap) ops = true -> all_prefixes_ok_t inv_b (init_st cap) ops = true.
Proof.
  generalize (inv_init cap). generalize (init_st cap).
  induction ops as [|o ops IH]; intros s Hs Hp; cbn [all_prefixes_ok_t]; rewrite Hs; [reflexivity|].
  cbn in Hp. apply andb_true_iff in Hp. destruct Hp as [Hp1 Hp2]. cbn.
  apply IH; [apply inv_t_preserved; assumption | exact Hp2].
Qed.

(* the full invariant (I4, I5c) within the build-loop protocol *)
Lemma step_op_t_full o s :
  InvF s -> protocol_ok_t s o = true -> wpg false (step_op_t o s) InvF.
Proof.
  intros HF Hp. pose proof HF as [HI _]. destruct o as [o|c p].
  - cbn [protocol_ok_t] in Hp. destruct o; cbn [step_op_t];
      try (apply (step_op_full _ s HF Hp)).
    + eapply wpg_weaken; [apply (@declare_static_files_t_spec true); exact HI|].
      intros s' [I' [G' _]]. eapply InvF_GG; eassumption.
    + eapply wpg_weaken; [apply (@define_step_t_spec true); exact HI|].
      intros s' [I' [G' _]]. eapply InvF_GG; eassumption.
    + eapply wpg_weaken; [apply (@amend_step_t_spec true); exact HI|].
      intros s' [I' [G' _]]. eapply InvF_GG; [exact HF | exact I' | apply G'; apply not_succeeded_spec; exact Hp].
    + eapply wpg_weaken; [apply (@delete_detached_t_spec true); exact HI|].
      intros s' [I' [G' _]]. eapply InvF_GG; eassumption.
  - cbn [step_op_t]. eapply wpg_weaken; [apply (@register_static_tree_spec true); exact HI|].
    intros s' [I' [G' _]]. eapply InvF_GG; eassumption.
Qed.

Lemma inv_full_t_preserved s o :
  inv_full_b s = true -> protocol_ok_t s o = true -> inv_full_b (apply_op_t s o) = true.
Proof.
  intros H Hp. apply inv_full_iff. apply inv_full_iff in H. unfold apply_op_t.
  pose proof (step_op_t_full o s H Hp) as Hw. destruct (step_op_t o s); [exact Hw | exact H | exact H].
Qed.

Lemma reachable_inv_full_t cap ops :
  protocol_ok_run_t (init_st cap) ops = true -> all_prefixes_ok_t inv_full_b (init_st cap) ops = true.
Proof.
  generalize (inv_full_init cap). generalize (init_st cap).
  induction ops as [|o ops IH]; intros s Hs Hp; cbn [all_prefixes_ok_t]; rewrite Hs; [reflexivity|].
  cbn in Hp. apply andb_true_iff in Hp. destruct Hp as [Hp1 Hp2]. cbn.
  apply IH; [apply inv_full_t_preserved; assumption | exact Hp2].
Qed.

(* ------------------------------------------------------------------------------------------ *)
(* T1: a file whose creator is a static tree lies under it and is STATIC                        *)
(* ------------------------------------------------------------------------------------------ *)
Lemma step_op_TT o s :
  Inv false s -> declares_files o = false -> wpg false (step_op o s) (TT s).
Proof.
  intros HI Hd. eapply wpg_weaken.
  - apply wpg_conj; [apply wpg_conj|];
      [apply (step_op_inv false o s HI); intros H; discriminate H | apply step_op_ND; exact Hd | apply step_op_FT; exact Hd].
  - intros s' [[I' N'] F']. apply TT_ND_FT; [exact N' | exact F' | apply (Inv_Rows false); exact I'].
Qed.

Lemma step_op_t_TT o s :
  Inv false s -> static_requester_b o = true -> wpg false (step_op_t o s) (TT s).
Proof.
  intros HI Hdom. destruct o as [o|c p].
  - destruct o; cbn [step_op_t]; try (apply (step_op_TT _ s HI); reflexivity).
    + eapply wpg_weaken; [apply (@declare_static_files_t_spec false); exact HI|]. intros s' [_ [_ [_ H]]]. apply H.
      intros E. cbn in Hdom. apply negb_true_iff in Hdom. apply kind_eqb_eq in E. congruence.
    + eapply wpg_weaken; [apply (@define_step_t_spec false); exact HI|]. intros s' [_ [_ H]]. exact H.
    + eapply wpg_weaken; [apply (@amend_step_t_spec false); exact HI|]. intros s' [_ [_ H]]. exact H.
    + eapply wpg_weaken; [apply (@delete_detached_t_spec false); exact HI|]. intros s' [_ [_ H]]. exact H.
  - cbn [step_op_t]. eapply wpg_weaken; [apply (@register_static_tree_spec false); exact HI|]. intros s' [_ [_ H]]. exact H.
Qed.

Lemma inv_treefile_preserved s o :
  inv_core_b s = true -> inv_treefile_b s = true -> static_requester_b o = true ->
  inv_treefile_b (apply_op_t s o) = true.
Proof.
  intros Hc HT Hdom. pose proof (inv_core_t_preserved s o Hc) as Hc'.
  apply inv_core_b_iff in Hc. apply inv_core_b_iff in Hc'.
  apply T1_reflect; [apply (nw_nodup _ (inv_nw _ Hc'))|].
  apply T1_reflect in HT; [|apply (nw_nodup _ (inv_nw _ Hc))].
  unfold apply_op_t in *. pose proof (step_op_t_TT o s Hc Hdom) as Hw.
  destruct (step_op_t o s); [eapply T1_TT; eassumption | exact HT | exact HT].
Qed.

Lemma inv_treefile_init cap : inv_treefile_b (init_st cap) = true.
Proof. vm_compute. reflexivity. Qed.

Lemma reachable_inv_treefile cap ops :
  forallb static_requester_b ops = true -> all_prefixes_ok_t inv_treefile_b (init_st cap) ops = true.
Proof.
  generalize (inv_treefile_init cap). generalize (inv_core_init cap). generalize (init_st cap).
  induction ops as [|o ops IH]; intros s Hc Hs Hp; cbn [all_prefixes_ok_t]; rewrite Hs; [reflexivity|].
  cbn in Hp. apply andb_true_iff in Hp. destruct Hp as [Hp1 Hp2]. cbn.
  apply IH; [apply inv_core_t_preserved; exact Hc | apply inv_treefile_preserved; assumption | exact Hp2].
Qed.
