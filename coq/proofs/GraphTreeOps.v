(* C09: the tree-aware operations of model/GraphTree.v (register_static_tree, the _t variants of the
   declaration functions, the pre-step of delete_detached) preserve Inv, the frame GG (I4, I5c) and
   the frame W = TT /\ U (tree conjuncts T1 and T3'); T2 / T3' under the hypothesis that define_step
   re-attaches no static tree. *)
From Coq Require Import List NArith Bool Lia.
From SV Require Import lib.Bytes lib.Closure model.Graph model.GraphInv model.GraphTree model.GraphTreeInv
  proofs.GraphBase proofs.GraphNodes proofs.GraphInvP proofs.GraphPrims proofs.GraphFrames proofs.GraphCreate
  proofs.GraphOps proofs.GraphLife proofs.GraphSucc proofs.GraphTrans proofs.GraphTreeSim proofs.GraphNodeFrame
  proofs.GraphProofs proofs.GraphTreeT1.
Import ListNotations.
Open Scope N_scope.

(* nodes only appear and no static tree becomes attached *)
Definition KI (s s' : st) : Prop := incl (KL (nodes s)) (KL (nodes s')) /\ ATF s s'.
Lemma KI_refl s : KI s s.
Proof. split; [apply incl_refl | apply ATF_refl]. Qed.
Lemma KI_trans s1 s2 s3 : KI s1 s2 -> KI s2 s3 -> KI s1 s3.
Proof. intros [A1 A2] [B1 B2]. split; [eapply incl_tran; eassumption | eapply ATF_trans; eassumption]. Qed.
Lemma KI_NF (K : list key) s s' : (forall x, In x K -> fst x <> KTree) -> NF K s s' -> KI s s'.
Proof. intros HK HN. split; [apply (proj1 HN) | eapply ATF_NF; eassumption]. Qed.
Lemma KI_nodes s s' : nodes s' = nodes s -> KI s s'.
Proof. intros E. split; [rewrite E; apply incl_refl | apply ATF_nodes; exact E]. Qed.
Lemma fkey_not_tree (l : str) : forall x : key, In x [(KFile, l)] -> fst x <> KTree.
Proof. intros x [<-|[]]. discriminate. Qed.

Lemma is_prefix_comparable a : forall b l,
  is_prefix a l = true -> is_prefix b l = true -> is_prefix a b = true \/ is_prefix b a = true.
Proof.
  induction a as [|x a IH]; intros b l Ha Hb; [left; reflexivity|].
  destruct b as [|y b]; [right; reflexivity|]. destruct l as [|z l]; [discriminate|].
  cbn in Ha, Hb. apply andb_true_iff in Ha. apply andb_true_iff in Hb. destruct Ha as [A1 A2]. destruct Hb as [B1 B2].
  apply N.eqb_eq in A1. apply N.eqb_eq in B1. subst x y. cbn. rewrite N.eqb_refl. cbn. apply (IH b l A2 B2).
Qed.

Lemma owning_trees_In l s t : AT s t -> is_prefix t l = true -> In t (owning_trees l s).
Proof.
  unfold AT. rewrite is_detached_findn. destruct (findn (KTree, t) (nodes s)) as [n|] eqn:Hn; [|discriminate].
  intros Hd Hp. pose proof (findn_In _ _ _ Hn) as [Hin Hk]. unfold owning_trees. apply in_map_iff.
  exists n. split; [rewrite Hk; reflexivity|]. apply filter_In. split; [exact Hin|]. rewrite Hk, Hd. cbn. exact Hp.
Qed.

Lemma find_owning_tree_unique l s t t0 :
  find_owning_tree l s = Ok (Some t) -> AT s t0 -> is_prefix t0 l = true -> t0 = t.
Proof.
  unfold find_owning_tree. destruct (owning_trees l s) as [|a [|b r]] eqn:E; try discriminate.
  intros H; inversion H; subst a. intros Ha Hp. pose proof (owning_trees_In l s t0 Ha Hp) as Hin.
  rewrite E in Hin. destruct Hin as [<-|[]]. reflexivity.
Qed.
Lemma find_owning_tree_none_spec l s t :
  find_owning_tree l s = Ok None -> AT s t -> is_prefix t l = false.
Proof.
  unfold find_owning_tree. destruct (owning_trees l s) as [|a [|b r]] eqn:E; try discriminate.
  intros _ Ha. destruct (is_prefix t l) eqn:Hp; [|reflexivity].
  pose proof (owning_trees_In l s t Ha Hp) as Hin. rewrite E in Hin. destruct Hin.
Qed.

(* a declarer c of the path l is consistent with the attached trees *)
Definition decl_ok (c : key) (l : str) (f : fstate) (s : st) : Prop :=
  (forall t, AT s t -> is_prefix t l = true -> c = (KTree, t)) /\
  (fst c = KTree -> f = FUnconfirmed /\ is_prefix (snd c) l = true).
Lemma decl_ok_ATF c l f s s' : ATF s s' -> decl_ok c l f s -> decl_ok c l f s'.
Proof. intros HA [A B]. split; [|exact B]. intros t Ht. apply A. apply HA. exact Ht. Qed.

Lemma tree_guard_ok_spec c l f s :
  tree_guard c l s = Ok tt -> fst c <> KTree -> decl_ok c l f s.
Proof.
  unfold tree_guard. intros H Hc. destruct (kind_eqb (fst c) KTree) eqn:E; [apply kind_eqb_eq in E; contradiction|].
  destruct (find_owning_tree l s) as [[t|]|x|x] eqn:Eo; cbn [bind] in H; try discriminate.
  split; [|intros E'; contradiction]. intros t Ht Hp. rewrite (find_owning_tree_none_spec l s t Eo Ht) in Hp. discriminate.
Qed.

Lemma In_insert_str x y l : In x (insert_str y l) -> x = y \/ In x l.
Proof.
  induction l as [|z l IH]; cbn; [intros [H|[]]; auto|].
  destruct (lex_lt y z); cbn; [intros [H|[H|H]]; auto | intros [H|H]; [auto | destruct (IH H); auto]].
Qed.
Lemma In_sort_strs x l : In x (sort_strs l) -> In x l.
Proof.
  induction l as [|y l IH]; cbn; [auto|]. intros H. apply In_insert_str in H. destruct H as [H|H]; auto.
Qed.

Lemma find_owning_tree_prefix l s t : find_owning_tree l s = Ok (Some t) -> is_prefix t l = true.
Proof.
  unfold find_owning_tree. destruct (owning_trees l s) as [|t0 [|t1 r]] eqn:E; try discriminate.
  intros H; inversion H; subst t0. clear H.
  assert (Hin : In t (owning_trees l s)) by (rewrite E; left; reflexivity).
  unfold owning_trees in Hin. apply in_map_iff in Hin. destruct Hin as [n [Hn1 Hn2]].
  apply filter_In in Hn2. destruct Hn2 as [_ Hc]. rewrite !andb_true_iff in Hc. subst t. tauto.
Qed.

Lemma wpg_imp {A} (P : Prop) (r : res A) (Q : A -> Prop) :
  (P -> wpg false r Q) -> wpg false r (fun a => P -> Q a).
Proof. destruct r; cbn; auto. Qed.

Lemma add_dep_files a b dyn s s' : add_dep a b dyn s = Ok s' -> files s' = files s.
Proof.
  unfold add_dep. destruct (has_dep a b s); [discriminate|]. destruct (negb _); [discriminate|].
  intros H; inversion H. reflexivity.
Qed.
Lemma add_output_edge_files step l dyn s s' : add_output_edge step l dyn s = Ok s' -> files s' = files s.
Proof. unfold add_output_edge. destruct (would_cycle _ _ s); [discriminate|]. apply add_dep_files. Qed.
Lemma fold_add_env_files label dyn rep env s : files (fold_left (fun s e => add_env label e dyn rep s) env s) = files s.
Proof.
  revert s. induction env as [|e env IH]; intros s; cbn; [reflexivity|]. rewrite IH.
  destruct (add_env_frame label e dyn rep s) as [_ [E _]]. exact E.
Qed.

Section HH.
Context {hh : bool}.

(* ------------------------------------------------------------------------------------------ *)
(* _declare_file with the owning-tree guard                                                    *)
(* ------------------------------------------------------------------------------------------ *)
Lemma declare_file_W c l f s :
  Inv hh s -> decl_ok c l f s -> wpg false (declare_file c l f s) (W s).
Proof.
  intros HI [Hg Htree]. unfold declare_file.
  assert (Hc : (f = FUnconfirmed \/ f = FPlanned \/ f = FVolatile) ->
               wpg false (create (KFile, l) (Some c) (InitFile f) s) (W s)).
  { intros Hf. apply (@create_W hh); [exact HI | split; [reflexivity | destruct Hf as [->|[->| ->]]; discriminate]|].
    intros c0 Hc _. inversion Hc; subst c0. split; [exact Hg|].
    intros t E. subst c. destruct (Htree eq_refl) as [-> Hp]. split; [reflexivity | exact Hp]. }
  destruct f; try exact I; apply wpg_bind; (eapply wpg_weaken; [apply Hc; auto|]); intros s1 H1; cbn [wpg]; try exact H1.
  destruct (attached_step_sinks l s1); cbn; [exact H1 | exact I].
Qed.

Lemma declare_file_cre c l f s :
  Inv hh s ->
  wpg false (declare_file c l f s)
      (fun s' => forall x c0, x <> (KFile, l) -> creator_of x s' = Some c0 -> creator_of x s = Some c0).
Proof.
  intros HI. unfold declare_file.
  assert (Hc : (f = FUnconfirmed \/ f = FPlanned \/ f = FVolatile) ->
               wpg false (create (KFile, l) (Some c) (InitFile f) s)
                   (fun s' => forall x c0, x <> (KFile, l) -> creator_of x s' = Some c0 -> creator_of x s = Some c0)).
  { intros Hf. eapply wpg_weaken.
    - apply (@create_struct hh); [exact HI | split; [reflexivity | destruct Hf as [->|[->| ->]]; discriminate]].
    - intros s' [P1 _] x c0 Hx H. rewrite creator_of_findn in *.
      destruct (findn x (nodes s')) as [n'|] eqn:Hn'; [|discriminate].
      destruct (P1 _ _ Hx Hn') as [n0 [Hn0 [Hc|Hc]]]; rewrite Hn0; congruence. }
  destruct f; try exact I; apply wpg_bind; (eapply wpg_weaken; [apply Hc; auto|]); intros s1 H1; cbn [wpg]; try exact H1.
  destruct (attached_step_sinks l s1); cbn; [exact H1 | exact I].
Qed.

Lemma declare_file_t_spec c l f s :
  Inv hh s ->
  wpg false (declare_file_t c l f s)
      (fun s' => (Inv hh s' /\ NF [(KFile, l)] s s' /\ In (KFile, l) (KL (nodes s')) /\
                 creator_of (KFile, l) s' = Some c /\
                 (exists st, fstate_of l s' = Some st /\ (st = f \/ out_state st = true)) /\
                 (creator_quiet (Some c) f s -> GG s s')) /\
                 ((fst c = KTree -> decl_ok c l f s) -> W s s') /\
                 (forall x c0, x <> (KFile, l) -> creator_of x s' = Some c0 -> creator_of x s = Some c0)).
Proof.
  intros HI. unfold declare_file_t.
  assert (Hd : tree_guard c l s = Ok tt -> (fst c = KTree -> decl_ok c l f s) -> decl_ok c l f s).
  { intros Eg Htree. destruct (kind_eqb (fst c) KTree) eqn:E; [apply Htree; apply kind_eqb_eq; exact E|].
    eapply tree_guard_ok_spec; [exact Eg | intros E'; apply kind_eqb_eq in E'; congruence]. }
  destruct f; try exact I; (destruct (tree_guard c l s) as [[]|t|t] eqn:Eg; [|exact I|exact I]); cbn [bind];
    (apply wpg_conj; [apply (@declare_file_spec hh); [exact HI | intros H; discriminate H]|]);
    (apply wpg_conj; [|apply declare_file_cre; exact HI]);
    apply wpg_imp; intros Htree; (apply declare_file_W; [exact HI | apply Hd; [reflexivity | exact Htree]]).
Qed.

Lemma static_declarer_ok c l s d :
  (fst c = KTree -> decl_ok c l FUnconfirmed s) ->
  static_declarer c l s = Ok d -> fst d = KTree -> decl_ok d l FUnconfirmed s.
Proof.
  intros Hc. unfold static_declarer. destruct (kind_eqb (fst c) KTree) eqn:Ek.
  - intros H; inversion H; subst d. exact Hc.
  - destruct (find_owning_tree l s) as [[t|]|x|x] eqn:Eo; cbn [bind]; try discriminate.
    + destruct (okey_eqb _ _); [|discriminate]. intros H; inversion H; subst d. intros _. split.
      * intros t0 H0 Hp. rewrite (find_owning_tree_unique l s t t0 Eo H0 Hp). reflexivity.
      * intros _. split; [reflexivity|]. cbn. eapply find_owning_tree_prefix; exact Eo.
    + intros H; inversion H; subst d. intros E. apply kind_eqb_eq in E. congruence.
Qed.

Lemma declare_static_files_t_spec c paths s :
  Inv hh s ->
  wpg false (declare_static_files_t c paths s)
      (fun s' => Inv hh s' /\ GG s s' /\ KI s s' /\
                 ((fst c = KTree -> forall l, In l paths -> decl_ok c l FUnconfirmed s) -> W s s')).
Proof.
  intros HI. unfold declare_static_files_t. destruct (negb _); [exact I|].
  set (HC := fst c = KTree -> forall l, In l paths -> decl_ok c l FUnconfirmed s).
  apply wpg_bind. eapply wpg_weaken.
  { apply (wpg_foldM false _ (fun acc : list (key * str) => HC ->
             forall dl, In dl acc -> fst (fst dl) = KTree -> decl_ok (fst dl) (snd dl) FUnconfirmed s)).
    - intros acc l Hl Hacc0. apply wpg_bind. apply wpg_of_ok. intros d Hd. apply wpg_bind.
      destruct (check_declaration_node_t d l 61 s) as [[]|x|x]; try exact I; cbn [wpg]; [|exact Hacc0].
      intros Hc. pose proof (Hacc0 Hc) as Hacc.
      intros dl Hin. apply in_app_or in Hin. destruct Hin as [Hin|[<-|[]]]; [apply Hacc; exact Hin|].
      cbn [fst snd]. eapply static_declarer_ok; [|exact Hd]. intros E. apply Hc; assumption.
    - intros _ dl []. }
  intros todo Htodo. cbn beta in Htodo.
  apply (wpg_foldM false _ (fun s' => Inv hh s' /\ GG s s' /\ KI s s' /\ (HC -> W s s'))).
  - intros s1 dl Hdl [I1 [G1 [K1 T1']]]. eapply wpg_weaken.
    + apply declare_file_t_spec; exact I1.
    + intros s2 [[I2 [N2 [_ [_ [_ G2]]]]] [T2 _]].
      assert (K12 : KI s1 s2) by (eapply KI_NF; [apply fkey_not_tree | exact N2]).
      split; [exact I2|]. split; [|split].
      * eapply GG_trans; [exact G1|]. apply G2. intros x _ Hx. congruence.
      * eapply KI_trans; eassumption.
      * intros Hc. eapply W_trans; [apply T1'; exact Hc | | apply (proj2 K12)]. apply T2.
        intros E. eapply decl_ok_ATF; [apply (proj2 K1) | apply (Htodo Hc dl Hdl E)].
  - split; [exact HI|]. split; [apply GG_refl|]. split; [apply KI_refl | intros _; apply W_refl].
Qed.

(* ------------------------------------------------------------------------------------------ *)
(* _resolve_supply_file, _supply_files                                                         *)
(* ------------------------------------------------------------------------------------------ *)
Lemma resolve_supply_file_W step l rn s :
  Inv hh s -> wpg false (resolve_supply_file step l rn s) (fun r => W s (fst r)).
Proof.
  intros HI. unfold resolve_supply_file. apply wpg_bind.
  assert (Hc : wpg false (create (KFile, l) None (InitFile FUndeclared) s) (W s)).
  { apply (@create_W hh); [exact HI | split; reflexivity | intros c H; discriminate H]. }
  assert (Hfin : forall s1, W s s1 ->
            wpg false (let isnew := negb (has_dep (KFile, l) (KStep, step) s1) in
                       if negb isnew && rn then Usage 205 else Ok (s1, isnew)) (fun r => W s (fst r))).
  { intros s1 H1. cbn zeta. destruct (negb (negb (has_dep (KFile, l) (KStep, step) s1)) && rn); cbn; auto. }
  destruct (find_node (KFile, l) s) as [n|].
  2:{ eapply wpg_weaken; [exact Hc | exact Hfin]. }
  destruct (ncre n); [|eapply wpg_weaken; [exact Hc | exact Hfin]].
  destruct (fstate_of l s) as [[]|]; try exact I; cbn [wpg]; apply Hfin; apply W_refl.
Qed.

Lemma resolve_supply_file_t_spec step l rn s :
  Inv hh s ->
  wpg false (resolve_supply_file_t step l rn s)
      (fun r => Inv hh (fst r) /\ KI s (fst r) /\ In (KFile, l) (KL (nodes (fst r))) /\ GG s (fst r) /\ W s (fst r)).
Proof.
  intros HI.
  assert (Hbase : wpg false (resolve_supply_file step l rn s)
            (fun r => Inv hh (fst r) /\ KI s (fst r) /\ In (KFile, l) (KL (nodes (fst r))) /\ GG s (fst r) /\ W s (fst r))).
  { eapply wpg_weaken; [apply wpg_conj; [apply (@resolve_supply_file_spec hh); exact HI | apply resolve_supply_file_W; exact HI]|].
    intros r [[H1 [H2 [H3 H4]]] H5]. split; [exact H1|]. split; [apply (KI_NF [] _ _ (fun x H => False_ind _ H) H2)|].
    split; [assumption|]. split; assumption. }
  unfold resolve_supply_file_t. destruct (is_detached (KFile, l) s) eqn:Hd; [|exact Hbase].
  apply wpg_bind. destruct (find_owning_tree l s) as [[t|]|x|x] eqn:Eo; try exact I; cbn [wpg]; [|exact Hbase].
  apply wpg_bind. eapply wpg_weaken.
  { apply wpg_conj.
    - apply (@create_spec hh); [exact HI | split; [reflexivity | discriminate] | intros H; discriminate H].
    - apply (@create_W hh); [exact HI | split; [reflexivity | discriminate]|].
      intros c0 Ht _. inversion Ht; subst c0. split.
      + intros t0 H0 Hp. rewrite (find_owning_tree_unique l s t t0 Eo H0 Hp). reflexivity.
      + intros t0 E. inversion E; subst t0. split; [reflexivity|]. cbn. eapply find_owning_tree_prefix; exact Eo. }
  intros s1 [[H1 [H2 [H3 [_ [_ [_ [H7 _]]]]]]] HT]. cbn zeta.
  destruct (negb (negb (has_dep (KFile, l) (KStep, step) s1)) && rn); cbn; [exact I|].
  split; [exact H1|]. split; [eapply KI_NF; [apply fkey_not_tree | exact H2]|]. split; [exact H3|]. split; [|exact HT].
  apply H7. intros f0 _ x Hx. discriminate.
Qed.

Lemma supply_files_t_spec step paths rn dyn s :
  Inv hh s -> In (KStep, step) (KL (nodes s)) ->
  wpg false (supply_files_t step paths rn dyn s) (fun s' => Inv hh s' /\ KI s s' /\ GG s s' /\ W s s').
Proof.
  intros HI Hstep. unfold supply_files_t. apply wpg_bind.
  eapply wpg_weaken.
  { apply (wpg_foldM false _ (fun acc : st * list str =>
             Inv hh (fst acc) /\ KI s (fst acc) /\ (forall l, In l (snd acc) -> In (KFile, l) (KL (nodes (fst acc)))) /\
             GG s (fst acc) /\ W s (fst acc))).
    - intros acc l _ [H1 [H2 [H3 [H4 H5]]]]. apply wpg_bind.
      eapply wpg_weaken; [apply resolve_supply_file_t_spec; exact H1|].
      intros r [R1 [R2 [R3 [R4 R5]]]]. cbn [wpg fst snd]. split; [exact R1|]. split; [eapply KI_trans; eassumption|].
      split; [|split; [eapply GG_trans; eassumption | eapply W_trans; [eassumption | eassumption | apply (proj2 R2)]]].
      intros l' Hl'. destruct (snd r).
      + apply in_app_or in Hl'. destruct Hl' as [Hl'|[<-|[]]]; [|exact R3]. apply (proj1 R2). apply H3. exact Hl'.
      + apply (proj1 R2). apply H3. exact Hl'.
    - cbn. split; [exact HI|]. split; [apply KI_refl |]. split; [intros l []|]. split; [apply GG_refl | apply W_refl]. }
  intros [s1 news] [H1 [H2 [H3 [H4g H5]]]]. cbn [fst snd] in *.
  assert (Hstep1 : In (KStep, step) (KL (nodes s1))) by (apply (proj1 H2); exact Hstep).
  assert (Hadd : (forall l, In l news -> ~ path (EL (deps s1)) (KStep, step) (KFile, l)) ->
            wpg false (foldM (fun s l => add_dep (KFile, l) (KStep, step) dyn s) news s1)
                (fun s' => Inv hh s' /\ KI s s' /\ GG s s' /\ W s s')).
  { intros Hnp. eapply wpg_weaken.
    - apply (wpg_foldM_rem false _ (fun rest s' =>
               (Inv hh s' /\ G3 s1 s') /\ (nodes s' = nodes s1 /\ files s' = files s1) /\ incl rest news /\
               (forall l, In l rest -> ~ path (EL (deps s')) (KStep, step) (KFile, l)))).
      + intros s' l rest [[I1 I1g] [[I2 I2f] [I3 I4]]]. eapply wpg_weaken.
        * apply (@add_dep_spec hh); [exact I1 | rewrite I2; apply H3; apply I3; left; reflexivity
                              | rewrite I2; exact Hstep1 | apply I4; left; reflexivity
                              | intros sl f Ha; discriminate | reflexivity].
        * intros s'' [J1 J2]. split; [split; [exact J1 | subst s''; eapply G3_trans; [exact I1g | apply set_deps_G3]]|].
          subst s''. cbn [nodes files deps set_deps].
          split; [split; [exact I2 | exact I2f]|]. split; [intros x Hx; apply I3; right; exact Hx|].
          intros l' Hl' Hp. apply path_app_edge in Hp. destruct Hp as [Hp|[Hp _]].
          -- apply (I4 l'); [right; exact Hl' | exact Hp].
          -- apply (I4 l); [left; reflexivity | exact Hp].
      + split; [split; [exact H1 | apply G3_refl]|]. split; [split; reflexivity|]. split; [apply incl_refl | exact Hnp].
    - intros s' [[J1 J1g] [[J2 J2f] _]]. split; [exact J1|]. split; [eapply KI_trans; [exact H2 | apply KI_nodes; exact J2]|].
      split; [eapply GG_trans; [exact H4g | apply G3_GG; exact J1g]|].
      eapply W_trans; [exact H5 | apply W_nodes_files; assumption | apply ATF_nodes; exact J2]. }
  destruct news as [|l0 news'].
  - apply Hadd. intros l [].
  - destruct (would_cycle (KStep, step) (map (fun l => (KFile, l)) (l0 :: news')) s1) eqn:Ewc; [exact I|].
    apply Hadd. intros l Hl. eapply would_cycle_false; [exact Ewc|]. apply in_map. exact Hl.
Qed.

(* ------------------------------------------------------------------------------------------ *)
(* folds of declarations                                                                       *)
(* ------------------------------------------------------------------------------------------ *)
Lemma declare_fold_t_spec c f (after : str -> st -> res st) ls s :
  fst c <> KTree ->
  (forall l s1, Inv hh s1 -> In c (KL (nodes s1)) -> In (KFile, l) (KL (nodes s1)) ->
                creator_of (KFile, l) s1 = Some c ->
                (exists st, fstate_of l s1 = Some st /\ (st = f \/ out_state st = true)) ->
                wpg false (after l s1) (fun s2 => Inv hh s2 /\ nodes s2 = nodes s1 /\ GG s1 s2 /\ files s2 = files s1)) ->
  Inv hh s -> In c (KL (nodes s)) ->
  wpg false (foldM (fun s l => do s' <- declare_file_t c l f s; after l s') ls s)
      (fun s' => Inv hh s' /\ KI s s' /\ (creator_quiet (Some c) f s -> GG s s') /\ W s s').
Proof.
  intros Hct Hafter HI Hc.
  apply (wpg_foldM false _ (fun s' => Inv hh s' /\ KI s s' /\ (creator_quiet (Some c) f s -> GG s s') /\ W s s')).
  - intros s' l _ [I1 [I2 [I1g I1t]]].
    assert (Hc' : In c (KL (nodes s'))) by (apply (proj1 I2); exact Hc).
    apply wpg_bind. eapply wpg_weaken; [apply declare_file_t_spec; exact I1|].
    intros s1 [[J1 [J2 [J3 [J4 [J5 J6]]]]] [J7 _]]. specialize (J7 (fun E => False_ind _ (Hct E))).
    assert (K12 : KI s' s1) by (eapply KI_NF; [apply fkey_not_tree | exact J2]). eapply wpg_weaken.
    + apply Hafter; [exact J1 | apply (proj1 J2); exact Hc' | exact J3 | exact J4 | exact J5].
    + intros s2 [K1 [K2 [K3 K4]]]. split; [exact K1|]. split; [|split].
      * eapply KI_trans; [exact I2|]. eapply KI_trans; [exact K12 | apply KI_nodes; exact K2].
      * intros Hq. pose proof (I1g Hq) as G1.
        eapply GG_trans; [exact G1|]. eapply GG_trans; [|exact K3]. apply J6. eapply creator_quiet_GG; eassumption.
      * eapply W_trans; [exact I1t | | eapply ATF_trans; [apply (proj2 K12) | apply ATF_nodes; exact K2]].
        eapply W_trans; [exact J7 | apply W_nodes_files; assumption | apply ATF_nodes; exact K2].
  - split; [exact HI|]. split; [apply KI_refl|]. split; [intros _; apply GG_refl | apply W_refl].
Qed.

(* ------------------------------------------------------------------------------------------ *)
(* define_step                                                                                 *)
(* ------------------------------------------------------------------------------------------ *)
Lemma define_step_new_t_spec creator label inp env out vol nd s :
  Inv hh s ->
  wpg false (define_step_new_t creator label inp env out vol nd s) (fun s' => Inv hh s' /\ GG s s' /\ W s s').
Proof.
  intros HI. unfold define_step_new_t. set (k := (KStep, label)).
  apply wpg_bind. eapply wpg_weaken; [apply (@phrase_fold_spec hh); exact HI|]. intros u1 _.
  apply wpg_bind. eapply wpg_weaken; [apply (@phrase_fold_spec hh); exact HI|]. intros u2 _.
  destruct (existsb (fun l => mem_str l vol) out) eqn:Eov; [exact I|].
  apply wpg_bind. eapply wpg_weaken.
  { apply wpg_conj.
    - apply (@create_spec hh); [exact HI | reflexivity | intros Hs; discriminate Hs].
    - apply (@create_W hh); [exact HI | reflexivity | intros c0 _ Hk; discriminate Hk]. }
  intros s1 [[I1 [NF1 [K1 [_ [_ [_ [G1 P1]]]]]]] T01].
  assert (G01 : GG s s1). { apply G1. intros f Hf. discriminate. }
  assert (Hp1 : sstate_of label s1 = Some SPending) by (apply (P1 nd); reflexivity).
  apply wpg_bind. eapply wpg_weaken; [apply supply_files_t_spec; [exact I1 | exact K1]|].
  intros s2 [I2 [NF2 [G12 T12]]].
  assert (K2 : In k (KL (nodes s2))) by (apply (proj1 NF2); exact K1).
  destruct (@fold_add_env_inv hh label false true env s2 I2 K2) as [I3 N3].
  pose proof (fold_add_env_G3 label false true env s2) as G23.
  pose proof (fold_add_env_files label false true env s2) as F23.
  set (s3 := fold_left (fun s e => add_env label e false true s) env s2) in *.
  assert (G03 : GG s s3). { eapply GG_trans; [exact G01|]. eapply GG_trans; [exact G12 | apply G3_GG; exact G23]. }
  assert (K3 : In k (KL (nodes s3))) by (rewrite N3; exact K2).
  assert (Hq3 : forall f, creator_quiet (Some k) f s3).
  { intros f x Hx _ _. inversion Hx; subst x. eapply not_succ_GG; [|eapply GG_trans; [exact G12 | apply G3_GG; exact G23]].
    rewrite Hp1. discriminate. }
  assert (Hafter : forall f, (f = FPlanned \/ f = FVolatile) ->
             forall l s1, Inv hh s1 -> In k (KL (nodes s1)) -> In (KFile, l) (KL (nodes s1)) ->
             creator_of (KFile, l) s1 = Some k ->
             (exists st, fstate_of l s1 = Some st /\ (st = f \/ out_state st = true)) ->
             wpg false (add_output_edge label l false s1) (fun s2 => Inv hh s2 /\ nodes s2 = nodes s1 /\ GG s1 s2 /\ files s2 = files s1)).
  { intros f Hf l t H1 H2 H3 H4 [st0 [H5 H6]]. eapply wpg_weaken.
    - apply wpg_conj; [apply (@add_output_edge_spec hh); try assumption |
                       apply wpg_of_ok; intros s9 H9; exact (add_output_edge_files _ _ _ _ _ H9)].
      exists st0. split; [exact H5|]. destruct H6 as [->|H6]; [destruct Hf as [->| ->]; reflexivity | exact H6].
    - intros s9 [[A1 [A2 A3]] A4]. auto. }
  apply wpg_bind. eapply wpg_weaken.
  { apply (declare_fold_t_spec k FPlanned (fun l s => add_output_edge label l false s) out s3);
      [discriminate | apply Hafter; auto | exact I3 | exact K3]. }
  intros s4 [I4 [NF4 [G34 T34]]]. specialize (G34 (Hq3 FPlanned)).
  eapply wpg_weaken.
  { apply (declare_fold_t_spec k FVolatile (fun l s => add_output_edge label l false s) vol s4);
      [discriminate | apply Hafter; auto | exact I4 | apply (proj1 NF4); exact K3]. }
  intros s5 [I5 [NF5 [G45 T45]]]. split; [exact I5|]. split.
  - eapply GG_trans; [exact G03|]. eapply GG_trans; [exact G34|]. apply G45.
    intros x _ _ Hv. exfalso. apply Hv. reflexivity.
  - assert (A23 : ATF s2 s3) by (apply ATF_nodes; exact N3).
    assert (W03 : W s s3).
    { eapply W_trans; [exact T01 | | eapply ATF_trans; [apply (proj2 NF2) | exact A23]].
      eapply W_trans; [exact T12 | apply (W_nodes_files s2 s3 N3 F23) | exact A23]. }
    eapply W_trans; [exact W03 | | eapply ATF_trans; [apply (proj2 NF4) | apply (proj2 NF5)]].
    eapply W_trans; [exact T34 | exact T45 | apply (proj2 NF5)].
Qed.

Lemma define_step_t_spec creator label inp env out vol nd s :
  Inv hh s ->
  wpg false (define_step_t creator label inp env out vol nd s) (fun s' => Inv hh s' /\ GG s s' /\ W s s').
Proof.
  intros HI. unfold define_step_t. set (k := (KStep, label)).
  destruct (is_some (find_node creator s)) eqn:Ec; cbn [negb]; [|exact I].
  destruct (key_eqb creator root_key && root_has_step s); [exact I|].
  destruct (key_eqb creator k) eqn:Eself; [exact I|]. apply key_eqb_neq in Eself.
  destruct (mem_key creator (rec_products k s)) eqn:Ecyc; [exact I|].
  pose proof (define_step_new_t_spec creator label inp env out vol nd s HI) as Hnew.
  destruct (find_node k s) as [n|] eqn:Hn; [|exact Hnew].
  destruct (ndet n) eqn:Hdn; cbn [andb negb]; [|exact I].
  destruct (can_recycle label inp env out vol s); [|exact Hnew].
  apply wpg_bind. eapply wpg_weaken.
  { apply wpg_conj.
    - apply (@node_reattach_spec hh); [exact HI | reflexivity | intros Hs; discriminate Hs].
    - apply (@node_reattach_G3 hh); [exact HI | reflexivity]. }
  intros s1 [[I1 [NO1 _]] G01].
  assert (T01 : W s s1).
  { apply W_cre_files; [apply (g3_cre _ _ G01)|]. destruct NO1 as [_ [E _]]. exact E. }
  set (g := fun r : srow => mkS (sl r) (sst r) nd (sdef r) (sdc r) 0).
  destruct (@upd_step_inv hh label g s1 I1) as [I2 SO2]; [reflexivity | |].
  { intros r Hr _. pose proof (inv_sw _ I1 r Hr) as Hok. unfold sw_ok_b, g in *. cbn [sdef sst shold].
    apply andb_true_iff in Hok. destruct Hok as [Hok _]. rewrite Hok. destruct hh; reflexivity. }
  assert (G12 : G3 s1 (upd_step label g s1)). { apply upd_step_G3; [reflexivity | intros r; left; reflexivity]. }
  fold g. set (s2 := upd_step label g s1) in *.
  assert (G02 : GG s s2). { apply G3_GG. eapply G3_trans; eassumption. }
  assert (T02 : W s s2). { eapply W_trans; [exact T01 | apply W_nodes_files; reflexivity | apply ATF_nodes; reflexivity]. }
  destruct (sstate_of label s2) as [st0|] eqn:Hss; [|cbn; split; [|split]; assumption].
  destruct st0; try (cbn; split; [|split]; assumption).
  eapply wpg_weaken.
  - apply wpg_conj; [apply wpg_conj; [apply wpg_conj|]|].
    + apply (@mark_step_pending_spec hh); [exact I2 | intros Hs; discriminate Hs].
    + apply (@mark_step_pending_GG hh). exact I2.
    + apply mark_step_pending_nodes.
    + apply mark_step_pending_FT.
  - intros s3 [[[[I3 _] G23] N23] F23]. split; [exact I3|]. split; [eapply GG_trans; eassumption|].
    eapply W_trans; [exact T02 | | apply ATF_nodes; exact N23].
    apply W_ND_FT; [apply ND_nodes; exact N23 | exact F23 | apply (Inv_Rows hh); exact I3].
Qed.

(* ------------------------------------------------------------------------------------------ *)
(* amend_step                                                                                  *)
(* ------------------------------------------------------------------------------------------ *)
Lemma amend_step_t_spec label inp env out vol s :
  Inv hh s ->
  wpg false (amend_step_t label inp env out vol s)
      (fun s' => Inv hh s' /\ (sstate_of label s <> Some SSucceeded -> GG s s') /\ W s s' /\ KI s s').
Proof.
  intros HI. unfold amend_step_t. set (k := (KStep, label)).
  destruct (is_some (find_node k s) && is_some (find_step label s)) eqn:Eg; cbn [negb]; [|exact I].
  apply andb_true_iff in Eg. destruct Eg as [Ek _]. apply is_some_true in Ek. apply find_node_KL in Ek.
  apply wpg_bind. eapply wpg_weaken; [apply supply_files_t_spec; [exact HI | exact Ek]|].
  intros s1 [I1 [NF1 [G01 T01]]].
  assert (K1 : In k (KL (nodes s1))) by (apply (proj1 NF1); exact Ek).
  destruct (@fold_add_env_inv hh label true false env s1 I1 K1) as [I2 N2].
  pose proof (fold_add_env_G3 label true false env s1) as G12.
  pose proof (fold_add_env_files label true false env s1) as F12.
  set (s2 := fold_left (fun s e => add_env label e true false s) env s1) in *.
  assert (G02 : GG s s2). { eapply GG_trans; [exact G01 | apply G3_GG; exact G12]. }
  assert (K2 : In k (KL (nodes s2))) by (rewrite N2; exact K1).
  apply wpg_bind. eapply wpg_weaken; [apply (@todo_fold_spec hh false k 62 s2 out I2 []); intros l []|].
  intros out' _.
  apply wpg_bind. eapply wpg_weaken; [apply (@todo_fold_spec hh false k 63 s2 vol I2 []); intros l []|].
  intros vol' _.
  destruct (existsb (fun l => mem_str l vol') out') eqn:Eov; [exact I|].
  assert (Hafter : forall f, (f = FPlanned \/ f = FVolatile) ->
             forall l s1, Inv hh s1 -> In k (KL (nodes s1)) -> In (KFile, l) (KL (nodes s1)) ->
             creator_of (KFile, l) s1 = Some k ->
             (exists st, fstate_of l s1 = Some st /\ (st = f \/ out_state st = true)) ->
             wpg false (add_output_edge label l true s1) (fun s2 => Inv hh s2 /\ nodes s2 = nodes s1 /\ GG s1 s2 /\ files s2 = files s1)).
  { intros f Hf l t H1 H2 H3 H4 [st0 [H5 H6]]. eapply wpg_weaken.
    - apply wpg_conj; [apply (@add_output_edge_spec hh); try assumption |
                       apply wpg_of_ok; intros s9 H9; exact (add_output_edge_files _ _ _ _ _ H9)].
      exists st0. split; [exact H5|]. destruct H6 as [->|H6]; [destruct Hf as [->| ->]; reflexivity | exact H6].
    - intros s9 [[A1 [A2 A3]] A4]. auto. }
  apply wpg_bind. eapply wpg_weaken.
  { apply (declare_fold_t_spec k FPlanned (fun l s => add_output_edge label l true s) out' s2);
      [discriminate | apply Hafter; auto | exact I2 | exact K2]. }
  intros s3 [I3 [NF3 [G23 T23]]].
  eapply wpg_weaken.
  { apply (declare_fold_t_spec k FVolatile (fun l s => add_output_edge label l true s) vol' s3);
      [discriminate | apply Hafter; auto | exact I3 | apply (proj1 NF3); exact K2]. }
  intros s4 [I4 [NF4 [G34 T34]]]. split; [exact I4|].
  assert (K12 : KI s1 s2) by (apply KI_nodes; exact N2).
  split; [|split].
  - intros Hns.
    assert (Hq2 : creator_quiet (Some k) FPlanned s2).
    { intros x Hx _ _. inversion Hx; subst x. eapply not_succ_GG; eassumption. }
    eapply GG_trans; [exact G02|]. eapply GG_trans; [apply G23; exact Hq2|]. apply G34.
    intros x _ _ Hv. exfalso. apply Hv. reflexivity.
  - assert (W02 : W s s2) by (eapply W_trans; [exact T01 | apply (W_nodes_files s1 s2 N2 F12) | apply (proj2 K12)]).
    eapply W_trans; [exact W02 | | eapply ATF_trans; [apply (proj2 NF3) | apply (proj2 NF4)]].
    eapply W_trans; [exact T23 | exact T34 | apply (proj2 NF4)].
  - eapply KI_trans; [exact NF1|]. eapply KI_trans; [exact K12|]. eapply KI_trans; eassumption.
Qed.

(* ------------------------------------------------------------------------------------------ *)
(* register_static_tree                                                                        *)
(* ------------------------------------------------------------------------------------------ *)
Lemma create_tree_spec0 p c s :
  Inv hh s ->
  wpg false (create (KTree, p) (Some c) InitTree s)
      (fun s1 => Inv hh s1 /\ NPost (KTree, p) (Some c) (cdet_of (Some c) s) s s1 /\ GG s s1).
Proof.
  intros HI. rewrite create_unfold.
  destruct (creator_ok (KTree, p) (Some c) s) as [[]|t|t] eqn:Hco; try exact I.
  cbn [bind]. apply wpg_bind. eapply wpg_weaken.
  { apply (@create_nodes_spec hh); [exact HI | cbn; discriminate | apply creator_ok_new_node; exact Hco | intros Hs; discriminate Hs]. }
  intros s1 HP. cbn [wpg]. split; [eapply tree_row_inv; eassumption|]. split; [exact HP|].
  apply (NPost_GG (KTree, p) (Some c) (cdet_of (Some c) s) s s1); [cbn; discriminate | exact HP].
Qed.

Lemma create_tree_spec p c s :
  Inv hh s ->
  wpg false (create (KTree, p) (Some c) InitTree s)
      (fun s1 => Inv hh s1 /\ NPost (KTree, p) (Some c) (cdet_of (Some c) s) s s1 /\ GG s s1 /\ W s s1).
Proof.
  intros HI. eapply wpg_weaken.
  - apply wpg_conj; [apply create_tree_spec0; exact HI|].
    apply (@create_W hh (KTree, p) (Some c) InitTree s HI); [reflexivity | intros c0 _ Hk; discriminate Hk].
  - intros s1 [[A [B C]] D]. auto.
Qed.

(* the hand-over of a static file to its tree: only the creator column changes *)
Definition retarget (c' : key) (m : node) : node := mkNode (nk m) (Some c') (ndet m).

Lemma static_not_out l s r : is_static_fstate l s = true -> findf l (files s) = Some r -> out_state (fstt r) = false /\ fstt r <> FUndeclared.
Proof.
  unfold is_static_fstate. rewrite fstate_of_findf. intros H Hr. rewrite Hr in H. cbn in H.
  destruct (fstt r); try discriminate; split; try reflexivity; discriminate.
Qed.

Lemma retarget_inv x c' s n cn :
  Inv hh s -> fst x = KFile -> fst c' = KTree ->
  findn x (nodes s) = Some n -> ndet n = false ->
  findn c' (nodes s) = Some cn -> ndet cn = false ->
  is_static_fstate (snd x) s = true -> is_prefix (snd c') (snd x) = true ->
  (forall t, AT s t -> is_prefix t (snd x) = true -> c' = (KTree, t)) ->
  Inv hh (upd_node x (retarget c') s) /\ GG s (upd_node x (retarget c') s) /\ W s (upd_node x (retarget c') s) /\
  (forall y, findn y (nodes (upd_node x (retarget c') s)) =
             if key_eqb y x then Some (retarget c' n) else findn y (nodes s)).
Proof.
  intros HI Hx Hc' Hn Hdn Hcn Hdc Hst Hpre Hguard.
  pose proof (inv_nw _ HI) as HW.
  set (s' := upd_node x (retarget c') s).
  assert (Hns : nodes s' = updn x (retarget c') (nodes s)) by reflexivity.
  assert (Hxc : x <> c'). { intros E. rewrite E in Hx. rewrite Hx in Hc'. discriminate. }
  assert (Hxr : x <> root_key). { intros E. rewrite E in Hx. discriminate. }
  assert (Hff : forall y, findn y (nodes s') = if key_eqb y x then Some (retarget c' n) else findn y (nodes s)).
  { intros y. rewrite Hns, findn_updn; [|reflexivity]. destruct (key_eqb y x) eqn:E; [|reflexivity].
    apply key_eqb_eq in E. subst y. rewrite Hn. reflexivity. }
  assert (Hnx : nk n = x) by (eapply findn_key; exact Hn).
  assert (Hnf : forall y m c, y <> root_key -> findn y (nodes s) = Some m -> ncre m = Some c -> c <> x).
  { intros y m c Hy Hm Hc E. pose proof (findn_In _ _ _ Hm) as [Hin Hk].
    assert (Hl : local_ok (nodes s) m). { apply (nw_local _ HW); [exact Hin | rewrite Hk; exact Hy]. }
    unfold local_ok in Hl. rewrite Hc in Hl. destruct Hl as [_ [Hkind _]]. rewrite E, Hx in Hkind.
    destruct (fst (nk m)); discriminate. }
  assert (HW' : NWl (nodes s')).
  { apply (NW_intro_findn (nodes s)); [exact HW | rewrite Hns; apply map_nk_updn; reflexivity | | |].
    - rewrite Hff. apply key_eqb_neq in Hxr. rewrite key_eqb_sym, Hxr. apply (nw_root _ HW).
    - intros y n' Hy Hyr. rewrite Hff in Hy. destruct (key_eqb y x) eqn:E.
      + inversion Hy; subst n'. unfold local_ok, retarget. cbn [ncre nk ndet]. rewrite Hnx.
        split; [intros E'; apply Hxc; symmetry; exact E'|]. split; [rewrite Hx, Hc'; reflexivity|].
        exists cn. split; [|congruence]. rewrite Hff. pose proof Hxc as Hxc'. apply key_eqb_neq in Hxc'.
        rewrite key_eqb_sym, Hxc'. exact Hcn.
      + pose proof (findn_In _ _ _ Hy) as [Hin Hk].
        assert (Hl : local_ok (nodes s) n'). { apply (nw_local _ HW); [exact Hin | rewrite Hk; exact Hyr]. }
        unfold local_ok in *. destruct (ncre n') as [c|] eqn:Hc; [|exact Hl].
        destruct Hl as [L1 [L2 [cn0 [L3 L4]]]]. split; [exact L1|]. split; [exact L2|]. exists cn0. split; [|exact L4].
        rewrite Hff. assert (Hcx : c <> x) by (eapply Hnf; eassumption). apply key_eqb_neq in Hcx. rewrite Hcx. exact L3.
    - intros y n' Hy Hdy.
      assert (Hfr : forall z, Reach (nodes s) z -> z <> x -> Reach (nodes s') z).
      { intros z HR. apply (reach_frame (fun z => z <> x) (nodes s) (nodes s')); [|exact HR].
        intros z0 m c Hz0 Hzr Hm Hc. split; [eapply Hnf; eassumption|]. exists m. split; [|exact Hc].
        rewrite Hff. apply key_eqb_neq in Hz0. rewrite Hz0. exact Hm. }
      rewrite Hff in Hy. destruct (key_eqb y x) eqn:E.
      + apply key_eqb_eq in E. subst y. eapply Reach_step; [rewrite Hff, key_eqb_refl; reflexivity | reflexivity |].
        apply Hfr; [|intros E; apply Hxc; symmetry; exact E].
        rewrite <- (findn_key _ _ _ Hcn). apply (nw_reach _ HW); [apply (findn_In _ _ _ Hcn) | exact Hdc].
      + apply key_eqb_neq in E. apply Hfr; [|exact E]. rewrite <- (findn_key _ _ _ Hy).
        apply (nw_reach _ HW); [apply (findn_In _ _ _ Hy) | exact Hdy]. }
  split; [|split; [|split; [split|exact Hff]]].
  - apply (@Inv_nodes_change hh s s' HI HW'); try reflexivity.
    + unfold KL. rewrite Hns. apply map_nk_updn. reflexivity.
    + apply (rw_hnodup _ _ _ _ _ (inv_rw _ HI)).
    + apply incl_refl.
    + intros r Hr Hu n' Hn'. rewrite Hff in Hn'. destruct (key_eqb (KFile, fl r) x) eqn:E.
      * exfalso. apply key_eqb_eq in E. rewrite <- E in Hst. cbn [snd] in Hst.
        pose proof (In_findf _ _ (rw_fnodup _ _ _ _ _ (inv_rw _ HI)) Hr) as Hfr.
        destruct (static_not_out _ _ _ Hst Hfr) as [_ H]. contradiction.
      * apply (inv_ud _ HI r Hr Hu n' Hn').
    + intros d l f Hd Hsrc Hsnk n' c Hn' Hc. rewrite Hff in Hn'. destruct (key_eqb (KFile, f) x) eqn:E.
      * exfalso. apply key_eqb_eq in E. rewrite <- E in Hst, Hn. cbn [snd] in Hst.
        assert (Hl : local_ok (nodes s) n).
        { apply (nw_local _ HW); [apply (findn_In _ _ _ Hn) | rewrite Hnx; exact Hxr]. }
        unfold local_ok in Hl. destruct (ncre n) as [c0|] eqn:Hc0; [|congruence].
        destruct (inv_oe _ HI d l f Hd Hsrc Hsnk n c0 Hn Hc0) as [_ [r [Hr Ho]]].
        destruct (static_not_out _ _ _ Hst Hr) as [H _]. congruence.
      * apply (inv_oe _ HI d l f Hd Hsrc Hsnk n' c Hn' Hc).
  - constructor.
    + intros l H. exact H.
    + intros l H. exact H.
    + intros l H. exact H.
    + intros l f [A [B C]]. split; [exact A|]. split; [|exact C].
      rewrite creator_of_findn in *. rewrite Hff in B. destruct (key_eqb (KFile, f) x); [|exact B].
      cbn in B. inversion B. subst c'. discriminate Hc'.
  - intros f t H. rewrite creator_of_findn, Hff in H. destruct (key_eqb (KFile, f) x) eqn:E.
    + left. apply key_eqb_eq in E. cbn in H. inversion H; subst c'. rewrite <- E in Hpre, Hst. cbn [snd] in *. split; [exact Hpre | exact Hst].
    + right. split; [rewrite creator_of_findn; exact H | auto].
  - intros f c H. rewrite creator_of_findn, Hff in H. destruct (key_eqb (KFile, f) x) eqn:E.
    + right. apply key_eqb_eq in E. cbn in H. inversion H; subst c. intros t Ht Hp. apply Hguard; [|rewrite <- E; exact Hp].
      unfold AT in *. rewrite is_detached_findn in *. rewrite Hff in Ht.
      destruct (key_eqb (KTree, t) x) eqn:E2; [apply key_eqb_eq in E2; rewrite <- E2 in Hx; discriminate | exact Ht].
    + left. rewrite creator_of_findn. exact H.
Qed.

Definition handover (c' : key) (under : list node) (s : st) : st :=
  fold_left (fun s n => upd_node (nk n) (retarget c') s) under s.

Lemma handover_spec c' (under : list node) : forall s,
  Inv hh s -> fst c' = KTree ->
  (forall n, In n under -> fst (nk n) = KFile /\ is_detached (nk n) s = false /\
                           is_static_fstate (snd (nk n)) s = true /\ is_detached c' s = false /\
                           is_prefix (snd c') (snd (nk n)) = true /\
                           (forall t, AT s t -> is_prefix t (snd (nk n)) = true -> c' = (KTree, t))) ->
  Inv hh (handover c' under s) /\ GG s (handover c' under s) /\ KL (nodes (handover c' under s)) = KL (nodes s) /\
  W s (handover c' under s) /\
  (forall y, is_detached y (handover c' under s) = is_detached y s) /\
  (forall n, In n under -> creator_of (nk n) (handover c' under s) = Some c') /\
  (forall x, creator_of x (handover c' under s) = creator_of x s \/
             (creator_of x (handover c' under s) = Some c' /\ exists n, In n under /\ nk n = x)).
Proof.
  unfold handover. induction under as [|n under IH]; intros s HI Hc' Hall; cbn [fold_left].
  - split; [exact HI|]. split; [apply GG_refl|]. split; [reflexivity|]. split; [apply W_refl|].
    split; [reflexivity|]. split; [intros n []|]. intros x. left. reflexivity.
  - destruct (Hall n (or_introl eq_refl)) as [A1 [A2 [A3 [A4 [A5 A6]]]]].
    rewrite is_detached_findn in A2, A4.
    destruct (findn (nk n) (nodes s)) as [m|] eqn:Hm; [|discriminate].
    destruct (findn c' (nodes s)) as [cn|] eqn:Hcn; [|discriminate].
    destruct (retarget_inv (nk n) c' s m cn HI A1 Hc' Hm A2 Hcn A4 A3 A5 A6) as [I1 [G1 [T01 Hff]]].
    set (s1 := upd_node (nk n) (retarget c') s) in *.
    assert (Hd : forall y, is_detached y s1 = is_detached y s).
    { intros y. rewrite !is_detached_findn, Hff. destruct (key_eqb y (nk n)) eqn:E; [|reflexivity].
      apply key_eqb_eq in E. subst y. rewrite Hm. reflexivity. }
    assert (Hcr : forall x, creator_of x s1 = if key_eqb x (nk n) then Some c' else creator_of x s).
    { intros x. rewrite !creator_of_findn, Hff. destruct (key_eqb x (nk n)); reflexivity. }
    destruct (IH s1 I1 Hc') as [I2 [G2 [K2 [T12 [D2 [C2 F2]]]]]].
    { intros n' Hn'. destruct (Hall n' (or_intror Hn')) as [B1 [B2 [B3 [B4 [B5 B6]]]]]. split; [exact B1|].
      rewrite !Hd. split; [exact B2|]. split; [exact B3|]. split; [exact B4|]. split; [exact B5|].
      intros t Ht. apply B6. unfold AT in *. rewrite <- Hd. exact Ht. }
    split; [exact I2|]. split; [eapply GG_trans; eassumption|].
    split; [rewrite K2; unfold s1, KL; rewrite nodes_upd_node; apply map_nk_updn; reflexivity|].
    split; [eapply W_trans; [exact T01 | exact T12|]; intros t; unfold AT; rewrite D2; auto|].
    split; [intros y; rewrite D2; apply Hd|]. split.
    + intros n' [<-|Hn']; [|apply C2; exact Hn'].
      destruct (F2 (nk n)) as [E|[E _]]; [|exact E]. rewrite E, Hcr, key_eqb_refl. reflexivity.
    + intros x. destruct (F2 x) as [E|[E [n' [Hn' Hk]]]].
      * rewrite E, Hcr. destruct (key_eqb x (nk n)) eqn:Ex; [|left; reflexivity].
        right. split; [reflexivity|]. exists n. split; [left; reflexivity|]. apply key_eqb_eq in Ex. auto.
      * right. split; [exact E|]. exists n'. split; [right; exact Hn' | exact Hk].
Qed.

(* adoption: declare_static_files with a tree as the creator over detached paths declares all of them *)
Lemma existing_claim_detached l s : is_detached (KFile, l) s = true -> existing_claim l s = Ok None.
Proof.
  unfold existing_claim, is_detached. destruct (find_node (KFile, l) s) as [n|]; [|reflexivity].
  intros Hd. rewrite Hd. destruct (find_file l s); reflexivity.
Qed.

Lemma adopt_todo c s : fst c = KTree -> forall ls acc,
  (forall l, In l ls -> is_detached (KFile, l) s = true) ->
  foldM (fun acc l => do d <- static_declarer c l s;
                      do isnew <- check_declaration_node_t d l 61 s;
                      Ok (if isnew : bool then acc ++ [(d, l)] else acc)) ls acc
  = Ok (acc ++ map (fun l => (c, l)) ls).
Proof.
  intros Hc. induction ls as [|l ls IH]; intros acc Hd; cbn [foldM map].
  - rewrite app_nil_r. reflexivity.
  - assert (E1 : static_declarer c l s = Ok c).
    { unfold static_declarer. rewrite Hc. reflexivity. }
    assert (E2 : check_declaration_node_t c l 61 s = Ok true).
    { unfold check_declaration_node_t. rewrite existing_claim_detached; [reflexivity|]. apply Hd. left. reflexivity. }
    rewrite E1. cbn [bind]. rewrite E2. cbn [bind]. rewrite IH; [|intros l' Hl'; apply Hd; right; exact Hl'].
    rewrite <- app_assoc. reflexivity.
Qed.

Lemma adopt_fold c : forall ls s, Inv hh s ->
  wpg false (foldM (fun s (dl : key * str) => declare_file_t (fst dl) (snd dl) FUnconfirmed s) (map (fun l => (c, l)) ls) s)
      (fun s' => (forall l, In l ls -> creator_of (KFile, l) s' = Some c \/ creator_of (KFile, l) s' = None) /\
                 (forall f c0, creator_of (KFile, f) s' = Some c0 ->
                    (c0 = c /\ In f ls) \/ creator_of (KFile, f) s = Some c0)).
Proof.
  induction ls as [|l ls IH]; intros s HI; cbn [map foldM].
  - cbn. split; [intros l []|]. intros f c0 H. right. exact H.
  - apply wpg_bind. cbn [fst snd]. eapply wpg_weaken; [apply declare_file_t_spec; exact HI|].
    intros s1 [[I1 [_ [_ [J4 _]]]] [_ Fr]]. eapply wpg_weaken; [apply IH; exact I1|].
    intros s' [A B]. split.
    + intros l' [<-|Hl']; [|apply A; exact Hl'].
      destruct (creator_of (KFile, l) s') as [c0|] eqn:E; [|right; reflexivity].
      left. destruct (B l c0 E) as [[-> _]|H]; [reflexivity | congruence].
    + intros f c0 H. destruct (B f c0 H) as [[-> Hin]|H1]; [left; split; [reflexivity | right; exact Hin]|].
      destruct (str_eq_dec f l) as [->|Hne].
      * left. split; [congruence | left; reflexivity].
      * right. apply (Fr (KFile, f) c0); [intros E; inversion E; contradiction | exact H1].
Qed.

Lemma adopt_spec c ls s :
  Inv hh s -> fst c = KTree -> (forall l, In l ls -> is_detached (KFile, l) s = true) ->
  wpg false (declare_static_files_t c ls s)
      (fun s' => (forall l, In l ls -> creator_of (KFile, l) s' = Some c \/ creator_of (KFile, l) s' = None) /\
                 (forall f c0, creator_of (KFile, f) s' = Some c0 ->
                    (c0 = c /\ In f ls) \/ creator_of (KFile, f) s = Some c0)).
Proof.
  intros HI Hc Hd. unfold declare_static_files_t. destruct (negb _); [exact I|].
  rewrite (adopt_todo c s Hc ls [] Hd). cbn [bind app]. apply adopt_fold. exact HI.
Qed.

Lemma In_sort_strs_rev x l : In x l -> In x (sort_strs l).
Proof.
  assert (Hins : forall y l0, In x (insert_str y l0) <-> x = y \/ In x l0).
  { intros y l0. induction l0 as [|z l0 IH]; cbn; [intuition|].
    destruct (lex_lt y z); cbn; [intuition|]. rewrite IH. intuition. }
  induction l as [|y l IH]; cbn; [auto|]. intros [->|H]; apply Hins; auto.
Qed.

Lemma register_static_tree_spec c p s :
  Inv hh s ->
  wpg false (register_static_tree c p s)
      (fun s' => Inv hh s' /\ GG s s' /\ W s s' /\ (T2p s -> T3p s -> T2p s' /\ T3p s')).
Proof.
  intros HI. pose proof (inv_nw _ HI) as HW. unfold register_static_tree.
  destruct (negb (is_some (find_node c s))); [exact I|].
  apply wpg_bind. destruct (find_owning_tree p s) as [[t|]|x|x] eqn:Eo; try exact I; cbn [wpg].
  - destruct (okey_eqb _ _); [cbn; split; [exact HI|]; split; [apply GG_refl|]; split; [apply W_refl | auto]|].
    destruct (str_eqb t p); exact I.
  - destruct (existsb _ (nodes s)) eqn:Ex; [exact I|]. cbn zeta.
    set (under := file_nodes_under p false s).
    destruct (existsb (fun n => negb (is_static_fstate (snd (nk n)) s)) under) eqn:E1; [exact I|].
    destruct (existsb (fun n => negb (okey_eqb (ncre n) (Some c))) under) eqn:E2; [exact I|].
    (* no attached tree of s is comparable with p *)
    assert (Ga : forall t, AT s t -> is_prefix t p = false) by (intros t; apply find_owning_tree_none_spec; exact Eo).
    assert (Gb : forall t, AT s t -> is_prefix p t = false).
    { intros t Ht. unfold AT in Ht. rewrite is_detached_findn in Ht.
      destruct (findn (KTree, t) (nodes s)) as [n|] eqn:Hn; [|discriminate].
      pose proof (findn_In _ _ _ Hn) as [Hin Hk]. rewrite existsb_false_iff in Ex. specialize (Ex n Hin).
      rewrite Hk, Ht in Ex. cbn in Ex. exact Ex. }
    assert (Gcmp : forall t f, AT s t -> is_prefix t f = true -> is_prefix p f = true -> False).
    { intros t f Ht H1 H2. destruct (is_prefix_comparable t p f H1 H2) as [H|H];
        [rewrite (Ga t Ht) in H | rewrite (Gb t Ht) in H]; discriminate. }
    apply wpg_bind. eapply wpg_weaken; [apply create_tree_spec; exact HI|].
    intros s1 [I1 [HP [G1 T01]]].
    assert (AT1 : forall t, AT s1 t -> t = p \/ AT s t).
    { intros t Ht. destruct (str_eq_dec t p) as [->|Hne]; [left; reflexivity|]. right. unfold AT in *.
      destruct (is_detached (KTree, t) s) eqn:E; [|reflexivity].
      rewrite (np_det _ _ _ _ _ HP (KTree, t)) in Ht; [discriminate | intros E'; inversion E'; contradiction | exact E]. }
    assert (Hunder : forall n, In n under -> In n (nodes s) /\ fst (nk n) = KFile /\ ndet n = false /\
                                              is_prefix p (snd (nk n)) = true).
    { intros n Hn. unfold under, file_nodes_under in Hn. apply filter_In in Hn. destruct Hn as [Hin Hcond].
      rewrite !andb_true_iff in Hcond. destruct Hcond as [[[C1 C2] C3] _]. apply kind_eqb_eq in C1.
      split; [exact Hin|]. split; [exact C1|]. split; [destruct (ndet n); [discriminate | reflexivity] | exact C3]. }
    assert (Hall : forall n, In n under -> fst (nk n) = KFile /\ is_detached (nk n) s1 = false /\
                     is_static_fstate (snd (nk n)) s1 = true /\ is_detached (KTree, p) s1 = false /\
                     is_prefix (snd (KTree, p)) (snd (nk n)) = true /\
                     (forall t, AT s1 t -> is_prefix t (snd (nk n)) = true -> (KTree, p) = (KTree, t))).
    { intros n Hn. pose proof Hn as Hu. destruct (Hunder n Hn) as [Hin [C1 [Hdn C3]]].
      pose proof (In_findn _ _ (nw_nodup _ HW) Hin) as Hfn.
      assert (Hne : nk n <> (KTree, p)). { intros E. rewrite E in C1. discriminate. }
      pose proof (np_att _ _ _ _ _ HP _ _ Hne Hfn Hdn) as Hfn1.
      split; [exact C1|]. split; [rewrite is_detached_findn, Hfn1; exact Hdn|]. split; [|split; [|split; [exact C3|]]].
      - rewrite existsb_false_iff in E1. specialize (E1 n Hu). apply negb_false_iff in E1.
        unfold is_static_fstate, fstate_of, find_file in *. rewrite (np_files _ _ _ _ _ HP). exact E1.
      - rewrite is_detached_findn, (np_k _ _ _ _ _ HP). cbn [ndet cdet_of].
        rewrite existsb_false_iff in E2. specialize (E2 n Hu). apply negb_false_iff in E2. apply okey_eqb_eq in E2.
        assert (Hl : local_ok (nodes s) n).
        { apply (nw_local _ HW); [exact Hin | intros E; rewrite E in C1; discriminate]. }
        unfold local_ok in Hl. rewrite E2 in Hl. destruct Hl as [_ [_ [cn [Hcn Hd]]]].
        rewrite is_detached_findn, Hcn. congruence.
      - intros t Ht Hp. destruct (AT1 t Ht) as [->|Hs]; [reflexivity|]. exfalso. exact (Gcmp t _ Hs Hp C3). }
    destruct (handover_spec (KTree, p) under s1 I1 eq_refl Hall) as [I2 [G2 [K2 [T12 [D2 [C2 F2]]]]]].
    unfold handover, retarget in I2, G2, K2, T12, D2, C2, F2.
    set (s2 := fold_left _ under s1) in *.
    set (matching := sort_strs (map (fun n => snd (nk n)) (file_nodes_under p true s2))).
    assert (Hmatch : forall l, In l matching -> is_detached (KFile, l) s2 = true /\ is_prefix p l = true).
    { intros l Hl. apply In_sort_strs in Hl. apply in_map_iff in Hl. destruct Hl as [n [Hn1 Hn2]].
      unfold file_nodes_under in Hn2. apply filter_In in Hn2. destruct Hn2 as [Hin Hc].
      rewrite !andb_true_iff in Hc. destruct Hc as [[[C1 C2'] C3] _]. apply kind_eqb_eq in C1. subst l.
      assert (E : nk n = (KFile, snd (nk n))) by (destruct (nk n) as [a b]; cbn in *; subst; reflexivity).
      split; [|exact C3]. rewrite <- E, is_detached_findn, (In_findn _ _ (nw_nodup _ (inv_nw _ I2)) Hin).
      destruct (ndet n); [reflexivity | discriminate]. }
    assert (AT2 : forall t, AT s2 t -> t = p \/ AT s t).
    { intros t Ht. apply AT1. unfold AT in *. rewrite <- D2. exact Ht. }
    eapply wpg_weaken.
    { apply wpg_conj; [apply declare_static_files_t_spec; exact I2|].
      apply adopt_spec; [exact I2 | reflexivity | intros l Hl; apply (Hmatch l Hl)]. }
    intros s3 [[I3 [G3' [K23 T23]]] [A3 B3]].
    assert (W23 : W s2 s3).
    { apply T23. intros _ l Hl. destruct (Hmatch l Hl) as [_ Hp]. split; [|intros _; split; [reflexivity | exact Hp]].
      intros t Ht Hpt. destruct (AT2 t Ht) as [->|Hs]; [reflexivity|]. exfalso. exact (Gcmp t l Hs Hpt Hp). }
    split; [exact I3|]. split; [eapply GG_trans; [exact G1|]; eapply GG_trans; [exact G2 | exact G3']|].
    split.
    { eapply W_trans; [|exact W23 | apply (proj2 K23)].
      eapply W_trans; [exact T01 | exact T12|]. intros t. unfold AT. rewrite D2. auto. }
    intros H2 H3.
    assert (AT3 : forall t, AT s3 t -> t = p \/ AT s t) by (intros t Ht; apply AT2; apply (proj2 K23); exact Ht).
    assert (Hnp : ~ AT s p). { intros H. pose proof (Ga p H) as E. rewrite is_prefix_refl in E. discriminate. }
    split.
    + intros t1 t2 H1 H2' Hp. destruct (AT3 t1 H1) as [->|S1], (AT3 t2 H2') as [->|S2]; try reflexivity.
      * rewrite (Gb t2 S2) in Hp. discriminate.
      * rewrite (Ga t1 S1) in Hp. discriminate.
      * apply H2; assumption.
    + (* creator tracking *)
      assert (Htrack : forall f c0, creator_of (KFile, f) s3 = Some c0 ->
                (c0 = (KTree, p) /\ is_prefix p f = true) \/ creator_of (KFile, f) s = Some c0).
      { intros f c0 H. destruct (B3 f c0 H) as [[-> Hin]|H']; [left; split; [reflexivity | apply (Hmatch f Hin)]|].
        destruct (F2 (KFile, f)) as [E|[E [n [Hn Hk]]]].
        - right. rewrite E in H'. rewrite creator_of_findn in *.
          destruct (findn (KFile, f) (nodes s1)) as [n1|] eqn:Hn1; [|discriminate].
          destruct (np_cre _ _ _ _ _ HP (KFile, f) n1 ltac:(discriminate) Hn1) as [n0 [Hn0 [Hc|Hc]]]; rewrite Hn0; congruence.
        - left. rewrite E in H'. inversion H'; subst c0. split; [reflexivity|].
          destruct (Hunder n Hn) as [_ [_ [_ Hp]]]. rewrite Hk in Hp. exact Hp. }
      (* every file under p with a creator belongs to p *)
      assert (Hcomplete : forall f c0, creator_of (KFile, f) s3 = Some c0 -> is_prefix p f = true -> AT s3 p ->
                c0 = (KTree, p)).
      { intros f c0 H Hp Hat. destruct (B3 f c0 H) as [[-> _]|H']; [reflexivity|].
        destruct (is_detached (KFile, f) s2) eqn:Ed.
        - (* detached after the hand-over: adopted *)
          assert (Hin : In f matching).
          { unfold matching. apply In_sort_strs_rev. apply in_map_iff.
            rewrite is_detached_findn in Ed. rewrite creator_of_findn in H'.
            destruct (findn (KFile, f) (nodes s2)) as [n|] eqn:Hn; [|discriminate].
            pose proof (findn_In _ _ _ Hn) as [Hin Hk]. exists n. split; [rewrite Hk; reflexivity|].
            unfold file_nodes_under. apply filter_In. split; [exact Hin|]. rewrite Hk, Ed. cbn.
            rewrite Hp. cbn. apply is_some_true. apply find_file_FL. apply (rw_files _ _ _ _ _ (inv_rw _ I2)).
            rewrite <- Hk. unfold KL. apply in_map. exact Hin. }
          destruct (A3 f Hin) as [E|E]; congruence.
        - (* attached: it was attached in s, hence handed over *)
          assert (Hd1 : is_detached (KFile, f) s1 = false) by (rewrite <- D2; exact Ed).
          assert (Hd0 : is_detached (KFile, f) s = false).
          { destruct (is_detached (KFile, f) s) eqn:E; [|reflexivity].
            rewrite (np_det _ _ _ _ _ HP (KFile, f)) in Hd1; [discriminate | discriminate | exact E]. }
          rewrite is_detached_findn in Hd0. destruct (findn (KFile, f) (nodes s)) as [n|] eqn:Hn; [|discriminate].
          pose proof (findn_In _ _ _ Hn) as [Hin Hk].
          assert (Hu : In n under).
          { unfold under, file_nodes_under. apply filter_In. split; [exact Hin|]. rewrite Hk, Hd0. cbn. rewrite Hp. cbn.
            apply is_some_true. apply find_file_FL. apply (rw_files _ _ _ _ _ (inv_rw _ HI)).
            rewrite <- Hk. unfold KL. apply in_map. exact Hin. }
          pose proof (C2 n Hu) as E. rewrite Hk in E. congruence. }
      intros f c0 t Hc Ht Hp. destruct (AT3 t Ht) as [->|Hs].
      * apply (Hcomplete f c0 Hc Hp Ht).
      * destruct (Htrack f c0 Hc) as [[-> Hpp]|H0]; [exfalso; exact (Gcmp t f Hs Hp Hpp)|].
        apply (H3 f c0 t H0 Hs Hp).
Qed.

(* ------------------------------------------------------------------------------------------ *)
(* delete_detached with the tree pre-step                                                      *)
(* ------------------------------------------------------------------------------------------ *)
Lemma delete_detached_t_spec s :
  Inv hh s -> wpg false (delete_detached_t s) (fun s' => Inv hh s' /\ GG s s' /\ W s s' /\ ATF s s').
Proof.
  intros HI. unfold delete_detached_t. apply wpg_bind. eapply wpg_weaken.
  - apply wpg_conj; [|apply (foldM_ND (fun s k => node_detach k s)); intros; apply node_detach_NDw].
    apply (@detach_list_spec hh false (unused_tree_files s) s HI).
    intros k Hk. unfold unused_tree_files in Hk. apply in_map_iff in Hk. destruct Hk as [n [Hn1 Hn2]].
    apply filter_In in Hn2. destruct Hn2 as [Hin Hc]. rewrite !andb_true_iff in Hc. destruct Hc as [[C1 _] _].
    apply kind_eqb_eq in C1. subst k. split; [intros E; rewrite E in C1; discriminate|].
    unfold KL. apply in_map. exact Hin.
  - intros s1 [[I1 [NO1 G1]] N1]. eapply wpg_weaken.
    + apply wpg_conj; [apply wpg_conj; [apply wpg_conj|]|];
        [apply (@delete_detached_spec hh); exact I1 | apply delete_detached_GG | apply delete_detached_ND | apply delete_detached_FT].
    + intros s2 [[[I2 G2] N2] F2]. split; [exact I2|]. split; [eapply GG_trans; [apply G3_GG; exact G1 | exact G2]|].
      split; [|eapply ATF_trans; apply ATF_ND; eassumption].
      eapply W_trans; [| |apply ATF_ND; exact N2].
      * apply W_cre_files; [apply ND_creator; exact N1|]. destruct NO1 as [_ [E _]]. exact E.
      * apply W_ND_FT; [exact N2 | exact F2 | apply (Inv_Rows hh); exact I2].
Qed.

End HH.

(* ------------------------------------------------------------------------------------------ *)
(* every operation of the alphabet with trees preserves the invariant                          *)
(* ------------------------------------------------------------------------------------------ *)
Lemma step_op_t_inv hh o s :
  Inv hh s -> (hh = true -> protocol_hold_t_b s o = true) ->
  wpg false (step_op_t o s) (fun s' => Inv hh s').
Proof.
  intros HI Hp. destruct o as [o|c p].
  - cbn [protocol_hold_t_b] in Hp. destruct o; cbn [step_op_t];
      try (apply (step_op_inv hh _ s HI Hp)).
    + eapply wpg_weaken; [apply (@declare_static_files_t_spec hh); exact HI|]. intros s' [H _]. exact H.
    + eapply wpg_weaken; [apply (@define_step_t_spec hh); exact HI|]. intros s' [H _]. exact H.
    + eapply wpg_weaken; [apply (@amend_step_t_spec hh); exact HI|]. intros s' [H _]. exact H.
    + eapply wpg_weaken; [apply (@delete_detached_t_spec hh); exact HI|]. intros s' [H _]. exact H.
  - cbn [step_op_t]. eapply wpg_weaken; [apply (@register_static_tree_spec hh); exact HI|]. intros s' [H _]. exact H.
Qed.

Lemma apply_op_t_inv hh o s :
  Inv hh s -> (hh = true -> protocol_hold_t_b s o = true) -> Inv hh (apply_op_t s o).
Proof.
  intros HI Hp. unfold apply_op_t. pose proof (step_op_t_inv hh o s HI Hp) as H.
  destruct (step_op_t o s); [exact H | exact HI | exact HI].
Qed.

Lemma inv_t_preserved s o :
  inv_b s = true -> protocol_hold_t_b s o = true -> inv_b (apply_op_t s o) = true.
Proof.
  intros H Hp. apply inv_b_iff. apply apply_op_t_inv; [apply inv_b_iff; exact H | intros _; exact Hp].
Qed.

Lemma inv_core_t_preserved s o : inv_core_b s = true -> inv_core_b (apply_op_t s o) = true.
Proof.
  intros H. apply inv_core_b_iff. apply apply_op_t_inv; [apply inv_core_b_iff; exact H | intros Hlax; discriminate Hlax].
Qed.

Lemma reachable_inv_core_t cap ops : inv_core_b (run_ops_t ops (init_st cap)) = true.
Proof.
  unfold run_ops_t. generalize (inv_core_init cap). generalize (init_st cap).
  induction ops as [|o ops IH]; intros s Hs; cbn [fold_left]; [exact Hs|].
  apply IH. apply inv_core_t_preserved. exact Hs.
Qed.

Lemma reachable_inv_t_prefixes cap ops :
  protocol_run_t_b (init_st cap) ops = true -> all_prefixes_ok_t inv_b (init_st cap) ops = true.
Proof.
  generalize (inv_init cap). generalize (init_st cap).
  induction ops as [|o ops IH]; intros s Hs Hp; cbn [all_prefixes_ok_t]; rewrite Hs; [reflexivity|].
  cbn in Hp. apply andb_true_iff in Hp. destruct Hp as [Hp1 Hp2]. cbn.
  apply IH; [apply inv_t_preserved; assumption | exact Hp2].
Qed.

(* the full invariant (I4, I5c) within the build-loop protocol *)
Lemma step_op_t_full o s :
  InvF s -> protocol_ok_t s o = true -> wpg false (step_op_t o s) InvF.
Proof.
  intros HF Hp. pose proof HF as [HI _]. destruct o as [o|c p].
  - cbn [protocol_ok_t] in Hp. destruct o; cbn [step_op_t];
      try (apply (step_op_full _ s HF Hp)).
    + eapply wpg_weaken; [apply (@declare_static_files_t_spec true); exact HI|].
      intros s' [I' [G' _]]. eapply InvF_GG; eassumption.
    + eapply wpg_weaken; [apply (@define_step_t_spec true); exact HI|].
      intros s' [I' [G' _]]. eapply InvF_GG; eassumption.
    + eapply wpg_weaken; [apply (@amend_step_t_spec true); exact HI|].
      intros s' [I' [G' _]]. eapply InvF_GG; [exact HF | exact I' | apply G'; apply not_succeeded_spec; exact Hp].
    + eapply wpg_weaken; [apply (@delete_detached_t_spec true); exact HI|].
      intros s' [I' [G' _]]. eapply InvF_GG; eassumption.
  - cbn [step_op_t]. eapply wpg_weaken; [apply (@register_static_tree_spec true); exact HI|].
    intros s' [I' [G' _]]. eapply InvF_GG; eassumption.
Qed.

Lemma inv_full_t_preserved s o :
  inv_full_b s = true -> protocol_ok_t s o = true -> inv_full_b (apply_op_t s o) = true.
Proof.
  intros H Hp. apply inv_full_iff. apply inv_full_iff in H. unfold apply_op_t.
  pose proof (step_op_t_full o s H Hp) as Hw. destruct (step_op_t o s); [exact Hw | exact H | exact H].
Qed.

Lemma reachable_inv_full_t cap ops :
  protocol_ok_run_t (init_st cap) ops = true -> all_prefixes_ok_t inv_full_b (init_st cap) ops = true.
Proof.
  generalize (inv_full_init cap). generalize (init_st cap).
  induction ops as [|o ops IH]; intros s Hs Hp; cbn [all_prefixes_ok_t]; rewrite Hs; [reflexivity|].
  cbn in Hp. apply andb_true_iff in Hp. destruct Hp as [Hp1 Hp2]. cbn.
  apply IH; [apply inv_full_t_preserved; assumption | exact Hp2].
Qed.

(* ------------------------------------------------------------------------------------------ *)
(* T1: a file whose creator is a static tree lies under it and is STATIC                        *)
(* ------------------------------------------------------------------------------------------ *)
Lemma step_op_W o s :
  Inv false s -> declares_files o = false -> wpg false (step_op o s) (fun s' => W s s' /\ ATF s s').
Proof.
  intros HI Hd. eapply wpg_weaken.
  - apply wpg_conj; [apply wpg_conj|];
      [apply (step_op_inv false o s HI); intros H; discriminate H | apply step_op_ND; exact Hd | apply step_op_FT; exact Hd].
  - intros s' [[I' N'] F']. split; [|apply ATF_ND; exact N'].
    apply W_ND_FT; [exact N' | exact F' | apply (Inv_Rows false); exact I'].
Qed.

Lemma declare_static_dom c paths s :
  static_requester_b (OpBase (OpDeclareStatic c paths)) = true ->
  fst c = KTree -> forall l, In l paths -> decl_ok c l FUnconfirmed s.
Proof. intros Hdom E. cbn in Hdom. apply negb_true_iff in Hdom. apply kind_eqb_eq in E. congruence. Qed.

Lemma step_op_t_W o s :
  Inv false s -> static_requester_b o = true -> wpg false (step_op_t o s) (W s).
Proof.
  intros HI Hdom. destruct o as [o|c p].
  - destruct o; cbn [step_op_t];
      try (eapply wpg_weaken; [apply (step_op_W _ s HI); reflexivity | intros s' [H _]; exact H]).
    + eapply wpg_weaken; [apply (@declare_static_files_t_spec false); exact HI|]. intros s' [_ [_ [_ H]]]. apply H.
      apply declare_static_dom. exact Hdom.
    + eapply wpg_weaken; [apply (@define_step_t_spec false); exact HI|]. intros s' [_ [_ H]]. exact H.
    + eapply wpg_weaken; [apply (@amend_step_t_spec false); exact HI|]. intros s' [_ [_ [H _]]]. exact H.
    + eapply wpg_weaken; [apply (@delete_detached_t_spec false); exact HI|]. intros s' [_ [_ [H _]]]. exact H.
  - cbn [step_op_t]. eapply wpg_weaken; [apply (@register_static_tree_spec false); exact HI|]. intros s' [_ [_ [H _]]]. exact H.
Qed.

Lemma inv_treefile_preserved s o :
  inv_core_b s = true -> inv_treefile_b s = true -> static_requester_b o = true ->
  inv_treefile_b (apply_op_t s o) = true.
Proof.
  intros Hc HT Hdom. pose proof (inv_core_t_preserved s o Hc) as Hc'.
  apply inv_core_b_iff in Hc. apply inv_core_b_iff in Hc'.
  apply T1_reflect; [apply (nw_nodup _ (inv_nw _ Hc'))|].
  apply T1_reflect in HT; [|apply (nw_nodup _ (inv_nw _ Hc))].
  unfold apply_op_t in *. pose proof (step_op_t_W o s Hc Hdom) as Hw.
  destruct (step_op_t o s); [eapply T1_TT; [exact HT | apply (proj1 Hw)] | exact HT | exact HT].
Qed.

Lemma inv_treefile_init cap : inv_treefile_b (init_st cap) = true.
Proof. vm_compute. reflexivity. Qed.

Lemma reachable_inv_treefile cap ops :
  forallb static_requester_b ops = true -> all_prefixes_ok_t inv_treefile_b (init_st cap) ops = true.
Proof.
  generalize (inv_treefile_init cap). generalize (inv_core_init cap). generalize (init_st cap).
  induction ops as [|o ops IH]; intros s Hc Hs Hp; cbn [all_prefixes_ok_t]; rewrite Hs; [reflexivity|].
  cbn in Hp. apply andb_true_iff in Hp. destruct Hp as [Hp1 Hp2]. cbn.
  apply IH; [apply inv_core_t_preserved; exact Hc | apply inv_treefile_preserved; assumption | exact Hp2].
Qed.

(* ------------------------------------------------------------------------------------------ *)
(* T2 / T3 under the hypothesis that define_step re-attaches no static tree                    *)
(* ------------------------------------------------------------------------------------------ *)
Lemma own_step o s :
  Inv false s -> T2p s -> T3p s -> static_requester_b o = true -> no_tree_reattached_b s o = true ->
  wpg false (step_op_t o s) (fun s' => T2p s' /\ T3p s').
Proof.
  intros HI H2 H3 Hdom Hnr.
  assert (Hfin : forall s', W s s' -> ATF s s' -> T2p s' /\ T3p s').
  { intros s' [_ HU] HA. split; [eapply T2p_ATF; eassumption | eapply T3p_U; eassumption]. }
  destruct o as [o|c p].
  - destruct o; cbn [step_op_t];
      try (eapply wpg_weaken; [apply (step_op_W _ s HI); reflexivity | intros s' [Hw Ha]; apply Hfin; assumption]).
    + eapply wpg_weaken; [apply (@declare_static_files_t_spec false); exact HI|]. intros s' [_ [_ [K Hw]]].
      apply Hfin; [apply Hw; apply declare_static_dom; exact Hdom | apply (proj2 K)].
    + (* define_step: the hypothesis gives ATF *)
      pose proof (@define_step_t_spec false creator label inp env out vol nd s HI) as Hsp.
      unfold no_tree_reattached_b, apply_op_t in Hnr. cbn [step_op_t] in Hnr.
      destruct (define_step_t creator label inp env out vol nd s) as [s'|x|x]; try exact I.
      cbn in Hsp. destruct Hsp as [I' [_ Hw]]. cbn [wpg]. apply Hfin; [exact Hw|].
      intros t Ht. apply (AT_attached_trees s' t (nw_nodup _ (inv_nw _ I'))) in Ht.
      rewrite forallb_forall in Hnr. specialize (Hnr t Ht). apply negb_true_iff in Hnr. exact Hnr.
    + eapply wpg_weaken; [apply (@amend_step_t_spec false); exact HI|]. intros s' [_ [_ [Hw K]]].
      apply Hfin; [exact Hw | apply (proj2 K)].
    + eapply wpg_weaken; [apply (@delete_detached_t_spec false); exact HI|]. intros s' [_ [_ [Hw Ha]]].
      apply Hfin; assumption.
  - cbn [step_op_t]. eapply wpg_weaken; [apply (@register_static_tree_spec false); exact HI|].
    intros s' [_ [_ [_ H]]]. apply H; assumption.
Qed.

Lemma inv_tree_strong_iff s :
  NoDup (map nk (nodes s)) -> (inv_tree_strong_b s = true <-> T1 s /\ T2p s /\ T3p s).
Proof.
  intros Hnd. unfold inv_tree_strong_b. rewrite !andb_true_iff, (T1_reflect s Hnd), (T2p_reflect s Hnd), (T3p_reflect s Hnd).
  tauto.
Qed.

Lemma inv_tree_strong_preserved s o :
  inv_core_b s = true -> inv_tree_strong_b s = true ->
  static_requester_b o = true -> no_tree_reattached_b s o = true ->
  inv_tree_strong_b (apply_op_t s o) = true.
Proof.
  intros Hc HT Hdom Hnr. pose proof (inv_core_t_preserved s o Hc) as Hc'.
  pose proof Hc as Hcb. apply inv_core_b_iff in Hc. apply inv_core_b_iff in Hc'.
  apply inv_tree_strong_iff; [apply (nw_nodup _ (inv_nw _ Hc'))|].
  apply inv_tree_strong_iff in HT; [|apply (nw_nodup _ (inv_nw _ Hc))]. destruct HT as [H1 [H2 H3]].
  unfold apply_op_t in *. pose proof (step_op_t_W o s Hc Hdom) as Hw.
  pose proof (own_step o s Hc H2 H3 Hdom Hnr) as Ho.
  destruct (step_op_t o s); [|auto|auto].
  split; [eapply T1_TT; [exact H1 | apply (proj1 Hw)] | exact Ho].
Qed.

(* the strong conjuncts imply the three tree conjuncts of inv_tree_b *)
Lemma inv_tree_of_strong s : inv_core_b s = true -> inv_tree_strong_b s = true -> inv_tree_b s = true.
Proof.
  intros Hc HT. apply inv_core_b_iff in Hc. pose proof (inv_nw _ Hc) as HW.
  pose proof HT as HT'. apply inv_tree_strong_iff in HT'; [|apply (nw_nodup _ HW)]. destruct HT' as [H1 [H2 H3]].
  unfold inv_tree_strong_b in HT. rewrite !andb_true_iff in HT. destruct HT as [[A B] _].
  unfold inv_tree_b. rewrite A, B. cbn. apply tree_owns_of_claims; assumption.
Qed.

Lemma inv_tree_strong_init cap : inv_tree_strong_b (init_st cap) = true.
Proof. vm_compute. reflexivity. Qed.

Lemma reachable_inv_tree_strong cap ops :
  tree_hyps_run (init_st cap) ops = true -> all_prefixes_ok_t inv_tree_strong_b (init_st cap) ops = true.
Proof.
  generalize (inv_tree_strong_init cap). generalize (inv_core_init cap). generalize (init_st cap).
  induction ops as [|o ops IH]; intros s Hc Hs Hp; cbn [all_prefixes_ok_t]; rewrite Hs; [reflexivity|].
  cbn in Hp. rewrite !andb_true_iff in Hp. destruct Hp as [[Hp1 Hp2] Hp3]. cbn.
  apply IH; [apply inv_core_t_preserved; exact Hc | apply inv_tree_strong_preserved; assumption | exact Hp3].
Qed.
