(* proofs/CleanDirs.v -- directories: the stack discipline of _prune_empty_dirs related to path prefixes.

   1. dirs_pruned_when_empty_full (C07): when remove_deletable_files ends, no marked directory is an
      empty directory -- also when it became empty only because sub-directories were removed during
      the walk towards the root.
      Argument.  The stack is the marked directories in descending code-point order, and every
      pushed parent is popped in the very next iteration.  Take the LAST occurrence of d on the stack.
      Everything below it on the stack is not greater than d, hence neither d nor a path under d
      (under d x implies d < x), and whatever those entries push (their parents) is again neither d
      nor under d.  So once that occurrence of d has been processed -- d removed, or d not an empty
      directory at that moment -- the loop never touches d or anything below d again.
   2. dirs_spare_attached_static_trees_fixed (C06, the positive side of finding D12): with the
      static-tree exemption in Workflow.mark_dir_to_be_deleted (regenerated flag
      mark_dir_skips_static_trees = true), no directory removed by Builder.finalize is the root of, or
      lies inside, a static tree that is attached in the resulting graph.  The marked directories are
      not owned by such a tree, and the parent of a directory that is not owned is not owned either. *)
From Coq Require Import List NArith Bool Lia Sorted.
From SV Require Import lib.Bytes.
From SV Require Import gen.GenClean.
From SV Require Import model.TrellisDD.
From SV Require Import model.Clean.
From SV Require Import proofs.TrellisDDProofs.
From SV Require Import proofs.CleanProofs.
Import ListNotations.
Open Scope N_scope.

(* ---- dirname ------------------------------------------------------------------------------- *)

Lemma drop_last_split r :
  (exists b, r = b ++ SLASH :: drop_last_comp_rev r) \/ drop_last_comp_rev r = [].
Proof.
  induction r as [|c t IH]; [right; reflexivity|].
  cbn [drop_last_comp_rev]. destruct (c =? SLASH) eqn:E.
  - apply N.eqb_eq in E. subst c. left. exists []. reflexivity.
  - destruct IH as [[b Hb]|Hn].
    + left. exists (c :: b). cbn [app]. f_equal. exact Hb.
    + right. exact Hn.
Qed.

(* a path is its dirname, a separator and a rest -- or it has no separator and its dirname is empty *)
Lemma dirname_split p : (exists b, p = dirname p ++ SLASH :: b) \/ dirname p = [].
Proof.
  unfold dirname. destruct (drop_last_split (rev p)) as [[b Hb]|Hn].
  - left. exists (rev b).
    transitivity (rev (b ++ SLASH :: drop_last_comp_rev (rev p))).
    + rewrite <- Hb. symmetry. apply rev_involutive.
    + rewrite rev_app_distr. cbn [rev]. rewrite <- app_assoc. reflexivity.
  - right. rewrite Hn. reflexivity.
Qed.

Lemma parent_ok_nil : parent_ok [] = false.
Proof. reflexivity. Qed.

Lemma under_spec d x : under d x = true <-> exists t, x = d ++ SLASH :: t.
Proof.
  unfold under. rewrite is_prefix_spec. split; intros [t Ht]; exists t; rewrite Ht, <- app_assoc; reflexivity.
Qed.

(* the pushed parent of an entry that is neither d nor below d is neither d nor below d *)
Lemma parent_not_under d x :
  x <> d -> under d x = false -> parent_ok (dirname x) = true ->
  dirname x <> d /\ under d (dirname x) = false.
Proof.
  intros _ Hu Hp. destruct (dirname_split x) as [[b Hb]|Hn].
  - split.
    + intros E. assert (under d x = true) as Hc by (apply under_spec; exists b; rewrite <- E; exact Hb). congruence.
    + destruct (under d (dirname x)) eqn:E; [|reflexivity]. apply under_spec in E. destruct E as [t Ht].
      assert (under d x = true) as Hc.
      { apply under_spec. exists (t ++ SLASH :: b). rewrite Hb at 1. rewrite Ht, <- app_assoc. reflexivity. }
      congruence.
  - rewrite Hn, parent_ok_nil in Hp. discriminate.
Qed.

(* ---- the file system outside the touched paths ------------------------------------------------ *)

Lemma dir_empty_del_other f x d : under d x = false -> dir_empty (fs_del f x) d = dir_empty f d.
Proof.
  intros Hu. unfold dir_empty, fs_del. f_equal. induction f as [|[q e] f IH]; [reflexivity|].
  cbn [filter fst]. destruct (str_eqb q x) eqn:E; cbn [negb].
  - apply str_eqb_eq in E. subst q. cbn [existsb fst]. rewrite Hu. cbn [orb]. exact IH.
  - cbn [existsb fst]. rewrite IH. reflexivity.
Qed.

Lemma rmdir_if_empty_false f d f' :
  rmdir_if_empty f d = (f', false) -> f' = f /\ ~ (fs_get f d = Some FDir /\ dir_empty f d = true).
Proof.
  unfold rmdir_if_empty. intros H. split.
  - destruct (fs_get f d) as [[h| |t]|]; [inversion H; reflexivity | | inversion H; reflexivity | inversion H; reflexivity].
    destruct (dir_empty f d); inversion H. reflexivity.
  - intros [Hg He]. rewrite Hg, He in H. discriminate.
Qed.

Lemma rmdir_if_empty_true f d f' :
  rmdir_if_empty f d = (f', true) -> f' = fs_del f d /\ fs_get f d = Some FDir.
Proof.
  intros H. apply rmdir_if_empty_spec in H. destruct H as [[_ [Hg [_ ->]]]|[H _]]; [split; [reflexivity | exact Hg] | discriminate].
Qed.

(* what the loop does when nothing on the stack is d or below d: d and its content are not touched *)
Lemma prune_loop_frame d fuel : forall todo f log,
  (forall x, In x todo -> x <> d /\ under d x = false) ->
  fs_get (fst (prune_loop fuel todo f log)) d = fs_get f d /\
  dir_empty (fst (prune_loop fuel todo f log)) d = dir_empty f d.
Proof.
  induction fuel as [|fuel IH]; intros todo f log Hall; [split; reflexivity|].
  destruct todo as [|x rest]; [split; reflexivity|].
  destruct (Hall x (or_introl eq_refl)) as [Hxd Hxu].
  assert (Hrest : forall y, In y rest -> y <> d /\ under d y = false) by (intros y Hy; apply Hall; right; exact Hy).
  cbn [prune_loop]. destruct (rmdir_if_empty f x) as [f1 b] eqn:Hr. destruct b.
  - apply rmdir_if_empty_true in Hr. destruct Hr as [-> _].
    assert (Hnew : forall y, In y (if parent_ok (dirname x) then dirname x :: rest else rest) -> y <> d /\ under d y = false).
    { destruct (parent_ok (dirname x)) eqn:Hp; [|exact Hrest].
      intros y [<-|Hy]; [apply parent_not_under; assumption | apply Hrest; exact Hy]. }
    destruct (IH _ (fs_del f x) (x :: log) Hnew) as [H1 H2]. split.
    + rewrite H1. apply fs_get_del_other. congruence.
    + rewrite H2. apply dir_empty_del_other. exact Hxu.
  - apply rmdir_if_empty_false in Hr. destruct Hr as [-> _]. apply IH. exact Hrest.
Qed.

(* the last occurrence of d on the stack decides *)
Lemma prune_loop_full d fuel : forall pre post f log,
  (length (pre ++ d :: post) + length f < fuel)%nat ->
  (forall x, In x post -> x <> d /\ under d x = false) ->
  ~ (fs_get (fst (prune_loop fuel (pre ++ d :: post) f log)) d = Some FDir /\
     dir_empty (fst (prune_loop fuel (pre ++ d :: post) f log)) d = true).
Proof.
  induction fuel as [|fuel IH]; intros pre post f log Hlen Hpost; [lia|].
  destruct pre as [|x pre].
  - cbn [app prune_loop]. destruct (rmdir_if_empty f d) as [f1 b] eqn:Hr. destruct b.
    + apply rmdir_if_empty_true in Hr. destruct Hr as [-> _]. intros [Hg _].
      rewrite prune_loop_none_stays in Hg by apply fs_get_del_same. discriminate.
    + apply rmdir_if_empty_false in Hr. destruct Hr as [-> Hnot].
      destruct (prune_loop_frame d fuel post f log Hpost) as [H1 H2]. rewrite H1, H2. exact Hnot.
  - cbn [app prune_loop]. cbn [app length] in Hlen.
    destruct (rmdir_if_empty f x) as [f1 b] eqn:Hr. destruct b.
    + apply rmdir_if_empty_true in Hr. destruct Hr as [-> Hg].
      pose proof (fs_del_length_lt f x FDir Hg) as Hlt.
      destruct (parent_ok (dirname x)).
      * apply (IH (dirname x :: pre) post); [cbn [app length]; lia | exact Hpost].
      * apply (IH pre post); [lia | exact Hpost].
    + apply rmdir_if_empty_false in Hr. destruct Hr as [-> _]. apply (IH pre post); [lia | exact Hpost].
Qed.

(* ---- the initial stack is sorted in descending order --------------------------------------- *)

Definition ge_str (a b : str) : Prop := lex_lt a b = false.

Lemma ge_str_trans a b c : ge_str a b -> ge_str b c -> ge_str a c.
Proof.
  unfold ge_str. intros Hab Hbc. destruct (lex_lt a c) eqn:E; [|reflexivity]. exfalso.
  destruct (lex_total a b) as [H|[H|H]].
  - congruence.
  - subst. congruence.
  - pose proof (lex_lt_trans b a c H E). congruence.
Qed.

Lemma insert_desc_in x l y : In y (insert_desc x l) -> y = x \/ In y l.
Proof.
  induction l as [|a l IH]; cbn [insert_desc]; intros H.
  - destruct H as [<-|[]]. left. reflexivity.
  - destruct (lex_lt x a).
    + destruct H as [<-|H]; [right; left; reflexivity|]. destruct (IH H) as [->|H']; [left; reflexivity | right; right; exact H'].
    + destruct H as [<-|H]; [left; reflexivity | right; exact H].
Qed.

Lemma sort_desc_in l y : In y (sort_desc l) -> In y l.
Proof.
  induction l as [|a l IH]; intros H; [destruct H|]. cbn [sort_desc fold_right] in H.
  apply insert_desc_in in H. destruct H as [->|H]; [left; reflexivity | right; apply IH; exact H].
Qed.

Lemma dedup_in l y : In y (dedup l) -> In y l.
Proof.
  induction l as [|a l IH]; intros H; [destruct H|]. cbn [dedup] in H.
  destruct (existsb (str_eqb a) l); [right; apply IH; exact H|].
  destruct H as [<-|H]; [left; reflexivity | right; apply IH; exact H].
Qed.

Lemma insert_desc_sorted x l : StronglySorted ge_str l -> StronglySorted ge_str (insert_desc x l).
Proof.
  induction l as [|y t IH]; intros Hs; cbn [insert_desc].
  - constructor; constructor.
  - pose proof (StronglySorted_inv Hs) as [Hst Hall]. destruct (lex_lt x y) eqn:E.
    + constructor; [apply IH; exact Hst|]. apply Forall_forall. intros z Hz.
      apply insert_desc_in in Hz. destruct Hz as [->|Hz].
      * unfold ge_str. destruct (lex_lt y x) eqn:E2; [|reflexivity].
        pose proof (lex_lt_trans x y x E E2) as H. rewrite lex_lt_irrefl in H. discriminate.
      * rewrite Forall_forall in Hall. apply Hall. exact Hz.
    + constructor; [exact Hs|]. constructor; [exact E|].
      apply Forall_forall. intros z Hz. rewrite Forall_forall in Hall. apply (ge_str_trans x y z E (Hall z Hz)).
Qed.

Lemma sort_desc_sorted l : StronglySorted ge_str (sort_desc l).
Proof.
  induction l as [|a l IH]; [constructor|]. cbn [sort_desc fold_right]. apply insert_desc_sorted. exact IH.
Qed.

Lemma sorted_after d : forall pre post, StronglySorted ge_str (pre ++ d :: post) -> Forall (ge_str d) post.
Proof.
  induction pre as [|a pre IH]; intros post Hs; cbn [app] in Hs; pose proof (StronglySorted_inv Hs) as [Hs' Hall].
  - exact Hall.
  - apply IH. exact Hs'.
Qed.

Lemma str_eq_dec (a b : str) : {a = b} + {a <> b}.
Proof. apply list_eq_dec. apply N.eq_dec. Qed.

Lemma in_split_last (d : str) l : In d l -> exists pre post, l = pre ++ d :: post /\ ~ In d post.
Proof.
  induction l as [|a l IH]; intros Hin; [destruct Hin|].
  destruct (in_dec str_eq_dec d l) as [Hl|Hl].
  - destruct (IH Hl) as [pre [post [-> Hn]]]. exists (a :: pre), post. split; [reflexivity | exact Hn].
  - destruct Hin as [->|Hin]; [|contradiction]. exists [], l. split; [reflexivity | exact Hl].
Qed.

(* a path below d is greater than d in code-point order *)
Lemma under_lex_lt d x : under d x = true -> lex_lt d x = true.
Proof.
  intros H. apply under_spec in H. destruct H as [t ->].
  induction d as [|a d IH]; cbn [app lex_lt]; [reflexivity|].
  rewrite N.eqb_refl, IH. cbn [andb]. apply orb_true_r.
Qed.

(* ---- C07: no marked directory is an empty directory when the cleanup ends ------------------- *)

Theorem dirs_pruned_when_empty_full_holds : dirs_pruned_when_empty_full.
Proof.
  intros q f d Hin. cbv zeta. unfold remove_deletable_files.
  destruct (rdf_files q _ f []) as [f1 flog] eqn:H1.
  destruct (prune_dirs (qdirs q) f1) as [f2 dlog] eqn:H2. cbn [r_fs].
  rewrite prune_dirs_eq in H2.
  assert (In d (sort_desc (dedup (qdirs q)))) as Hd by (apply in_sort_desc, in_dedup; exact Hin).
  destruct (in_split_last d _ Hd) as [pre [post [Hsplit Hnot]]].
  pose proof (sort_desc_sorted (dedup (qdirs q))) as Hsorted.
  rewrite Hsplit in Hsorted, H2.
  pose proof (prune_loop_full d (prune_fuel (pre ++ d :: post) f1) pre post f1 []) as Hp.
  rewrite H2 in Hp. cbn [fst] in Hp. apply Hp.
  - unfold prune_fuel. lia.
  - intros x Hx. split; [intros ->; contradiction|].
    destruct (under d x) eqn:Hu; [|reflexivity]. apply under_lex_lt in Hu.
    apply sorted_after in Hsorted. rewrite Forall_forall in Hsorted. specialize (Hsorted x Hx).
    unfold ge_str in Hsorted. congruence.
Qed.

(* ---- C06 / D12, positive side ---------------------------------------------------------------- *)

(* d is neither the root of the tree labelled lbl (labels end in a separator) nor inside it *)
Definition unowned (lbl d : str) : Prop := is_prefix lbl (d ++ [SLASH]) = false.

Lemma owned_by_tree_in trees lbl d : In lbl trees -> owned_by_tree trees d = false -> unowned lbl d.
Proof.
  unfold owned_by_tree, unowned. intros Hin H. destruct (is_prefix lbl (d ++ [SLASH])) eqn:E; [|reflexivity].
  assert (existsb (fun t => is_prefix t (d ++ [SLASH])) trees = true) as Hx
    by (apply existsb_exists; exists lbl; split; assumption).
  congruence.
Qed.

Section Unowned.
Variable lbl : str.
Hypothesis Hflag : mark_dir_skips_static_trees = true.

Definition qdirs_unowned (q : queue) : Prop := forall d, In d (qdirs q) -> unowned lbl d.

Lemma mark_dir_unowned trees q x : In lbl trees -> qdirs_unowned q -> qdirs_unowned (mark_dir trees q x).
Proof.
  intros Hin Hq d Hd. unfold mark_dir in Hd. cbv zeta in Hd. rewrite Hflag in Hd. cbn [andb] in Hd.
  destruct (is_dot (normdir x) || owned_by_tree trees (normdir x)) eqn:E; [apply Hq; exact Hd|].
  cbn [qdirs] in Hd. destruct Hd as [<-|Hd]; [|apply Hq; exact Hd].
  apply orb_false_iff in E. destruct E as [_ E]. apply (owned_by_tree_in trees); assumption.
Qed.

Lemma qfile_set_unowned q p v : qdirs_unowned q -> qdirs_unowned (qfile_set q p v).
Proof. intros H. exact H. Qed.

Lemma before_delete_unowned trees n q : In lbl trees -> qdirs_unowned q -> qdirs_unowned (before_delete trees n q).
Proof.
  intros Hin Hq. unfold before_delete. destruct (nkind n =? KFILE).
  - apply mark_dir_unowned; [exact Hin|].
    destruct (memN (nfstate n) bd_volatile_states); [apply qfile_set_unowned; exact Hq|].
    destruct (memN (nfstate n) bd_hashed_states); [|exact Hq].
    destruct (nfhash n); [apply qfile_set_unowned; exact Hq | exact Hq].
  - destruct (nkind n =? KSTEP); [apply mark_dir_unowned; assumption | exact Hq].
Qed.

Lemma queue_deleted_unowned trees l : forall q, In lbl trees -> qdirs_unowned q -> qdirs_unowned (queue_deleted trees l q).
Proof.
  unfold queue_deleted. induction l as [|x l IH]; intros q Hin Hq; [exact Hq|].
  cbn [fold_left]. apply IH; [exact Hin | apply before_delete_unowned; assumption].
Qed.

Lemma revert_queue_node_unowned trees n q : In lbl trees -> qdirs_unowned q -> qdirs_unowned (revert_queue_node trees n q).
Proof.
  intros Hin Hq. unfold revert_queue_node. apply mark_dir_unowned; [exact Hin|].
  destruct (nfstate n =? revert_exempt); [apply qfile_set_unowned; exact Hq|].
  destruct (nfhash n); [apply qfile_set_unowned; exact Hq | exact Hq].
Qed.

Lemma revert_optional_unowned g q :
  In lbl (attached_tree_labels g) -> qdirs_unowned q -> qdirs_unowned (snd (revert_optional g q)).
Proof.
  intros Hin Hq. unfold revert_optional. cbn [snd].
  generalize (filter (is_revert_target g) (gnodes g)). intros l. revert q Hq.
  induction l as [|a l IH]; intros q Hq; [exact Hq|]. cbn [fold_left]. apply IH.
  apply revert_queue_node_unowned; assumption.
Qed.

(* the parent of an unowned directory is unowned *)
Lemma parent_unowned x : unowned lbl x -> parent_ok (dirname x) = true -> unowned lbl (dirname x).
Proof.
  unfold unowned. intros Hx Hp. destruct (dirname_split x) as [[b Hb]|Hn].
  - destruct (is_prefix lbl (dirname x ++ [SLASH])) eqn:E; [|reflexivity].
    apply is_prefix_spec in E. destruct E as [t Ht].
    assert (is_prefix lbl (x ++ [SLASH]) = true) as Hc.
    { apply is_prefix_spec. exists (t ++ b ++ [SLASH]). rewrite Hb at 1.
      rewrite app_assoc, <- Ht, <- !app_assoc. reflexivity. }
    congruence.
  - rewrite Hn, parent_ok_nil in Hp. discriminate.
Qed.

Lemma prune_loop_log_unowned fuel : forall todo f log,
  (forall d, In d todo -> unowned lbl d) -> (forall d, In d log -> unowned lbl d) ->
  forall d, In d (snd (prune_loop fuel todo f log)) -> unowned lbl d.
Proof.
  induction fuel as [|fuel IH]; intros todo f log Htodo Hlog; [exact Hlog|].
  destruct todo as [|x rest]; [exact Hlog|].
  cbn [prune_loop]. destruct (rmdir_if_empty f x) as [f1 b]. destruct b.
  - apply IH.
    + destruct (parent_ok (dirname x)) eqn:Hp.
      * intros d [<-|Hd]; [apply parent_unowned; [apply Htodo; left; reflexivity | exact Hp] | apply Htodo; right; exact Hd].
      * intros d Hd. apply Htodo. right. exact Hd.
    + intros d [<-|Hd]; [apply Htodo; left; reflexivity | apply Hlog; exact Hd].
  - apply IH; [intros d Hd; apply Htodo; right; exact Hd | exact Hlog].
Qed.

Lemma rdf_dirs_unowned q f : qdirs_unowned q -> forall d, In d (r_dirs (remove_deletable_files q f)) -> unowned lbl d.
Proof.
  intros Hq d Hd. unfold remove_deletable_files in Hd.
  destruct (rdf_files q _ f []) as [f1 flog]. destruct (prune_dirs (qdirs q) f1) as [f2 dlog] eqn:H2.
  cbn [r_dirs] in Hd. apply in_rev in Hd. rewrite prune_dirs_eq in H2.
  pose proof (prune_loop_log_unowned (prune_fuel (sort_desc (dedup (qdirs q))) f1) (sort_desc (dedup (qdirs q))) f1 []) as Hp.
  rewrite H2 in Hp. cbn [snd] in Hp. apply Hp; [| intros x [] | exact Hd].
  intros x Hx. apply Hq. apply dedup_in, sort_desc_in. exact Hx.
Qed.

End Unowned.

(* where the nodes of the resulting graph come from *)
Lemma dd_loop_nodes_sub fuel : forall g acc n, In n (gnodes (fst (dd_loop fuel g acc))) -> In n (gnodes g).
Proof.
  induction fuel as [|fuel IH]; intros g acc n Hn; [exact Hn|].
  cbn [dd_loop] in Hn. destruct (find (eligible g) (gnodes g)) as [x|]; [|exact Hn].
  apply IH in Hn. apply del_node_nodes_in in Hn. apply Hn.
Qed.

Lemma final_node_origin g n :
  In n (gnodes (dd_g (workflow_dd (fst (revert_optional g empty_queue))))) ->
  exists m, In m (gnodes g) /\ nkey m = nkey n /\ (ndet n = false -> ndet m = false) /\
            nfstate n = nfstate (revert_node g m) /\ nfhash n = nfhash (revert_node g m).
Proof.
  intros Hn. unfold workflow_dd in Hn. rewrite trellis_dd_graph in Hn. cbn [gnodes] in Hn.
  apply in_map_iff in Hn. destruct Hn as [n1 [<- Hn1]].
  unfold dd_raw in Hn1. apply dd_loop_nodes_sub in Hn1.
  unfold prestep in Hn1. cbn [gnodes] in Hn1. apply in_map_iff in Hn1. destruct Hn1 as [n2 [<- Hn2]].
  unfold revert_optional in Hn2. cbn [fst gnodes] in Hn2. apply in_map_iff in Hn2. destruct Hn2 as [m [<- Hm]].
  exists m. split; [exact Hm|].
  rewrite after_lost_key, after_lost_det, after_lost_fstate, after_lost_fhash,
          prestep_node_key, prestep_node_fstate, prestep_node_fhash, revert_node_key.
  split; [reflexivity|]. split; [|split; reflexivity].
  intros Hd. apply prestep_node_attached in Hd. rewrite revert_node_det in Hd. exact Hd.
Qed.

Lemma attached_tree_label_in g m : In m (gnodes g) -> nkind m = KTREE -> ndet m = false -> In (nlabel m) (attached_tree_labels g).
Proof.
  intros Hm Hk Hd. unfold attached_tree_labels. apply in_map. apply filter_In. split; [exact Hm|].
  rewrite Hk, Hd. reflexivity.
Qed.

Theorem dirs_spare_attached_static_trees_fixed :
  mark_dir_skips_static_trees = true ->
  forall c g f d t,
    let r := finalize c (init_state g f) in
    In d (s_dirs r) -> In t (gnodes (s_g r)) -> nkind t = KTREE -> ndet t = false ->
    is_prefix (nlabel t) (d ++ [SLASH]) = false.
Proof.
  intros Hflag c g f d t. cbv zeta. intros Hd Ht Hk Hdet.
  destruct (existsb (guard_fires c) finalize_guards) eqn:Hg.
  - unfold finalize, finalize_with in Hd. rewrite Hg in Hd. destruct Hd.
  - rewrite (finalize_unguarded c g f Hg) in Hd, Ht.
    destruct (revert_optional g empty_queue) as [g1 q1] eqn:Hrev. cbv zeta in Hd, Ht. cbn [s_dirs s_g] in Hd, Ht.
    assert (g1 = fst (revert_optional g empty_queue)) as Hg1 by (rewrite Hrev; reflexivity).
    assert (q1 = snd (revert_optional g empty_queue)) as Hq1 by (rewrite Hrev; reflexivity).
    rewrite Hg1 in Ht. destruct (final_node_origin g t Ht) as [m [Hm [Hkm [Hdm _]]]].
    assert (nkind m = KTREE) as Hkind by (unfold nkind in *; rewrite Hkm; exact Hk).
    assert (nlabel m = nlabel t) as Hlab by (unfold nlabel; rewrite Hkm; reflexivity).
    pose proof (attached_tree_label_in g m Hm Hkind (Hdm Hdet)) as Hin0. rewrite Hlab in Hin0.
    assert (In (nlabel t) (attached_tree_labels g1)) as Hin1.
    { rewrite Hg1. unfold revert_optional. cbn [fst]. unfold attached_tree_labels. cbn [gnodes].
      apply in_map_iff. exists (revert_node g m). split.
      - unfold nlabel. rewrite revert_node_key. exact Hlab.
      - apply filter_In. split; [apply in_map; exact Hm|].
        unfold nkind. rewrite revert_node_key, revert_node_det. unfold nkind in Hkind. rewrite Hkind, (Hdm Hdet). reflexivity. }
    apply (rdf_dirs_unowned (nlabel t) (queue_deleted (attached_tree_labels g1) (dd_deleted (workflow_dd g1)) q1) f); [|exact Hd].
    apply (queue_deleted_unowned (nlabel t) Hflag); [exact Hin1|].
    rewrite Hq1. apply (revert_optional_unowned (nlabel t) Hflag); [exact Hin0|]. intros x [].
Qed.

(* in particular the statement that finding D12 refuted for the code before the fix *)
Corollary dirs_spare_attached_static_trees_holds :
  mark_dir_skips_static_trees = true -> dirs_spare_attached_static_trees.
Proof.
  intros Hflag c g f d t. cbv zeta. intros Hd Ht Hk Hdet E.
  pose proof (dirs_spare_attached_static_trees_fixed Hflag c g f d t Hd Ht Hk Hdet) as H.
  rewrite E, is_prefix_refl in H. discriminate.
Qed.
