(* proofs/CrashStartupGen.v -- C05: the general principle behind a restartable startup sequence.

   A startup sequence is a list of phases; a phase computes, from the durable state it finds, the
   transactions it commits.  A kill keeps the committed prefix and loses the memory; the restart
   runs the WHOLE sequence again on what it finds.  The restart reaches the state of the
   uninterrupted sequence when every phase

     idem     restarted after any number of its own transactions, it ends where the uninterrupted
              phase ends (the evidence it works from is only discarded by the transaction that
              also does the work the evidence calls for);
     est/fix  once complete it is settled: run again it changes nothing;
     pres     the transactions of the LATER phases keep it settled (they do not create evidence
              for an earlier phase).

   Everything is relative to an invariant [I] that all transactions preserve. *)
From Coq Require Import List NArith Bool Lia.
From SV Require Import lib.Bytes model.Graph model.GraphInv model.Crash model.CrashStartup proofs.CrashProofs.
Import ListNotations.

(* the crash states of a sequence: inside the first phase, or after it inside the rest *)
Inductive reach_crash : list phase -> xst -> xst -> Prop :=
| RC_here ph rest s j c : run_items (firstn j (ph s)) s = Ok c -> reach_crash (ph :: rest) s c
| RC_later ph rest s s' c : run_phase ph s = Ok s' -> reach_crash rest s' c -> reach_crash (ph :: rest) s c.

(* every transaction a phase may compute keeps P, whatever state it is applied to *)
Definition phase_keeps (P : xst -> Prop) (ph : phase) : Prop :=
  forall s t, In t (ph s) -> forall y y', P y -> t y = Ok y' -> P y'.

Lemma run_items_keeps (P : xst -> Prop) items :
  (forall t, In t items -> forall y y', P y -> t y = Ok y' -> P y') ->
  forall s s', P s -> run_items items s = Ok s' -> P s'.
Proof.
  unfold run_items. induction items as [|t items IH]; intros Hk s s' Hs H; cbn [foldM] in H.
  - inversion H. subst. exact Hs.
  - apply bind_ok in H. destruct H as [s1 [H1 H2]].
    apply (IH (fun t0 Hin => Hk t0 (or_intror Hin)) s1 s'); [|exact H2].
    eapply (Hk t (or_introl eq_refl)); eassumption.
Qed.

Lemma firstn_In {A} (l : list A) n x : In x (firstn n l) -> In x l.
Proof. revert n. induction l as [|a l IH]; intros [|n]; cbn; try tauto. intros [H|H]; [left; exact H | right; eapply IH; exact H]. Qed.

Lemma run_phase_keeps P ph : phase_keeps P ph -> forall s s', P s -> run_phase ph s = Ok s' -> P s'.
Proof. intros Hk s s' Hs H. eapply run_items_keeps; [|exact Hs|exact H]. intros t Hin. apply (Hk s t Hin). Qed.

Lemma prefix_keeps P ph : phase_keeps P ph ->
  forall s j c, P s -> run_items (firstn j (ph s)) s = Ok c -> P c.
Proof.
  intros Hk s j c Hs H. eapply run_items_keeps; [|exact Hs|exact H].
  intros t Hin. apply (Hk s t). eapply firstn_In. exact Hin.
Qed.

Lemma reach_crash_keeps P phs : Forall (phase_keeps P) phs ->
  forall s c, reach_crash phs s c -> P s -> P c.
Proof.
  intros HF s c H. induction H as [ph rest s j c H | ph rest s s' c H1 H2 IH]; intros Hs; inversion HF; subst.
  - eapply prefix_keeps; eassumption.
  - apply IH; [assumption|]. eapply run_phase_keeps; eassumption.
Qed.

(* the conditions, for a sequence of (phase, what "settled" means for it) *)
Inductive good (I : xst -> Prop) : list (phase * (xst -> Prop)) -> Prop :=
| good_nil : good I []
| good_cons (ph : phase) (settled : xst -> Prop) (rest : list (phase * (xst -> Prop))) :
    (forall s j c, I s -> run_items (firstn j (ph s)) s = Ok c -> run_phase ph c = run_phase ph s) ->
    (forall s s', I s -> run_phase ph s = Ok s' -> settled s') ->
    (forall s, I s -> settled s -> run_phase ph s = Ok s) ->
    Forall (phase_keeps settled) (map fst rest) ->
    good I rest -> good I ((ph, settled) :: rest).

Lemma run_phases_cons ph rest s :
  run_phases (ph :: rest) s = (do s' <- run_phase ph s; run_phases rest s').
Proof. reflexivity. Qed.

Theorem crash_restart_general (I : xst -> Prop) phs :
  good I phs -> Forall (phase_keeps I) (map fst phs) ->
  forall s c, I s -> reach_crash (map fst phs) s c ->
    run_phases (map fst phs) c = run_phases (map fst phs) s.
Proof.
  intros HG. induction HG as [|ph settled rest Hidem Hest Hfix Hpres HG IH]; intros HI s c Is H; cbn [map fst] in *.
  - inversion H.
  - inversion HI as [|? ? HIph HIrest]; subst.
    inversion H as [ph0 rest0 s0 j c0 Hj | ph0 rest0 s0 s' c0 H1 H2]; subst.
    + rewrite !run_phases_cons. rewrite (Hidem s j c Is Hj). reflexivity.
    + assert (Is' : I s') by (eapply run_phase_keeps; eassumption).
      assert (Ic : I c) by (eapply reach_crash_keeps; eassumption).
      assert (Sc : settled c).
      { eapply reach_crash_keeps; [exact Hpres | exact H2 |]. exact (Hest s s' Is H1). }
      rewrite !run_phases_cons. rewrite (Hfix c Ic Sc), H1. cbn [bind].
      apply (IH HIrest s' c Is' H2).
Qed.

(* the executable crash point is such a crash state *)
Lemma crash_at_reach phs : forall k s c, phs <> [] -> crash_at phs k s = Ok c -> reach_crash phs s c.
Proof.
  induction phs as [|ph rest IH]; intros k s c Hne H; [contradiction|]. cbn [crash_at] in H.
  destruct (Nat.leb k (length (ph s))) eqn:E.
  - eapply RC_here. exact H.
  - apply bind_ok in H. destruct H as [s' [H1 H2]].
    destruct rest as [|ph2 rest].
    + cbn [crash_at] in H2. inversion H2. subst c.
      apply (RC_here ph [] s (length (ph s)) s'). rewrite firstn_all. exact H1.
    + eapply RC_later; [exact H1|]. eapply IH; [discriminate | exact H2].
Qed.
