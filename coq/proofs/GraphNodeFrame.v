(* C09: a frame for the operations that do not declare anything: the node table only decreases --
   nodes are deleted, detached, or lose their creator (ND).  No invariant is needed. *)
From Coq Require Import List NArith Bool Lia.
From SV Require Import lib.Bytes lib.Closure model.Graph model.GraphInv model.GraphTree
  proofs.GraphBase proofs.GraphNodes proofs.GraphInvP proofs.GraphPrims proofs.GraphFrames proofs.GraphCreate
  proofs.GraphOps proofs.GraphTrans proofs.GraphTreeSim.
Import ListNotations.
Open Scope N_scope.

Definition ND (s s' : st) : Prop :=
  forall x n', findn x (nodes s') = Some n' ->
    exists n, findn x (nodes s) = Some n /\ (ncre n' = None \/ ncre n' = ncre n) /\
              (ndet n = true -> ndet n' = true).

Lemma ND_nodes s s' : nodes s' = nodes s -> ND s s'.
Proof. intros E x n' H. rewrite E in H. exists n'. auto. Qed.
Lemma ND_refl s : ND s s.
Proof. apply ND_nodes. reflexivity. Qed.
Lemma ND_trans s1 s2 s3 : ND s1 s2 -> ND s2 s3 -> ND s1 s3.
Proof.
  intros A B x n3 H3. destruct (B x n3 H3) as [n2 [H2 [C2 D2]]]. destruct (A x n2 H2) as [n1 [H1 [C1 D1]]].
  exists n1. split; [exact H1|]. split; [|auto].
  destruct C2 as [C2|C2]; [left; exact C2|]. destruct C1 as [C1|C1]; [left | right]; congruence.
Qed.

Lemma node_detach_ND k s s' : node_detach k s = Ok s' -> ND s s'.
Proof.
  unfold node_detach. destruct (find_node k s) as [n|] eqn:Hf; [|discriminate].
  destruct (ncre n) as [c|]; [|intros H; inversion H; apply ND_refl].
  intros H; inversion H; subst s'. clear H.
  unfold find_node in Hf. fold (findn k (nodes s)) in Hf.
  set (s1 := upd_node k (fun n0 => mkNode (nk n0) None true) s).
  assert (Hn : nodes (if ndet n then s1 else set_detached_rec k true s1) = detach_nodes k n (nodes s)).
  { unfold detach_nodes. destruct (ndet n); reflexivity. }
  intros x n' Hx. rewrite Hn in Hx. exact (detach_nodes_findn _ _ _ _ _ Hf Hx).
Qed.

Lemma delete_node_nodes k s : nodes (delete_node k s) = removen k (nodes s).
Proof. unfold delete_node. destruct k as [[] kl]; reflexivity. Qed.

Lemma delete_node_ND k s : ND s (delete_node k s).
Proof.
  intros x n' Hx. rewrite delete_node_nodes in Hx. unfold removen in Hx. rewrite findn_remove in Hx.
  destruct (key_eqb x k); [discriminate|]. exists n'. auto.
Qed.

Lemma wpg_ND_nodes (r : res st) s : wpg false r (fun s' => nodes s' = nodes s) -> wpg false r (ND s).
Proof. intros H. eapply wpg_weaken; [exact H|]. intros s' Hn. apply ND_nodes. exact Hn. Qed.

Lemma foldM_ND {A} (f : st -> A -> res st) (l : list A) s :
  (forall s a, wpg false (f s a) (ND s)) -> wpg false (foldM f l s) (ND s).
Proof.
  intros Hf. apply (wpg_foldM false f (ND s)); [|apply ND_refl].
  intros s1 a _ H1. eapply wpg_weaken; [apply Hf|]. intros s2 H2. eapply ND_trans; eassumption.
Qed.

Lemma node_detach_NDw k s : wpg false (node_detach k s) (ND s).
Proof. apply wpg_of_ok. intros s' H. eapply node_detach_ND; exact H. Qed.

Lemma wpg_ND_bind (r : res st) (f : st -> res st) s :
  wpg false r (ND s) -> (forall s1, wpg false (f s1) (ND s1)) -> wpg false (bind r f) (ND s).
Proof.
  intros H1 H2. apply wpg_bind. eapply wpg_weaken; [exact H1|]. intros s1 N1.
  eapply wpg_weaken; [apply H2|]. intros s2 N2. eapply ND_trans; eassumption.
Qed.

Lemma set_sstate_NDw l new d s : wpg false (set_sstate l new d s) (ND s).
Proof. apply wpg_of_ok. intros s' H. apply ND_nodes. eapply set_sstate_nodes; exact H. Qed.

Lemma detach_created_steps_ND step s : wpg false (detach_created_steps step s) (ND s).
Proof. unfold detach_created_steps. apply foldM_ND. intros; apply node_detach_NDw. Qed.

Lemma reset_for_rerun_ND step s : wpg false (reset_for_rerun step s) (ND s).
Proof.
  unfold reset_for_rerun.
  set (s2 := set_envs _ _).
  assert (H2 : ND s s2) by (apply ND_nodes; reflexivity).
  eapply wpg_weaken.
  2:{ intros s' H. eapply ND_trans; [exact H2 | exact H]. }
  apply wpg_ND_bind.
  { apply foldM_ND. intros s0 x. eapply wpg_weaken; [apply node_detach_NDw|].
    intros s1 H. eapply ND_trans; [|exact H]. apply ND_nodes. reflexivity. }
  intros s3. apply wpg_ND_bind; [apply detach_created_steps_ND|].
  intros s4. apply wpg_ND_bind; [apply foldM_ND; intros; apply node_detach_NDw|].
  intros s5. apply wpg_ND_bind; [apply foldM_ND; intros; apply node_detach_NDw|].
  intros s6. apply foldM_ND. intros s0 l. apply wpg_ND_nodes. apply mark_file_outdated_nodes.
Qed.

Lemma mark_completed_ND step ok wd s : wpg false (mark_completed step ok wd s) (ND s).
Proof.
  unfold mark_completed. destruct (negb (is_some (find_step step s))); [exact I|]. destruct ok.
  - apply wpg_ND_bind; [apply set_sstate_NDw|]. intros s1.
    apply wpg_ND_bind.
    { apply foldM_ND. intros s0 l. apply wpg_ND_bind.
      - apply wpg_of_ok. intros s2 H. apply ND_nodes. unfold set_fstate in H. eapply set_fstate_hash_nodes; exact H.
      - intros s2. apply wpg_ND_nodes. apply mark_consumers_pending_nodes. }
    intros s2. cbn. apply ND_nodes. unfold store_hash. destruct (has_hash step s2); reflexivity.
  - apply wpg_ND_bind.
    { apply foldM_ND. intros s0 l. apply wpg_of_ok. intros s1 H. apply ND_nodes. unfold set_fstate in H.
      eapply set_fstate_hash_nodes; exact H. }
    intros s1. apply wpg_ND_bind.
    { destruct wd; [|apply set_sstate_NDw]. destruct (find_step step s1); [|exact I]. cbn zeta.
      destruct (sdc s0 + 1 <=? defer_cap s); (eapply wpg_weaken; [apply set_sstate_NDw|]);
        intros s2 H; (eapply ND_trans; [|exact H]); apply ND_nodes; reflexivity. }
    intros s2. apply wpg_ND_bind.
    { destruct (sstate_of step s2) as [[]|]; try (cbn; apply ND_refl). apply detach_created_steps_ND. }
    intros s3. cbn. apply ND_nodes. reflexivity.
Qed.

Lemma delete_detached_ND s : wpg false (delete_detached s) (ND s).
Proof.
  unfold delete_detached.
  assert (Hl : forall fuel lost s0, ND s0 (fst (dd_loop fuel lost s0))).
  { induction fuel as [|fuel IH]; intros lost s0; cbn [dd_loop]; [apply ND_refl|].
    destruct (find _ (nodes s0)); [|apply ND_refl]. eapply ND_trans; [apply delete_node_ND | apply IH]. }
  eapply wpg_weaken.
  - apply foldM_ND. intros s0 c. destruct (find_node c s0); [|cbn; apply ND_refl].
    apply wpg_of_ok. intros s1 H. apply ND_nodes. eapply after_lost_product_nodes; exact H.
  - intros s' H. eapply ND_trans; [apply Hl | exact H].
Qed.

Lemma reset_interrupted_ND s : wpg false (reset_interrupted s) (ND s).
Proof.
  unfold reset_interrupted.
  assert (Hraw : forall l new s0, wpg false (set_sstate_raw l new s0) (ND s0)).
  { intros l new s0. unfold set_sstate_raw. destruct (find_step l s0); [apply set_sstate_NDw | cbn; apply ND_refl]. }
  apply wpg_ND_bind.
  { apply foldM_ND. intros s0 r. destruct (sst r); try (cbn; apply ND_refl). apply Hraw. }
  intros s1. apply wpg_ND_bind.
  { apply foldM_ND. intros s0 r. destruct (sst r); try (cbn; apply ND_refl). apply Hraw. }
  intros s2. apply foldM_ND. intros s0 r.
  destruct (sstate_of (sl r) s0) as [[]|]; try (cbn; apply ND_refl). destruct (is_detached _ s0); [cbn; apply ND_refl|].
  apply wpg_ND_nodes. apply mark_step_pending_nodes.
Qed.

(* the operations that declare nothing *)
Lemma step_op_ND o s : declares_files o = false -> wpg false (step_op o s) (ND s).
Proof.
  intros Hd. destruct o; cbn in Hd; try discriminate; cbn [step_op].
  - apply wpg_ND_nodes. apply update_file_hashes_nodes.
  - apply set_sstate_NDw.
  - apply reset_for_rerun_ND.
  - apply wpg_ND_bind; [apply wpg_ND_nodes; apply update_file_hashes_nodes|]. intros s0.
    apply wpg_ND_bind; [apply wpg_ND_nodes; apply update_file_hashes_nodes|]. intros s1. apply mark_completed_ND.
  - apply wpg_ND_bind; [apply reset_for_rerun_ND|]. intros s1.
    eapply wpg_weaken; [apply set_sstate_NDw|]. intros s2 H. eapply ND_trans; [|exact H]. apply ND_nodes. reflexivity.
  - apply set_sstate_NDw.
  - apply wpg_ND_nodes. apply mark_step_pending_nodes.
  - apply delete_detached_ND.
  - unfold hold. destruct (negb (is_some (find_step label s))); [exact I | cbn; apply ND_nodes; reflexivity].
  - unfold release. destruct (find_step label s); [|exact I]. destruct (shold s0 =? 0); [exact I | cbn; apply ND_nodes; reflexivity].
  - apply reset_interrupted_ND.
Qed.
