(* C10: the recursive products of a node are the same set in both models: Sched.below (the recursive
   CTEs of step.py over node.creator) and Graph.rec_products (RECURSIVELY_SET_DETACHED), under the
   coupling. *)
From Coq Require Import List NArith Bool Arith Lia.
From SV Require Import lib.Bytes lib.Closure lib.SqlExpr gen.GenSched model.Graph model.GraphInv model.Sched
  model.SchedGraph proofs.GraphBase proofs.GraphNodes proofs.GraphInvP proofs.SchedProofs proofs.SchedPrims
  proofs.SchedSeq proofs.SchedSkel proofs.SchedGraphCpl.
Import ListNotations.
Open Scope N_scope.

(* ---- below_fuel is the closure of lib/Closure.v over the creator -> product edges ---- *)
Definition edges_of (nc : list (N * option N)) : list (N * N) :=
  flat_map (fun kc => match snd kc with Some c => [(c, fst kc)] | None => [] end) nc.

Lemma memb_mem_N x l : memb N.eqb x l = mem_N x l.
Proof. reflexivity. Qed.

Lemma more_edges nc acc :
  map fst (filter (fun kc : N * option N => match snd kc with
                            | Some c => mem_N c acc && negb (mem_N (fst kc) acc)
                            | None => false end) nc)
  = map snd (filter (fun e => memb N.eqb (fst e) acc && negb (memb N.eqb (snd e) acc)) (edges_of nc)).
Proof.
  induction nc as [|[k [c|]] nc IH]; [reflexivity| |].
  - cbn [filter snd fst edges_of flat_map app]. fold (edges_of nc). unfold memb, mem_N in *.
    destruct (existsb (N.eqb c) acc && negb (existsb (N.eqb k) acc)); cbn [map fst snd]; rewrite IH; reflexivity.
  - cbn [filter snd fst edges_of flat_map app]. fold (edges_of nc). exact IH.
Qed.

Lemma below_fuel_closure n : forall nc acc,
  below_fuel n nc acc = closure_from N.eqb (edges_of nc) n acc.
Proof.
  induction n as [|n IH]; intros nc acc; [reflexivity|].
  cbn [below_fuel closure_from]. rewrite more_edges.
  destruct (filter (fun e => memb N.eqb (fst e) acc && negb (memb N.eqb (snd e) acc)) (edges_of nc)) as [|e0 new] eqn:E.
  - reflexivity.
  - cbn [map]. rewrite IH. reflexivity.
Qed.

Lemma edges_of_length nc : (length (edges_of nc) <= length nc)%nat.
Proof.
  induction nc as [|[k [c|]] nc' IH]; cbn [edges_of flat_map length app snd]; try fold (edges_of nc'); cbn [length]; lia.
Qed.

Lemma N_eqb_spec' a b : N.eqb a b = true <-> a = b.
Proof. apply N.eqb_eq. Qed.

Lemma below_spec g k x :
  mem_N x (below g k) = true <-> x <> k /\ path (edges_of (node_creators g)) k x.
Proof.
  unfold below. rewrite below_fuel_closure.
  rewrite mem_N_In, filter_In, negb_true_iff, N.eqb_neq, <- mem_N_In, <- memb_mem_N.
  rewrite (closure_spec N.eqb N_eqb_spec' _ _ _ _ (edges_of_length _)).
  split.
  - intros [[a [[<-|[]] Hp]] Hne]. auto.
  - intros [Hne Hp]. split; [|exact Hne]. exists k. split; [left; reflexivity | exact Hp].
Qed.

Lemma edges_of_In nc a b : In (a, b) (edges_of nc) <-> In (b, Some a) nc.
Proof.
  unfold edges_of. rewrite in_flat_map. split.
  - intros [[k [c|]] [Hin He]]; cbn [snd fst] in He; [|contradiction].
    destruct He as [He|[]]. inversion He; subst. exact Hin.
  - intros Hin. exists (b, Some a). split; [exact Hin | left; reflexivity].
Qed.

Section Below.
Variable idf : key -> N.
Hypothesis idf_inj : forall a b, idf a = idf b -> a = b.

Variable s : st.
Variable g : graph.
Hypothesis C : coupled idf s g.
Hypothesis HW : NWl (nodes s).
Hypothesis Hrw : RWl (nodes s) (files s) (steps s) (shash s) (envs s).

Lemma creator_of_In n : In n (nodes s) -> creator_of (nk n) s = ncre n.
Proof.
  intros Hn. unfold creator_of, find_node. fold (findn (nk n) (nodes s)).
  rewrite (In_findn (nodes s) n (nw_nodup _ HW) Hn). reflexivity.
Qed.

Lemma is_detached_In n : In n (nodes s) -> is_detached (nk n) s = ndet n.
Proof.
  intros Hn. unfold is_detached, find_node. fold (findn (nk n) (nodes s)).
  rewrite (In_findn (nodes s) n (nw_nodup _ HW) Hn). reflexivity.
Qed.

(* the node table as Sched sees it: one entry per node of the state *)
Lemma nc_entry b oa : In (b, oa) (node_creators g) <->
  exists n, In n (nodes s) /\ b = idf (nk n) /\ oa = node_cre idf (nk n) s.
Proof.
  unfold node_creators. rewrite !in_app_iff, !in_map_iff. split.
  - intros [[x [E Hx]]|[[f [E Hf]]|[o [E Ho]]]].
    + destruct (in_steps_cpl idf s g x C Hx) as [r [Hr Es]].
      assert (Hk : In (KStep, sl r) (KL (nodes s))) by (apply (rw_steps _ _ _ _ _ Hrw); apply in_map; exact Hr).
      apply in_map_iff in Hk. destruct Hk as [n [Hn1 Hn2]]. exists n. split; [exact Hn2|].
      inversion E; subst b oa. rewrite Hn1.
      pose proof (f_equal q_key Es) as K1. pose proof (f_equal q_creator Es) as K2. cbn in K1, K2. auto.
    + destruct (file_key_cpl idf s g f C Hf) as [r [Hr ->]].
      assert (Hk : In (KFile, fl r) (KL (nodes s))) by (apply (rw_files _ _ _ _ _ Hrw); apply in_map; exact Hr).
      apply in_map_iff in Hk. destruct Hk as [n [Hn1 Hn2]]. exists n. split; [exact Hn2|].
      inversion E; subst b oa. rewrite Hn1. auto.
    + rewrite (cp_others idf s g C) in Ho. unfold others_of in Ho. apply in_map_iff in Ho.
      destruct Ho as [n [<- Hn]]. apply filter_In in Hn. destruct Hn as [Hn _]. exists n.
      inversion E; subst b oa. auto.
  - intros [n [Hn [-> ->]]]. destruct (nk n) as [kd l] eqn:Ek. destruct kd.
    + right. right. exists (other_of idf s n). split; [unfold other_of; rewrite Ek; reflexivity|].
      rewrite (cp_others idf s g C). unfold others_of. apply in_map. apply filter_In. split; [exact Hn|].
      rewrite Ek. reflexivity.
    + right. left.
      assert (Hl : In l (FL (files s))).
      { apply (rw_files _ _ _ _ _ Hrw). rewrite <- Ek. apply in_map. exact Hn. }
      apply in_map_iff in Hl. destruct Hl as [r [Hr1 Hr2]]. exists (file_of idf s r).
      split; [unfold file_of; cbn [f_key f_creator]; rewrite Hr1; reflexivity|].
      rewrite (cp_files idf s g C). apply in_map. exact Hr2.
    + left.
      assert (Hl : In l (SL (steps s))).
      { apply (rw_steps _ _ _ _ _ Hrw). rewrite <- Ek. apply in_map. exact Hn. }
      apply in_map_iff in Hl. destruct Hl as [r [Hr1 Hr2]].
      assert (Hx : In (row_sk idf s r) (sks g)) by (rewrite (cp_steps idf s g C); apply in_map; exact Hr2).
      unfold sks in Hx. apply in_map_iff in Hx. destruct Hx as [x [Hx1 Hx2]]. exists x. split; [|exact Hx2].
      pose proof (f_equal q_key Hx1) as K1. pose proof (f_equal q_creator Hx1) as K2. cbn in K1, K2.
      rewrite K1, K2, Hr1. reflexivity.
    + right. right. exists (other_of idf s n). split; [unfold other_of; rewrite Ek; reflexivity|].
      rewrite (cp_others idf s g C). unfold others_of. apply in_map. apply filter_In. split; [exact Hn|].
      rewrite Ek. reflexivity.
Qed.

Lemma node_cre_some n a : In n (nodes s) -> node_cre idf (nk n) s = Some a <->
  (nk n <> root_key /\ exists c, ncre n = Some c /\ a = idf c).
Proof.
  intros Hn. unfold node_cre. destruct (key_eqb (nk n) root_key) eqn:E.
  - apply key_eqb_eq in E. split; [discriminate | intros [H _]; contradiction].
  - apply key_eqb_neq in E. rewrite (creator_of_In n Hn). destruct (ncre n) as [c|]; cbn [oid option_map].
    + split; [intros H; inversion H; split; [exact E | exists c; auto] | intros [_ [c' [Hc ->]]]; inversion Hc; reflexivity].
    + split; [discriminate | intros [_ [c' [Hc _]]]; discriminate].
Qed.

Lemma edges_cpl a b : In (a, b) (edges_of (node_creators g)) <->
  exists c y, a = idf c /\ b = idf y /\ In (c, y) (pedges (nodes s)).
Proof.
  rewrite edges_of_In, nc_entry. split.
  - intros [n [Hn [-> Ha]]]. symmetry in Ha. apply (node_cre_some n a Hn) in Ha.
    destruct Ha as [Hr [c [Hc ->]]]. exists c, (nk n). split; [reflexivity|]. split; [reflexivity|].
    apply pedges_In. exists n. split; [exact Hn|]. split; [reflexivity|]. split; [exact Hc|].
    pose proof (nw_local _ HW n Hn Hr) as Hl. unfold local_ok in Hl. rewrite Hc in Hl. destruct Hl as [Hl _].
    congruence.
  - intros [c [y [-> [-> He]]]]. apply pedges_In in He. destruct He as [n [Hn [Hk [Hc Hne]]]].
    exists n. split; [exact Hn|]. split; [congruence|]. symmetry. rewrite <- Hk in *.
    apply (node_cre_some n (idf c) Hn). split; [|exists c; auto].
    intros Hr. pose proof (findn_root_key _ n HW Hn Hr) as ->. cbn in Hc. inversion Hc. subst c. apply Hne. exact Hr.
Qed.

Lemma path_cpl k x : path (edges_of (node_creators g)) (idf k) x <->
  exists y, x = idf y /\ path (pedges (nodes s)) k y.
Proof.
  split.
  - intros Hp. remember (idf k) as a eqn:Ea. revert k Ea.
    induction Hp as [a|a b c He Hp IH]; intros k ->.
    + exists k. split; [reflexivity | apply path_refl].
    + apply edges_cpl in He. destruct He as [c0 [y0 [E1 [-> He]]]]. apply idf_inj in E1. subst c0.
      destruct (IH y0 eq_refl) as [y [-> Hy]]. exists y. split; [reflexivity|].
      eapply path_step; eassumption.
  - intros [y [-> Hp]]. induction Hp as [a|a b c He Hp IH]; [apply path_refl|].
    eapply path_step; [|exact IH]. apply edges_cpl. exists a, b. auto.
Qed.

(* the recursive products agree *)
Theorem below_cpl k x : mem_N x (below g (idf k)) = true <->
  exists y, x = idf y /\ mem_key y (rec_products k s) = true.
Proof.
  rewrite below_spec, path_cpl. rewrite rec_products_recl. split.
  - intros [Hne [y [-> Hp]]]. exists y. split; [reflexivity|]. apply recl_spec. split; [congruence | exact Hp].
  - intros [y [-> Hy]]. apply recl_spec in Hy. destruct Hy as [Hne Hp].
    split; [intros E; apply idf_inj in E; contradiction | exists y; auto].
Qed.

Corollary below_cpl_key k y : mem_N (idf y) (below g (idf k)) = mem_key y (rec_products k s).
Proof.
  destruct (mem_key y (rec_products k s)) eqn:E.
  - apply below_cpl. exists y. auto.
  - destruct (mem_N (idf y) (below g (idf k))) eqn:E'; [|reflexivity].
    apply below_cpl in E'. destruct E' as [y' [Hy Hm]]. apply idf_inj in Hy. subst y'. congruence.
Qed.

End Below.
