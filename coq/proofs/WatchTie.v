(* C14 <-> the statement-level translations that C17 maintains (translator/gen_nglob_batch.py ->
   gen/GenNglobBatch.v, translator/gen_nglob_code.py -> gen/GenNglobCode.v; tied to C17's models by
   proofs/NglobBatchTie.v and proofs/NglobCodeTie.v).

   C14 does not fingerprint Watcher.record_change, Workflow.process_nglob_changes, NamedGlob.will_change /
   extend / reduce: this file proves, for ALL inputs, that the code AS TRANSLATED ON THIS RUN computes what
   C14's own model (model/Watch.v: record / fold_changes, overlap, evolved) says.  The proofs go through
   C17's hand-written models (NglobBatch.record_change, Nglob.extend / reduce) and never look at the text
   of a generated definition, so a behaviour-preserving rewrite of the code that C17's tie accepts is
   accepted here too, and a rewrite that changes behaviour breaks C17's tie files, which are in the
   closure of props/C14.v. *)
From Coq Require Import List NArith Bool.
From SV Require Import lib.Bytes lib.Regex model.Nglob.
From SV Require model.NglobBatch gen.GenNglobBatch gen.GenNglobCode proofs.NglobProofs proofs.NglobBatchTie proofs.NglobCodeTie.
From SV Require Import gen.GenWatch model.Watch proofs.WatchProofs.
Import ListNotations.
Open Scope N_scope.

Module B := NglobBatch.

(* a queue item of model/Watch.v as a queue item of model/NglobBatch.v *)
Definition to_b (it : item) : B.item :=
  (it_build it, match it_change it with
                | Updated => B.EvUpdated (it_path it)
                | Deleted => B.EvDeleted (it_path it)
                | DeletedParent => B.EvDeletedParent (it_path it)
                end).

(* the two models keep the sets as lists built differently (cons / append): same members *)
Definition same_sets (w : wsets) (st : B.wstate) : Prop :=
  forall p, pmem p (ws_updated w) = mem_str p (B.ws_updated st) /\
            pmem p (ws_deleted w) = mem_str p (B.ws_deleted st).

Lemma mem_str_pmem p l : mem_str p l = pmem p l.
Proof. reflexivity. Qed.

Lemma mem_snoc p l q : mem_str q (l ++ [p]) = mem_str q l || str_eqb q p.
Proof. unfold mem_str. rewrite existsb_app. cbn. rewrite orb_false_r. reflexivity. Qed.

Lemma mem_set_add p l q : mem_str p l = false -> mem_str q (set_add p l) = str_eqb q p || mem_str q l.
Proof. intros H. unfold set_add. rewrite H, mem_snoc. apply orb_comm. Qed.

Lemma mem_set_discard p l q : mem_str q (set_discard p l) = negb (str_eqb q p) && mem_str q l.
Proof.
  unfold set_discard. rewrite mem_str_pmem, pmem_filter, (str_eqb_sym p q). reflexivity.
Qed.

Section Fold.
  Variable rel : bool -> path -> bool.
  Variable under : bool -> path -> list path.

  Lemma add_deleted_same w st q :
    same_sets w st -> same_sets (add_deleted w q) (B.del_guarded st q).
  Proof.
    intros H. unfold add_deleted, B.del_guarded. destruct (H q) as [_ Hd]. rewrite <- Hd.
    destruct (pmem q (ws_deleted w)) eqn:E; cbn [negb]; [exact H|].
    intros p. destruct (H p) as [Hu Hd']. unfold B.del_one. cbn [ws_updated ws_deleted B.ws_updated B.ws_deleted].
    split.
    - rewrite pmem_premove, mem_set_discard, Hu. reflexivity.
    - rewrite pmem_cons, mem_set_add by (symmetry; exact Hd). rewrite Hd'. reflexivity.
  Qed.

  Lemma add_updated_same w st q :
    same_sets w st -> pmem q (ws_updated w) = false -> same_sets (add_updated w q) (B.upd_one st q).
  Proof.
    intros H E. unfold add_updated. rewrite E.
    intros p. destruct (H p) as [Hu Hd]. destruct (H q) as [Hq _]. unfold B.upd_one.
    cbn [ws_updated ws_deleted B.ws_updated B.ws_deleted]. split.
    - rewrite pmem_cons, mem_set_add by (rewrite <- Hq; exact E). rewrite Hu. reflexivity.
    - rewrite pmem_premove, mem_set_discard, Hd. reflexivity.
  Qed.

  Lemma fold_add_deleted_same l : forall w st,
    same_sets w st -> same_sets (fold_left add_deleted l w) (fold_left B.del_guarded l st).
  Proof.
    induction l as [|q l IH]; intros w st H; cbn [fold_left]; [exact H|].
    apply IH. apply add_deleted_same. exact H.
  Qed.

  Lemma record_same w st it :
    same_sets w st ->
    same_sets (record rel under w it) (B.record_change rel under (fst (to_b it)) st (snd (to_b it))).
  Proof.
    intros H. unfold record, to_b. cbn [fst snd]. destruct (it_change it); cbv beta iota delta [B.record_change].
    - (* Updated *)
      destruct (H (it_path it)) as [Hu _]. rewrite <- Hu.
      destruct (pmem (it_path it) (ws_updated w)) eqn:E; cbn [negb]; [exact H|].
      destruct (rel (it_build it) (it_path it)); [|exact H].
      apply add_updated_same; assumption.
    - (* Deleted *)
      destruct (H (it_path it)) as [_ Hd]. rewrite <- Hd.
      destruct (pmem (it_path it) (ws_deleted w)) eqn:E; cbn [negb]; [exact H|].
      destruct (rel (it_build it) (it_path it)); [|exact H].
      pose proof (add_deleted_same w st (it_path it) H) as X.
      unfold B.del_guarded in X. rewrite <- Hd in X. cbn [negb] in X. exact X.
    - apply fold_add_deleted_same. exact H.
  Qed.

  Lemma fold_same items : forall w st,
    same_sets w st ->
    same_sets (fold_changes rel under items w) (B.fold_changes rel under (map to_b items) st).
  Proof.
    induction items as [|it items IH]; intros w st H; [exact H|].
    unfold fold_changes, B.fold_changes. cbn [map fold_left]. apply IH. apply record_same. exact H.
  Qed.

  (* Watcher.record_change AS TRANSLATED, folded over any item list from the empty sets, leaves the sets
     C14's fold model computes *)
  Theorem translated_record_change_is_fold_model items :
    same_sets (fold_changes rel under items ws_empty)
              (fold_left (fun st it => GenNglobBatch.gen_record_change rel under (fst it) st (snd it))
                         (map to_b items) B.ws_empty).
  Proof.
    rewrite NglobBatchTie.gen_fold_changes_eq. apply fold_same. intros p. split; reflexivity.
  Qed.
End Fold.

(* ------------------------------------------------------------------------------------------ *)
(* process_nglob_changes / will_change / extend / reduce                                       *)
(* ------------------------------------------------------------------------------------------ *)

Section Rows.
  Variable K : Type.
  Variable keqb : K -> K -> bool.
  Hypothesis keqb_spec : forall a b, keqb a b = true <-> a = b.
  Variable mv : str -> option K.          (* NamedGlob._match_values of the pattern *)

  Lemma keqb_refl' k : keqb k k = true.
  Proof. apply keqb_spec. reflexivity. Qed.

  (* what extend(updated) then reduce(deleted), AS TRANSLATED (gen_extend / gen_reduce of GenNglobCode.v),
     leaves in files(): recorded or (updated and accepted), and not deleted *)
  Lemma translated_evolution_files r U D p :
    NglobProofs.wf_results K mv r ->
    In p (files (GenNglobCode.gen_reduce K keqb mv (GenNglobCode.gen_extend K keqb mv r U) D))
    <-> (In p (files r) \/ (In p U /\ mv p <> None)) /\ ~ In p D.
  Proof.
    intros Hwf.
    destruct (NglobCodeTie.translated_code_equals_model) as [T _].
    destruct (T K keqb mv keqb_refl') as [Te [Tr _]]. rewrite Te, Tr.
    destruct (NglobProofs.extend_spec K keqb keqb_spec mv U r Hwf) as [Hw1 He].
    destruct (NglobProofs.reduce_spec K keqb keqb_spec mv D _ Hw1) as [_ Hr].
    rewrite (NglobProofs.files_In K). split.
    - intros [k Hk]. apply Hr in Hk as [Hk Hn]. split; [|exact Hn]. apply He in Hk as [Hk|[Hin Hm]].
      + left. apply (NglobProofs.files_In K). exists k. exact Hk.
      + right. split; [exact Hin|congruence].
    - intros [[Hf|[Hin Hm]] Hn].
      + apply (NglobProofs.files_In K) in Hf as [k Hk]. exists k. apply Hr. split; [|exact Hn]. apply He. left. exact Hk.
      + destruct (mv p) as [k|] eqn:E; [|congruence]. exists k. apply Hr. split; [|exact Hn]. apply He. right. split; [exact Hin|exact E].
  Qed.

  (* ... which is the membership predicate of C14's `evolved` (model/Watch.v) for a row whose recorded list
     has the members of files(), when `matches pat` is "the pattern accepts the path" *)
  Theorem translated_will_change_is_evolved
          (matches : N -> path -> bool) (universe : list path) (row : ngrow) (r : results K) (U D : list path) (p : path) :
    NglobProofs.wf_results K mv r ->
    (forall q, matches (ng_pat row) q = true <-> mv q <> None) ->
    (forall q, In q (ng_matches row) <-> In q (files r)) ->
    (In p (evolved matches universe row U D)
     <-> In p universe /\
         In p (files (GenNglobCode.gen_reduce K keqb mv (GenNglobCode.gen_extend K keqb mv r U) D))).
  Proof.
    intros Hwf Hm Hrec. rewrite (translated_evolution_files r U D p Hwf).
    unfold evolved, canon. rewrite filter_In.
    assert (Hacc : In p (files r) -> matches (ng_pat row) p = true).
    { intros Hf. apply Hm. apply (NglobProofs.files_In K) in Hf as [k [ps [Hin Hp]]].
      destruct Hwf as [_ Hall]. rewrite Forall_forall in Hall. destruct (Hall _ Hin) as [_ [_ Hk]].
      cbn [fst snd] in Hk. rewrite (Hk _ Hp). discriminate. }
    split.
    - intros [Hu H]. split; [exact Hu|]. apply andb_true_iff in H as [H1 H2].
      apply negb_true_iff in H2. split.
      + apply orb_true_iff in H1 as [H1|H1].
        * left. apply Hrec. apply pmem_In. exact H1.
        * apply andb_true_iff in H1 as [H1 H1']. right. split; [apply pmem_In; exact H1|apply Hm; exact H1'].
      + intros HD. apply pmem_In in HD. rewrite HD in H2. cbn in H2.
        apply orb_true_iff in H1 as [H1|H1].
        * apply pmem_In, Hrec, Hacc in H1. congruence.
        * apply andb_true_iff in H1 as [_ H1']. congruence.
    - intros [Hu [H1 H2]]. split; [exact Hu|]. apply andb_true_iff. split.
      + apply orb_true_iff. destruct H1 as [H1|[H1 H1']].
        * left. apply pmem_In, Hrec. exact H1.
        * right. apply andb_true_iff. split; [apply pmem_In; exact H1|apply Hm; exact H1'].
      + apply negb_true_iff. destruct (pmem p D) eqn:E; [|reflexivity]. apply pmem_In in E. contradiction.
  Qed.

  (* Workflow.process_nglob_changes AS TRANSLATED: ConsistencyError exactly when C14's overlap test says so,
     otherwise every registration is evolved with will_change(deleted, updated) in that argument order *)
  Theorem translated_process_nglob_changes_shape (regs : list (B.reg K)) (D U : list path) :
    GenNglobBatch.gen_process_nglob_changes keqb regs D U
    = if overlap D U then None
      else Some (map (fun rg => match will_change keqb (fst rg) (snd rg) D U with
                                | None => (rg, false)
                                | Some ev => ((fst rg, ev), true)
                                end) regs).
  Proof. rewrite NglobBatchTie.gen_process_nglob_changes_eq. reflexivity. Qed.
End Rows.
