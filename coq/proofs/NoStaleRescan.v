(* C01, graph level: the startup rescan / watcher commit / confirmation of STATIC files preserves K.
   Workflow.update_file_hashes with any cause, restricted to files whose state is UNCONFIRMED,
   MISSING or CONFIRMED (model: Graph.update_file_hashes): the states are written first, which can
   break K for the consumers of a file that is no longer CONFIRMED, and the follow-up actions
   (handle_updated_file, handle_deleted_file, mark_consuming_steps_pending) repair it. *)
From Coq Require Import List NArith Bool Lia.
From SV Require Import lib.Bytes model.Graph model.NoStale proofs.NoStaleMark.
Import ListNotations.
Open Scope N_scope.

(* K with excused inputs: the inputs in [D] need not be usable *)
Definition KexP (D : str -> Prop) (s : st) : Prop :=
  forall r, In r (steps s) -> sst r = SSucceeded -> is_detached (KStep, sl r) s = false ->
    has_hash (sl r) s = true /\
    (forall k, In k (file_inputs_of_step (sl r) s) -> input_ok k s = true \/ D (snd k)) /\
    (forall f, In f (file_sinks_of_step (sl r) s) -> output_ok f s = true).

Lemma sstate_eqb_succ x : sstate_eqb x SSucceeded = true <-> x = SSucceeded.
Proof. destruct x; cbn; split; intros H; try discriminate; reflexivity. Qed.

Lemma K_b_KexP (s : st) : K_b s = true -> KexP (fun _ => False) s.
Proof.
  unfold K_b. rewrite forallb_forall. intros HK r Hr Hs Hd. specialize (HK r Hr).
  unfold K_step_b in HK. rewrite Hs, Hd in HK. cbn in HK.
  apply andb_true_iff in HK. destruct HK as [HK Ho]. apply andb_true_iff in HK. destruct HK as [Hh Hi].
  rewrite forallb_forall in Hi, Ho. repeat split; auto.
Qed.

Lemma KexP_K_b (D : str -> Prop) (s : st) :
  unique_labels s -> KexP D s ->
  (forall f, D f -> forall l, In l (step_sinks_of_file f s) -> not_succ s l) ->
  K_b s = true.
Proof.
  intros Hu HK HD. unfold K_b. rewrite forallb_forall. intros r Hr. unfold K_step_b.
  destruct (sstate_eqb (sst r) SSucceeded) eqn:Es; [|reflexivity]. apply sstate_eqb_succ in Es.
  destruct (is_detached (KStep, sl r) s) eqn:Ed; [reflexivity|]. cbn [negb orb].
  destruct (HK r Hr Es Ed) as (Hh & Hi & Ho). rewrite Hh. cbn [andb].
  apply andb_true_iff. split; rewrite forallb_forall; [|exact Ho].
  intros k Hk. destruct (Hi k Hk) as [H|H]; [exact H|]. exfalso.
  apply (HD (snd k) H (sl r)).
  - (* r consumes the file snd k *)
    unfold file_inputs_of_step, sources_of in Hk. apply filter_In in Hk. destruct Hk as [Hk Hkind].
    apply in_map_iff in Hk. destruct Hk as (d & Hd & Hdin). apply filter_In in Hdin.
    destruct Hdin as [Hdin Hsnk]. unfold step_sinks_of_file, sinks_of. apply in_map_iff.
    exists (KStep, sl r). split; [reflexivity|]. apply filter_In. split; [|reflexivity].
    apply in_map_iff. exists d. split.
    + unfold key_eqb in Hsnk. apply andb_true_iff in Hsnk. destruct Hsnk as [K1 K2].
      apply str_eqb_eq in K2. destruct (dsnk d) as [kk ll]. cbn in *. destruct kk; try discriminate.
      subst. reflexivity.
    + apply filter_In. split; [exact Hdin|]. unfold key_eqb. subst k. destruct (dsrc d) as [kk ll].
      cbn in *. destruct kk; try discriminate. cbn. apply str_eqb_refl.
  - unfold sstate_of. rewrite (find_step_in s r Hu Hr). rewrite Es. reflexivity.
Qed.

(* marking preserves K with excused inputs *)
Lemma KexP_Mk_Cl (D : str -> Prop) (s s' : st) :
  unique_labels s -> Mk s s' -> Cl s s' -> KexP D s -> KexP D s'.
Proof.
  intros Hu M C HK. pose proof M as ((Nn & Dd & Hh) & Ll & Ss & Ff).
  assert (Hu' : unique_labels s') by (unfold unique_labels; rewrite Ll; exact Hu).
  assert (Hdet : forall k, is_detached k s' = is_detached k s).
  { intros k. unfold is_detached, find_node. rewrite Nn. reflexivity. }
  intros r' Hr' Hs' Hd'.
  assert (Hst' : sstate_of (sl r') s' = Some SSucceeded).
  { unfold sstate_of. rewrite (find_step_in s' r' Hu' Hr'). rewrite Hs'. reflexivity. }
  assert (Hst : sstate_of (sl r') s = Some SSucceeded).
  { destruct (Ss (sl r')) as [E|[E _]]; rewrite Hst' in E; [symmetry; exact E|discriminate]. }
  unfold sstate_of in Hst. destruct (find_step (sl r') s) as [r|] eqn:Ef; [|discriminate].
  injection Hst as Hsr. unfold find_step in Ef. apply find_some in Ef. destruct Ef as [Hin Hlab].
  apply str_eqb_eq in Hlab. rewrite Hdet in Hd'. rewrite <- Hlab in Hd'.
  destruct (HK r Hin Hsr Hd') as (Hha & Hi & Ho). rewrite Hlab in Hha, Hi, Ho.
  assert (Hns : ~ not_succ s' (sl r')) by (intros Hn; apply Hn; exact Hst').
  split; [|split].
  - unfold has_hash in *. rewrite Hh. exact Hha.
  - intros k Hk. unfold file_inputs_of_step, sources_of in Hk. rewrite Dd in Hk.
    destruct (Hi k Hk) as [Hok|HD]; [|right; exact HD]. left. unfold input_ok in *. rewrite Hdet.
    apply andb_true_iff in Hok. destruct Hok as [Ha Hb]. rewrite Ha. cbn [andb].
    destruct (Ff (snd k)) as [E|[B O]]; [rewrite E; exact Hb|].
    exfalso. apply Hns. destruct (C (snd k) B O) as [Hc _]. apply Hc.
    apply filter_In in Hk. destruct Hk as [Hk Hkind]. apply in_map_iff in Hk.
    destruct Hk as (d & Hd & Hdin). apply filter_In in Hdin. destruct Hdin as [Hdin Hsnk].
    unfold step_sinks_of_file, sinks_of. apply in_map_iff. exists (KStep, sl r'). split; [reflexivity|].
    apply filter_In. split; [|reflexivity]. apply in_map_iff. exists d. split.
    + unfold key_eqb in Hsnk. apply andb_true_iff in Hsnk. destruct Hsnk as [K1 K2].
      apply str_eqb_eq in K2. destruct (dsnk d) as [kk ll]. cbn in *. destruct kk; try discriminate.
      subst. reflexivity.
    + apply filter_In. split; [exact Hdin|]. unfold key_eqb. subst k. destruct (dsrc d) as [kk ll].
      cbn in *. destruct kk; try discriminate. cbn. apply str_eqb_refl.
  - intros f Hf. rewrite (Mk_outputs s s' (sl r') M) in Hf. specialize (Ho f Hf).
    unfold output_ok in *. rewrite Hdet. destruct (is_detached (KFile, f) s) eqn:Edf; [reflexivity|].
    cbn [orb] in *. destruct (Ff f) as [E|[B O]]; [rewrite E; exact Ho|].
    exfalso. apply Hns. destruct (C f B O) as [_ Hp]. apply (Hp Edf). exact Hf.
Qed.

(* ------------------------------------------------------------------------------------------ *)
(* Phase 1: the new states of static files are written                                         *)
(* ------------------------------------------------------------------------------------------ *)
(* [s1] is [s] with some STATIC files moved to other STATIC states; a file that was CONFIRMED and
   is not any more is in [Del] *)
Definition Stat (Del : str -> Prop) (s s1 : st) : Prop :=
  same_graph s s1 /\ steps s1 = steps s /\
  forall f, fstate_of f s1 = fstate_of f s \/
            exists a b, fstate_of f s = Some a /\ fstate_of f s1 = Some b /\
                        is_static_state a = true /\ is_static_state b = true /\
                        (a = FConfirmed -> b <> FConfirmed -> Del f).

Lemma Stat_KexP (Del : str -> Prop) (s s1 : st) : K_b s = true -> Stat Del s s1 -> KexP Del s1.
Proof.
  intros HK ((Nn & Dd & Hh) & St & Ff). apply K_b_KexP in HK.
  assert (Hdet : forall k, is_detached k s1 = is_detached k s).
  { intros k. unfold is_detached, find_node. rewrite Nn. reflexivity. }
  intros r Hr Hs Hd. rewrite St in Hr. rewrite Hdet in Hd.
  destruct (HK r Hr Hs Hd) as (Hha & Hi & Ho). split; [|split].
  - unfold has_hash in *. rewrite Hh. exact Hha.
  - intros k Hk. unfold file_inputs_of_step, sources_of in Hk. rewrite Dd in Hk.
    destruct (Hi k Hk) as [Hok|[]]. unfold input_ok in *. rewrite Hdet.
    apply andb_true_iff in Hok. destruct Hok as [Ha Hb]. rewrite Ha. cbn [andb].
    destruct (Ff (snd k)) as [E|(a & b & Ea & Eb & Sa & Sb & HDel)]; [left; rewrite E; exact Hb|].
    rewrite Ea in Hb. rewrite Eb.
    destruct a; try discriminate Hb; try discriminate Sa.
    destruct b; try discriminate Sb; try (left; reflexivity); right; apply HDel; congruence.
  - intros f Hf. unfold file_sinks_of_step, sinks_of in Hf. rewrite Dd in Hf. specialize (Ho f Hf).
    unfold output_ok in *. rewrite Hdet. destruct (is_detached (KFile, f) s); [reflexivity|].
    cbn [orb] in *. destruct (Ff f) as [E|(a & b & Ea & Eb & Sa & Sb & _)]; [rewrite E; exact Ho|].
    rewrite Ea in Ho. destruct a; try discriminate Ho; discriminate Sa.
Qed.

(* the facts about one row of the plan, relative to the ORIGINAL state *)
Definition RowOK (s : st) (x : planrow) : Prop :=
  exists a0, fstate_of (p_path x) s = Some a0 /\ is_static_state a0 = true /\
             is_static_state (p_state x) = true /\
             (a0 = FConfirmed -> p_state x <> FConfirmed -> p_act x = Some ADeleted).

Lemma transition_static (c : cause) (old : fstate) (known : bool) ns act :
  is_static_state old = true -> transition c old known = Some (ns, act) ->
  is_static_state ns = true /\ (old = FConfirmed -> ns <> FConfirmed -> act = Some ADeleted).
Proof.
  intros Hs H. destruct c, old, known; cbn in Hs, H; try discriminate;
    injection H as <- <-; split; try reflexivity; intros; try congruence; try discriminate.
Qed.

(* every file named in the update is static *)
Definition static_update (hs : list (str * option N)) (s : st) : Prop :=
  forall ph r, In ph hs -> find_file (fst ph) s = Some r -> is_static_state (fstt r) = true.

Lemma plan_rows_ok (c : cause) (s : st) (hs : list (str * option N)) :
  static_update hs s ->
  forall acc plan,
    (forall x, In x acc -> RowOK s x) ->
    foldM (fun acc ph =>
             match find_file (fst ph) s with
             | None => Internal 118
             | Some r => match transition c (fstt r) (is_some (snd ph)) with
                         | None => Internal 119
                         | Some (ns, act) => Ok (acc ++ [mkP (fst ph) (snd ph) ns act])
                         end
             end) hs acc = Ok plan ->
    forall x, In x plan -> RowOK s x.
Proof.
  induction hs as [|ph hs IH]; intros Hst acc plan Hacc H; cbn [foldM] in H.
  - injection H as <-. exact Hacc.
  - unfold bind in H. destruct (find_file (fst ph) s) as [r|] eqn:Ef; [|discriminate].
    destruct (transition c (fstt r) (is_some (snd ph))) as [[ns act]|] eqn:Et; [|discriminate].
    refine (IH (fun ph' r' Hin => Hst ph' r' (or_intror Hin)) _ plan _ H).
    intros x Hx. apply in_app_or in Hx. destruct Hx as [Hx|[<-|[]]]; [apply Hacc; exact Hx|].
    pose proof (Hst ph r (or_introl eq_refl) Ef) as Hs.
    destruct (transition_static c (fstt r) _ ns act Hs Et) as [H1 H2].
    exists (fstt r). cbn [p_path p_state p_act]. unfold fstate_of. rewrite Ef. repeat split; auto.
Qed.

(* one write *)
Lemma set_static_state (f : str) (ns : fstate) (h : option N) (s s1 : st) :
  set_fstate_hash f ns (Some h) s = Ok s1 ->
  same_graph s s1 /\ steps s1 = steps s /\
  (forall f', f' <> f -> fstate_of f' s1 = fstate_of f' s) /\
  (fstate_of f s1 = fstate_of f s \/ fstate_of f s1 = Some ns).
Proof.
  unfold set_fstate_hash. destruct (find_file f s) as [r|] eqn:Ef.
  - intros H. cbv zeta in H.
    repeat match type of H with (if ?c then _ else _) = _ => destruct c; try discriminate end.
    injection H as <-.
    match goal with |- context [upd_file f ?g0 s] => set (g := g0) end.
    assert (Hg : forall r0, fl (g r0) = fl r0) by reflexivity.
    split; [repeat split|]. split; [reflexivity|]. split.
    + intros f' Hne. rewrite (fstate_of_upd_file f f' g s Hg). apply str_eqb_false in Hne.
      rewrite Hne. reflexivity.
    + right. rewrite (fstate_of_upd_file f f g s Hg), str_eqb_refl, Ef. reflexivity.
  - intros H. injection H as <-. split; [repeat split|]. split; [reflexivity|]. split; auto.
Qed.

(* the fold of writes: every file keeps its original state or has the state of one of the rows *)
Definition write_row (s : st) (x : planrow) : res st :=
  set_fstate_hash (p_path x) (p_state x)
                  (Some (match p_hash x with Some v => Some v | None => Some 0 end)) s.

Definition WInv (s0 : st) (full : list planrow) (s : st) : Prop :=
  same_graph s0 s /\ steps s = steps s0 /\
  forall f, fstate_of f s = fstate_of f s0 \/
            exists y, In y full /\ p_path y = f /\ fstate_of f s = Some (p_state y).

Lemma writes_inv (s0 : st) (full : list planrow) :
  forall rest s s1,
    (forall y, In y rest -> In y full) -> WInv s0 full s ->
    foldM write_row rest s = Ok s1 -> WInv s0 full s1.
Proof.
  induction rest as [|z rest IH]; intros s s1 Hsub Inv H; cbn [foldM] in H.
  - injection H as <-. exact Inv.
  - unfold bind in H. destruct (write_row s z) as [s2| |] eqn:E; try discriminate.
    apply (IH s2 s1); [intros y Hy; apply Hsub; right; exact Hy| |exact H].
    unfold write_row in E.
    destruct (set_static_state _ _ _ s s2 E) as ((N2 & D2 & H2) & St2 & Oth & Self).
    destruct Inv as ((N1 & D1 & H1) & St1 & F1).
    split; [repeat split; congruence|]. split; [congruence|].
    intros f. destruct (str_eqb f (p_path z)) eqn:Ez.
    + apply str_eqb_eq in Ez. subst f. destruct Self as [Same|New].
      * rewrite Same. exact (F1 (p_path z)).
      * right. exists z. split; [apply Hsub; left; reflexivity|]. split; [reflexivity|exact New].
    + apply str_eqb_false in Ez. rewrite (Oth f Ez). exact (F1 f).
Qed.

Lemma WInv_Stat (s0 s1 : st) (plan : list planrow) (Del : str -> Prop) :
  (forall x, In x plan -> RowOK s0 x) ->
  (forall x, In x plan -> p_act x = Some ADeleted -> Del (p_path x)) ->
  WInv s0 plan s1 -> Stat Del s0 s1.
Proof.
  intros Hrow HDel (G & St & F). split; [exact G|]. split; [exact St|].
  intros f. destruct (F f) as [E|(y & Hy & Py & Sy)]; [left; exact E|].
  destruct (Hrow y Hy) as (a0 & Ea & Sa & Sb & Himp). rewrite Py in Ea.
  right. exists a0, (p_state y). repeat split; auto.
  intros Hc Hn. rewrite <- Py. apply (HDel y Hy). apply Himp; assumption.
Qed.

(* ------------------------------------------------------------------------------------------ *)
(* Phases 2-4: the follow-up actions are markings                                              *)
(* ------------------------------------------------------------------------------------------ *)
Lemma mark_step_pending_marks (l : str) (s s' : st) :
  single_producer s -> mark_step_pending l s = Ok s' -> Mk s s' /\ Cl s s'.
Proof.
  intros Hsp H. unfold mark_step_pending in H. destruct (mark_mutual (fuel_of s)) as [Hs _].
  destruct (Hs l s s' Hsp H) as (M & C & _). auto.
Qed.

Lemma handle_updated_marks (l : str) (s s' : st) :
  single_producer s -> handle_updated_file l s = Ok s' -> Mk s s' /\ Cl s s'.
Proof.
  intros Hsp H. unfold handle_updated_file in H.
  assert (Hid : Ok s = Ok s' -> Mk s s' /\ Cl s s').
  { intros E. injection E as <-. split; [apply Mk_refl|apply Cl_refl]. }
  destruct (fstate_of l s) as [[]|]; auto.
  - destruct (marks_consumers l s s' Hsp H) as (M & C & _). auto.
  - destruct (step_creator_of_file l s); auto. apply (mark_step_pending_marks _ s s' Hsp H).
  - destruct (step_creator_of_file l s); auto. apply (mark_step_pending_marks _ s s' Hsp H).
Qed.

Lemma handle_deleted_marks (l : str) (s s' : st) :
  single_producer s -> handle_deleted_file l s = Ok s' ->
  Mk s s' /\ Cl s s' /\ (forall c, In c (step_sinks_of_file l s) -> not_succ s' c).
Proof.
  intros Hsp H. unfold handle_deleted_file, bind in H.
  assert (Hfirst : forall s1,
             match fstate_of l s with
             | Some FPlanned => match step_creator_of_file l s with
                                | Some c => mark_step_pending c s | None => Ok s end
             | _ => Ok s end = Ok s1 -> Mk s s1 /\ Cl s s1).
  { intros s1 E. assert (Hid : Ok s = Ok s1 -> Mk s s1 /\ Cl s s1).
    { intros E'. injection E' as <-. split; [apply Mk_refl|apply Cl_refl]. }
    destruct (fstate_of l s) as [[]|]; auto.
    destruct (step_creator_of_file l s); auto. apply (mark_step_pending_marks _ s s1 Hsp E). }
  destruct (match fstate_of l s with
            | Some FPlanned => match step_creator_of_file l s with
                               | Some c => mark_step_pending c s | None => Ok s end
            | _ => Ok s end) as [s1| |] eqn:E1; try discriminate.
  destruct (Hfirst s1 eq_refl) as [M1 C1].
  destruct (marks_consumers l s1 s' (single_producer_Mk _ _ M1 Hsp) H) as (M2 & C2 & R2).
  split; [exact (Mk_trans _ _ _ M1 M2)|]. split; [exact (Cl_trans _ _ _ M1 M2 C1 C2)|].
  intros c Hc. apply R2. rewrite (Mk_consumers s s1 l M1). exact Hc.
Qed.

(* ------------------------------------------------------------------------------------------ *)
(* The transaction                                                                             *)
(* ------------------------------------------------------------------------------------------ *)
Lemma K_update_static_files (c : cause) (hs : list (str * option N)) (s s' : st) :
  unique_labels s -> single_producer s -> static_update hs s ->
  update_file_hashes c hs s = Ok s' -> K_b s = true -> K_b s' = true.
Proof.
  intros Hu Hsp Hst H HK. unfold update_file_hashes, bind in H.
  match type of H with match ?p with _ => _ end = _ => destruct p as [plan| |] eqn:Ep; try discriminate end.
  pose proof (plan_rows_ok c s hs Hst [] plan (fun x (F : In x []) => match F with end) Ep) as Hrows.
  change (fun (s0 : st) (x : planrow) =>
            set_fstate_hash (p_path x) (p_state x)
              (Some match p_hash x with Some v => Some v | None => Some 0 end) s0) with write_row in H.
  destruct (foldM write_row plan s) as [s1| |] eqn:E1; try discriminate.
  cbv zeta in H.
  pose (with_act := fun a => map p_path (filter (fun x => match p_act x with
                                                           | Some b => action_eqb a b | None => false end) plan)).
  change (map p_path (filter (fun x => match p_act x with
                                       | Some b => action_eqb AUpdated b | None => false end) plan))
    with (with_act AUpdated) in H.
  change (map p_path (filter (fun x => match p_act x with
                                       | Some b => action_eqb ADeleted b | None => false end) plan))
    with (with_act ADeleted) in H.
  change (map p_path (filter (fun x => match p_act x with
                                       | Some b => action_eqb ACompleted b | None => false end) plan))
    with (with_act ACompleted) in H.
  set (Del := fun f => In f (with_act ADeleted)).
  assert (W1 : WInv s plan s1).
  { apply (writes_inv s plan plan s s1); auto. split; [repeat split|]. split; [reflexivity|]. intros f; left; reflexivity. }
  assert (S1 : Stat Del s s1).
  { apply (WInv_Stat s s1 plan Del Hrows); [|exact W1]. intros x Hx Hact. unfold Del, with_act.
    apply in_map_iff. exists x. split; [reflexivity|]. apply filter_In. split; [exact Hx|].
    rewrite Hact. reflexivity. }
  pose proof (Stat_KexP Del s s1 HK S1) as K1.
  destruct S1 as ((N1 & D1 & H1) & St1 & _).
  assert (Hu1 : unique_labels s1) by (unfold unique_labels; rewrite St1; exact Hu).
  assert (Hsp1 : single_producer s1).
  { apply (single_producer_same_graph s s1); [repeat split; assumption|exact Hsp]. }
  destruct (foldM (fun s0 l => handle_updated_file l s0) (with_act AUpdated) s1) as [s2| |] eqn:E2; try discriminate.
  destruct (foldM (fun s0 l => handle_deleted_file l s0) (with_act ADeleted) s2) as [s3| |] eqn:E3; try discriminate.
  (* phase 2 *)
  assert (P2 : Mk s1 s2 /\ Cl s1 s2 /\ (forall a, In a (with_act AUpdated) -> True)).
  { apply (foldM_marks (fun s0 l => handle_updated_file l s0) (fun s0 _ => single_producer s0) (fun _ _ => True)).
    - intros s0 a s0' Hq Hc. destruct (handle_updated_marks a s0 s0' Hq Hc). auto.
    - intros s0 s0' a M Hq. exact (single_producer_Mk _ _ M Hq).
    - auto.
    - intros a _. exact Hsp1.
    - exact E2. }
  destruct P2 as (M2 & C2 & _).
  (* phase 3 *)
  assert (P3 : Mk s2 s3 /\ Cl s2 s3 /\
               (forall a, In a (with_act ADeleted) ->
                          forall c0, In c0 (step_sinks_of_file a s3) -> not_succ s3 c0)).
  { apply (foldM_marks (fun s0 l => handle_deleted_file l s0) (fun s0 _ => single_producer s0)
             (fun s0 l => forall c0, In c0 (step_sinks_of_file l s0) -> not_succ s0 c0)).
    - intros s0 a s0' Hq Hc. destruct (handle_deleted_marks a s0 s0' Hq Hc) as (Ma & Ca & Ra).
      split; [exact Ma|]. split; [exact Ca|]. intros c0 Hc0. apply Ra.
      rewrite <- (Mk_consumers s0 s0' a Ma). exact Hc0.
    - intros s0 s0' a M Hq. exact (single_producer_Mk _ _ M Hq).
    - intros s0 s0' a M Hr c0 Hc0. apply (Mk_not_succ _ _ c0 M). apply Hr.
      rewrite <- (Mk_consumers s0 s0' a M). exact Hc0.
    - intros a _. exact (single_producer_Mk _ _ M2 Hsp1).
    - exact E3. }
  destruct P3 as (M3 & C3 & R3).
  (* phase 4 *)
  assert (P4 : Mk s3 s' /\ Cl s3 s' /\ (forall a, In a (with_act ACompleted) -> True)).
  { apply (foldM_marks (fun s0 l => mark_consumers_pending l s0) (fun s0 _ => single_producer s0) (fun _ _ => True)).
    - intros s0 a s0' Hq Hc. destruct (marks_consumers a s0 s0' Hq Hc) as (Ma & Ca & _). auto.
    - intros s0 s0' a M Hq. exact (single_producer_Mk _ _ M Hq).
    - auto.
    - intros a _. exact (single_producer_Mk _ _ (Mk_trans _ _ _ M2 M3) Hsp1).
    - exact H. }
  destruct P4 as (M4 & C4 & _).
  (* assemble *)
  pose proof (Mk_trans _ _ _ M2 M3) as M13. pose proof (Mk_trans _ _ _ M13 M4) as M14.
  pose proof (Cl_trans _ _ _ M2 M3 C2 C3) as C13. pose proof (Cl_trans _ _ _ M13 M4 C13 C4) as C14.
  pose proof (KexP_Mk_Cl Del s1 s' Hu1 M14 C14 K1) as K4.
  assert (Hu4 : unique_labels s').
  { unfold unique_labels. destruct M14 as (_ & L & _). rewrite L. exact Hu1. }
  apply (KexP_K_b Del s' Hu4 K4). intros f Hf l Hl.
  apply (Mk_not_succ s3 s' l M4). apply (R3 f Hf).
  rewrite (Mk_consumers s3 s' f M4) in Hl. exact Hl.
Qed.

(* the transaction OpUpdateHashes on static files: startup rescan (EXTERNAL), confirmation of
   declared static files (CONFIRMED), watcher commit *)
Lemma K_op_update_static (c : cause) (hs : list (str * option N)) (s : st) :
  unique_labels s -> single_producer s -> static_update hs s -> K_b s = true ->
  K_b (apply_op s (OpUpdateHashes c hs)) = true.
Proof.
  intros Hu Hsp Hst HK. unfold apply_op. cbn [step_op].
  destruct (update_file_hashes c hs s) as [s'| |] eqn:E; try exact HK.
  exact (K_update_static_files c hs s s' Hu Hsp Hst E HK).
Qed.
