(* C09: hash updates, step lifecycle (reset_for_rerun, mark_completed), delete_detached, the
   startup reset and hold/release preserve Inv. *)
From Coq Require Import List NArith Bool Lia.
From SV Require Import lib.Bytes lib.Closure model.Graph model.GraphInv
  proofs.GraphBase proofs.GraphNodes proofs.GraphInvP proofs.GraphPrims proofs.GraphFrames proofs.GraphCreate proofs.GraphOps.
Import ListNotations.
Open Scope N_scope.

Lemma transition_not_undeclared c old known ns act :
  transition c old known = Some (ns, act) -> ns <> FUndeclared.
Proof. destruct c, old, known; cbn; intros H; inversion H; discriminate. Qed.

Lemma transition_out c old known ns act :
  transition c old known = Some (ns, act) -> out_state old = true -> out_state ns = true.
Proof. destruct c, old, known; cbn; intros H; inversion H; auto; discriminate. Qed.

(* every path has a row and a whitelisted transition *)
Definition hashes_ok (c : cause) (hs : list (str * option N)) (s : st) : bool :=
  forallb (fun ph => match find_file (fst ph) s with
                     | Some r => is_some (transition c (fstt r) (is_some (snd ph)))
                     | None => false end) hs.

Section HH.
Context {hh : bool}.

(* ------------------------------------------------------------------------------------------ *)
(* update_file_hashes                                                                          *)
(* ------------------------------------------------------------------------------------------ *)
Lemma plan_fold_spec strict c s hs :
  (strict = true -> hashes_ok c hs s = true) -> forall acc,
  (forall x, In x acc -> p_state x <> FUndeclared /\
      (forall r0, find_file (p_path x) s = Some r0 -> out_state (fstt r0) = true -> out_state (p_state x) = true)) ->
  wpg strict (foldM (fun acc ph =>
                match find_file (fst ph) s with
                | None => Internal 118
                | Some r =>
                  match transition c (fstt r) (is_some (snd ph)) with
                  | None => Internal 119
                  | Some (ns, act) => Ok (acc ++ [mkP (fst ph) (snd ph) ns act])
                  end
                end) hs acc)
      (fun plan => forall x, In x plan -> p_state x <> FUndeclared /\
         (forall r0, find_file (p_path x) s = Some r0 -> out_state (fstt r0) = true -> out_state (p_state x) = true)).
Proof.
  induction hs as [|ph hs IH]; intros Hst acc Hacc; cbn [foldM]; [exact Hacc|].
  assert (Hst' : strict = true -> hashes_ok c hs s = true).
  { intros Hs. specialize (Hst Hs). cbn in Hst. apply andb_true_iff in Hst. tauto. }
  apply wpg_bind.
  destruct (find_file (fst ph) s) as [r|] eqn:Hr.
  2:{ destruct strict; [|exact I]. cbn. specialize (Hst eq_refl). cbn in Hst. rewrite Hr in Hst. discriminate. }
  destruct (transition c (fstt r) (is_some (snd ph))) as [[ns act]|] eqn:Ht.
  2:{ destruct strict; [|exact I]. cbn. specialize (Hst eq_refl). cbn in Hst. rewrite Hr, Ht in Hst. discriminate. }
  cbn [wpg]. apply IH; [exact Hst'|]. intros x Hx. apply in_app_or in Hx. destruct Hx as [Hx|[<-|[]]]; [auto|].
  cbn. split; [eapply transition_not_undeclared; exact Ht|].
  intros r0 Hr0 Ho. rewrite Hr in Hr0. inversion Hr0; subst r0. eapply transition_out; eassumption.
Qed.

Lemma step_creator_exists l c s : Inv hh s -> step_creator_of_file l s = Some c -> find_step c s <> None.
Proof.
  intros HI H. unfold step_creator_of_file, creator_of, find_node in H. fold (findn (KFile, l) (nodes s)) in H.
  destruct (findn (KFile, l) (nodes s)) as [n|] eqn:Hn; [|discriminate].
  destruct (ncre n) as [[[] cl]|] eqn:Hc; try discriminate. inversion H; subst cl.
  pose proof (findn_In _ _ _ Hn) as [Hin Hkey].
  assert (Hl : local_ok (nodes s) n). { apply (nw_local _ (inv_nw _ HI)); [exact Hin | rewrite Hkey; discriminate]. }
  unfold local_ok in Hl. rewrite Hc in Hl. destruct Hl as [_ [_ [cn [Hcn _]]]].
  apply find_step_SL. apply (rw_steps _ _ _ _ _ (inv_rw _ HI)). apply findn_some_iff. eexists. exact Hcn.
Qed.

Lemma creator_pending_spec strict l s :
  Inv hh s ->
  wpg strict (match step_creator_of_file l s with Some c => mark_step_pending c s | None => Ok s end)
      (mark_post hh s).
Proof.
  intros HI. destruct (step_creator_of_file l s) as [c|] eqn:Hc; [|apply mark_post_refl; exact HI].
  apply (@mark_step_pending_spec hh); [exact HI|]. intros _. eapply step_creator_exists; eassumption.
Qed.

Lemma handle_updated_file_spec strict l s :
  Inv hh s -> wpg strict (handle_updated_file l s) (mark_post hh s).
Proof.
  intros HI. unfold handle_updated_file.
  destruct (fstate_of l s) as [[]|]; try (apply mark_post_refl; exact HI);
    try (apply creator_pending_spec; exact HI).
  apply (@mark_consumers_pending_spec hh). exact HI.
Qed.

Lemma handle_deleted_file_spec strict l s :
  Inv hh s -> wpg strict (handle_deleted_file l s) (mark_post hh s).
Proof.
  intros HI. unfold handle_deleted_file. apply wpg_bind.
  assert (H1 : wpg strict (match fstate_of l s with
                           | Some FPlanned => match step_creator_of_file l s with
                                              | Some c => mark_step_pending c s | None => Ok s end
                           | _ => Ok s end) (mark_post hh s)).
  { destruct (fstate_of l s) as [[]|]; try (apply mark_post_refl; exact HI). apply creator_pending_spec. exact HI. }
  eapply wpg_weaken; [exact H1|]. intros s1 Hp1. pose proof Hp1 as [I1 _].
  eapply wpg_weaken; [apply (@mark_consumers_pending_spec hh); exact I1|].
  intros s2 Hp2. eapply mark_post_trans; eassumption.
Qed.

Lemma fold_mark_post strict (f : st -> str -> res st) ls s :
  (forall s l, Inv hh s -> wpg strict (f s l) (mark_post hh s)) ->
  Inv hh s -> wpg strict (foldM f ls s) (mark_post hh s).
Proof.
  intros Hf HI. apply (wpg_foldM strict f (mark_post hh s)); [|apply mark_post_refl; exact HI].
  intros s1 l _ Hp1. pose proof Hp1 as [I1 _]. eapply wpg_weaken; [apply Hf; exact I1|].
  intros s2 Hp2. eapply mark_post_trans; eassumption.
Qed.

Lemma update_file_hashes_spec strict c hs s :
  Inv hh s -> (strict = true -> hashes_ok c hs s = true) ->
  wpg strict (update_file_hashes c hs s) (fun s' => Inv hh s' /\ SO s s').
Proof.
  intros HI Hst. unfold update_file_hashes. apply wpg_bind.
  eapply wpg_weaken; [apply (plan_fold_spec strict c s hs Hst []); intros x []|].
  intros plan Hplan. apply wpg_bind.
  eapply wpg_weaken.
  { apply (wpg_foldM strict _ (fun s' => Inv hh s' /\ SO s s')); [|split; [exact HI | apply SO_refl]].
    intros s1 x Hx [I1 S1]. eapply wpg_weaken.
    - apply (@set_fstate_hash_spec hh); [exact I1 | apply Hplan; exact Hx | |].
      + intros d sl Hd Hs Hk n c0 Hn Hc0. rewrite (so_deps _ _ S1) in Hd. rewrite (so_nodes _ _ S1) in Hn.
        destruct (inv_oe _ HI d sl (p_path x) Hd Hs Hk n c0 Hn Hc0) as [_ [r0 [Hr0 Ho]]].
        apply (proj2 (Hplan x Hx) r0); [exact Hr0 | exact Ho].
      + intros _ _. destruct (p_hash x); discriminate.
    - intros s2 [I2 [S2 _]]. split; [exact I2 | eapply SO_trans; eassumption]. }
  intros s1 [I1 S1]. cbn zeta. apply wpg_bind.
  eapply wpg_weaken; [apply (fold_mark_post strict (fun s l => handle_updated_file l s)); [|exact I1]|].
  { intros s0 l H0. apply handle_updated_file_spec. exact H0. }
  intros s2 [I2 [S2 _]]. apply wpg_bind.
  eapply wpg_weaken; [apply (fold_mark_post strict (fun s l => handle_deleted_file l s)); [|exact I2]|].
  { intros s0 l H0. apply handle_deleted_file_spec. exact H0. }
  intros s3 [I3 [S3 _]].
  eapply wpg_weaken; [apply (fold_mark_post strict (fun s l => mark_consumers_pending l s)); [|exact I3]|].
  { intros s0 l H0. apply (@mark_consumers_pending_spec hh). exact H0. }
  intros s4 [I4 [S4 _]]. split; [exact I4|].
  eapply SO_trans; [exact S1|]. eapply SO_trans; [exact S2|]. eapply SO_trans; eassumption.
Qed.

(* ------------------------------------------------------------------------------------------ *)
(* detaching lists of nodes                                                                    *)
(* ------------------------------------------------------------------------------------------ *)
Lemma detach_list_spec strict ps s :
  Inv hh s -> (forall p, In p ps -> p <> root_key /\ In p (KL (nodes s))) ->
  wpg strict (foldM (fun s p => node_detach p s) ps s) (fun s' => Inv hh s' /\ NodeOnly s s' /\ G3 s s').
Proof.
  intros HI Hps.
  apply (wpg_foldM strict _ (fun s' => Inv hh s' /\ NodeOnly s s' /\ G3 s s')); [|split; [exact HI | split; [apply NodeOnly_refl | apply G3_refl]]].
  intros s1 p Hp [I1 [N1 G1]]. destruct (Hps p Hp) as [Hp1 Hp2].
  eapply wpg_weaken.
  - apply wpg_conj_lax.
    + apply (@node_detach_spec hh); [exact I1 | exact Hp1 |]. intros _. apply find_node_KL.
      destruct N1 as [N1 _]. rewrite N1. exact Hp2.
    + apply wpg_of_ok. intros s2 H2. exact (node_detach_G3 _ _ _ H2).
  - intros s2 [[I2 [N2 _]] G2]. split; [exact I2|]. split; [eapply NodeOnly_trans; eassumption | eapply G3_trans; eassumption].
Qed.

Lemma products_facts k s p : Inv hh s -> k <> root_key -> In p (products k s) ->
  p <> root_key /\ In p (KL (nodes s)).
Proof.
  intros HI Hk Hp. rewrite products_eq in Hp. apply in_map_iff in Hp. destruct Hp as [n [Hn1 Hn2]].
  apply filter_In in Hn2. destruct Hn2 as [Hn2 Hn3]. apply is_prod_of_true in Hn3. destruct Hn3 as [Hc Hne].
  split; [|rewrite <- Hn1; apply in_map; exact Hn2].
  intros Hr. rewrite <- Hn1 in Hr. pose proof (findn_root_key _ _ (inv_nw _ HI) Hn2 Hr) as Hroot.
  subst n. cbn in Hc. congruence.
Qed.

Lemma file_products_in_In step p l s : In l (file_products_in step p s) ->
  In (KFile, l) (products (KStep, step) s) /\ exists f, fstate_of l s = Some f /\ p f = true.
Proof.
  unfold file_products_in. rewrite in_map_iff. intros [k [Hk1 Hk2]]. apply filter_In in Hk2.
  destruct Hk2 as [Hk2 Hk3]. apply andb_true_iff in Hk3. destruct Hk3 as [Hk3 Hk4].
  apply kind_eqb_eq in Hk3. destruct k as [kk kl]. cbn in *. subst. split; [exact Hk2|].
  destruct (fstate_of l s) as [f|]; [|discriminate]. exists f. auto.
Qed.

(* ------------------------------------------------------------------------------------------ *)
(* Step.reset_for_rerun                                                                        *)
(* ------------------------------------------------------------------------------------------ *)
Lemma NodeOnly_KL s s' : NodeOnly s s' -> KL (nodes s') = KL (nodes s).
Proof. intros [H _]. exact H. Qed.

Lemma cond_wpg {A} (P : Prop) (r : res A) (Q : A -> Prop) :
  (P \/ ~ P) -> (P -> wpg false r Q) -> wpg false r (fun a => P -> Q a).
Proof.
  intros [H|H] Hw; [eapply wpg_weaken; [apply Hw; exact H | auto] | apply wpg_of_ok; intros; contradiction].
Qed.

Lemma ns_dec l s : sstate_of l s <> Some SSucceeded \/ ~ (sstate_of l s <> Some SSucceeded).
Proof. destruct (sstate_of l s) as [[]|]; try (left; discriminate). right. intros H. apply H. reflexivity. Qed.

Lemma products_creator k s p : Inv hh s -> In p (products k s) -> creator_of p s = Some k.
Proof.
  intros HI Hp. rewrite products_eq in Hp. apply in_map_iff in Hp. destruct Hp as [n [Hn1 Hn2]].
  apply filter_In in Hn2. destruct Hn2 as [Hn2 Hn3]. apply is_prod_of_true in Hn3. destruct Hn3 as [Hc _].
  rewrite creator_of_findn, <- Hn1, (In_findn _ _ (nw_nodup _ (inv_nw _ HI)) Hn2). exact Hc.
Qed.

Lemma reset_for_rerun_spec strict step s :
  Inv hh s ->
  wpg strict (reset_for_rerun step s)
      (fun s' => Inv hh s' /\ (sstate_of step s <> Some SSucceeded -> GG s s')).
Proof.
  intros HI. unfold reset_for_rerun. set (k := (KStep, step)).
  assert (Hk : k <> root_key) by discriminate.
  set (s1 := del_deps_where (fun d => key_eqb (dsnk d) k && ddyn d) s).
  assert (I1 : Inv hh s1) by (apply del_deps_where_inv; exact HI).
  set (s2 := set_envs s1 (filter (fun e => negb (str_eqb (estep e) step && edyn e)) (envs s1))).
  assert (I2 : Inv hh s2).
  { apply Inv_set_envs; [exact I1|]. intros x Hx. apply in_map_iff in Hx. destruct Hx as [e [He1 He2]].
    apply filter_In in He2. apply (rw_estep _ _ _ _ _ (inv_rw _ I1)). rewrite <- He1. apply in_map. tauto. }
  assert (G02 : G3 s s2). { eapply G3_trans; [apply set_deps_G3 | apply set_envs_G3]. }
  set (dsinks := map dsnk (filter (fun d => key_eqb (dsrc d) k && ddyn d) (deps s2))).
  apply wpg_bind. eapply wpg_weaken.
  { apply (wpg_foldM strict _ (fun s' => Inv hh s' /\ KL (nodes s') = KL (nodes s2) /\ G3 s2 s')); [|split; [exact I2 | split; [reflexivity | apply G3_refl]]].
    intros s' x Hx [I' [K' G']].
    assert (Hx' : x <> root_key /\ In x (KL (nodes s2))).
    { unfold dsinks in Hx. apply in_map_iff in Hx. destruct Hx as [d [Hd1 Hd2]]. apply filter_In in Hd2.
      destruct Hd2 as [Hd2 Hd3]. apply andb_true_iff in Hd3. destruct Hd3 as [Hd3 _]. apply key_eqb_eq in Hd3.
      split.
      - pose proof (dw_kinds _ _ (inv_dw _ I2) d Hd2) as Hkd. rewrite Hd3, Hd1 in Hkd.
        intros ->. discriminate.
      - rewrite <- Hd1. apply (dw_snk _ _ (inv_dw _ I2)). exact Hd2. }
    eapply wpg_weaken.
    - apply wpg_conj_lax.
      + apply (@node_detach_spec hh); [apply del_deps_where_inv; exact I' | apply Hx' |].
        intros _. apply find_node_KL. cbn [nodes del_deps_where set_deps]. rewrite K'. apply Hx'.
      + apply wpg_of_ok. intros s'' H''. exact (node_detach_G3 _ _ _ H'').
    - intros s'' [[I'' [N'' _]] G'']. split; [exact I''|]. split; [rewrite (NodeOnly_KL _ _ N''); exact K'|].
      eapply G3_trans; [exact G'|]. eapply G3_trans; [apply set_deps_G3 | exact G'']. }
  intros s3 [I3 [_ G23]].
  apply wpg_bind. unfold detach_created_steps. eapply wpg_weaken.
  { apply detach_list_spec; [exact I3|]. intros p Hp. apply filter_In in Hp. destruct Hp as [Hp _].
    eapply products_facts; eassumption. }
  intros s4 [I4 [_ G34]].
  apply wpg_bind. eapply wpg_weaken.
  { apply (wpg_foldM strict _ (fun s' => Inv hh s' /\ NodeOnly s4 s' /\ G3 s4 s')); [|split; [exact I4 | split; [apply NodeOnly_refl | apply G3_refl]]].
    intros s' l Hl [I' [N' G']]. apply file_products_in_In in Hl. destruct Hl as [Hl _].
    destruct (products_facts _ _ _ I4 Hk Hl) as [P1 P2].
    eapply wpg_weaken.
    - apply wpg_conj_lax.
      + apply (@node_detach_spec hh); [exact I' | discriminate |]. intros _. apply find_node_KL.
        rewrite (NodeOnly_KL _ _ N'). exact P2.
      + apply wpg_of_ok. intros s'' H''. exact (node_detach_G3 _ _ _ H'').
    - intros s'' [[I'' [N'' _]] G'']. split; [exact I''|]. split; [eapply NodeOnly_trans; eassumption | eapply G3_trans; eassumption]. }
  intros s5 [I5 [_ G45]].
  apply wpg_bind. eapply wpg_weaken.
  { apply detach_list_spec; [exact I5|]. intros p Hp. apply filter_In in Hp. destruct Hp as [Hp _].
    eapply products_facts; eassumption. }
  intros s6 [I6 [_ G56]].
  assert (G06 : GG s s6).
  { apply G3_GG. eapply G3_trans; [exact G02|]. eapply G3_trans; [exact G23|]. eapply G3_trans; [exact G34|].
    eapply G3_trans; eassumption. }
  eapply wpg_weaken.
  { apply (wpg_foldM_rem strict _ (fun rest s' =>
             mark_post hh s6 s' /\ incl rest (file_products_in step is_built s6) /\
             (sstate_of step s <> Some SSucceeded -> GG s6 s'))).
    - intros s' l rest [[I' [S' O']] [Hincl HG']].
      assert (Hl : In l (file_products_in step is_built s6)) by (apply Hincl; left; reflexivity).
      apply file_products_in_In in Hl. destruct Hl as [Hprod [f [Hf1 Hf2]]].
      eapply wpg_weaken.
      + apply wpg_conj_lax.
        * apply (@mark_file_outdated_spec hh); [exact I'|]. intros _.
          destruct f; try discriminate. destruct (O' l) as [Ho|[_ Ho]]; [left; congruence | right; exact Ho].
        * apply (cond_wpg (sstate_of step s <> Some SSucceeded)); [apply ns_dec|]. intros Hns.
          apply (@mark_file_outdated_GG hh); [exact I'|]. intros x Hx.
          rewrite (SO_creator_of _ _ _ S'), (products_creator _ _ _ I6 Hprod) in Hx. inversion Hx; subst x.
          eapply not_succ_GG; [exact Hns|]. eapply GG_trans; [exact G06 | apply HG'; exact Hns].
      + intros s'' [Hp HG'']. split; [eapply mark_post_trans; [|exact Hp]; split; [exact I'|split; assumption]|].
        split; [intros x Hx; apply Hincl; right; exact Hx|].
        intros Hns. eapply GG_trans; [apply HG'; exact Hns | apply HG''; exact Hns].
    - split; [apply mark_post_refl; exact I6|]. split; [apply incl_refl | intros _; apply GG_refl]. }
  intros s7 [[I7 _] [_ G67]]. split; [exact I7|]. intros Hns. eapply GG_trans; [exact G06 | apply G67; exact Hns].
Qed.

(* ------------------------------------------------------------------------------------------ *)
(* Step.mark_completed                                                                         *)
(* ------------------------------------------------------------------------------------------ *)
Lemma SO_find_step l s s' : SO s s' -> find_step l s <> None -> find_step l s' <> None.
Proof. intros HSO H. apply find_step_SL. rewrite (so_sl _ _ HSO). apply find_step_SL. exact H. Qed.

Lemma set_fstate_fold_spec strict new (after : str -> st -> res st) ls s :
  new <> FUndeclared -> out_state new = true ->
  (strict = true -> needs_hash new = true ->
     forall s1 l, SO s s1 -> In l ls -> forall r, find_file l s1 = Some r -> fh r <> None) ->
  (forall l s1, Inv hh s1 -> wpg strict (after l s1) (fun s2 => Inv hh s2 /\ SO s1 s2)) ->
  Inv hh s ->
  wpg strict (foldM (fun s l => do s' <- set_fstate l new s; after l s') ls s) (fun s' => Inv hh s' /\ SO s s').
Proof.
  intros Hnew Hout Hhash Hafter HI.
  apply (wpg_foldM strict _ (fun s' => Inv hh s' /\ SO s s')); [|split; [exact HI | apply SO_refl]].
  intros s1 l Hl [I1 S1]. apply wpg_bind. unfold set_fstate. eapply wpg_weaken.
  - apply (@set_fstate_hash_spec hh); [exact I1 | exact Hnew | intros; exact Hout |]. intros Hs Hn r Hr.
    eapply Hhash; eassumption.
  - intros s2 [I2 [S2 _]]. eapply wpg_weaken; [apply Hafter; exact I2|].
    intros s3 [I3 S3]. split; [exact I3|]. eapply SO_trans; [exact S1|]. eapply SO_trans; eassumption.
Qed.

Lemma mark_completed_spec step ok wd s :
  Inv hh s -> wpg false (mark_completed step ok wd s) (fun s' => Inv hh s').
Proof.
  intros HI. unfold mark_completed.
  destruct (is_some (find_step step s)) eqn:Eg; cbn [negb]; [|exact I].
  apply is_some_true in Eg. set (k := (KStep, step)).
  destruct ok.
  - (* success *)
    apply wpg_bind. eapply wpg_weaken; [apply (@set_sstate_spec hh); [exact HI | intros H; discriminate]|].
    intros s1 [I1 [S1 _]]. apply wpg_bind. eapply wpg_weaken.
    { apply (set_fstate_fold_spec false FBuilt (fun l s' => mark_consumers_pending l s')); [discriminate | reflexivity | intros H; discriminate | | exact I1].
      intros l s0 H0. eapply wpg_weaken; [apply (@mark_consumers_pending_spec hh); exact H0|].
      intros s' [A [B _]]. auto. }
    intros s2 [I2 S2]. cbn [wpg].
    apply store_hash_inv; [exact I2|]. eapply SO_find_step; [exact S2|]. eapply SO_find_step; eassumption.
  - (* failure *)
    apply wpg_bind. eapply wpg_weaken.
    { rewrite (foldM_ext _ (fun s l => do s' <- set_fstate l FOutdated s; (fun _ s => Ok s) l s')).
      2:{ intros s0 a. rewrite bind_ok_r. reflexivity. }
      apply (set_fstate_fold_spec false FOutdated (fun _ s' => Ok s')); [discriminate | reflexivity | intros H; discriminate | | exact HI].
      intros l s0 H0. cbn. split; [exact H0 | apply SO_refl]. }
    intros s1 [I1 S1]. apply wpg_bind.
    assert (Hstate : wpg false
              (if wd
               then match find_step step s1 with
                    | None => Internal 120
                    | Some r =>
                      let dc := sdc r + 1 in
                      let s' := upd_step step (fun r => mkS (sl r) (sst r) (sneed r) (sdef r) dc (shold r)) s1 in
                      if dc <=? defer_cap s then set_sstate step SPending (has_unavailable_dynamic_input step s') s'
                      else set_sstate step SFailed false s'
                    end
               else set_sstate step SFailed false s1) (fun s2 => Inv hh s2)).
    { destruct wd.
      - destruct (find_step step s1) as [r|]; [|exact I]. cbn zeta.
        set (g := fun r0 : srow => mkS (sl r0) (sst r0) (sneed r0) (sdef r0) (sdc r + 1) (shold r0)).
        destruct (upd_step_inv step g s1 I1) as [I2 _]; [reflexivity | |].
        { intros r0 Hr0 _. exact (inv_sw _ I1 r0 Hr0). }
        destruct (sdc r + 1 <=? defer_cap s);
          (eapply wpg_weaken; [apply (@set_sstate_spec hh); [exact I2 | intros H; discriminate]|]);
          intros s2 [H _]; exact H.
      - eapply wpg_weaken; [apply (@set_sstate_spec hh); [exact I1 | intros H; discriminate]|].
        intros s2 [H _]. exact H. }
    eapply wpg_weaken; [exact Hstate|]. intros s2 I2. apply wpg_bind.
    assert (Hdet : wpg false (match sstate_of step s2 with
                              | Some SFailed => detach_created_steps step s2
                              | _ => Ok s2 end) (fun s3 => Inv hh s3)).
    { destruct (sstate_of step s2) as [[]|]; try exact I2.
      unfold detach_created_steps. eapply wpg_weaken.
      - apply detach_list_spec; [exact I2|]. intros p Hp. apply filter_In in Hp. destruct Hp as [Hp _].
        apply (products_facts (KStep, step) s2 p I2); [discriminate | exact Hp].
      - intros s3 [H _]. exact H. }
    eapply wpg_weaken; [exact Hdet|]. intros s3 I3. cbn [wpg]. apply delete_hash_inv. exact I3.
Qed.

(* ------------------------------------------------------------------------------------------ *)
(* delete_detached                                                                             *)
(* ------------------------------------------------------------------------------------------ *)
Lemma dd_loop_inv fuel : forall lost s, Inv hh s -> Inv hh (fst (dd_loop fuel lost s)).
Proof.
  induction fuel as [|fuel IH]; intros lost s HI; cbn [dd_loop]; [exact HI|].
  destruct (find (fun n => deletable n s) (nodes s)) as [n|] eqn:Hf; [|exact HI].
  apply IH. apply find_some in Hf. destruct Hf as [Hin Hdel]. unfold deletable in Hdel.
  apply andb_true_iff in Hdel. destruct Hdel as [Hdel Hsrc]. apply andb_true_iff in Hdel. destruct Hdel as [Hdet Hprod].
  eapply delete_node_inv; [exact HI | | exact Hdet | |].
  - unfold find_node. fold (findn (nk n) (nodes s)). apply In_findn; [apply (nw_nodup _ (inv_nw _ HI)) | exact Hin].
  - destruct (products (nk n) s); [reflexivity | discriminate].
  - intros d Hd He. apply negb_true_iff in Hsrc. rewrite existsb_false_iff in Hsrc.
    specialize (Hsrc d Hd). rewrite He, key_eqb_refl in Hsrc. discriminate.
Qed.

Lemma delete_detached_spec s : Inv hh s -> wpg false (delete_detached s) (fun s' => Inv hh s').
Proof.
  intros HI. unfold delete_detached.
  apply (wpg_foldM false _ (fun s' => Inv hh s')); [|apply dd_loop_inv; exact HI].
  intros s1 c _ I1. destruct (find_node c s1); [|exact I1].
  eapply wpg_weaken; [apply (@after_lost_product_spec hh); [exact I1 | intros H; discriminate]|].
  intros s2 [H _]. exact H.
Qed.

(* ------------------------------------------------------------------------------------------ *)
(* startup reset, hold, release                                                                *)
(* ------------------------------------------------------------------------------------------ *)
Lemma set_sstate_raw_spec l new s : Inv hh s -> wpg false (set_sstate_raw l new s) (fun s' => Inv hh s').
Proof.
  intros HI. unfold set_sstate_raw. destruct (find_step l s) as [r|]; [|exact HI].
  eapply wpg_weaken; [apply (@set_sstate_spec hh); [exact HI | intros H; discriminate]|].
  intros s2 [H _]. exact H.
Qed.

Lemma reset_interrupted_spec s : Inv hh s -> wpg false (reset_interrupted s) (fun s' => Inv hh s').
Proof.
  intros HI. unfold reset_interrupted.
  apply wpg_bind. eapply wpg_weaken.
  { apply (wpg_foldM false _ (fun s' => Inv hh s')); [|exact HI].
    intros s1 r _ I1. destruct (sst r); try exact I1. apply set_sstate_raw_spec. exact I1. }
  intros s1 I1. apply wpg_bind. eapply wpg_weaken.
  { apply (wpg_foldM false _ (fun s' => Inv hh s')); [|exact I1].
    intros s2 r _ I2. destruct (sst r); try exact I2. apply set_sstate_raw_spec. exact I2. }
  intros s2 I2.
  apply (wpg_foldM false _ (fun s' => Inv hh s')); [|exact I2].
  intros s3 r _ I3. destruct (sstate_of (sl r) s3) as [[]|]; try exact I3.
  destruct (is_detached (KStep, sl r) s3); [exact I3|].
  eapply wpg_weaken; [apply (@mark_step_pending_spec hh); [exact I3 | intros H; discriminate]|].
  intros s4 [H _]. exact H.
Qed.

Lemma hold_spec step s :
  Inv hh s -> (hh = true -> protocol_hold_b s (OpHold step) = true) ->
  wpg false (hold step s) (fun s' => Inv hh s').
Proof.
  intros HI Hrun. unfold hold. destruct (is_some (find_step step s)) eqn:Eg; cbn [negb]; [|exact I].
  cbn [wpg]. apply upd_step_inv; [exact HI | reflexivity |].
  intros r Hr Hl. pose proof (inv_sw _ HI r Hr) as Hok. unfold sw_ok_b in *. cbn [sdef sst shold].
  apply andb_true_iff in Hok. destruct Hok as [Hok1 Hok2]. rewrite Hok1. cbn [andb].
  destruct hh; [|reflexivity]. cbn [negb orb].
  specialize (Hrun eq_refl). cbn in Hrun. rewrite sstate_of_finds in Hrun.
  rewrite <- Hl in Hrun. rewrite (In_finds _ _ (rw_snodup _ _ _ _ _ (inv_rw _ HI)) Hr) in Hrun.
  cbn in Hrun. destruct (sst r); try discriminate. cbn. apply orb_true_r.
Qed.

Lemma release_spec step s : Inv hh s -> wpg false (release step s) (fun s' => Inv hh s').
Proof.
  intros HI. unfold release. destruct (find_step step s) as [r0|] eqn:Hf; [|exact I].
  destruct (shold r0 =? 0) eqn:E0; [exact I|]. cbn [wpg].
  apply upd_step_inv; [exact HI | reflexivity |].
  intros r Hr Hl. pose proof (inv_sw _ HI r Hr) as Hok. unfold sw_ok_b in *. cbn [sdef sst shold].
  apply andb_true_iff in Hok. destruct Hok as [Hok1 Hok2]. rewrite Hok1. cbn [andb].
  destruct hh; [|reflexivity]. cbn [negb orb] in *.
  unfold find_step in Hf. fold (finds step (steps s)) in Hf. rewrite <- Hl in Hf.
  rewrite (In_finds _ _ (rw_snodup _ _ _ _ _ (inv_rw _ HI)) Hr) in Hf. inversion Hf; subst r0.
  rewrite E0 in Hok2. cbn in Hok2. rewrite Hok2. apply orb_true_r.
Qed.

End HH.
