(* C17: completeness of the candidates for the fragment G2 (model/GlobTree.v): a literal directory
   prefix followed by the trailing recursive wildcard, `dir/sub/**`, or `**` alone. *)
From Coq Require Import List NArith Bool Arith Lia.
From SV Require Import lib.Bytes.
From SV Require Import lib.Regex.
From SV Require Import model.Nglob.
From SV Require Import model.GlobSem.
From SV Require Import model.GlobTree.
From SV Require Import proofs.NglobBackref.
From SV Require Import proofs.NglobShape.
From SV Require Import proofs.NglobNamed.
From SV Require Import proofs.NglobCorrect.
From SV Require Import proofs.NglobCands.
From SV Require Import proofs.NglobCands2.
Import ListNotations.
Open Scope N_scope.

(* ---- the compiled regex and the translated pattern ---- *)

Lemma tokenize_nonnil p : tokenize p <> [] -> is_nil p = false.
Proof. destruct p; [intros H; exfalso; apply H; reflexivity|reflexivity]. Qed.

Lemma conv_regex_lit_dstar p subs l : tokenize p = [TLit l; TDStar] -> conv_regex p subs = COk [RStr l; re_dstar].
Proof.
  intros Ht. unfold conv_regex. rewrite (tokenize_nonnil p) by (rewrite Ht; discriminate). rewrite Ht. reflexivity.
Qed.

Lemma conv_regex_dstar p subs : tokenize p = [TDStar] -> conv_regex p subs = COk [re_dstar].
Proof.
  intros Ht. unfold conv_regex. rewrite (tokenize_nonnil p) by (rewrite Ht; discriminate). rewrite Ht. reflexivity.
Qed.

Lemma conv_glob_lit_dstar p subs l : tokenize p = [TLit l; TDStar] -> conv_glob p subs = COk (l ++ [42; 42]).
Proof. intros Ht. unfold conv_glob. rewrite Ht. cbn. reflexivity. Qed.

Lemma conv_glob_dstar p subs : tokenize p = [TDStar] -> conv_glob p subs = COk [42; 42].
Proof. intros Ht. unfold conv_glob. rewrite Ht. reflexivity. Qed.

Lemma accepts_lit_prefix l r q : accepts (RCat (RStr l) r) q = true -> exists rest, q = l ++ rest.
Proof.
  intros H. apply accepts_sound in H as [e' H]. inversion H; subst.
  match goal with Hl : mt (RStr l) _ _ _ |- _ => inversion Hl; subst end. eauto.
Qed.

(* ---- names of a path below a literal prefix ---- *)

Lemma nosep_align n : nosep n = true -> forall X a b, n ++ X = a ++ 47 :: b ->
  exists a', a = n ++ a' /\ X = a' ++ 47 :: b.
Proof.
  induction n as [|c n IH]; intros Hn X a b H; [exists a; split; [reflexivity|exact H]|].
  rewrite nosep_cons in Hn. apply andb_true_iff in Hn as [Hc Hn]. apply negb_true_iff in Hc. apply N.eqb_neq in Hc.
  destruct a as [|x a0]; cbn [app] in H; inversion H; subst; [congruence|].
  destruct (IH Hn X a0 b ltac:(assumption)) as [a' [-> HX]]. exists a'. split; [reflexivity|exact HX].
Qed.

Lemma jn_app l r : l <> [] -> r <> [] -> jn (l ++ r) = jn l ++ 47 :: jn r.
Proof.
  induction l as [|n l IH]; intros Hl Hr; [congruence|]. destruct l as [|n2 l'].
  - cbn [app]. destruct r; [congruence|reflexivity].
  - change ((n :: n2 :: l') ++ r) with (n :: (n2 :: l') ++ r). cbn [app]. rewrite !jn_cons2.
    change (n2 :: l' ++ r) with ((n2 :: l') ++ r). rewrite IH by (try discriminate; exact Hr).
    rewrite <- app_assoc. reflexivity.
Qed.

Lemma resolve_app a : forall nd b, resolve nd (a ++ b) = resolve (resolve nd a) b.
Proof. induction a as [|n a IH]; intros nd b; [reflexivity|]. cbn [app resolve]. apply IH. Qed.

(* a spelled path that continues after the prefix a ++ "/" : the names split accordingly *)
Lemma jn_prefix_split names : Forall okn names -> names <> [] ->
  forall tailc a b, (tailc = [] \/ tailc = [47]) -> jn names ++ tailc = a ++ 47 :: b ->
  exists lnames rnames, names = lnames ++ rnames /\ lnames <> [] /\ a = jn lnames
    /\ ((rnames <> [] /\ b = jn rnames ++ tailc) \/ (rnames = [] /\ b = [] /\ tailc = [47])).
Proof.
  induction names as [|n r IH]; intros Hok Hne tailc a b Ht H; [congruence|].
  inversion Hok as [|? ? Hn Hr]; subst. destruct (okn_inv n Hn) as [_ [Hns _]].
  destruct r as [|n2 r'].
  - cbn [jn] in H. destruct (nosep_align n Hns _ _ _ H) as [a' [-> HX]].
    destruct Ht as [->| ->]; [destruct a'; discriminate|].
    destruct a' as [|x a'']; cbn [app] in HX; inversion HX; subst; [|destruct a''; discriminate].
    exists [n], []. split; [reflexivity|]. split; [discriminate|]. split; [rewrite app_nil_r; reflexivity|].
    right. repeat split.
  - rewrite jn_cons2, <- app_assoc in H. cbn [app] in H.
    destruct (nosep_align n Hns _ _ _ H) as [a' [-> HX]].
    destruct a' as [|x a'']; cbn [app] in HX; inversion HX; subst.
    + exists [n], (n2 :: r'). split; [reflexivity|]. split; [discriminate|]. split; [rewrite app_nil_r; reflexivity|].
      left. split; [discriminate|reflexivity].
    + destruct (IH Hr ltac:(discriminate) tailc a'' b Ht ltac:(assumption)) as [ln [rn [Hnames [Hln [Ha Hb]]]]].
      exists (n :: ln), rn. split; [cbn [app]; rewrite <- Hnames; reflexivity|]. split; [discriminate|].
      split; [|exact Hb]. rewrite Ha. destruct ln; [congruence|reflexivity].
Qed.

(* ---- the last, recursive step of the walk ---- *)

Lemma step_rec_self seen P nd : In (pjoin P [], nd) (step1 seen true [42; 42] (P, nd)).
Proof. unfold step1. cbn [fst snd]. change (is_rec [42; 42]) with true. cbn iota. left. reflexivity. Qed.

Lemma step_rec_below seen P dnode rnames nd : rnames <> [] -> resolve (Some dnode) rnames = Some nd ->
  In (pjoin P (jn rnames), Some nd) (step1 seen true [42; 42] (P, Some dnode)).
Proof.
  intros Hne Hres. unfold step1. cbn [fst snd]. change (is_rec [42; 42]) with true. cbn iota. right.
  apply in_map_iff. exists (jn rnames, nd). split; [reflexivity|]. cbn [negb rlist_opt].
  apply resolve_rlist; assumption.
Qed.

Lemma split_slash_mid a : forall b acc, split_slash (a ++ 47 :: b) acc = split_slash a acc ++ split_slash b [].
Proof.
  induction a as [|x r IH]; intros b acc; cbn [app split_slash].
  - change (47 =? 47) with true. reflexivity.
  - destruct (x =? 47); [rewrite IH; reflexivity|apply IH].
Qed.

Lemma plain_nomagic l : forallb plain_char l = true -> has_magic l = false.
Proof.
  induction l as [|c l IH]; intros H; [reflexivity|]. cbn [forallb] in H. apply andb_true_iff in H as [Hc Hl].
  rewrite has_magic_cons, (IH Hl). unfold plain_char in Hc. apply negb_true_iff in Hc. rewrite Hc. reflexivity.
Qed.

Lemma plain_comps_norec l : forallb plain_char l = true -> Forall (fun c => is_rec c = false) (split_slash l []).
Proof.
  intros Hl. apply Forall_forall. intros c Hc. destruct (is_rec c) eqn:E; [|reflexivity]. exfalso.
  unfold is_rec in E. apply str_eqb_eq in E. subst c. destruct (split_slash_sub _ _ _ Hc) as [A [B HAB]].
  cbn [rev app] in HAB. rewrite HAB, !forallb_app in Hl. apply andb_true_iff in Hl as [_ Hl].
  apply andb_true_iff in Hl as [Hl _]. discriminate.
Qed.

(* ---- completeness ---- *)

Lemma spell_below names nd lnames rnames :
  Forall okn names -> names = lnames ++ rnames -> lnames <> [] -> rnames <> [] ->
  canon (jn lnames ++ 47 :: jn rnames, Some nd) = spell names nd
  /\ kept (jn lnames ++ 47 :: jn rnames, Some nd) = true.
Proof.
  intros Hok -> Hl Hr. rewrite <- (jn_app lnames rnames Hl Hr).
  assert (Hne : lnames ++ rnames <> []) by (destruct lnames; [congruence|discriminate]).
  pose proof (jn_ends _ Hok Hne) as He. unfold canon, kept, spell. cbn [fst snd is_dir_opt]. rewrite He.
  cbn [negb]. rewrite orb_true_r. split; [destruct nd; reflexivity|reflexivity].
Qed.

Theorem glob_candidates_complete_rec_partial :
  forall (t : list entry) (p : str) (subs : subs_t) (ps : list re) (gp q : str),
    wf_tree t = true -> g2 p = true ->
    conv_regex p subs = COk ps -> conv_glob p subs = COk gp ->
    In q (all_paths t) -> accepts (rcat ps) q = true -> In q (glob_paths t gp).
Proof.
  intros t p subs ps gp q Hwf Hg Hc Hgp Hin Hacc.
  destruct (all_paths_spell t q Hwf Hin) as [names [nd [Hne [Hok [Hres Hq]]]]].
  unfold g2 in Hg. destruct (tokenize p) as [|t1 [|t2 [|t3 ts]]] eqn:Ht; try discriminate.
  - (* `**` alone: everything below the root *)
    destruct t1; try discriminate. rewrite (conv_glob_dstar p subs Ht) in Hgp. inversion Hgp; subst gp.
    unfold glob_paths, walked. apply in_map_iff. exists (jn names, Some nd). split.
    + subst q. unfold canon, spell. cbn [fst snd is_dir_opt]. rewrite (jn_ends names Hok Hne). cbn [negb]. destruct nd; reflexivity.
    + apply filter_In. split; [|unfold kept; cbn [fst snd]; rewrite (jn_ends names Hok Hne); apply orb_true_r].
      apply filter_In. split; [|cbn [fst]; destruct (jn_head names Hok Hne) as [_ Hj]; destruct (jn names); [congruence|reflexivity]].
      change (split_slash [42; 42] []) with [[42; 42]]. cbn [walk flat_map]. rewrite app_nil_r.
      change (jn names) with (pjoin [] (jn names)). apply step_rec_below; assumption.
  - (* literal prefix, then `**` *)
    destruct t1; try discriminate. destruct t2; try discriminate. apply andb_true_iff in Hg as [Hpl Hes].
    rewrite (conv_glob_lit_dstar p subs s Ht) in Hgp. inversion Hgp; subst gp.
    rewrite (conv_regex_lit_dstar p subs s Ht) in Hc. inversion Hc; subst ps.
    change (rcat [RStr s; re_dstar]) with (RCat (RStr s) re_dstar) in Hacc.
    destruct (accepts_lit_prefix _ _ _ Hacc) as [rest Hrest].
    destruct (ends_sep_inv s Hes) as [G ->]. rewrite forallb_app in Hpl. apply andb_true_iff in Hpl as [HplG _].
    rewrite <- app_assoc in Hrest. cbn [app] in Hrest.
    assert (Hsp : exists tailc, (tailc = [] \/ tailc = [47]) /\ q = jn names ++ tailc
                                /\ (tailc = [47] -> is_dir nd = true)).
    { subst q. unfold spell. destruct (is_dir nd); [exists [47]|exists []].
      - split; [right; reflexivity|]. split; reflexivity.
      - split; [left; reflexivity|]. split; [rewrite app_nil_r; reflexivity|discriminate]. }
    destruct Hsp as [tailc [Htc [Hq2 Hdir]]]. rewrite Hq2 in Hrest.
    destruct (jn_prefix_split names Hok Hne tailc G rest Htc Hrest) as [ln [rn [Hnames [Hln [HG Hb]]]]].
    assert (Hokl : Forall okn ln) by (rewrite Hnames in Hok; apply Forall_app in Hok; apply Hok).
    rewrite Hnames, resolve_app in Hres.
    destruct (resolve (Some (Dir t)) ln) as [dnode|] eqn:Ed; [|rewrite resolve_none in Hres; discriminate].
    assert (Hdd : is_dir dnode = true).
    { destruct Hb as [[Hrn _]|[-> [_ Htl]]].
      - destruct rn as [|r0 rn']; [congruence|]. destruct dnode; [rewrite resolve_file in Hres; discriminate|reflexivity].
      - cbn [resolve] in Hres. injection Hres as Hdn. rewrite Hdn. apply Hdir. exact Htl. }
    (* the walk along the literal components *)
    assert (Hw : wm G (jn ln)) by (rewrite <- HG; apply nomagic_wm, plain_nomagic; exact HplG).
    pose proof (cmatch1_all _ _ (wm_comps ln Hln Hokl G Hw) (plain_comps_norec G HplG) Hokl) as Hcm.
    destruct (walk_complete_tail _ ln Hcm [[42; 42]] false [([], Some (Dir t))] [] (Some (Dir t)) dnode)
      as [seen' [st' [Hwk Hst]]]; [left; reflexivity|reflexivity|exact Ed|intros _; exact Hdd|].
    rewrite (pj_nil ln Hokl Hln) in Hst. pose proof (jn_ends ln Hokl Hln) as Hel.
    destruct (jn_head ln Hokl Hln) as [_ Hjl].
    unfold glob_paths, walked. change ((G ++ [47]) ++ [42; 42]) with ((G ++ [47]) ++ [42; 42]).
    rewrite <- app_assoc. cbn [app]. rewrite split_slash_mid. change (split_slash [42; 42] []) with [[42; 42]].
    rewrite Hwk. cbn [walk].
    destruct Hb as [[Hrn Hbr]|[-> [_ Htl]]].
    + (* something below the prefix *)
      destruct (spell_below names nd ln rn Hok Hnames Hln Hrn) as [Hcanon Hkept].
      apply in_map_iff. exists (jn ln ++ 47 :: jn rn, Some nd). split; [rewrite Hcanon; symmetry; exact Hq|].
      apply filter_In. split; [|exact Hkept]. apply filter_In. split; [|cbn [fst]; destruct (jn ln); [congruence|reflexivity]].
      apply in_flat_map. exists (jn ln, Some dnode). split; [exact Hst|].
      rewrite <- (pjoin_ok (jn ln) (jn rn) Hjl Hel). apply step_rec_below; assumption.
    + (* the prefix directory itself *)
      cbn [resolve] in Hres. inversion Hres; subst dnode. rewrite app_nil_r in Hnames. subst ln.
      apply in_map_iff. exists (jn names ++ [47], Some nd). split.
      * rewrite Hq2, Htl. unfold canon. cbn [fst snd is_dir_opt]. destruct nd; [discriminate|].
        rewrite ends_slash_sep, ends_sep_app by discriminate. reflexivity.
      * apply filter_In. split; [|unfold kept; cbn [fst snd is_dir_opt]; destruct nd; [discriminate|reflexivity]].
        apply filter_In. split; [|cbn [fst]; destruct (jn names); [congruence|reflexivity]].
        apply in_flat_map. exists (jn names, Some nd). split; [exact Hst|].
        change (jn names ++ [47]) with (jn names ++ 47 :: []). rewrite <- (pjoin_ok (jn names) [] Hjl Hel).
        apply step_rec_self.
  - destruct t1; try discriminate. destruct t2; discriminate.
Qed.

Definition ex_pat4 : str := [115;114;99;47;42;42].        (* src/** *)

Example glob_candidates_complete_rec_hyps_satisfiable :
  wf_tree ex_tree = true /\ g2 ex_pat4 = true /\ g2 [42;42] = true
  /\ conv_glob ex_pat4 [] = COk [115;114;99;47;42;42]
  /\ (exists ps, conv_regex ex_pat4 [] = COk ps
        /\ filter (accepts (rcat ps)) (all_paths ex_tree)
           = [[115;114;99;47]; [115;114;99;47;97;46;99]; [115;114;99;47;115;117;98;47];
              [115;114;99;47;115;117;98;47;98;46;99]; [115;114;99;47;46;104;105;100;46;99]]
        /\ glob_paths ex_tree [115;114;99;47;42;42]
           = [[115;114;99;47]; [115;114;99;47;97;46;99]; [115;114;99;47;115;117;98;47];
              [115;114;99;47;115;117;98;47;98;46;99]; [115;114;99;47;46;104;105;100;46;99]]).
Proof.
  split; [vm_compute; reflexivity|]. split; [vm_compute; reflexivity|]. split; [vm_compute; reflexivity|].
  split; [vm_compute; reflexivity|].
  eexists; (split; [vm_compute; reflexivity|]); split; vm_compute; reflexivity.
Qed.
