(* C14: the coverage hypothesis `Covers` of C14_watch_commit_equals_rescan DISCHARGED for the class of watch phases
   in which every relevant path lies in a directory that has an installed watch throughout the phase:
   patterns without wildcard directory components (finitely many directories, all handed to dir_loop, which
   watches them all the way down: C14_requested_missing_directory_watched_at_every_depth) and declared files
   (their parent directories are handed to dir_loop as well), with regular-file operations only during the
   phase (directory operations: the per-event theorems and the refutations D40 / D41; wildcard directory
   components: D10d).

   Kernel delivery is the documented ASSUMPTION of model/Watch.v: the queue items of the phase are
   `emitted watched f0 ops` (kernel_events through process_event).  The graph is in sync with the file system
   when the phase starts (InSync: what a finished build phase + commit leaves when nothing changed meanwhile). *)
From Coq Require Import List NArith Bool.
From SV Require Import lib.Bytes gen.GenWatch model.Watch proofs.WatchProofs.
Import ListNotations.
Open Scope N_scope.

Definition simple (it : item) : Prop := it_build it = false /\ it_change it <> DeletedParent.

Ltac simple_items :=
  repeat (first [apply Forall_nil | apply Forall_cons; [split; [reflexivity | cbn; discriminate]|]]).

Lemma process_file_event_simple ev : Forall simple (snd (process_event [] [] ev)).
Proof.
  unfold process_event, process_event_gen. destruct (has_bit (ev_mask ev) M_IGNORED); [apply Forall_nil|].
  destruct (has_bit (ev_mask ev) M_ISDIR).
  - destruct (is_deleted_mask (ev_mask ev)).
    + cbn [w_get snd]. destruct isdir_emits_self; simple_items.
    + cbn [length plus rescan w_get snd fst app]. destruct isdir_emits_self; cbn [app]; simple_items.
  - cbn [snd]. destruct (is_deleted_mask (ev_mask ev)); simple_items.
Qed.

Lemma Forall_flat_map {A B} (P : B -> Prop) (f : A -> list B) l :
  (forall a, Forall P (f a)) -> Forall P (flat_map f l).
Proof.
  intros H. induction l as [|a l IH]; cbn; [constructor|]. apply Forall_app. split; [apply H|exact IH].
Qed.

Lemma emitted_simple watched ops : forall f, Forall simple (emitted watched f ops).
Proof.
  induction ops as [|o ops IH]; intros f; cbn [emitted]; [constructor|].
  apply Forall_app. split; [|apply IH]. apply Forall_flat_map. intros ev. apply process_file_event_simple.
Qed.

(* for items without DELETED_PARENT recorded outside a build, the relevance filter is the only difference
   between what the fold keeps and what the raw items say *)
Lemma last_effect_simple rel under items p :
  Forall simple items ->
  last_effect rel under items p = if rel false p then raw_last items p else None.
Proof.
  intros H. induction H as [|it items [Hb Hc] _ IH]; cbn [last_effect].
  - unfold raw_last. cbn. destruct (rel false p); reflexivity.
  - unfold raw_last in *. cbn [last_effect]. rewrite IH.
    destruct (rel false p) eqn:R.
    + destruct (last_effect all_relevant no_under items p); [reflexivity|].
      unfold effect. rewrite Hb. destruct (it_change it); try congruence; unfold all_relevant; rewrite R, ?andb_true_r; reflexivity.
    + unfold effect. rewrite Hb. destruct (it_change it); try congruence; rewrite R, andb_false_r; reflexivity.
Qed.

Definition is_some {A} (o : option A) : bool := match o with Some _ => true | None => false end.

Lemma not_excluded_relevant s : mem_fstate s rescan_excluded_states = false -> mem_fstate s relevant_states = true.
Proof. destruct s; vm_compute; congruence. Qed.

Section Discharge.
  Variable rest : Type.
  Variable matches : N -> path -> bool.
  Variable universe : list path.
  Notation G := (gstate rest).

  (* the graph agrees with the file system f0 when the watch phase starts *)
  Record InSync (g : G) (f0 : ffs) : Prop := {
    sync_files : forall f, In f (g_files g) -> rescan_selected f = true -> f_hash f = f0 (f_path f);
    sync_rows : forall r p, In r (g_nglobs g) -> ng_attached r = true -> In p universe ->
                            matches (ng_pat r) p = true -> pmem p (ng_matches r) = is_some (f0 p)
  }.

  (* the class: every path the rescan would look at lies in a directory with an installed watch *)
  Record AllWatched (g : G) (watched : path -> bool) : Prop := {
    aw_files : forall f, In f (g_files g) -> rescan_selected f = true -> watched (f_path f) = true;
    aw_rows : forall r p, In r (g_nglobs g) -> ng_attached r = true -> In p universe ->
                          matches (ng_pat r) p = true -> watched p = true
  }.

  (* a path accepted by an attached pattern is not one the build owns (register_nglob / _raise_if_glob_match) *)
  Definition matched_unowned (g : G) : Prop :=
    forall r p fn, In r (g_nglobs g) -> ng_attached r = true -> In p universe -> matches (ng_pat r) p = true ->
                   find_attached (g_files g) p = Some fn -> mem_fstate (f_state fn) relevant_states = true.

  Variable g : G.
  Variable f0 : ffs.
  Variable watched : path -> bool.
  Variable ops : list fop.
  Hypothesis WF : WellFormed rest matches g.
  Hypothesis SY : InSync g f0.
  Hypothesis AW : AllWatched g watched.
  Hypothesis MU : matched_unowned g.

  Let f1 : ffs := run_ops f0 ops.
  Let items : list item := emitted watched f0 ops.
  Let rel := change_is_relevant rest matches g.
  Let und := relevant_paths_under rest g.
  Let w := fold_changes rel und items ws_empty.

  Lemma selected_relevant f : In f (g_files g) -> rescan_selected f = true -> rel false (f_path f) = true.
  Proof.
    intros Hf RS. unfold rescan_selected in RS. apply andb_true_iff in RS as [Att NE]. apply negb_true_iff in NE.
    unfold rel, change_is_relevant. rewrite (find_attached_in _ f (wf_nodup _ _ _ WF) Hf Att).
    apply not_excluded_relevant. exact NE.
  Qed.

  Lemma matched_relevant r p :
    In r (g_nglobs g) -> ng_attached r = true -> In p universe -> matches (ng_pat r) p = true -> rel false p = true.
  Proof.
    intros Hr Ar Hp Mp. unfold rel, change_is_relevant.
    destruct (find_attached (g_files g) p) as [fn|] eqn:F; [exact (MU r p fn Hr Ar Hp Mp F)|].
    unfold matches_any_glob. apply existsb_exists. exists r. split; [exact Hr|]. rewrite Ar, Mp. reflexivity.
  Qed.

  (* what the two sets say about a relevant, watched path *)
  Lemma sets_tell p :
    rel false p = true -> watched p = true ->
    (pmem p (ws_updated w) = true -> f1 p <> None) /\
    (pmem p (ws_deleted w) = true -> f1 p = None) /\
    (pmem p (ws_updated w) = false -> pmem p (ws_deleted w) = false -> f1 p = f0 p).
  Proof.
    intros R Wp.
    destruct (fold_last_event_wins rel und items p) as [HU [HD _]]. fold w in HU, HD.
    pose proof (last_effect_simple rel und items p (emitted_simple watched ops f0)) as LE. rewrite R in LE.
    pose proof (changes_cover_difference_files watched ops f0 p Wp) as CV. fold items in CV. fold f1 in CV.
    rewrite LE in HU, HD. unfold cover_rel in CV.
    destruct (raw_last items p) as [[|]|]; split; [|split| |split| |split]; intros; try exact CV;
      try (apply HU in H; discriminate); try (apply HD in H; discriminate).
    - assert (pmem p (ws_updated w) = true) by (apply HU; reflexivity). congruence.
    - assert (pmem p (ws_deleted w) = true) by (apply HD; reflexivity). congruence.
  Qed.

  Lemma set_relevant p : pmem p (ws_updated w) = true \/ pmem p (ws_deleted w) = true -> rel false p = true.
  Proof.
    intros H.
    destruct (fold_last_event_wins rel und items p) as [HU [HD _]]. fold w in HU, HD.
    pose proof (last_effect_simple rel und items p (emitted_simple watched ops f0)) as LE.
    destruct (rel false p); [reflexivity|]. rewrite LE in HU, HD.
    destruct H as [H|H]; [apply HU in H|apply HD in H]; discriminate.
  Qed.

  (* `Covers`, for the code shape that re-hashes attached nodes only, with the file system after the operations *)
  Theorem covers_from_file_history :
    Covers rest f1 (fun p => is_some (f1 p)) matches universe true g (ws_updated w) (ws_deleted w).
  Proof.
    constructor.
    - intros p Hp. apply set_relevant. left. apply pmem_In. exact Hp.
    - intros p Hp. apply set_relevant. right. apply pmem_In. exact Hp.
    - intros p HU HD. apply pmem_In in HU. apply pmem_In in HD.
      destruct (fold_last_event_wins rel und items p) as [_ [_ X]]. fold w in X. rewrite (X HU) in HD. discriminate.
    - intros f Hf RS M. rewrite pmem_app in M. apply orb_false_iff in M as [MU' MD].
      destruct (sets_tell (f_path f) (selected_relevant f Hf RS) (aw_files g watched AW f Hf RS)) as [_ [_ H]].
      rewrite (H MU' MD). symmetry. exact (sync_files g f0 SY f Hf RS).
    - intros r p Hr Ar Hp Mp.
      destruct (sets_tell p (matched_relevant r p Hr Ar Hp Mp) (aw_rows g watched AW r p Hr Ar Hp Mp)) as [TU [TD TN]].
      destruct (pmem p (ws_deleted w)) eqn:ED.
      + rewrite (TD eq_refl). reflexivity.
      + destruct (pmem p (ws_updated w)) eqn:EU; cbn [andb].
        * pose proof (TU eq_refl) as Ex.
          destruct (pruned f1 (g_files g) true p) eqn:PR; cbn [negb].
          -- (* observed as updated, re-hash unchanged: it existed with that hash when the phase started *)
             unfold pruned in PR. destruct (find_file (g_files g) p) as [fn|] eqn:FF; [|discriminate].
             cbn [negb orb] in PR. apply andb_true_iff in PR as [Att EQ]. apply ofh_eqb_eq in EQ.
             assert (Hin : In fn (g_files g) /\ f_path fn = p).
             { clear -FF. induction (g_files g) as [|x l IH]; cbn in FF; [discriminate|].
               destruct (str_eqb (f_path x) p) eqn:E.
               - inversion FF; subst. split; [left; reflexivity|apply str_eqb_eq; exact E].
               - destruct (IH FF) as [A B]. split; [right; exact A|exact B]. }
             destruct Hin as [Hin Hpath]. subst p.
             assert (RS : rescan_selected fn = true).
             { unfold rescan_selected. rewrite Att. cbn [andb]. apply negb_true_iff.
               apply relevant_not_excluded.
               exact (MU r (f_path fn) fn Hr Ar Hp Mp (find_attached_in _ fn (wf_nodup _ _ _ WF) Hin Att)). }
             rewrite (sync_rows g f0 SY r (f_path fn) Hr Ar Hp Mp).
             rewrite <- (sync_files g f0 SY fn Hin RS), <- EQ. reflexivity.
          -- destruct (f1 p); [reflexivity|congruence].
        * rewrite (TN eq_refl eq_refl). symmetry. exact (sync_rows g f0 SY r p Hr Ar Hp Mp).
  Qed.
End Discharge.
