(* C17: the definitions that translator/gen_nglob_code.py regenerates from the Python AST of
   /repo/stepup/core/nglob.py on every run (gen/GenNglobCode.v) are, for ALL inputs, equal to the
   hand-written model (model/Nglob.v) that the C17 theorems are about.

   Unlike a fingerprint, these lemmas survive harmless rewrites of the code and break on semantic
   ones; nothing here is closed by computing on samples. *)
From Coq Require Import List NArith Bool Arith Lia.
From SV Require Import lib.Bytes.
From SV Require Import lib.Regex.
From SV Require Import model.Nglob.
From SV Require Import model.NglobPy.
From SV Require Import gen.GenNglobCode.
Import ListNotations.
Open Scope N_scope.

(* ------------------------------------------------------------------------------------------ *)
(* NamedGlob.extend / reduce / will_change / files                                             *)
(* ------------------------------------------------------------------------------------------ *)

Section ResultsTie.
  Variable K : Type.
  Variable keqb : K -> K -> bool.
  Variable mv : str -> option K.
  Hypothesis keqb_refl : forall k, keqb k k = true.

  (* d.setdefault(k, set()).add(p) is r_add *)
  Lemma setdefault_add_eq k p (r : results K) :
    d_store keqb k (s_add p (opt_default (d_get keqb k (d_setdefault keqb k r)) [])) (d_setdefault keqb k r)
    = r_add keqb k p r.
  Proof.
    induction r as [|[k' ps] r IH].
    - cbn. unfold d_get. cbn. rewrite keqb_refl. cbn. reflexivity.
    - cbn [d_setdefault r_add]. destruct (keqb k k') eqn:E.
      + unfold d_get. cbn [r_get d_store]. rewrite E. cbn [opt_default]. reflexivity.
      + unfold d_get in *. cbn [r_get d_store]. rewrite E. rewrite IH. reflexivity.
  Qed.

  Lemma gen_extend_eq r paths : gen_extend K keqb mv r paths = extend keqb mv r paths.
  Proof.
    unfold gen_extend, extend. cbv zeta. revert r. induction paths as [|p paths IH]; intros r; [reflexivity|].
    cbn [fold_left]. rewrite IH. f_equal.
    unfold gen_extend_loop1, extend1. cbv zeta. destruct (mv p) as [k|]; [|reflexivity]. apply setdefault_add_eq.
  Qed.

  (* path_set = d.get(k); if path_set is not None: path_set.discard(p); if len(path_set) == 0: del d[k] *)
  Lemma get_discard_del_eq k p (r : results K) :
    match d_get keqb k r with
    | Some ps =>
      if Nat.eqb (length (s_discard p ps)) 0
      then d_del keqb k (d_store keqb k (s_discard p ps) r)
      else d_store keqb k (s_discard p ps) r
    | None => r
    end = r_discard keqb k p r.
  Proof.
    unfold d_get. induction r as [|[k' ps] r IH]; [reflexivity|].
    cbn [r_get r_discard]. destruct (keqb k k') eqn:E.
    - cbn [d_store]. rewrite E. unfold s_discard. destruct (set_discard p ps) eqn:Ed; cbn.
      + rewrite E. reflexivity.
      + reflexivity.
    - destruct (r_get keqb k r) as [qs|] eqn:Eg.
      + cbn [d_store]. rewrite E. destruct (Nat.eqb (length (s_discard p qs)) 0).
        * cbn [d_del]. rewrite E. rewrite <- IH. reflexivity.
        * rewrite <- IH. reflexivity.
      + rewrite <- IH. reflexivity.
  Qed.

  Lemma gen_reduce_eq r paths : gen_reduce K keqb mv r paths = reduce keqb mv r paths.
  Proof.
    unfold gen_reduce, reduce. cbv zeta. revert r. induction paths as [|p paths IH]; intros r; [reflexivity|].
    cbn [fold_left]. rewrite IH. f_equal.
    unfold gen_reduce_loop1, reduce1. cbv zeta. destruct (mv p) as [k|]; [|reflexivity].
    rewrite <- get_discard_del_eq. destruct (d_get keqb k r) as [ps|]; [|reflexivity].
    destruct (Nat.eqb (length (s_discard p ps)) 0); reflexivity.
  Qed.

  Lemma gen_will_change_eq r deleted added :
    gen_will_change K keqb mv r deleted added = will_change keqb mv r deleted added.
  Proof.
    unfold gen_will_change, will_change. cbv zeta. rewrite gen_extend_eq, gen_reduce_eq.
    destruct (results_eqb keqb _ r); reflexivity.
  Qed.

  Lemma s_add_In p ps q : In q (s_add p ps) <-> In q ps \/ q = p.
  Proof.
    unfold s_add, set_add. destruct (mem_str p ps) eqn:E.
    - split; [intros H; left; exact H|]. intros [H| ->]; [exact H|].
      unfold mem_str in E. apply existsb_exists in E as [x [Hx Heq]].
      apply str_eqb_eq in Heq. subst. exact Hx.
    - rewrite in_app_iff. cbn. split; intros [H|H]; auto; destruct H; auto; contradiction.
  Qed.

  Lemma s_update_In b : forall a q, In q (s_update a b) <-> In q a \/ In q b.
  Proof.
    unfold s_update. induction b as [|x b IH]; intros a q; cbn [fold_left].
    - cbn. tauto.
    - rewrite IH. rewrite s_add_In. cbn. intuition congruence.
  Qed.

  (* files() as a set *)
  Lemma gen_files_eq (r : results K) q : In q (gen_files K r) <-> In q (files r).
  Proof.
    unfold gen_files, files, d_values. cbv zeta.
    assert (G : forall acc, In q (fold_left gen_files_loop1 (map snd r) acc)
                            <-> In q acc \/ In q (flat_map snd r)).
    { induction r as [|[k ps] r IH]; intros acc; cbn [map fold_left flat_map snd].
      - cbn. tauto.
      - rewrite IH. unfold gen_files_loop1 at 1. cbv zeta. rewrite s_update_In. rewrite in_app_iff. tauto. }
    rewrite G. cbn. tauto.
  Qed.
End ResultsTie.

Lemma key_eqb_refl (k : key) : key_eqb k k = true.
Proof.
  induction k as [|x k IH]; [reflexivity|]. cbn. rewrite IH.
  destruct x as [s|]; cbn; [|reflexivity]. rewrite andb_true_r. apply str_eqb_eq. reflexivity.
Qed.

(* ------------------------------------------------------------------------------------------ *)
(* NamedGlob._match_values, _get_wildcard_name                                                 *)
(* ------------------------------------------------------------------------------------------ *)

Lemma gen_match_values_eq r names path : gen_match_values r names path = match_values r names path.
Proof. unfold gen_match_values, match_values. cbv zeta. destruct (first_match r path); reflexivity. Qed.

Lemma firstn_app_exact {A} (a b : list A) : firstn (length a) (a ++ b) = a.
Proof. induction a; cbn; [destruct b; reflexivity|]. f_equal. assumption. Qed.

Lemma gen_get_wildcard_name_eq n :
  gen_get_wildcard_name (TName n) = if is_nil n then CErr EEmptyName else COk n.
Proof.
  unfold gen_get_wildcard_name, t_slice. cbv zeta. cbn [tok_text].
  assert (H : firstn (length ([36; 123; 42] ++ n ++ [125]) - 3 - 1) (skipn 3 ([36; 123; 42] ++ n ++ [125])) = n).
  { cbn [app skipn length]. rewrite app_length. cbn [length].
    replace (S (S (S (length n + 1))) - 3 - 1)%nat with (length n) by lia. apply firstn_app_exact. }
  rewrite H. destruct n; reflexivity.
Qed.

(* the translated body of the first loop of convert_nglob_to_glob, fragment by fragment *)
Lemma gen_glob_loop1_pointwise pat subs parts ip :
  gen_conv_glob_loop1 pat subs parts ip
  = match ip with
    | (true, TName n) => if is_nil n then CErr EEmptyName
                         else COk (parts ++ py_split_plain (subs_get_default n subs [42]))
    | (false, t) => COk (parts ++ [t])
    | (true, TLit s) => gen_conv_glob_loop1 pat subs parts ip   (* never produced by py_frags *)
    | (true, t) => COk (parts ++ [t])
    end.
Proof.
  destruct ip as [[] t]; destruct t; try reflexivity.
  unfold gen_conv_glob_loop1. cbv zeta. cbn [fst snd].
  replace (t_startswith (TName name) [36; 123; 42]) with true by reflexivity.
  rewrite gen_get_wildcard_name_eq. destruct (is_nil name); reflexivity.
Qed.

(* the constants the code stores as fragments are the texts of the tokens the translator chose *)
Lemma gen_tok_consts_ok : forallb (fun tc => str_eqb (tok_text (fst tc)) (snd tc)) gen_tok_consts = true.
Proof. reflexivity. Qed.

(* ------------------------------------------------------------------------------------------ *)
(* The texts between wildcards never contain `*` or `?` and are not empty                      *)
(* ------------------------------------------------------------------------------------------ *)

Definition plain (s : str) : Prop := forall x, In x s -> x <> 42 /\ x <> 63.
Definition lit_ok (t : tok) : Prop := match t with TLit s => s <> [] /\ plain s | _ => True end.

Lemma wild_at_not_lit prev s t len : wild_at prev s = Some (t, len) -> forall l, t <> TLit l.
Proof.
  unfold wild_at. destruct s as [|c r]; [discriminate|].
  destruct (c =? 42).
  - destruct (head_is 42 r && _ && at_dollar (tl r)); [intros H; inversion H; discriminate|].
    destruct (head_is 42 r && _ && head_is 47 (tl r)); intros H; inversion H; discriminate.
  - destruct (c =? 91).
    + destruct (find_close r []); intros H; inversion H; discriminate.
    + destruct (c =? 63); [intros H; inversion H; discriminate|].
      destruct ((c =? 36) && is_prefix [123; 42] r); [|discriminate].
      destruct (name_end (tl (tl r)) []); intros H; inversion H; discriminate.
Qed.

Lemma wild_at_none_plain prev c r : wild_at prev (c :: r) = None -> c <> 42 /\ c <> 63.
Proof.
  unfold wild_at. destruct (N.eqb_spec c 42) as [->|H42].
  - destruct (head_is 42 r && _ && at_dollar (tl r)); [discriminate|].
    destruct (head_is 42 r && _ && head_is 47 (tl r)); discriminate.
  - destruct (c =? 91) eqn:E91.
    + intros _. apply N.eqb_eq in E91. subst. split; [exact H42|discriminate].
    + destruct (N.eqb_spec c 63) as [->|H63]; [discriminate|]. intros _. split; assumption.
Qed.

Lemma flush_In lit l t : In t (flush lit l) -> t = TLit (rev lit) /\ lit <> [] \/ In t l.
Proof.
  unfold flush. destruct lit; [right; assumption|].
  intros [<-|H]; [left; split; [reflexivity|discriminate]|right; exact H].
Qed.

Lemma plain_rev s : plain s -> plain (rev s).
Proof. intros H x Hx. apply H. apply in_rev. exact Hx. Qed.

Lemma tk_lits s : forall prev skip lit, plain lit -> forall t, In t (tk s prev skip lit) -> lit_ok t.
Proof.
  induction s as [|c rest IH]; intros prev skip lit Hl t Hin; cbn [tk] in Hin.
  - apply flush_In in Hin as [[-> Hne]|[]]. split; [|apply plain_rev; exact Hl].
    intros E. apply Hne. apply (f_equal (@rev N)) in E. rewrite rev_involutive in E. exact E.
  - destruct skip as [|k].
    + destruct (wild_at prev (c :: rest)) as [[w len]|] eqn:Ew.
      * apply flush_In in Hin as [[-> Hne]|Hin].
        { split; [|apply plain_rev; exact Hl].
          intros E. apply Hne. apply (f_equal (@rev N)) in E. rewrite rev_involutive in E. exact E. }
        destruct Hin as [<-|Hin].
        { pose proof (wild_at_not_lit _ _ _ _ Ew) as Hn. destruct w; try exact I. exfalso. eapply Hn. reflexivity. }
        eapply IH; [|exact Hin]. intros x [].
      * eapply IH; [|exact Hin]. intros x [<-|Hx]; [eapply wild_at_none_plain; exact Ew|apply Hl; exact Hx].
    + eapply IH; [exact Hl|exact Hin].
Qed.

Lemma tokenize_lits p : Forall lit_ok (tokenize p).
Proof. apply Forall_forall. intros t Hin. eapply tk_lits; [|exact Hin]. intros x []. Qed.

(* ------------------------------------------------------------------------------------------ *)
(* convert_nglob_to_glob                                                                       *)
(* ------------------------------------------------------------------------------------------ *)

Definition ne (t : tok) : bool := negb (t_eq t []).

Lemma ne_nonlit t : (forall s, t <> TLit s) -> ne t = true.
Proof. intros H. destruct t; try reflexivity. exfalso. eapply H. reflexivity. Qed.

Lemma ne_lit_ok t : lit_ok t -> ne t = true.
Proof.
  destruct t; try reflexivity. intros [Hne _]. unfold ne, t_eq. cbn [tok_text].
  destruct s; [contradiction|reflexivity].
Qed.

(* dropping the empty texts of RE_ANY_WILD.split gives back the token list *)
Lemma filter_ne_frags ts : Forall lit_ok ts -> forall b, filter ne (map snd (py_frags ts b)) = ts.
Proof.
  induction 1 as [|t ts Ht Hts IH]; intros b.
  - destruct b; reflexivity.
  - destruct t; cbn [py_frags];
      try (destruct b; cbn [app map snd filter]; rewrite ?IH; reflexivity).
    cbn [map snd filter]. rewrite (ne_lit_ok _ Ht). rewrite IH. reflexivity.
Qed.

Definition glob_loop1 (subs : subs_t) : list tok -> bool * tok -> cres (list tok) :=
  fun parts ip =>
    match ip with
    | (true, TName n) => if is_nil n then CErr EEmptyName
                         else COk (parts ++ py_split_plain (subs_get_default n subs [42]))
    | (_, t) => COk (parts ++ [t])
    end.

Lemma sub_of_default n subs : subs_get_default n subs [42] = sub_of n subs.
Proof. reflexivity. Qed.

Lemma glob_parts_err ts subs e : glob_parts ts subs = CErr e -> e = EEmptyName.
Proof.
  induction ts as [|t ts IH]; [discriminate|]. cbn [glob_parts].
  destruct t; try (destruct (glob_parts ts subs); intros H; inversion H; subst; apply IH; reflexivity).
  destruct (is_nil name); [intros H; inversion H; reflexivity|].
  destruct (glob_parts ts subs); intros H; inversion H; subst; apply IH; reflexivity.
Qed.

Lemma filter_app_ne (a b : list tok) : filter ne (a ++ b) = filter ne a ++ filter ne b.
Proof. apply filter_app. Qed.

Lemma loop1_spec subs ts : Forall lit_ok ts -> forall b acc,
  match glob_parts ts subs with
  | COk r => exists parts, fold_cres (glob_loop1 subs) (py_frags ts b) acc = COk parts
                           /\ filter ne parts = filter ne acc ++ r
  | CErr _ => fold_cres (glob_loop1 subs) (py_frags ts b) acc = CErr EEmptyName
  end.
Proof.
  induction 1 as [|t ts Ht Hts IH]; intros b acc.
  - cbn [glob_parts py_frags]. destruct b; cbn [fold_cres].
    + exists acc. split; [reflexivity|]. rewrite app_nil_r. reflexivity.
    + exists (acc ++ [TLit []]). split; [reflexivity|]. rewrite filter_app_ne. cbn. reflexivity.
  - assert (Hpre : forall acc0, exists acc1,
              (forall rest, fold_cres (glob_loop1 subs) ((if b then [] else [(false, TLit [])]) ++ rest) acc0
                            = fold_cres (glob_loop1 subs) rest acc1)
              /\ filter ne acc1 = filter ne acc0).
    { intros acc0. destruct b.
      - exists acc0. split; [intros; reflexivity|reflexivity].
      - exists (acc0 ++ [TLit []]). split; [intros; reflexivity|].
        rewrite filter_app_ne. cbn. rewrite app_nil_r. reflexivity. }
    destruct t; cbn [glob_parts py_frags].
    + (* TLit *)
      cbn [fold_cres]. unfold glob_loop1 at 1. cbn [fst snd andb].
      specialize (IH true (acc ++ [TLit s])). destruct (glob_parts ts subs) as [r|e].
      * destruct IH as [parts [Hf Hp]]. exists parts. split; [exact Hf|].
        rewrite Hp, filter_app_ne. cbn [filter]. rewrite (ne_lit_ok _ Ht). rewrite <- app_assoc. reflexivity.
      * exact IH.
    + destruct (Hpre acc) as [acc1 [Hrun Hflt]]. rewrite Hrun. cbn [fold_cres]. unfold glob_loop1 at 1.
      cbn [fst snd]. cbn. specialize (IH false (acc1 ++ [TQ])). destruct (glob_parts ts subs) as [r|e].
      * destruct IH as [parts [Hf Hp]]. exists parts. split; [exact Hf|].
        rewrite Hp, filter_app_ne, Hflt. cbn. rewrite <- app_assoc. reflexivity.
      * exact IH.
    + destruct (Hpre acc) as [acc1 [Hrun Hflt]]. rewrite Hrun. cbn [fold_cres]. unfold glob_loop1 at 1.
      cbn [fst snd]. cbn. specialize (IH false (acc1 ++ [TStar])). destruct (glob_parts ts subs) as [r|e].
      * destruct IH as [parts [Hf Hp]]. exists parts. split; [exact Hf|].
        rewrite Hp, filter_app_ne, Hflt. cbn. rewrite <- app_assoc. reflexivity.
      * exact IH.
    + destruct (Hpre acc) as [acc1 [Hrun Hflt]]. rewrite Hrun. cbn [fold_cres]. unfold glob_loop1 at 1.
      cbn [fst snd]. cbn. specialize (IH false (acc1 ++ [TDStar])). destruct (glob_parts ts subs) as [r|e].
      * destruct IH as [parts [Hf Hp]]. exists parts. split; [exact Hf|].
        rewrite Hp, filter_app_ne, Hflt. cbn. rewrite <- app_assoc. reflexivity.
      * exact IH.
    + destruct (Hpre acc) as [acc1 [Hrun Hflt]]. rewrite Hrun. cbn [fold_cres]. unfold glob_loop1 at 1.
      cbn [fst snd]. cbn. specialize (IH false (acc1 ++ [TDStarSlash])). destruct (glob_parts ts subs) as [r|e].
      * destruct IH as [parts [Hf Hp]]. exists parts. split; [exact Hf|].
        rewrite Hp, filter_app_ne, Hflt. cbn. rewrite <- app_assoc. reflexivity.
      * exact IH.
    + destruct (Hpre acc) as [acc1 [Hrun Hflt]]. rewrite Hrun. cbn [fold_cres]. unfold glob_loop1 at 1.
      cbn [fst snd]. cbn. specialize (IH false (acc1 ++ [TCls inner])). destruct (glob_parts ts subs) as [r|e].
      * destruct IH as [parts [Hf Hp]]. exists parts. split; [exact Hf|].
        rewrite Hp, filter_app_ne, Hflt. cbn. rewrite <- app_assoc. reflexivity.
      * exact IH.
    + (* TName *)
      destruct (Hpre acc) as [acc1 [Hrun Hflt]]. rewrite Hrun. cbn [fold_cres].
      assert (Hstep : glob_loop1 subs acc1 (true, TName name)
                      = if is_nil name then CErr EEmptyName else COk (acc1 ++ py_split_plain (sub_of name subs))).
      { unfold glob_loop1. rewrite sub_of_default. reflexivity. }
      rewrite Hstep. destruct (is_nil name); [reflexivity|].
      specialize (IH false (acc1 ++ py_split_plain (sub_of name subs))).
      destruct (glob_parts ts subs) as [r|e].
      * destruct IH as [parts [Hf Hp]]. exists parts. split; [exact Hf|].
        rewrite Hp, filter_app_ne, Hflt. unfold py_split_plain, py_split_enum.
        rewrite (filter_ne_frags _ (tokenize_lits _)). rewrite <- app_assoc. reflexivity.
      * exact IH.
Qed.

(* the merge loop *)
Definition glob_loop2 := gen_conv_glob_loop2.

Lemma plain_not s c : plain s -> (c = 42 \/ c = 63) -> forall r, str_eqb s (c :: r) = false.
Proof.
  intros Hp Hc r. destruct s as [|x s]; [reflexivity|]. cbn [str_eqb].
  destruct (N.eqb_spec x c) as [->|Hne]; [|reflexivity].
  exfalso. destruct (Hp c (or_introl eq_refl)) as [H1 H2]. destruct Hc; contradiction.
Qed.

Lemma lit_tests s : plain s ->
  t_eq (TLit s) [63] = false /\ t_eq (TLit s) [42] = false /\ t_eq (TLit s) [42; 42] = false
  /\ t_eq (TLit s) [42; 42; 47] = false /\ t_in (TLit s) [[42]; [42; 42]] = false.
Proof.
  intros Hp. unfold t_eq, t_in, mem_str. cbn [tok_text existsb].
  rewrite !(plain_not s 42 Hp (or_introl eq_refl)), (plain_not s 63 Hp (or_intror eq_refl)).
  repeat split; reflexivity.
Qed.

Lemma merge_step texts part : lit_ok part -> Forall lit_ok texts ->
  forall pat subs, glob_loop2 pat subs texts part = COk (glob_merge1 texts part).
Proof.
  intros Hp Ht pat subs. unfold glob_loop2, gen_conv_glob_loop2, glob_merge1. cbv zeta.
  destruct texts as [|l rest]; [reflexivity|].
  cbn [length Nat.eqb orb l_last l_append l_set_last].
  assert (Hl : lit_ok l) by (inversion Ht; assumption).
  destruct part as [s| | | | |i|n];
    try (destruct l as [ls| | | | |li|ln]; try reflexivity;
         pose proof (proj2 Hl) as Hpl; destruct (lit_tests ls Hpl) as (E1 & E2 & E3 & E4 & E5);
         unfold ot_in, ot_eq; cbn [is_tstar is_tdstar is_tdstarslash orb negb];
         cbn [t_eq tok_text] in *; rewrite ?E1, ?E2, ?E3, ?E4, ?E5; reflexivity).
  - (* literal part *)
    destruct Hp as [_ Hps]. destruct (lit_tests s Hps) as (E1 & E2 & E3 & E4 & _).
    rewrite E1, E2, E3, E4. reflexivity.
Qed.

Lemma merge1_lits texts part : lit_ok part -> Forall lit_ok texts -> Forall lit_ok (glob_merge1 texts part).
Proof.
  intros Hp Ht. unfold glob_merge1. destruct texts as [|l rest]; [constructor; [exact Hp|constructor]|].
  assert (Hr : Forall lit_ok rest) by (inversion Ht; assumption).
  assert (Hl : lit_ok l) by (inversion Ht; assumption).
  destruct part; repeat match goal with |- context [if ?c then _ else _] => destruct c end;
    repeat (apply Forall_cons); try exact Hp; try exact Hl; try exact Hr; try exact Ht; try exact I.
Qed.

Lemma loop2_spec parts : Forall lit_ok parts -> forall texts, Forall lit_ok texts ->
  forall pat subs, fold_cres (glob_loop2 pat subs) parts texts = COk (fold_left glob_merge1 parts texts).
Proof.
  induction 1 as [|t ts Ht Hts IH]; intros texts Htx pat subs; [reflexivity|].
  cbn [fold_cres fold_left]. rewrite (merge_step _ _ Ht Htx). apply IH. apply merge1_lits; assumption.
Qed.

Lemma glob_parts_lits subs ts : Forall lit_ok ts -> forall r, glob_parts ts subs = COk r -> Forall lit_ok r.
Proof.
  induction 1 as [|t ts Ht Hts IH]; intros r; cbn [glob_parts]; [intros H; inversion H; constructor|].
  destruct t; try (destruct (glob_parts ts subs) as [r0|]; [|discriminate]; intros H; inversion H; subst;
                   constructor; [exact Ht|apply IH; reflexivity]).
  destruct (is_nil name); [discriminate|].
  destruct (glob_parts ts subs) as [r0|]; [|discriminate]. intros H; inversion H; subst.
  apply Forall_app. split; [apply tokenize_lits|apply IH; reflexivity].
Qed.

Definition ok_frag (ip : bool * tok) : Prop := match ip with (true, TLit _) => False | _ => True end.

Lemma py_frags_ok ts : forall b, Forall ok_frag (py_frags ts b).
Proof.
  induction ts as [|t ts IH]; intros b.
  - destruct b; repeat constructor.
  - destruct t; cbn [py_frags]; destruct b; cbn [app]; repeat (constructor; try exact I); apply IH.
Qed.

Lemma gen_loop1_step pat subs acc ip : ok_frag ip ->
  gen_conv_glob_loop1 pat subs acc ip = glob_loop1 subs acc ip.
Proof.
  intros H. rewrite gen_glob_loop1_pointwise. destruct ip as [[] t]; destruct t; try reflexivity. destruct H.
Qed.

Lemma gen_loop1_is_glob_loop1 l : Forall ok_frag l -> forall pat subs acc,
  fold_cres (gen_conv_glob_loop1 pat subs) l acc = fold_cres (glob_loop1 subs) l acc.
Proof.
  induction 1 as [|ip l Hip Hl IH]; intros pat subs acc; [reflexivity|].
  cbn [fold_cres]. rewrite (gen_loop1_step _ _ _ _ Hip). destruct (glob_loop1 subs acc ip); [apply IH|reflexivity].
Qed.

Theorem gen_conv_glob_eq p subs : gen_conv_glob p subs = conv_glob p subs.
Proof.
  unfold gen_conv_glob, conv_glob. cbv zeta. unfold py_split_enum.
  rewrite (gen_loop1_is_glob_loop1 _ (py_frags_ok _ _)).
  pose proof (loop1_spec subs (tokenize p) (tokenize_lits p) false []) as H1.
  destruct (glob_parts (tokenize p) subs) as [r|e] eqn:Eg.
  - destruct H1 as [parts [Hf Hp]]. rewrite Hf. cbn [filter app] in Hp.
    change (filter (fun part => negb (t_eq part [])) parts) with (filter ne parts). rewrite Hp.
    change (gen_conv_glob_loop2 p subs) with (glob_loop2 p subs).
    rewrite (loop2_spec r (glob_parts_lits _ _ (tokenize_lits p) _ Eg) [] (Forall_nil _)). reflexivity.
  - rewrite H1. rewrite (glob_parts_err _ _ _ Eg). reflexivity.
Qed.

(* everything together, as stated in props/C17.v *)
Theorem translated_code_equals_model :
  (forall (K : Type) (keqb : K -> K -> bool) (mv : str -> option K), (forall k, keqb k k = true) ->
     (forall r paths, gen_extend K keqb mv r paths = extend keqb mv r paths)
     /\ (forall r paths, gen_reduce K keqb mv r paths = reduce keqb mv r paths)
     /\ (forall r deleted added, gen_will_change K keqb mv r deleted added = will_change keqb mv r deleted added)
     /\ (forall r q, In q (gen_files K r) <-> In q (files r)))
  /\ (forall k : key, key_eqb k k = true)
  /\ (forall r names path, gen_match_values r names path = match_values r names path)
  /\ (forall n, gen_get_wildcard_name (TName n) = if is_nil n then CErr EEmptyName else COk n)
  /\ (forall p subs, gen_conv_glob p subs = conv_glob p subs)
  /\ (forall p, Forall lit_ok (tokenize p))
  /\ forallb (fun tc => str_eqb (tok_text (fst tc)) (snd tc)) gen_tok_consts = true.
Proof.
  split.
  { intros K keqb mv Hr. repeat split.
    - intros. apply gen_extend_eq. exact Hr.
    - intros. apply gen_reduce_eq.
    - intros. apply gen_will_change_eq. exact Hr.
    - apply (gen_files_eq K mv).
    - apply (gen_files_eq K mv). }
  split; [exact key_eqb_refl|]. split; [exact gen_match_values_eq|]. split; [exact gen_get_wildcard_name_eq|].
  split; [exact gen_conv_glob_eq|]. split; [exact tokenize_lits|exact gen_tok_consts_ok].
Qed.
