(* C09: the transactions outside the 15-operation alphabet (model/GraphExt.v) and the startup
   consistency check (model/GraphCheck.v) preserve the invariant; reachable states of op_x;
   reset_interrupted = its two transactions; OpFrame changes nothing. *)
From Coq Require Import List NArith Bool Lia.
From SV Require Import lib.Bytes lib.Closure model.Graph model.GraphDump model.GraphInv model.GraphTree model.GraphTreeInv
  model.GraphCheck model.GraphExt
  proofs.GraphBase proofs.GraphNodes proofs.GraphInvP proofs.GraphPrims proofs.GraphFrames proofs.GraphCreate
  proofs.GraphOps proofs.GraphLife proofs.GraphSucc proofs.GraphTrans proofs.GraphTreeSim proofs.GraphNodeFrame
  proofs.GraphProofs proofs.GraphTreeT1 proofs.GraphTreeOps.
Import ListNotations.
Open Scope N_scope.

Section HH.
Context {hh : bool}.

Lemma mark_step_pending_inv l s : Inv hh s -> wpg false (mark_step_pending l s) (fun s' => Inv hh s').
Proof.
  intros HI. eapply wpg_weaken; [apply (@mark_step_pending_spec hh); [exact HI | intros H; discriminate H]|].
  intros s' [H _]. exact H.
Qed.

Lemma mark_steps_pending_inv ls s : Inv hh s -> wpg false (mark_steps_pending ls s) (fun s' => Inv hh s').
Proof.
  intros HI. unfold mark_steps_pending. apply (wpg_foldM false _ (fun s' => Inv hh s')); [|exact HI].
  intros s1 l _ I1. apply mark_step_pending_inv. exact I1.
Qed.

(* Trellis._check_consistency + Workflow._check_consistency with its repair *)
Lemma check_consistency_inv s : Inv hh s -> wpg false (check_consistency s) (fun s' => Inv hh s').
Proof.
  intros HI. unfold check_consistency. destruct (negb (trellis_consistent_b s)); [exact I|].
  apply (wpg_foldM false _ (fun s' => Inv hh s')); [|exact HI].
  intros s1 l _ I1. apply mark_step_pending_inv. exact I1.
Qed.

Lemma skip_overtaken_inv l s : Inv hh s -> wpg false (skip_overtaken l s) (fun s' => Inv hh s').
Proof.
  intros HI. unfold skip_overtaken.
  eapply wpg_weaken; [apply (@set_sstate_spec hh); [exact HI | intros H; discriminate H]|].
  intros s' [H _]. exact H.
Qed.

Lemma invalidate_steps_inv ls s : Inv hh s -> wpg false (invalidate_steps ls s) (fun s' => Inv hh s').
Proof.
  intros HI. unfold invalidate_steps. apply (wpg_foldM false _ (fun s' => Inv hh s')); [|exact HI].
  intros s1 l _ I1. unfold invalidate_step. apply mark_step_pending_inv. apply (@delete_hash_inv hh). exact I1.
Qed.

Lemma reset_interrupted_raw_inv s : Inv hh s -> wpg false (reset_interrupted_raw s) (fun s' => Inv hh s').
Proof.
  intros HI. unfold reset_interrupted_raw.
  apply wpg_bind. eapply wpg_weaken.
  { apply (wpg_foldM false _ (fun s' => Inv hh s')); [|exact HI].
    intros s1 r _ I1. destruct (sst r); try exact I1. apply (@set_sstate_raw_spec hh). exact I1. }
  intros s1 I1.
  apply (wpg_foldM false _ (fun s' => Inv hh s')); [|exact I1].
  intros s2 r _ I2. destruct (sst r); try exact I2. apply (@set_sstate_raw_spec hh). exact I2.
Qed.

Lemma revert_optional_inv ls s : Inv hh s -> wpg false (revert_optional ls s) (fun s' => Inv hh s').
Proof.
  intros HI. unfold revert_optional.
  apply wpg_bind. eapply wpg_weaken.
  { apply (wpg_foldM false _ (fun s' => Inv hh s')); [|exact HI].
    intros s1 l _ I1. destruct (sstate_of l s1) as [[]|]; try exact I1; apply (@set_sstate_raw_spec hh); exact I1. }
  intros s1 I1.
  apply (wpg_foldM false _ (fun s' => Inv hh s')); [|exact I1].
  intros s2 f _ I2.
  assert (Hset : wpg false (set_fstate_hash f FPlanned (Some None) s2) (fun s' => Inv hh s')).
  { eapply wpg_weaken.
    - apply (@set_fstate_hash_spec hh); [exact I2 | discriminate | | intros H; discriminate H].
      intros d sl0 _ _ _ n c _ _. reflexivity.
    - intros s' [H _]. exact H. }
  destruct (fstate_of f s2) as [[]|]; try exact I2; exact Hset.
Qed.

Lemma products_members k s p : In p (products k s) -> p <> k /\ In p (KL (nodes s)).
Proof.
  unfold products. intros H. apply in_map_iff in H. destruct H as [n [Hn Hin]]. subst p.
  apply filter_In in Hin. destruct Hin as [Hin Hc]. apply andb_true_iff in Hc. destruct Hc as [_ Hc].
  apply negb_true_iff in Hc. apply key_eqb_neq in Hc. split; [exact Hc|].
  unfold KL. apply in_map. exact Hin.
Qed.

Lemma init_boot_inv h s : Inv hh s -> wpg false (init_boot h s) (fun s' => Inv hh s').
Proof.
  intros HI. unfold init_boot. destruct (boot_present s); [exact HI|].
  apply wpg_bind. eapply wpg_weaken.
  { apply (@detach_list_spec hh false); [exact HI|]. intros p Hp. apply products_members. exact Hp. }
  intros s1 [I1 _]. apply wpg_bind. eapply wpg_weaken; [apply (@declare_static_files_t_spec hh); exact I1|].
  intros s2 [I2 _]. apply wpg_bind.
  assert (Hupd : wpg false (update_file_hashes CConfirmed [(plan_py, h)] s2) (fun s' => Inv hh s')).
  { eapply wpg_weaken; [apply (@update_file_hashes_spec hh); [exact I2 | intros H; discriminate H]|].
    intros s' [H _]. exact H. }
  assert (Hdef : forall s3, Inv hh s3 ->
            wpg false (define_step_t root_key boot_label [plan_py] [] [] [] NPlan s3) (fun s' => Inv hh s')).
  { intros s3 I3. eapply wpg_weaken; [apply (@define_step_t_spec hh); exact I3|]. intros s' [H _]. exact H. }
  destruct (fstate_of plan_py s2) as [[]|];
    try (cbn [wpg]; apply Hdef; exact I2);
    (eapply wpg_weaken; [exact Hupd | intros s3 I3; apply Hdef; exact I3]).
Qed.

End HH.

Lemma step_op_c_inv hh o s :
  Inv hh s -> (hh = true -> protocol_hold_c_b s o = true) -> wpg false (step_op_c o s) (fun s' => Inv hh s').
Proof.
  intros HI Hp. destruct o as [o|]; cbn [step_op_c].
  - apply step_op_t_inv; [exact HI | exact Hp].
  - apply (@check_consistency_inv hh). exact HI.
Qed.

Lemma undefer_row_ok hh r : sw_ok_b hh r = true -> sw_ok_b hh (undefer_row r) = true.
Proof.
  unfold sw_ok_b, undefer_row. cbn [sdef sst shold]. intros H. apply andb_true_iff in H. destruct H as [_ H].
  rewrite H. reflexivity.
Qed.

Lemma undefer_fold_inv hh ls : forall a, Inv hh a -> Inv hh (fold_left (fun a l => upd_step l undefer_row a) ls a).
Proof.
  induction ls as [|l ls IH]; intros a HI; cbn [fold_left]; [exact HI|].
  apply IH. apply (@upd_step_inv hh); [exact HI | intros r; reflexivity |].
  intros r Hr _. apply undefer_row_ok. pose proof (inv_sw _ HI) as Hsw. apply Hsw. exact Hr.
Qed.

(* both forms of the trigger (first form of 84081f2 and its refinement) *)
Lemma undefer_post_with_inv hh refined s s' : Inv hh s' -> Inv hh (undefer_post_with refined s s').
Proof. intros HI. unfold undefer_post_with. apply undefer_fold_inv. exact HI. Qed.
Lemma undefer_post_inv hh s s' : Inv hh s' -> Inv hh (undefer_post s s').
Proof. apply undefer_post_with_inv. Qed.

Lemma step_op_x0_inv hh o s :
  Inv hh s -> (hh = true -> protocol_hold_x_b s o = true) -> wpg false (step_op_x0 o s) (fun s' => Inv hh s').
Proof.
  intros HI Hp. destruct o; cbn [step_op_x0].
  - apply step_op_c_inv; [exact HI | exact Hp].
  - apply (@skip_overtaken_inv hh). exact HI.
  - apply (@invalidate_steps_inv hh). exact HI.
  - apply (@mark_steps_pending_inv hh). exact HI.
  - apply (@revert_optional_inv hh). exact HI.
  - apply (@reset_interrupted_raw_inv hh). exact HI.
  - apply (@init_boot_inv hh). exact HI.
  - exact HI.
Qed.

Lemma wrap_inv hh o s :
  Inv hh s -> (hh = true -> protocol_hold_x_b s o = true) ->
  wpg false (match step_op_x0 o s with
             | Ok s' => Ok (undefer_post s s') | Usage t => Usage t | Internal t => Internal t end)
      (fun s' => Inv hh s').
Proof.
  intros HI Hp. pose proof (step_op_x0_inv hh o s HI Hp) as H.
  destruct (step_op_x0 o s); cbn [wpg] in *; [apply undefer_post_inv; exact H | exact I | exact I].
Qed.

Lemma step_op_x_inv hh o s :
  Inv hh s -> (hh = true -> protocol_hold_x_b s o = true) -> wpg false (step_op_x o s) (fun s' => Inv hh s').
Proof.
  intros HI Hp.
  assert (Hv : forall l, wpg false (set_sstate l SPending (has_unusable_dynamic_input l s) s) (fun s' => Inv hh s')).
  { intros l. eapply wpg_weaken; [apply (@set_sstate_spec hh); [exact HI | intros H; discriminate H]|].
    intros s' [H _]. exact H. }
  destruct o as [oc| | | | | | |]; try (apply wrap_inv; assumption).
  destruct oc as [ot|]; [|apply wrap_inv; assumption].
  destruct ot as [ob|]; [|apply wrap_inv; assumption].
  destruct ob; try (apply wrap_inv; assumption).
  cbn [step_op_x]. apply Hv.
Qed.

Lemma apply_op_x_inv hh o s :
  Inv hh s -> (hh = true -> protocol_hold_x_b s o = true) -> Inv hh (apply_op_x s o).
Proof.
  intros HI Hp. unfold apply_op_x. pose proof (step_op_x_inv hh o s HI Hp) as H.
  destruct (step_op_x o s); [exact H | exact HI | exact HI].
Qed.

Lemma inv_x_preserved s o :
  inv_b s = true -> protocol_hold_x_b s o = true -> inv_b (apply_op_x s o) = true.
Proof.
  intros H Hp. apply inv_b_iff. apply apply_op_x_inv; [apply inv_b_iff; exact H | intros _; exact Hp].
Qed.

Lemma inv_core_x_preserved s o : inv_core_b s = true -> inv_core_b (apply_op_x s o) = true.
Proof.
  intros H. apply inv_core_b_iff. apply apply_op_x_inv; [apply inv_core_b_iff; exact H | intros Hlax; discriminate Hlax].
Qed.

Lemma reachable_inv_core_x cap ops : inv_core_b (run_ops_x ops (init_st cap)) = true.
Proof.
  unfold run_ops_x. generalize (inv_core_init cap). generalize (init_st cap).
  induction ops as [|o ops IH]; intros s Hs; cbn [fold_left]; [exact Hs|].
  apply IH. apply inv_core_x_preserved. exact Hs.
Qed.

Lemma reachable_inv_x_prefixes cap ops :
  protocol_run_x_b (init_st cap) ops = true -> all_prefixes_ok_x inv_b (init_st cap) ops = true.
Proof.
  generalize (inv_init cap). generalize (init_st cap).
  induction ops as [|o ops IH]; intros s Hs Hp; cbn [all_prefixes_ok_x]; rewrite Hs; [reflexivity|].
  cbn in Hp. apply andb_true_iff in Hp. destruct Hp as [Hp1 Hp2]. cbn.
  apply IH; [apply inv_x_preserved; assumption | exact Hp2].
Qed.

(* the one model operation OpResetInterrupted is the composition of the two transactions of
   startup.reset_interrupted_steps: the raw state updates, then mark_step_pending for the attached
   FAILED steps *)
Lemma reset_interrupted_split s :
  reset_interrupted s =
  bind (reset_interrupted_raw s)
       (fun s2 => foldM (fun s r => match sstate_of (sl r) s with
                                    | Some SFailed => if is_detached (KStep, sl r) s then Ok s else mark_step_pending (sl r) s
                                    | _ => Ok s end) (steps s2) s2).
Proof.
  unfold reset_interrupted, reset_interrupted_raw.
  destruct (foldM _ (steps s) s) as [s1|t|t]; cbn [bind]; reflexivity.
Qed.
