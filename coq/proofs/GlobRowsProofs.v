(* C08: registrations in the `nglob` table are never lost except by the documented removal paths
   (Step.reset_for_rerun of the registering step; deletion of its detached node), for ALL
   operation sequences. *)
From Coq Require Import List NArith Bool Lia PeanoNat.
From SV Require Import lib.Bytes gen.GenClaims model.Claims model.GlobRows.
Import ListNotations.
Open Scope N_scope.

(* The two facts of the code, translated on every run (gen/GenClaims.v), that the theorems below are
   about: register_nglob deletes no existing row; Step.reset_for_rerun deletes the rows of the step.
   If the code changes either, the model follows (model/GlobRows.v) and these two lemmas no longer hold. *)
Lemma register_deletes_no_row s pat key l : rows_pre_delete register_pre_delete s pat key l = l.
Proof. reflexivity. Qed.

Lemma reset_deletes_rows_true : reset_deletes_rows = true.
Proof. reflexivity. Qed.

Definition reg_of (r : row) : N * str * str * subs_t := (r_id r, r_step r, r_pat r, r_subs r).

Lemma of_step_true s r : of_step s r = true <-> r_step r = s.
Proof. unfold of_step. split; [apply str_eqb_eq|intros ->; apply str_eqb_refl]. Qed.

(* one operation that is not a removal path of the row's step keeps the registration *)
Lemma apply_op_keeps t o r :
  In r (rows t) -> removes (r_step r) o = false ->
  exists r', In r' (rows (apply_op t o)) /\ reg_of r' = reg_of r.
Proof.
  intros Hin Hrm. destruct o; cbn [apply_op rows removes] in *; rewrite ?register_deletes_no_row, ?reset_deletes_rows_true in *; cbn [rows] in *.
  - exists r. split; [apply in_or_app; now left|reflexivity].
  - exists (if r_id r =? i then mkRow (r_id r) (r_step r) (r_pat r) (r_subs r) ms else r). split.
    + apply in_map_iff. exists r. split; [reflexivity|exact Hin].
    + destruct (r_id r =? i); reflexivity.
  - exists r. split; [|reflexivity]. apply filter_In. split; [exact Hin|].
    apply negb_true_iff. destruct (of_step s r) eqn:E; [|reflexivity].
    apply of_step_true in E. rewrite E, str_eqb_refl in Hrm. discriminate.
  - exists r. split; [exact Hin|reflexivity].
  - exists r. split; [exact Hin|reflexivity].
  - destruct (mem_str s (det t)); [|exists r; split; [exact Hin|reflexivity]].
    cbn [rows]. exists r. split; [|reflexivity]. apply filter_In. split; [exact Hin|].
    apply negb_true_iff. destruct (of_step s r) eqn:E; [|reflexivity].
    apply of_step_true in E. rewrite E, str_eqb_refl in Hrm. discriminate.
Qed.

Lemma reg_of_step a b : reg_of a = reg_of b -> r_step a = r_step b.
Proof. unfold reg_of. intros H. now inversion H. Qed.

(* A registration survives every sequence that contains no removal path of its step: whatever
   else happens (other registrations of the same pattern by the same step, with equal or with
   different constraints; rewriting of recorded matches; other steps being reset, detached,
   re-attached or deleted; the step itself being detached and re-attached). *)
Theorem registration_survives os t r :
  In r (rows t) -> forallb (fun o => negb (removes (r_step r) o)) os = true ->
  exists r', In r' (rows (run_ops t os)) /\ reg_of r' = reg_of r.
Proof.
  unfold run_ops. revert t r. induction os as [|o os IH]; intros t r Hin Hall; cbn [fold_left].
  - exists r. split; [exact Hin|reflexivity].
  - cbn [forallb] in Hall. apply andb_true_iff in Hall as [Ho Hos]. apply negb_true_iff in Ho.
    destruct (apply_op_keeps t o r Hin Ho) as [r1 [Hin1 Hreg1]].
    destruct (IH (apply_op t o) r1 Hin1) as [r2 [Hin2 Hreg2]].
    + rewrite (reg_of_step _ _ Hreg1). exact Hos.
    + exists r2. split; [exact Hin2|]. now rewrite Hreg2.
Qed.

(* The contrapositive, as the property reads: a lost registration has met Step.reset_for_rerun of
   its step or the deletion of its (detached) step node. *)
Theorem registration_lost_only_by_removal os t r :
  In r (rows t) ->
  (forall r', In r' (rows (run_ops t os)) -> reg_of r' <> reg_of r) ->
  exists o, In o os /\ removes (r_step r) o = true.
Proof.
  intros Hin Hlost.
  destruct (forallb (fun o => negb (removes (r_step r) o)) os) eqn:E.
  - destruct (registration_survives os t r Hin E) as [r' [Hin' Hreg]]. exfalso. exact (Hlost r' Hin' Hreg).
  - assert (H : existsb (fun o => removes (r_step r) o) os = true).
    { clear -E. induction os as [|o os IH]; cbn in *; [discriminate|].
      destruct (removes (r_step r) o); cbn in *; [reflexivity|auto]. }
    apply existsb_exists in H. exact H.
Qed.

(* a new registration is a NEW row: it is appended under a fresh id, and no existing row changes *)
Theorem add_appends t s pat subs ms :
  rows (apply_op t (OAdd s pat subs ms)) = rows t ++ [mkRow (next_id t) s pat subs ms].
Proof. reflexivity. Qed.

(* the documented removal path does remove: after reset_for_rerun of s no row of s is left *)
Theorem reset_removes_rows t s r : In r (rows (apply_op t (OReset s))) -> r_step r <> s.
Proof.
  cbn [apply_op]. rewrite reset_deletes_rows_true. cbn [rows]. intros H Heq.
  apply filter_In in H as [_ H]. apply negb_true_iff in H. apply of_step_true in Heq. congruence.
Qed.

Lemma NoDup_app_one {A} (l : list A) x : NoDup l -> ~ In x l -> NoDup (l ++ [x]).
Proof.
  induction l as [|y l IH]; cbn; intros H Hn; [constructor; [tauto|constructor]|].
  inversion H; subst. constructor.
  - intros Hin. apply in_app_or in Hin as [Hin|[<-|[]]]; tauto.
  - apply IH; tauto.
Qed.

Lemma le_max_id l r : In r l -> r_id r <= max_id l.
Proof.
  induction l as [|x l IH]; cbn; intros H; [tauto|].
  destruct H as [<-|H]; [apply N.le_max_l|]. specialize (IH H).
  eapply N.le_trans; [exact IH|apply N.le_max_r].
Qed.

(* row ids identify rows: pairwise distinct in every table reachable by ANY operation sequence
   (although SQLite reuses the id of a deleted last row) *)
Definition ids_fresh (t : table) : Prop := NoDup (map r_id (rows t)).

Lemma NoDup_map_filter {A B} (f : A -> B) (g : A -> bool) l : NoDup (map f l) -> NoDup (map f (filter g l)).
Proof.
  induction l as [|x l IH]; cbn; intros H; [constructor|]. inversion H; subst.
  destruct (g x); cbn; [constructor|]; auto.
  intros Hin. apply H2. apply in_map_iff in Hin as [y [Hy Hin]]. apply filter_In in Hin as [Hin _].
  apply in_map_iff. now exists y.
Qed.

Lemma ids_fresh_step t o : ids_fresh t -> ids_fresh (apply_op t o).
Proof.
  unfold ids_fresh. intros H. destruct o; cbn [apply_op rows]; rewrite ?register_deletes_no_row, ?reset_deletes_rows_true; cbn [rows].
  - rewrite map_app. cbn [map r_id]. apply NoDup_app_one; [exact H|].
    intros Hin. apply in_map_iff in Hin as [r [Hid Hin]]. apply le_max_id in Hin.
    unfold next_id in Hid. lia.
  - rewrite map_map.
    replace (map (fun x => r_id (if r_id x =? i then mkRow (r_id x) (r_step x) (r_pat x) (r_subs x) ms else x)) (rows t))
      with (map r_id (rows t)); [exact H|].
    apply map_ext. intros r. destruct (r_id r =? i); reflexivity.
  - now apply NoDup_map_filter.
  - exact H.
  - exact H.
  - destruct (mem_str s (det t)); [|exact H]. cbn [rows]. now apply NoDup_map_filter.
Qed.

Theorem ids_fresh_run os t : ids_fresh t -> ids_fresh (run_ops t os).
Proof.
  unfold run_ops. revert t. induction os as [|o os IH]; intros t H; cbn [fold_left]; [exact H|].
  apply IH. now apply ids_fresh_step.
Qed.

(* the key (step, pattern, subs) as a multiset: counts *)
Definition same_key (s pat : str) (subs : subs_t) (r : row) : bool :=
  str_eqb (r_step r) s && str_eqb (r_pat r) pat
  && list_eqb (fun x y : str * str => str_eqb (fst x) (fst y) && str_eqb (snd x) (snd y)) (r_subs r) subs.

Definition key_count (s pat : str) (subs : subs_t) (t : table) : nat :=
  List.length (filter (same_key s pat subs) (rows t)).

Definition adds_key (s pat : str) (subs : subs_t) (o : op) : bool :=
  match o with
  | OAdd s' pat' subs' _ => same_key s pat subs (mkRow 0 s' pat' subs' [])
  | _ => false
  end.

Lemma same_key_step s pat subs r : same_key s pat subs r = true -> r_step r = s.
Proof.
  unfold same_key. intros H. apply andb_true_iff in H as [H _]. apply andb_true_iff in H as [H _].
  now apply str_eqb_eq.
Qed.

Lemma filter_filter_neutral {A} (f g : A -> bool) l :
  (forall x, f x = true -> g x = true) -> filter f (filter g l) = filter f l.
Proof.
  intros H. induction l as [|x l IH]; cbn; [reflexivity|].
  destruct (g x) eqn:Eg; cbn.
  - destruct (f x); now rewrite IH.
  - destruct (f x) eqn:Ef; [apply H in Ef; congruence|exact IH].
Qed.

Lemma key_count_step s pat subs t o :
  removes s o = false ->
  key_count s pat subs (apply_op t o) =
  (key_count s pat subs t + (if adds_key s pat subs o then 1 else 0))%nat.
Proof.
  intros Hrm. unfold key_count. destruct o; cbn [apply_op rows adds_key removes] in *; rewrite ?register_deletes_no_row, ?reset_deletes_rows_true in *; cbn [rows] in *.
  - rewrite filter_app, app_length. cbn [filter].
    change (same_key s pat subs (mkRow (max_id (rows t) + 1) s0 pat0 subs0 ms))
      with (same_key s pat subs (mkRow 0 s0 pat0 subs0 [])).
    destruct (same_key s pat subs (mkRow 0 s0 pat0 subs0 [])); reflexivity.
  - rewrite Nat.add_0_r. induction (rows t) as [|r l IH]; cbn; [reflexivity|].
    replace (same_key s pat subs (if r_id r =? i then mkRow (r_id r) (r_step r) (r_pat r) (r_subs r) ms else r))
      with (same_key s pat subs r) by (destruct (r_id r =? i); reflexivity).
    destruct (same_key s pat subs r); cbn; now rewrite IH.
  - rewrite Nat.add_0_r. f_equal. apply filter_filter_neutral. intros r Hk.
    apply same_key_step in Hk. apply negb_true_iff. unfold of_step. rewrite Hk.
    destruct (str_eqb s s0) eqn:E; [|reflexivity].
    apply str_eqb_eq in E. subst s0. rewrite str_eqb_refl in Hrm. discriminate.
  - now rewrite Nat.add_0_r.
  - now rewrite Nat.add_0_r.
  - rewrite Nat.add_0_r. destruct (mem_str s0 (det t)); [|reflexivity]. cbn [rows].
    f_equal. apply filter_filter_neutral. intros r Hk.
    apply same_key_step in Hk. apply negb_true_iff. unfold of_step. rewrite Hk.
    destruct (str_eqb s s0) eqn:E; [|reflexivity].
    apply str_eqb_eq in E. subst s0. rewrite str_eqb_refl in Hrm. discriminate.
Qed.

(* Between two removal paths of step s the number of rows of the key (s, pattern, subs) is the
   number of registrations made under that key: a second registration of a pattern never
   supersedes the first one. *)
Theorem key_count_exact os t s pat subs :
  forallb (fun o => negb (removes s o)) os = true ->
  key_count s pat subs (run_ops t os) =
  (key_count s pat subs t + List.length (filter (adds_key s pat subs) os))%nat.
Proof.
  unfold run_ops. revert t. induction os as [|o os IH]; intros t Hall; cbn [fold_left filter].
  - cbn. lia.
  - cbn [forallb] in Hall. apply andb_true_iff in Hall as [Ho Hos]. apply negb_true_iff in Ho.
    rewrite (IH _ Hos), (key_count_step _ _ _ _ _ Ho).
    destruct (adds_key s pat subs o); cbn [List.length]; lia.
Qed.

(* what the readers see: the rows of the attached steps, nothing else hidden *)
Theorem visible_spec t r :
  In r (visible t) <-> In r (rows t) /\ mem_str (r_step r) (det t) = false.
Proof.
  unfold visible. rewrite filter_In. split; intros [H1 H2]; split; auto.
  - now apply negb_true_iff.
  - now apply negb_true_iff.
Qed.
