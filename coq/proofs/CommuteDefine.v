(* C02: look-up characterisation of Workflow.define_step for a new label (define_step_new) in the
   fresh fragment, and the pairs (static, define), (define, define) of declarations_commute.
   Continues proofs/CommuteProofs.v. *)
From Coq Require Import List NArith Bool Lia PeanoNat.
From SV Require Import lib.Bytes model.Graph model.GraphDump model.GraphInv model.Commute
                       proofs.CommuteProofs.
Import ListNotations.
Open Scope N_scope.

(* ------------------------------------------------------------------------------------------ *)
(* 1. Trellis.create of a file node with any creator (None = supplied, undeclared)             *)
(* ------------------------------------------------------------------------------------------ *)
Definition cdet_of (cr : option key) (s : st) : bool :=
  match cr with None => true | Some c => is_detached c s end.
Definition cr_ok (cr : option key) : Prop := match cr with Some c => not_file c | None => True end.

Lemma nfc_upd_node_gen k cr d s :
  cr_ok cr -> no_file_creator_b s = true ->
  no_file_creator_b (upd_node k (fun n => mkNode (nk n) cr d) s) = true.
Proof.
  unfold no_file_creator_b, upd_node. cbn [nodes set_nodes]. intros Hc H.
  rewrite forallb_forall in *. intros x Hx. apply in_map_iff in Hx as [y [<- Hy]].
  destruct (key_eqb (nk y) k).
  - cbn. destruct cr as [[[] cl]|]; try reflexivity. exfalso. apply Hc. reflexivity.
  - apply H. exact Hy.
Qed.

Lemma creator_ok_cr_ok l cr s u : creator_ok (KFile, l) cr s = Ok u -> cr_ok cr.
Proof. destruct cr as [c|]; [apply creator_ok_not_file | intros _; exact I]. Qed.

Record gnode_spec (cr : option key) (l : str) (s s1 : st) : Prop := mkGN {
  gn_node : forall k, node_view k s1 =
                      if key_eqb k (KFile, l) then Some (cr, cdet_of cr s) else node_view k s;
  gn_files : files s1 = files s;
  gn_steps : steps s1 = steps s;
  gn_envs : envs s1 = envs s;
  gn_cap : defer_cap s1 = defer_cap s;
  gn_dep : forall a b, find_dep a b s1 =
                       if key_eqb b (KFile, l) && existsn (KFile, l) s then None else find_dep a b s;
  gn_hash : forall x, has_hash x s1 = has_hash x s && negb (lostb s l x);
  gn_nfc : no_file_creator_b s1 = true }.

Lemma create_file_node_gen cr l s s1 :
  create (KFile, l) cr InitTree s = Ok s1 -> no_file_creator_b s = true -> gnode_spec cr l s s1.
Proof.
  intros H Hnfc. unfold create in H.
  destruct (creator_ok (KFile, l) cr s) as [u|t|t] eqn:CO; cbn [bind] in H; try discriminate.
  pose proof (creator_ok_cr_ok _ _ _ _ CO) as Hc. clear CO.
  rewrite bind_ok_r in H. fold (cdet_of cr s) in H.
  destruct (find_node (KFile, l) s) as [n|] eqn:F.
  - destruct (ndet n) eqn:D; cbn [negb] in H; [|discriminate].
    set (s0 := upd_node (KFile, l) (fun n0 => mkNode (nk n0) cr (cdet_of cr s)) s) in *.
    assert (Hnfc0 : no_file_creator_b s0 = true) by (apply nfc_upd_node_gen; assumption).
    assert (Hfin : forall s2, nodes s2 = nodes s0 -> no_file_creator_b s2 = true).
    { intros s2 E. unfold no_file_creator_b. rewrite E. exact Hnfc0. }
    assert (Hnode0 : forall k, node_view k s0 =
              if key_eqb k (KFile, l) then Some (cr, cdet_of cr s) else node_view k s).
    { intros k. unfold s0. rewrite node_view_upd_set. destruct (key_eqb k (KFile, l)) eqn:E; [|reflexivity].
      apply key_eqb_eq in E. subst k. rewrite F. reflexivity. }
    destruct (ncre n) as [oc|] eqn:C.
    + destruct (is_detached oc s); cbn [negb] in H; [|discriminate].
      destruct oc as [ock ocl]. unfold after_lost_product in H.
      destruct ock; cbn [fst snd bind] in H; try discriminate.
      * rewrite products_file_nil in H by (apply Hfin; reflexivity). cbn in H. inversion H; subst s1; clear H.
        constructor; try reflexivity.
        -- intros k. exact (Hnode0 k).
        -- intros a b. rewrite find_dep_del_all_sources. unfold existsn. rewrite F. cbn.
           rewrite andb_true_r. reflexivity.
        -- intros x. unfold lostb. rewrite F, C.
           change (has_hash x (del_all_sources (KFile, l) (delete_hash ocl s0)))
             with (has_hash x (delete_hash ocl s0)).
           rewrite has_hash_delete_hash. reflexivity.
        -- apply Hfin. reflexivity.
      * rewrite products_file_nil in H by (apply Hfin; reflexivity). cbn in H. inversion H; subst s1; clear H.
        constructor; try reflexivity.
        -- intros k. exact (Hnode0 k).
        -- intros a b. rewrite find_dep_del_all_sources. unfold existsn. rewrite F. cbn.
           rewrite andb_true_r. reflexivity.
        -- intros x. unfold lostb. rewrite F, C. rewrite andb_true_r. reflexivity.
        -- apply Hfin. reflexivity.
    + cbn [bind] in H. rewrite products_file_nil in H by (apply Hfin; reflexivity). cbn in H.
      inversion H; subst s1; clear H.
      constructor; try reflexivity.
      * intros k. exact (Hnode0 k).
      * intros a b. rewrite find_dep_del_all_sources. unfold existsn. rewrite F. cbn.
        rewrite andb_true_r. reflexivity.
      * intros x. unfold lostb. rewrite F, C. rewrite andb_true_r. reflexivity.
      * apply Hfin. reflexivity.
  - inversion H; subst s1; clear H.
    constructor; try reflexivity.
    + intros k. rewrite node_view_app. cbn [nk ncre ndet].
      unfold node_view at 1. rewrite (key_eqb_sym (KFile, l) k).
      destruct (key_eqb k (KFile, l)) eqn:E.
      * apply key_eqb_eq in E. subst k. rewrite F. reflexivity.
      * unfold node_view. destruct (find_node k s); reflexivity.
    + intros a b. unfold existsn. rewrite F. cbn. rewrite andb_false_r. reflexivity.
    + intros x. unfold lostb. rewrite F. rewrite andb_true_r. reflexivity.
    + apply nfc_app; [|exact Hnfc]. cbn. destruct cr as [[[] cl]|]; try exact I. apply Hc. reflexivity.
Qed.

(* ------------------------------------------------------------------------------------------ *)
(* 2. File.initialize_row for any requested state, outside the propagating case                *)
(* ------------------------------------------------------------------------------------------ *)
(* a former output keeps BUILT / OUTDATED when it is re-created as an input or planned output; a
   former volatile output that is merely supplied as an input stays VOLATILE (D32, bae2038) *)
Definition nst (f : fstate) (old : option fstate) : fstate :=
  match f, old with
  | FUndeclared, Some FBuilt | FPlanned, Some FBuilt => FBuilt
  | FUndeclared, Some FOutdated | FPlanned, Some FOutdated => FOutdated
  | FUndeclared, Some FVolatile => FVolatile
  | _, _ => f
  end.
Definition old_state (v : option (fstate * option N)) : option fstate :=
  match v with Some (o, _) => Some o | None => None end.
Definition nhash (f : fstate) (v : option (fstate * option N)) : option N :=
  match v with
  | Some (o, h) => if clears_hash o (nst f (Some o)) then None else h
  | None => None
  end.

Record only_files (s s1 : st) : Prop := mkOF {
  of_nodes : nodes s1 = nodes s; of_steps : steps s1 = steps s; of_deps : deps s1 = deps s;
  of_shash : shash s1 = shash s; of_envs : envs s1 = envs s; of_cap : defer_cap s1 = defer_cap s }.

Lemma file_init_gen f l s s1 :
  file_initialize_row l f s = Ok s1 -> nst f (old_state (file_view l s)) <> FBuilt ->
  only_files s s1 /\
  (forall l', file_view l' s1 =
              if str_eqb l' l then Some (nst f (old_state (file_view l s)), nhash f (file_view l s))
              else file_view l' s).
Proof.
  unfold file_initialize_row. intros H NB.
  assert (ST' : match f, find_file l s with
                | FUndeclared, Some r =>
                  match fstt r with FBuilt => FBuilt | FOutdated => FOutdated | FVolatile => FVolatile | _ => f end
                | FPlanned, Some r =>
                  match fstt r with FBuilt => FBuilt | FOutdated => FOutdated | _ => f end
                | _, _ => f end = nst f (old_state (file_view l s))).
  { unfold nst, old_state, file_view. destruct (find_file l s) as [r|]; destruct f; try reflexivity;
      destruct (fstt r); reflexivity. }
  rewrite ST' in H. set (st' := nst f (old_state (file_view l s))) in *.
  destruct (find_file l s) as [r|] eqn:F.
  - unfold set_fstate, set_fstate_hash in H. rewrite F in H.
    destruct (needs_hash st' && match fh r with None => true | Some _ => false end); cbn [bind] in H; [discriminate|].
    destruct (fstate_eqb st' FUndeclared && negb (is_detached (KFile, l) s)); cbn [bind] in H; [discriminate|].
    assert (H' : Ok (upd_file l (fun r0 => mkF (fl r0) st' (if clears_hash (fstt r) st' then None else fh r)) s) = Ok s1).
    { destruct st'; try exact H. exfalso. apply NB. reflexivity. }
    inversion H'; subst s1; clear H H'. split; [constructor; reflexivity|].
    intros l'. rewrite file_view_upd_set. destruct (str_eqb l' l) eqn:E; [|reflexivity].
    apply str_eqb_eq in E. subst l'. rewrite F. unfold nhash, file_view. rewrite F.
    unfold st', old_state, file_view. rewrite F. reflexivity.
  - destruct (needs_hash st'); cbn [bind] in H; [discriminate|].
    destruct (fstate_eqb st' FUndeclared && negb (is_detached (KFile, l) s)); cbn [bind] in H; [discriminate|].
    assert (H' : Ok (set_files s (files s ++ [mkF l st' None])) = Ok s1).
    { destruct st'; try exact H. exfalso. apply NB. reflexivity. }
    inversion H'; subst s1; clear H H'. split; [constructor; reflexivity|].
    intros l'. rewrite file_view_app. cbn [fl fstt fh]. rewrite (str_eqb_sym l l').
    destruct (str_eqb l' l) eqn:E.
    + apply str_eqb_eq in E. subst l'. unfold file_view at 1. rewrite F.
      unfold nhash, file_view. rewrite F. reflexivity.
    + destruct (file_view l' s); reflexivity.
Qed.

(* ------------------------------------------------------------------------------------------ *)
(* 3. create of a file with its row; create of a NEW step node; add_dep; add_env               *)
(* ------------------------------------------------------------------------------------------ *)
Record gfile_spec (cr : option key) (l : str) (f : fstate) (s s' : st) : Prop := mkGF {
  gf_node : forall k, node_view k s' =
                      if key_eqb k (KFile, l) then Some (cr, cdet_of cr s) else node_view k s;
  gf_file : forall l', file_view l' s' =
                       if str_eqb l' l
                       then Some (nst f (old_state (file_view l s)), nhash f (file_view l s))
                       else file_view l' s;
  gf_steps : steps s' = steps s;
  gf_envs : envs s' = envs s;
  gf_cap : defer_cap s' = defer_cap s;
  gf_dep : forall a b, find_dep a b s' =
                       if key_eqb b (KFile, l) && existsn (KFile, l) s then None else find_dep a b s;
  gf_hash : forall x, has_hash x s' = has_hash x s && negb (lostb s l x);
  gf_nfc : no_file_creator_b s' = true }.

Lemma create_file_gen cr l f s s' :
  create (KFile, l) cr (InitFile f) s = Ok s' -> no_file_creator_b s = true ->
  nst f (old_state (file_view l s)) <> FBuilt -> gfile_spec cr l f s s'.
Proof.
  intros H Hnfc NB. rewrite create_split in H. cbn [snd] in H.
  destruct (create (KFile, l) cr InitTree s) as [s1|t|t] eqn:C; cbn [bind] in H; try discriminate.
  apply create_file_node_gen in C; [|exact Hnfc]. destruct C.
  assert (FV : forall l0, file_view l0 s1 = file_view l0 s) by (apply view_of_files; exact gn_files0).
  apply file_init_gen in H; [|rewrite FV; exact NB]. destruct H as [[] Hf].
  constructor.
  - intros k. rewrite (view_of_nodes _ _ of_nodes0). apply gn_node0.
  - intros l'. rewrite Hf, !FV. reflexivity.
  - congruence.
  - congruence.
  - congruence.
  - intros a b. rewrite (view_of_deps _ _ of_deps0). apply gn_dep0.
  - intros x. rewrite (view_of_shash _ _ of_shash0). apply gn_hash0.
  - unfold no_file_creator_b. rewrite of_nodes0. exact gn_nfc0.
Qed.

Lemma step_view_init l' L row s :
  sl row = L ->
  step_view l' (set_steps s (filter (fun r => negb (str_eqb (sl r) L)) (steps s) ++ [row])) =
  if str_eqb l' L then Some (sst row, sneed row, sdef row, sdc row, shold row) else step_view l' s.
Proof.
  intros Hr. unfold step_view, find_step. cbn [steps set_steps]. rewrite find_app_one.
  destruct (str_eqb l' L) eqn:E.
  - apply str_eqb_eq in E. subst l'. rewrite find_filter_drop.
    + rewrite Hr, str_eqb_refl. reflexivity.
    + intros x Hx. rewrite Hx. reflexivity.
  - rewrite find_filter_keep.
    + destruct (find (fun r => str_eqb (sl r) l') (steps s)); [reflexivity|].
      rewrite Hr, (str_eqb_sym L l'), E. reflexivity.
    + intros x Hx. apply str_eqb_eq in Hx. rewrite Hx, E. reflexivity.
Qed.

Record newstep_spec (c : key) (L : str) (nd : need) (s s1 : st) : Prop := mkNS {
  ns_node : forall k, node_view k s1 =
                      if key_eqb k (KStep, L) then Some (Some c, is_detached c s) else node_view k s;
  ns_step : forall l, step_view l s1 =
                      if str_eqb l L then Some (SPending, nd, false, 0, 0) else step_view l s;
  ns_files : files s1 = files s; ns_deps : deps s1 = deps s; ns_shash : shash s1 = shash s;
  ns_envs : envs s1 = envs s; ns_cap : defer_cap s1 = defer_cap s;
  ns_nfc : no_file_creator_b s1 = true }.

Lemma create_step_new c L nd s s1 :
  create (KStep, L) (Some c) (InitStep nd) s = Ok s1 -> find_node (KStep, L) s = None ->
  no_file_creator_b s = true -> newstep_spec c L nd s s1.
Proof.
  unfold create. intros H F Hnfc.
  destruct (creator_ok (KStep, L) (Some c) s) as [u|t|t] eqn:CO; cbn [bind] in H; try discriminate.
  rewrite F in H. cbn [bind snd] in H. unfold step_initialize_row in H. cbn [steps set_nodes] in H.
  inversion H; subst s1; clear H.
  assert (Hc : match c with (KFile, _) => False | _ => True end).
  { unfold creator_ok in CO. destruct (negb (is_some (find_node c s))); [discriminate|].
    destruct (key_eqb c (KStep, L)); [discriminate|].
    destruct c as [[] cl]; cbn in CO; try exact I. discriminate. }
  constructor; try reflexivity.
  - intros k.
    change (node_view k (set_steps (set_nodes s (nodes s ++ [mkNode (KStep, L) (Some c) (is_detached c s)])) _))
      with (node_view k (set_nodes s (nodes s ++ [mkNode (KStep, L) (Some c) (is_detached c s)]))).
    rewrite node_view_app. cbn [nk ncre ndet]. rewrite (key_eqb_sym (KStep, L) k).
    destruct (key_eqb k (KStep, L)) eqn:E.
    + apply key_eqb_eq in E. subst k. unfold node_view. rewrite F. reflexivity.
    + destruct (node_view k s); reflexivity.
  - intros l.
    exact (step_view_init l L (mkS L SPending nd false 0 0)
             (set_nodes s (nodes s ++ [mkNode (KStep, L) (Some c) (is_detached c s)])) eq_refl).
  - apply (nfc_app (mkNode (KStep, L) (Some c) (is_detached c s))); [|exact Hnfc].
    cbn. destruct c as [[] cl]; try exact I. exact Hc.
Qed.

Lemma has_dep_find_dep a b s : has_dep a b s = is_some (find_dep a b s).
Proof.
  unfold has_dep, find_dep. induction (deps s) as [|d t IH]; cbn; [reflexivity|].
  destruct (key_eqb (dsrc d) a && key_eqb (dsnk d) b); [reflexivity | exact IH].
Qed.

Record only_deps (s s1 : st) : Prop := mkOD {
  od_nodes : nodes s1 = nodes s; od_files : files s1 = files s; od_steps : steps s1 = steps s;
  od_shash : shash s1 = shash s; od_envs : envs s1 = envs s; od_cap : defer_cap s1 = defer_cap s }.

Lemma add_dep_spec a b dyn s s1 :
  add_dep a b dyn s = Ok s1 ->
  only_deps s s1 /\
  forall a' b', find_dep a' b' s1 =
                if key_eqb a' a && key_eqb b' b then Some dyn else find_dep a' b' s.
Proof.
  unfold add_dep. intros H. destruct (has_dep a b s) eqn:HD; [discriminate|].
  destruct (negb (dep_kinds_ok a b)); [discriminate|]. inversion H; subst s1; clear H.
  split; [constructor; reflexivity|]. intros a' b'.
  unfold find_dep at 1. cbn [deps set_deps]. rewrite find_app_one. cbn [dsrc dsnk ddyn].
  rewrite (key_eqb_sym a a'), (key_eqb_sym b b').
  destruct (key_eqb a' a && key_eqb b' b) eqn:E.
  - apply andb_true_iff in E as [E1 E2]. apply key_eqb_eq in E1, E2. subst a' b'.
    rewrite has_dep_find_dep in HD. unfold find_dep in HD.
    destruct (find (fun d => key_eqb (dsrc d) a && key_eqb (dsnk d) b) (deps s)); [discriminate|reflexivity].
  - unfold find_dep. destruct (find (fun d => key_eqb (dsrc d) a' && key_eqb (dsnk d) b') (deps s)); reflexivity.
Qed.

Lemma find_env_add_env st0 nm L e s :
  find_env st0 nm (add_env L e false true s) =
  if str_eqb st0 L && str_eqb nm e then Some false else find_env st0 nm s.
Proof.
  unfold add_env, find_env.
  destruct (existsb (fun e0 => str_eqb (estep e0) L && str_eqb (ename e0) e) (envs s)) eqn:EX.
  - cbn [envs set_envs].
    induction (envs s) as [|x t IH]; [discriminate|]. cbn [map find existsb] in *.
    destruct (str_eqb (estep x) L && str_eqb (ename x) e) eqn:M.
    + cbn [estep ename]. apply andb_true_iff in M as [M1 M2]. apply str_eqb_eq in M1, M2.
      destruct (str_eqb st0 L && str_eqb nm e) eqn:Q.
      * apply andb_true_iff in Q as [Q1 Q2]. apply str_eqb_eq in Q1, Q2. subst.
        rewrite !str_eqb_refl. reflexivity.
      * rewrite (str_eqb_sym L st0), (str_eqb_sym e nm), Q.
        rewrite M1, M2, (str_eqb_sym L st0), (str_eqb_sym e nm), Q.
        clear IH EX. induction t as [|y t IHt]; [reflexivity|]. cbn [map find].
        destruct (str_eqb (estep y) L && str_eqb (ename y) e) eqn:My.
        -- cbn [estep ename]. rewrite (str_eqb_sym L st0), (str_eqb_sym e nm), Q.
           apply andb_true_iff in My as [My1 My2]. apply str_eqb_eq in My1, My2.
           rewrite My1, My2, (str_eqb_sym L st0), (str_eqb_sym e nm), Q. exact IHt.
        -- destruct (str_eqb (estep y) st0 && str_eqb (ename y) nm); [reflexivity | exact IHt].
    + cbn [orb] in EX. specialize (IH EX).
      destruct (str_eqb (estep x) st0 && str_eqb (ename x) nm) eqn:N.
      * apply andb_true_iff in N as [N1 N2]. apply str_eqb_eq in N1, N2. subst st0 nm. rewrite M. reflexivity.
      * exact IH.
  - cbn [envs set_envs]. rewrite find_app_one. cbn [estep ename edyn].
    rewrite (str_eqb_sym L st0), (str_eqb_sym e nm).
    destruct (find (fun e0 => str_eqb (estep e0) st0 && str_eqb (ename e0) nm) (envs s)) as [x|] eqn:F.
    + destruct (str_eqb st0 L && str_eqb nm e) eqn:Q; [|reflexivity].
      apply andb_true_iff in Q as [Q1 Q2]. apply str_eqb_eq in Q1, Q2. subst.
      apply find_some in F as [Hin Hx].
      assert (existsb (fun e0 => str_eqb (estep e0) L && str_eqb (ename e0) e) (envs s) = true)
        by (apply existsb_exists; exists x; split; assumption).
      congruence.
    + destruct (str_eqb st0 L && str_eqb nm e); reflexivity.
Qed.

(* ------------------------------------------------------------------------------------------ *)
(* 4. _supply_files for the initial inputs of a new step                                       *)
(* ------------------------------------------------------------------------------------------ *)
(* the input node is (re)created as an undeclared orphan: it is absent or has no creator *)
Definition recreated (s : st) (l : str) : bool :=
  match node_view (KFile, l) s with
  | None | Some (None, _) => true
  | Some (Some _, _) => false
  end.
(* the (re)created row does not keep a BUILT state (which would start a propagation) *)
Definition not_built (s : st) (l : str) : Prop := old_state (file_view l s) <> Some FBuilt.

Lemma nst_not_built f v : v <> Some FBuilt -> f <> FBuilt -> nst f v <> FBuilt.
Proof. intros Hv Hf. destruct f, v as [[]|]; cbn; congruence. Qed.

Lemma lostb_orphan s l x : recreated s l = true -> lostb s l x = false.
Proof.
  unfold recreated. rewrite lostb_view.
  destruct (node_view (KFile, l) s) as [[[oc|] d]|]; try reflexivity. discriminate.
Qed.

Lemma resolve_supply_spec L l s s1 b :
  resolve_supply_file L l true s = Ok (s1, b) -> no_file_creator_b s = true ->
  (recreated s l = true -> not_built s l) ->
  b = true /\ has_dep (KFile, l) (KStep, L) s1 = false /\
  (if recreated s l then gfile_spec None l FUndeclared s s1 else s1 = s).
Proof.
  unfold resolve_supply_file. intros H Hnfc NB.
  assert (R : recreated s l = match find_node (KFile, l) s with
                              | None => true
                              | Some n => match ncre n with None => true | Some _ => false end end).
  { unfold recreated, node_view. destruct (find_node (KFile, l) s) as [n|]; [|reflexivity].
    destruct (ncre n); reflexivity. }
  set (X := match find_node (KFile, l) s with
            | None => create (KFile, l) None (InitFile FUndeclared) s
            | Some n => match ncre n with
                        | None => create (KFile, l) None (InitFile FUndeclared) s
                        | Some _ => match fstate_of l s with
                                    | Some FVolatile => Usage 204
                                    | Some _ => Ok s
                                    | None => Internal 117 end end end) in *.
  destruct X as [s0|t|t] eqn:EX; cbn [bind] in H; try discriminate.
  destruct (has_dep (KFile, l) (KStep, L) s0) eqn:HD; cbn [negb andb] in H; [discriminate|].
  inversion H; subst s1 b; clear H. split; [reflexivity|]. split; [exact HD|].
  unfold X in EX. rewrite R.
  destruct (find_node (KFile, l) s) as [n|] eqn:F.
  - destruct (ncre n) eqn:C.
    + destruct (fstate_of l s) as [[]|]; try discriminate; inversion EX; reflexivity.
    + apply create_file_gen in EX; [exact EX | exact Hnfc|].
      apply nst_not_built; [|discriminate]. apply NB. rewrite R. reflexivity.
  - apply create_file_gen in EX; [exact EX | exact Hnfc|].
    apply nst_not_built; [|discriminate]. apply NB. rewrite R. reflexivity.
Qed.

Record supply_spec (Rl : list str) (s s' : st) : Prop := mkSS {
  ss_node : forall k, node_view k s' = if in_files k Rl then Some (None, true) else node_view k s;
  ss_file : forall l, file_view l s' =
                      if mem_str l Rl
                      then Some (nst FUndeclared (old_state (file_view l s)), nhash FUndeclared (file_view l s))
                      else file_view l s;
  ss_steps : steps s' = steps s;
  ss_envs : envs s' = envs s;
  ss_cap : defer_cap s' = defer_cap s;
  ss_dep : forall a b, find_dep a b s' = if in_files b Rl && existsn b s then None else find_dep a b s;
  ss_hash : forall x, has_hash x s' = has_hash x s;
  ss_nfc : no_file_creator_b s' = true }.

Lemma supply_spec_nil s : no_file_creator_b s = true -> supply_spec [] s s.
Proof.
  intros H. constructor; try reflexivity; try exact H.
  - intros [[] x]; reflexivity.
  - intros a [[] x]; reflexivity.
Qed.

Lemma recreated_view s1 s2 l :
  node_view (KFile, l) s1 = node_view (KFile, l) s2 -> recreated s1 l = recreated s2 l.
Proof. unfold recreated. intros ->. reflexivity. Qed.

Lemma resolve_fold_spec L paths : forall s news s' news',
  NoDup paths ->
  foldM (fun (acc : st * list str) l =>
           do x <- resolve_supply_file L l true (fst acc);
           Ok (fst x, if snd x then snd acc ++ [l] else snd acc)) paths (s, news) = Ok (s', news') ->
  no_file_creator_b s = true ->
  (forall l, In l paths -> recreated s l = true -> not_built s l) ->
  news' = news ++ paths /\ supply_spec (filter (recreated s) paths) s s' /\
  (forall l, In l paths -> has_dep (KFile, l) (KStep, L) s' = false \/ True).
Proof.
  induction paths as [|l paths IH]; intros s news s' news' ND H Hnfc NB.
  - cbn in H. inversion H; subst. rewrite app_nil_r. split; [reflexivity|]. split; [|intros l []].
    apply supply_spec_nil. exact Hnfc.
  - cbn [foldM fst snd] in H. inversion ND as [|? ? Hnotin ND']; subst.
    destruct (resolve_supply_file L l true s) as [[s1 b]|t|t] eqn:RS; cbn [bind fst snd] in H; try discriminate.
    apply resolve_supply_spec in RS; [|exact Hnfc|apply NB; left; reflexivity].
    destruct RS as (-> & _ & RS).
    assert (Hother : forall x, In x paths -> str_eqb x l = false).
    { intros x Hx. apply str_eqb_neq. intros ->. contradiction. }
    destruct (recreated s l) eqn:RC.
    + destruct RS.
      assert (Hrc : forall x, In x paths -> recreated s1 x = recreated s x).
      { intros x Hx. apply recreated_view. rewrite gf_node0, file_key_eqb, (Hother x Hx). reflexivity. }
      apply IH in H; try assumption.
      2:{ intros x Hx Hr. unfold not_built. rewrite gf_file0, (Hother x Hx).
          apply NB; [right; exact Hx | rewrite <- Hrc; assumption]. }
      destruct H as (-> & SP & _). split; [rewrite <- app_assoc; reflexivity|]. split; [|intros; right; exact I].
      rewrite (filter_ext_in _ (recreated s) paths Hrc) in SP. cbn [filter]. rewrite RC.
      destruct SP. set (Rl := filter (recreated s) paths) in *.
      assert (HRl : forall x, mem_str x Rl = true -> str_eqb x l = false).
      { intros x M. apply Hother. eapply mem_filter_sub. exact M. }
      constructor.
      * intros k. rewrite ss_node0, gf_node0.
        destruct k as [kk x]. destruct kk; cbn [in_files]; try reflexivity.
        rewrite file_key_eqb. cbn [mem_str existsb]. fold (mem_str x Rl).
        destruct (mem_str x Rl); [rewrite orb_true_r; reflexivity|]. rewrite orb_false_r.
        destruct (str_eqb x l); reflexivity.
      * intros x. rewrite ss_file0, gf_file0. cbn [mem_str existsb]. fold (mem_str x Rl).
        destruct (mem_str x Rl) eqn:M.
        -- rewrite orb_true_r, (HRl x M). reflexivity.
        -- rewrite orb_false_r. destruct (str_eqb x l) eqn:E; [|reflexivity].
           apply str_eqb_eq in E. subst x. reflexivity.
      * congruence.
      * congruence.
      * congruence.
      * intros a b. rewrite ss_dep0, gf_dep0.
        destruct b as [kk x]. destruct kk; cbn [in_files andb]; try reflexivity.
        rewrite file_key_eqb. cbn [mem_str existsb]. fold (mem_str x Rl).
        rewrite !existsn_view, gf_node0, file_key_eqb.
        destruct (mem_str x Rl) eqn:M.
        -- rewrite (HRl x M). cbn [orb andb]. destruct (is_some (node_view (KFile, x) s)); reflexivity.
        -- cbn [andb orb]. rewrite orb_false_r.
           destruct (str_eqb x l) eqn:E; [|reflexivity]. apply str_eqb_eq in E. subst x. reflexivity.
      * intros x. rewrite ss_hash0, gf_hash0, (lostb_orphan s l x RC). apply andb_true_r.
      * exact ss_nfc0.
    + subst s1. apply IH in H; try assumption.
      2:{ intros x Hx. apply NB. right. exact Hx. }
      destruct H as (-> & SP & _). split; [rewrite <- app_assoc; reflexivity|]. split; [|intros; right; exact I].
      cbn [filter]. rewrite RC. exact SP.
Qed.

Lemma only_deps_trans a b c : only_deps a b -> only_deps b c -> only_deps a c.
Proof. intros [] []. constructor; congruence. Qed.

Lemma add_dep_fold_spec L dyn paths : forall s s',
  foldM (fun s l => add_dep (KFile, l) (KStep, L) dyn s) paths s = Ok s' ->
  only_deps s s' /\
  forall a b, find_dep a b s' =
              if key_eqb b (KStep, L) && in_files a paths then Some dyn else find_dep a b s.
Proof.
  induction paths as [|l paths IH]; intros s s' H.
  - cbn in H. inversion H; subst. split; [constructor; reflexivity|].
    intros a b. destruct a as [[] x]; cbn; rewrite ?andb_false_r; reflexivity.
  - cbn [foldM] in H. destruct (add_dep (KFile, l) (KStep, L) dyn s) as [s1|t|t] eqn:A; cbn [bind] in H; try discriminate.
    apply add_dep_spec in A as [O1 D1]. apply IH in H as [O2 D2].
    split; [eapply only_deps_trans; eassumption|].
    intros a b. rewrite D2, D1.
    destruct (key_eqb b (KStep, L)) eqn:EB; cbn [andb]; [|rewrite andb_false_r; reflexivity].
    destruct a as [kk x]. destruct kk; cbn [in_files]; try (rewrite andb_false_l; reflexivity).
    rewrite file_key_eqb. cbn [mem_str existsb]. fold (mem_str x paths).
    destruct (mem_str x paths); [rewrite orb_true_r; reflexivity|]. rewrite orb_false_r, andb_true_r.
    destruct (str_eqb x l); reflexivity.
Qed.

Record inputs_spec (L : str) (inp Rl : list str) (s s' : st) : Prop := mkIS {
  is_node : forall k, node_view k s' = if in_files k Rl then Some (None, true) else node_view k s;
  is_file : forall l, file_view l s' =
                      if mem_str l Rl
                      then Some (nst FUndeclared (old_state (file_view l s)), nhash FUndeclared (file_view l s))
                      else file_view l s;
  is_steps : steps s' = steps s;
  is_envs : envs s' = envs s;
  is_cap : defer_cap s' = defer_cap s;
  is_dep : forall a b, find_dep a b s' =
                       if key_eqb b (KStep, L) && in_files a inp then Some false
                       else if in_files b Rl && existsn b s then None else find_dep a b s;
  is_hash : forall x, has_hash x s' = has_hash x s;
  is_nfc : no_file_creator_b s' = true }.

Lemma supply_files_spec L inp s s' :
  supply_files L inp true false s = Ok s' -> NoDup inp -> no_file_creator_b s = true ->
  (forall l, In l inp -> recreated s l = true -> not_built s l) ->
  inputs_spec L inp (filter (recreated s) inp) s s'.
Proof.
  unfold supply_files. intros H ND Hnfc NB.
  destruct (foldM _ inp (s, [])) as [[s1 news]|t|t] eqn:F; cbn [bind fst snd] in H; try discriminate.
  apply resolve_fold_spec in F; try assumption. destruct F as (-> & SP & _). cbn [app] in H.
  destruct (match inp with [] => false | _ => would_cycle (KStep, L) (map (fun l => (KFile, l)) inp) s1 end);
    [discriminate|].
  apply add_dep_fold_spec in H as [[] D]. destruct SP.
  constructor.
  - intros k. rewrite (view_of_nodes _ _ od_nodes0). apply ss_node0.
  - intros l. rewrite (view_of_files _ _ od_files0). apply ss_file0.
  - congruence.
  - congruence.
  - congruence.
  - intros a b. rewrite D, ss_dep0. reflexivity.
  - intros x. rewrite (view_of_shash _ _ od_shash0). apply ss_hash0.
  - unfold no_file_creator_b. rewrite od_nodes0. exact ss_nfc0.
Qed.

(* ------------------------------------------------------------------------------------------ *)
(* 5. env rows and outputs of a new step                                                       *)
(* ------------------------------------------------------------------------------------------ *)
Lemma env_fold_spec L env : forall s,
  let s' := fold_left (fun s e => add_env L e false true s) env s in
  (forall st0 nm, find_env st0 nm s' = if str_eqb st0 L && mem_str nm env then Some false else find_env st0 nm s) /\
  nodes s' = nodes s /\ files s' = files s /\ steps s' = steps s /\ deps s' = deps s /\
  shash s' = shash s /\ defer_cap s' = defer_cap s.
Proof.
  induction env as [|e env IH]; intros s; cbn [fold_left].
  - split; [|repeat split]. intros st0 nm. cbn. rewrite andb_false_r. reflexivity.
  - destruct (IH (add_env L e false true s)) as (He & Hn & Hf & Hs & Hd & Hh & Hc).
    assert (A : nodes (add_env L e false true s) = nodes s /\ files (add_env L e false true s) = files s /\
                steps (add_env L e false true s) = steps s /\ deps (add_env L e false true s) = deps s /\
                shash (add_env L e false true s) = shash s /\ defer_cap (add_env L e false true s) = defer_cap s).
    { unfold add_env. destruct (existsb _ (envs s)); repeat split; reflexivity. }
    destruct A as (An & Af & As & Ad & Ah & Ac).
    split; [|repeat split; congruence].
    intros st0 nm. rewrite He, find_env_add_env. cbn [mem_str existsb]. fold (mem_str nm env).
    destruct (str_eqb st0 L); cbn [andb]; [|reflexivity].
    destruct (mem_str nm env); [rewrite orb_true_r; reflexivity|]. rewrite orb_false_r. reflexivity.
Qed.

Record outs_spec (L : str) (f : fstate) (P : list str) (s s' : st) : Prop := mkOU {
  ou_node : forall k, node_view k s' =
                      if in_files k P then Some (Some (KStep, L), is_detached (KStep, L) s) else node_view k s;
  ou_file : forall l, file_view l s' =
                      if mem_str l P then Some (nst f (old_state (file_view l s)), nhash f (file_view l s))
                      else file_view l s;
  ou_steps : steps s' = steps s;
  ou_envs : envs s' = envs s;
  ou_cap : defer_cap s' = defer_cap s;
  ou_dep : forall a b, find_dep a b s' =
                       if in_files b P
                       then (if key_eqb a (KStep, L) then Some false
                             else if existsn b s then None else find_dep a b s)
                       else find_dep a b s;
  ou_hash : forall x, has_hash x s' = has_hash x s && negb (existsb (fun l => lostb s l x) P);
  ou_nfc : no_file_creator_b s' = true }.

Definition out_state (f : fstate) : Prop := f = FPlanned \/ f = FVolatile.

Lemma declare_out_spec L l f s s2 :
  out_state f ->
  (do s' <- declare_file (KStep, L) l f s; add_output_edge L l false s') = Ok s2 ->
  no_file_creator_b s = true -> nst f (old_state (file_view l s)) <> FBuilt ->
  outs_spec L f [l] s s2.
Proof.
  intros Hf H Hnfc NB.
  destruct (declare_file (KStep, L) l f s) as [s1|t|t] eqn:D; cbn [bind] in H; try discriminate.
  assert (C : create (KFile, l) (Some (KStep, L)) (InitFile f) s = Ok s1).
  { unfold declare_file in D. destruct Hf as [-> | ->].
    - match type of D with (do _ <- ?X; _) = _ => destruct X as [x|t|t] eqn:EX end; cbn in D;
        try discriminate. inversion D; subst x. exact EX.
    - match type of D with (do _ <- ?X; _) = _ => destruct X as [x|t|t] eqn:EX end; cbn [bind] in D;
        try discriminate.
      destruct (attached_step_sinks l x); [|discriminate]. inversion D; subst x. exact EX. }
  apply create_file_gen in C; try assumption. destruct C.
  unfold add_output_edge in H. destruct (would_cycle (KFile, l) [(KStep, L)] s1); [discriminate|].
  apply add_dep_spec in H as [[] Dd].
  constructor.
  - intros k. rewrite (view_of_nodes _ _ od_nodes0), gf_node0.
    destruct k as [[] x]; cbn [in_files]; try reflexivity.
    rewrite file_key_eqb. cbn [mem_str existsb]. rewrite orb_false_r. reflexivity.
  - intros x. rewrite (view_of_files _ _ od_files0), gf_file0. cbn [mem_str existsb]. rewrite orb_false_r.
    destruct (str_eqb x l) eqn:E; [|reflexivity]. apply str_eqb_eq in E. subst x. reflexivity.
  - congruence.
  - congruence.
  - congruence.
  - intros a b. rewrite Dd, gf_dep0.
    destruct b as [kk x]. destruct kk; cbn [in_files]; try (rewrite andb_false_r; reflexivity).
    rewrite file_key_eqb. cbn [mem_str existsb]. rewrite orb_false_r.
    destruct (str_eqb x l) eqn:E.
    + apply str_eqb_eq in E. subst x. rewrite andb_true_r.
      destruct (key_eqb a (KStep, L)); [reflexivity|]. cbn [andb].
      destruct (existsn (KFile, l) s); reflexivity.
    + rewrite andb_false_r. reflexivity.
  - intros x. rewrite (view_of_shash _ _ od_shash0), gf_hash0. cbn [existsb]. rewrite orb_false_r. reflexivity.
  - unfold no_file_creator_b. rewrite od_nodes0. exact gf_nfc0.
Qed.

Lemma outs_fold_spec L f P : forall s s',
  out_state f -> NoDup P ->
  foldM (fun s l => do s' <- declare_file (KStep, L) l f s; add_output_edge L l false s') P s = Ok s' ->
  no_file_creator_b s = true ->
  (forall l, In l P -> nst f (old_state (file_view l s)) <> FBuilt) ->
  outs_spec L f P s s'.
Proof.
  induction P as [|l P IH]; intros s s' Hf ND H Hnfc NB.
  - cbn in H. inversion H; subst s'. constructor; try reflexivity; try exact Hnfc.
    + intros [[] x]; reflexivity.
    + intros a [[] x]; reflexivity.
    + intros x. cbn. rewrite andb_true_r. reflexivity.
  - cbn [foldM] in H. inversion ND as [|? ? Hnotin ND']; subst.
    destruct (do s' <- declare_file (KStep, L) l f s; add_output_edge L l false s') as [s1|t|t] eqn:D;
      cbn [bind] in H; try discriminate.
    apply declare_out_spec in D; try assumption; [|apply NB; left; reflexivity]. destruct D.
    assert (Hother : forall x, In x P -> str_eqb x l = false).
    { intros x Hx. apply str_eqb_neq. intros ->. contradiction. }
    apply IH in H; try assumption.
    2:{ intros x Hx. rewrite ou_file0. cbn [mem_str existsb]. rewrite (Hother x Hx). cbn [orb].
        apply NB. right. exact Hx. }
    destruct H.
    assert (Hdet : is_detached (KStep, L) s1 = is_detached (KStep, L) s).
    { rewrite !is_detached_view, ou_node0. reflexivity. }
    constructor.
    + intros k. rewrite ou_node1, Hdet, ou_node0.
      destruct k as [kk x]. destruct kk; cbn [in_files]; try reflexivity.
      cbn [mem_str existsb]. fold (mem_str x P). rewrite orb_false_r.
      destruct (mem_str x P); [rewrite orb_true_r; reflexivity|]. rewrite orb_false_r. reflexivity.
    + intros x. rewrite ou_file1, ou_file0. cbn [mem_str existsb]. fold (mem_str x P). rewrite orb_false_r.
      destruct (mem_str x P) eqn:M.
      * rewrite orb_true_r. apply mem_str_In in M. rewrite (Hother x M). reflexivity.
      * rewrite orb_false_r. reflexivity.
    + congruence.
    + congruence.
    + congruence.
    + intros a b. rewrite ou_dep1, ou_dep0.
      destruct b as [kk x]. destruct kk; cbn [in_files]; try reflexivity.
      cbn [mem_str existsb]. fold (mem_str x P). rewrite orb_false_r.
      rewrite !existsn_view, ou_node0. cbn [in_files mem_str existsb]. rewrite orb_false_r.
      destruct (mem_str x P) eqn:M.
      * rewrite orb_true_r. apply mem_str_In in M. rewrite (Hother x M). reflexivity.
      * rewrite orb_false_r. reflexivity.
    + intros x. rewrite ou_hash1, ou_hash0. cbn [existsb]. rewrite orb_false_r.
      rewrite (existsb_ext_in (fun l0 => lostb s1 l0 x) (fun l0 => lostb s l0 x)).
      * rewrite negb_orb, andb_assoc. reflexivity.
      * intros y Hy. rewrite !lostb_view, ou_node0. cbn [in_files mem_str existsb].
        rewrite (Hother y Hy). reflexivity.
    + exact ou_nfc1.
Qed.

(* ------------------------------------------------------------------------------------------ *)
(* 6. define_step for a new label, flattened to the look-ups of the state it meets             *)
(* ------------------------------------------------------------------------------------------ *)
Definition disj (A B : list str) : Prop := forall l, mem_str l A = true -> mem_str l B = false.

Record fresh_define (L : str) (inp out vol : list str) (s : st) : Prop := mkFD {
  fd_label : find_node (KStep, L) s = None;
  fd_nfc : no_file_creator_b s = true;
  fd_nd_inp : NoDup inp; fd_nd_out : NoDup out; fd_nd_vol : NoDup vol;
  fd_io : disj inp out; fd_iv : disj inp vol; fd_ov : disj out vol;
  fd_nb_inp : forall l, In l inp -> recreated s l = true -> not_built s l;
  fd_nb_out : forall l, In l out -> not_built s l }.

Definition file_in (k : key) (P : list str) : bool := in_files k P.

Record define_spec (c : key) (L : str) (inp env out vol : list str) (nd : need) (s s' : st) : Prop := mkDF {
  df_node : forall k, node_view k s' =
      if key_eqb k (KStep, L) then Some (Some c, is_detached c s)
      else if in_files k out || in_files k vol then Some (Some (KStep, L), is_detached c s)
      else if in_files k (filter (recreated s) inp) then Some (None, true)
      else node_view k s;
  df_file : forall l, file_view l s' =
      if mem_str l out then Some (nst FPlanned (old_state (file_view l s)), nhash FPlanned (file_view l s))
      else if mem_str l vol then Some (nst FVolatile (old_state (file_view l s)), nhash FVolatile (file_view l s))
      else if mem_str l (filter (recreated s) inp)
           then Some (nst FUndeclared (old_state (file_view l s)), nhash FUndeclared (file_view l s))
      else file_view l s;
  df_step : forall l, step_view l s' =
      if str_eqb l L then Some (SPending, nd, false, 0, 0) else step_view l s;
  df_dep : forall a b, find_dep a b s' =
      if key_eqb b (KStep, L) && in_files a inp then Some false
      else if in_files b out || in_files b vol
           then (if key_eqb a (KStep, L) then Some false
                 else if existsn b s then None else find_dep a b s)
      else if in_files b (filter (recreated s) inp) && existsn b s then None
      else find_dep a b s;
  df_hash : forall x, has_hash x s' =
      has_hash x s && negb (existsb (fun l => lostb s l x) out) && negb (existsb (fun l => lostb s l x) vol);
  df_env : forall st0 nm, find_env st0 nm s' =
      if str_eqb st0 L && mem_str nm env then Some false else find_env st0 nm s;
  df_cap : defer_cap s' = defer_cap s;
  df_nfc : no_file_creator_b s' = true }.

Lemma in_files_step x P : in_files (KStep, x) P = false.
Proof. reflexivity. Qed.
Lemma mem_filter_true (p : str -> bool) l ps : mem_str l (filter p ps) = true -> mem_str l ps = true.
Proof. intros H. apply mem_str_In. eapply mem_filter_sub. exact H. Qed.
Lemma not_built_nst f v : v <> Some FBuilt -> f <> FBuilt -> nst f v <> FBuilt.
Proof. apply nst_not_built. Qed.

Lemma define_step_new_spec c L inp env out vol nd s s' :
  define_step_new c L inp env out vol nd s = Ok s' -> fresh_define L inp out vol s ->
  define_spec c L inp env out vol nd s s'.
Proof.
  unfold define_step_new. intros H FD. destruct FD.
  destruct (foldM _ out tt) as [u1|t|t]; cbn [bind] in H; try discriminate.
  destruct (foldM _ vol tt) as [u2|t|t]; cbn [bind] in H; try discriminate.
  destruct (existsb (fun l => mem_str l vol) out); [discriminate|].
  destruct (create (KStep, L) (Some c) (InitStep nd) s) as [s1|t|t] eqn:S1; cbn [bind] in H; try discriminate.
  apply create_step_new in S1; try assumption. destruct S1.
  assert (NV1 : forall l, node_view (KFile, l) s1 = node_view (KFile, l) s) by (intros l; apply ns_node0).
  assert (FV1 : forall l, file_view l s1 = file_view l s) by (apply view_of_files; exact ns_files0).
  assert (RC1 : forall l, recreated s1 l = recreated s l) by (intros l; apply recreated_view; apply NV1).
  destruct (supply_files L inp true false s1) as [s2|t|t] eqn:S2; cbn [bind] in H; try discriminate.
  apply supply_files_spec in S2; try assumption.
  2:{ intros l Hl Hr. unfold not_built. rewrite FV1. apply fd_nb_inp0; [exact Hl | rewrite <- RC1; exact Hr]. }
  rewrite (filter_ext _ _ RC1) in S2. set (Rl := filter (recreated s) inp) in *. destruct S2.
  destruct (env_fold_spec L env s2) as (E3 & N3 & F3 & St3 & D3 & H3 & C3).
  set (s3 := fold_left (fun s0 e => add_env L e false true s0) env s2) in *.
  destruct (foldM _ out s3) as [s4|t|t] eqn:S4; cbn [bind] in H; try discriminate.
  assert (InRl_inp : forall l, mem_str l Rl = true -> mem_str l inp = true) by (intros l; apply mem_filter_true).
  assert (OutNotRl : forall l, mem_str l out = true -> mem_str l Rl = false).
  { intros l M. destruct (mem_str l Rl) eqn:R; [|reflexivity]. apply InRl_inp in R. rewrite (fd_io0 l R) in M. discriminate. }
  assert (VolNotRl : forall l, mem_str l vol = true -> mem_str l Rl = false).
  { intros l M. destruct (mem_str l Rl) eqn:R; [|reflexivity]. apply InRl_inp in R. rewrite (fd_iv0 l R) in M. discriminate. }
  assert (NV3 : forall k, node_view k s3 = if in_files k Rl then Some (None, true) else node_view k s1).
  { intros k. rewrite (view_of_nodes _ _ N3). apply is_node0. }
  assert (FV3 : forall l, file_view l s3 = if mem_str l Rl then Some (nst FUndeclared (old_state (file_view l s)), nhash FUndeclared (file_view l s)) else file_view l s).
  { intros l. rewrite (view_of_files _ _ F3), is_file0, !FV1. reflexivity. }
  assert (DL3 : is_detached (KStep, L) s3 = is_detached c s).
  { rewrite is_detached_view, NV3, in_files_step, ns_node0, key_eqb_refl. reflexivity. }
  assert (NFC3 : no_file_creator_b s3 = true) by (unfold no_file_creator_b; rewrite N3; exact is_nfc0).
  apply (outs_fold_spec L FPlanned out s3 s4 (or_introl eq_refl) fd_nd_out0) in S4; [|exact NFC3|].
  2:{ intros l Hl. apply mem_str_In in Hl. rewrite FV3, (OutNotRl l Hl).
      apply nst_not_built; [apply fd_nb_out0; apply mem_str_In; exact Hl | discriminate]. }
  destruct S4.
  assert (NV4 : forall l, mem_str l out = false -> node_view (KFile, l) s4 = node_view (KFile, l) s3).
  { intros l M. rewrite ou_node0. cbn [in_files]. rewrite M. reflexivity. }
  apply (outs_fold_spec L FVolatile vol s4 s' (or_intror eq_refl) fd_nd_vol0) in H; [|exact ou_nfc0|].
  2:{ intros l _. destruct (old_state (file_view l s4)) as [[]|]; discriminate. }
  destruct H.
  assert (DL4 : is_detached (KStep, L) s4 = is_detached c s).
  { rewrite is_detached_view, ou_node0, in_files_step, <- is_detached_view. exact DL3. }
  constructor.
  - (* nodes *)
    intros k. rewrite ou_node1, DL4, ou_node0, DL3, NV3, ns_node0.
    destruct k as [kk x]. destruct kk; cbn [in_files orb]; try reflexivity.
    change (key_eqb (KFile, x) (KStep, L)) with false. cbn iota.
    destruct (mem_str x vol) eqn:MV.
    + destruct (mem_str x out); reflexivity.
    + rewrite orb_false_r. reflexivity.
  - (* files *)
    intros l. rewrite ou_file1.
    destruct (mem_str l vol) eqn:MV.
    + assert (MO : mem_str l out = false).
      { destruct (mem_str l out) eqn:MO; [rewrite (fd_ov0 l MO) in MV; discriminate | reflexivity]. }
      assert (E4 : file_view l s4 = file_view l s) by (rewrite ou_file0, MO, FV3, (VolNotRl l MV); reflexivity).
      rewrite E4, MO. reflexivity.
    + rewrite ou_file0. destruct (mem_str l out) eqn:MO.
      * rewrite FV3, (OutNotRl l MO). reflexivity.
      * apply FV3.
  - (* steps *)
    intros l. rewrite (step_view_of_steps _ _ ou_steps1), (step_view_of_steps _ _ ou_steps0),
                      (step_view_of_steps _ _ St3), (step_view_of_steps _ _ is_steps0). apply ns_step0.
  - (* deps *)
    intros a b. rewrite ou_dep1, ou_dep0, (view_of_deps _ _ D3), is_dep0, (view_of_deps _ _ ns_deps0).
    rewrite !existsn_view.
    destruct b as [kk x]. destruct kk; cbn [in_files orb andb]; try (rewrite ?andb_false_l; reflexivity).
    { (* b is a file *)
      change (key_eqb (KFile, x) (KStep, L)) with false. cbn [andb].
      rewrite NV3, ns_node0. change (key_eqb (KFile, x) (KStep, L)) with false. cbn [in_files].
      destruct (mem_str x vol) eqn:MV.
      * assert (MO : mem_str x out = false).
        { destruct (mem_str x out) eqn:MO; [rewrite (fd_ov0 x MO) in MV; discriminate | reflexivity]. }
        rewrite MO. cbn [orb]. rewrite ou_node0. cbn [in_files]. rewrite MO, NV3, ns_node0.
        change (key_eqb (KFile, x) (KStep, L)) with false. cbn [in_files]. rewrite (VolNotRl x MV).
        destruct (key_eqb a (KStep, L)); [reflexivity|].
        destruct (is_some (node_view (KFile, x) s)); reflexivity.
      * rewrite orb_false_r. destruct (mem_str x out) eqn:MO.
        -- rewrite (OutNotRl x MO). reflexivity.
        -- fold Rl. destruct (mem_str x Rl); rewrite <- ?existsn_view; reflexivity. }
  - (* stored hashes *)
    intros x. rewrite ou_hash1, ou_hash0, (view_of_shash _ _ H3), is_hash0, (view_of_shash _ _ ns_shash0).
    f_equal; [f_equal|]; f_equal.
    + apply existsb_ext_in. intros y Hy. apply mem_str_In in Hy. rewrite !lostb_view, NV3. cbn [in_files].
      rewrite (OutNotRl y Hy), NV1. reflexivity.
    + apply existsb_ext_in. intros y Hy. apply mem_str_In in Hy. rewrite !lostb_view.
      assert (MO : mem_str y out = false).
      { destruct (mem_str y out) eqn:MO; [rewrite (fd_ov0 y MO) in Hy; discriminate | reflexivity]. }
      rewrite (NV4 y MO), NV3. cbn [in_files]. rewrite (VolNotRl y Hy), NV1. reflexivity.
  - (* env rows *)
    intros st0 nm. unfold find_env at 1. rewrite ou_envs1, ou_envs0. fold (find_env st0 nm s3).
    rewrite E3. unfold find_env. rewrite is_envs0, ns_envs0. reflexivity.
  - congruence.
  - exact ou_nfc1.
Qed.

(* ------------------------------------------------------------------------------------------ *)
(* 7. from define_step to define_step_new; what acceptance tells about the outputs             *)
(* ------------------------------------------------------------------------------------------ *)
(* guard peeling: every `if g then Usage/Internal else ...` in front of the body *)
Lemma define_step_new_of_ok c L inp env out vol nd s s' :
  define_step c L inp env out vol nd s = Ok s' -> find_node (KStep, L) s = None ->
  define_step_new c L inp env out vol nd s = Ok s'.
Proof.
  unfold define_step. intros H F.
  repeat match type of H with
         | (if ?g then _ else _) = Ok _ => destruct g; [discriminate|]
         end.
  rewrite F in H. exact H.
Qed.

Lemma claims_fold_none ps s : forall u,
  foldM (fun (u : unit) l => do _ <- check_declaration_phrase l s; Ok tt) ps tt = Ok u ->
  forall l, In l ps -> existing_claim l s = Ok None.
Proof.
  induction ps as [|p ps IH]; intros u H l Hl; [contradiction|].
  cbn [foldM] in H. unfold check_declaration_phrase in H at 1.
  destruct (existing_claim p s) as [[cl|]|t|t] eqn:E; cbn [bind] in H; try discriminate.
  destruct Hl as [<-|Hl]; [exact E|]. eapply IH; eassumption.
Qed.

Lemma define_new_claims c L inp env out vol nd s s' :
  define_step_new c L inp env out vol nd s = Ok s' ->
  forall l, In l out \/ In l vol -> existing_claim l s = Ok None.
Proof.
  unfold define_step_new. intros H l Hl.
  destruct (foldM _ out tt) as [u1|t|t] eqn:F1; cbn [bind] in H; try discriminate.
  destruct (foldM _ vol tt) as [u2|t|t] eqn:F2; cbn [bind] in H; try discriminate.
  destruct Hl as [Hl|Hl]; [eapply claims_fold_none in F1 | eapply claims_fold_none in F2]; eassumption.
Qed.

(* a path freshly declared by an attached creator carries a claim *)
Lemma claim_some_of_views l s cre st0 h :
  node_view (KFile, l) s = Some (Some cre, false) -> file_view l s = Some (st0, h) ->
  st0 <> FUndeclared -> existing_claim l s <> Ok None.
Proof.
  unfold existing_claim, node_view, file_view. intros Hn Hf Hs.
  destruct (find_node (KFile, l) s) as [n|]; [|discriminate]. inversion Hn as [[Hc Hd]].
  destruct (find_file l s) as [r|]; [|discriminate]. inversion Hf as [[Hst Hh]].
  rewrite Hd, Hc, Hst. destruct st0; cbn; discriminate.
Qed.

(* re-declaring static a node that an input supply has just (re)created keeps the same hash rule *)
Lemma hh_after_undeclared o (h : option N) :
  (o = FVolatile -> h = None) ->
  (if clears_hash (nst FUndeclared (Some o)) FUnconfirmed then None
   else (if clears_hash o (nst FUndeclared (Some o)) then None else h)) =
  (if clears_hash o FUnconfirmed then None else h).
Proof. intros Hv. destruct o; cbn; try reflexivity. symmetry. apply Hv. reflexivity. Qed.

(* ------------------------------------------------------------------------------------------ *)
(* 8. declarations_commute, pair (static, define) in the fresh fragment                        *)
(* ------------------------------------------------------------------------------------------ *)
Lemma mem_filter (p : str -> bool) x ps : mem_str x (filter p ps) = mem_str x ps && p x.
Proof.
  induction ps as [|y ps IH]; cbn [filter mem_str existsb]; [reflexivity|]. fold (mem_str x ps) in *.
  destruct (p y) eqn:P; cbn [mem_str existsb]; fold (mem_str x (filter p ps)); rewrite IH.
  - destruct (str_eqb x y) eqn:E; cbn [orb]; [|reflexivity].
    apply str_eqb_eq in E. subst y. rewrite P. rewrite andb_true_r. destruct (mem_str x ps); reflexivity.
  - destruct (str_eqb x y) eqn:E; cbn [orb]; [|reflexivity].
    apply str_eqb_eq in E. subst y. rewrite P, !andb_false_r. reflexivity.
Qed.

Lemma find_node_none_view k s : find_node k s = None <-> node_view k s = None.
Proof. unfold node_view. destruct (find_node k s); split; intros H; congruence. Qed.

Lemma claim_none_of_recreated s l : recreated s l = true -> existing_claim l s = Ok None.
Proof.
  unfold recreated, existing_claim, node_view.
  destruct (find_node (KFile, l) s) as [n|]; [|reflexivity].
  destruct (ncre n) eqn:C; [discriminate|]. intros _.
  destruct (find_file l s); [|reflexivity]. destruct (ndet n); reflexivity.
Qed.

(* a static declaration meets a path that a step (attached) builds or declares volatile *)
Lemma check_static_vs_product c l s cre st0 h :
  node_view (KFile, l) s = Some (Some cre, false) -> file_view l s = Some (st0, h) ->
  role_of st0 = Some 62 \/ role_of st0 = Some 63 ->
  check_declaration_node c l 61 s = Usage 202.
Proof.
  unfold check_declaration_node, existing_claim, node_view, file_view. intros Hn Hf Hr.
  destruct (find_node (KFile, l) s) as [n|]; [|discriminate]. inversion Hn as [[Hc Hd]].
  destruct (find_file l s) as [r|]; [|discriminate]. inversion Hf as [[Hst Hh]].
  rewrite Hd, Hc, Hst. destruct Hr as [-> | ->]; reflexivity.
Qed.

Lemma role_of_nst_planned v : role_of (nst FPlanned v) = Some 62.
Proof. destruct v as [[]|]; reflexivity. Qed.
Lemma role_of_nst_volatile v : role_of (nst FVolatile v) = Some 63.
Proof. destruct v as [[]|]; reflexivity. Qed.

(* a VOLATILE row carries no hash (part of inv_fhash_b; the trigger file_clear_hash) *)
Definition vol_nohash (s : st) : Prop := forall l h, file_view l s = Some (FVolatile, h) -> h = None.
(* absent nodes have no edges (part of inv_deps_b) *)
Definition deps_closed (s : st) : Prop := forall a b, existsn b s = false -> find_dep a b s = None.

Theorem static_define_commute (s sa sb s12 s21 : st) (c1 : key) (ps : list str)
        (c2 : key) (L : str) (inp env out vol : list str) (nd : need) :
  not_file c1 -> not_file c2 -> NoDup ps -> attached c1 s = true -> attached c2 s = true ->
  fresh_define L inp out vol s -> deps_closed s -> vol_nohash s ->
  step_op (OpDeclareStatic c1 ps) s = Ok sa ->
  step_op (OpDefineStep c2 L inp env out vol nd) sa = Ok s12 ->
  step_op (OpDefineStep c2 L inp env out vol nd) s = Ok sb ->
  step_op (OpDeclareStatic c1 ps) sb = Ok s21 ->
  st_equiv s12 s21.
Proof.
  cbn [step_op]. intros Hf1 Hf2 NDp Ha1 Ha2 FD DC VN R1 R12 R2 R21.
  pose proof FD as FD0.
  destruct FD as [fd_label0 fd_nfc0 fd_nd_inp0 fd_nd_out0 fd_nd_vol0 fd_io0 fd_iv0 fd_ov0 fd_nb_inp0 fd_nb_out0].
  apply static_request_spec in R1 as [S1 _]; try assumption.
  set (T := filter (newb c1 s) ps) in *. pose proof S1 as S1'.
  destruct S1 as [sd_node0 sd_file0 sd_steps0 sd_envs0 sd_cap0 sd_dep0 sd_hash0 sd_sinks0 sd_nfc0].
  assert (Hd1 : is_detached c1 s = false) by (unfold attached in Ha1; apply negb_true_iff in Ha1; exact Ha1).
  assert (Hd2 : is_detached c2 s = false) by (unfold attached in Ha2; apply negb_true_iff in Ha2; exact Ha2).
  (* the define request after the static one *)
  assert (FLa : find_node (KStep, L) sa = None).
  { apply find_node_none_view. rewrite sd_node0, in_files_step. apply find_node_none_view. exact fd_label0. }
  apply define_step_new_of_ok in R12; [|exact FLa].
  pose proof (define_new_claims _ _ _ _ _ _ _ _ _ R12) as CLa.
  assert (TnotOV : forall l, mem_str l T = true -> mem_str l out = false /\ mem_str l vol = false).
  { intros l MT.
    assert (NC : existing_claim l sa <> Ok None).
    { eapply claim_some_of_views; [rewrite sd_node0; cbn [in_files]; rewrite MT, Hd1; reflexivity
                                   | rewrite sd_file0, MT; reflexivity | discriminate]. }
    split.
    - destruct (mem_str l out) eqn:M; [|reflexivity]. exfalso. apply NC. apply CLa. left. apply mem_str_In. exact M.
    - destruct (mem_str l vol) eqn:M; [|reflexivity]. exfalso. apply NC. apply CLa. right. apply mem_str_In. exact M. }
  assert (RCa : forall l, recreated sa l = if mem_str l T then false else recreated s l).
  { intros l. unfold recreated. rewrite sd_node0. cbn [in_files]. destruct (mem_str l T); reflexivity. }
  assert (FDa : fresh_define L inp out vol sa).
  { constructor; try assumption.
    - intros l Hl Hr. rewrite RCa in Hr. destruct (mem_str l T) eqn:MT; [discriminate|].
      unfold not_built. rewrite sd_file0, MT. apply fd_nb_inp0; assumption.
    - intros l Hl. unfold not_built. rewrite sd_file0.
      destruct (mem_str l T) eqn:MT.
      + apply TnotOV in MT as [MO _]. apply mem_str_In in Hl. congruence.
      + apply fd_nb_out0. exact Hl. }
  apply define_step_new_spec in R12; [|exact FDa]. 
  (* the define request first *)
  apply define_step_new_of_ok in R2; [|exact fd_label0].
  apply define_step_new_spec in R2; [|exact FD0].
  pose proof R2 as D2.
  destruct R2 as [df_node0 df_file0 df_step0 df_dep0 df_hash0 df_env0 df_cap0 df_nfc0].
  apply static_request_spec in R21 as [S21 All21]; try assumption.
  assert (PnotOV : forall l, In l ps -> mem_str l out = false /\ mem_str l vol = false).
  { intros l Hl. destruct (All21 l Hl) as [b Hb].
    assert (NK : key_eqb (KFile, l) (KStep, L) = false) by reflexivity.
    split.
    - destruct (mem_str l out) eqn:M; [|reflexivity]. exfalso.
      assert (Hn : node_view (KFile, l) sb = Some (Some (KStep, L), false)).
      { rewrite df_node0, NK. cbn [in_files]. rewrite M, Hd2. reflexivity. }
      assert (Hfv : file_view l sb = Some (nst FPlanned (old_state (file_view l s)), nhash FPlanned (file_view l s))).
      { rewrite df_file0, M. reflexivity. }
      rewrite (check_static_vs_product c1 l sb _ _ _ Hn Hfv (or_introl (role_of_nst_planned _))) in Hb.
      discriminate.
    - destruct (mem_str l vol) eqn:M; [|reflexivity]. exfalso.
      assert (MO : mem_str l out = false).
      { destruct (mem_str l out) eqn:MO; [rewrite (fd_ov0 l MO) in M; discriminate | reflexivity]. }
      assert (Hn : node_view (KFile, l) sb = Some (Some (KStep, L), false)).
      { rewrite df_node0, NK. cbn [in_files]. rewrite MO, M, Hd2. reflexivity. }
      assert (Hfv : file_view l sb = Some (nst FVolatile (old_state (file_view l s)), nhash FVolatile (file_view l s))).
      { rewrite df_file0, MO, M. reflexivity. }
      rewrite (check_static_vs_product c1 l sb _ _ _ Hn Hfv (or_intror (role_of_nst_volatile _))) in Hb.
      discriminate. }
  assert (ET : filter (newb c1 sb) ps = T).
  { apply filter_ext_in. intros l Hl. destruct (PnotOV l Hl) as [MO MV].
    destruct (mem_str l (filter (recreated s) inp)) eqn:MR.
    - rewrite mem_filter in MR. apply andb_true_iff in MR as [MI RC].
      rewrite (claim_none_newb c1 s l (claim_none_of_recreated s l RC)).
      apply claim_none_newb. apply claim_none_of_recreated. unfold recreated.
      rewrite df_node0. cbn [in_files]. change (key_eqb (KFile, l) (KStep, L)) with false.
      rewrite MO, MV. cbn [orb]. rewrite mem_filter, RC, MI. reflexivity.
    - unfold newb. rewrite (check_declaration_view c1 l 61 sb s); [reflexivity| |].
      + rewrite df_node0. change (key_eqb (KFile, l) (KStep, L)) with false. cbn [in_files].
        rewrite MO, MV, MR. reflexivity.
      + rewrite df_file0, MO, MV, MR. reflexivity. }
  rewrite ET in S21.
  destruct S21 as [sd_node1 sd_file1 sd_steps1 sd_envs1 sd_cap1 sd_dep1 sd_hash1 sd_sinks1 sd_nfc1].
  pose proof R12 as D12.
  destruct R12 as [df_node1 df_file1 df_step1 df_dep1 df_hash1 df_env1 df_cap1 df_nfc1].
  (* detached flags of the issuers are not touched *)
  assert (Dc2a : is_detached c2 sa = is_detached c2 s).
  { rewrite !is_detached_view, sd_node0.
    destruct c2 as [[] x]; cbn [in_files]; try reflexivity.
    exfalso. apply Hf2. reflexivity. }
  assert (MTps : forall l, mem_str l T = true -> In l ps) by (intros l M; eapply mem_filter_sub; exact M).
  constructor.
  - (* nodes *)
    intros k. rewrite df_node1, sd_node1, df_node0, sd_node0.
    destruct k as [kk x]. destruct kk; cbn [in_files orb]; try reflexivity.
    + change (key_eqb (KFile, x) (KStep, L)) with false. cbn iota.
      rewrite !mem_filter, RCa.
      destruct (mem_str x T) eqn:MT.
      * destruct (TnotOV x MT) as [-> ->]. cbn [orb]. rewrite andb_false_r.
        rewrite !is_detached_view, df_node0.
        destruct c1 as [[] y]; cbn [in_files orb]; try reflexivity.
        -- exfalso. apply Hf1. reflexivity.
        -- destruct (key_eqb (KStep, y) (KStep, L)) eqn:E; [|reflexivity].
           apply key_eqb_eq in E. inversion E; subst y.
           unfold attached, is_detached in Ha1. rewrite fd_label0 in Ha1. discriminate.
      * rewrite Dc2a. reflexivity.
    + rewrite Dc2a. reflexivity.
  - (* files *)
    intros l. rewrite df_file1, sd_file1, df_file0, sd_file0, !mem_filter, RCa.
    destruct (mem_str l T) eqn:MT.
    + destruct (TnotOV l MT) as [-> ->]. rewrite andb_false_r. f_equal. f_equal.
      rewrite !hh_view, df_file0. destruct (PnotOV l (MTps l MT)) as [-> ->]. rewrite mem_filter.
      destruct (mem_str l inp && recreated s l); [|reflexivity].
      destruct (file_view l s) as [[o h]|] eqn:FVl; [|reflexivity]. cbn [old_state nhash].
      symmetry. apply hh_after_undeclared. intros ->. eapply VN. exact FVl.
    + reflexivity.
  - (* steps *)
    intros l. rewrite df_step1, (step_view_of_steps _ _ sd_steps1), df_step0, (step_view_of_steps _ _ sd_steps0).
    reflexivity.
  - (* deps *)
    intros a b. rewrite df_dep1, sd_dep1, df_dep0, sd_dep0, !existsn_view, sd_node0, df_node0.
    destruct b as [kk x]. destruct kk; cbn [in_files orb andb]; try reflexivity.
    change (key_eqb (KFile, x) (KStep, L)) with false. cbn [andb]. cbn iota.
    rewrite !mem_filter, RCa.
    destruct (mem_str x T) eqn:MT.
    + destruct (TnotOV x MT) as [-> ->]. cbn [orb andb]. rewrite andb_false_r. cbn [andb].
      destruct (mem_str x inp && recreated s x) eqn:MR; cbn [is_some andb].
      * (* static(x) and input x of the new step, x absent or an orphan *)
        destruct (is_some (node_view (KFile, x) s)) eqn:EX; [reflexivity|].
        apply DC. rewrite existsn_view. exact EX.
      * destruct (is_some (node_view (KFile, x) s)); reflexivity.
    + cbn [andb]. reflexivity.
  - (* stored hashes *)
    intros x. rewrite df_hash1, sd_hash1, df_hash0, sd_hash0.
    rewrite (existsb_ext_in (fun l => lostb sa l x) (fun l => lostb s l x) out).
    2:{ intros y Hy. rewrite !lostb_view, sd_node0. cbn [in_files].
        destruct (mem_str y T) eqn:MT; [|reflexivity].
        apply TnotOV in MT as [MO _]. apply mem_str_In in Hy. congruence. }
    rewrite (existsb_ext_in (fun l => lostb sa l x) (fun l => lostb s l x) vol).
    2:{ intros y Hy. rewrite !lostb_view, sd_node0. cbn [in_files].
        destruct (mem_str y T) eqn:MT; [|reflexivity].
        apply TnotOV in MT as [_ MV]. apply mem_str_In in Hy. congruence. }
    rewrite (existsb_ext_in (fun l => lostb sb l x) (fun l => lostb s l x) T).
    2:{ intros y Hy. apply mem_str_In in Hy. destruct (PnotOV y (MTps y Hy)) as [MO MV].
        rewrite !lostb_view, df_node0. change (key_eqb (KFile, y) (KStep, L)) with false.
        cbn [in_files]. rewrite MO, MV. cbn [orb]. rewrite mem_filter.
        destruct (mem_str y inp && recreated s y) eqn:MR; [|reflexivity].
        apply andb_true_iff in MR as [_ RC]. rewrite <- lostb_view. symmetry. apply lostb_orphan. exact RC. }
    destruct (has_hash x s), (existsb (fun l => lostb s l x) T), (existsb (fun l => lostb s l x) out),
             (existsb (fun l => lostb s l x) vol); reflexivity.
  - (* env rows *)
    intros st0 nm. rewrite df_env1. unfold find_env at 2. rewrite sd_envs1. fold (find_env st0 nm sb).
    rewrite df_env0. unfold find_env. rewrite sd_envs0. reflexivity.
  - congruence.
Qed.

Lemma inv_deps_closed s : inv_deps_b s = true -> deps_closed s.
Proof.
  unfold inv_deps_b, deps_closed. intros H a b Hex. apply andb_true_iff in H as [H _].
  rewrite forallb_forall in H. unfold find_dep.
  destruct (find (fun d => key_eqb (dsrc d) a && key_eqb (dsnk d) b) (deps s)) as [d|] eqn:F; [|reflexivity].
  exfalso. apply find_some in F as [Hin Hd]. apply andb_true_iff in Hd as [_ Hb]. apply key_eqb_eq in Hb.
  specialize (H d Hin). apply andb_true_iff in H as [_ H]. rewrite Hb in H.
  unfold existsn in Hex. congruence.
Qed.
Lemma inv_fhash_vol_nohash s : inv_fhash_b s = true -> vol_nohash s.
Proof.
  unfold inv_fhash_b, vol_nohash, file_view. intros H l h F. rewrite forallb_forall in H.
  destruct (find_file l s) as [r|] eqn:FF; [|discriminate]. inversion F as [[Hs Hh]].
  apply find_some in FF as [Hin _]. specialize (H r Hin). rewrite Hs in H.
  destruct (fh r); [discriminate | reflexivity].
Qed.
Lemma inv_b_vol_nohash s : inv_b s = true -> vol_nohash s.
Proof.
  unfold inv_b. intros H.
  repeat (match type of H with (andb _ _ = true) => apply andb_true_iff in H as [H ?] end).
  apply inv_fhash_vol_nohash. assumption.
Qed.
Lemma inv_b_deps_closed s : inv_b s = true -> deps_closed s.
Proof.
  unfold inv_b. intros H.
  repeat (match type of H with (andb _ _ = true) => apply andb_true_iff in H as [H ?] end).
  apply inv_deps_closed. assumption.
Qed.

(* ------------------------------------------------------------------------------------------ *)
(* 9. declarations_commute, pair (define, define) in the fresh fragment                        *)
(* ------------------------------------------------------------------------------------------ *)
Lemma nst_planned_after_undeclared v :
  nst FPlanned (Some (nst FUndeclared v)) = nst FPlanned v.
Proof. destruct v as [[]|]; reflexivity. Qed.
Lemma nst_undeclared_twice v :
  nst FUndeclared (Some (nst FUndeclared v)) = nst FUndeclared v.
Proof. destruct v as [[]|]; reflexivity. Qed.
Lemma nhash_planned_after_undeclared (v : option (fstate * option N)) :
  nhash FPlanned (Some (nst FUndeclared (old_state v), nhash FUndeclared v)) = nhash FPlanned v.
Proof. destruct v as [[[] h]|]; reflexivity. Qed.
Lemma nhash_undeclared_twice (v : option (fstate * option N)) :
  nhash FUndeclared (Some (nst FUndeclared (old_state v), nhash FUndeclared v)) = nhash FUndeclared v.
Proof. destruct v as [[[] h]|]; reflexivity. Qed.
Lemma nst_volatile v : nst FVolatile v = FVolatile.
Proof. destruct v as [[]|]; reflexivity. Qed.
Lemma nhash_volatile (v : option (fstate * option N)) : nhash FVolatile v = None.
Proof. destruct v as [[[] h]|]; reflexivity. Qed.

(* both requests applied, expressed in the look-ups of the common state s; the form is symmetric
   in the two requests up to the order of exclusive cases *)
Record two_defines (c1 : key) (L1 : str) (i1 e1 o1 v1 : list str) (n1 : need)
                   (c2 : key) (L2 : str) (i2 e2 o2 v2 : list str) (n2 : need) (s x : st) : Prop := mkTD {
  td_node : forall k, node_view k x =
      if key_eqb k (KStep, L1) then Some (Some c1, is_detached c1 s)
      else if key_eqb k (KStep, L2) then Some (Some c2, is_detached c2 s)
      else if in_files k o1 || in_files k v1 then Some (Some (KStep, L1), is_detached c1 s)
      else if in_files k o2 || in_files k v2 then Some (Some (KStep, L2), is_detached c2 s)
      else if (in_files k i1 || in_files k i2) && match k with (KFile, l) => recreated s l | _ => false end
           then Some (None, true)
      else node_view k s;
  td_file : forall l, file_view l x =
      if mem_str l o1 || mem_str l o2
      then Some (nst FPlanned (old_state (file_view l s)), nhash FPlanned (file_view l s))
      else if mem_str l v1 || mem_str l v2 then Some (FVolatile, None)
      else if (mem_str l i1 || mem_str l i2) && recreated s l
           then Some (nst FUndeclared (old_state (file_view l s)), nhash FUndeclared (file_view l s))
      else file_view l s;
  td_step : forall l, step_view l x =
      if str_eqb l L1 then Some (SPending, n1, false, 0, 0)
      else if str_eqb l L2 then Some (SPending, n2, false, 0, 0) else step_view l s;
  td_dep : forall a b, find_dep a b x =
      if key_eqb b (KStep, L1) && in_files a i1 then Some false
      else if key_eqb b (KStep, L2) && in_files a i2 then Some false
      else if in_files b o1 || in_files b v1
           then (if key_eqb a (KStep, L1) then Some false else None)
      else if in_files b o2 || in_files b v2
           then (if key_eqb a (KStep, L2) then Some false else None)
      else if (in_files b i1 || in_files b i2) && match b with (KFile, l) => recreated s l | _ => false end
           then None
      else find_dep a b s;
  td_hash : forall y, has_hash y x =
      has_hash y s && negb (existsb (fun l => lostb s l y) o1) && negb (existsb (fun l => lostb s l y) v1)
                   && negb (existsb (fun l => lostb s l y) o2) && negb (existsb (fun l => lostb s l y) v2);
  td_env : forall st0 nm, find_env st0 nm x =
      if str_eqb st0 L1 && mem_str nm e1 then Some false
      else if str_eqb st0 L2 && mem_str nm e2 then Some false else find_env st0 nm s;
  td_cap : defer_cap x = defer_cap s }.

Ltac kill_disj H x :=
  let Q := fresh "Q" in
  pose proof (H x) as Q; unfold disj in Q;
  repeat match goal with E : mem_str x _ = _ |- _ => rewrite E in Q end;
  cbn [orb andb] in Q; try (specialize (Q eq_refl)); discriminate.

Lemma seq_define_views c1 L1 i1 e1 o1 v1 n1 c2 L2 i2 e2 o2 v2 n2 s sa s12 :
  L1 <> L2 -> not_file c2 -> attached c2 s = true ->
  fresh_define L1 i1 o1 v1 s -> deps_closed s ->
  define_spec c1 L1 i1 e1 o1 v1 n1 s sa -> define_spec c2 L2 i2 e2 o2 v2 n2 sa s12 ->
  disj o2 v2 ->
  (forall l, mem_str l o2 || mem_str l v2 = true -> mem_str l o1 || mem_str l v1 = false) ->
  two_defines c1 L1 i1 e1 o1 v1 n1 c2 L2 i2 e2 o2 v2 n2 s s12.
Proof.
  intros HL Hf2 Ha2 FD DC D1 D2 OV2 A1.
  destruct FD as [fd_label0 fd_nfc0 fd_nd_inp0 fd_nd_out0 fd_nd_vol0 fd_io0 fd_iv0 fd_ov0 fd_nb_inp0 fd_nb_out0].
  destruct D1 as [df_node0 df_file0 df_step0 df_dep0 df_hash0 df_env0 df_cap0 df_nfc0].
  destruct D2 as [df_node1 df_file1 df_step1 df_dep1 df_hash1 df_env1 df_cap1 df_nfc1].
  assert (NL : key_eqb (KStep, L2) (KStep, L1) = false) by (apply key_eqb_neq; congruence).
  assert (NL' : str_eqb L2 L1 = false) by (apply str_eqb_neq; congruence).
  assert (Dc2 : is_detached c2 sa = is_detached c2 s).
  { rewrite !is_detached_view, df_node0.
    destruct c2 as [[] y]; cbn [in_files orb]; try reflexivity.
    - exfalso. apply Hf2. reflexivity.
    - destruct (key_eqb (KStep, y) (KStep, L1)) eqn:E; [|reflexivity].
      apply key_eqb_eq in E. inversion E; subst y.
      unfold attached, is_detached in Ha2. rewrite fd_label0 in Ha2. discriminate. }
  assert (RCa : forall x, recreated sa x = negb (mem_str x o1 || mem_str x v1) && recreated s x).
  { intros x. unfold recreated at 1. rewrite df_node0. change (key_eqb (KFile, x) (KStep, L1)) with false.
    cbn [in_files]. destruct (mem_str x o1 || mem_str x v1); [reflexivity|]. cbn [negb andb].
    rewrite mem_filter. destruct (mem_str x i1 && recreated s x) eqn:E.
    - apply andb_true_iff in E as [_ ->]. reflexivity.
    - reflexivity. }
  constructor.
  - (* nodes *)
    intros k. rewrite df_node1, Dc2, df_node0.
    destruct k as [kk x]. destruct kk.
    + reflexivity.
    + change (key_eqb (KFile, x) (KStep, L2)) with false. change (key_eqb (KFile, x) (KStep, L1)) with false.
      cbn [in_files]. rewrite !mem_filter, RCa.
      destruct (mem_str x o1) eqn:MO1, (mem_str x v1) eqn:MV1, (mem_str x o2) eqn:MO2, (mem_str x v2) eqn:MV2;
        cbn [orb andb negb]; try reflexivity; try (kill_disj A1 x);
      destruct (mem_str x i1) eqn:MI1, (mem_str x i2) eqn:MI2, (recreated s x) eqn:RC; reflexivity.
    + cbn [in_files orb andb]. rewrite (key_eqb_sym (KStep, x) (KStep, L2)), (key_eqb_sym (KStep, x) (KStep, L1)).
      destruct (key_eqb (KStep, L2) (KStep, x)) eqn:E2, (key_eqb (KStep, L1) (KStep, x)) eqn:E1; try reflexivity.
      apply key_eqb_eq in E1, E2. congruence.
    + reflexivity.
  - (* files *)
    intros x. rewrite df_file1, !mem_filter, RCa, !df_file0, !mem_filter.
    destruct (mem_str x o1) eqn:MO1, (mem_str x v1) eqn:MV1, (mem_str x o2) eqn:MO2, (mem_str x v2) eqn:MV2;
      cbn [orb andb negb]; try (kill_disj A1 x); try (kill_disj fd_ov0 x); try (kill_disj OV2 x);
    destruct (mem_str x i1) eqn:MI1, (mem_str x i2) eqn:MI2, (recreated s x) eqn:RC; cbn [orb andb negb old_state];
      try (kill_disj fd_io0 x); try (kill_disj fd_iv0 x);
      rewrite ?nst_planned_after_undeclared, ?nhash_planned_after_undeclared, ?nst_undeclared_twice,
              ?nhash_undeclared_twice, ?nst_volatile, ?nhash_volatile; reflexivity.
  - (* steps *)
    intros l. rewrite df_step1, df_step0.
    destruct (str_eqb l L2) eqn:E2, (str_eqb l L1) eqn:E1; try reflexivity.
    apply str_eqb_eq in E1, E2. congruence.
  - (* deps *)
    intros a b. rewrite df_dep1, !df_dep0, !existsn_view, df_node0.
    destruct b as [kk x]. destruct kk.
    + reflexivity.
    + change (key_eqb (KFile, x) (KStep, L2)) with false. change (key_eqb (KFile, x) (KStep, L1)) with false.
      cbn [in_files andb]. rewrite !mem_filter, RCa.
      assert (DCx : is_some (node_view (KFile, x) s) = false -> find_dep a (KFile, x) s = None).
      { intros E. apply DC. rewrite existsn_view. exact E. }
      destruct (mem_str x o1) eqn:MO1, (mem_str x v1) eqn:MV1, (mem_str x o2) eqn:MO2, (mem_str x v2) eqn:MV2;
        cbn [orb andb negb is_some]; try (kill_disj A1 x);
      destruct (mem_str x i1) eqn:MI1, (mem_str x i2) eqn:MI2, (recreated s x) eqn:RC; cbn [orb andb negb is_some];
      destruct (key_eqb a (KStep, L1)), (key_eqb a (KStep, L2)); try reflexivity;
      destruct (is_some (node_view (KFile, x) s)) eqn:EX; cbn [andb]; rewrite ?(DCx eq_refl); reflexivity.
    + cbn [in_files orb andb].
      destruct (key_eqb (KStep, x) (KStep, L2)) eqn:E2, (key_eqb (KStep, x) (KStep, L1)) eqn:E1; cbn [andb].
      * apply key_eqb_eq in E1, E2. congruence.
      * destruct (in_files a i2); reflexivity.
      * destruct (in_files a i1); reflexivity.
      * reflexivity.
    + reflexivity.
  - (* stored hashes *)
    intros y. rewrite df_hash1, df_hash0.
    rewrite (existsb_ext_in (fun l => lostb sa l y) (fun l => lostb s l y) o2).
    2:{ intros x Hx. apply mem_str_In in Hx. rewrite !lostb_view, df_node0.
        change (key_eqb (KFile, x) (KStep, L1)) with false. cbn [in_files].
        rewrite (A1 x) by (rewrite Hx; reflexivity). rewrite mem_filter.
        destruct (mem_str x i1 && recreated s x) eqn:E; [|reflexivity].
        apply andb_true_iff in E as [_ RC]. rewrite <- lostb_view. symmetry. apply lostb_orphan. exact RC. }
    rewrite (existsb_ext_in (fun l => lostb sa l y) (fun l => lostb s l y) v2).
    2:{ intros x Hx. apply mem_str_In in Hx. rewrite !lostb_view, df_node0.
        change (key_eqb (KFile, x) (KStep, L1)) with false. cbn [in_files].
        rewrite (A1 x) by (rewrite Hx, orb_true_r; reflexivity). rewrite mem_filter.
        destruct (mem_str x i1 && recreated s x) eqn:E; [|reflexivity].
        apply andb_true_iff in E as [_ RC]. rewrite <- lostb_view. symmetry. apply lostb_orphan. exact RC. }
    reflexivity.
  - (* env rows *)
    intros st0 nm. rewrite df_env1, df_env0.
    destruct (str_eqb st0 L2) eqn:E2, (str_eqb st0 L1) eqn:E1; cbn [andb]; try reflexivity.
    apply str_eqb_eq in E1, E2. congruence.
  - congruence.
Qed.

Lemma two_defines_sym c1 L1 i1 e1 o1 v1 n1 c2 L2 i2 e2 o2 v2 n2 s x x' :
  L1 <> L2 ->
  (forall l, mem_str l o2 || mem_str l v2 = true -> mem_str l o1 || mem_str l v1 = false) ->
  two_defines c1 L1 i1 e1 o1 v1 n1 c2 L2 i2 e2 o2 v2 n2 s x ->
  two_defines c2 L2 i2 e2 o2 v2 n2 c1 L1 i1 e1 o1 v1 n1 s x' ->
  st_equiv x x'.
Proof.
  intros HL A1 [n0 f0 s0 d0 h0 ev0 c0] [n1' f1 s1 d1 h1 ev1 c1'].
  constructor.
  - intros k. rewrite n0, n1'. destruct k as [kk y]. destruct kk; try reflexivity.
    + change (key_eqb (KFile, y) (KStep, L2)) with false. change (key_eqb (KFile, y) (KStep, L1)) with false.
      cbn [in_files].
      destruct (mem_str y o1) eqn:MO1, (mem_str y v1) eqn:MV1, (mem_str y o2) eqn:MO2, (mem_str y v2) eqn:MV2;
        cbn [orb andb]; try reflexivity; try (kill_disj A1 y);
      destruct (mem_str y i1), (mem_str y i2); reflexivity.
    + cbn [in_files orb andb].
      destruct (key_eqb (KStep, y) (KStep, L1)) eqn:E1, (key_eqb (KStep, y) (KStep, L2)) eqn:E2; try reflexivity.
      apply key_eqb_eq in E1, E2. congruence.
  - intros l. rewrite f0, f1.
    rewrite (orb_comm (mem_str l o2)), (orb_comm (mem_str l v2)), (orb_comm (mem_str l i2)). reflexivity.
  - intros l. rewrite s0, s1.
    destruct (str_eqb l L1) eqn:E1, (str_eqb l L2) eqn:E2; try reflexivity.
    apply str_eqb_eq in E1, E2. congruence.
  - intros a b. rewrite d0, d1. destruct b as [kk y]. destruct kk; try reflexivity.
    + change (key_eqb (KFile, y) (KStep, L2)) with false. change (key_eqb (KFile, y) (KStep, L1)) with false.
      cbn [in_files andb].
      destruct (mem_str y o1) eqn:MO1, (mem_str y v1) eqn:MV1, (mem_str y o2) eqn:MO2, (mem_str y v2) eqn:MV2;
        cbn [orb andb]; try reflexivity; try (kill_disj A1 y);
      destruct (mem_str y i1), (mem_str y i2); reflexivity.
    + cbn [in_files orb andb].
      destruct (key_eqb (KStep, y) (KStep, L1)) eqn:E1, (key_eqb (KStep, y) (KStep, L2)) eqn:E2; cbn [andb];
        try reflexivity.
      apply key_eqb_eq in E1, E2. congruence.
  - intros y. rewrite h0, h1.
    destruct (has_hash y s), (existsb (fun l => lostb s l y) o1), (existsb (fun l => lostb s l y) v1),
             (existsb (fun l => lostb s l y) o2), (existsb (fun l => lostb s l y) v2); reflexivity.
  - intros st0 nm. rewrite ev0, ev1.
    destruct (str_eqb st0 L1) eqn:E1, (str_eqb st0 L2) eqn:E2; cbn [andb]; try reflexivity.
    apply str_eqb_eq in E1, E2. congruence.
  - congruence.
Qed.

Lemma recreated_after_define c1 L1 i1 e1 o1 v1 n1 s sa :
  define_spec c1 L1 i1 e1 o1 v1 n1 s sa ->
  forall x, recreated sa x = negb (mem_str x o1 || mem_str x v1) && recreated s x.
Proof.
  intros [df_node0 _ _ _ _ _ _ _] x. unfold recreated at 1. rewrite df_node0.
  change (key_eqb (KFile, x) (KStep, L1)) with false.
  cbn [in_files]. destruct (mem_str x o1 || mem_str x v1); [reflexivity|]. cbn [negb andb].
  rewrite mem_filter. destruct (mem_str x i1 && recreated s x) eqn:E.
  - apply andb_true_iff in E as [_ ->]. reflexivity.
  - reflexivity.
Qed.

Lemma claims_disjoint c1 L1 i1 e1 o1 v1 n1 s sa (o2 v2 : list str) :
  define_spec c1 L1 i1 e1 o1 v1 n1 s sa -> attached c1 s = true ->
  (forall l, In l o2 \/ In l v2 -> existing_claim l sa = Ok None) ->
  forall l, mem_str l o2 || mem_str l v2 = true -> mem_str l o1 || mem_str l v1 = false.
Proof.
  intros [df_node0 df_file0 _ _ _ _ _ _] Ha CL l M.
  assert (Hd : is_detached c1 s = false) by (unfold attached in Ha; apply negb_true_iff in Ha; exact Ha).
  destruct (mem_str l o1 || mem_str l v1) eqn:M1; [|reflexivity]. exfalso.
  assert (HI : In l o2 \/ In l v2).
  { apply orb_true_iff in M as [M|M]; [left|right]; apply mem_str_In; exact M. }
  specialize (CL l HI). revert CL.
  assert (Hn : node_view (KFile, l) sa = Some (Some (KStep, L1), false)).
  { rewrite df_node0. change (key_eqb (KFile, l) (KStep, L1)) with false. cbn [in_files]. rewrite M1, Hd. reflexivity. }
  destruct (mem_str l o1) eqn:MO.
  - eapply claim_some_of_views; [exact Hn | rewrite df_file0, MO; reflexivity|].
    destruct (old_state (file_view l s)) as [[]|]; discriminate.
  - cbn [orb] in M1. eapply claim_some_of_views; [exact Hn | rewrite df_file0, MO, M1; reflexivity|].
    rewrite nst_volatile. discriminate.
Qed.

Lemma fresh_after_define c1 L1 i1 e1 o1 v1 n1 L2 i2 o2 v2 s sa :
  L1 <> L2 ->
  define_spec c1 L1 i1 e1 o1 v1 n1 s sa ->
  fresh_define L1 i1 o1 v1 s -> fresh_define L2 i2 o2 v2 s ->
  (forall l, mem_str l o2 || mem_str l v2 = true -> mem_str l o1 || mem_str l v1 = false) ->
  fresh_define L2 i2 o2 v2 sa.
Proof.
  intros HL D1 F1 F2 A1. pose proof (recreated_after_define _ _ _ _ _ _ _ _ _ D1) as RCa.
  destruct D1 as [df_node0 df_file0 _ _ _ _ _ df_nfc0].
  destruct F1 as [_ _ _ _ _ _ _ _ nb_inp1 nb_out1].
  destruct F2 as [lab2 _ nd_i2 nd_o2 nd_v2 io2 iv2 ov2 nb_inp2 nb_out2].
  assert (FVa : forall l, mem_str l o1 || mem_str l v1 = false ->
                          old_state (file_view l s) <> Some FBuilt -> old_state (file_view l sa) <> Some FBuilt).
  { intros l M NB. rewrite df_file0. apply orb_false_iff in M as [-> ->]. rewrite mem_filter.
    destruct (mem_str l i1 && recreated s l); [|exact NB].
    cbn [old_state]. intros E. inversion E as [E'].
    exact (nst_not_built FUndeclared _ NB ltac:(discriminate) E'). }
  constructor; try assumption.
  - apply find_node_none_view. rewrite df_node0.
    assert (NL : key_eqb (KStep, L2) (KStep, L1) = false) by (apply key_eqb_neq; congruence).
    rewrite NL. cbn [in_files orb]. apply find_node_none_view. exact lab2.
  - intros l Hl Hr. rewrite RCa in Hr. apply andb_true_iff in Hr as [M RC]. apply negb_true_iff in M.
    apply FVa; [exact M|]. apply nb_inp2; assumption.
  - intros l Hl. apply FVa.
    + apply A1. apply mem_str_In in Hl. rewrite Hl. reflexivity.
    + apply nb_out2. exact Hl.
Qed.

Theorem define_define_commute (s sa sb s12 s21 : st)
        (c1 : key) (L1 : str) (i1 e1 o1 v1 : list str) (n1 : need)
        (c2 : key) (L2 : str) (i2 e2 o2 v2 : list str) (n2 : need) :
  L1 <> L2 -> not_file c1 -> not_file c2 -> attached c1 s = true -> attached c2 s = true ->
  fresh_define L1 i1 o1 v1 s -> fresh_define L2 i2 o2 v2 s -> deps_closed s ->
  step_op (OpDefineStep c1 L1 i1 e1 o1 v1 n1) s = Ok sa ->
  step_op (OpDefineStep c2 L2 i2 e2 o2 v2 n2) sa = Ok s12 ->
  step_op (OpDefineStep c2 L2 i2 e2 o2 v2 n2) s = Ok sb ->
  step_op (OpDefineStep c1 L1 i1 e1 o1 v1 n1) sb = Ok s21 ->
  st_equiv s12 s21.
Proof.
  cbn [step_op]. intros HL Hf1 Hf2 Ha1 Ha2 F1 F2 DC R1 R12 R2 R21.
  apply define_step_new_of_ok in R1; [|exact (fd_label _ _ _ _ _ F1)].
  apply define_step_new_spec in R1; [|exact F1].
  apply define_step_new_of_ok in R2; [|exact (fd_label _ _ _ _ _ F2)].
  apply define_step_new_spec in R2; [|exact F2].
  (* r2 after r1 *)
  assert (La : find_node (KStep, L2) sa = None).
  { apply find_node_none_view. rewrite (df_node _ _ _ _ _ _ _ _ _ R1).
    assert (NL : key_eqb (KStep, L2) (KStep, L1) = false) by (apply key_eqb_neq; congruence).
    rewrite NL. cbn [in_files orb]. apply find_node_none_view. exact (fd_label _ _ _ _ _ F2). }
  apply define_step_new_of_ok in R12; [|exact La].
  pose proof (claims_disjoint _ _ _ _ _ _ _ _ _ o2 v2 R1 Ha1 (define_new_claims _ _ _ _ _ _ _ _ _ R12)) as A1.
  apply define_step_new_spec in R12; [|eapply fresh_after_define; eassumption].
  (* r1 after r2 *)
  assert (A2 : forall l, mem_str l o1 || mem_str l v1 = true -> mem_str l o2 || mem_str l v2 = false).
  { intros l M. destruct (mem_str l o2 || mem_str l v2) eqn:M2; [|reflexivity].
    rewrite (A1 l M2) in M. discriminate. }
  assert (Lb : find_node (KStep, L1) sb = None).
  { apply find_node_none_view. rewrite (df_node _ _ _ _ _ _ _ _ _ R2).
    assert (NL : key_eqb (KStep, L1) (KStep, L2) = false) by (apply key_eqb_neq; congruence).
    rewrite NL. cbn [in_files orb]. apply find_node_none_view. exact (fd_label _ _ _ _ _ F1). }
  apply define_step_new_of_ok in R21; [|exact Lb].
  apply define_step_new_spec in R21; [|eapply fresh_after_define; try eassumption; congruence].
  eapply (two_defines_sym c1 L1 i1 e1 o1 v1 n1 c2 L2 i2 e2 o2 v2 n2 s s12 s21 HL A1).
  - eapply seq_define_views; try eassumption. exact (fd_ov _ _ _ _ _ F2).
  - eapply seq_define_views; try eassumption; [congruence | exact (fd_ov _ _ _ _ _ F1)].
Qed.
