(* C15: proofs about model/Txn.v. *)
From Coq Require Import List Arith Bool Lia.
From SV Require Import gen.GenStructure model.Txn.
Import ListNotations.

Section Proofs.
Variable St : Type.
Notation mut := (St -> option St).
Notation sys := (sys St).
Notation task := (task St).
Notation otxn := (otxn St).
Notation fentry := (fentry St).
Notation txn := (txn St).

(* ---------------------------------------------------------------------------------------- *)
(* DBSession.__aexit__ as generated                                                           *)
(* ---------------------------------------------------------------------------------------- *)

Lemma aexit_commit : forall (c : St) (o : otxn), aexit (o_task o) false c o = (o_work o, false).
Proof.
  intros c o. unfold aexit, aexit_ok, aexit_finally. cbn. rewrite Nat.eqb_refl. cbn. reflexivity.
Qed.

Lemma aexit_rollback : forall (c : St) (o : otxn), aexit (o_task o) true c o = (c, false).
Proof.
  intros c o. unfold aexit, aexit_exc, aexit_finally. cbn. rewrite Nat.eqb_refl. cbn. reflexivity.
Qed.

Lemma holder_access_only : access_requires_holder = true.
Proof. reflexivity. Qed.

(* ---------------------------------------------------------------------------------------- *)
(* one request                                                                                *)
(* ---------------------------------------------------------------------------------------- *)

Lemma apply_all_app : forall (a b : list mut) (s : St),
  apply_all (a ++ b) s = match apply_all a s with Some s' => apply_all b s' | None => None end.
Proof.
  induction a as [|m a IH]; intros b s; cbn; [reflexivity|].
  destruct (m s) as [s'|]; [apply IH|reflexivity].
Qed.

Lemma run_body_apply : forall (b : txn) (w : St), run_body b w = apply_all (muts_of b) w.
Proof.
  induction b as [|i b IH]; intros w; cbn; [reflexivity|].
  destruct i as [m|]; cbn; [|apply IH].
  destruct (m w) as [w'|]; [apply IH|reflexivity].
Qed.

Lemma request_atomic_eq : forall (who : nat) (b : txn) (c : St),
  exec_request who b c = (txn_effect (muts_of b) c, false).
Proof.
  intros who b c. unfold exec_request, txn_effect. rewrite run_body_apply.
  destruct (apply_all (muts_of b) c) as [w|].
  - exact (aexit_commit c {| o_task := who; o_rest := []; o_work := w; o_seen := c;
                             o_done := muts_of b; o_body := muts_of b |}).
  - exact (aexit_rollback c {| o_task := who; o_rest := b; o_work := c; o_seen := c;
                               o_done := []; o_body := muts_of b |}).
Qed.

(* unchanged, or the fold of ALL mutations -- never the fold of a proper prefix that raised *)
Lemma request_atomic_cases : forall (who : nat) (b : txn) (c : St),
  snd (exec_request who b c) = false /\
  ((apply_all (muts_of b) c = None /\ fst (exec_request who b c) = c) \/
   apply_all (muts_of b) c = Some (fst (exec_request who b c))).
Proof.
  intros who b c. rewrite request_atomic_eq. cbn. split; [reflexivity|].
  unfold txn_effect. destruct (apply_all (muts_of b) c); [right|left]; auto.
Qed.

(* ---------------------------------------------------------------------------------------- *)
(* list helpers                                                                               *)
(* ---------------------------------------------------------------------------------------- *)

Lemma nth_error_upd_same : forall (l : list task) i t x,
  nth_error l i = Some x -> nth_error (upd l i t) i = Some t.
Proof.
  induction l as [|y l IH]; intros [|i] t x H; cbn in *; try discriminate; auto.
  eapply IH; eauto.
Qed.

Lemma nth_error_upd_other : forall (l : list task) i j t,
  i <> j -> nth_error (upd l i t) j = nth_error l j.
Proof.
  induction l as [|y l IH]; intros [|i] [|j] t H; cbn; auto; try congruence.
Qed.

Lemma length_upd : forall (l : list task) i t, length (upd l i t) = length l.
Proof. induction l as [|y l IH]; intros [|i] t; cbn; auto. Qed.

Lemma in_upd : forall (l : list task) i t x, In x (upd l i t) -> x = t \/ In x l.
Proof.
  induction l as [|y l IH]; intros [|i] t x H; cbn in *; auto.
  - destruct H; auto.
  - destruct H as [H|H]; auto. apply IH in H. destruct H; auto.
Qed.

(* ---------------------------------------------------------------------------------------- *)
(* the invariant                                                                              *)
(* ---------------------------------------------------------------------------------------- *)

Definition entry_ok (f : fentry) : Prop :=
  (f_out f = OCommit -> apply_all (f_muts f) (f_seen f) <> None) /\
  (f_out f = ORollback -> f_cancelled f = false -> apply_all (f_muts f) (f_seen f) = None).

(* every finished transaction started from the result of all the WHOLE transactions before it *)
Fixpoint log_ok (s0 : St) (log : list fentry) : Prop :=
  match log with
  | [] => True
  | f :: older => f_seen f = replay s0 older /\ entry_ok f /\ log_ok s0 older
  end.

Definition open_ok (st : sys) : Prop :=
  match s_open st with
  | None => True
  | Some o =>
      o_seen o = s_committed st /\
      apply_all (o_done o) (o_seen o) = Some (o_work o) /\
      o_body o = o_done o ++ muts_of (o_rest o) /\
      exists t, nth_error (s_tasks st) (o_task o) = Some t /\ t_end t = None
  end.

Definition Inv (s0 : St) (st : sys) : Prop :=
  s_committed st = replay s0 (s_log st) /\ log_ok s0 (s_log st) /\ open_ok st.

Lemma inv_init : forall s0 progs, Inv s0 (init s0 progs).
Proof. intros. repeat split. Qed.

Lemma open_ok_tasks_other : forall (st : sys) l,
  (forall o, s_open st = Some o ->
     forall t, nth_error (s_tasks st) (o_task o) = Some t -> t_end t = None ->
     exists t', nth_error l (o_task o) = Some t' /\ t_end t' = None) ->
  open_ok st -> open_ok (with_tasks st l).
Proof.
  intros st l H Ho. unfold open_ok in *. cbn. destruct (s_open st) as [o|]; auto.
  destruct Ho as (A & B & C & t & D & E). repeat split; auto. eapply H; eauto.
Qed.

Ltac inv_same_store st :=
  match goal with
  | HI : Inv _ st |- Inv _ _ =>
      destruct HI as (HIc & HIl & HIo); split; [exact HIc|split; [exact HIl|]]
  end.

Lemma step_run_inv : forall s0 (st : sys) i, Inv s0 st -> Inv s0 (step_run st i).
Proof.
  intros s0 st i HI. unfold step_run.
  destruct (nth_error (s_tasks st) i) as [t|] eqn:Ht; [|exact HI].
  destruct (t_end t) eqn:Hend; [exact HI|].
  destruct (s_open st) as [o|] eqn:Hopen.
  - destruct (o_task o =? i) eqn:Hh.
    + apply Nat.eqb_eq in Hh. subst i.
      destruct HI as (HIc & HIl & HIo). unfold open_ok in HIo. rewrite Hopen in HIo.
      destruct HIo as (Hseen & Hdone & Hbody & t0 & Ht0 & Hend0).
      destruct (o_rest o) as [|[m|] r] eqn:Hrest.
      * (* commit *)
        unfold close_txn. rewrite aexit_commit. unfold Inv, open_ok. cbn.
        rewrite app_nil_r in Hbody.
        assert (Heff : txn_effect (o_body o) (o_seen o) = o_work o).
        { unfold txn_effect. rewrite Hbody, Hdone. reflexivity. }
        split; [|split; [|exact I]].
        -- unfold effect. cbn. rewrite <- Heff, Hseen, HIc. reflexivity.
        -- split; [rewrite Hseen; exact HIc|]. split; [|exact HIl].
           split; cbn; intros H; [|discriminate]. rewrite Hbody, Hdone. discriminate.
      * destruct (m (o_work o)) as [w'|] eqn:Hm.
        -- (* a mutation succeeds *)
           unfold Inv, open_ok. cbn. split; [exact HIc|split; [exact HIl|]].
           split; [exact Hseen|]. split.
           ++ rewrite apply_all_app, Hdone. cbn. rewrite Hm. reflexivity.
           ++ split; [rewrite Hbody; cbn; rewrite <- app_assoc; reflexivity|].
              exists t0. auto.
        -- (* a mutation raises: rollback *)
           unfold close_txn. rewrite aexit_rollback. unfold Inv, open_ok. cbn.
           split; [exact HIc|]. split; [|exact I].
           split; [rewrite Hseen; exact HIc|]. split; [|exact HIl].
           split; cbn; intros H; [discriminate|]. intros _.
           rewrite Hbody, apply_all_app, Hdone. cbn. rewrite Hm. reflexivity.
      * destruct (t_cancel t).
        -- (* cancellation delivered at an await inside the block: rollback *)
           unfold close_txn. rewrite aexit_rollback. unfold Inv, open_ok. cbn.
           split; [exact HIc|]. split; [|exact I].
           split; [rewrite Hseen; exact HIc|]. split; [|exact HIl].
           split; cbn; intros H; [discriminate|]. intros H2. discriminate.
        -- unfold Inv, open_ok. cbn. split; [exact HIc|split; [exact HIl|]].
           split; [exact Hseen|]. split; [exact Hdone|]. split; [exact Hbody|]. exists t0; auto.
    + (* not the holder *)
      apply Nat.eqb_neq in Hh.
      assert (Hkeep : forall t', open_ok st -> open_ok (with_tasks st (upd (s_tasks st) i t'))).
      { intros t'. apply open_ok_tasks_other. intros o' Ho' tt Htt Hee.
        rewrite Hopen in Ho'. injection Ho' as <-. exists tt. split; auto.
        rewrite nth_error_upd_other; auto. }
      destruct (t_todo t) as [|b r].
      * inv_same_store st. apply Hkeep. exact HIo.
      * destruct (t_cancel t); [|exact HI]. inv_same_store st. apply Hkeep. exact HIo.
  - (* lock free *)
    destruct (t_todo t) as [|b r] eqn:Htodo.
    + inv_same_store st. unfold open_ok. cbn. rewrite Hopen. exact I.
    + destruct (t_cancel t).
      * inv_same_store st. unfold open_ok. cbn. rewrite Hopen. exact I.
      * destruct HI as (HIc & HIl & HIo). unfold Inv, open_ok. cbn.
        split; [exact HIc|split; [exact HIl|]]. repeat split.
        exists (set_todo t r). split; [eapply nth_error_upd_same; eauto|exact Hend].
Qed.

Lemma cancel_conn_nth : forall c (l : list task) j t,
  nth_error l j = Some t -> t_end t = None ->
  exists t', nth_error (cancel_conn c l) j = Some t' /\ t_end t' = None.
Proof.
  intros c l j t H He. unfold cancel_conn. rewrite nth_error_map, H. cbn.
  destruct ((t_conn t =? c) && _); eexists; split; eauto.
Qed.

Lemma step_inv : forall s0 (st : sys) e, Inv s0 st -> Inv s0 (step st e).
Proof.
  intros s0 st e HI. destruct e as [i|c p|c|c|c]; cbn [step].
  - apply step_run_inv; exact HI.
  - destruct (is_closed st c); [exact HI|]. inv_same_store st.
    apply open_ok_tasks_other; [|exact HIo]. intros o Ho t Ht He. exists t. split; auto.
    rewrite nth_error_app1; auto. apply nth_error_Some. congruence.
  - unfold end_conn. destruct (cancels _); inv_same_store st; unfold open_ok in *; cbn;
      destruct (s_open st) as [o|]; auto.
    destruct HIo as (A & B & C & t & D & E). repeat split; auto. eapply cancel_conn_nth; eauto.
  - unfold end_conn. destruct (cancels _); inv_same_store st; unfold open_ok in *; cbn;
      destruct (s_open st) as [o|]; auto.
    destruct HIo as (A & B & C & t & D & E). repeat split; auto. eapply cancel_conn_nth; eauto.
  - unfold end_conn. destruct (cancels _); inv_same_store st; unfold open_ok in *; cbn;
      destruct (s_open st) as [o|]; auto.
    destruct HIo as (A & B & C & t & D & E). repeat split; auto. eapply cancel_conn_nth; eauto.
Qed.

Lemma run_inv : forall s0 evs (st : sys), Inv s0 st -> Inv s0 (run evs st).
Proof.
  intros s0 evs. induction evs as [|e evs IH]; intros st HI; cbn; [exact HI|].
  apply IH. apply step_inv. exact HI.
Qed.

(* ---------------------------------------------------------------------------------------- *)
(* replay = sequential composition of whole requests, when nothing was cancelled              *)
(* ---------------------------------------------------------------------------------------- *)

Lemma serial_fold_right : forall (s0 : St) log,
  serial s0 log = fold_right (fun f s => txn_effect (f_muts f) s) s0 log.
Proof. intros. unfold serial. rewrite <- fold_left_rev_right, rev_involutive. reflexivity. Qed.

Lemma replay_serial : forall (s0 : St) log,
  log_ok s0 log -> (forall f, In f log -> f_cancelled f = false) -> replay s0 log = serial s0 log.
Proof.
  intros s0 log. rewrite serial_fold_right. induction log as [|f older IH]; intros Hok Hnc; [reflexivity|].
  cbn in Hok. destruct Hok as (Hseen & (Hc & Hr) & Hold).
  cbn [replay fold_right]. fold (replay s0 older).
  rewrite <- IH; [|exact Hold|intros g Hg; apply Hnc; right; exact Hg].
  unfold effect. destruct (f_out f) eqn:Hout; [reflexivity|].
  unfold txn_effect. rewrite <- Hseen. rewrite Hr; auto. apply Hnc. left. reflexivity.
Qed.

(* ---------------------------------------------------------------------------------------- *)
(* who gets cancelled                                                                         *)
(* ---------------------------------------------------------------------------------------- *)

Definition is_loopfail (c : nat) (e : event St) : bool :=
  match e with LoopFail c' => c' =? c | _ => false end.

(* no task of connection c has a pending or delivered cancellation, and no logged transaction
   of such a task was cut by one *)
Definition Clean (c : nat) (st : sys) : Prop :=
  (forall t, In t (s_tasks st) -> t_conn t = c -> t_cancel t = false /\ t_end t <> Some EndCancel) /\
  (forall f, In f (s_log st) -> f_cancelled f = true ->
     exists t, nth_error (s_tasks st) (f_task f) = Some t /\ t_conn t <> c).

Lemma peer_gone_does_not_cancel : cancels peer_gone_cancels_inflight = false.
Proof. reflexivity. Qed.
Lemma stop_does_not_cancel : cancels stop_cancels_inflight = false.
Proof. reflexivity. Qed.

Lemma clean_tasks_only : forall c (st : sys) l,
  (forall t, In t l -> t_conn t = c -> t_cancel t = false /\ t_end t <> Some EndCancel) ->
  (forall j t, nth_error (s_tasks st) j = Some t -> exists t', nth_error l j = Some t' /\ t_conn t' = t_conn t) ->
  Clean c st -> Clean c (with_tasks st l).
Proof.
  intros c st l H1 H2 (_ & Hl). split; cbn; [exact H1|].
  intros f Hf Hc. destruct (Hl f Hf Hc) as (t & Ht & Hn). destruct (H2 _ _ Ht) as (t' & Ht' & Hcc).
  exists t'. split; auto. congruence.
Qed.

Lemma upd_conn_preserved : forall (l : list task) i t t',
  nth_error l i = Some t -> t_conn t' = t_conn t ->
  forall j x, nth_error l j = Some x -> exists x', nth_error (upd l i t') j = Some x' /\ t_conn x' = t_conn x.
Proof.
  intros l i t t' Hi Hc j x Hj. destruct (Nat.eq_dec i j) as [->|Hne].
  - exists t'. split; [eapply nth_error_upd_same; eauto|congruence].
  - exists x. split; [rewrite nth_error_upd_other; auto|reflexivity].
Qed.

Lemma step_run_clean : forall c (st : sys) i, Clean c st -> Clean c (step_run st i).
Proof.
  intros c st i HC. unfold step_run.
  destruct (nth_error (s_tasks st) i) as [t|] eqn:Ht; [|exact HC].
  destruct (t_end t) eqn:Hend; [exact HC|].
  assert (Hin : In t (s_tasks st)) by (eapply nth_error_In; eauto).
  destruct HC as (HT & HL).
  assert (Hmine : t_conn t = c -> t_cancel t = false) by (intros H; apply (HT t Hin H)).
  (* generic facts about replacing task i *)
  assert (Htasks : forall t', t_conn t' = t_conn t ->
            (t_conn t' = c -> t_cancel t' = false /\ t_end t' <> Some EndCancel) ->
            forall x, In x (upd (s_tasks st) i t') -> t_conn x = c ->
            t_cancel x = false /\ t_end x <> Some EndCancel).
  { intros t' _ H' x Hx Hxc. apply in_upd in Hx. destruct Hx as [->|Hx]; auto. }
  assert (Hlog : forall t', t_conn t' = t_conn t ->
            forall f, In f (s_log st) -> f_cancelled f = true ->
            exists x, nth_error (upd (s_tasks st) i t') (f_task f) = Some x /\ t_conn x <> c).
  { intros t' Hc' f Hf Hcf. destruct (HL f Hf Hcf) as (x & Hx & Hn).
    destruct (upd_conn_preserved _ _ _ _ Ht Hc' _ _ Hx) as (x' & Hx' & Hcx). exists x'. split; auto. congruence. }
  destruct (s_open st) as [o|] eqn:Hopen.
  - destruct (o_task o =? i) eqn:Hh.
    + apply Nat.eqb_eq in Hh. subst i.
      destruct (o_rest o) as [|[m|] r] eqn:Hrest.
      * unfold close_txn. rewrite aexit_commit. split; cbn.
        -- apply Htasks; auto; intros H; (split; [auto|congruence]).
        -- intros f [<-|Hf] Hcf; [discriminate|]. apply Hlog; auto.
      * destruct (m (o_work o)).
        -- split; cbn; auto.
        -- unfold close_txn. rewrite aexit_rollback. split; cbn.
           ++ apply Htasks; auto; intros H; (split; [auto|discriminate]).
           ++ intros f [<-|Hf] Hcf; [discriminate|]. apply Hlog; auto.
      * destruct (t_cancel t) eqn:Hcan.
        -- unfold close_txn. rewrite aexit_rollback.
           assert (Hnc : t_conn t <> c) by (intros H; apply Hmine in H; congruence).
           split; cbn.
           ++ apply Htasks; auto; intros H; contradiction.
           ++ intros f [<-|Hf] Hcf; [|apply Hlog; auto]. cbn.
              exists (set_end t EndCancel). split; [eapply nth_error_upd_same; eauto|exact Hnc].
        -- split; cbn; auto.
    + destruct (t_todo t) as [|b r].
      * split; cbn; [apply Htasks; auto; intros H; (split; [auto|discriminate])|apply Hlog; auto].
      * destruct (t_cancel t) eqn:Hcan; [|split; auto].
        assert (Hnc : t_conn t <> c) by (intros H; apply Hmine in H; congruence).
        split; cbn; [apply Htasks; auto; intros H; contradiction|apply Hlog; auto].
  - destruct (t_todo t) as [|b r].
    + split; cbn; [apply Htasks; auto; intros H; (split; [auto|discriminate])|apply Hlog; auto].
    + destruct (t_cancel t) eqn:Hcan.
      * assert (Hnc : t_conn t <> c) by (intros H; apply Hmine in H; congruence).
        split; cbn; [apply Htasks; auto; intros H; contradiction|apply Hlog; auto].
      * split; cbn; [apply Htasks; auto; intros H; (split; cbn; [auto|congruence])|apply Hlog; auto].
Qed.

Lemma cancel_conn_clean : forall c c' (st : sys), c' <> c -> Clean c st ->
  Clean c (end_conn st c' true).
Proof.
  intros c c' st Hne (HT & HL). split; cbn.
  - intros t Ht Hc. unfold cancel_conn in Ht. apply in_map_iff in Ht. destruct Ht as (x & <- & Hx).
    destruct ((t_conn x =? c') && _) eqn:Hb.
    + apply andb_true_iff in Hb. destruct Hb as (Hb & _). apply Nat.eqb_eq in Hb. cbn in Hc. congruence.
    + apply HT; auto.
  - intros f Hf Hcf. destruct (HL f Hf Hcf) as (t & Ht & Hn). unfold cancel_conn.
    rewrite nth_error_map, Ht. cbn. destruct ((t_conn t =? c') && _); eexists; split; eauto.
Qed.

Lemma end_conn_false_clean : forall c c' (st : sys), Clean c st -> Clean c (end_conn st c' false).
Proof. intros c c' st HC. exact HC. Qed.

Lemma step_clean : forall c (st : sys) e, is_loopfail c e = false -> Clean c st -> Clean c (step st e).
Proof.
  intros c st e Hlf HC. destruct e as [i|c' p|c'|c'|c']; cbn [step].
  - apply step_run_clean; exact HC.
  - destruct (is_closed st c'); [exact HC|]. destruct HC as (HT & HL). split; cbn.
    + intros t Ht Hc. apply in_app_iff in Ht. destruct Ht as [Ht|[<-|[]]]; [apply HT; auto|].
      cbn. split; [reflexivity|discriminate].
    + intros f Hf Hcf. destruct (HL f Hf Hcf) as (t & Ht & Hn). exists t. split; auto.
      rewrite nth_error_app1; auto. apply nth_error_Some. congruence.
  - rewrite peer_gone_does_not_cancel. exact HC.
  - rewrite stop_does_not_cancel. exact HC.
  - cbn in Hlf. apply Nat.eqb_neq in Hlf. destruct (cancels _); [apply cancel_conn_clean; auto|exact HC].
Qed.

Lemma run_clean : forall c evs (st : sys),
  forallb (fun e => negb (is_loopfail c e)) evs = true -> Clean c st -> Clean c (run evs st).
Proof.
  intros c evs. induction evs as [|e evs IH]; intros st H HC; cbn; [exact HC|].
  cbn in H. apply andb_true_iff in H. destruct H as (He & Hr).
  apply IH; auto. apply step_clean; auto. destruct (is_loopfail c e); auto; discriminate.
Qed.

(* tasks are never removed and keep their connection *)
Lemma step_task_persist : forall (st : sys) e j t,
  nth_error (s_tasks st) j = Some t ->
  exists t', nth_error (s_tasks (step st e)) j = Some t' /\ t_conn t' = t_conn t.
Proof.
  intros st e j t Hj.
  assert (Hsame : exists t', nth_error (s_tasks st) j = Some t' /\ t_conn t' = t_conn t) by eauto.
  assert (Hupd : forall i x x', nth_error (s_tasks st) i = Some x -> t_conn x' = t_conn x ->
            exists t', nth_error (upd (s_tasks st) i x') j = Some t' /\ t_conn t' = t_conn t).
  { intros i x x' Hi Hc. eapply upd_conn_preserved; eauto. }
  assert (Hcc : forall c, exists t', nth_error (cancel_conn c (s_tasks st)) j = Some t' /\ t_conn t' = t_conn t).
  { intros c. unfold cancel_conn. rewrite nth_error_map, Hj. cbn.
    destruct ((t_conn t =? c) && _); eexists; split; eauto. }
  destruct e as [i|c p|c|c|c]; cbn [step].
  - unfold step_run. destruct (nth_error (s_tasks st) i) as [x|] eqn:Hx; [|exact Hsame].
    destruct (t_end x); [exact Hsame|].
    destruct (s_open st) as [o|].
    + destruct (o_task o =? i).
      * destruct (o_rest o) as [|[m|] r].
        -- unfold close_txn. destruct (aexit _ _ _ _). cbn. eapply Hupd; eauto.
        -- destruct (m (o_work o)); [exact Hsame|]. unfold close_txn. destruct (aexit _ _ _ _). cbn.
           eapply Hupd; eauto.
        -- destruct (t_cancel x); [|exact Hsame]. unfold close_txn. destruct (aexit _ _ _ _). cbn.
           eapply Hupd; eauto.
      * destruct (t_todo x); [cbn; eapply Hupd; eauto|]. destruct (t_cancel x); [cbn; eapply Hupd; eauto|exact Hsame].
    + destruct (t_todo x); [cbn; eapply Hupd; eauto|]. destruct (t_cancel x); cbn; eapply Hupd; eauto.
  - destruct (is_closed st c); [exact Hsame|]. cbn. exists t. split; auto.
    rewrite nth_error_app1; auto. apply nth_error_Some. congruence.
  - unfold end_conn. destruct (cancels _); cbn; auto.
  - unfold end_conn. destruct (cancels _); cbn; auto.
  - unfold end_conn. destruct (cancels _); cbn; auto.
Qed.

Lemma run_task_persist : forall evs (st : sys) j t,
  nth_error (s_tasks st) j = Some t ->
  exists t', nth_error (s_tasks (run evs st)) j = Some t' /\ t_conn t' = t_conn t.
Proof.
  induction evs as [|e evs IH]; intros st j t Hj; cbn; [eauto|].
  destruct (step_task_persist st e j t Hj) as (t1 & H1 & C1).
  destruct (IH _ _ _ H1) as (t2 & H2 & C2). exists t2. split; auto. congruence.
Qed.

(* ---------------------------------------------------------------------------------------- *)
(* progress: the scheduler can always finish every handler (nobody waits for the peer)        *)
(* ---------------------------------------------------------------------------------------- *)

Definition sumw (l : list task) : nat := fold_right (fun t n => task_work t + n) 0 l.

Lemma sumw_upd : forall (l : list task) i t t',
  nth_error l i = Some t -> sumw (upd l i t') + task_work t = sumw l + task_work t'.
Proof.
  induction l as [|y l IH]; intros [|i] t t' H; cbn in *; try discriminate.
  - injection H as ->. lia.
  - specialize (IH i t t' H). unfold sumw in IH. lia.
Qed.

Lemma first_live_spec : forall (l : list task) k i,
  first_live l k = Some i -> exists t, nth_error l (i - k) = Some t /\ t_end t = None /\ k <= i.
Proof.
  induction l as [|y l IH]; intros k i H; cbn in H; [discriminate|].
  destruct (t_end y) eqn:Hy.
  - apply IH in H. destruct H as (t & Ht & He & Hk). exists t. split; [|split; [auto|lia]].
    replace (i - k) with (S (i - S k)) by lia. exact Ht.
  - injection H as <-. exists y. rewrite Nat.sub_diag. auto.
Qed.

Lemma first_live_none : forall (l : list task) k,
  first_live l k = None ->
  forallb (fun t => match t_end t with Some _ => true | None => false end) l = true.
Proof.
  induction l as [|y l IH]; intros k H; cbn in *; [reflexivity|].
  destruct (t_end y); [eapply IH; eauto|discriminate].
Qed.

Definition holder_alive (st : sys) : Prop :=
  forall o, s_open st = Some o -> exists t, nth_error (s_tasks st) (o_task o) = Some t /\ t_end t = None.

Lemma inv_holder_alive : forall s0 (st : sys), Inv s0 st -> holder_alive st.
Proof.
  intros s0 st (_ & _ & Ho) o Hopen. unfold open_ok in Ho. rewrite Hopen in Ho.
  destruct Ho as (_ & _ & _ & H). exact H.
Qed.

Lemma pick_none_done : forall (st : sys), holder_alive st -> pick st = None -> all_done st = true.
Proof.
  intros st Hh Hp. unfold pick in Hp. destruct (s_open st) as [o|]; [discriminate|].
  unfold all_done. eapply first_live_none; eauto.
Qed.

Lemma task_work_live : forall (t : task), t_end t = None ->
  task_work t = 1 + fold_right (fun b k => 2 + length b + k) 0 (t_todo t).
Proof. intros t H. unfold task_work. rewrite H. reflexivity. Qed.

Lemma step_run_progress : forall (st : sys) i,
  holder_alive st -> pick st = Some i -> work_left (step_run st i) < work_left st.
Proof.
  intros st i Hh Hp. unfold pick in Hp. unfold step_run, work_left.
  destruct (s_open st) as [o|] eqn:Hopen.
  - injection Hp as <-. destruct (Hh o Hopen) as (t & Ht & He). rewrite Ht, He, Nat.eqb_refl.
    pose proof (task_work_live t He) as H1.
    destruct (o_rest o) as [|[m|] r] eqn:Hrest.
    + unfold close_txn. rewrite aexit_commit. cbn.
      pose proof (sumw_upd _ _ _ t Ht) as Hs. unfold sumw in Hs. lia.
    + destruct (m (o_work o)).
      * cbn. lia.
      * unfold close_txn. rewrite aexit_rollback. cbn.
        pose proof (sumw_upd _ _ _ (set_end t EndRaise) Ht) as Hs. unfold sumw in Hs.
        assert (H0 : task_work (set_end t EndRaise) = 0) by reflexivity. lia.
    + destruct (t_cancel t).
      * unfold close_txn. rewrite aexit_rollback. cbn.
        pose proof (sumw_upd _ _ _ (set_end t EndCancel) Ht) as Hs. unfold sumw in Hs.
        assert (H0 : task_work (set_end t EndCancel) = 0) by reflexivity. lia.
      * cbn. lia.
  - apply first_live_spec in Hp. destruct Hp as (t & Ht & He & _). rewrite Nat.sub_0_r in Ht.
    rewrite Ht, He.
    pose proof (task_work_live t He) as H1.
    destruct (t_todo t) as [|b r] eqn:Htodo; cbn [fold_right] in H1.
    + cbn. rewrite ?Hopen. pose proof (sumw_upd _ _ _ (set_end t EndDone) Ht) as Hs. unfold sumw in Hs.
      assert (H0 : task_work (set_end t EndDone) = 0) by reflexivity. lia.
    + destruct (t_cancel t).
      * cbn. rewrite ?Hopen. pose proof (sumw_upd _ _ _ (set_end t EndCancel) Ht) as Hs. unfold sumw in Hs.
        assert (H0 : task_work (set_end t EndCancel) = 0) by reflexivity. lia.
      * cbn. pose proof (sumw_upd _ _ _ (set_todo t r) Ht) as Hs. unfold sumw in Hs.
        assert (H0 : task_work (set_todo t r) = 1 + fold_right (fun b k => 2 + length b + k) 0 r)
          by (unfold task_work; cbn; rewrite He; reflexivity).
        lia.
Qed.

Lemma drain_all_done : forall s0 fuel (st : sys),
  Inv s0 st -> work_left st <= fuel -> all_done (drain fuel st) = true.
Proof.
  intros s0 fuel. induction fuel as [|k IH]; intros st HI Hw.
  - cbn. destruct (pick st) as [i|] eqn:Hp.
    + pose proof (step_run_progress st i (inv_holder_alive _ _ HI) Hp). lia.
    + apply pick_none_done; auto. eapply inv_holder_alive; eauto.
  - cbn. destruct (pick st) as [i|] eqn:Hp.
    + apply IH; [apply step_run_inv; exact HI|].
      pose proof (step_run_progress st i (inv_holder_alive _ _ HI) Hp). lia.
    + apply pick_none_done; auto. eapply inv_holder_alive; eauto.
Qed.

(* drain is a run of Run events *)
Fixpoint drain_events (fuel : nat) (st : sys) : list (event St) :=
  match fuel with
  | O => []
  | S k => match pick st with Some i => Run i :: drain_events k (step_run st i) | None => [] end
  end.

Lemma drain_is_run : forall fuel (st : sys), drain fuel st = run (drain_events fuel st) st.
Proof.
  induction fuel as [|k IH]; intros st; cbn; [reflexivity|].
  destruct (pick st) as [i|]; cbn; [apply IH|reflexivity].
Qed.

Lemma drain_events_runs_only : forall c fuel (st : sys),
  forallb (fun e => negb (is_loopfail c e)) (drain_events fuel st) = true.
Proof.
  intros c. induction fuel as [|k IH]; intros st; cbn; [reflexivity|].
  destruct (pick st) as [i|]; cbn; [apply IH|reflexivity].
Qed.

(* a task that ended normally has started (hence, one by one, committed) all its transactions *)
Definition done_ok (st : sys) : Prop :=
  forall t, In t (s_tasks st) -> t_end t = Some EndDone -> t_todo t = [].

Lemma step_done_ok : forall (st : sys) e, done_ok st -> done_ok (step st e).
Proof.
  intros st e HD.
  assert (Hupd : forall i x x', nth_error (s_tasks st) i = Some x ->
            (t_end x' = Some EndDone -> t_todo x' = []) ->
            forall t, In t (upd (s_tasks st) i x') -> t_end t = Some EndDone -> t_todo t = []).
  { intros i x x' Hi Hx' t Ht He. apply in_upd in Ht. destruct Ht as [->|Ht]; auto. }
  destruct e as [i|c p|c|c|c]; cbn [step].
  - unfold step_run. destruct (nth_error (s_tasks st) i) as [x|] eqn:Hx; [|exact HD].
    destruct (t_end x) eqn:Hex; [exact HD|].
    destruct (s_open st) as [o|].
    + destruct (o_task o =? i).
      * destruct (o_rest o) as [|[m|] r].
        -- unfold close_txn. destruct (aexit _ _ _ _). unfold done_ok. cbn. eapply Hupd; eauto. congruence.
        -- destruct (m (o_work o)); [exact HD|]. unfold close_txn. destruct (aexit _ _ _ _).
           unfold done_ok. cbn. eapply Hupd; eauto. cbn. discriminate.
        -- destruct (t_cancel x); [|exact HD]. unfold close_txn. destruct (aexit _ _ _ _).
           unfold done_ok. cbn. eapply Hupd; eauto. cbn. discriminate.
      * destruct (t_todo x) eqn:Htd; [unfold done_ok; cbn; eapply Hupd; eauto|].
        destruct (t_cancel x); [unfold done_ok; cbn; eapply Hupd; eauto; cbn; discriminate|exact HD].
    + destruct (t_todo x) eqn:Htd; [unfold done_ok; cbn; eapply Hupd; eauto|].
      destruct (t_cancel x); unfold done_ok; cbn; eapply Hupd; eauto; cbn; [discriminate|congruence].
  - destruct (is_closed st c); [exact HD|]. unfold done_ok. cbn. intros t Ht He.
    apply in_app_iff in Ht. destruct Ht as [Ht|[<-|[]]]; [auto|discriminate].
  - unfold end_conn. destruct (cancels _); [|exact HD]. unfold done_ok. cbn. intros t Ht He.
    unfold cancel_conn in Ht. apply in_map_iff in Ht. destruct Ht as (x & <- & Hx).
    destruct ((t_conn x =? c) && _); cbn in *; auto.
  - unfold end_conn. destruct (cancels _); [|exact HD]. unfold done_ok. cbn. intros t Ht He.
    unfold cancel_conn in Ht. apply in_map_iff in Ht. destruct Ht as (x & <- & Hx).
    destruct ((t_conn x =? c) && _); cbn in *; auto.
  - unfold end_conn. destruct (cancels _); [|exact HD]. unfold done_ok. cbn. intros t Ht He.
    unfold cancel_conn in Ht. apply in_map_iff in Ht. destruct Ht as (x & <- & Hx).
    destruct ((t_conn x =? c) && _); cbn in *; auto.
Qed.

Lemma run_done_ok : forall evs (st : sys), done_ok st -> done_ok (run evs st).
Proof.
  induction evs as [|e evs IH]; intros st H; cbn; [exact H|]. apply IH. apply step_done_ok. exact H.
Qed.

Lemma done_ok_init : forall (s0 : St) progs, done_ok (init s0 progs).
Proof.
  intros s0 progs t Ht He. cbn in Ht. apply in_map_iff in Ht. destruct Ht as (p & <- & _). discriminate.
Qed.

Lemma clean_init : forall c (s0 : St) progs, Clean c (init s0 progs).
Proof.
  intros c s0 progs. split; cbn.
  - intros t Ht _. apply in_map_iff in Ht. destruct Ht as (p & <- & _). cbn. split; [reflexivity|discriminate].
  - intros f [].
Qed.

Lemma all_done_nth : forall (st : sys) j t,
  all_done st = true -> nth_error (s_tasks st) j = Some t -> t_end t <> None.
Proof.
  intros st j t H Hj. unfold all_done in H. rewrite forallb_forall in H.
  specialize (H t (nth_error_In _ _ Hj)). destruct (t_end t); [discriminate|discriminate].
Qed.

(* ---------------------------------------------------------------------------------------- *)
(* main statements                                                                            *)
(* ---------------------------------------------------------------------------------------- *)

Definition no_loopfail (evs : list (event St)) : bool :=
  forallb (fun e => match e with LoopFail _ => false | _ => true end) evs.

Lemma no_loopfail_any : forall evs c, no_loopfail evs = true ->
  forallb (fun e => negb (is_loopfail c e)) evs = true.
Proof.
  induction evs as [|e evs IH]; intros c H; cbn in *; [reflexivity|].
  apply andb_true_iff in H. destruct H as (He & Hr). rewrite (IH c Hr), andb_true_r.
  destruct e; cbn; auto. discriminate.
Qed.

Lemma clean_all_no_cancelled : forall (st : sys),
  (forall c, Clean c st) -> forall f, In f (s_log st) -> f_cancelled f = false.
Proof.
  intros st HC f Hf. destruct (f_cancelled f) eqn:Hc; [|reflexivity]. exfalso.
  destruct (HC 0) as (_ & HL). destruct (HL f Hf Hc) as (t & Ht & _).
  destruct (HC (t_conn t)) as (_ & HL'). destruct (HL' f Hf Hc) as (t' & Ht' & Hn).
  rewrite Ht in Ht'. injection Ht' as <-. apply Hn. reflexivity.
Qed.

Lemma serialisable_inv : forall s0 progs evs,
  let st := run evs (init s0 progs) in
  s_committed st = replay s0 (s_log st) /\ log_ok s0 (s_log st) /\
  (forall o, s_open st = Some o ->
     o_seen o = s_committed st /\ apply_all (o_done o) (o_seen o) = Some (o_work o)).
Proof.
  intros s0 progs evs st. destruct (run_inv s0 evs _ (inv_init s0 progs)) as (A & B & C).
  split; [exact A|split; [exact B|]]. intros o Ho. unfold open_ok in C. fold st in C. rewrite Ho in C.
  destruct C as (C1 & C2 & _). auto.
Qed.

Lemma serialisable_serial : forall s0 progs evs,
  no_loopfail evs = true ->
  let st := run evs (init s0 progs) in s_committed st = serial s0 (s_log st).
Proof.
  intros s0 progs evs Hn st. destruct (run_inv s0 evs _ (inv_init s0 progs)) as (A & B & _).
  fold st in A, B. rewrite A. apply replay_serial; [exact B|].
  apply clean_all_no_cancelled. intros c. apply run_clean; [apply no_loopfail_any; exact Hn|apply clean_init].
Qed.

Lemma closed_step : forall (st : sys) e c,
  is_closed (step st e) c = false -> is_closed st c = false /\ is_loopfail c e = false.
Proof.
  intros st e c H.
  assert (Hrun : forall i, s_closed (step_run st i) = s_closed st).
  { intros i. unfold step_run. destruct (nth_error _ _) as [x|]; [|reflexivity].
    destruct (t_end x); [reflexivity|]. destruct (s_open st) as [o|].
    - destruct (o_task o =? i).
      + destruct (o_rest o) as [|[m|] r].
        * unfold close_txn. destruct (aexit _ _ _ _). reflexivity.
        * destruct (m (o_work o)); [reflexivity|]. unfold close_txn. destruct (aexit _ _ _ _). reflexivity.
        * destruct (t_cancel x); [|reflexivity]. unfold close_txn. destruct (aexit _ _ _ _). reflexivity.
      + destruct (t_todo x); [reflexivity|]. destruct (t_cancel x); reflexivity.
    - destruct (t_todo x); [reflexivity|]. destruct (t_cancel x); reflexivity. }
  destruct e as [i|c' p|c'|c'|c']; cbn [step] in H; cbn [is_loopfail].
  - unfold is_closed in *. rewrite Hrun in H. auto.
  - destruct (is_closed st c') eqn:E; [auto|]. unfold is_closed in *. cbn in H. auto.
  - unfold is_closed in *. cbn in H. apply orb_false_iff in H. destruct H; auto.
  - unfold is_closed in *. cbn in H. apply orb_false_iff in H. destruct H; auto.
  - unfold is_closed in *. cbn in H. apply orb_false_iff in H. destruct H as (H1 & H2).
    split; auto. rewrite Nat.eqb_sym. exact H1.
Qed.

Lemma closed_run : forall evs (st : sys) c,
  is_closed (run evs st) c = false -> forallb (fun e => negb (is_loopfail c e)) evs = true.
Proof.
  intros evs. induction evs as [|e evs IH] using rev_ind; intros st c H; [reflexivity|].
  unfold run in H. rewrite fold_left_app in H. cbn in H. apply closed_step in H. destruct H as (H1 & H2).
  rewrite forallb_app. cbn. rewrite H2. cbn. rewrite andb_true_r. eapply IH. exact H1.
Qed.

Lemma received_applied : forall s0 progs evs1 c p evs2,
  let st1 := run evs1 (init s0 progs) in
  is_closed st1 c = false ->
  forallb (fun e => negb (is_loopfail c e)) evs2 = true ->
  let i := length (s_tasks st1) in
  let st2 := run evs2 (step st1 (Recv c p)) in
  let st3 := drain (work_left st2) st2 in
  (exists t, nth_error (s_tasks st2) i = Some t /\ t_conn t = c /\
             t_cancel t = false /\ t_end t <> Some EndCancel) /\
  all_done st3 = true /\ Inv s0 st3 /\
  (exists t3, nth_error (s_tasks st3) i = Some t3 /\
              ((t_end t3 = Some EndDone /\ t_todo t3 = []) \/ t_end t3 = Some EndRaise)).
Proof.
  intros s0 progs evs1 c p evs2 st1 Hopen Hnf i st2 st3.
  assert (HI1 : Inv s0 st1) by (apply run_inv; apply inv_init).
  assert (HC1 : Clean c st1) by (apply run_clean; [eapply closed_run; exact Hopen|apply clean_init]).
  assert (HD1 : done_ok st1) by (apply run_done_ok; apply done_ok_init).
  set (st1' := step st1 (Recv c p)).
  assert (Hnew : nth_error (s_tasks st1') i = Some {| t_conn := c; t_todo := p; t_cancel := false; t_end := None |}).
  { unfold st1'. cbn [step]. rewrite Hopen. cbn. unfold i. rewrite nth_error_app2, Nat.sub_diag; auto. }
  assert (HC1' : Clean c st1') by (apply step_clean; auto).
  assert (HI2 : Inv s0 st2) by (apply run_inv; apply step_inv; exact HI1).
  assert (HC2 : Clean c st2) by (apply run_clean; auto).
  assert (HD2 : done_ok st2) by (apply run_done_ok; apply step_done_ok; exact HD1).
  destruct (run_task_persist evs2 st1' i _ Hnew) as (t2 & Ht2 & Hc2). cbn in Hc2.
  split.
  { exists t2. split; [exact Ht2|]. split; [exact Hc2|]. destruct HC2 as (HT & _).
    apply HT; auto. eapply nth_error_In; eauto. }
  unfold st3. rewrite drain_is_run.
  assert (HI3 : Inv s0 (run (drain_events (work_left st2) st2) st2)) by (apply run_inv; exact HI2).
  assert (HA : all_done (run (drain_events (work_left st2) st2) st2) = true)
    by (rewrite <- drain_is_run; eapply drain_all_done; eauto).
  split; [exact HA|]. split; [exact HI3|].
  destruct (run_task_persist (drain_events (work_left st2) st2) st2 i _ Ht2) as (t3 & Ht3 & Hc3).
  exists t3. split; [exact Ht3|].
  assert (HC3 : Clean c (run (drain_events (work_left st2) st2) st2))
    by (apply run_clean; [apply drain_events_runs_only|exact HC2]).
  assert (HD3 : done_ok (run (drain_events (work_left st2) st2) st2)) by (apply run_done_ok; exact HD2).
  pose proof (all_done_nth _ _ _ HA Ht3) as Hne.
  destruct HC3 as (HT & _). destruct (HT t3 (nth_error_In _ _ Ht3)) as (_ & Hnc); [congruence|].
  destruct (t_end t3) as [[| |]|] eqn:He; try congruence.
  - left. split; auto. apply HD3; auto. eapply nth_error_In; eauto.
  - right. reflexivity.
Qed.

End Proofs.

(* ---------------------------------------------------------------------------------------- *)
(* structure of the handlers (finite sweep over gen.GenStructure)                             *)
(* ---------------------------------------------------------------------------------------- *)

From Coq Require Import String.
Open Scope string_scope.

Lemma handlers_ok_all : forallb handler_ok handlers = true.
Proof. vm_compute. reflexivity. Qed.

Lemma shapes_ok_all : forallb shape_ok handlers = true.
Proof. vm_compute. reflexivity. Qed.

Lemma mutating_names_expected : mutating_names = expected_mutating.
Proof. vm_compute. reflexivity. Qed.

Lemma handler_structure : forall h, In h handlers ->
  (forall it, In it (outside h) -> is_mut it = false) /\
  List.length (filter (existsb is_mut) (blocks h)) <= 1 /\
  (forall b, In b (blocks h) -> forall it, In it b ->
     await_allowed it = true /\ is_septxn it = false /\ is_helper it = false) /\
  (forall it, In it (all_items h) -> helper_ok it = true) /\
  shape_ok h = true.
Proof.
  intros h Hh.
  pose proof handlers_ok_all as H1. rewrite forallb_forall in H1. specialize (H1 h Hh).
  pose proof shapes_ok_all as H2. rewrite forallb_forall in H2. specialize (H2 h Hh).
  unfold handler_ok in H1. repeat rewrite andb_true_iff in H1. destruct H1 as (((A & B) & C) & D).
  split; [|split; [|split; [|split]]].
  - intros it Hit. rewrite forallb_forall in A. specialize (A it Hit). destruct (is_mut it); auto; discriminate.
  - apply Nat.leb_le. exact B.
  - intros b Hb it Hit. rewrite forallb_forall in C. specialize (C b Hb). unfold block_ok in C.
    repeat rewrite andb_true_iff in C. destruct C as ((C1 & C2) & C3).
    rewrite forallb_forall in C1, C2, C3. specialize (C1 it Hit). specialize (C2 it Hit). specialize (C3 it Hit).
    destruct (is_septxn it), (is_helper it); auto; discriminate.
  - intros it Hit. rewrite forallb_forall in D. auto.
  - exact H2.
Qed.

Lemma amend_two_blocks :
  exists h b1 mid b2 post,
    find_handler "amend_step" = Some h /\
    h_segs h = [SBlock b1; SOut mid; SBlock b2; SOut post] /\
    existsb is_mut b1 = true /\
    forallb (fun it => negb (is_mut it)) (mid ++ b2 ++ post) = true /\
    existsb is_septxn mid = true /\
    forallb (fun it => negb (is_await it)) (b1 ++ b2) = true.
Proof.
  vm_compute. do 5 eexists. repeat split; reflexivity.
Qed.
