(* C04: the cone invariant of proofs/NoopCone2.v over the transactions SINCE /repo 84081f2
   (model/Noop.v: apply_op2 = Graph.step_op + the deferred-column layer of model/GraphExt.v).
   The frame FR of a transaction does not read the deferred column, so FR D s s' carries over to any
   state with the same erasure as s' (proofs/NoopDefer.v: er); the validation transaction is
   set_sstate with another flag, for which the frame lemma is generic. *)
From Coq Require Import List NArith Bool Lia PeanoNat.
From SV Require Import lib.Bytes lib.Closure model.Graph model.GraphInv model.GraphDump model.Noop
  proofs.GraphBase proofs.GraphFrames proofs.NoopProofs proofs.NoopBridge proofs.NoopCone2 proofs.NoopDefer.
From SV Require model.GraphExt.
Import ListNotations.
Open Scope N_scope.

Lemma er_nodes a b : er a = er b -> nodes a = nodes b.
Proof. intros H. exact (f_equal nodes H). Qed.
Lemma er_files a b : er a = er b -> files a = files b.
Proof. intros H. exact (f_equal files H). Qed.
Lemma er_deps a b : er a = er b -> deps a = deps b.
Proof. intros H. exact (f_equal deps H). Qed.
Lemma er_sstate_of a b l : er a = er b -> sstate_of l a = sstate_of l b.
Proof. intros H. rewrite <- (sstate_of_er l a), <- (sstate_of_er l b), H. reflexivity. Qed.

Lemma FR_same_erasure D s s' t : er t = er s' -> FR D s s' -> FR D s t.
Proof.
  intros He F. pose proof (er_nodes _ _ He) as Hn. pose proof (er_files _ _ He) as Hf. pose proof (er_deps _ _ He) as Hd.
  assert (Hatt : forall k, attached k t = attached k s') by (intros k; unfold attached, is_detached, find_node; rewrite Hn; reflexivity).
  constructor.
  - intros k H. rewrite Hatt in H. exact (fr_att _ _ _ F k H).
  - intros l x H. rewrite (er_sstate_of _ _ l He) in H. exact (fr_sst _ _ _ F l x H).
  - intros a b H. unfold has_dep in H. rewrite Hd in H. exact (fr_dep _ _ _ F a b H).
  - intros n' a Hin Hc. rewrite Hn in Hin. exact (fr_prod _ _ _ F n' a Hin Hc).
  - intros b. unfold creator_of, find_node. rewrite Hn. exact (fr_cre _ _ _ F b).
  - intros f H. unfold fstate_of, find_file in H. rewrite Hf in H. exact (fr_nb _ _ _ F f H).
Qed.

Lemma executed2_dispatched ops : forall s l, In l (executed2 ops s) -> In l (dispatched ops).
Proof.
  induction ops as [|o ops IH]; intros s l H; cbn [executed2] in H; [destruct H|].
  apply in_app_or in H. destruct H as [H|H].
  - destruct o; try destruct H. destruct (has_hash label s); [destruct H|]. destruct H as [<-|[]]. left. reflexivity.
  - specialize (IH _ _ H). destruct o; cbn [dispatched]; try exact IH. right. exact IH.
Qed.

Lemma rebuild_hist2_incl ops : forall h s, incl h (rebuild_hist2 h s ops).
Proof.
  induction ops as [|o ops IH]; intros h s; cbn [rebuild_hist2]; [apply incl_refl|].
  eapply incl_tran; [|apply IH]. apply incl_tl. apply incl_refl.
Qed.

Section TopX.
  Variables (q : st) (E G : list str).
  Hypothesis Hq : quiescent_success_b q = true.

  (* one covered transaction since 84081f2, as a frame relative to the cone that includes it *)
  Lemma cone_op2_FRx h' s o :
    Inv2 q E G h' s -> In (s, o) h' -> cone_op2 q E G h' s o ->
    wpg false (step_op2 o s) (FR (tcone E G h') s).
  Proof.
    intros HI' Hin Hop.
    assert (Hgen : step_op2 o s = match step_op o s with
                                  | Ok s' => Ok (GraphExt.undefer_post s s') | Usage t => Usage t
                                  | Internal t => Internal t end ->
                   wpg false (step_op2 o s) (FR (tcone E G h') s)).
    { intros Eq. rewrite Eq. pose proof (cone_op2_FR q E G Hq h' s o HI' Hin Hop) as Hw.
      destruct (step_op o s) as [s'| |]; cbn [wpg] in *; [|exact I|exact I].
      exact (FR_same_erasure _ s s' _ (er_undefer_post s s') Hw). }
    destruct o; try (apply Hgen; reflexivity).
    (* validate_dynamic_job, inputs unchanged: PENDING with the flag decided in the transaction *)
    cbn [step_op2]. apply set_sstate_FR. inversion Hop; subst.
    exact (in_flight_cone q E G Hq h' s label HI' H0).
  Qed.

  Lemma cone_op2_Inv2x h s o :
    Inv2 q E G h s -> cone_op2 q E G ((s, o) :: h) s o -> Inv2 q E G ((s, o) :: h) (apply_op2 s o).
  Proof.
    intros HI Hop.
    assert (HI' : Inv2 q E G ((s, o) :: h) s) by (apply (Inv2_mono q E G h); [apply incl_tl; apply incl_refl | exact HI]).
    pose proof (cone_op2_FRx ((s, o) :: h) s o HI' (or_introl eq_refl) Hop) as Hw.
    unfold apply_op2. destruct (step_op2 o s) as [s'| |]; try exact HI'. cbn [wpg] in Hw.
    constructor.
    - intros l x H. destruct (fr_sst _ _ _ Hw l x H) as [H0|H0]; [exact (i2_sst _ _ _ _ _ HI' l x H0) | right; exact H0].
    - intros k H. destruct (fr_att _ _ _ Hw k H) as [H0|H0]; [exact (i2_att _ _ _ _ _ HI' k H0) | right; exact H0].
    - assert (G0 : Good (tcone E G ((s, o) :: h)) s)
        by (apply (Good_tcone E G _ s o); [left; reflexivity | exact (i2_nfc _ _ _ _ _ HI)]).
      exact (gd_nfc _ _ (Good_FR _ s s' G0 Hw)).
  Qed.

  Lemma cone2_runx ops : forall h s,
    Inv2 q E G h s -> cone_ops2x q E G h s ops ->
    Inv2 q E G (rebuild_hist2 h s ops) (run_ops2 ops s) /\
    (forall l, In l (dispatched ops) -> tcone E G (rebuild_hist2 h s ops) (KStep, l)).
  Proof.
    induction ops as [|o ops IH]; intros h s HI Hops; cbn [rebuild_hist2 run_ops2 fold_left dispatched].
    - split; [exact HI | intros l []].
    - destruct Hops as [Hop Hrest].
      destruct (IH _ _ (cone_op2_Inv2x h s o HI Hop) Hrest) as [HI' Hd]. split; [exact HI'|].
      intros l Hl.
      assert (Hd' : forall l0, In l0 (dispatched ops) ->
                               tcone E G (rebuild_hist2 ((s, o) :: h) (apply_op2 s o) ops) (KStep, l0)) by exact Hd.
      destruct o; try (apply Hd'; exact Hl). destruct Hl as [<-|Hl]; [|apply Hd'; exact Hl].
      apply (tcone_mono E G ((s, OpDispatch label) :: h)); [apply rebuild_hist2_incl|].
      inversion Hop as [| | | |l0 Hg Hid| | | | | | | | |]; subst.
      apply (dispatch_in_cone q E G _ s label); [|exact Hg | exact Hid].
      apply (Inv2_mono q E G h); [apply incl_tl; apply incl_refl | exact HI].
  Qed.
End TopX.

Theorem cone_invariant_partial2x (q : st) (E G : list str) (ops : list op) :
  quiescent_success_b q = true -> inv_core_b q = true ->
  cone_ops2x q E G [] q ops ->
  let s := run_ops2 ops q in
  let h := rebuild_hist2 [] q ops in
  (forall l x, sstate_of l s = Some x -> sstate_of l q = Some x \/ tcone E G h (KStep, l)) /\
  (forall k, attached k s = true -> attached k q = true \/ tcone E G h k) /\
  (forall l, In l (dispatched ops) -> tcone E G h (KStep, l)) /\
  (forall l, In l (executed2 ops q) -> tcone E G h (KStep, l)).
Proof.
  intros Hq HI Hops.
  destruct (cone2_runx q E G Hq ops [] q (Inv2_init q E G (inv_core_no_file_creator q HI)) Hops) as [HI2 Hd]. cbn zeta.
  split; [exact (i2_sst _ _ _ _ _ HI2)|]. split; [exact (i2_att _ _ _ _ _ HI2)|]. split; [exact Hd|].
  intros l Hl. apply Hd. exact (executed2_dispatched ops q l Hl).
Qed.

(* the executable check that the E2 correspondence evaluates on real rebuild traces is sound *)
Lemma cone_ops2_first_bad2_ok q E G ops : forall i edges h s,
  incl edges (cone_edges h) ->
  cone_ops2_first_bad2 q E G i edges s ops = None -> cone_ops2x q E G h s ops.
Proof.
  induction ops as [|o ops IH]; intros i edges h s Hi H; cbn [cone_ops2_first_bad2 cone_ops2x] in *; [exact I|].
  assert (Hi' : incl (add_edges (step_edges s o) edges) (cone_edges ((s, o) :: h))).
  { intros x Hx. apply in_add_edges in Hx. unfold cone_edges. cbn [flat_map fst snd]. apply in_or_app.
    destruct Hx as [Hx|Hx]; [left; exact Hx | right; apply Hi; exact Hx]. }
  destruct (cone_op2_why q E (tcone_keys_e E G (add_edges (step_edges s o) edges)) s o) eqn:Hw; [|discriminate H].
  split.
  - apply (cone_op2_why_ok q E G _ _ s o (tcone_keys_e_sound E G _ _ Hi') Hw).
  - exact (IH _ _ _ _ Hi' H).
Qed.

Lemma cone_ops2x_b_ok q E G ops : cone_ops2x_b q E G q ops = true -> cone_ops2x q E G [] q ops.
Proof.
  unfold cone_ops2x_b. intros H. apply (cone_ops2_first_bad2_ok q E G ops 0 []); [intros x []|].
  destruct (cone_ops2_first_bad2 q E G 0 [] q ops); [discriminate | reflexivity].
Qed.
