(* C02: confluence of whole builds at transaction granularity (definitions in model/CommuteBuild.v).

   1. accepted_swaps_sound (generic): from RESULT congruence and the pair statement in the shape in
      which the pair theorems of CommuteProofs.v / CommuteDefine.v are proved ("accepted in both
      orders => equivalent graphs"), with a STATE-DEPENDENT boolean guard: if every reordering of a
      build is accepted and guarded, all reorderings end in equivalent states.  (Clause 1 of C02:
      "the graph after a successful build is identical", separated from clause 2 "whether it
      succeeds does not depend on scheduling".)
   2. guarded_swaps_sound (generic): the full lifting -- acceptance and graph -- from congruence and
      the forward diamond on guarded accepted pairs: if ONE schedule is accepted and guarded, every
      reordering is accepted, guarded and ends in an equivalent state.
   3. The instantiation of 1 with the fragment decl_guard (static declarations and define_step of
      new steps by attached steps, overlapping paths allowed), invariant inv_core_b (preserved by
      every operation, C09), and its corollary for builds of the abstract scheduler.
   4. The hazard classes separate the refutation witnesses. *)
From Coq Require Import List NArith Bool Lia.
From SV Require Import lib.Bytes model.Graph model.GraphDump model.GraphInv model.Commute model.Dispatch
                       model.CommuteBuild proofs.CommuteProofs proofs.CommuteDefine proofs.CommuteSched
                       proofs.GraphProofs.
Import ListNotations.
Open Scope N_scope.

(* ------------------------------------------------------------------------------------------ *)
(* 0. guarded / fine runs                                                                       *)
(* ------------------------------------------------------------------------------------------ *)
Lemma guarded_app G l1 l2 s : guarded G (l1 ++ l2) s = guarded G l1 s && guarded G l2 (run_ops l1 s).
Proof.
  revert s. induction l1 as [|o l1 IH]; intros s; cbn; [reflexivity|].
  rewrite IH, andb_assoc. reflexivity.
Qed.

Lemma fine_cons G o l s :
  fine G (o :: l) s = true <-> okb o s = true /\ G o s = true /\ fine G l (apply_op s o) = true.
Proof.
  unfold fine. cbn [all_ok guarded]. rewrite !andb_true_iff. tauto.
Qed.

Lemma fine_app G l1 l2 s :
  fine G (l1 ++ l2) s = true <-> fine G l1 s = true /\ fine G l2 (run_ops l1 s) = true.
Proof.
  unfold fine. rewrite all_ok_app, guarded_app, !andb_true_iff. tauto.
Qed.

Lemma fine_nil G s : fine G [] s = true.
Proof. reflexivity. Qed.

Lemma accepted2_true a b s : accepted2 a b s = true <-> okb a s = true /\ okb b (apply_op s a) = true.
Proof. unfold accepted2. apply andb_true_iff. Qed.

(* a set of runs that is closed under adjacent swaps contains everything reachable by swaps *)
Lemma swaps_closed (R : op -> op -> Prop) (S : list op -> Prop) :
  (forall pre a b post, S (pre ++ a :: b :: post) -> R a b -> S (pre ++ b :: a :: post)) ->
  forall l1 l2, swaps R l1 l2 -> S l1 -> S l2.
Proof.
  intros HC. induction 1 as [l|pre a b post Rab|l1 l2 l3 _ IH1 _ IH2]; intros HS.
  - exact HS.
  - eapply HC; eassumption.
  - auto.
Qed.

(* ------------------------------------------------------------------------------------------ *)
(* 1. every reordering accepted and guarded  =>  every reordering ends in the same graph       *)
(* ------------------------------------------------------------------------------------------ *)
Section AcceptedSwaps.
  Variable E : st -> st -> Prop.
  Variable P : st -> Prop.
  Variable R : op -> op -> Prop.
  Variable G : op -> st -> bool.
  Hypothesis E_refl : forall s, E s s.
  Hypothesis E_trans : forall a b c, E a b -> E b c -> E a c.
  Hypothesis P_step : forall o s, P s -> P (apply_op s o).
  (* result congruence: an accepted guarded transaction maps equivalent states to equivalent states *)
  Hypothesis res_cong : forall o s s', P s -> P s' -> E s s' ->
      G o s = true -> G o s' = true -> okb o s = true -> okb o s' = true ->
      E (apply_op s o) (apply_op s' o).
  (* the pair statement as the pair theorems have it: accepted (and guarded) in both orders *)
  Hypothesis pair : forall a b s, R a b -> P s ->
      G a s = true -> G b (apply_op s a) = true -> G b s = true -> G a (apply_op s b) = true ->
      accepted2 a b s = true -> accepted2 b a s = true ->
      E (apply_op (apply_op s a) b) (apply_op (apply_op s b) a).

  Lemma P_run_any ops : forall s, P s -> P (run_ops ops s).
  Proof. induction ops as [|o ops IH]; intros s Ps; cbn; [exact Ps | apply IH, P_step, Ps]. Qed.

  Lemma run_res_cong ops : forall s s', P s -> P s' -> E s s' ->
      fine G ops s = true -> fine G ops s' = true -> E (run_ops ops s) (run_ops ops s').
  Proof.
    induction ops as [|o ops IH]; intros s s' Ps Ps' He F F'; cbn; [exact He|].
    apply fine_cons in F as (O & Go & F). apply fine_cons in F' as (O' & Go' & F').
    apply IH; try assumption; try (apply P_step; assumption).
    apply res_cong; assumption.
  Qed.

  Theorem accepted_swaps_sound l1 l2 s :
    swaps R l1 l2 -> P s -> (forall l, swaps R l1 l -> fine G l s = true) ->
    E (run_ops l1 s) (run_ops l2 s).
  Proof.
    intros H. revert s. induction H as [l|pre a b post Rab|l1 l2 l3 H12 IH12 H23 IH23]; intros s Ps HF.
    - apply E_refl.
    - pose proof (HF _ (sw_refl R _)) as F1.
      pose proof (HF _ (sw_swap R pre a b post Rab)) as F2.
      apply fine_app in F1 as [_ F1]. apply fine_app in F2 as [_ F2].
      rewrite !run_ops_app. set (t := run_ops pre s) in *.
      assert (Pt : P t) by (apply P_run_any; exact Ps).
      apply fine_cons in F1 as (Oa & Ga & F1). apply fine_cons in F1 as (Ob & Gb & F1).
      apply fine_cons in F2 as (Ob' & Gb' & F2). apply fine_cons in F2 as (Oa' & Ga' & F2).
      change (run_ops (a :: b :: post) t) with (run_ops post (apply_op (apply_op t a) b)).
      change (run_ops (b :: a :: post) t) with (run_ops post (apply_op (apply_op t b) a)).
      apply run_res_cong; try assumption; try (apply P_step, P_step; exact Pt).
      apply pair; try assumption; apply accepted2_true; split; assumption.
    - eapply E_trans.
      + apply IH12; assumption.
      + apply IH23; [exact Ps|]. intros l Hl. apply HF. eapply sw_trans; eassumption.
  Qed.
End AcceptedSwaps.

(* ------------------------------------------------------------------------------------------ *)
(* 2. one accepted guarded schedule  =>  every reordering accepted, guarded, same graph        *)
(* ------------------------------------------------------------------------------------------ *)
Section GuardedSwaps.
  Variable E : st -> st -> Prop.
  Variable P : st -> Prop.
  Variable R : op -> op -> Prop.
  Variable G : op -> st -> bool.
  Hypothesis E_refl : forall s, E s s.
  Hypothesis E_trans : forall a b c, E a b -> E b c -> E a c.
  Hypothesis P_step : forall o s, P s -> P (apply_op s o).
  (* congruence: an accepted guarded transaction is accepted and guarded in every equivalent state *)
  Hypothesis cong : forall o s s', P s -> P s' -> E s s' -> G o s = true -> okb o s = true ->
      G o s' = true /\ okb o s' = true /\ E (apply_op s o) (apply_op s' o).
  (* forward diamond: if a then b is accepted and guarded, so is b then a, with an equivalent result *)
  Hypothesis diamond : forall a b s, R a b -> P s ->
      G a s = true -> okb a s = true -> G b (apply_op s a) = true -> okb b (apply_op s a) = true ->
      G b s = true /\ okb b s = true /\ G a (apply_op s b) = true /\ okb a (apply_op s b) = true /\
      E (apply_op (apply_op s a) b) (apply_op (apply_op s b) a).

  Lemma run_cong_guarded ops : forall s s', P s -> P s' -> E s s' -> fine G ops s = true ->
      fine G ops s' = true /\ E (run_ops ops s) (run_ops ops s').
  Proof.
    induction ops as [|o ops IH]; intros s s' Ps Ps' He F; cbn [run_ops fold_left].
    - split; [reflexivity | exact He].
    - apply fine_cons in F as (O & Go & F).
      destruct (cong o s s' Ps Ps' He Go O) as (Go' & O' & He').
      destruct (IH _ _ (P_step o s Ps) (P_step o s' Ps') He' F) as [F' He''].
      split; [|exact He'']. apply fine_cons. auto.
  Qed.

  Theorem guarded_swaps_sound l1 l2 :
    swaps R l1 l2 -> forall s, P s -> fine G l1 s = true ->
    fine G l2 s = true /\ E (run_ops l1 s) (run_ops l2 s).
  Proof.
    induction 1 as [l|pre a b post Rab|l1 l2 l3 H12 IH12 H23 IH23]; intros s Ps F.
    - split; [exact F | apply E_refl].
    - apply fine_app in F as [Fpre F]. rewrite !run_ops_app. set (t := run_ops pre s) in *.
      assert (Pt : P t) by (apply (P_run_any P P_step); exact Ps).
      apply fine_cons in F as (Oa & Ga & F). apply fine_cons in F as (Ob & Gb & F).
      destruct (diamond a b t Rab Pt Ga Oa Gb Ob) as (Gb' & Ob' & Ga' & Oa' & He).
      destruct (run_cong_guarded post _ _ (P_step b _ (P_step a _ Pt)) (P_step a _ (P_step b _ Pt)) He F)
        as [F' He'].
      split; [|exact He'].
      apply fine_app. split; [exact Fpre|]. fold t. apply fine_cons. repeat split; try assumption.
      apply fine_cons. repeat split; assumption.
    - destruct (IH12 s Ps F) as [F2 E12]. destruct (IH23 s Ps F2) as [F3 E23].
      split; [exact F3 | eapply E_trans; eassumption].
  Qed.
End GuardedSwaps.

(* ------------------------------------------------------------------------------------------ *)
(* 3. the fragment decl_guard                                                                  *)
(* ------------------------------------------------------------------------------------------ *)
Lemma core_parts s : inv_core_b s = true -> Pst s /\ deps_closed s /\ vol_nohash s.
Proof.
  unfold inv_core_b. intros H.
  repeat (match type of H with (andb _ _ = true) => apply andb_true_iff in H as [H ?] end).
  split; [apply inv_parts_Pst; assumption|].
  split; [apply inv_deps_closed; assumption | apply inv_fhash_vol_nohash; assumption].
Qed.

Lemma disjoint_strs_disj A B : disjoint_strs A B = true -> disj A B.
Proof.
  unfold disjoint_strs, disj. intros H l Hl. rewrite forallb_forall in H.
  apply mem_str_In in Hl. apply negb_true_iff. apply H. exact Hl.
Qed.

Lemma not_built_b_sound s l : not_built_b s l = true -> not_built s l.
Proof.
  unfold not_built_b, not_built. destruct (file_view l s) as [[[] h]|]; cbn; congruence.
Qed.

Lemma fresh_define_b_sound L inp out vol s :
  fresh_define_b L inp out vol s = true -> fresh_define L inp out vol s.
Proof.
  unfold fresh_define_b. intros H.
  repeat (match type of H with (andb _ _ = true) => apply andb_true_iff in H as [H ?] end).
  constructor.
  - apply negb_true_iff in H. destruct (find_node (KStep, L) s); [discriminate | reflexivity].
  - assumption.
  - apply (nodup_by_NoDup str_eqb str_eqb_eq); assumption.
  - apply (nodup_by_NoDup str_eqb str_eqb_eq); assumption.
  - apply (nodup_by_NoDup str_eqb str_eqb_eq); assumption.
  - apply disjoint_strs_disj; assumption.
  - apply disjoint_strs_disj; assumption.
  - apply disjoint_strs_disj; assumption.
  - intros l Hl Hr.
    match goal with Hf : forallb (fun _ => negb _ || _) inp = true |- _ =>
      rewrite forallb_forall in Hf; specialize (Hf l Hl) end.
    change (orphan_or_absent s l) with (recreated s l) in *. rewrite Hr in *. cbn in *.
    apply not_built_b_sound. assumption.
  - intros l Hl.
    match goal with Hf : forallb (not_built_b s) out = true |- _ =>
      rewrite forallb_forall in Hf; specialize (Hf l Hl) end.
    apply not_built_b_sound. assumption.
Qed.

Lemma step_kind_KStep c : step_kind c = true -> fst c = KStep.
Proof. unfold step_kind. destruct c as [[] x]; cbn; congruence. Qed.
Lemma step_kind_not_file c : step_kind c = true -> not_file c.
Proof. intros H. unfold not_file. rewrite (step_kind_KStep c H). discriminate. Qed.

(* result congruence of define_step for a new label: the look-up characterisation is a function of
   the look-ups of the state it meets *)
Lemma define_cong c L inp env out vol nd s t s' t' :
  st_equiv s t -> define_spec c L inp env out vol nd s s' -> define_spec c L inp env out vol nd t t' ->
  st_equiv s' t'.
Proof.
  intros E [N1 F1 S1 D1 H1 V1 C1 _] [N2 F2 S2 D2 H2 V2 C2 _].
  pose proof (eq_node _ _ E) as En. pose proof (eq_file _ _ E) as Ef. pose proof (eq_step _ _ E) as Es.
  pose proof (eq_dep _ _ E) as Ed. pose proof (eq_hash _ _ E) as Eh. pose proof (eq_env _ _ E) as Ee.
  pose proof (eq_cap _ _ E) as Ec.
  assert (Hdet : forall k, is_detached k s = is_detached k t) by (intros k; rewrite !is_detached_view, En; reflexivity).
  assert (Hrec : filter (recreated s) inp = filter (recreated t) inp).
  { apply filter_ext. intros l. apply recreated_view. apply En. }
  assert (Hex : forall k, existsn k s = existsn k t) by (intros k; rewrite !existsn_view, En; reflexivity).
  assert (Hlost : forall l x, lostb s l x = lostb t l x) by (intros l x; rewrite !lostb_view, En; reflexivity).
  constructor.
  - intros k. rewrite N1, N2, Hdet, Hrec, En. reflexivity.
  - intros l. rewrite F1, F2, Hrec, Ef. reflexivity.
  - intros l. rewrite S1, S2, Es. reflexivity.
  - intros a b. rewrite D1, D2, Hrec, Hex, Ed. reflexivity.
  - intros x. rewrite H1, H2, Eh. f_equal; [f_equal|]; f_equal;
      apply existsb_ext_in; intros y _; apply Hlost.
  - intros l nm. rewrite V1, V2, Ee. reflexivity.
  - congruence.
Qed.

Lemma define_ok_spec c L inp env out vol nd s s' :
  step_op (OpDefineStep c L inp env out vol nd) s = Ok s' -> fresh_define L inp out vol s ->
  define_spec c L inp env out vol nd s s'.
Proof.
  intros H FD. cbn [step_op] in H. apply define_step_new_spec; [|exact FD].
  apply define_step_new_of_ok; [exact H | apply (fd_label _ _ _ _ _ FD)].
Qed.

Definition Pcore (s : st) : Prop := inv_core_b s = true.

Lemma Pcs_single c s : Pcore s -> step_kind c = true -> attached c s = true -> Pcs [c] s.
Proof.
  intros HP Hk Ha. split; [apply core_parts; exact HP|].
  intros c0 [<-|[]]. split; [apply step_kind_KStep; exact Hk | exact Ha].
Qed.

Lemma decl_res_cong o s s' :
  Pcore s -> Pcore s' -> st_equiv s s' ->
  decl_guard o s = true -> decl_guard o s' = true -> okb o s = true -> okb o s' = true ->
  st_equiv (apply_op s o) (apply_op s' o).
Proof.
  intros Ps Ps' E Gs Gs' O O'. destruct o; try discriminate; cbn [decl_guard] in Gs, Gs'.
  - apply andb_true_iff in Gs as [Gs ND]. apply andb_true_iff in Gs as [Hk Ha].
    apply andb_true_iff in Gs' as [Gs' _]. apply andb_true_iff in Gs' as [_ Ha'].
    apply (static_cong [creator]); try assumption.
    + split; [left; reflexivity | apply (nodup_by_NoDup str_eqb str_eqb_eq); exact ND].
    + apply Pcs_single; assumption.
    + apply Pcs_single; assumption.
  - apply andb_true_iff in Gs as [_ FD]. apply andb_true_iff in Gs' as [_ FD'].
    apply fresh_define_b_sound in FD. apply fresh_define_b_sound in FD'.
    destruct (okb_ok _ _ O) as [sa [Ra ->]]. destruct (okb_ok _ _ O') as [sa' [Ra' ->]].
    eapply define_cong; [exact E | apply define_ok_spec; eassumption | apply define_ok_spec; eassumption].
Qed.

Lemma different_issuers_neq a b ca cb :
  different_issuers a b -> issuer a = Some ca -> issuer b = Some cb -> ca <> cb.
Proof.
  unfold different_issuers. intros H Ia Ib. rewrite Ia, Ib in H. intros ->. rewrite key_eqb_refl in H. discriminate.
Qed.

Lemma decl_pair a b s :
  different_issuers a b -> Pcore s ->
  decl_guard a s = true -> decl_guard b (apply_op s a) = true ->
  decl_guard b s = true -> decl_guard a (apply_op s b) = true ->
  accepted2 a b s = true -> accepted2 b a s = true ->
  st_equiv (apply_op (apply_op s a) b) (apply_op (apply_op s b) a).
Proof.
  intros D Ps Ga Gba Gb Gab A12 A21.
  destruct (core_parts s Ps) as ([Hnfc _] & Hdc & Hvn).
  apply accepted2_true in A12 as [Oa Ob']. apply accepted2_true in A21 as [Ob Oa'].
  destruct (okb_ok _ _ Oa) as [sa [Ra Ea]]. rewrite Ea in *.
  destruct (okb_ok _ _ Ob') as [s12 [R12 ->]].
  destruct (okb_ok _ _ Ob) as [sb [Rb Eb]]. rewrite Eb in *.
  destruct (okb_ok _ _ Oa') as [s21 [R21 ->]].
  destruct a as [c1 ps1| |c1 L1 i1 e1 o1 v1 n1| | | | | | | | | | | ]; try discriminate;
  destruct b as [c2 ps2| |c2 L2 i2 e2 o2 v2 n2| | | | | | | | | | | ]; try discriminate;
    cbn [decl_guard] in Ga, Gb, Gba, Gab;
    apply andb_true_iff in Ga as [Ga Xa]; apply andb_true_iff in Ga as [Ka Aa];
    apply andb_true_iff in Gb as [Gb Xb]; apply andb_true_iff in Gb as [Kb Ab];
    pose proof (different_issuers_neq _ _ c1 c2 D eq_refl eq_refl) as Hneq.
  - eapply (static_static_commute s sa sb s12 s21 c1 c2 ps1 ps2); try eassumption;
      try (apply step_kind_not_file; assumption);
      apply (nodup_by_NoDup str_eqb str_eqb_eq); assumption.
  - apply fresh_define_b_sound in Xb.
    eapply (static_define_commute s sa sb s12 s21 c1 ps1 c2 L2 i2 e2 o2 v2 n2); try eassumption;
      try (apply step_kind_not_file; assumption).
    apply (nodup_by_NoDup str_eqb str_eqb_eq); assumption.
  - apply fresh_define_b_sound in Xa. apply st_equiv_sym.
    eapply (static_define_commute s sb sa s21 s12 c2 ps2 c1 L1 i1 e1 o1 v1 n1); try eassumption;
      try (apply step_kind_not_file; assumption).
    apply (nodup_by_NoDup str_eqb str_eqb_eq); assumption.
  - apply fresh_define_b_sound in Xa. apply fresh_define_b_sound in Xb.
    assert (HL : L1 <> L2).
    { intros ->. apply andb_true_iff in Gba as [_ Fb]. apply fresh_define_b_sound in Fb.
      pose proof (fd_label _ _ _ _ _ Fb) as Hnone.
      pose proof (define_ok_spec _ _ _ _ _ _ _ _ _ Ra Xa) as Sa.
      pose proof (df_node _ _ _ _ _ _ _ _ _ Sa (KStep, L2)) as Hv.
      rewrite key_eqb_refl in Hv. unfold node_view in Hv. rewrite Hnone in Hv. discriminate. }
    eapply (define_define_commute s sa sb s12 s21 c1 L1 i1 e1 o1 v1 n1 c2 L2 i2 e2 o2 v2 n2);
      try eassumption; try (apply step_kind_not_file; assumption).
Qed.

(* Whole runs of the fragment: if every reordering (each step's own order preserved) is accepted and
   meets fresh states, all reorderings end in graphs that agree on every look-up. *)
Theorem decl_runs_confluent l1 l2 s :
  inv_core_b s = true -> swaps different_issuers l1 l2 ->
  (forall l, swaps different_issuers l1 l -> fine decl_guard l s = true) ->
  st_equiv (run_ops l1 s) (run_ops l2 s).
Proof.
  intros Ps S HF.
  apply (accepted_swaps_sound st_equiv Pcore different_issuers decl_guard
           st_equiv_refl st_equiv_trans (fun o s0 H => inv_core_preserved s0 o H)
           decl_res_cong decl_pair l1 l2 s S Ps HF).
Qed.

(* ... stated for interleavings: same per-step sequences, nothing else assumed *)
Theorem decl_interleavings_confluent l1 l2 s :
  inv_core_b s = true -> all_issued l1 -> all_issued l2 -> same_projections l1 l2 ->
  (forall l, swaps different_issuers l1 l -> fine decl_guard l s = true) ->
  st_equiv (run_ops l1 s) (run_ops l2 s).
Proof.
  intros Ps I1 I2 SP HF. apply decl_runs_confluent; try assumption.
  apply interleavings_swaps; assumption.
Qed.

(* ... and for builds of the abstract scheduler: any two settings of job slots, resource capacity,
   eligibility and durations *)
Theorem build_graph_confluent_decls jobs s J1 cap1 elig1 tr1 J2 cap2 elig2 tr2 :
  inv_core_b s = true -> wf_jobs jobs ->
  build_trace J1 cap1 elig1 jobs tr1 -> build_trace J2 cap2 elig2 jobs tr2 ->
  (forall l, swaps different_issuers tr1 l -> fine decl_guard l s = true) ->
  st_equiv (run_ops tr1 s) (run_ops tr2 s).
Proof.
  intros Ps W B1 B2 HF. apply decl_runs_confluent; try assumption.
  eapply builds_swaps; eassumption.
Qed.

(* ------------------------------------------------------------------------------------------ *)
(* 4. the example build of model/CommuteBuild.v                                                *)
(* ------------------------------------------------------------------------------------------ *)
Lemma xb_closed pre a b post :
  In (pre ++ a :: b :: post) xb_all -> different_issuers a b -> In (pre ++ b :: a :: post) xb_all.
Proof.
  intros HI D. unfold xb_all in HI. cbn [In] in HI.
  repeat (destruct HI as [HI|HI]; [|]); try contradiction;
    repeat (destruct pre as [|? pre]; cbn [app] in HI; try discriminate HI);
    injection HI as; subst; try discriminate;
    try (exfalso; vm_compute in D; discriminate D);
    cbn [app]; unfold xb_all; cbn [In]; tauto.
Qed.

Lemma xb_all_fine :
  forallb (fun l => fine decl_guard l (run_ops xb_boot (init_st 3))) xb_all = true.
Proof. vm_compute. reflexivity. Qed.

Lemma xb_every_reordering_fine l :
  swaps different_issuers [xb_a1; xb_a2; xb_b1; xb_b2] l ->
  fine decl_guard l (run_ops xb_boot (init_st 3)) = true.
Proof.
  intros S.
  assert (HI : In l xb_all).
  { apply (swaps_closed different_issuers (fun l => In l xb_all) xb_closed _ _ S). left. reflexivity. }
  pose proof xb_all_fine as F. rewrite forallb_forall in F. apply F. exact HI.
Qed.

(* ------------------------------------------------------------------------------------------ *)
(* 5. hazard_free is weaker than the fragment fresh_req of model/Commute.v                      *)
(* ------------------------------------------------------------------------------------------ *)
Lemma supplied_in_paths o l : In l (supplied_inputs o) -> In l (op_paths o).
Proof.
  destruct o; cbn; try contradiction; intros H; apply in_or_app; left; exact H.
Qed.

Lemma existsb_false_forall {A} (p : A -> bool) l : (forall x, In x l -> p x = false) -> existsb p l = false.
Proof.
  intros H. induction l as [|x l IH]; [reflexivity|]. cbn. rewrite (H x (or_introl eq_refl)). cbn.
  apply IH. intros y Hy. apply H. right. exact Hy.
Qed.

Theorem fresh_req_hazard_free o s : fresh_req o s = true -> hazard_free o s = true.
Proof.
  unfold fresh_req. intros H. apply andb_true_iff in H as [H HI]. apply andb_true_iff in H as [HP HL].
  unfold fresh_paths in HP. rewrite forallb_forall in HP.
  assert (NS : forall l, In l (supplied_inputs o) -> stale (KFile, l) s = false).
  { intros l Hl. apply negb_true_iff. apply HP. apply supplied_in_paths. exact Hl. }
  unfold hazard_free, hazards.
  assert (H1 : hz_stale_volatile_input o s = false).
  { unfold hz_stale_volatile_input. apply existsb_false_forall. intros l Hl. unfold stale_volatile.
    rewrite (NS l Hl). reflexivity. }
  assert (H2 : hz_stale_wired_input o s = false).
  { unfold hz_stale_wired_input. apply existsb_false_forall. intros l Hl. unfold stale_wired.
    rewrite (NS l Hl). reflexivity. }
  assert (H3 : hz_recycle o s = false).
  { unfold hz_recycle. destruct o; try reflexivity. cbn [fresh_label] in HL. apply negb_true_iff in HL. exact HL. }
  assert (H4 : hz_detached_issuer o s = false).
  { unfold hz_detached_issuer. destruct (issuer o) as [c|]; [|reflexivity].
    unfold attached in HI. apply negb_true_iff in HI. exact HI. }
  rewrite H1, H2, H3, H4. reflexivity.
Qed.

(* ------------------------------------------------------------------------------------------ *)
(* 6. lifting 2 (guarded_swaps_sound) instantiated: static declarations with hazard_free as guard *)
(* ------------------------------------------------------------------------------------------ *)
(* for a static declaration the hazard classes reduce to "the issuer is detached" *)
Definition static_hz_guard (o : op) (s : st) : bool :=
  match o with
  | OpDeclareStatic c ps => step_kind c && nodup_by str_eqb ps && hazard_free o s
  | _ => false
  end.

Lemma static_hazard_free c ps s : hazard_free (OpDeclareStatic c ps) s = attached c s.
Proof.
  unfold hazard_free, hazards, hz_stale_volatile_input, hz_stale_wired_input, hz_recycle, hz_detached_issuer, attached.
  cbn. destruct (is_detached c s); reflexivity.
Qed.

Lemma attached_equiv c s s' : st_equiv s s' -> attached c s = attached c s'.
Proof. intros E. unfold attached. rewrite !is_detached_view, (eq_node _ _ E). reflexivity. Qed.

Lemma static_hz_cong o s s' :
  Pcore s -> Pcore s' -> st_equiv s s' -> static_hz_guard o s = true -> okb o s = true ->
  static_hz_guard o s' = true /\ okb o s' = true /\ st_equiv (apply_op s o) (apply_op s' o).
Proof.
  intros Ps Ps' E G O. destruct o; try discriminate. cbn [static_hz_guard] in *.
  apply andb_true_iff in G as [G Hz]. apply andb_true_iff in G as [Hk ND].
  rewrite static_hazard_free in *.
  assert (Ha' : attached creator s' = true) by (rewrite <- (attached_equiv creator s s' E); exact Hz).
  destruct (static_cong [creator] (OpDeclareStatic creator paths) s s') as [Hok He]; try assumption.
  - split; [left; reflexivity | apply (nodup_by_NoDup str_eqb str_eqb_eq); exact ND].
  - apply Pcs_single; assumption.
  - apply Pcs_single; assumption.
  - split; [rewrite Hk, ND, Ha'; reflexivity|]. split; [rewrite <- Hok; exact O | exact He].
Qed.

Lemma Pcs_pair c1 c2 s : Pcore s -> step_kind c1 = true -> step_kind c2 = true ->
  attached c1 s = true -> attached c2 s = true -> Pcs [c1; c2] s.
Proof.
  intros HP K1 K2 A1 A2. split; [apply core_parts; exact HP|].
  intros c0 [<-|[<-|[]]]; (split; [apply step_kind_KStep; assumption | assumption]).
Qed.

Lemma static_hz_diamond a b s :
  different_issuers a b -> Pcore s ->
  static_hz_guard a s = true -> okb a s = true ->
  static_hz_guard b (apply_op s a) = true -> okb b (apply_op s a) = true ->
  static_hz_guard b s = true /\ okb b s = true /\ static_hz_guard a (apply_op s b) = true /\
  okb a (apply_op s b) = true /\
  st_equiv (apply_op (apply_op s a) b) (apply_op (apply_op s b) a).
Proof.
  intros D Ps Ga Oa Gb Ob.
  destruct a as [c1 ps1| | | | | | | | | | | | | ]; try discriminate;
  destruct b as [c2 ps2| | | | | | | | | | | | | ]; try discriminate.
  cbn [static_hz_guard] in Ga, Gb. rewrite !static_hazard_free in *.
  apply andb_true_iff in Ga as [Ga A1]. apply andb_true_iff in Ga as [K1 N1].
  apply andb_true_iff in Gb as [Gb A2']. apply andb_true_iff in Gb as [K2 N2].
  pose proof (different_issuers_neq _ _ c1 c2 D eq_refl eq_refl) as Hneq.
  pose proof (nodup_by_NoDup str_eqb str_eqb_eq _ N1) as ND1.
  pose proof (nodup_by_NoDup str_eqb str_eqb_eq _ N2) as ND2.
  (* the issuer of b is attached before a's declaration as well: a static declaration does not touch
     step nodes *)
  assert (A2 : attached c2 s = true).
  { destruct (okb_ok _ _ Oa) as [sa [Ra Ea]]. rewrite Ea in A2'.
    pose proof (static_step_spec [c1] c1 ps1 s sa (Pcs_single c1 s Ps K1 A1) (or_introl eq_refl) ND1 Ra) as S.
    pose proof (sd_node _ _ _ _ S) as SN. unfold attached in *. rewrite is_detached_view, SN in A2'.
    assert (Hin : in_files c2 (filter (newb c1 s) ps1) = false).
    { pose proof (step_kind_KStep c2 K2) as Hk. destruct c2 as [[] x]; try discriminate; reflexivity. }
    rewrite Hin, <- is_detached_view in A2'. exact A2'. }
  pose proof (Pcs_pair c1 c2 s Ps K1 K2 A1 A2) as HP.
  destruct (static_diamond [c1; c2] (OpDeclareStatic c1 ps1) (OpDeclareStatic c2 ps2) s) as [Hacc Heq].
  - exact Hneq.
  - split; [left; reflexivity | exact ND1].
  - split; [right; left; reflexivity | exact ND2].
  - exact HP.
  - assert (A12 : accepted2 (OpDeclareStatic c1 ps1) (OpDeclareStatic c2 ps2) s = true)
      by (apply accepted2_true; split; assumption).
    rewrite A12 in Hacc. symmetry in Hacc. apply accepted2_true in Hacc as [Ob0 Oa'].
    pose proof (Pcs_step [c1; c2] (OpDeclareStatic c2 ps2) s
                  (conj (or_intror (or_introl eq_refl)) ND2) HP) as [_ HC].
    destruct (HC c1 (or_introl eq_refl)) as [_ A1'].
    split; [|split; [|split; [|split]]].
    + cbn [static_hz_guard]. rewrite static_hazard_free, K2, N2, A2. reflexivity.
    + exact Ob0.
    + cbn [static_hz_guard]. rewrite static_hazard_free, K1, N1, A1'. reflexivity.
    + exact Oa'.
    + apply Heq. exact A12.
Qed.

(* Both clauses for static declarations with the decidable hazard guard: if ONE schedule is accepted
   and hazard free, every reordering (each step's own order preserved) is accepted, hazard free and
   ends in a graph that agrees on every look-up. *)
Theorem static_one_schedule_suffices l1 l2 s :
  inv_core_b s = true -> swaps different_issuers l1 l2 -> fine static_hz_guard l1 s = true ->
  fine static_hz_guard l2 s = true /\ st_equiv (run_ops l1 s) (run_ops l2 s).
Proof.
  intros Ps S F.
  exact (guarded_swaps_sound st_equiv Pcore different_issuers static_hz_guard
           st_equiv_refl st_equiv_trans (fun o s0 H => inv_core_preserved s0 o H)
           static_hz_cong static_hz_diamond l1 l2 S s Ps F).
Qed.

(* ------------------------------------------------------------------------------------------ *)
(* 7. ingredients of clause 2 for define_step / amend_step: the cycle checks                    *)
(* ------------------------------------------------------------------------------------------ *)
From SV Require Import lib.Closure proofs.CommuteCycle.

(* the cycle check is monotone in the SET of dependency edges: a request whose check passes after
   another step's edges were added passes without them *)
Lemma would_cycle_mono sink srcs s s' :
  incl (dep_edges s) (dep_edges s') -> would_cycle sink srcs s = true -> would_cycle sink srcs s' = true.
Proof.
  intros HI H. apply would_cycle_spec in H as [x [Hx P]]. apply would_cycle_spec.
  exists x. split; [exact Hx | eapply path_incl; eassumption].
Qed.

Corollary cycle_check_passes_with_fewer_edges sink srcs s s' :
  incl (dep_edges s) (dep_edges s') -> would_cycle sink srcs s' = false -> would_cycle sink srcs s = false.
Proof.
  intros HI H. destruct (would_cycle sink srcs s) eqn:W; [|reflexivity].
  rewrite (would_cycle_mono _ _ _ _ HI W) in H. discriminate.
Qed.

(* in a state with the invariant no edge closes a cycle: the sink of an edge does not reach its
   source.  (The argument for the symmetric half: if b is accepted after a, the final state of
   a;b is acyclic (inv_core_b is preserved), so a's own cycle check cannot fail in the order b;a,
   whose edges are a subset of that final state's.) *)
Lemma inv_edge_no_back_path s a b :
  inv_core_b s = true -> In (a, b) (dep_edges s) -> ~ path (dep_edges s) b a.
Proof.
  unfold inv_core_b. intros H Hin P.
  repeat (match type of H with (andb _ _ = true) => apply andb_true_iff in H as [H ?] end).
  match goal with Ha : inv_acyclic_b s = true |- _ => unfold inv_acyclic_b in Ha; rewrite forallb_forall in Ha;
    rename Ha into HA end.
  unfold dep_edges in Hin. apply in_map_iff in Hin as [d [Ed Hd]]. inversion Ed; subst.
  specialize (HA d Hd). apply negb_true_iff in HA.
  apply rec_sinks_spec in P. congruence.
Qed.

Lemma would_cycle_false_in_acyclic_superstate sink src s t :
  inv_core_b t = true -> incl (dep_edges s) (dep_edges t) -> In (src, sink) (dep_edges t) ->
  would_cycle sink [src] s = false.
Proof.
  intros Ht HI He. destruct (would_cycle sink [src] s) eqn:W; [|reflexivity]. exfalso.
  apply would_cycle_spec in W as [x [[<-|[]] P]].
  eapply inv_edge_no_back_path; [exact Ht | exact He | eapply path_incl; eassumption].
Qed.
