(* C17: the batch (deleted, updated) built by Watcher.record_change and handed to
   Workflow.process_nglob_changes satisfies the hypotheses of C17_update_equals_rescan.

   Part A (all item sequences, any [rel] / [under]): last-event-wins, the two sets are disjoint,
           so the ConsistencyError branch of process_nglob_changes is unreachable from the watcher.
   Part B (file-system trace semantics): the folded sets satisfy the three list hypotheses of
           update_equals_rescan as far as accepted paths are concerned, which is all that extend /
           reduce look at; composed theorem [watch_batch_update_equals_rescan].
   Part C startup.rescan_nglobs persists a fresh scan, and it does so exactly when the dictionary
           differs.
   Part D the interesting shapes as computed Examples with the matcher of "sub/${*x}". *)
From Coq Require Import List NArith Bool Arith Lia.
From SV Require Import lib.Bytes.
From SV Require Import lib.Regex.
From SV Require Import model.Nglob.
From SV Require Import model.NglobBatch.
From SV Require Import proofs.NglobProofs.
Import ListNotations.
Open Scope N_scope.

Lemma str_eqb_sym a b : str_eqb a b = str_eqb b a.
Proof.
  destruct (str_eqb a b) eqn:E1, (str_eqb b a) eqn:E2; try reflexivity.
  - apply str_eqb_eq in E1. subst. rewrite str_eqb_refl in E2. discriminate.
  - apply str_eqb_eq in E2. subst. rewrite str_eqb_refl in E1. discriminate.
Qed.

Lemma str_eqb_neq a b : str_eqb a b = false <-> a <> b.
Proof.
  rewrite <- str_eqb_eq. destruct (str_eqb a b); split; intros H; congruence.
Qed.

Lemma overlap_false a b : overlap a b = false <-> (forall p, In p a -> ~ In p b).
Proof.
  unfold overlap. split.
  - intros H p Ha Hb. assert (E : existsb (fun q => mem_str q b) a = true).
    { apply existsb_exists. exists p. split; [exact Ha|apply mem_str_In; exact Hb]. }
    congruence.
  - intros H. destruct (existsb (fun q => mem_str q b) a) eqn:E; [|reflexivity].
    apply existsb_exists in E as [p [Ha Hb]]. apply mem_str_In in Hb. exfalso. exact (H p Ha Hb).
Qed.

(* ------------------------------------------------------------------------------------------ *)
(* Part A: the fold                                                                            *)
(* ------------------------------------------------------------------------------------------ *)

Section Fold.
  Variable rel : bool -> str -> bool.
  Variable under : bool -> str -> list str.

  Notation record_change := (record_change rel under).
  Notation fold_changes := (fold_changes rel under).
  Notation effect := (effect rel under).
  Notation last_effect := (last_effect rel under).

  (* the two sets are described by a function path -> last recorded meaning *)
  Definition char (st : wstate) (e : str -> option bool) : Prop :=
    forall p, (In p (ws_deleted st) <-> e p = Some false) /\ (In p (ws_updated st) <-> e p = Some true).

  Definition override (q : str) (b : bool) (e : str -> option bool) : str -> option bool :=
    fun p => if str_eqb q p then Some b else e p.

  Lemma char_empty : char ws_empty (fun _ => None).
  Proof. intros p. cbn. split; split; intros H; try contradiction; discriminate. Qed.

  Lemma char_ext st e e' : char st e -> (forall p, e p = e' p) -> char st e'.
  Proof. intros H He p. rewrite <- (He p). apply H. Qed.

  Lemma del_one_char st e q : char st e -> char (del_one st q) (override q false e).
  Proof.
    intros H p. unfold del_one, override. cbn [ws_deleted ws_updated].
    rewrite set_add_In, set_discard_In. destruct (H p) as [H1 H2].
    destruct (str_eqb q p) eqn:E.
    - apply str_eqb_eq in E. subst p. split; split; intros Hx.
      + reflexivity.
      + right. reflexivity.
      + destruct Hx as [_ Hne]. congruence.
      + discriminate.
    - apply str_eqb_neq in E. rewrite <- H1, <- H2. split; split; intros Hx.
      + destruct Hx as [Hx|Hx]; [exact Hx|congruence].
      + left. exact Hx.
      + destruct Hx as [Hx _]. exact Hx.
      + split; [exact Hx|congruence].
  Qed.

  Lemma upd_one_char st e q : char st e -> char (upd_one st q) (override q true e).
  Proof.
    intros H p. unfold upd_one, override. cbn [ws_deleted ws_updated].
    rewrite set_add_In, set_discard_In. destruct (H p) as [H1 H2].
    destruct (str_eqb q p) eqn:E.
    - apply str_eqb_eq in E. subst p. split; split; intros Hx.
      + destruct Hx as [_ Hne]. congruence.
      + discriminate.
      + reflexivity.
      + right. reflexivity.
    - apply str_eqb_neq in E. rewrite <- H1, <- H2. split; split; intros Hx.
      + destruct Hx as [Hx _]. exact Hx.
      + split; [exact Hx|congruence].
      + destruct Hx as [Hx|Hx]; [exact Hx|congruence].
      + left. exact Hx.
  Qed.

  (* a path that is already in one set is not in the other: re-recording it is a no-op *)
  Lemma char_already st e q b :
    char st e -> e q = Some b -> char st (override q b e).
  Proof.
    intros H Hq p. unfold override. destruct (str_eqb q p) eqn:E; [|apply H].
    apply str_eqb_eq in E. subst p. rewrite <- Hq. apply H.
  Qed.

  Lemma del_guarded_char st e q : char st e -> char (del_guarded st q) (override q false e).
  Proof.
    intros H. unfold del_guarded. destruct (mem_str q (ws_deleted st)) eqn:E; cbn [negb].
    - apply char_already; [exact H|]. apply mem_str_In in E. apply H. exact E.
    - apply del_one_char. exact H.
  Qed.

  Lemma fold_del_guarded_char l : forall st e, char st e ->
    char (fold_left del_guarded l st) (fun p => if mem_str p l then Some false else e p).
  Proof.
    induction l as [|a l IH]; intros st e H; cbn [fold_left].
    - exact H.
    - eapply char_ext; [apply IH; apply del_guarded_char; exact H|].
      intros p. unfold override, mem_str. cbn [existsb]. fold (mem_str p l).
      rewrite (str_eqb_sym p a). destruct (mem_str p l); [rewrite orb_true_r; reflexivity|].
      rewrite orb_false_r. reflexivity.
  Qed.

  Definition step_effect (it : item) (e : str -> option bool) : str -> option bool :=
    fun p => match effect it p with Some b => Some b | None => e p end.

  Lemma record_change_char db st e ev :
    char st e -> char (record_change db st ev) (step_effect (db, ev) e).
  Proof.
    intros H. unfold step_effect, NglobBatch.effect. cbn [fst snd].
    destruct ev as [q|q|d]; cbn [NglobBatch.record_change].
    - destruct (mem_str q (ws_deleted st)) eqn:Em; cbn [negb].
      + apply mem_str_In in Em. apply H in Em.
        eapply char_ext; [apply (char_already st e q false H Em)|].
        intros p. unfold override. destruct (str_eqb q p) eqn:Eq; cbn [andb]; [|reflexivity].
        apply str_eqb_eq in Eq. subst p. destruct (rel db q); [reflexivity|symmetry; exact Em].
      + destruct (rel db q) eqn:Er.
        * eapply char_ext; [apply del_one_char; exact H|].
          intros p. unfold override. destruct (str_eqb q p) eqn:Eq; cbn [andb]; [|reflexivity].
          apply str_eqb_eq in Eq. subst p. rewrite Er. reflexivity.
        * eapply char_ext; [exact H|].
          intros p. destruct (str_eqb q p) eqn:Eq; cbn [andb]; [|reflexivity].
          apply str_eqb_eq in Eq. subst p. rewrite Er. reflexivity.
    - destruct (mem_str q (ws_updated st)) eqn:Em; cbn [negb].
      + apply mem_str_In in Em. apply H in Em.
        eapply char_ext; [apply (char_already st e q true H Em)|].
        intros p. unfold override. destruct (str_eqb q p) eqn:Eq; cbn [andb]; [|reflexivity].
        apply str_eqb_eq in Eq. subst p. destruct (rel db q); [reflexivity|symmetry; exact Em].
      + destruct (rel db q) eqn:Er.
        * eapply char_ext; [apply upd_one_char; exact H|].
          intros p. unfold override. destruct (str_eqb q p) eqn:Eq; cbn [andb]; [|reflexivity].
          apply str_eqb_eq in Eq. subst p. rewrite Er. reflexivity.
        * eapply char_ext; [exact H|].
          intros p. destruct (str_eqb q p) eqn:Eq; cbn [andb]; [|reflexivity].
          apply str_eqb_eq in Eq. subst p. rewrite Er. reflexivity.
    - eapply char_ext; [apply fold_del_guarded_char; exact H|].
      intros p. cbv beta. destruct (mem_str p (under db d)); reflexivity.
  Qed.

  Definition run_effect (items : list item) (e : str -> option bool) : str -> option bool :=
    fun p => fold_left (fun acc it => match effect it p with Some b => Some b | None => acc end) items (e p).

  Lemma fold_changes_char items : forall st e, char st e -> char (fold_changes items st) (run_effect items e).
  Proof.
    induction items as [|[db ev] items IH]; intros st e H.
    - exact H.
    - unfold NglobBatch.fold_changes. cbn [fold_left]. unfold record_item at 2. cbn [fst snd].
      apply (IH _ (step_effect (db, ev) e)). apply record_change_char. exact H.
  Qed.

  (* (a) For EVERY item sequence, folded from the empty sets: a path is in `deleted` iff the last
     item that meant something for it was a deletion, in `updated` iff it was an update; the two
     sets are disjoint, i.e. `deleted & updated` is empty. *)
  Theorem fold_last_event_wins : forall items,
    let st := fold_changes items ws_empty in
    (forall p, In p (ws_deleted st) <-> last_effect items p = Some false)
    /\ (forall p, In p (ws_updated st) <-> last_effect items p = Some true)
    /\ (forall p, In p (ws_deleted st) -> ~ In p (ws_updated st))
    /\ overlap (ws_deleted st) (ws_updated st) = false.
  Proof.
    intros items st. pose proof (fold_changes_char items ws_empty _ char_empty) as H. fold st in H.
    assert (H1 : forall p, In p (ws_deleted st) <-> last_effect items p = Some false) by (intros p; apply H).
    assert (H2 : forall p, In p (ws_updated st) <-> last_effect items p = Some true) by (intros p; apply H).
    assert (H3 : forall p, In p (ws_deleted st) -> ~ In p (ws_updated st)).
    { intros p Hd Hu. apply H1 in Hd. apply H2 in Hu. congruence. }
    repeat split; try apply H1; try apply H2; try exact H3. apply overlap_false. exact H3.
  Qed.

  Lemma prune_updated unchanged st p :
    In p (ws_updated (prune unchanged st)) <-> In p (ws_updated st) /\ ~ In p unchanged.
  Proof.
    unfold prune. cbn [ws_updated]. rewrite filter_In, negb_true_iff, mem_str_false. tauto.
  Qed.

  (* The ConsistencyError branch of process_nglob_changes is unreachable from run_once, whatever
     arrives on the queue and whatever is pruned as UNCHANGED. *)
  Theorem watch_commit_never_raises :
    forall (K : Type) (keqb : K -> K -> bool) (regs : list (reg K)) items unchanged,
      watch_commit keqb rel under regs items unchanged <> None.
  Proof.
    intros K keqb regs items unchanged. unfold watch_commit, process_nglob_changes.
    destruct (fold_last_event_wins items) as [_ [_ [H3 _]]].
    assert (E : overlap (ws_deleted (prune unchanged (fold_changes items ws_empty)))
                        (ws_updated (prune unchanged (fold_changes items ws_empty))) = false).
    { apply overlap_false. intros p Hd Hu. apply prune_updated in Hu as [Hu _].
      unfold prune in Hd. cbn [ws_deleted] in Hd. exact (H3 p Hd Hu). }
    rewrite E. discriminate.
  Qed.
End Fold.

(* ------------------------------------------------------------------------------------------ *)
(* Part B: file-system traces                                                                  *)
(* ------------------------------------------------------------------------------------------ *)

Section Trace.
  Variable K : Type.
  Variable keqb : K -> K -> bool.
  Hypothesis keqb_spec : forall a b, keqb a b = true <-> a = b.
  Variable mv : str -> option K.
  Variable rel : bool -> str -> bool.
  Variable under : bool -> str -> list str.

  (* ASSUMPTION accepted_relevant: every path the pattern accepts passes change_is_relevant, with
     either value of during_build.  In the code: a path WITHOUT an attached file node is relevant
     iff matches_any_glob, i.e. iff some attached registration's regex accepts it (so the
     assumption holds for such paths and attached registrations); a path WITH an attached file
     node is judged by the node's state alone (not PLANNED / VOLATILE; during a build only
     CONFIRMED / MISSING), the patterns are not consulted.  See the report / design notes for the
     scenario in which this fails (an attached UNCONFIRMED or BUILT/OUTDATED node on a matched
     path while a build runs). *)
  Hypothesis accepted_relevant : forall db p, mv p <> None -> rel db p = true.

  Notation acc := (accepted_by K mv).

  Notation step_ok := (step_ok K mv under).
  Notation trace_ok := (trace_ok K mv under).

  Lemma effect_touches it p : mv p <> None -> effect rel under it p = touches under it p.
  Proof.
    intros Hp. destruct it as [db ev]. unfold effect, touches. cbn [fst snd].
    destruct ev as [q|q|d]; try reflexivity; rewrite (accepted_relevant db p Hp), andb_true_r; reflexivity.
  Qed.

  (* what a recorded meaning says about a path set, relative to the initial one *)
  Definition agrees (fs0 : list str) (p : str) (o : option bool) (fs : list str) : Prop :=
    match o with
    | Some true => In p fs
    | Some false => ~ In p fs
    | None => (In p fs <-> In p fs0)
    end.

  Lemma trace_agrees fs0 p : mv p <> None -> forall tr fs o,
    trace_ok fs tr -> agrees fs0 p o fs ->
    agrees fs0 p (fold_left (fun a it => match effect rel under it p with Some b => Some b | None => a end)
                            (map fst tr) o) (trace_final fs tr).
  Proof.
    intros Hp. induction tr as [|[it fs1] tr IH]; intros fs o Hok Hag; cbn [map fold_left trace_final fst].
    - exact Hag.
    - destruct Hok as [Hstep Hrest]. apply IH; [exact Hrest|].
      rewrite (effect_touches it p Hp). specialize (Hstep p Hp).
      destruct (touches under it p) as [[|]|]; cbn [agrees]; try exact Hstep.
      unfold agrees in *. destruct o as [[|]|]; tauto.
  Qed.

  Lemma extend_filter l : forall r, extend keqb mv r (filter acc l) = extend keqb mv r l.
  Proof.
    unfold Nglob.extend. induction l as [|a l IH]; intros r; cbn [filter fold_left]; [reflexivity|].
    unfold accepted_by at 1. destruct (mv a) eqn:E; cbn [fold_left].
    - apply IH.
    - replace (extend1 keqb mv r a) with r by (unfold extend1; rewrite E; reflexivity). apply IH.
  Qed.

  Lemma reduce_filter l : forall r, reduce keqb mv r (filter acc l) = reduce keqb mv r l.
  Proof.
    unfold Nglob.reduce. induction l as [|a l IH]; intros r; cbn [filter fold_left]; [reflexivity|].
    unfold accepted_by at 1. destruct (mv a) eqn:E; cbn [fold_left].
    - apply IH.
    - replace (reduce1 keqb mv r a) with r by (unfold reduce1; rewrite E; reflexivity). apply IH.
  Qed.

  Lemma will_change_filter r d a :
    will_change keqb mv r (filter acc d) (filter acc a) = will_change keqb mv r d a.
  Proof. unfold Nglob.will_change. rewrite extend_filter, reduce_filter. reflexivity. Qed.

  Lemma acc_true p : acc p = true <-> mv p <> None.
  Proof. unfold accepted_by. destruct (mv p); split; intros H; congruence. Qed.

  Section OneBatch.
    Variable fs : list str.                       (* existing paths when the previous commit / scan happened *)
    Variable tr : list (item * list str).         (* the items of this watch phase, each with the path set after it *)
    Variable unchanged : list str.                (* the paths run_once prunes from `updated` (UNCHANGED) *)
    Hypothesis Htrace : trace_ok fs tr.
    (* ASSUMPTION pruned_existed: a pruned path that the pattern accepts was part of the old scan.
       run_once prunes a path when its new hash equals the hash recorded for its attached file
       node; the assumption says that the file-hash record and the nglob record agree about the
       existence of that path (a node with a known hash = the path existed and was matched). *)
    Hypothesis pruned_existed : forall p, In p unchanged -> mv p <> None -> In p fs.

    Let st := prune unchanged (fold_changes rel under (map fst tr) ws_empty).
    Let fs' := trace_final fs tr.

    Lemma final_by_last_effect p : mv p <> None ->
      agrees fs p (last_effect rel under (map fst tr) p) fs'.
    Proof.
      intros Hp. unfold last_effect, fs'. apply (trace_agrees fs p Hp tr fs None Htrace).
      cbn. tauto.
    Qed.

    (* (b) The three list hypotheses of C17_update_equals_rescan, for the accepted members of the
       folded sets (extend / reduce ignore all others: extend_filter, reduce_filter), with
       added := updated. *)
    Theorem batch_satisfies_update_hypotheses :
      (forall p, In p (filter acc (ws_updated st)) -> In p fs')
      /\ (forall p, In p (filter acc (ws_deleted st)) -> ~ In p fs')
      /\ (forall p, mv p <> None ->
            (In p fs' <-> (In p fs /\ ~ In p (filter acc (ws_deleted st))) \/ In p (filter acc (ws_updated st)))).
    Proof.
      destruct (fold_last_event_wins rel under (map fst tr)) as [Hd [Hu [Hdis _]]].
      assert (Hd' : forall p, In p (ws_deleted st) <-> last_effect rel under (map fst tr) p = Some false).
      { intros p. unfold st, prune. cbn [ws_deleted]. apply Hd. }
      assert (Hu' : forall p, In p (ws_updated st) <->
                              last_effect rel under (map fst tr) p = Some true /\ ~ In p unchanged).
      { intros p. unfold st. rewrite prune_updated, (Hu p). tauto. }
      split; [|split].
      - intros p Hin. apply filter_In in Hin as [Hin Hp]. apply acc_true in Hp.
        apply Hu' in Hin as [Hin _]. pose proof (final_by_last_effect p Hp) as Hag.
        rewrite Hin in Hag. exact Hag.
      - intros p Hin. apply filter_In in Hin as [Hin Hp]. apply acc_true in Hp.
        apply Hd' in Hin. pose proof (final_by_last_effect p Hp) as Hag.
        rewrite Hin in Hag. exact Hag.
      - intros p Hp. pose proof (final_by_last_effect p Hp) as Hag.
        rewrite !filter_In, (Hd' p), (Hu' p). pose proof (proj2 (acc_true p) Hp) as Ha. rewrite Ha.
        destruct (last_effect rel under (map fst tr) p) as [[|]|] eqn:El; cbn [agrees] in Hag.
        + split.
          * intros Hin. destruct (in_dec (list_eq_dec N.eq_dec) p unchanged) as [Hpr|Hpr].
            -- left. split; [apply pruned_existed; assumption|]. intros [Hx _]. discriminate.
            -- right. repeat split; assumption.
          * intros _. exact Hag.
        + split; [intros Hin; contradiction|].
          intros [[_ Hx]|[[Hx _] _]]; [exfalso; apply Hx; split; reflexivity|discriminate].
        + rewrite Hag. split.
          * intros Hin. left. split; [exact Hin|]. intros [Hx _]. discriminate.
          * intros [[Hin _]|[[Hx _] _]]; [exact Hin|discriminate].
    Qed.

    (* The composed statement: what run_once hands to will_change makes the incremental update
       equal to a fresh scan of the final path set. *)
    Theorem watch_batch_update_equals_rescan_sec :
      forall old : results K,
        reachable K keqb mv old ->
        results_eqb keqb old (scan keqb mv fs) = true ->
        let upd := reduce keqb mv (extend keqb mv old (ws_updated st)) (ws_deleted st) in
        overlap (ws_deleted st) (ws_updated st) = false
        /\ results_eqb keqb upd (scan keqb mv fs') = true
        /\ (forall p, In p (files upd) <-> In p fs' /\ mv p <> None)
        /\ (will_change keqb mv old (ws_deleted st) (ws_updated st) = None
            <-> results_eqb keqb old (scan keqb mv fs') = true).
    Proof.
      intros old Hreach Hold upd.
      destruct batch_satisfies_update_hypotheses as [H1 [H2 H3]].
      pose proof (update_equals_rescan K keqb keqb_spec mv old fs fs'
                    (filter acc (ws_updated st)) (filter acc (ws_deleted st)) Hreach Hold H1 H2 H3) as Hmain.
      cbv zeta in Hmain. rewrite extend_filter, reduce_filter, will_change_filter in Hmain.
      split; [|exact Hmain].
      destruct (fold_last_event_wins rel under (map fst tr)) as [_ [_ [Hdis _]]].
      apply overlap_false. intros p Hd Hu. unfold st in Hu. apply prune_updated in Hu as [Hu _].
      unfold st, prune in Hd. cbn [ws_deleted] in Hd. exact (Hdis p Hd Hu).
    Qed.
  End OneBatch.
End Trace.

(* The statement without section context, in the form props/C17.v quotes. *)
Theorem watch_batch_update_equals_rescan :
  forall (K : Type) (keqb : K -> K -> bool), (forall a b, keqb a b = true <-> a = b) ->
  forall (mv : str -> option K) (rel : bool -> str -> bool) (under : bool -> str -> list str),
    (forall db p, mv p <> None -> rel db p = true) ->
  forall (fs : list str) (tr : list (item * list str)) (unchanged : list str) (old : results K),
    trace_ok K mv under fs tr ->
    (forall p, In p unchanged -> mv p <> None -> In p fs) ->
    reachable K keqb mv old ->
    results_eqb keqb old (scan keqb mv fs) = true ->
    let st := prune unchanged (fold_changes rel under (map fst tr) ws_empty) in
    let fs' := trace_final fs tr in
    let upd := reduce keqb mv (extend keqb mv old (ws_updated st)) (ws_deleted st) in
    overlap (ws_deleted st) (ws_updated st) = false
    /\ results_eqb keqb upd (scan keqb mv fs') = true
    /\ (forall p, In p (files upd) <-> In p fs' /\ mv p <> None)
    /\ (will_change keqb mv old (ws_deleted st) (ws_updated st) = None
        <-> results_eqb keqb old (scan keqb mv fs') = true).
Proof.
  intros K keqb Hk mv rel under Hrel fs tr unchanged old Htr Hpr Hreach Hold.
  exact (watch_batch_update_equals_rescan_sec K keqb Hk mv rel under Hrel fs tr unchanged Htr Hpr old Hreach Hold).
Qed.

(* One row of process_nglob_changes under the same hypotheses: the row that comes out holds a
   dictionary equal to the fresh scan, and it is rewritten (step pending) exactly when the fresh
   scan differs from the old record. *)
Theorem watch_commit_row :
  forall (K : Type) (keqb : K -> K -> bool), (forall a b, keqb a b = true <-> a = b) ->
  forall (mv : str -> option K) (rel : bool -> str -> bool) (under : bool -> str -> list str),
    (forall db p, mv p <> None -> rel db p = true) ->
  forall (fs : list str) (tr : list (item * list str)) (unchanged : list str) (old : results K),
    trace_ok K mv under fs tr ->
    (forall p, In p unchanged -> mv p <> None -> In p fs) ->
    reachable K keqb mv old ->
    results_eqb keqb old (scan keqb mv fs) = true ->
    let st := prune unchanged (fold_changes rel under (map fst tr) ws_empty) in
    forall new changed,
      process_reg keqb (ws_deleted st) (ws_updated st) (mv, old) = ((mv, new), changed) ->
      (changed = false <-> results_eqb keqb old (scan keqb mv (trace_final fs tr)) = true)
      /\ (changed = true -> results_eqb keqb new (scan keqb mv (trace_final fs tr)) = true)
      /\ (changed = false -> new = old).
Proof.
  intros K keqb Hk mv rel under Hrel fs tr unchanged old Htr Hpr Hreach Hold st new changed.
  destruct (watch_batch_update_equals_rescan K keqb Hk mv rel under Hrel fs tr unchanged old Htr Hpr Hreach Hold)
    as [_ [H2 [_ H4]]]. fold st in H2, H4.
  unfold process_reg. cbn [fst snd].
  destruct (will_change keqb mv old (ws_deleted st) (ws_updated st)) as [ev|] eqn:E; intros Heq; inversion Heq; subst.
  - split; [|split].
    + split; [discriminate|]. intros H. apply H4 in H. discriminate.
    + intros _. unfold Nglob.will_change in E.
      destruct (results_eqb keqb (reduce keqb mv (extend keqb mv old (ws_updated st)) (ws_deleted st)) old);
        [discriminate|]. inversion E; subst. exact H2.
    + discriminate.
  - split; [|split].
    + split; [intros _; apply H4; reflexivity|reflexivity].
    + discriminate.
    + reflexivity.
Qed.

(* ------------------------------------------------------------------------------------------ *)
(* Part C: startup.rescan_nglobs                                                               *)
(* ------------------------------------------------------------------------------------------ *)

Section Rescan.
  Variable K : Type.
  Variable keqb : K -> K -> bool.
  Hypothesis keqb_spec : forall a b, keqb a b = true <-> a = b.
  Variable mv : str -> option K.

  Lemma holds_files r k p : wf_results K mv r -> (holds K r k p <-> In p (files r) /\ mv p = Some k).
  Proof.
    intros [_ Hall]. rewrite Forall_forall in Hall. rewrite files_In. split.
    - intros Hh. split; [exists k; exact Hh|]. destruct Hh as [ps [Hin Hp]].
      destruct (Hall _ Hin) as [_ [_ Hk]]. apply (Hk p Hp).
    - intros [[k' Hh] Hk]. destruct Hh as [ps [Hin Hp]].
      destruct (Hall _ Hin) as [_ [_ Hk']]. cbn [fst snd] in Hk'. specialize (Hk' p Hp).
      rewrite Hk in Hk'. inversion Hk'; subst. exists ps. split; assumption.
  Qed.

  (* rescan_nglobs compares the FILE SETS of the old record and of the fresh scan; for well-formed
     dictionaries (the key is a function of the path) that is the same as comparing the
     dictionaries, which is what will_change does. *)
  Theorem rescan1_spec old cands :
    wf_results K mv old ->
    (rescan1 keqb mv old cands = None <-> results_eqb keqb old (scan keqb mv cands) = true)
    /\ (forall new, rescan1 keqb mv old cands = Some new -> new = scan keqb mv cands).
  Proof.
    intros Hwf. destruct (scan_spec K keqb keqb_spec mv cands) as [Hws _].
    unfold rescan1. fold (scan keqb mv cands). split.
    - rewrite (results_eqb_spec K keqb keqb_spec mv _ _ Hwf Hws).
      destruct (negb (set_subb (files old) (files (scan keqb mv cands)))
                || negb (set_subb (files (scan keqb mv cands)) (files old))) eqn:E.
      + split; [discriminate|]. intros Hsame. exfalso.
        apply orb_true_iff in E. destruct E as [E|E]; apply negb_true_iff in E;
          (assert (E' : set_subb (files old) (files (scan keqb mv cands)) = true
                        /\ set_subb (files (scan keqb mv cands)) (files old) = true);
           [|destruct E' as [E1 E2]; congruence]);
          split; apply set_subb_spec; intros p Hp; apply files_In in Hp as [k Hk]; apply files_In; exists k;
          apply Hsame; exact Hk.
      + split; [intros _|reflexivity]. apply orb_false_iff in E as [E1 E2].
        apply negb_false_iff in E1, E2. rewrite set_subb_spec in E1, E2.
        intros k p. rewrite (holds_files _ k p Hwf), (holds_files _ k p Hws).
        split; intros [Hin Hk]; (split; [|exact Hk]); [apply E1|apply E2]; exact Hin.
    - intros new. destruct (negb _ || negb _); intros H; inversion H. reflexivity.
  Qed.
End Rescan.

(* ------------------------------------------------------------------------------------------ *)
(* Part D: the shapes that matter, computed with the matcher of the pattern  sub/${*x}          *)
(* ------------------------------------------------------------------------------------------ *)

Definition bx_pat : str := [115;117;98;47;36;123;42;120;125].                 (* sub/${*x} *)
Definition bx_a : str := [115;117;98;47;97].                                   (* sub/a *)
Definition bx_b : str := [115;117;98;47;98].                                   (* sub/b *)
Definition bx_n : str := [115;117;98;47;110].                                  (* sub/n *)
Definition bx_item : str := [115;117;98;47;105;116;101;109].                   (* sub/item *)
Definition bx_itemd : str := [115;117;98;47;105;116;101;109;47].               (* sub/item/ *)
Definition bx_keepd : str := [115;117;98;47;107;101;101;112;47].               (* sub/keep/ *)
Definition bx_sub : str := [115;117;98].                                       (* sub *)
Definition bx_subd : str := [115;117;98;47].                                   (* sub/ *)
Definition bx_other : str := [111;116;104;101;114].                            (* other *)

Definition bx_mv : str -> option key :=
  match ng_make bx_pat [] with COk g => ng_mv g | CErr _ => fun _ => None end.
(* relevant = accepted by the pattern (matches_any_glob, no file nodes) *)
Definition bx_rel (db : bool) (p : str) : bool := match bx_mv p with Some _ => true | None => false end.
Definition bx_no_under (db : bool) (d : str) : list str := [].

Definition bx_run (under : bool -> str -> list str) (fs : list str) (items : list item) :=
  let st := fold_changes bx_rel under items ws_empty in
  let old := scan key_eqb bx_mv fs in
  (ws_deleted st, ws_updated st, will_change key_eqb bx_mv old (ws_deleted st) (ws_updated st),
   files (reduce key_eqb bx_mv (extend key_eqb bx_mv old (ws_updated st)) (ws_deleted st))).

(* (i) a path deleted and re-created in one batch: it ends up in `updated` only; nothing changes *)
Example batch_deleted_then_recreated :
  bx_run bx_no_under [bx_a; bx_b; bx_other] [(false, EvDeleted bx_a); (false, EvUpdated bx_a)]
  = ([], [bx_a], None, [bx_a; bx_b]).
Proof. vm_compute. reflexivity. Qed.

(* (ii) created then deleted in one batch: it ends up in `deleted` only; nothing changes *)
Example batch_created_then_deleted :
  bx_run bx_no_under [bx_a; bx_b] [(false, EvUpdated bx_n); (false, EvDeleted bx_n); (false, EvUpdated bx_other)]
  = ([bx_n], [], None, [bx_a; bx_b]).
Proof. vm_compute. reflexivity. Qed.

(* (iii) the file sub/item is replaced by a directory sub/item/ (and the other way round): both
   strings have the key x = "item"; extend puts the new string next to the old one, reduce then
   discards exactly the deleted string.  (The seeded change C17-r2 pops the whole entry: the
   result would be [sub/keep/] in both directions.) *)
Example batch_file_replaced_by_directory :
  bx_mv bx_item = bx_mv bx_itemd /\ bx_mv bx_item <> None
  /\ bx_run bx_no_under [bx_item; bx_keepd] [(false, EvDeleted bx_item); (false, EvUpdated bx_itemd)]
     = ([bx_item], [bx_itemd], Some (scan key_eqb bx_mv [bx_itemd; bx_keepd]), [bx_itemd; bx_keepd])
  /\ bx_run bx_no_under [bx_itemd; bx_keepd] [(false, EvDeleted bx_itemd); (false, EvUpdated bx_item)]
     = ([bx_itemd], [bx_item], Some (scan key_eqb bx_mv [bx_item; bx_keepd]), [bx_item; bx_keepd]).
Proof. vm_compute. repeat split; try reflexivity. discriminate. Qed.

(* (iv) DELETED_PARENT of sub with the recorded matches below it (relevant_paths_under yields the
   recorded matches), followed by the (DELETED, "sub/") item change_loop queues for the directory
   itself; sub/a had been reported as updated before. *)
Definition bx_under (db : bool) (d : str) : list str := if str_eqb d bx_sub then [bx_a; bx_keepd] else [].
Example batch_deleted_parent :
  bx_run bx_under [bx_a; bx_keepd; bx_other]
         [(true, EvUpdated bx_a); (false, EvDeletedParent bx_sub); (false, EvDeleted bx_subd)]
  = ([bx_a; bx_keepd], [], Some [], []).
Proof. vm_compute. reflexivity. Qed.

(* The same four batches as instances of the trace semantics (non-vacuity of the hypotheses of
   watch_batch_update_equals_rescan): the path sets after each item. *)
Ltac neq_tac :=
  match goal with
  | H : @eq str ?a ?b |- _ => exfalso; revert H; apply str_eqb_neq; vm_compute; reflexivity
  | H : @eq (list N) ?a ?b |- _ => exfalso; revert H; apply str_eqb_neq; vm_compute; reflexivity
  end.
Ltac step_tac :=
  let p := fresh "p" in intros p _; unfold touches; cbn [fst snd];
  match goal with
  | |- context [str_eqb ?a p] =>
      let E := fresh "E" in destruct (str_eqb a p) eqn:E;
      [apply str_eqb_eq in E; subst p|apply str_eqb_neq in E]
  end; cbn [In]; intuition (try congruence; try neq_tac).

Example batch_traces_ok :
  trace_ok key bx_mv bx_no_under [bx_a; bx_b; bx_other]
           [((false, EvDeleted bx_a), [bx_b; bx_other]); ((false, EvUpdated bx_a), [bx_b; bx_other; bx_a])]
  /\ trace_ok key bx_mv bx_no_under [bx_item; bx_keepd]
           [((false, EvDeleted bx_item), [bx_keepd]); ((false, EvUpdated bx_itemd), [bx_keepd; bx_itemd])].
Proof.
  repeat split; step_tac.
Qed.
