(* proofs/CleanPhases.v -- Workflow.to_be_deleted across the build phases of one director (C06).
   Unfolds bodies of model/Clean.v only. *)
From Coq Require Import List NArith Bool.
From SV Require Import lib.Bytes.
From SV Require Import gen.GenClean.
From SV Require Import model.TrellisDD.
From SV Require Import model.Clean.
From SV Require Import proofs.TrellisDDProofs.
From SV Require Import proofs.CleanProofs.
Import ListNotations.
Open Scope N_scope.

(* the regenerated tail of remove_deletable_files: nothing follows workflow.to_be_deleted.clear() *)
Lemma gen_no_requeue : rdf_requeues_failed = false.
Proof. reflexivity. Qed.

Lemma finalize_is_finalize_rq c s : finalize c s = finalize_rq rdf_requeues_failed c s.
Proof.
  unfold finalize, finalize_with, finalize_rq.
  destruct (existsb (guard_fires c) finalize_guards); [reflexivity|].
  change finalize_cleanup_calls with [CRevert; CDeleteDetached; CRemoveFiles].
  unfold run_calls. cbn [fold_left run_call s_g s_q s_fs s_files s_dirs s_err].
  destruct (revert_optional (s_g s) (s_q s)) as [g1 q1].
  cbn [s_g s_q s_fs s_files s_dirs s_err]. reflexivity.
Qed.

(* After a cleanup that ran, the queue is empty; a guarded finalize leaves it as it was. *)
Theorem queue_empty_after_cleanup c s :
  existsb (guard_fires c) finalize_guards = false -> s_q (finalize c s) = empty_queue.
Proof.
  intros Hg. rewrite finalize_is_finalize_rq. unfold finalize_rq. rewrite Hg.
  destruct (revert_optional (s_g s) (s_q s)) as [g1 q1]. cbn [s_q].
  unfold queue_after_removal_rq. rewrite gen_no_requeue. reflexivity.
Qed.

Theorem queue_empty_preserved c s : s_q s = empty_queue -> s_q (finalize c s) = empty_queue.
Proof.
  intros Hq. destruct (existsb (guard_fires c) finalize_guards) eqn:Hg.
  - unfold finalize, finalize_with. rewrite Hg. exact Hq.
  - apply queue_empty_after_cleanup. exact Hg.
Qed.

(* No entry outlives the phase that queued it: whatever happens to graph and tree between the phases, every phase
   starts its finalize with an empty queue. *)
Theorem queue_empty_across_phases : forall phs s, s_q s = empty_queue -> s_q (fold_left next_phase phs s) = empty_queue.
Proof.
  induction phs as [|ph phs IH]; intros s Hq; [exact Hq|].
  cbn [fold_left]. apply IH. unfold next_phase. apply queue_empty_preserved. unfold start_phase. cbn [s_q]. exact Hq.
Qed.

(* Hence the ownership theorem holds for every phase with respect to that phase's own graph and tree. *)
Definition removed_only_owned_across_phases : Prop :=
  forall phs ph ever, ever_inv (ph_g ph) ever ->
    forall p, In p (s_files (next_phase (run_phases phs) ph)) -> owned_removal (ph_g ph) (ph_fs ph) ever false p.

Theorem removed_only_owned_across_phases_holds : removed_only_owned_across_phases.
Proof.
  intros phs ph ever Hev p Hp. unfold next_phase in Hp.
  assert (s_q (run_phases phs) = empty_queue) as Hq by (apply queue_empty_across_phases; reflexivity).
  rewrite Hq in Hp. apply (removed_only_owned_finalize (ph_ctx ph) (ph_g ph) (ph_fs ph) ever Hev p Hp).
Qed.

(* The same statement about the variant that puts failed removals back into the queue (flag as a parameter, so the
   refutation is checked on every run whatever the code does today).  Witness, two phases:
   phase 1: a dropped step's volatile output "v" that the user replaced by a directory -- it cannot be removed, still
   exists, and is put back;  phase 2: the user made "v" a file of their own and declared it static (CONFIRMED,
   attached, created by the root): the leftover entry (volatile: no hash to compare) removes it. *)
Definition removed_only_owned_across_phases_rq (rq : bool) : Prop :=
  forall phs ph ever, ever_inv (ph_g ph) ever ->
    forall p, In p (s_files (next_phase_rq rq (fold_left (next_phase_rq rq) phs (init_state (mkGraph [] []) [])) ph)) ->
      owned_removal (ph_g ph) (ph_fs ph) ever false p.

Definition rq_root : key := (KROOT, []).
Definition rq_step : key := (KSTEP, [115]).
Definition rq_v : str := [118].
Definition rq_phase1 : phase :=
  mkPhase (mkCtx false 0 true)
          (mkGraph [mkNode rq_root (Some rq_root) false 0 None false 0 0;
                    mkNode rq_step None true 0 None true 32 23;
                    mkNode (KFILE, rq_v) (Some rq_step) true FS_VOLATILE None false 0 0]
                   [(rq_step, (KFILE, rq_v))])
          [(rq_v, FDir)].
Definition rq_phase2 : phase :=
  mkPhase (mkCtx false 0 true)
          (mkGraph [mkNode rq_root (Some rq_root) false 0 None false 0 0;
                    mkNode (KFILE, rq_v) (Some rq_root) false FS_CONFIRMED (Some 7) false 0 0] [])
          [(rq_v, FFile 7)].

Theorem removed_only_owned_across_phases_requeue_refuted : ~ removed_only_owned_across_phases_rq true.
Proof.
  intros H. specialize (H [rq_phase1] rq_phase2 []).
  assert (ever_inv (ph_g rq_phase2) []) as Hev.
  { intros n Hn Hk Hr. cbn in Hn. destruct Hn as [<-|[<-|[]]]; vm_compute in Hr; discriminate Hr. }
  specialize (H Hev rq_v).
  assert (In rq_v (s_files (next_phase_rq true (fold_left (next_phase_rq true) [rq_phase1] (init_state (mkGraph [] []) []))
                                          rq_phase2))) as Hin.
  { vm_compute. left. reflexivity. }
  destruct (H Hin) as [n [_ [_ [_ [Hever _]]]]]. destruct Hever.
Qed.

Lemma fold_next_phase_rq rq : rdf_requeues_failed = rq ->
  forall phs s, fold_left next_phase phs s = fold_left (next_phase_rq rq) phs s.
Proof.
  intros Hflag. induction phs as [|x phs IH]; intros s; [reflexivity|].
  cbn [fold_left]. rewrite IH. unfold next_phase, next_phase_rq. rewrite finalize_is_finalize_rq, Hflag. reflexivity.
Qed.

Theorem requeue_variant_is_the_code : rdf_requeues_failed = true -> ~ removed_only_owned_across_phases.
Proof.
  intros Hflag H. apply removed_only_owned_across_phases_requeue_refuted.
  intros phs ph ever Hev p Hp. apply (H phs ph ever Hev p).
  unfold run_phases. rewrite (fold_next_phase_rq true Hflag).
  unfold next_phase. rewrite finalize_is_finalize_rq, Hflag. exact Hp.
Qed.
