(* C10: flag soundness of the primitives that create, delete or take over nodes (model/Sched.v:
   create_file, delete_step, delete_file, place_file, set_step_need, set_step_duration, set_step_res)
   and variants of set_file_state / detach_file for the situations in which the transaction model
   (model/SchedGraph.v) applies them. *)
From Coq Require Import List NArith Bool Arith Lia.
From SV Require Import lib.Bytes lib.SqlExpr gen.GenSched model.Sched proofs.SchedProofs.
Import ListNotations.
Open Scope N_scope.

Lemma filter_len_le {A} (p : A -> bool) l : (length (filter p l) <= length l)%nat.
Proof. induction l as [|x l IH]; cbn; [lia|]. destruct (p x); cbn; lia. Qed.

Lemma NoDup_map_filter' {A B} (f : A -> B) (p : A -> bool) l : NoDup (map f l) -> NoDup (map f (filter p l)).
Proof.
  induction l as [|x l IH]; intros H; [exact H|]. cbn [map] in H. inversion H as [|? ? Hn Hd]; subst.
  cbn [filter]. destruct (p x); [|apply IH; exact Hd]. cbn [map]. constructor; [|apply IH; exact Hd].
  intros Hin. apply Hn. apply in_map_iff in Hin. destruct Hin as [y [Hy1 Hy2]]. apply filter_In in Hy2.
  apply in_map_iff. exists y. tauto.
Qed.

(* ------------------------------------------------------------------------------------------ *)
(* a step map that may change the declared need / duration / resources / holding of flagged rows *)
(* ------------------------------------------------------------------------------------------ *)

Record need_ex (g : graph) (F : step -> step) : Prop := {
  nx_key : forall s, s_key (F s) = s_key s;
  nx_detached : forall s, s_detached (F s) = s_detached s;
  nx_ineed : forall s, s_ineed (F s) = s_ineed s;
  nx_ca : forall s, s_chk_after s = true -> s_chk_after (F s) = true;
  nx_need : forall s, In s (g_steps g) -> s_chk_after (F s) = false -> s_need (F s) = s_need s }.

Section NeedEx.
  Variable g : graph.
  Variable F : step -> step.
  Hypothesis M : need_ex g F.
  Hypothesis Hwf : WF g.

  Lemma nx_find_step k : find_step (mapg F g) k = option_map F (find_step g k).
  Proof. apply find_step_mapg'. apply M. Qed.

  Lemma nx_cons_keys k : cons_keys (mapg F g) k = cons_keys g k.
  Proof.
    unfold cons_keys. change (g_deps (mapg F g)) with (g_deps g).
    apply flat_map_ext. intros d1. destruct (d_src d1 =? k); [|reflexivity].
    apply flat_map_ext. intros d2. destruct (d_src d2 =? d_snk d1); [|reflexivity].
    rewrite nx_find_step.
    destruct (find_step g (d_snk d2)) as [y|]; [|reflexivity]. cbn [option_map].
    rewrite (nx_detached g F M), (nx_key g F M). reflexivity.
  Qed.

  Lemma nx_vals_fst k : fst (vals_of (mapg F g) k) = fst (vals_of g k).
  Proof.
    unfold vals_of. rewrite nx_find_step.
    destruct (find_step g k) as [s|]; [|reflexivity]. cbn [option_map fst]. apply (nx_ineed g F M).
  Qed.

  Lemma nx_seed0 k : In k (seed0 g) -> In k (seed0 (mapg F g)).
  Proof.
    unfold seed0, mapg. cbn [g_steps with_steps]. intros H.
    apply in_map_iff in H. destruct H as [s [<- H]]. apply filter_In in H. destruct H as [H1 H2].
    apply andb_true_iff in H2. destruct H2 as [H2 H3].
    rewrite <- (nx_key g F M s). apply in_map. apply filter_In. split; [apply in_map; exact H1|].
    rewrite (nx_detached g F M), H2, (nx_ca g F M s H3). reflexivity.
  Qed.

  Lemma nx_local_k s : In s (g_steps g) -> s_chk_after (F s) = false ->
    local_k (mapg F g) (s_key s) = local_k g (s_key s).
  Proof.
    intros Hin Hc. unfold local_k. rewrite nx_find_step, (find_step_in g s Hwf Hin). cbn [option_map].
    unfold local_need, elev. rewrite (nx_key g F M), (nx_need g F M s Hin Hc). reflexivity.
  Qed.

  Lemma FlagInv_need_ex : FlagInv_need g -> FlagInv_need (mapg F g).
  Proof.
    intros HF s Hin Hd Hc Hy. unfold mapg in Hin. cbn [g_steps with_steps] in Hin.
    apply in_map_iff in Hin. destruct Hin as [s0 [<- Hin]].
    rewrite (nx_ineed g F M), (nx_key g F M).
    rewrite (nx_detached g F M) in Hd. rewrite (nx_key g F M) in Hy.
    assert (Hs0 : s_chk_after s0 = false).
    { destruct (s_chk_after s0) eqn:E; [|reflexivity]. rewrite (nx_ca g F M s0 E) in Hc. discriminate. }
    rewrite (HF s0 Hin Hd Hs0).
    - unfold new_val. cbn [fst]. rewrite (nx_local_k s0 Hin Hc), nx_cons_keys. f_equal. f_equal.
      apply map_ext. intros y. symmetry. apply nx_vals_fst.
    - intros y Hyc Hys. apply (Hy y); [rewrite nx_cons_keys; exact Hyc | apply nx_seed0; exact Hys].
  Qed.
End NeedEx.

(* ------------------------------------------------------------------------------------------ *)
(* Step.after_recycle: UPDATE step SET need = ?, _holding = 0 on a row that Step.reattach flagged  *)
(* ------------------------------------------------------------------------------------------ *)

Definition needF (k nd : N) (s : step) : step := if s_key s =? k then set_need_hold s nd else s.

Theorem set_step_need_sound g k nd :
  WF g ->
  (forall s, In s (g_steps g) -> s_key s = k -> s_chk_safe s = true /\ s_chk_after s = true) ->
  FlagInv g -> FlagInv (set_step_need g k nd).
Proof.
  intros Hwf Hfl [HFs [HFn HFr]].
  change (set_step_need g k nd) with (mapg (needF k nd) g).
  assert (Hk : forall s, s_key (needF k nd s) = s_key s) by (intros s; unfold needF; destruct (s_key s =? k); reflexivity).
  split; [|split].
  - apply FlagInv_safe_mono; [|exact HFs]. constructor.
    + exact Hk.
    + intros s; unfold needF; destruct (s_key s =? k); reflexivity.
    + intros s; unfold needF; destruct (s_key s =? k); reflexivity.
    + intros s; unfold needF; destruct (s_key s =? k); auto.
    + intros s Hin Hc. unfold needF in *. destruct (s_key s =? k) eqn:E; [|auto].
      apply N.eqb_eq in E. destruct (Hfl s Hin E) as [H1 _]. cbn in Hc. congruence.
  - apply FlagInv_need_ex; [|exact Hwf|exact HFn]. constructor.
    + exact Hk.
    + intros s; unfold needF; destruct (s_key s =? k); reflexivity.
    + intros s; unfold needF; destruct (s_key s =? k); reflexivity.
    + intros s; unfold needF; destruct (s_key s =? k); auto.
    + intros s Hin Hc. unfold needF in *. destruct (s_key s =? k) eqn:E; [|reflexivity].
      apply N.eqb_eq in E. destruct (Hfl s Hin E) as [_ H2]. cbn in Hc. congruence.
  - apply FlagInv_ready_mono; [| | |exact HFr]; intros s; unfold needF; destruct (s_key s =? k); auto.
Qed.

Lemma same_keys_set_step_need g k nd : same_keys g (set_step_need g k nd).
Proof. eapply same_keys_map; [reflexivity|]. intros s. cbv beta. destruct (s_key s =? k); reflexivity. Qed.

(* ------------------------------------------------------------------------------------------ *)
(* Step.set_duration / Step.set_resources                                                      *)
(* ------------------------------------------------------------------------------------------ *)

Definition durF (k d : N) (s : step) : step := if s_key s =? k then set_dur s d else s.

Lemma durF_sound g k d : WF g -> FlagInv g -> FlagInv (mapg (durF k d) g).
Proof.
  intros Hwf [HFs [HFn HFr]]. split; [|split].
  - apply FlagInv_safe_mono; [|exact HFs]. constructor.
    + intros s; unfold durF; destruct (s_key s =? k); reflexivity.
    + intros s; unfold durF; destruct (s_key s =? k); reflexivity.
    + intros s; unfold durF; destruct (s_key s =? k); reflexivity.
    + intros s; unfold durF; destruct (s_key s =? k); auto.
    + intros s _ _. unfold durF. destruct (s_key s =? k); auto.
  - apply FlagInv_need_ex; [|exact Hwf|exact HFn]. constructor.
    + intros s; unfold durF; destruct (s_key s =? k); reflexivity.
    + intros s; unfold durF; destruct (s_key s =? k); reflexivity.
    + intros s; unfold durF; destruct (s_key s =? k); reflexivity.
    + intros s; unfold durF; destruct (s_key s =? k); auto.
    + intros s _ _. unfold durF. destruct (s_key s =? k); reflexivity.
  - apply FlagInv_ready_mono; [| | |exact HFr]; intros s; unfold durF; destruct (s_key s =? k); auto.
Qed.

Lemma FlagInv_only_flags F g : only_flags F -> FlagInv g -> FlagInv (mapg F g).
Proof.
  intros O [HFs [HFn HFr]]. split; [|split].
  - apply FlagInv_safe_only_flags; assumption.
  - apply FlagInv_need_only_flags; assumption.
  - apply FlagInv_ready_mono; [| | |exact HFr]; intros s;
      [apply (k_key _ (of_keeps _ O)) | apply (of_ready _ O) | apply (of_cr _ O)].
Qed.

Lemma FlagInv_trigger body self d g : FlagInv g -> FlagInv (run_trigger body self d g).
Proof. rewrite run_trigger_mapg. apply FlagInv_only_flags. apply trigF_only_flags. Qed.

Theorem set_step_duration_sound g k d : WF g -> FlagInv g -> FlagInv (set_step_duration g k d).
Proof.
  intros Hwf HF. unfold set_step_duration. apply FlagInv_trigger.
  change (with_steps g (map (fun s => if s_key s =? k then set_dur s d else s) (g_steps g)))
    with (mapg (durF k d) g).
  apply durF_sound; assumption.
Qed.

Lemma same_keys_set_step_duration g k d : same_keys g (set_step_duration g k d).
Proof.
  unfold set_step_duration. eapply same_keys_trans; [|apply same_keys_trigger].
  eapply same_keys_map; [reflexivity|]. intros s. cbv beta. destruct (s_key s =? k); reflexivity.
Qed.

Theorem set_step_res_sound g k r : FlagInv g -> FlagInv (set_step_res g k r).
Proof.
  apply bookkeeping_sound. intros s. cbv beta. destruct (s_key s =? k); repeat split; reflexivity.
Qed.
Lemma same_keys_set_step_res g k r : same_keys g (set_step_res g k r).
Proof. eapply same_keys_map; [reflexivity|]. intros s. cbv beta. destruct (s_key s =? k); reflexivity. Qed.

(* ------------------------------------------------------------------------------------------ *)
(* the specifications read the file table only through find_file                               *)
(* ------------------------------------------------------------------------------------------ *)

Section FilesExt.
  Variables g g' : graph.
  Hypothesis Hsteps : g_steps g' = g_steps g.
  Hypothesis Hdeps : g_deps g' = g_deps g.
  Hypothesis Htargets : g_targets g' = g_targets g.
  Hypothesis Htdirs : g_tdirs g' = g_tdirs g.
  (* files at the sink of an edge are the same *)
  Hypothesis Hsnk : forall d, In d (g_deps g) -> find_file g' (d_snk d) = find_file g (d_snk d).
  (* files at the source of an edge are the same *)
  Hypothesis Hsrc : forall d, In d (g_deps g) -> find_file g' (d_src d) = find_file g (d_src d).

  Lemma fx_find_step k : find_step g' k = find_step g k.
  Proof. unfold find_step. rewrite Hsteps. reflexivity. Qed.

  Lemma fx_outputs x : outputs g' x = outputs g x.
  Proof.
    unfold outputs. rewrite Hdeps.
    assert (H : forall l, (forall d, In d l -> In d (g_deps g)) ->
      flat_map (fun d => if d_src d =? x then match find_file g' (d_snk d) with Some f => [f] | None => [] end else []) l =
      flat_map (fun d => if d_src d =? x then match find_file g (d_snk d) with Some f => [f] | None => [] end else []) l).
    { induction l as [|d l IH]; intros Hl; [reflexivity|]. cbn [flat_map].
      rewrite IH by (intros; apply Hl; right; assumption).
      rewrite (Hsnk d) by (apply Hl; left; reflexivity). reflexivity. }
    apply H. auto.
  Qed.

  Lemma fx_cons_keys x : cons_keys g' x = cons_keys g x.
  Proof.
    unfold cons_keys. rewrite Hdeps.
    apply flat_map_ext. intros d1. destruct (d_src d1 =? x); [|reflexivity].
    apply flat_map_ext. intros d2. destruct (d_src d2 =? d_snk d1); [|reflexivity].
    rewrite fx_find_step. reflexivity.
  Qed.

  Lemma fx_local_k x : local_k g' x = local_k g x.
  Proof.
    unfold local_k. rewrite fx_find_step. destruct (find_step g x) as [s|]; [|reflexivity].
    unfold local_need, elev. rewrite fx_outputs. unfold is_target, in_tdir. rewrite Htargets, Htdirs. reflexivity.
  Qed.

  Lemma fx_vals_of : forall y, vals_of g' y = vals_of g y.
  Proof. intros y. unfold vals_of. rewrite fx_find_step. reflexivity. Qed.

  Lemma fx_seed0 : seed0 g' = seed0 g.
  Proof. unfold seed0. rewrite Hsteps. reflexivity. Qed.

  Lemma fx_need : FlagInv_need g -> FlagInv_need g'.
  Proof.
    intros HF s Hin Hd Hc Hy. rewrite Hsteps in Hin.
    rewrite (HF s Hin Hd Hc).
    - unfold new_val. cbn [fst]. rewrite fx_local_k, fx_cons_keys. f_equal. f_equal.
      apply map_ext. intros y. rewrite fx_vals_of. reflexivity.
    - intros y Hyc Hys. apply (Hy y); [rewrite fx_cons_keys; exact Hyc | rewrite fx_seed0; exact Hys].
  Qed.

  Lemma fx_ready_spec x : ready_spec g' x = ready_spec g x.
  Proof.
    unfold ready_spec. rewrite Hdeps. f_equal.
    assert (H : forall l, (forall d, In d l -> In d (g_deps g)) ->
      existsb (fun d => (d_snk d =? x) && unavailable g' d) l = existsb (fun d => (d_snk d =? x) && unavailable g d) l).
    { induction l as [|d l IH]; intros Hl; [reflexivity|]. cbn [existsb].
      rewrite IH by (intros; apply Hl; right; assumption).
      unfold unavailable. rewrite (Hsrc d) by (apply Hl; left; reflexivity). reflexivity. }
    apply H. auto.
  Qed.

  Lemma fx_ready : FlagInv_ready g -> FlagInv_ready g'.
  Proof.
    intros HF s Hin Hc. rewrite Hsteps in Hin. rewrite fx_ready_spec. apply HF; assumption.
  Qed.

  Lemma fx_safe : FlagInv_safe g -> FlagInv_safe g'.
  Proof. apply FlagInv_safe_steps_only. symmetry. exact Hsteps. Qed.

  Lemma fx_sound : FlagInv g -> FlagInv g'.
  Proof. intros [A [B C]]. split; [apply fx_safe; exact A | split; [apply fx_need; exact B | apply fx_ready; exact C]]. Qed.
End FilesExt.

(* ------------------------------------------------------------------------------------------ *)
(* a new file row on a fresh node / deleting the row of a node without edges                   *)
(* ------------------------------------------------------------------------------------------ *)

Lemma find_file_app_other (l : list file) (n : file) x : f_key n <> x ->
  find (fun f => f_key f =? x) (l ++ [n]) = find (fun f => f_key f =? x) l.
Proof.
  intros Hx. induction l as [|a l IH]; cbn [app find].
  - destruct (f_key n =? x) eqn:E; [apply N.eqb_eq in E; congruence | reflexivity].
  - destruct (f_key a =? x); [reflexivity | exact IH].
Qed.

Lemma find_file_filter_other (l : list file) k x : x <> k ->
  find (fun f => f_key f =? x) (filter (fun f => negb (f_key f =? k)) l) = find (fun f => f_key f =? x) l.
Proof.
  intros Hx. induction l as [|a l IH]; [reflexivity|]. cbn [filter find].
  destruct (f_key a =? k) eqn:Ek; cbn [negb].
  - apply N.eqb_eq in Ek. destruct (f_key a =? x) eqn:Ex; [apply N.eqb_eq in Ex; congruence | exact IH].
  - cbn [find]. destruct (f_key a =? x); [reflexivity | exact IH].
Qed.

Theorem create_file_sound g k label st det cr :
  (forall d, In d (g_deps g) -> d_src d <> k /\ d_snk d <> k) ->
  FlagInv g -> FlagInv (create_file g k label st det cr).
Proof.
  intros Hno HF. unfold create_file. apply FlagInv_trigger.
  apply (fx_sound g); try reflexivity; [| |exact HF]; intros d Hd; unfold find_file; cbn [g_files with_files];
    apply find_file_app_other; cbn [f_key]; intros E; destruct (Hno d Hd); congruence.
Qed.

Lemma same_keys_create_file g k label st det cr : same_keys g (create_file g k label st det cr).
Proof. unfold create_file. eapply same_keys_trans; [|apply same_keys_trigger]. reflexivity. Qed.

Theorem delete_file_sound g k :
  (forall d, In d (g_deps g) -> d_src d <> k /\ d_snk d <> k) ->
  FlagInv g -> FlagInv (delete_file g k).
Proof.
  intros Hno HF. unfold delete_file.
  apply (fx_sound g); try reflexivity; [| |exact HF]; intros d Hd; unfold find_file; cbn [g_files with_files];
    apply find_file_filter_other; destruct (Hno d Hd); assumption.
Qed.

Lemma same_keys_delete_file g k : same_keys g (delete_file g k).
Proof. reflexivity. Qed.

(* ------------------------------------------------------------------------------------------ *)
(* File.set_state on a file without producer edge (a re-created file: its sources were cut)     *)
(* ------------------------------------------------------------------------------------------ *)

Theorem set_file_state_need_sound_noin g k st h :
  (forall d, In d (g_deps g) -> d_snk d <> k) ->
  FlagInv_need g -> FlagInv_need (set_file_state g k st h).
Proof.
  intros Hno HF. unfold set_file_state. destruct (find_file g k) as [f0|]; [|exact HF].
  change (with_files g (map (fun f => if f_key f =? k then set_fstate f st h else f) (g_files g)))
    with (with_files g (map (fstateF k st h) (g_files g))).
  set (g1 := with_files g (map (fstateF k st h) (g_files g))).
  assert (H1 : FlagInv_need g1).
  { intros s Hin Hd Hc Hy. change (In s (g_steps g)) in Hin.
    assert (Hout : forall x, outputs g1 x = outputs g x).
    { intros x. unfold outputs. change (g_deps g1) with (g_deps g).
      assert (H : forall l, (forall d, In d l -> In d (g_deps g)) ->
        flat_map (fun d => if d_src d =? x then match find_file g1 (d_snk d) with Some f => [f] | None => [] end else []) l =
        flat_map (fun d => if d_src d =? x then match find_file g (d_snk d) with Some f => [f] | None => [] end else []) l).
      { induction l as [|d l IH]; intros Hl; [reflexivity|]. cbn [flat_map].
        rewrite IH by (intros; apply Hl; right; assumption). f_equal.
        destruct (d_src d =? x); [|reflexivity].
        unfold g1. rewrite find_file_map.
        destruct (find_file g (d_snk d)) as [f|] eqn:Ef; [|reflexivity]. cbn [option_map].
        unfold find_file in Ef. apply find_some in Ef. destruct Ef as [_ Ek]. apply N.eqb_eq in Ek.
        unfold fstateF. destruct (f_key f =? k) eqn:E; [|reflexivity].
        apply N.eqb_eq in E. exfalso. apply (Hno d); [apply Hl; left; reflexivity | congruence]. }
      apply H. auto. }
    assert (Hloc : forall x, local_k g1 x = local_k g x).
    { intros x. unfold local_k. change (find_step g1 x) with (find_step g x).
      destruct (find_step g x) as [s'|]; [|reflexivity]. unfold local_need, elev. rewrite Hout. reflexivity. }
    change (cons_keys g1 (s_key s)) with (cons_keys g (s_key s)) in *.
    change (seed0 g1) with (seed0 g) in Hy.
    unfold new_val. rewrite Hloc. change (vals_of g1) with (vals_of g). apply (HF s Hin Hd Hc Hy). }
  destruct (negb trg_file_state_upd_on_change_only || negb (f_state f0 =? st)); [|exact H1].
  rewrite run_trigger_mapg. apply FlagInv_need_only_flags; [apply trigF_only_flags | exact H1].
Qed.

(* ------------------------------------------------------------------------------------------ *)
(* File.detach on a file that is detached already: only its creator link is cleared            *)
(* ------------------------------------------------------------------------------------------ *)

Theorem detach_file_sound_detached g k :
  (forall s, In s (g_steps g) -> s_key s <> k) ->
  (forall f, In f (g_files g) -> f_key f = k -> f_detached f = true) ->
  FlagInv g -> FlagInv (detach_file g k).
Proof.
  intros Hns Hdet [HFs [HFn HFr]].
  assert (Hset : forall x, mem_N x (detach_file_set g k) = true -> x = k).
  { intros x. unfold detach_file_set. destruct (find_file g k) as [f0|] eqn:E0; [|discriminate].
    destruct (f_creator f0); [|discriminate].
    unfold find_file in E0. apply find_some in E0. destruct E0 as [Hin Ek]. apply N.eqb_eq in Ek.
    rewrite (Hdet f0 Hin Ek). rewrite mem_single. intros H. apply N.eqb_eq in H. exact H. }
  split; [|split].
  - apply detach_file_safe_sound; assumption.
  - apply detach_file_need_sound_gen; [| |exact HFn].
    + intros s Hs. destruct (mem_N (s_key s) (detach_file_set g k)) eqn:E; [|reflexivity].
      apply Hset in E. exfalso. apply (Hns s Hs E).
    + intros d f Hd Hf Hm. apply Hset in Hm. unfold find_file in Hf. apply find_some in Hf.
      apply Hdet; tauto.
  - apply detach_file_ready_sound; [apply has_stmt_In; vm_compute; reflexivity | exact HFr].
Qed.

(* ------------------------------------------------------------------------------------------ *)
(* Trellis.create on an existing detached file node: UPDATE node SET creator = ?, detached = ?   *)
(* (after its incoming edges were deleted)                                                     *)
(* ------------------------------------------------------------------------------------------ *)

Definition fplaceG (k : N) (det : bool) (cr : option N) (f : file) : file :=
  if f_key f =? k then set_fplace f det cr else f.

Lemma drel_set_fplaceG k det cr g :
  drel_ex k (fun _ d => d) (fun x d => if x =? k then det else d) g
    (with_files g (map (fplaceG k det cr) (g_files g))).
Proof.
  exists (fun s => s), (fplaceG k det cr), (fun o => o).
  constructor; try reflexivity; try (symmetry; apply map_id); auto;
    try (intros f; unfold fplaceG; destruct (f_key f =? k) eqn:E; auto; fail).
  intros f Hf. unfold fplaceG. destruct (f_key f =? k) eqn:E; [apply N.eqb_eq in E; contradiction | reflexivity].
Qed.

Theorem place_file_sound g k cr det :
  WF g ->
  (forall s, In s (g_steps g) -> s_key s <> k) ->
  (forall d, In d (g_deps g) -> d_snk d <> k) ->
  FlagInv g -> FlagInv (place_file g k cr det).
Proof.
  intros Hwf Hns Hno [HFs [HFn HFr]]. unfold place_file.
  destruct (find_file g k) as [f0|] eqn:E0; [|repeat split; assumption].
  change (map (fun f => if f_key f =? k then set_fplace f det cr else f)) with (map (fplaceG k det cr)).
  set (g0 := set_detached_nodes g [k] det).
  assert (R : drel_ex k (fun x d => if mem_N x [k] then det else d) (fun x d => if mem_N x [k] then det else d)
                      g (with_files g0 (map (fplaceG k det cr) (g_files g0)))).
  { eapply drel_phi_ext; [| |eapply drel_trans; [apply drel_set_detached | apply drel_set_fplaceG]];
      intros x d; cbv beta; rewrite ?mem_single; destruct (x =? k); reflexivity. }
  split; [|split].
  - (* _safe: no step row is touched except for flags *)
    assert (P : place_rel k g (with_files g0 (map (fplaceG k det cr) (g_files g0))))
      by (eapply place_rel_trans; [apply place_rel_set_detached | apply place_rel_with_files]).
    destruct P as [F [E P]].
    apply (FlagInv_safe_steps_only (mapg F g)); [symmetry; exact E|].
    apply FlagInv_safe_mono; [|exact HFs]. constructor; try apply P.
    intros s Hin _. unfold ok_h, ok_nh. rewrite (pm_state k F P), (pm_holding k F P), (pm_creator k F P s (Hns s Hin)).
    repeat split; reflexivity.
  - (* _implied_need: no step among the flipped nodes, the file has no producer edge *)
    destruct R as [F [H [O R]]].
    assert (Hout : forall d f, In d (g_deps g) -> find_file g (d_snk d) = Some f ->
              mem_N (f_key f) [k] = true -> mem_N (d_src d) [k] = true \/ f_detached f = det).
    { intros d f Hd Hf Hm. exfalso. rewrite mem_single in Hm. apply N.eqb_eq in Hm.
      unfold find_file in Hf. apply find_some in Hf. destruct Hf as [_ Ek]. apply N.eqb_eq in Ek.
      apply (Hno d Hd). congruence. }
    assert (Hnostep : forall y x, In y (cons_keys g x) -> mem_N y [k] = false).
    { intros y x Hy. apply cons_keys_attached in Hy. apply attached_keys_step in Hy.
      destruct Hy as [s [Hs [Ek _]]]. rewrite mem_single. apply N.eqb_neq. rewrite <- Ek. apply Hns. exact Hs. }
    destruct det.
    + apply (detach_like_need_sound g _ k [k] true F H O R Hout eq_refl); [|exact HFn].
      intros p y _ _ _ Hyc Hmy. rewrite (Hnostep y _ Hyc) in Hmy. discriminate.
    + apply (attach_like_need_sound g _ k [k] false F H O R Hout eq_refl); [|exact HFn].
      intros r' Hr' Hm. exfalso. rewrite (dr_steps R) in Hr'. apply in_map_iff in Hr'.
      destruct Hr' as [r0 [<- Hr0]]. rewrite (dr_key R) in Hm. rewrite mem_single in Hm.
      apply N.eqb_eq in Hm. apply (Hns r0 Hr0 Hm).
  - (* _ready *)
    assert (Htrg : In (FReady, TConsumersOfSelf) trg_node_detached) by (apply has_stmt_In; vm_compute; reflexivity).
    assert (H0 : FlagInv_ready g0) by (apply set_detached_nodes_ready_sound; assumption).
    intros s Hin Hc. change (In s (g_steps g0)) in Hin. rewrite (H0 s Hin Hc). symmetry.
    apply ready_spec_ext; [reflexivity|]. intros e _ _.
    unfold unavailable, find_file. cbn [g_files with_files].
    rewrite find_file_mapf by (intros f; unfold fplaceG; destruct (f_key f =? k); reflexivity).
    destruct (find (fun f => f_key f =? d_src e) (g_files g0)) as [f|] eqn:Ef; [|reflexivity].
    cbn [option_map]. apply find_some in Ef. destruct Ef as [Hf _].
    unfold fplaceG. destruct (f_key f =? k) eqn:Ek; [|reflexivity]. apply N.eqb_eq in Ek.
    assert (Hd : f_detached f = det).
    { destruct (drel_set_detached k g [k] det) as [F1 [H1 [O1 R1]]].
      unfold g0 in Hf. rewrite (dr_files R1) in Hf. apply in_map_iff in Hf. destruct Hf as [f1 [<- _]].
      rewrite (dr_fdet R1). rewrite (dr_fkey R1) in Ek. rewrite Ek, mem_single, N.eqb_refl. reflexivity. }
    unfold ienv, set_fplace. cbn. rewrite Hd. reflexivity.
Qed.

Lemma same_keys_place_file g k cr det : same_keys g (place_file g k cr det).
Proof.
  unfold place_file. destruct (find_file g k); [|reflexivity].
  apply (same_keys_place_rel k). eapply place_rel_trans; [apply place_rel_set_detached | apply place_rel_with_files].
Qed.

(* ------------------------------------------------------------------------------------------ *)
(* deleting the row of a step that is nobody's creator and has no incoming edge                *)
(* ------------------------------------------------------------------------------------------ *)

Lemma find_step_filter_other (l : list step) k x : x <> k ->
  find (fun s => s_key s =? x) (filter (fun s => negb (s_key s =? k)) l) = find (fun s => s_key s =? x) l.
Proof.
  intros Hx. induction l as [|a l IH]; [reflexivity|]. cbn [filter find].
  destruct (s_key a =? k) eqn:Ek; cbn [negb].
  - apply N.eqb_eq in Ek. destruct (s_key a =? x) eqn:Ex; [apply N.eqb_eq in Ex; congruence | exact IH].
  - cbn [find]. destruct (s_key a =? x); [reflexivity | exact IH].
Qed.

Section DeleteStep.
  Variable g : graph.
  Variable k : N.
  Let g' := delete_step g k.
  Hypothesis Hnochild : forall s, In s (g_steps g) -> s_creator s <> Some k.
  Hypothesis Hnoin : forall d, In d (g_deps g) -> d_snk d <> k.

  Lemma ds_steps : g_steps g' = filter (fun s => negb (s_key s =? k)) (g_steps g).
  Proof. reflexivity. Qed.

  Lemma ds_in s : In s (g_steps g') <-> In s (g_steps g) /\ s_key s <> k.
  Proof.
    rewrite ds_steps, filter_In, negb_true_iff, N.eqb_neq. tauto.
  Qed.

  Lemma ds_find_old x : x <> k -> find_step g' x = find_step g x.
  Proof. intros Hx. unfold find_step. rewrite ds_steps. apply find_step_filter_other. exact Hx. Qed.

  Lemma ds_creator_old s : In s (g_steps g) -> creator_step g' s = creator_step g s.
  Proof.
    intros Hin. unfold creator_step. destruct (s_creator s) as [c|] eqn:E; [|reflexivity].
    apply ds_find_old. intros ->. apply (Hnochild s Hin). exact E.
  Qed.

  Lemma ds_aflag m : forall s, In s (g_steps g) -> aflag m g' s = aflag m g s.
  Proof.
    induction m as [|m IH]; intros s Hin; [reflexivity|]. cbn [aflag].
    rewrite (ds_creator_old s Hin). destruct (creator_step g s) as [c|] eqn:E; [|reflexivity].
    rewrite IH; [reflexivity | eapply creator_step_in; exact E].
  Qed.
  Lemma ds_safe_fuel m : forall s, In s (g_steps g) -> safe_fuel m g' s = safe_fuel m g s.
  Proof.
    induction m as [|m IH]; intros s Hin; [reflexivity|]. cbn [safe_fuel].
    rewrite (ds_creator_old s Hin). destruct (creator_step g s) as [c|] eqn:E; [|reflexivity].
    rewrite IH; [reflexivity | eapply creator_step_in; exact E].
  Qed.

  Lemma ds_length : (length (g_steps g') <= length (g_steps g))%nat.
  Proof. rewrite ds_steps. apply filter_len_le. Qed.

  (* the remaining forest is well founded with a rank below its own size *)
  Theorem delete_step_safe_sound rank :
    CreatorRank g' rank -> FlagInv_safe g -> FlagInv_safe g'.
  Proof.
    intros HR HF s Hin' Ha. pose proof Hin' as Hin0. apply ds_in in Hin0. destruct Hin0 as [Hin Hk].
    unfold L, safe_spec in *.
    pose proof HR as [_ HR2]. pose proof (HR2 s Hin') as Hb. pose proof ds_length as Hlen.
    (* move the fuel from the size of g' to the size of g, inside g' *)
    rewrite (aflag_stable g' rank HR _ (S (length (g_steps g))) s Hin') in Ha by lia.
    rewrite (safe_fuel_stable g' rank HR _ (length (g_steps g)) s Hin') by lia.
    rewrite ds_aflag in Ha by exact Hin. rewrite ds_safe_fuel by exact Hin.
    apply HF; assumption.
  Qed.

  Theorem delete_step_ready_sound : FlagInv_ready g -> FlagInv_ready g'.
  Proof.
    intros HF s Hin Hc. apply ds_in in Hin. destruct Hin as [Hin _].
    unfold g', delete_step. rewrite ready_spec_steps. apply HF; assumption.
  Qed.

  Lemma ds_cons_keys x : cons_keys g' x = cons_keys g x.
  Proof.
    unfold cons_keys. change (g_deps g') with (g_deps g).
    apply flat_map_ext. intros d1. destruct (d_src d1 =? x); [|reflexivity].
    assert (H : forall l, (forall d, In d l -> In d (g_deps g)) ->
      flat_map (fun d2 => if d_src d2 =? d_snk d1 then match find_step g' (d_snk d2) with
                          | Some y => if s_detached y then [] else [s_key y] | None => [] end else []) l =
      flat_map (fun d2 => if d_src d2 =? d_snk d1 then match find_step g (d_snk d2) with
                          | Some y => if s_detached y then [] else [s_key y] | None => [] end else []) l).
    { induction l as [|d2 l IH]; intros Hl; [reflexivity|]. cbn [flat_map].
      rewrite IH by (intros; apply Hl; right; assumption).
      rewrite ds_find_old by (apply (Hnoin d2); apply Hl; left; reflexivity). reflexivity. }
    apply H. auto.
  Qed.

  Lemma ds_cons_old x y : In y (cons_keys g x) -> y <> k.
  Proof.
    intros Hy. apply cons_keys_spec in Hy. destruct Hy as [d1 [d2 [sy [_ [H2 [_ [_ [Ef [_ ->]]]]]]]]].
    apply find_step_some in Ef. destruct Ef as [_ ->]. apply (Hnoin d2 H2).
  Qed.

  Lemma ds_local_k x : x <> k -> local_k g' x = local_k g x.
  Proof.
    intros Hx. unfold local_k. rewrite ds_find_old by exact Hx. destruct (find_step g x); reflexivity.
  Qed.

  Lemma ds_vals_of x : x <> k -> vals_of g' x = vals_of g x.
  Proof. intros Hx. unfold vals_of. rewrite ds_find_old by exact Hx. reflexivity. Qed.

  Lemma ds_seed0 y : y <> k -> In y (seed0 g) -> In y (seed0 g').
  Proof.
    unfold seed0. intros Hy H. apply in_map_iff in H. destruct H as [s [<- Hs]].
    apply in_map. apply filter_In in Hs. destruct Hs as [Hin Hc].
    apply filter_In. split; [|exact Hc]. apply ds_in. split; assumption.
  Qed.

  Theorem delete_step_need_sound : FlagInv_need g -> FlagInv_need g'.
  Proof.
    intros HF s Hin' Hd Hc Hy. apply ds_in in Hin'. destruct Hin' as [Hin Hk].
    unfold new_val. rewrite ds_cons_keys, (ds_local_k _ Hk). cbn [fst].
    rewrite (HF s Hin Hd Hc).
    - unfold new_val. cbn [fst]. f_equal. f_equal. apply map_ext_in. intros y Hyc.
      rewrite (ds_vals_of y (ds_cons_old _ _ Hyc)). reflexivity.
    - intros y Hyc Hys. apply (Hy y); [rewrite ds_cons_keys; exact Hyc|].
      apply ds_seed0; [apply (ds_cons_old _ _ Hyc) | exact Hys].
  Qed.

  Theorem delete_step_sound rank : CreatorRank g' rank -> FlagInv g -> FlagInv g'.
  Proof.
    intros HR [A [B C]]. split; [eapply delete_step_safe_sound; eassumption|].
    split; [apply delete_step_need_sound; exact B | apply delete_step_ready_sound; exact C].
  Qed.

  Lemma delete_step_WF : WF g -> WF g'.
  Proof.
    unfold WF. rewrite ds_steps. intros H. apply NoDup_map_filter'. exact H.
  Qed.
End DeleteStep.
