(* C09: Trellis.create (new node, or partial recycle of a detached node) with File/Step
   initialize_row preserves Inv. *)
From Coq Require Import List NArith Bool Lia.
From SV Require Import lib.Bytes lib.Closure model.Graph model.GraphInv
  proofs.GraphBase proofs.GraphNodes proofs.GraphInvP proofs.GraphPrims proofs.GraphFrames.
Import ListNotations.
Open Scope N_scope.

Section HH.
Context {hh : bool}.

(* ------------------------------------------------------------------------------------------ *)
(* detaching a list of detached nodes: closed form                                             *)
(* ------------------------------------------------------------------------------------------ *)
Definition clearn (ps : list key) (ns : list node) : list node :=
  map (fun n => if mem_key (nk n) ps then mkNode (nk n) None true else n) ns.

Lemma set_nodes_same t : set_nodes t (nodes t) = t.
Proof. destruct t; reflexivity. Qed.

Lemma clearn_nil ns : clearn [] ns = ns.
Proof. unfold clearn. cbn. apply map_id. Qed.

Lemma foldM_detach_detached ps : forall t,
  NoDup ps ->
  (forall p, In p ps -> exists np, findn p (nodes t) = Some np /\ ncre np <> None /\ ndet np = true) ->
  foldM (fun s p => detach_any p s) ps t = Ok (set_nodes t (clearn ps (nodes t))).
Proof.
  induction ps as [|p ps IH]; intros t Hnd Hall.
  - cbn [foldM]. rewrite clearn_nil, set_nodes_same. reflexivity.
  - cbn [foldM]. inversion Hnd as [|p' ps' Hnp Hnd']; subst.
    destruct (Hall p (or_introl eq_refl)) as [np [Hf [Hc Hd]]].
    set (t' := upd_node p (fun n => mkNode (nk n) None true) t).
    assert (Hstep : detach_any p t = Ok t').
    { unfold detach_any, node_detach, find_node. fold (findn p (nodes t)). rewrite Hf.
      destruct (ncre np) as [c|] eqn:Hcre; [|congruence]. rewrite Hd. reflexivity. }
    rewrite Hstep. cbn [bind].
    rewrite (IH t' Hnd').
    + f_equal. unfold t'. unfold clearn. rewrite nodes_upd_node. unfold updn. rewrite map_map.
      unfold set_nodes, upd_node. cbn. f_equal. apply map_ext. intros n.
      destruct (key_eqb (nk n) p) eqn:E; cbn [nk orb].
      * destruct (mem_key (nk n) ps); reflexivity.
      * reflexivity.
    + intros q Hq. destruct (Hall q (or_intror Hq)) as [nq [Hfq Hq2]]. exists nq. split; [|exact Hq2].
      unfold t'. rewrite nodes_upd_node, findn_updn; [|reflexivity].
      destruct (key_eqb q p) eqn:E; [|exact Hfq]. apply key_eqb_eq in E. subst q. contradiction.
Qed.

Lemma clearn_products k ns : NoDup (map nk ns) ->
  clearn (map nk (filter (is_prod_of k) ns)) ns =
  map (fun n => if is_prod_of k n then mkNode (nk n) None true else n) ns.
Proof.
  intros Hd. unfold clearn. apply map_ext_in. intros n Hn.
  assert (H : mem_key (nk n) (map nk (filter (is_prod_of k) ns)) = is_prod_of k n).
  { destruct (is_prod_of k n) eqn:E.
    - apply mem_key_In. apply in_map. apply filter_In. auto.
    - apply mem_key_false. intros Hin. apply in_map_iff in Hin. destruct Hin as [m [Hm1 Hm2]].
      apply filter_In in Hm2. destruct Hm2 as [Hm2 Hm3].
      assert (m = n) by (eapply NoDup_map_inj; eassumption). subst m. congruence. }
  rewrite H. reflexivity.
Qed.

Lemma products_eq k s : products k s = map nk (filter (is_prod_of k) (nodes s)).
Proof. reflexivity. Qed.

(* products of a detached node are detached *)
Lemma prod_detached ns k kn y m : NWl ns -> findn k ns = Some kn -> ndet kn = true ->
  findn y ns = Some m -> is_prod_of k m = true -> ndet m = true.
Proof.
  intros HW Hk Hdn Hy Hp. apply is_prod_of_true in Hp. destruct Hp as [Hp1 Hp2].
  assert (Hyr : y <> root_key).
  { intros ->. rewrite (nw_root _ HW) in Hy. inversion Hy; subst m. cbn in Hp1.
    assert (k = root_key) by congruence. subst k. rewrite (nw_root _ HW) in Hk. inversion Hk; subst kn. discriminate. }
  pose proof (findn_In _ _ _ Hy) as [Hin Hkey].
  assert (Hl : local_ok ns m). { apply (nw_local _ HW); [exact Hin | rewrite Hkey; exact Hyr]. }
  unfold local_ok in Hl. rewrite Hp1 in Hl.
  destruct Hl as [_ [_ [kn' [Hkn Hd]]]]. rewrite Hk in Hkn. inversion Hkn; subst kn'. congruence.
Qed.

Lemma filter_all {A} (p : A -> bool) l : (forall x, In x l -> p x = true) -> filter p l = l.
Proof.
  induction l as [|x l IH]; intros H; cbn; [reflexivity|].
  rewrite (H x (or_introl eq_refl)), IH; [reflexivity|]. intros y Hy. apply H. right. exact Hy.
Qed.

(* ------------------------------------------------------------------------------------------ *)
(* the node-table part of Trellis.create                                                       *)
(* ------------------------------------------------------------------------------------------ *)
Definition create_nodes (k : key) (creator : option key) (cdet : bool) (s : st) : res st :=
  match find_node k s with
  | Some n =>
    if negb (ndet n) then Internal 113
    else
      let s1 := upd_node k (fun n => mkNode (nk n) creator cdet) s in
      do s2 <- match ncre n with
               | None => Ok s1
               | Some oc =>
                 if negb (is_detached oc s) then Internal 114
                 else after_lost_product oc s1
               end;
      let s3 := del_all_sources k s2 in
      foldM (fun s p => detach_any p s) (products k s3) s3
  | None => Ok (set_nodes s (nodes s ++ [mkNode k creator cdet]))
  end.

Definition cdet_of (creator : option key) (s : st) : bool :=
  match creator with None => true | Some c => is_detached c s end.

Lemma create_unfold k creator arg s :
  create k creator arg s =
  do _ <- creator_ok k creator s;
  do s1 <- create_nodes k creator (cdet_of creator s) s;
  match arg with
  | InitFile f => file_initialize_row (snd k) f s1
  | InitStep n => step_initialize_row (snd k) n s1
  | InitTree => Ok s1
  end.
Proof. reflexivity. Qed.

Lemma creator_ok_new_node k creator s :
  creator_ok k creator s = Ok tt -> new_node_ok (nodes s) k creator (cdet_of creator s).
Proof.
  unfold creator_ok, new_node_ok, cdet_of. destruct creator as [c|]; [|reflexivity].
  unfold find_node. fold (findn c (nodes s)). rewrite is_detached_findn.
  destruct (findn c (nodes s)) as [cn|] eqn:Hc; cbn; [|discriminate].
  destruct (key_eqb c k) eqn:E1; [discriminate|].
  destruct (creator_kind_ok (fst k) (fst c)) eqn:E2; cbn; [|discriminate].
  intros _. apply key_eqb_neq in E1. split; [exact E1|]. split; [reflexivity|]. exists cn. auto.
Qed.

Record NPost (k : key) (creator : option key) (cdet : bool) (s s1 : st) : Prop := {
  np_nw : NWl (nodes s1);
  np_k : findn k (nodes s1) = Some (mkNode k creator cdet);
  np_files : files s1 = files s;
  np_steps : steps s1 = steps s;
  np_envs : envs s1 = envs s;
  np_cap : defer_cap s1 = defer_cap s;
  np_hnd : NoDup (shash s1);
  np_hincl : incl (shash s1) (shash s);
  np_deps : deps s1 = filter (fun d => negb (key_eqb (dsnk d) k)) (deps s);
  np_kl : forall x, In x (KL (nodes s1)) <-> In x (KL (nodes s)) \/ x = k;
  np_det : forall x, x <> k -> is_detached x s = true -> is_detached x s1 = true;
  np_cre : forall x n1, x <> k -> findn x (nodes s1) = Some n1 ->
           exists n0, findn x (nodes s) = Some n0 /\ (ncre n1 = None \/ ncre n1 = ncre n0);
  np_att : forall x n0, x <> k -> findn x (nodes s) = Some n0 -> ndet n0 = false ->
           findn x (nodes s1) = Some n0 }.

Lemma create_nodes_spec strict k creator s :
  Inv hh s -> fst k <> KRoot -> new_node_ok (nodes s) k creator (cdet_of creator s) ->
  (strict = true -> is_detached k s = true) ->
  wpg strict (create_nodes k creator (cdet_of creator s) s) (NPost k creator (cdet_of creator s) s).
Proof.
  intros HI Hkind Hnew Hst. set (cdet := cdet_of creator s) in *.
  pose proof (inv_nw _ HI) as HW. pose proof (inv_dw _ HI) as HD.
  unfold create_nodes. destruct (find_node k s) as [n|] eqn:Hf.
  - (* partial recycle *)
    unfold find_node in Hf. fold (findn k (nodes s)) in Hf.
    destruct (ndet n) eqn:Hdn; cbn [negb].
    2:{ destruct strict; [|exact I]. cbn. specialize (Hst eq_refl). rewrite is_detached_findn, Hf in Hst. congruence. }
    set (s1 := upd_node k (fun n => mkNode (nk n) creator cdet) s).
    (* common continuation for every way s2 is produced *)
    assert (Hfin : forall s2, nodes s2 = nodes s1 -> files s2 = files s -> steps s2 = steps s ->
               deps s2 = deps s -> envs s2 = envs s -> defer_cap s2 = defer_cap s ->
               incl (shash s2) (shash s) -> NoDup (shash s2) ->
               wpg strict (foldM (fun s p => detach_any p s) (products k (del_all_sources k s2)) (del_all_sources k s2))
                   (NPost k creator cdet s)).
    { intros s2 E1 E2 E3 E4 E5 E6 E7 E8.
      set (s3 := del_all_sources k s2).
      assert (Hn3 : nodes s3 = updn k (fun n => mkNode (nk n) creator cdet) (nodes s)).
      { unfold s3. cbn. rewrite E1. reflexivity. }
      assert (Hk3 : map nk (nodes s3) = map nk (nodes s)). { rewrite Hn3. apply map_nk_updn. reflexivity. }
      assert (Hf3 : forall x, findn x (nodes s3) = if key_eqb x k then Some (mkNode k creator cdet) else findn x (nodes s)).
      { intros x. rewrite Hn3, findn_updn; [|reflexivity]. destruct (key_eqb x k) eqn:E; [|reflexivity].
        apply key_eqb_eq in E. subst x. rewrite Hf. cbn. rewrite (findn_key _ _ _ Hf). reflexivity. }
      rewrite products_eq, foldM_detach_detached.
      - cbn [wpg]. rewrite clearn_products; [|rewrite Hk3; apply nw_nodup; exact HW].
        assert (Hnodes : nodes (set_nodes s3 (map (fun n0 => if is_prod_of k n0 then mkNode (nk n0) None true else n0) (nodes s3)))
                         = recycle_nodes k creator cdet (nodes s)).
        { cbn [nodes set_nodes]. rewrite Hn3. reflexivity. }
        set (s4 := set_nodes s3 _) in *.
        assert (Hf4 : forall x, findn x (nodes s4) =
                   option_map (fun n0 => if is_prod_of k n0 then mkNode (nk n0) None true else n0) (findn x (nodes s3))).
        { intros x. unfold s4. cbn [nodes set_nodes]. apply findn_map.
          intros m. destruct (is_prod_of k m); reflexivity. }
        assert (HK4 : KL (nodes s4) = KL (nodes s)).
        { unfold KL, s4. cbn [nodes set_nodes]. rewrite map_nk_map; [exact Hk3|].
          intros m. destruct (is_prod_of k m); reflexivity. }
        constructor.
        + rewrite Hnodes. eapply NW_recycle; eassumption.
        + rewrite Hf4, Hf3, key_eqb_refl. cbn. unfold is_prod_of. cbn. rewrite key_eqb_refl, andb_false_r. reflexivity.
        + exact E2.
        + exact E3.
        + exact E5.
        + exact E6.
        + exact E8.
        + exact E7.
        + unfold s4, s3. cbn. rewrite E4. reflexivity.
        + intros x. rewrite HK4. split; [auto|]. intros [H| ->]; [exact H|].
          apply findn_some_iff. eexists. exact Hf.
        + intros x Hx. rewrite !is_detached_findn, Hf4, Hf3. apply key_eqb_neq in Hx. rewrite Hx.
          destruct (findn x (nodes s)) as [m|]; [|reflexivity]. cbn.
          destruct (is_prod_of k m); [reflexivity | auto].
        + intros x n1 Hx. rewrite Hf4, Hf3. apply key_eqb_neq in Hx. rewrite Hx.
          destruct (findn x (nodes s)) as [m|]; [|discriminate]. cbn. intros H. inversion H; subst n1.
          exists m. split; [reflexivity|]. destruct (is_prod_of k m); cbn; auto.
        + intros x n0 Hx Hx0 Hd0. rewrite Hf4, Hf3. pose proof Hx as Hx'. apply key_eqb_neq in Hx'. rewrite Hx', Hx0. cbn.
          destruct (is_prod_of k n0) eqn:Ep; [|reflexivity].
          pose proof (prod_detached (nodes s) k n x n0 HW Hf Hdn Hx0 Ep). congruence.
      - apply NoDup_map_filter. rewrite Hk3. apply nw_nodup. exact HW.
      - intros p Hp. apply in_map_iff in Hp. destruct Hp as [m [Hm1 Hm2]]. apply filter_In in Hm2.
        destruct Hm2 as [Hm2 Hm3]. exists m. subst p.
        assert (Hnd3 : NoDup (map nk (nodes s3))). { rewrite Hk3. apply nw_nodup. exact HW. }
        split; [apply In_findn; assumption|].
        pose proof Hm3 as Hm3'. apply is_prod_of_true in Hm3'. destruct Hm3' as [Hc Hne].
        split; [congruence|].
        pose proof (In_findn _ _ Hnd3 Hm2) as Hfm. rewrite Hf3 in Hfm. apply key_eqb_neq in Hne. rewrite Hne in Hfm.
        exact (prod_detached (nodes s) k n (nk m) m HW Hf Hdn Hfm Hm3). }
    destruct (ncre n) as [oc|] eqn:Hoc.
    2:{ cbn [bind]. apply Hfin; try reflexivity; [apply incl_refl | apply (rw_hnodup _ _ _ _ _ (inv_rw _ HI))]. }
    assert (Hf' : find_node k s = Some n) by exact Hf.
    destruct (old_creator_facts s k n oc HI Hf' Hdn Hoc) as [Hocd Hock].
    rewrite Hocd. cbn [negb]. unfold after_lost_product.
    destruct Hock as [Hock|Hock]; rewrite Hock; cbn [bind].
    + apply Hfin; try reflexivity.
      * intros x Hx. apply filter_In in Hx. tauto.
      * apply NoDup_filter. apply (rw_hnodup _ _ _ _ _ (inv_rw _ HI)).
    + apply Hfin; try reflexivity; [apply incl_refl | apply (rw_hnodup _ _ _ _ _ (inv_rw _ HI))].
  - (* new node *)
    cbn [wpg]. unfold find_node in Hf. fold (findn k (nodes s)) in Hf.
    constructor; cbn [nodes files steps envs shash deps defer_cap set_nodes]; try reflexivity.
    + apply NW_append; assumption.
    + rewrite findn_app, Hf. unfold findn. cbn. rewrite key_eqb_refl. reflexivity.
    + apply (rw_hnodup _ _ _ _ _ (inv_rw _ HI)).
    + apply incl_refl.
    + symmetry. apply filter_all. intros d Hd. apply negb_true_iff. apply key_eqb_neq. intros He.
      apply findn_none in Hf. apply Hf. rewrite <- He. apply (dw_snk _ _ HD). exact Hd.
    + intros x. unfold KL. rewrite map_app, in_app_iff. cbn. split; [intros [H|[H|[]]]; auto | intros [H|H]; auto].
    + intros x Hx. rewrite !is_detached_findn. cbn [nodes set_nodes]. rewrite findn_app.
      destruct (findn x (nodes s)) as [m|]; [auto|]. intros _. unfold findn. cbn.
      apply key_eqb_neq in Hx. rewrite key_eqb_sym, Hx. reflexivity.
    + intros x n1 Hx. rewrite findn_app. destruct (findn x (nodes s)) as [m|].
      * intros H. inversion H; subst. exists n1. auto.
      * unfold findn. cbn. apply key_eqb_neq in Hx. rewrite key_eqb_sym, Hx. discriminate.
    + intros x n0 Hx Hx0 _. rewrite findn_app, Hx0. reflexivity.
Qed.

(* ------------------------------------------------------------------------------------------ *)
(* consequences of NPost                                                                       *)
(* ------------------------------------------------------------------------------------------ *)
Lemma NPost_deps k creator cdet s s1 :
  Inv hh s -> NPost k creator cdet s s1 -> DWl (nodes s1) (deps s1) /\ acyclic (EL (deps s1)).
Proof.
  intros HI HP. rewrite (np_deps _ _ _ _ _ HP).
  pose proof (Inv_filter_deps s (fun d => negb (key_eqb (dsnk d) k)) HI) as HI'.
  split; [|apply (inv_ac _ HI')].
  apply (DWl_incl (nodes s)); [|apply (inv_dw _ HI')].
  intros x Hx. apply (np_kl _ _ _ _ _ HP). left. exact Hx.
Qed.

Lemma NPost_ud k creator cdet s s1 fs :
  Inv hh s -> NPost k creator cdet s s1 -> incl fs (files s) ->
  (forall r, In r fs -> (KFile, fl r) <> k) -> UDl (nodes s1) fs.
Proof.
  intros HI HP Hi Hne r Hr Hst n1 Hn1.
  destruct (np_cre _ _ _ _ _ HP _ _ (Hne r Hr) Hn1) as [n0 [Hn0 [Hc|Hc]]]; [exact Hc|].
  rewrite Hc. apply (inv_ud _ HI r (Hi r Hr) Hst n0 Hn0).
Qed.

Lemma NPost_oe k creator cdet s s1 :
  Inv hh s -> NPost k creator cdet s s1 -> OEl (nodes s1) (files s) (deps s1).
Proof.
  intros HI HP d sl f Hd Hs Hk n1 c Hn1 Hc. rewrite (np_deps _ _ _ _ _ HP) in Hd.
  apply filter_In in Hd. destruct Hd as [Hd Hne]. apply negb_true_iff in Hne. apply key_eqb_neq in Hne.
  rewrite Hk in Hne. destruct (np_cre _ _ _ _ _ HP _ _ Hne Hn1) as [n0 [Hn0 [Hc0|Hc0]]]; [congruence|].
  apply (inv_oe _ HI d sl f Hd Hs Hk n0 c Hn0). congruence.
Qed.

Lemma NPost_NF k creator cdet s s1 : NPost k creator cdet s s1 -> NF [k] s s1.
Proof.
  intros HP. split.
  - intros x Hx. apply (np_kl _ _ _ _ _ HP). left. exact Hx.
  - intros x Hx. apply (np_det _ _ _ _ _ HP). intros ->. apply Hx. left. reflexivity.
Qed.

(* ------------------------------------------------------------------------------------------ *)
(* Step.initialize_row                                                                         *)
(* ------------------------------------------------------------------------------------------ *)
Lemma step_row_inv l creator cdet nd s s1 :
  Inv hh s -> NPost (KStep, l) creator cdet s s1 ->
  Inv hh (set_steps s1 (filter (fun r => negb (str_eqb (sl r) l)) (steps s1) ++ [mkS l SPending nd false 0 0])).
Proof.
  intros HI HP. destruct (NPost_deps _ _ _ _ _ HI HP) as [HD HA].
  pose proof (inv_rw _ HI) as [R1 R2 R3 R4 R5 R6 R7].
  assert (HSL : forall x, In x (SL (filter (fun r => negb (str_eqb (sl r) l)) (steps s1) ++ [mkS l SPending nd false 0 0]))
                          <-> In x (SL (steps s)) \/ x = l).
  { intros x. unfold SL at 1. rewrite map_app, in_app_iff. fold (SL (filter (fun r => negb (str_eqb (sl r) l)) (steps s1))).
    rewrite In_SL_filter, (np_steps _ _ _ _ _ HP). cbn. destruct (str_eq_dec x l) as [->|Hne]; [tauto|].
    split; [intros [[H _]|[H|[]]]; auto | intros [H|H]; [left; auto | contradiction]]. }
  constructor; cbn [nodes files steps deps shash envs set_steps].
  - apply (np_nw _ _ _ _ _ HP).
  - constructor.
    + rewrite (np_files _ _ _ _ _ HP). exact R1.
    + unfold SL. rewrite map_app. cbn. apply NoDup_app_single.
      * fold (SL (filter (fun r => negb (str_eqb (sl r) l)) (steps s1))). unfold SL. apply NoDup_map_filter.
        rewrite (np_steps _ _ _ _ _ HP). exact R2.
      * fold (SL (filter (fun r => negb (str_eqb (sl r) l)) (steps s1))). rewrite In_SL_filter. tauto.
    + intros x. rewrite (np_files _ _ _ _ _ HP), (np_kl _ _ _ _ _ HP), R3.
      split; [auto | intros [H|H]; [exact H | discriminate]].
    + intros x. rewrite HSL, (np_kl _ _ _ _ _ HP), R4.
      split; (intros [H|H]; [left; exact H | right; congruence]).
    + apply (np_hnd _ _ _ _ _ HP).
    + intros x Hx. apply HSL. left. apply R6. apply (np_hincl _ _ _ _ _ HP). exact Hx.
    + rewrite (np_envs _ _ _ _ _ HP). intros x Hx. apply HSL. left. apply R7. exact Hx.
  - exact HD.
  - exact HA.
  - rewrite (np_files _ _ _ _ _ HP). apply (NPost_ud _ _ _ _ _ _ HI HP); [apply incl_refl | discriminate].
  - rewrite (np_files _ _ _ _ _ HP). apply (inv_fh _ HI).
  - intros r Hr. apply in_app_or in Hr. destruct Hr as [Hr|[<-|[]]]; [|destruct hh; reflexivity].
    apply filter_In in Hr. destruct Hr as [Hr _]. rewrite (np_steps _ _ _ _ _ HP) in Hr. apply (inv_sw _ HI). exact Hr.
  - rewrite (np_files _ _ _ _ _ HP). apply (NPost_oe _ _ _ _ _ HI HP).
Qed.

(* ------------------------------------------------------------------------------------------ *)
(* File.initialize_row                                                                         *)
(* ------------------------------------------------------------------------------------------ *)
(* the creator of a file that is (re)declared in an OUTPUT state is not a SUCCEEDED step *)
Definition creator_quiet (creator : option key) (f : fstate) (s : st) : Prop :=
  forall x, creator = Some (KStep, x) -> f <> FUnconfirmed -> f <> FVolatile ->
            sstate_of x s <> Some SSucceeded.

Lemma wpg_conj_lax {A} strict (r : res A) (Q1 Q2 : A -> Prop) :
  wpg strict r Q1 -> wpg false r Q2 -> wpg strict r (fun a => Q1 a /\ Q2 a).
Proof. destruct r, strict; cbn; auto. Qed.

Lemma NPost_V k creator cdet s s1 x f' :
  NPost k creator cdet s s1 -> (KFile, f') <> k ->
  sstate_of x s1 = Some SSucceeded -> creator_of (KFile, f') s1 = Some (KStep, x) ->
  sstate_of x s = Some SSucceeded /\ creator_of (KFile, f') s = Some (KStep, x).
Proof.
  intros HP Hne A B. split.
  - unfold sstate_of, find_step in *. rewrite (np_steps _ _ _ _ _ HP) in A. exact A.
  - rewrite creator_of_findn in *. destruct (findn (KFile, f') (nodes s1)) as [n1|] eqn:Hn1; [|discriminate].
    destruct (np_cre _ _ _ _ _ HP _ _ Hne Hn1) as [n0 [Hn0 [Hc|Hc]]]; rewrite Hn0; congruence.
Qed.

Lemma NPost_hash k creator cdet s s1 x : NPost k creator cdet s s1 -> has_hash x s1 = true -> has_hash x s = true.
Proof.
  intros HP. unfold has_hash. rewrite !existsb_exists. intros [y [Hy1 Hy2]]. exists y.
  split; [apply (np_hincl _ _ _ _ _ HP); exact Hy1 | exact Hy2].
Qed.

Lemma file_row_spec strict l creator cdet f s s1 :
  Inv hh s -> NPost (KFile, l) creator cdet s s1 ->
  (f = FUndeclared -> creator = None /\ cdet = true) ->
  (strict = true -> needs_hash f = false) ->
  wpg strict (file_initialize_row l f s1)
      (fun s' => Inv hh s' /\ nodes s' = nodes s1 /\
                 (exists st, fstate_of l s' = Some st /\ (st = f \/ out_state st = true)) /\
                 (creator_quiet creator f s -> GG s s')).
Proof.
  intros HI HP Hund Hst. destruct (NPost_deps _ _ _ _ _ HI HP) as [HD HA].
  pose proof (inv_rw _ HI) as [R1 R2 R3 R4 R5 R6 R7].
  unfold file_initialize_row.
  assert (Hff : find_file l s1 = findf l (files s)).
  { unfold find_file. rewrite (np_files _ _ _ _ _ HP). reflexivity. }
  rewrite Hff. destruct (findf l (files s)) as [r0|] eqn:Hold.
  - (* the row exists: the node existed *)
    set (state := match f with
                  | FUndeclared => match fstt r0 with FBuilt => FBuilt | FOutdated => FOutdated | FVolatile => FVolatile | _ => f end
                  | FPlanned => match fstt r0 with FBuilt => FBuilt | FOutdated => FOutdated | _ => f end
                  | _ => f end).
    assert (Hstate : state = f \/ ((f = FUndeclared \/ f = FPlanned) /\ state = fstt r0 /\ (state = FBuilt \/ state = FOutdated))
                     \/ (f = FUndeclared /\ state = FVolatile)).
    { unfold state. destruct f; auto; destruct (fstt r0); auto 7. }
    replace (match f with
             | FUndeclared => match fstt r0 with FBuilt => FBuilt | FOutdated => FOutdated | FVolatile => FVolatile | _ => f end
             | FPlanned => match fstt r0 with FBuilt => FBuilt | FOutdated => FOutdated | _ => f end
             | _ => f end) with state by (unfold state; destruct f; reflexivity).
    pose proof (findf_In _ _ _ Hold) as [Hr0in Hr0l].
    assert (HkKL : In (KFile, l) (KL (nodes s))).
    { apply R3. rewrite <- Hr0l. apply in_map. exact Hr0in. }
    assert (HIU : InvU hh s1).
    { constructor.
      - apply (np_nw _ _ _ _ _ HP).
      - rewrite (np_files _ _ _ _ _ HP), (np_steps _ _ _ _ _ HP), (np_envs _ _ _ _ _ HP). constructor; try assumption.
        + intros x. rewrite (np_kl _ _ _ _ _ HP), R3. split; [auto | intros [H|H]; [exact H | inversion H; subst; exact HkKL]].
        + intros x. rewrite (np_kl _ _ _ _ _ HP), R4. split; [auto | intros [H|H]; [exact H | discriminate]].
        + apply (np_hnd _ _ _ _ _ HP).
        + eapply incl_tran; [apply (np_hincl _ _ _ _ _ HP) | exact R6].
      - exact HD.
      - exact HA.
      - rewrite (np_files _ _ _ _ _ HP). apply (inv_fh _ HI).
      - rewrite (np_steps _ _ _ _ _ HP). apply (inv_sw _ HI).
      - rewrite (np_files _ _ _ _ _ HP). apply (NPost_oe _ _ _ _ _ HI HP). }
    apply wpg_bind. unfold set_fstate. eapply wpg_weaken.
    { apply (@set_fstate_hash_gen hh); [exact HIU | | | |].
      - rewrite (np_files _ _ _ _ _ HP). apply (NPost_ud _ _ _ _ _ _ HI HP).
        + intros r Hr. apply filter_In in Hr. tauto.
        + intros r Hr. apply filter_In in Hr. destruct Hr as [_ Hr]. apply negb_true_iff in Hr.
          apply str_eqb_neq in Hr. congruence.
      - intros Hsu n Hn. rewrite (np_k _ _ _ _ _ HP) in Hn. inversion Hn; subst n. cbn.
        apply Hund. destruct Hstate as [Hs|[[_ [Hs [Hs'|Hs']]]|[_ Hs]]]; congruence.
      - intros d sl Hd _ Hk. exfalso. rewrite (np_deps _ _ _ _ _ HP) in Hd. apply filter_In in Hd.
        destruct Hd as [_ Hd]. rewrite Hk, key_eqb_refl in Hd. discriminate.
      - intros Hs Hnh r Hr. rewrite Hff in Hr. inversion Hr; subst r.
        destruct Hstate as [Hs1|[[_ [Hs1 Hs2]]|[_ Hs1]]]; [rewrite Hs1, (Hst Hs) in Hnh; discriminate| |rewrite Hs1 in Hnh; discriminate].
        pose proof (inv_fh _ HI r0 Hr0in) as Hok. unfold fh_ok_b in Hok. rewrite <- Hs1 in Hok.
        destruct Hs2 as [Hs2|Hs2]; rewrite Hs2 in Hok; destruct (fh r0); discriminate. }
    intros s2 [HI2 [HSO2 [Hsteps2 [Hsh2 [Hoth2 [Hnew2 _]]]]]].
    assert (Hne : find_file l s1 <> None). { rewrite Hff. discriminate. }
    specialize (HI2 Hne). specialize (Hnew2 Hne).
    assert (Hst2 : state = f \/ out_state state = true).
    { destruct Hstate as [Hs|[[_ [_ [Hs|Hs]]]|[_ Hs]]]; [left; exact Hs | right; rewrite Hs; reflexivity | right; rewrite Hs; reflexivity | right; rewrite Hs; reflexivity]. }
    (* the creator (if a step) is not SUCCEEDED whenever the row ends up PLANNED / OUTDATED / BUILT-kept *)
    assert (Hcq : creator_quiet creator f s -> forall x, creator = Some (KStep, x) ->
                  (state = FPlanned \/ state = FOutdated \/ state = FBuilt) -> sstate_of x s <> Some SSucceeded).
    { intros Hq x Hx Hs. destruct Hstate as [Hsf|[[[Hf|Hf] _]|[_ Hv]]].
      - apply (Hq x Hx); intros He; rewrite He in Hsf; rewrite Hsf in Hs; destruct Hs as [Hs|[Hs|Hs]]; discriminate.
      - destruct (Hund Hf) as [Hn _]. congruence.
      - apply (Hq x Hx); rewrite Hf; discriminate.
      - rewrite Hv in Hs. destruct Hs as [Hs|[Hs|Hs]]; discriminate. }
    assert (G12 : creator_quiet creator f s -> GG s s2).
    { intros Hq. constructor.
      - intros x. unfold sstate_of, find_step. rewrite Hsteps2, (np_steps _ _ _ _ _ HP). auto.
      - intros x. unfold sstate_of, find_step. rewrite Hsteps2, (np_steps _ _ _ _ _ HP). auto.
      - intros x Hx. apply (NPost_hash _ _ _ _ _ _ HP). unfold has_hash in *. rewrite Hsh2 in Hx. exact Hx.
      - intros x f' [A [B C]].
        assert (A1 : sstate_of x s1 = Some SSucceeded). { unfold sstate_of, find_step in *. rewrite Hsteps2 in A. exact A. }
        assert (B1 : creator_of (KFile, f') s1 = Some (KStep, x)). { rewrite <- (SO_creator_of _ _ _ HSO2). exact B. }
        destruct (str_eq_dec f' l) as [->|Hnl].
        + exfalso. rewrite creator_of_findn, (np_k _ _ _ _ _ HP) in B1. cbn in B1.
          assert (A0 : sstate_of x s = Some SSucceeded). { unfold sstate_of, find_step in *. rewrite (np_steps _ _ _ _ _ HP) in A1. exact A1. }
          apply (Hcq Hq x B1); [|exact A0]. unfold po in C. rewrite Hnew2 in C.
          destruct C as [C|C]; inversion C; auto.
        + assert (Hk : (KFile, f') <> (KFile, l)) by congruence.
          destruct (NPost_V _ _ _ _ _ _ _ HP Hk A1 B1) as [A0 B0]. split; [exact A0|]. split; [exact B0|].
          unfold po, fstate_of in *. rewrite (Hoth2 f' Hnl) in C. unfold find_file in *.
          rewrite (np_files _ _ _ _ _ HP) in C. exact C. }
    assert (Hdone : wpg strict (Ok s2) (fun s' => Inv hh s' /\ nodes s' = nodes s1 /\
                       (exists st, fstate_of l s' = Some st /\ (st = f \/ out_state st = true)) /\
                       (creator_quiet creator f s -> GG s s'))).
    { cbn. split; [exact HI2|]. split; [apply (so_nodes _ _ HSO2)|]. split; [exists state; auto | exact G12]. }
    destruct state eqn:Estate; try exact Hdone.
    destruct (mark_file_outdated l s2) as [s3|t3|t3] eqn:Em.
    + pose proof (@mark_file_outdated_spec hh strict l s2 HI2 (fun _ => or_introl Hnew2)) as Hm. rewrite Em in Hm.
      cbn in Hm. destruct Hm as [HI3 [HSO3 HO3]]. cbn [wpg].
      split; [exact HI3|]. split; [rewrite (so_nodes _ _ HSO3); apply (so_nodes _ _ HSO2)|]. split.
      * destruct (HO3 l) as [Ho|[_ Ho]]; [exists FBuilt | exists FOutdated]; (split; [congruence | right; reflexivity]).
      * intros Hq. eapply GG_trans; [apply G12; exact Hq|].
        assert (Hg : wpg false (mark_file_outdated l s2) (GG s2)).
        { apply (@mark_file_outdated_GG hh); [exact HI2|]. intros x Hx Hs.
          rewrite (SO_creator_of _ _ _ HSO2), creator_of_findn, (np_k _ _ _ _ _ HP) in Hx. cbn in Hx.
          apply (Hcq Hq x Hx); [auto|]. unfold sstate_of, find_step in *. rewrite Hsteps2, (np_steps _ _ _ _ _ HP) in Hs. exact Hs. }
        rewrite Em in Hg. exact Hg.
    + exact I.
    + pose proof (@mark_file_outdated_spec hh strict l s2 HI2 (fun _ => or_introl Hnew2)) as Hm. rewrite Em in Hm. exact Hm.
  - (* no row: the node is new *)
    assert (HkKL : ~ In (KFile, l) (KL (nodes s))).
    { intros H. apply R3 in H. apply findf_none in Hold. contradiction. }
    replace (match f with FUndeclared => f | FPlanned => f | _ => f end) with f by (destruct f; reflexivity).
    destruct (needs_hash f) eqn:Enh.
    { cbn [bind]. destruct strict; [|exact I]. cbn. specialize (Hst eq_refl). discriminate. }
    assert (Echk : fstate_eqb f FUndeclared && negb (is_detached (KFile, l) s1) = false).
    { destruct (fstate_eqb f FUndeclared) eqn:E; [|reflexivity]. apply fstate_eqb_eq in E.
      rewrite is_detached_findn, (np_k _ _ _ _ _ HP). cbn. destruct (Hund E) as [_ ->]. reflexivity. }
    rewrite Echk. cbn [bind].
    set (s2 := set_files s1 (files s1 ++ [mkF l f None])).
    assert (HI2 : Inv hh s2).
    { constructor; cbn [nodes files steps deps shash envs set_files s2].
      - apply (np_nw _ _ _ _ _ HP).
      - rewrite (np_files _ _ _ _ _ HP), (np_steps _ _ _ _ _ HP), (np_envs _ _ _ _ _ HP). constructor; try assumption.
        + unfold FL. rewrite map_app. cbn. apply NoDup_app_single; [exact R1 | apply findf_none; exact Hold].
        + intros x. unfold FL. rewrite map_app, in_app_iff. fold (FL (files s)). cbn.
          rewrite (np_kl _ _ _ _ _ HP), R3. split.
          * intros [H|[H|[]]]; [left; exact H | right; congruence].
          * intros [H|H]; [left; exact H | right; left; congruence].
        + intros x. rewrite (np_kl _ _ _ _ _ HP), R4. split; [auto | intros [H|H]; [exact H | discriminate]].
        + apply (np_hnd _ _ _ _ _ HP).
        + eapply incl_tran; [apply (np_hincl _ _ _ _ _ HP) | exact R6].
      - exact HD.
      - exact HA.
      - rewrite (np_files _ _ _ _ _ HP). intros r Hr Hsu n Hn. apply in_app_or in Hr. destruct Hr as [Hr|[<-|[]]].
        + assert (Hne : (KFile, fl r) <> (KFile, l)).
          { intros He. apply HkKL. rewrite <- He. apply R3. apply in_map. exact Hr. }
          destruct (np_cre _ _ _ _ _ HP _ _ Hne Hn) as [n0 [Hn0 [Hc|Hc]]]; [exact Hc|].
          rewrite Hc. apply (inv_ud _ HI r Hr Hsu n0 Hn0).
        + cbn in Hsu, Hn. rewrite (np_k _ _ _ _ _ HP) in Hn. inversion Hn; subst n. cbn. apply Hund. exact Hsu.
      - rewrite (np_files _ _ _ _ _ HP). intros r Hr. apply in_app_or in Hr. destruct Hr as [Hr|[<-|[]]].
        + apply (inv_fh _ HI). exact Hr.
        + unfold fh_ok_b. cbn. destruct f; try reflexivity; discriminate.
      - rewrite (np_steps _ _ _ _ _ HP). apply (inv_sw _ HI).
      - rewrite (np_files _ _ _ _ _ HP). intros d sl f0 Hd Hs Hk n1 c Hn1 Hc.
        destruct (NPost_oe _ _ _ _ _ HI HP d sl f0 Hd Hs Hk n1 c Hn1 Hc) as [H1 [r [H2 H3]]].
        split; [exact H1|]. exists r. split; [|exact H3]. unfold findf in *. rewrite find_app, H2. reflexivity. }
    assert (Hfs2 : fstate_of l s2 = Some f).
    { rewrite fstate_of_findf. unfold s2. cbn [files set_files]. rewrite (np_files _ _ _ _ _ HP).
      unfold findf in *. rewrite find_app, Hold. cbn. rewrite str_eqb_refl. reflexivity. }
    assert (G12 : creator_quiet creator f s -> GG s s2).
    { intros Hq. constructor.
      - intros x. unfold sstate_of, find_step. cbn [steps set_files s2]. rewrite (np_steps _ _ _ _ _ HP). auto.
      - intros x. unfold sstate_of, find_step. cbn [steps set_files s2]. rewrite (np_steps _ _ _ _ _ HP). auto.
      - intros x Hx. apply (NPost_hash _ _ _ _ _ _ HP). exact Hx.
      - intros x f' [A [B C]].
        assert (A1 : sstate_of x s1 = Some SSucceeded) by exact A.
        assert (B1 : creator_of (KFile, f') s1 = Some (KStep, x)) by exact B.
        destruct (str_eq_dec f' l) as [->|Hnl].
        + exfalso. rewrite creator_of_findn, (np_k _ _ _ _ _ HP) in B1. cbn in B1.
          assert (A0 : sstate_of x s = Some SSucceeded). { unfold sstate_of, find_step in *. rewrite (np_steps _ _ _ _ _ HP) in A1. exact A1. }
          unfold po in C. rewrite Hfs2 in C.
          apply (Hq x B1); [| |exact A0]; intros He; rewrite He in C; destruct C as [C|C]; discriminate.
        + assert (Hk : (KFile, f') <> (KFile, l)) by congruence.
          destruct (NPost_V _ _ _ _ _ _ _ HP Hk A1 B1) as [A0 B0]. split; [exact A0|]. split; [exact B0|].
          unfold po in *. rewrite !fstate_of_findf in *. unfold s2 in C. cbn [files set_files] in C.
          rewrite (np_files _ _ _ _ _ HP) in C. unfold findf in *. rewrite find_app in C.
          destruct (find (fun f0 => str_eqb (fl f0) f') (files s)) as [r|]; [exact C|].
          cbn in C. apply str_eqb_neq in Hnl. rewrite str_eqb_sym, Hnl in C. cbn in C. destruct C; discriminate. }
    destruct f; try discriminate; cbn;
      (split; [exact HI2 | split; [reflexivity | split; [eexists; split; [exact Hfs2 | left; reflexivity] | exact G12]]]).
Qed.

(* ------------------------------------------------------------------------------------------ *)
(* Trellis.create                                                                              *)
(* ------------------------------------------------------------------------------------------ *)
(* StaticTree has no satellite row *)
Lemma tree_row_inv p creator cdet s s1 :
  Inv hh s -> NPost (KTree, p) creator cdet s s1 -> Inv hh s1.
Proof.
  intros HI HP. destruct (NPost_deps _ _ _ _ _ HI HP) as [HD HA].
  pose proof (inv_rw _ HI) as [R1 R2 R3 R4 R5 R6 R7].
  constructor.
  - apply (np_nw _ _ _ _ _ HP).
  - rewrite (np_files _ _ _ _ _ HP), (np_steps _ _ _ _ _ HP), (np_envs _ _ _ _ _ HP). constructor; try assumption.
    + intros x. rewrite (np_kl _ _ _ _ _ HP), R3. split; [auto | intros [H|H]; [exact H | discriminate]].
    + intros x. rewrite (np_kl _ _ _ _ _ HP), R4. split; [auto | intros [H|H]; [exact H | discriminate]].
    + apply (np_hnd _ _ _ _ _ HP).
    + eapply incl_tran; [apply (np_hincl _ _ _ _ _ HP) | exact R6].
  - exact HD.
  - exact HA.
  - rewrite (np_files _ _ _ _ _ HP). apply (NPost_ud _ _ _ _ _ _ HI HP); [apply incl_refl | discriminate].
  - rewrite (np_files _ _ _ _ _ HP). apply (inv_fh _ HI).
  - rewrite (np_steps _ _ _ _ _ HP). apply (inv_sw _ HI).
  - rewrite (np_files _ _ _ _ _ HP). apply (NPost_oe _ _ _ _ _ HI HP).
Qed.

Lemma NPost_GG k creator cdet s s1 :
  fst k <> KFile -> NPost k creator cdet s s1 -> GG s s1.
Proof.
  intros Hk HP. constructor.
  - intros x. unfold sstate_of, find_step. rewrite (np_steps _ _ _ _ _ HP). auto.
  - intros x. unfold sstate_of, find_step. rewrite (np_steps _ _ _ _ _ HP). auto.
  - intros x. apply (NPost_hash _ _ _ _ _ _ HP).
  - intros x f' [A [B C]].
    assert (Hne : (KFile, f') <> k). { intros E. apply Hk. rewrite <- E. reflexivity. }
    destruct (NPost_V _ _ _ _ _ _ _ HP Hne A B) as [A0 B0]. split; [exact A0|]. split; [exact B0|].
    unfold po, fstate_of, find_file in *. rewrite (np_files _ _ _ _ _ HP) in C. exact C.
Qed.

Definition arg_ok (k : key) (creator : option key) (arg : init_arg) : Prop :=
  match arg with
  | InitFile f => fst k = KFile /\ (f = FUndeclared -> creator = None)
  | InitStep _ => fst k = KStep
  | InitTree => fst k = KTree
  end.

Lemma NF_nodes_eq K s s1 s' : NF K s s1 -> nodes s' = nodes s1 -> NF K s s'.
Proof.
  intros [H1 H2] He. split; [rewrite He; exact H1|]. intros x Hx Hd.
  rewrite is_detached_findn, He. apply (H2 x Hx Hd).
Qed.

Lemma create_spec strict k creator arg s :
  Inv hh s -> arg_ok k creator arg ->
  (strict = true -> creator_ok k creator s = Ok tt /\ is_detached k s = true /\
                    (forall f, arg = InitFile f -> needs_hash f = false)) ->
  wpg strict (create k creator arg s)
      (fun s' => Inv hh s' /\ NF [k] s s' /\ In k (KL (nodes s')) /\
                 is_detached k s' = cdet_of creator s /\ creator_of k s' = creator /\
                 (forall f, arg = InitFile f ->
                    exists st, fstate_of (snd k) s' = Some st /\ (st = f \/ out_state st = true)) /\
                 ((forall f, arg = InitFile f -> creator_quiet creator f s) -> GG s s') /\
                 (forall nd, arg = InitStep nd -> sstate_of (snd k) s' = Some SPending)).
Proof.
  intros HI Harg Hst. rewrite create_unfold.
  destruct (creator_ok k creator s) as [[]|t|t] eqn:Hco.
  2:{ exact I. }
  2:{ destruct strict; [|exact I]. cbn. destruct (Hst eq_refl) as [H _]. discriminate. }
  cbn [bind]. apply wpg_bind.
  assert (Hkind : fst k <> KRoot).
  { destruct arg; cbn in Harg; [destruct Harg as [H _]; rewrite H; discriminate | rewrite Harg; discriminate | rewrite Harg; discriminate]. }
  eapply wpg_weaken.
  { apply create_nodes_spec; [exact HI | exact Hkind | apply creator_ok_new_node; exact Hco |].
    intros Hs. apply (Hst Hs). }
  intros s1 HP.
  assert (HKin : In k (KL (nodes s1))). { apply (np_kl _ _ _ _ _ HP). right. reflexivity. }
  assert (Hdet1 : is_detached k s1 = cdet_of creator s).
  { rewrite is_detached_findn, (np_k _ _ _ _ _ HP). reflexivity. }
  assert (Hcre1 : creator_of k s1 = creator).
  { unfold creator_of, find_node. fold (findn k (nodes s1)). rewrite (np_k _ _ _ _ _ HP). reflexivity. }
  destruct arg as [f|nd|]; cbn in Harg.
  3:{ destruct k as [kk p]. cbn in Harg. subst kk. cbn [wpg].
      split; [apply (tree_row_inv p creator (cdet_of creator s) s s1 HI HP)|].
      split; [apply (NPost_NF _ _ _ _ _ HP)|]. split; [exact HKin|]. split; [exact Hdet1|]. split; [exact Hcre1|].
      split; [intros f0 Hf0; discriminate|]. split; [intros _; apply (NPost_GG (KTree, p) creator (cdet_of creator s) s s1); [cbn; discriminate | exact HP] | intros nd0 H0; discriminate]. }
  - destruct k as [kk l]. destruct Harg as [Hk Hu]. cbn in Hk. subst kk. cbn [snd].
    eapply wpg_weaken.
    { apply (file_row_spec strict l creator (cdet_of creator s) f s s1 HI HP).
      - intros Hf. split; [apply Hu; exact Hf|]. rewrite (Hu Hf). reflexivity.
      - intros Hs. destruct (Hst Hs) as [_ [_ H]]. apply H. reflexivity. }
    intros s' [HI' [Hn' [Hst' HG']]]. split; [exact HI'|]. split; [|split; [|split; [|split; [|split; [|split]]]]].
    7:{ intros nd0 H0. discriminate. }
    + eapply NF_nodes_eq; [apply (NPost_NF _ _ _ _ _ HP) | exact Hn'].
    + rewrite Hn'. exact HKin.
    + rewrite is_detached_findn, Hn'. exact Hdet1.
    + unfold creator_of, find_node. rewrite Hn'. exact Hcre1.
    + intros f0 Hf0. inversion Hf0; subst f0. exact Hst'.
    + intros Hq. apply HG'. apply Hq. reflexivity.
  - destruct k as [kk l]. cbn in Harg. subst kk. cbn [snd]. unfold step_initialize_row. cbn [wpg].
    split; [apply (step_row_inv l creator (cdet_of creator s) nd s s1 HI HP)|].
    split; [|split; [|split; [|split; [|split; [|split]]]]].
    7:{ intros nd0 _. unfold sstate_of, find_step. cbn [steps set_steps]. rewrite find_app, find_filter.
        destruct (find (fun x0 => negb (str_eqb (sl x0) l) && str_eqb (sl x0) l) (steps s1)) as [r|] eqn:E.
        - exfalso. apply find_some in E. destruct E as [_ E]. apply andb_true_iff in E. destruct E as [E1 E2].
          rewrite E2 in E1. discriminate.
        - cbn. rewrite str_eqb_refl. reflexivity. }
    + eapply NF_nodes_eq; [apply (NPost_NF _ _ _ _ _ HP) | reflexivity].
    + exact HKin.
    + exact Hdet1.
    + exact Hcre1.
    + intros f0 Hf0. discriminate.
    + intros _. set (s' := set_steps s1 _).
      assert (Hss : forall x st', sstate_of x s' = Some st' -> st' = SPending \/ sstate_of x s = Some st').
      { intros x st'. unfold sstate_of, find_step, s'. cbn [steps set_steps]. rewrite find_app, find_filter.
        rewrite (np_steps _ _ _ _ _ HP).
        destruct (find (fun x0 => negb (str_eqb (sl x0) l) && str_eqb (sl x0) x) (steps s)) as [r|] eqn:E.
        - intros H. right. pose proof (find_some _ _ E) as [_ Hr]. apply andb_true_iff in Hr. destruct Hr as [Hr1 Hr2].
          assert (Hfirst : find (fun r0 => str_eqb (sl r0) x) (steps s) = Some r).
          { clear H. revert E. induction (steps s) as [|y ys IH]; cbn; [discriminate|].
            destruct (str_eqb (sl y) x) eqn:Ey.
            - destruct (negb (str_eqb (sl y) l)) eqn:Ek; cbn; [intros H; exact H|].
              intros H. exfalso. apply negb_false_iff in Ek. apply str_eqb_eq in Ek. apply str_eqb_eq in Ey.
              apply str_eqb_eq in Hr2. apply negb_true_iff in Hr1. apply str_eqb_neq in Hr1. congruence.
            - rewrite andb_false_r. exact IH. }
          rewrite Hfirst. exact H.
        - cbn. destruct (str_eqb l x); [|discriminate]. intros H. inversion H. left. reflexivity. }
      constructor.
      * intros x Hx. destruct (Hss x _ Hx) as [A|A]; [discriminate | exact A].
      * intros x Hx. destruct (Hss x _ Hx) as [A|A]; [discriminate | exact A].
      * intros x Hx. apply (NPost_hash _ _ _ _ _ _ HP). exact Hx.
      * intros x f' [A [B C]]. destruct (Hss x _ A) as [A'|A']; [discriminate|].
        assert (Hk : (KFile, f') <> (KStep, l)) by discriminate.
        assert (A1 : sstate_of x s1 = Some SSucceeded).
        { unfold sstate_of, find_step in *. rewrite (np_steps _ _ _ _ _ HP). exact A'. }
        destruct (NPost_V _ _ _ _ _ _ _ HP Hk A1 B) as [A0 B0]. split; [exact A0|]. split; [exact B0|].
        unfold po, fstate_of, find_file in *. cbn [files set_steps s'] in C. rewrite (np_files _ _ _ _ _ HP) in C. exact C.
Qed.

End HH.
