(* C17: proofs about the nglob model.  Part 1: the update law (extend / reduce / will_change
   versus a fresh scan) for an arbitrary matcher, by induction over arbitrary lists. *)
From Coq Require Import List NArith Bool Arith Lia.
From SV Require Import lib.Bytes.
From SV Require Import lib.Regex.
From SV Require Import model.Nglob.
Import ListNotations.
Open Scope N_scope.

Lemma mem_str_In p ps : mem_str p ps = true <-> In p ps.
Proof.
  unfold mem_str. rewrite existsb_exists. split.
  - intros [q [Hin Heq]]. apply str_eqb_eq in Heq. subst. exact Hin.
  - intros Hin. exists p. split; [exact Hin|apply str_eqb_refl].
Qed.

Lemma mem_str_false p ps : mem_str p ps = false <-> ~ In p ps.
Proof.
  rewrite <- mem_str_In. destruct (mem_str p ps); split; intros H; congruence.
Qed.

Lemma NoDup_snoc {A} (l : list A) (x : A) : NoDup l -> ~ In x l -> NoDup (l ++ [x]).
Proof.
  induction l as [|a l IH]; cbn; intros Hnd Hni.
  - constructor; [intros []|constructor].
  - inversion Hnd as [|? ? Ha Hl]; subst. constructor.
    + rewrite in_app_iff. cbn. intros [H|[H|[]]]; [apply Ha; exact H|apply Hni; left; symmetry; exact H].
    + apply IH; [exact Hl|]. intros H. apply Hni. right. exact H.
Qed.

Section ResultsProofs.
  Variable K : Type.
  Variable keqb : K -> K -> bool.
  Hypothesis keqb_spec : forall a b, keqb a b = true <-> a = b.
  Variable mv : str -> option K.

  Notation results := (results K).
  Notation r_get := (r_get keqb).
  Notation r_add := (r_add keqb).
  Notation r_discard := (r_discard keqb).
  Notation extend := (extend keqb mv).
  Notation reduce := (reduce keqb mv).
  Notation extend1 := (extend1 keqb mv).
  Notation reduce1 := (reduce1 keqb mv).
  Notation results_eqb := (results_eqb keqb).
  Notation r_subb := (r_subb keqb).
  Notation will_change := (will_change keqb mv).
  Notation scan := (scan keqb mv).

  Lemma keqb_refl k : keqb k k = true.
  Proof. apply keqb_spec. reflexivity. Qed.

  Lemma keqb_false a b : keqb a b = false <-> a <> b.
  Proof.
    rewrite <- keqb_spec. destruct (keqb a b); split; intros H; congruence.
  Qed.

  (* One group of the dictionary is well formed: non-empty, duplicate-free, and every path in it
     has exactly this key. *)
  Definition wf_group (kp : K * list str) : Prop :=
    snd kp <> [] /\ NoDup (snd kp) /\ (forall p, In p (snd kp) -> mv p = Some (fst kp)).

  Definition wf_results (r : results) : Prop := NoDup (map fst r) /\ Forall wf_group r.

  (* path p is recorded under key k *)
  Definition holds (r : results) (k : K) (p : str) : Prop := exists ps, In (k, ps) r /\ In p ps.

  Lemma wf_nil : wf_results [].
  Proof. split; constructor. Qed.

  Lemma holds_nil k p : ~ holds [] k p.
  Proof. intros [ps [[] _]]. Qed.

  Lemma holds_cons k' ps r k p :
    holds ((k', ps) :: r) k p <-> (k = k' /\ In p ps) \/ holds r k p.
  Proof.
    unfold holds. split.
    - intros [qs [[Heq|Hin] Hp]].
      + inversion Heq; subst. left. split; [reflexivity|exact Hp].
      + right. exists qs. split; assumption.
    - intros [[-> Hp]|[qs [Hin Hp]]].
      + exists ps. split; [left; reflexivity|exact Hp].
      + exists qs. split; [right; exact Hin|exact Hp].
  Qed.

  Lemma r_get_In k r ps : r_get k r = Some ps -> In (k, ps) r.
  Proof.
    induction r as [|[k' qs] r IH]; cbn; [discriminate|].
    destruct (keqb k k') eqn:E.
    - intros H. inversion H; subst. apply keqb_spec in E. subst. left. reflexivity.
    - intros H. right. apply IH. exact H.
  Qed.

  Lemma In_r_get k r ps : NoDup (map fst r) -> In (k, ps) r -> r_get k r = Some ps.
  Proof.
    induction r as [|[k' qs] r IH]; cbn; [intros _ []|].
    intros Hnd [Heq|Hin].
    - inversion Heq; subst. rewrite keqb_refl. reflexivity.
    - inversion Hnd as [|? ? Hni Hnd']; subst.
      destruct (keqb k k') eqn:E.
      + apply keqb_spec in E. subst. exfalso. apply Hni.
        change k' with (fst (k', ps)). apply in_map. exact Hin.
      + apply IH; assumption.
  Qed.

  (* ---- r_add ---- *)

  Lemma r_add_keys k p r x :
    In x (map fst (r_add k p r)) <-> In x (map fst r) \/ x = k.
  Proof.
    induction r as [|[k' ps] r IH]; cbn.
    - split; [intros [H|[]]; right; congruence|intros [[]|H]; left; congruence].
    - destruct (keqb k k') eqn:E; cbn.
      + apply keqb_spec in E. subst. split; [intros H; left; exact H|].
        intros [H|H]; [exact H|left; congruence].
      + rewrite IH. tauto.
  Qed.

  Lemma set_add_In p ps q : In q (set_add p ps) <-> In q ps \/ q = p.
  Proof.
    unfold set_add. destruct (mem_str p ps) eqn:E.
    - apply mem_str_In in E. split; [intros H; left; exact H|]. intros [H|H]; [exact H|subst; exact E].
    - rewrite in_app_iff. cbn [In]. split.
      + intros [H|[H|[]]]; [left; exact H|right; congruence].
      + intros [H|H]; [left; exact H|right; left; congruence].
  Qed.

  Lemma set_add_NoDup p ps : NoDup ps -> NoDup (set_add p ps).
  Proof.
    unfold set_add. intros Hnd. destruct (mem_str p ps) eqn:E; [exact Hnd|].
    apply mem_str_false in E. apply NoDup_snoc; assumption.
  Qed.

  Lemma r_add_wf k p r : mv p = Some k -> wf_results r -> wf_results (r_add k p r).
  Proof.
    intros Hmv [Hnd Hall]. induction r as [|[k' ps] r IH]; cbn.
    - split; [constructor; [intros []|constructor]|].
      constructor; [|constructor]. repeat split; cbn.
      + discriminate.
      + constructor; [intros []|constructor].
      + intros q [<-|[]]. exact Hmv.
    - inversion Hnd as [|? ? Hni Hnd']; subst. inversion Hall as [|? ? Hg Hall']; subst.
      destruct (keqb k k') eqn:E.
      + apply keqb_spec in E. subst k'. split; [exact Hnd|].
        constructor; [|exact Hall']. destruct Hg as [Hne [Hnd1 Hk]]. cbn [fst snd] in *.
        repeat split; cbn [fst snd].
        * intros Heq. assert (Hin : In p (set_add p ps)) by (apply set_add_In; right; reflexivity).
          rewrite Heq in Hin. destruct Hin.
        * apply set_add_NoDup. exact Hnd1.
        * intros q Hq. apply set_add_In in Hq as [Hq| ->]; [apply Hk; exact Hq|exact Hmv].
      + destruct (IH Hnd' Hall') as [Hnd2 Hall2]. split.
        * cbn. constructor; [|exact Hnd2]. rewrite r_add_keys. intros [H|H]; [apply Hni; exact H|].
          apply keqb_false in E. congruence.
        * constructor; assumption.
  Qed.

  Lemma r_add_holds k p r k' q :
    holds (r_add k p r) k' q <-> holds r k' q \/ (k' = k /\ q = p).
  Proof.
    induction r as [|[k0 ps] r IH]; cbn.
    - rewrite holds_cons. split.
      + intros [[-> [<-|[]]]|H]; [right; split; reflexivity|exfalso; eapply holds_nil; exact H].
      + intros [H|[-> ->]]; [exfalso; eapply holds_nil; exact H|]. left. split; [reflexivity|left; reflexivity].
    - destruct (keqb k k0) eqn:E.
      + apply keqb_spec in E. subst k0. rewrite !holds_cons, set_add_In. tauto.
      + rewrite !holds_cons, IH. tauto.
  Qed.

  (* ---- r_discard ---- *)

  Lemma set_discard_In p ps q : In q (set_discard p ps) <-> In q ps /\ q <> p.
  Proof.
    unfold set_discard. rewrite filter_In. split; intros [H1 H2]; split; try exact H1.
    - intros ->. rewrite str_eqb_refl in H2. discriminate.
    - destruct (str_eqb p q) eqn:E; [|reflexivity]. apply str_eqb_eq in E. congruence.
  Qed.

  Lemma r_discard_keys k p r x : In x (map fst (r_discard k p r)) -> In x (map fst r).
  Proof.
    induction r as [|[k' ps] r IH]; cbn; [intros []|].
    destruct (keqb k k') eqn:E.
    - destruct (is_nil (set_discard p ps)); cbn; tauto.
    - cbn. intros [H|H]; [left; exact H|right; apply IH; exact H].
  Qed.

  Lemma r_discard_wf k p r : wf_results r -> wf_results (r_discard k p r).
  Proof.
    intros [Hnd Hall]. induction r as [|[k' ps] r IH]; cbn; [split; constructor|].
    inversion Hnd as [|? ? Hni Hnd']; subst. inversion Hall as [|? ? Hg Hall']; subst.
    destruct (keqb k k') eqn:E.
    - destruct (is_nil (set_discard p ps)) eqn:En; [split; assumption|].
      split; [exact Hnd|]. constructor; [|exact Hall'].
      destruct Hg as [Hne [Hnd1 Hk]]. cbn [fst snd] in *. repeat split; cbn [fst snd].
      + intros Heq. rewrite Heq in En. discriminate.
      + apply NoDup_filter. exact Hnd1.
      + intros q Hq. apply set_discard_In in Hq as [Hq _]. apply Hk. exact Hq.
    - destruct (IH Hnd' Hall') as [Hnd2 Hall2]. split.
      + cbn. constructor; [|exact Hnd2]. intros H. apply Hni. eapply r_discard_keys. exact H.
      + constructor; assumption.
  Qed.

  Lemma is_nil_true {A} (l : list A) : is_nil l = true <-> l = [].
  Proof. destruct l; cbn; split; congruence. Qed.

  Lemma r_discard_holds k p r k' q : mv p = Some k -> wf_results r ->
    (holds (r_discard k p r) k' q <-> holds r k' q /\ q <> p).
  Proof.
    intros Hmv [Hnd Hall]. induction r as [|[k0 ps] r IH]; cbn.
    - split; [intros H; exfalso; eapply holds_nil; exact H|intros [H _]; exact H].
    - inversion Hnd as [|? ? Hni Hnd']; subst. inversion Hall as [|? ? Hg Hall']; subst.
      (* a path equal to p can only be recorded under key k *)
      assert (Hother : forall r0, Forall wf_group r0 -> ~ In k (map fst r0) -> forall kk, holds r0 kk q -> q <> p).
      { intros r0 Hw Hnk kk [qs [Hin Hq]] ->. rewrite Forall_forall in Hw.
        destruct (Hw _ Hin) as [_ [_ Hkk]]. cbn [fst snd] in Hkk. specialize (Hkk _ Hq).
        rewrite Hmv in Hkk. inversion Hkk; subst. apply Hnk.
        change kk with (fst (kk, qs)). apply in_map. exact Hin. }
      destruct (keqb k k0) eqn:E.
      + apply keqb_spec in E. subst k0.
        destruct (is_nil (set_discard p ps)) eqn:En.
        * apply is_nil_true in En. rewrite holds_cons. split.
          -- intros H. split; [right; exact H|]. eapply Hother; eassumption.
          -- intros [[[-> Hq]|H] Hne]; [|exact H].
             assert (Hin : In q (set_discard p ps)) by (apply set_discard_In; split; assumption).
             rewrite En in Hin. destruct Hin.
        * rewrite !holds_cons, set_discard_In. split.
          -- intros [[-> [Hq Hne]]|H]; [split; [left; split; [reflexivity|exact Hq]|exact Hne]|].
             split; [right; exact H|]. eapply Hother; eassumption.
          -- intros [[[-> Hq]|H] Hne]; [left; repeat split; assumption|right; exact H].
      + rewrite !holds_cons, (IH Hnd' Hall'). apply keqb_false in E. split.
        * intros [[-> Hq]|[H Hne]]; [|split; [right; exact H|exact Hne]].
          split; [left; split; [reflexivity|exact Hq]|].
          intros ->. destruct Hg as [_ [_ Hk]]. cbn [fst snd] in Hk. specialize (Hk _ Hq).
          rewrite Hmv in Hk. inversion Hk. congruence.
        * intros [[[-> Hq]|H] Hne]; [left; split; [reflexivity|exact Hq]|right; split; assumption].
  Qed.

  (* ---- extend / reduce over arbitrary lists ---- *)

  Lemma extend_spec paths : forall r, wf_results r ->
    wf_results (extend r paths) /\
    (forall k q, holds (extend r paths) k q <-> holds r k q \/ (In q paths /\ mv q = Some k)).
  Proof.
    induction paths as [|p paths IH]; intros r Hwf; cbn [Nglob.extend fold_left].
    - split; [exact Hwf|]. intros k q. cbn. tauto.
    - unfold Nglob.extend1 at 2 4. destruct (mv p) as [kp|] eqn:Hmv.
      + destruct (IH (r_add kp p r) (r_add_wf _ _ _ Hmv Hwf)) as [Hw Hh]. split; [exact Hw|].
        intros k q. rewrite Hh, r_add_holds. cbn [In]. split.
        * intros [[H|[-> ->]]|[Hin Hq]]; [left; exact H|right; split; [left; reflexivity|exact Hmv]|].
          right. split; [right; exact Hin|exact Hq].
        * intros [H|[[<-|Hin] Hq]]; [left; left; exact H| |right; split; assumption].
          left. right. split; [congruence|reflexivity].
      + destruct (IH r Hwf) as [Hw Hh]. split; [exact Hw|].
        intros k q. rewrite Hh. cbn [In]. split.
        * intros [H|[Hin Hq]]; [left; exact H|right; split; [right; exact Hin|exact Hq]].
        * intros [H|[[<-|Hin] Hq]]; [left; exact H|congruence|right; split; assumption].
  Qed.

  Lemma reduce_spec paths : forall r, wf_results r ->
    wf_results (reduce r paths) /\
    (forall k q, holds (reduce r paths) k q <-> holds r k q /\ ~ In q paths).
  Proof.
    induction paths as [|p paths IH]; intros r Hwf; cbn [Nglob.reduce fold_left].
    - split; [exact Hwf|]. intros k q. cbn. tauto.
    - unfold Nglob.reduce1 at 2 4. destruct (mv p) as [kp|] eqn:Hmv.
      + destruct (IH (r_discard kp p r) (r_discard_wf _ _ _ Hwf)) as [Hw Hh]. split; [exact Hw|].
        intros k q. rewrite Hh, (r_discard_holds _ _ _ _ _ Hmv Hwf). cbn [In]. split.
        * intros [[H Hne] Hni]. split; [exact H|]. intros [Heq|Hin]; [congruence|contradiction].
        * intros [H Hni]. repeat split; [exact H| |]; intros Hx; apply Hni; [left; congruence|right; exact Hx].
      + destruct (IH r Hwf) as [Hw Hh]. split; [exact Hw|].
        intros k q. rewrite Hh. cbn [In]. split.
        * intros [H Hni]. split; [exact H|]. intros [Heq|Hin]; [|contradiction].
          subst q. destruct H as [qs [Hin Hq]]. destruct Hwf as [_ Hall]. rewrite Forall_forall in Hall.
          destruct (Hall _ Hin) as [_ [_ Hk]]. cbn [fst snd] in Hk. specialize (Hk _ Hq). congruence.
        * intros [H Hni]. split; [exact H|]. intros Hx. apply Hni. right. exact Hx.
  Qed.

  (* ---- dictionary equality ---- *)

  Definition same_content (a b : results) : Prop := forall k p, holds a k p <-> holds b k p.

  Lemma set_subb_spec a b : set_subb a b = true <-> (forall p, In p a -> In p b).
  Proof.
    unfold set_subb. rewrite forallb_forall. split; intros H p Hp.
    - apply mem_str_In. apply H. exact Hp.
    - apply mem_str_In. apply H. exact Hp.
  Qed.

  Lemma set_eqb_spec a b : set_eqb a b = true <-> (forall p, In p a <-> In p b).
  Proof.
    unfold set_eqb. rewrite andb_true_iff, !set_subb_spec. split.
    - intros [H1 H2] p. split; [apply H1|apply H2].
    - intros H. split; intros p; apply H.
  Qed.

  Lemma r_subb_spec a b : wf_results a -> wf_results b ->
    (r_subb a b = true <-> (forall k ps, In (k, ps) a -> exists qs, In (k, qs) b /\ forall p, In p ps <-> In p qs)).
  Proof.
    intros Hwa [Hndb _]. unfold Nglob.r_subb. rewrite forallb_forall. split.
    - intros H k ps Hin. specialize (H _ Hin). cbn [fst snd] in H.
      destruct (r_get k b) as [qs|] eqn:E; [|discriminate].
      exists qs. split; [apply r_get_In; exact E|apply set_eqb_spec; exact H].
    - intros H [k ps] Hin. cbn [fst snd]. destruct (H _ _ Hin) as [qs [Hq Heq]].
      rewrite (In_r_get _ _ _ Hndb Hq). apply set_eqb_spec. exact Heq.
  Qed.

  Lemma results_eqb_spec a b : wf_results a -> wf_results b ->
    (results_eqb a b = true <-> same_content a b).
  Proof.
    intros Hwa Hwb. unfold Nglob.results_eqb. rewrite andb_true_iff.
    rewrite (r_subb_spec a b Hwa Hwb), (r_subb_spec b a Hwb Hwa). unfold same_content. split.
    - intros [H1 H2] k p. split; intros [ps [Hin Hp]].
      + destruct (H1 _ _ Hin) as [qs [Hq Heq]]. exists qs. split; [exact Hq|apply Heq; exact Hp].
      + destruct (H2 _ _ Hin) as [qs [Hq Heq]]. exists qs. split; [exact Hq|apply Heq; exact Hp].
    - intros H.
      assert (Hdir : forall x y : results, wf_results x -> wf_results y ->
                (forall k p, holds x k p -> holds y k p) -> (forall k p, holds y k p -> holds x k p) ->
                forall k ps, In (k, ps) x -> exists qs, In (k, qs) y /\ forall p, In p ps <-> In p qs).
      { intros x y [Hndx Hallx] [Hndy Hally] Hxy Hyx k ps Hin.
        rewrite Forall_forall in Hallx. destruct (Hallx _ Hin) as [Hne _]. cbn [snd] in Hne.
        destruct ps as [|p0 ps0]; [congruence|].
        destruct (Hxy k p0) as [qs [Hq _]]; [exists (p0 :: ps0); split; [exact Hin|left; reflexivity]|].
        exists qs. split; [exact Hq|]. intros p. split; intros Hp.
        - destruct (Hxy k p) as [qs' [Hq' Hp']]; [exists (p0 :: ps0); split; assumption|].
          assert (Some qs' = Some qs) as Heq by (rewrite <- (In_r_get _ _ _ Hndy Hq'), <- (In_r_get _ _ _ Hndy Hq); reflexivity).
          inversion Heq; subst. exact Hp'.
        - destruct (Hyx k p) as [ps' [Hq' Hp']]; [exists qs; split; assumption|].
          assert (Some ps' = Some (p0 :: ps0)) as Heq by (rewrite <- (In_r_get _ _ _ Hndx Hq'), <- (In_r_get _ _ _ Hndx Hin); reflexivity).
          inversion Heq; subst. exact Hp'. }
      split; apply Hdir; try assumption; intros k p; apply H.
  Qed.

  Lemma files_In r p : In p (files r) <-> exists k, holds r k p.
  Proof.
    unfold files. rewrite in_flat_map. split.
    - intros [[k ps] [Hin Hp]]. exists k, ps. split; assumption.
    - intros [k [ps [Hin Hp]]]. exists (k, ps). split; assumption.
  Qed.

  Definition accepted_by (p : str) : bool := match mv p with Some _ => true | None => false end.

  (* ---- the update law ---- *)

  Lemma scan_spec fs : wf_results (scan fs) /\ (forall k q, holds (scan fs) k q <-> In q fs /\ mv q = Some k).
  Proof.
    destruct (extend_spec fs [] wf_nil) as [Hw Hh]. split; [exact Hw|].
    intros k q. unfold Nglob.scan. rewrite Hh. split; [intros [H|H]; [exfalso; eapply holds_nil; exact H|exact H]|auto].
  Qed.

  Theorem update_equals_rescan_gen :
    forall (old : results) (fs fs' added deleted : list str),
      wf_results old ->
      results_eqb old (scan fs) = true ->
      (forall p, In p added -> In p fs') ->
      (forall p, In p deleted -> ~ In p fs') ->
      (forall p, accepted_by p = true -> (In p fs' <-> (In p fs /\ ~ In p deleted) \/ In p added)) ->
      let upd := reduce (extend old added) deleted in
      wf_results upd
      /\ results_eqb upd (scan fs') = true
      /\ (forall p, In p (files upd) <-> In p (filter accepted_by fs'))
      /\ (will_change old deleted added = None <-> results_eqb old (scan fs') = true).
  Proof.
    intros old fs fs' added deleted Hwf Hold Hadd Hdel Hfs upd.
    destruct (scan_spec fs) as [Hwfs Hhs]. destruct (scan_spec fs') as [Hwfs' Hhs'].
    apply (results_eqb_spec _ _ Hwf Hwfs) in Hold.
    destruct (extend_spec added old Hwf) as [Hwe Hhe].
    destruct (reduce_spec deleted _ Hwe) as [Hwu Hhu]. fold upd in Hwu, Hhu.
    assert (Hsame : same_content upd (scan fs')).
    { intros k p. rewrite Hhu, Hhe, Hhs', (Hold k p), Hhs. split.
      - intros [[[Hin Hk]|[Hin Hk]] Hnd]; (split; [|exact Hk]).
        + apply Hfs; [unfold accepted_by; rewrite Hk; reflexivity|]. left. split; assumption.
        + apply Hadd. exact Hin.
      - intros [Hin Hk]. split; [|intros Hd; exact (Hdel _ Hd Hin)].
        apply Hfs in Hin; [|unfold accepted_by; rewrite Hk; reflexivity].
        destruct Hin as [[Hin _]|Hin]; [left|right]; split; assumption. }
    split; [exact Hwu|]. split; [apply results_eqb_spec; assumption|]. split.
    - intros p. rewrite files_In, filter_In. unfold accepted_by. split.
      + intros [k Hk]. apply Hsame in Hk. apply Hhs' in Hk as [Hin Hk]. rewrite Hk. split; [exact Hin|reflexivity].
      + intros [Hin Hk]. destruct (mv p) as [k|] eqn:E; [|discriminate]. exists k. apply Hsame. apply Hhs'. split; assumption.
    - unfold Nglob.will_change. fold upd. destruct (results_eqb upd old) eqn:E.
      + split; [intros _|reflexivity]. apply (results_eqb_spec _ _ Hwu Hwf) in E.
        apply results_eqb_spec; try assumption. intros k p. rewrite <- (E k p). apply Hsame.
      + split; [discriminate|]. intros H. apply (results_eqb_spec _ _ Hwf Hwfs') in H.
        assert (Heq : results_eqb upd old = true).
        { apply results_eqb_spec; try assumption. intros k p. rewrite (H k p). apply Hsame. }
        congruence.
  Qed.

  (* Everything reachable from the empty dictionary by extend / reduce is well formed. *)
  Inductive reachable : results -> Prop :=
  | reach_nil : reachable []
  | reach_extend r ps : reachable r -> reachable (extend r ps)
  | reach_reduce r ps : reachable r -> reachable (reduce r ps).

  Lemma reachable_wf r : reachable r -> wf_results r.
  Proof.
    induction 1 as [|r ps _ IH|r ps _ IH]; [apply wf_nil|apply extend_spec; exact IH|apply reduce_spec; exact IH].
  Qed.
End ResultsProofs.

(* The statement in the form used by props/C17.v. *)
Theorem update_equals_rescan :
  forall (K : Type) (keqb : K -> K -> bool), (forall a b, keqb a b = true <-> a = b) ->
  forall (mv : str -> option K) (old : results K) (fs fs' added deleted : list str),
    reachable K keqb mv old ->
    results_eqb keqb old (scan keqb mv fs) = true ->
    (forall p, In p added -> In p fs') ->
    (forall p, In p deleted -> ~ In p fs') ->
    (forall p, mv p <> None -> (In p fs' <-> (In p fs /\ ~ In p deleted) \/ In p added)) ->
    let upd := reduce keqb mv (extend keqb mv old added) deleted in
    results_eqb keqb upd (scan keqb mv fs') = true
    /\ (forall p, In p (files upd) <-> In p fs' /\ mv p <> None)
    /\ (will_change keqb mv old deleted added = None <-> results_eqb keqb old (scan keqb mv fs') = true).
Proof.
  intros K keqb Hk mv old fs fs' added deleted Hreach Hold Hadd Hdel Hfs upd.
  assert (Hfs2 : forall p, accepted_by K mv p = true -> (In p fs' <-> (In p fs /\ ~ In p deleted) \/ In p added)).
  { intros p Hp. apply Hfs. unfold accepted_by in Hp. destruct (mv p); [discriminate|discriminate Hp]. }
  destruct (update_equals_rescan_gen K keqb Hk mv old fs fs' added deleted
              (reachable_wf K keqb Hk mv old Hreach) Hold Hadd Hdel Hfs2) as [_ [H1 [H2 H3]]].
  split; [exact H1|]. split; [|exact H3].
  intros p. fold upd in H2. rewrite (H2 p), filter_In. unfold accepted_by.
  split; intros [Hin Hp]; (split; [exact Hin|]); destruct (mv p); try congruence; discriminate.
Qed.

Lemma ostr_eqb_spec a b : ostr_eqb a b = true <-> a = b.
Proof.
  destruct a as [x|], b as [y|]; cbn; try (split; congruence).
  rewrite str_eqb_eq. split; congruence.
Qed.

Lemma key_eqb_spec a b : key_eqb a b = true <-> a = b.
Proof.
  revert b; induction a as [|x a IH]; intros [|y b]; cbn; try (split; congruence).
  rewrite andb_true_iff, ostr_eqb_spec, IH. split; [intros [-> ->]; reflexivity|intros H; inversion H; auto].
Qed.

(* ---- transfer to scans that only look at a candidate list (what NamedGlob.glob() does) ---- *)

Section Candidates.
  Variable K : Type.
  Variable keqb : K -> K -> bool.
  Hypothesis keqb_spec : forall a b, keqb a b = true <-> a = b.
  Variable mv : str -> option K.

  Lemma scan_equiv l1 l2 :
    (forall q, mv q <> None -> (In q l1 <-> In q l2)) ->
    results_eqb keqb (scan keqb mv l1) (scan keqb mv l2) = true.
  Proof.
    intros H. destruct (scan_spec K keqb keqb_spec mv l1) as [W1 H1].
    destruct (scan_spec K keqb keqb_spec mv l2) as [W2 H2].
    apply (results_eqb_spec K keqb keqb_spec mv _ _ W1 W2). intros k q. rewrite H1, H2.
    split; intros [Hin Hk]; (split; [|exact Hk]); apply H; try exact Hin; congruence.
  Qed.

  Lemma results_eqb_trans a b c :
    wf_results K mv a -> wf_results K mv b -> wf_results K mv c ->
    results_eqb keqb a b = true -> results_eqb keqb b c = true -> results_eqb keqb a c = true.
  Proof.
    intros Wa Wb Wc Hab Hbc.
    apply (results_eqb_spec K keqb keqb_spec mv _ _ Wa Wb) in Hab.
    apply (results_eqb_spec K keqb keqb_spec mv _ _ Wb Wc) in Hbc.
    apply (results_eqb_spec K keqb keqb_spec mv _ _ Wa Wc). intros k q. rewrite (Hab k q). apply Hbc.
  Qed.

  (* If, before and after the change, the candidate list contains exactly the existing paths as
     far as accepted paths are concerned (candidates complete and sound for the matcher), the
     update law holds for scans of the candidate lists. *)
  Theorem update_equals_rescan_candidates :
    forall (fs fs' cands cands' added deleted : list str),
      (forall q, mv q <> None -> (In q cands <-> In q fs)) ->
      (forall q, mv q <> None -> (In q cands' <-> In q fs')) ->
      (forall p, In p added -> In p fs') ->
      (forall p, In p deleted -> ~ In p fs') ->
      (forall p, mv p <> None -> (In p fs' <-> (In p fs /\ ~ In p deleted) \/ In p added)) ->
      let old := scan keqb mv cands in
      let upd := reduce keqb mv (extend keqb mv old added) deleted in
      results_eqb keqb upd (scan keqb mv cands') = true
      /\ (will_change keqb mv old deleted added = None <-> results_eqb keqb old (scan keqb mv cands') = true).
  Proof.
    intros fs fs' cands cands' added deleted Hc Hc' Hadd Hdel Hfs old upd.
    assert (Hreach : reachable K keqb mv old) by (apply reach_extend; apply reach_nil).
    assert (Hold : results_eqb keqb old (scan keqb mv fs) = true) by (apply scan_equiv; exact Hc).
    destruct (update_equals_rescan K keqb keqb_spec mv old fs fs' added deleted Hreach Hold Hadd Hdel Hfs)
      as [H1 [_ H3]]. fold upd in H1.
    assert (Heq' : results_eqb keqb (scan keqb mv fs') (scan keqb mv cands') = true)
      by (apply scan_equiv; intros q Hq; symmetry; apply Hc'; exact Hq).
    assert (Heq'' : results_eqb keqb (scan keqb mv cands') (scan keqb mv fs') = true)
      by (apply scan_equiv; exact Hc').
    pose proof (reachable_wf K keqb keqb_spec mv old Hreach) as Wold.
    destruct (scan_spec K keqb keqb_spec mv fs') as [Wfs' _].
    destruct (scan_spec K keqb keqb_spec mv cands') as [Wc' _].
    assert (Wupd : wf_results K mv upd).
    { apply (reachable_wf K keqb keqb_spec). apply reach_reduce. apply reach_extend. exact Hreach. }
    split.
    - eapply results_eqb_trans; [exact Wupd|exact Wfs'|exact Wc'|exact H1|exact Heq'].
    - rewrite H3. split; intros H.
      + eapply results_eqb_trans; [exact Wold|exact Wfs'|exact Wc'|exact H|exact Heq'].
      + eapply results_eqb_trans; [exact Wold|exact Wc'|exact Wfs'|exact H|exact Heq''].
  Qed.
End Candidates.
