(* C19, "the report tells the truth": the cause a pending step is reported under is real.
   Stated on the model whose WHERE clauses are the ones translated from pending.py
   (gen/GenPending.v); proved through cands_is_spec and the clause lemmas of PendingGenSpec.v. *)
From Coq Require Import List Arith NArith Bool Lia.
From SV Require Import lib.Bytes lib.SqlExpr model.PendingTypes gen.GenPending model.Pending
  proofs.PendingGenSpec proofs.PendingProofs.
Import ListNotations.
Open Scope N_scope.

(* d is a dependency edge from file f into step u *)
Definition input_of (sn : snap) (u : stepr) (f : filer) (d : depr) : Prop :=
  In d (sn_deps sn) /\ d_sink d = s_id u /\ find_file sn (d_src d) = Some f.
(* the dispatch test of scheduler.RECOMPUTE_READY (step.UNAVAILABLE_INPUT_WHERE) refuses the input,
   or u is deferred and f is a dynamic input that is neither CONFIRMED nor BUILT *)
Definition really_unavailable (u : stepr) (f : filer) (d : depr) : Prop :=
  unavailable_input (f_state f) (f_detached f) (d_dyn d) = true
  \/ (s_deferred u = true /\ d_dyn d = true /\ f_state f <> FS_CONFIRMED /\ f_state f <> FS_BUILT).
Definition no_live_producer (sn : snap) (f : filer) : Prop :=
  forall p, In p (producers sn (f_id f)) -> in_U sn p = false /\ is_failed p = false.
Definition produces_blocking_input (sn : snap) (u p : stepr) : Prop :=
  exists f d, input_of sn u f d /\ really_unavailable u f d /\ In p (producers sn (f_id f)).
Definition broken_ancestor (sn : snap) (u p : stepr) : Prop :=
  s_unsafe u = true /\ unsafe_anc sn u = Some p.
(* what scheduler.SELECT_NEXT_STEP asks of a step, read on the snapshot (`_ready` as RECOMPUTE_READY
   would set it; resources without the RUNNING subtraction: the builder has stopped) *)
Definition dispatchable (sn : snap) (u : stepr) : Prop :=
  s_state u = SS_PENDING /\ sn_threshold sn < s_ineed u /\ s_detached u = false
  /\ s_deferred u = false
  /\ (forall f d, input_of sn u f d -> unavailable_input (f_state f) (f_detached f) (d_dyn d) = false)
  /\ (forall name units, In (name, units) (s_req u) ->
        exists a, lookup_str name (sn_avail sn) = Some a /\ units <= a)
  /\ unsafe_anc sn u = None.

Inductive cause_real (sn : snap) (u : stepr) : cand -> Prop :=
| CR_file f d : input_of sn u f d -> really_unavailable u f d -> no_live_producer sn f ->
    cause_real sn u (K_ROOT_FILE, f_label f, f_id f)
| CR_resource name units : In (name, units) (s_req u) ->
    (forall a, lookup_str name (sn_avail sn) = Some a -> a < units) ->
    cause_real sn u (K_ROOT_RESOURCE, name, 0)
| CR_failed p : is_failed p = true -> produces_blocking_input sn u p \/ broken_ancestor sn u p ->
    cause_real sn u (K_ROOT_FAILED, s_label p, s_id p)
| CR_deferred : s_deferred u = true ->
    (forall f d, input_of sn u f d -> unavailable_input (f_state f) (f_detached f) (d_dyn d) = false) ->
    cause_real sn u (K_ROOT_DEFERRED, [], s_id u)
| CR_other a : broken_ancestor sn u a -> in_U sn a = false -> is_failed a = false ->
    cause_real sn u (K_ROOT_OTHER, [], s_id a)
| CR_block p : in_U sn p = true -> produces_blocking_input sn u p \/ broken_ancestor sn u p ->
    cause_real sn u (K_BLOCK_STEP, s_label p, s_id p)
| CR_runnable : dispatchable sn u -> cause_real sn u (K_ROOT_RUNNABLE, [], s_id u).

Lemma dedup_files_incl l f : In f (dedup_files l) -> In f l.
Proof.
  induction l as [|g l IH]; cbn; [tauto|]. destruct (existsb _ l); cbn; intros H; [right; auto|].
  destruct H as [H|H]; auto.
Qed.
Lemma dedup_files_nil l : dedup_files l = [] -> l = [].
Proof.
  induction l as [|g l IH]; cbn; [reflexivity|]. destruct (existsb _ l) eqn:E; [|discriminate].
  intros H. apply IH in H. subst. discriminate.
Qed.

Lemma blocking_file_is_input sn u f : In f (blocking_files sn u) ->
  exists d, input_of sn u f d /\ file_blocks u f d = true.
Proof.
  unfold blocking_files. intros H. apply dedup_files_incl in H. apply in_flat_map in H.
  destruct H as [d [Hd H]]. destruct (d_sink d =? s_id u) eqn:E; [|destruct H]. apply N.eqb_eq in E.
  destruct (find_file sn (d_src d)) as [g|] eqn:Ef; [|destruct H].
  destruct (file_blocks u g d) eqn:Eb; [|destruct H]. destruct H as [<-|[]].
  exists d. unfold input_of. auto.
Qed.

Lemma blocking_files_nil sn u : blocking_files sn u = [] ->
  forall f d, input_of sn u f d -> file_blocks u f d = false.
Proof.
  unfold blocking_files. intros H f d [Hd [Hs Hf]]. apply dedup_files_nil in H.
  destruct (file_blocks u f d) eqn:Eb; [|reflexivity]. exfalso.
  assert (Hin : In f (flat_map (fun d => if d_sink d =? s_id u then
      match find_file sn (d_src d) with
      | Some f => if file_blocks u f d then [f] else []
      | None => [] end else []) (sn_deps sn))).
  { apply in_flat_map. exists d. split; [exact Hd|]. rewrite Hs, N.eqb_refl, Hf, Eb. now left. }
  rewrite H in Hin. destruct Hin.
Qed.

Lemma file_blocks_really u f d : file_blocks u f d = true -> really_unavailable u f d.
Proof. unfold file_blocks, fb_env, really_unavailable. apply file_block_sound. Qed.
Lemma unavailable_blocks u f d :
  unavailable_input (f_state f) (f_detached f) (d_dyn d) = true -> file_blocks u f d = true.
Proof. unfold file_blocks, fb_env. apply file_block_complete. Qed.

Lemma producer_of_blocking sn u f p : In f (blocking_files sn u) -> In p (producers sn (f_id f)) ->
  produces_blocking_input sn u p.
Proof.
  intros Hf Hp. apply blocking_file_is_input in Hf. destruct Hf as [d [Hi Hb]].
  exists f, d. split; [exact Hi|]. split; [apply file_blocks_really; exact Hb|exact Hp].
Qed.

Lemma unsafe_anc_some sn u a : unsafe_anc sn u = Some a -> broken_ancestor sn u a.
Proof. unfold broken_ancestor, unsafe_anc. rewrite anc_gate_spec. destruct (s_unsafe u); [auto|discriminate]. Qed.

(* every candidate of the hand-written relation is a real cause *)
Lemma cands_spec_real sn u c : In c (cands_spec sn u) -> cause_real sn u c.
Proof.
  unfold cands_spec. rewrite !in_app_iff. intros H.
  repeat match goal with H : _ \/ _ |- _ => destruct H as [H|H] end.
  - apply in_map_iff in H. destruct H as [f [<- H]]. apply filter_In in H. destruct H as [Hf Hd].
    destruct (blocking_file_is_input sn u f Hf) as [d [Hi Hb]].
    apply (CR_file sn u f d Hi (file_blocks_really u f d Hb)).
    intros p Hp. rewrite dead_file_spec in Hd. apply negb_true_iff in Hd.
    assert (E : (in_U sn p || is_failed p) = false).
    { destruct (in_U sn p || is_failed p) eqn:E; [|reflexivity].
      assert (X : existsb (fun p => in_U sn p || is_failed p) (producers sn (f_id f)) = true)
        by (apply existsb_exists; eauto). congruence. }
    apply orb_false_iff in E. exact E.
  - apply in_map_iff in H. destruct H as [[name units] [<- H]]. unfold unsat_reqs in H.
    apply filter_In in H. destruct H as [Hr Hu]. rewrite unsat_spec in Hu. cbn [fst snd] in *.
    apply (CR_resource sn u name units Hr). intros a Ha. rewrite Ha in Hu. apply N.ltb_lt. exact Hu.
  - apply in_flat_map in H. destruct H as [f [Hf H]]. apply in_map_iff in H. destruct H as [p [<- H]].
    apply filter_In in H. destruct H as [Hp Hfail]. apply (CR_failed sn u p Hfail). left.
    eapply producer_of_blocking; eauto.
  - destruct (unsafe_anc sn u) as [a|] eqn:Ea; [|destruct H]. destruct (is_failed a) eqn:Ef; [|destruct H].
    destruct H as [<-|[]]. apply (CR_failed sn u a Ef). right. apply unsafe_anc_some. exact Ea.
  - destruct (s_deferred u) eqn:Ed; [|destruct H]. destruct (blocking_files sn u) eqn:Eb; [|destruct H].
    destruct H as [<-|[]]. apply (CR_deferred sn u Ed). intros f d Hi.
    pose proof (blocking_files_nil sn u Eb f d Hi) as Hn.
    destruct (unavailable_input (f_state f) (f_detached f) (d_dyn d)) eqn:Eu; [|reflexivity].
    apply (unavailable_blocks u) in Eu. congruence.
  - destruct (unsafe_anc sn u) as [a|] eqn:Ea; [|destruct H].
    destruct (in_U sn a) eqn:Ei; [destruct H|]. destruct (is_failed a) eqn:Ef; [destruct H|].
    destruct H as [<-|[]]. apply (CR_other sn u a (unsafe_anc_some sn u a Ea) Ei Ef).
  - apply in_flat_map in H. destruct H as [f [Hf H]]. apply in_map_iff in H. destruct H as [p [<- H]].
    apply filter_In in H. destruct H as [Hp Hin]. apply (CR_block sn u p Hin). left.
    eapply producer_of_blocking; eauto.
  - destruct (unsafe_anc sn u) as [a|] eqn:Ea; [|destruct H]. destruct (in_U sn a) eqn:Ei; [|destruct H].
    destruct H as [<-|[]]. apply (CR_block sn u a Ei). right. apply unsafe_anc_some. exact Ea.
Qed.

(* no candidate at all: the step satisfies the dispatch conditions *)
Lemma no_cands_dispatchable sn u : In u (U sn) -> cands_spec sn u = [] -> dispatchable sn u.
Proof.
  intros Hu H. unfold cands_spec in H.
  repeat match goal with H : _ ++ _ = [] |- _ => apply app_eq_nil in H; destruct H as [? H] end.
  rename H into H8.
  match goal with H1 : map _ (filter (dead_file sn) _) = [], H2 : map _ (unsat_reqs sn u) = [],
    H3 : flat_map _ _ = [], H7 : flat_map _ _ = [] |- _ => idtac end.
  assert (Hbf : blocking_files sn u = []).
  { destruct (blocking_files sn u) as [|f bf] eqn:Eb; [reflexivity|exfalso].
    destruct (dead_file sn f) eqn:Ed.
    - cbn [filter] in H0. rewrite Ed in H0. discriminate.
    - rewrite dead_file_spec in Ed. apply negb_false_iff, existsb_exists in Ed. destruct Ed as [p [Hp E]].
      apply orb_true_iff in E. destruct E as [E|E].
      + cbn [flat_map] in H6. apply app_eq_nil in H6. destruct H6 as [H6 _].
        apply map_eq_nil in H6.
        assert (X : In p (filter (in_U sn) (producers sn (f_id f)))) by (apply filter_In; auto).
        rewrite H6 in X. destruct X.
      + cbn [flat_map] in H2. apply app_eq_nil in H2. destruct H2 as [H2 _].
        apply map_eq_nil in H2.
        assert (X : In p (filter is_failed (producers sn (f_id f)))) by (apply filter_In; auto).
        rewrite H2 in X. destruct X. }
  pose proof Hu as Hu'. apply filter_In in Hu'. destruct Hu' as [_ Hin]. rewrite in_U_spec in Hin.
  apply andb_true_iff in Hin. destruct Hin as [Hin Hdet]. apply andb_true_iff in Hin. destruct Hin as [Hst Hneed].
  unfold dispatchable. repeat split.
  - apply N.eqb_eq. exact Hst.
  - apply N.ltb_lt. exact Hneed.
  - apply negb_true_iff. exact Hdet.
  - rewrite Hbf in H4. destruct (s_deferred u); [discriminate|reflexivity].
  - intros f d Hi. pose proof (blocking_files_nil sn u Hbf f d Hi) as Hn.
    destruct (unavailable_input (f_state f) (f_detached f) (d_dyn d)) eqn:Eu; [|reflexivity].
    apply (unavailable_blocks u) in Eu. congruence.
  - intros name units Hr. apply map_eq_nil in H1. unfold unsat_reqs in H1.
    assert (E : unsat sn (name, units) = false).
    { destruct (unsat sn (name, units)) eqn:E; [|reflexivity].
      assert (X : In (name, units) (filter (unsat sn) (s_req u))) by (apply filter_In; auto).
      rewrite H1 in X. destruct X. }
    rewrite unsat_spec in E. cbn [fst snd] in E. destruct (lookup_str name (sn_avail sn)) as [a|]; [|discriminate].
    exists a. split; [reflexivity|]. apply N.ltb_ge. exact E.
  - destruct (unsafe_anc sn u) as [a|]; [|reflexivity]. exfalso.
    destruct (is_failed a); [discriminate|]. destruct (in_U sn a); [discriminate|]. discriminate.
Qed.

(* The cause pend_blocker records for a step of U is real. *)
Theorem primary_cause_real sn u : In u (U sn) -> cause_real sn u (primary sn u).
Proof.
  intros Hu. destruct (primary_spec sn u) as [[E ->]|H].
  - apply CR_runnable. apply no_cands_dispatchable; [exact Hu|]. rewrite <- cands_is_spec; assumption.
  - rewrite cands_is_spec in H by exact Hu. apply cands_spec_real. exact H.
Qed.

(* The root a step is attributed to is the recorded (real) cause of some step of U, and a root kind. *)
Theorem attributed_root_real sn i root : In (i, root) (attributed sn) ->
  In (c_kind root) root_kinds /\ exists v, In v (U sn) /\ primary sn v = root /\ cause_real sn v root.
Proof.
  intros H. split; [apply (attributed_root_kinds sn (i, root) H)|].
  assert (H2 : exists d, In (d, root) (blocker_rows sn)).
  { apply (walk_roots_in_B (blocker_rows sn) (S (length (blocker_rows sn))) (seeds (blocker_rows sn)) ) with (row := (i, root));
      [|exact H].
    intros [d c] Hr. unfold seeds in Hr. apply filter_In in Hr. exists d. tauto. }
  destruct H2 as [d Hd]. unfold blocker_rows in Hd. apply in_map_iff in Hd. destruct Hd as [v [Hv Hin]].
  exists v. assert (E : primary sn v = root) by congruence. split; [exact Hin|]. split; [exact E|].
  rewrite <- E. apply primary_cause_real. exact Hin.
Qed.

(* "N step(s) seem runnable": the root of every step in that bucket satisfies the dispatch conditions. *)
Theorem runnable_root_dispatchable sn i root : In (i, root) (attributed sn) ->
  c_kind root = K_ROOT_RUNNABLE -> exists v, In v (U sn) /\ s_id v = c_src root /\ dispatchable sn v.
Proof.
  intros H Hk. destruct (attributed_root_real sn i root H) as [_ [v [Hv [E Hc]]]].
  exists v. split; [exact Hv|]. subst root.
  inversion Hc as [f d ? ? ? Eq|name units ? ? Eq|p ? ? Eq|? ? Eq|a ? ? ? Eq|p ? ? Eq|Hd Eq];
    rewrite <- Eq in Hk; try (cbv in Hk; discriminate Hk).
  try rewrite <- Eq. split; [reflexivity|exact Hd].
Qed.

(* PendingSummary.ntotal (its own COUNT query) is the size of the universe the partition is over *)
Theorem ntotal_is_universe sn : length (filter (in_ntotal sn) (sn_steps sn)) = length (U sn).
Proof. unfold U. rewrite (filter_ext _ _ (ntotal_is_U sn)). reflexivity. Qed.
