(* C17: the constants the translator reads from /repo/stepup/core/nglob.py (gen/GenNglob.v,
   regenerated on every run) are exactly the ones the hand-written model uses.  Every lemma here
   is closed by computation, so an edit of the corresponding source constant, or any edit of a
   fingerprinted function, breaks this file. *)
From Coq Require Import List NArith Bool.
From SV Require Import lib.Bytes.
From SV Require Import lib.Regex.
From SV Require Import gen.GenNglob.
From SV Require Import model.Nglob.
From SV Require Import model.NglobGolden.
Import ListNotations.
Open Scope N_scope.

(* f-string templates: "{}" marks an interpolation *)
Fixpoint fill (tpl : str) (args : list str) : str :=
  match tpl with
  | [] => []
  | c :: r =>
    match r with
    | d :: r' => if (c =? 123) && (d =? 125) then hd [] args ++ fill r' (tl args) else c :: fill r args
    | [] => [c]
    end
  end.

Lemma tokenizer_source_tied :
  gen_any_wild = golden_any_wild /\ gen_any_wild_flags = golden_any_wild_flags.
Proof. split; reflexivity. Qed.

Lemma fragments_tied :
  pr re_q = gen_frag_q /\ pr re_star = gen_frag_star /\ pr re_dstar = gen_frag_dstar
  /\ pr re_dstarslash = gen_frag_dstarslash
  /\ map tok_text [TStar; TDStar] = gen_star_skip_after
  /\ map tok_text [TDStar] = gen_dstar_skip_after
  /\ map tok_text [TStar] = gen_dstar_replace_after
  /\ map tok_text [TDStarSlash] = gen_dstarslash_skip_after
  /\ map tok_text [TStar; TDStar] = gen_dstarslash_replace_after
  /\ [42] = gen_default_sub
  /\ star_text = gen_star_name_when.
Proof. repeat split; reflexivity. Qed.

Lemma templates_tied :
  (forall body, pr (RCls true body) = fill gen_cls_neg [body])
  /\ (forall body, pr (RCls false body) = fill gen_cls_pos [body])
  /\ (forall n, pr (RRef n) = fill gen_ref [n])
  /\ (forall n a, pr (RGrp n a) = fill gen_grp [n; pr a]).
Proof. repeat split; intros; reflexivity. Qed.

Lemma post_processing_tied :
  [47] = gen_post_sep
  /\ (forall n, pr (RGrp n re_plus) = fill gen_post_encl_grp [n])
  /\ pr re_star = gen_post_trail_star /\ pr re_plus = gen_post_trail_plus
  /\ (forall n a, pr (RGrp n a) = fill gen_post_trail_grp [n; pr a])
  /\ pr re_optslash = gen_post_optslash.
Proof. repeat split; intros; reflexivity. Qed.

Lemma escape_tied : re_escape_specials = gen_escape_specials.
Proof. reflexivity. Qed.

Lemma fingerprints_tied : gen_fingerprints = golden_fingerprints.
Proof. reflexivity. Qed.

(* compile flags and the candidate filter of glob() *)
Lemma compile_sites_tied : dotall = gen_compile_dotall /\ gen_glob_skips_nondir_slash = true.
Proof. split; reflexivity. Qed.

Lemma model_tied_to_source :
  (gen_any_wild = golden_any_wild /\ gen_any_wild_flags = golden_any_wild_flags)
  /\ (pr re_q = gen_frag_q /\ pr re_star = gen_frag_star /\ pr re_dstar = gen_frag_dstar
      /\ pr re_dstarslash = gen_frag_dstarslash)
  /\ (forall body, pr (RCls true body) = fill gen_cls_neg [body])
  /\ (forall body, pr (RCls false body) = fill gen_cls_pos [body])
  /\ (forall n, pr (RRef n) = fill gen_ref [n])
  /\ (forall n a, pr (RGrp n a) = fill gen_grp [n; pr a])
  /\ (forall n, pr (RGrp n re_plus) = fill gen_post_encl_grp [n])
  /\ pr re_plus = gen_post_trail_plus /\ pr re_optslash = gen_post_optslash
  /\ re_escape_specials = gen_escape_specials
  /\ gen_fingerprints = golden_fingerprints
  /\ (dotall = gen_compile_dotall /\ gen_glob_skips_nondir_slash = true).
Proof.
  split; [exact tokenizer_source_tied|].
  split; [repeat split; apply fragments_tied|].
  split; [apply templates_tied|]. split; [apply templates_tied|].
  split; [apply templates_tied|]. split; [apply templates_tied|].
  split; [apply post_processing_tied|]. split; [apply post_processing_tied|].
  split; [apply post_processing_tied|].
  split; [exact escape_tied|]. split; [exact fingerprints_tied|exact compile_sites_tied].
Qed.
