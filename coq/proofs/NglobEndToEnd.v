(* C17: the update law for what NamedGlob.glob() really scans, with NO hypothesis about the
   candidate list: on the fragments G1S (model/GlobTree.v) and G2S (model/GlobTreeRec.v: `dir/sub/**`) the candidates glob.glob returns for the
   translated pattern are complete and sound for the compiled regex on EVERY well-formed finite
   tree (proofs/NglobCands.v, NglobCands2.v), so the hypothesis of update_equals_rescan_candidates
   is discharged and the law holds between two glob() scans of two arbitrary trees.

   Part 2 composes this with the watch-phase batch (proofs/NglobBatchProofs.v): initial glob() on
   tree t, any sequence of queue items folded by record_change, commit by process_nglob_changes:
   the row holds the glob() scan of the final tree t'. *)
From Coq Require Import List NArith Bool Arith Lia.
From SV Require Import lib.Bytes.
From SV Require Import lib.Regex.
From SV Require Import model.Nglob.
From SV Require Import model.GlobSem.
From SV Require Import model.GlobTree.
From SV Require Import model.GlobTreeRec.
From SV Require Import model.NglobBatch.
From SV Require Import proofs.NglobProofs.
From SV Require Import proofs.NglobCands.
From SV Require Import proofs.NglobCands2.
From SV Require Import proofs.NglobCands3.
From SV Require Import proofs.NglobCands4.
From SV Require Import proofs.NglobBatchProofs.
Import ListNotations.
Open Scope N_scope.

(* the matcher of a NamedGlob reports values exactly for the strings its regex accepts *)
Lemma ng_mv_accepts g q : ng_mv g q <> None <-> ng_accepts g q = true.
Proof.
  unfold ng_mv, ng_accepts, match_values. rewrite <- first_match_some_iff.
  destruct (first_match (ng_re g) q) as [e|].
  - split; [intros _; exists e; reflexivity|discriminate].
  - split; [intros H; exfalso; apply H; reflexivity|intros [e He]; discriminate].
Qed.

Lemma ng_make_parts p subs g :
  ng_make p subs = COk g -> exists ps, conv_regex p subs = COk ps /\ ng_re g = rcat ps.
Proof.
  unfold ng_make, compile_regex. destruct (used_names p) as [names|e]; [|discriminate].
  destruct (conv_glob p subs) as [gp|e]; [|discriminate].
  destruct (conv_regex p subs) as [ps|e]; [|discriminate].
  intros H. inversion H; subst. exists ps. split; reflexivity.
Qed.

(* On G1S and on G2S, as far as accepted paths are concerned, the candidates ARE the existing paths. *)
Definition e2e_fragment (p : str) (subs : subs_t) : Prop := g1s p subs = true \/ g2s p = true.

Lemma candidates_agree t p subs g gp :
  wf_tree t = true -> e2e_fragment p subs -> ng_make p subs = COk g -> conv_glob p subs = COk gp ->
  forall q, ng_mv g q <> None -> (In q (glob_paths t gp) <-> In q (all_paths t)).
Proof.
  intros Hwf Hfr Hm Hgp q Hq. destruct (ng_make_parts p subs g Hm) as [ps [Hc Hre]].
  apply ng_mv_accepts in Hq. unfold ng_accepts in Hq. rewrite Hre in Hq. destruct Hfr as [Hg|Hg].
  - split.
    + intros Hin. exact (proj1 (glob_candidates_sound_partial t p subs ps gp q Hwf Hg Hc Hgp Hin)).
    + intros Hin. unfold g1s in Hg. apply andb_true_iff in Hg as [Hg _]. apply andb_true_iff in Hg as [Hg _].
      exact (glob_candidates_complete_partial t p subs ps gp q Hwf Hg Hc Hgp Hin Hq).
  - split.
    + intros Hin. exact (glob_candidates_exist_rec_partial t p subs gp q Hwf Hg Hgp Hin).
    + intros Hin. exact (glob_candidates_complete_rec_partial t p subs ps gp q Hwf (g2s_g2 p Hg) Hc Hgp Hin Hq).
Qed.

(* Part 1: two scans of two trees. *)
Theorem glob_update_equals_rescan_fragment :
  forall (t t' : list entry) (p : str) (subs : subs_t) (g : ng) (gp : str) (added deleted : list str),
    wf_tree t = true -> wf_tree t' = true -> e2e_fragment p subs ->
    ng_make p subs = COk g -> conv_glob p subs = COk gp ->
    (forall q, In q added -> In q (all_paths t')) ->
    (forall q, In q deleted -> ~ In q (all_paths t')) ->
    (forall q, ng_mv g q <> None ->
       (In q (all_paths t') <-> (In q (all_paths t) /\ ~ In q deleted) \/ In q added)) ->
    let old := scan key_eqb (ng_mv g) (glob_paths t gp) in
    let upd := reduce key_eqb (ng_mv g) (extend key_eqb (ng_mv g) old added) deleted in
    results_eqb key_eqb upd (scan key_eqb (ng_mv g) (glob_paths t' gp)) = true
    /\ (will_change key_eqb (ng_mv g) old deleted added = None
        <-> results_eqb key_eqb old (scan key_eqb (ng_mv g) (glob_paths t' gp)) = true).
Proof.
  intros t t' p subs g gp added deleted Hwf Hwf' Hg Hm Hgp Hadd Hdel Hfs.
  exact (update_equals_rescan_candidates key key_eqb key_eqb_spec (ng_mv g)
           (all_paths t) (all_paths t') (glob_paths t gp) (glob_paths t' gp) added deleted
           (candidates_agree t p subs g gp Hwf Hg Hm Hgp)
           (candidates_agree t' p subs g gp Hwf' Hg Hm Hgp) Hadd Hdel Hfs).
Qed.

(* Part 2: glob() on t, one watch phase, commit: the row holds glob() on t'. *)
Theorem watch_commit_equals_glob_fragment :
  forall (t t' : list entry) (p : str) (subs : subs_t) (g : ng) (gp : str)
         (rel : bool -> str -> bool) (under : bool -> str -> list str)
         (tr : list (item * list str)) (unchanged : list str),
    wf_tree t = true -> wf_tree t' = true -> e2e_fragment p subs ->
    ng_make p subs = COk g -> conv_glob p subs = COk gp ->
    (forall db q, ng_mv g q <> None -> rel db q = true) ->
    trace_ok key (ng_mv g) under (all_paths t) tr ->
    (forall q, ng_mv g q <> None -> (In q (trace_final (all_paths t) tr) <-> In q (all_paths t'))) ->
    (forall q, In q unchanged -> ng_mv g q <> None -> In q (all_paths t)) ->
    let old := scan key_eqb (ng_mv g) (glob_paths t gp) in
    let fresh := scan key_eqb (ng_mv g) (glob_paths t' gp) in
    let st := prune unchanged (fold_changes rel under (map fst tr) ws_empty) in
    overlap (ws_deleted st) (ws_updated st) = false
    /\ forall new changed,
         process_reg key_eqb (ws_deleted st) (ws_updated st) (ng_mv g, old) = ((ng_mv g, new), changed) ->
         (changed = false <-> results_eqb key_eqb old fresh = true)
         /\ results_eqb key_eqb new fresh = true.
Proof.
  intros t t' p subs g gp rel under tr unchanged Hwf Hwf' Hg Hm Hgp Hrel Htr Hfin Hpr old fresh st.
  set (mv := ng_mv g) in *. set (fs := all_paths t) in *. set (fsF := trace_final fs tr) in *.
  assert (Hreach : reachable key key_eqb mv old) by (apply reach_extend; apply reach_nil).
  assert (Hold : results_eqb key_eqb old (scan key_eqb mv fs) = true).
  { apply (scan_equiv key key_eqb key_eqb_spec). exact (candidates_agree t p subs g gp Hwf Hg Hm Hgp). }
  (* the scan of the final path set of the trace equals the glob() scan of t' *)
  assert (HF : results_eqb key_eqb (scan key_eqb mv fsF) fresh = true).
  { apply (scan_equiv key key_eqb key_eqb_spec). intros q Hq.
    rewrite (Hfin q Hq). symmetry. exact (candidates_agree t' p subs g gp Hwf' Hg Hm Hgp q Hq). }
  assert (HF' : results_eqb key_eqb fresh (scan key_eqb mv fsF) = true).
  { apply (scan_equiv key key_eqb key_eqb_spec). intros q Hq.
    rewrite (Hfin q Hq). exact (candidates_agree t' p subs g gp Hwf' Hg Hm Hgp q Hq). }
  destruct (watch_batch_update_equals_rescan key key_eqb key_eqb_spec mv rel under Hrel fs tr unchanged old
              Htr Hpr Hreach Hold) as [Hov _]. fold st in Hov.
  split; [exact Hov|]. intros new changed Hproc.
  destruct (watch_commit_row key key_eqb key_eqb_spec mv rel under Hrel fs tr unchanged old
              Htr Hpr Hreach Hold new changed Hproc) as [H1 [H2 H3]]. fold fsF in H1, H2.
  pose proof (reachable_wf key key_eqb key_eqb_spec mv old Hreach) as Wold.
  destruct (scan_spec key key_eqb key_eqb_spec mv fsF) as [WF _].
  destruct (scan_spec key key_eqb key_eqb_spec mv (glob_paths t' gp)) as [Wfresh _]. fold fresh in Wfresh.
  assert (Hiff : results_eqb key_eqb old (scan key_eqb mv fsF) = true <-> results_eqb key_eqb old fresh = true).
  { split; intros H.
    - exact (results_eqb_trans key key_eqb key_eqb_spec mv _ _ _ Wold WF Wfresh H HF).
    - exact (results_eqb_trans key key_eqb key_eqb_spec mv _ _ _ Wold Wfresh WF H HF'). }
  split; [rewrite H1; exact Hiff|].
  destruct changed.
  - assert (Wnew : wf_results key mv new).
    { unfold process_reg in Hproc. cbn [fst snd] in Hproc. unfold will_change in Hproc.
      destruct (results_eqb key_eqb (reduce key_eqb mv (extend key_eqb mv old (ws_updated st)) (ws_deleted st)) old);
        inversion Hproc; subst.
      apply (reachable_wf key key_eqb key_eqb_spec). apply reach_reduce. apply reach_extend. exact Hreach. }
    exact (results_eqb_trans key key_eqb key_eqb_spec mv _ _ _ Wnew WF Wfresh (H2 eq_refl) HF).
  - rewrite (H3 eq_refl). apply Hiff. apply H1. reflexivity.
Qed.

(* Non-vacuity: `src/${*n}.c`, the tree {src/a.c} and the tree {src/a.c, src/b.c}. *)
Definition e2e_t : list entry := [([115;114;99], Dir [([97;46;99], File)])].
Definition e2e_t' : list entry := [([115;114;99], Dir [([97;46;99], File); ([98;46;99], File)])].
Definition e2e_added : list str := [[115;114;99;47;98;46;99]].

Example glob_update_equals_rescan_g1s_hyps_satisfiable :
  wf_tree e2e_t = true /\ wf_tree e2e_t' = true /\ g1s ex_pat1 [] = true /\ g2s ex_pat4 = true
  /\ (exists g, ng_make ex_pat1 [] = COk g
        /\ files (scan key_eqb (ng_mv g) (glob_paths e2e_t [115;114;99;47;42;46;99])) = [[115;114;99;47;97;46;99]]
        /\ will_change key_eqb (ng_mv g) (scan key_eqb (ng_mv g) (glob_paths e2e_t [115;114;99;47;42;46;99])) [] e2e_added <> None)
  /\ conv_glob ex_pat1 [] = COk [115;114;99;47;42;46;99]
  /\ (forall q, In q e2e_added -> In q (all_paths e2e_t'))
  /\ (forall q, In q (@nil str) -> ~ In q (all_paths e2e_t'))
  /\ (forall q, In q (all_paths e2e_t') <-> (In q (all_paths e2e_t) /\ ~ In q (@nil str)) \/ In q e2e_added).
Proof.
  split; [vm_compute; reflexivity|]. split; [vm_compute; reflexivity|]. split; [vm_compute; reflexivity|].
  split; [vm_compute; reflexivity|].
  split.
  { eexists. split; [vm_compute; reflexivity|]. split; [vm_compute; reflexivity|]. vm_compute. discriminate. }
  split; [vm_compute; reflexivity|].
  change (all_paths e2e_t') with [[115;114;99;47]; [115;114;99;47;97;46;99]; [115;114;99;47;98;46;99]].
  change (all_paths e2e_t) with [[115;114;99;47]; [115;114;99;47;97;46;99]].
  unfold e2e_added. cbn [In]. repeat split; intros; tauto.
Qed.
