(* C01: facts about model/EngineOvr.v: the encoding id = (key, overrides) loses nothing; with the
   recycle test of the code a step whose overrides were removed keeps SUCCEEDED and its old
   outputs (F10), with the recycle rule of the model it reruns and equals a build from scratch. *)
From Coq Require Import List NArith Bool Lia.
From SV Require Import model.Engine model.EngineOvr proofs.EngineProofs.
Import ListNotations.
Open Scope N_scope.

Lemma okey_oid (k o : N) : o < ovr_base -> okey (oid k o) = k.
Proof.
  intros H. unfold okey, oid. rewrite N.div_add_l by (unfold ovr_base; lia).
  rewrite (N.div_small o ovr_base H). lia.
Qed.

Lemma oovr_oid (k o : N) : o < ovr_base -> oovr (oid k o) = o.
Proof.
  intros H. unfold oovr, oid. rewrite N.add_comm, N.mod_add by (unfold ovr_base; lia).
  apply N.mod_small. exact H.
Qed.

Lemma oid_inj (k k' o o' : N) :
  o < ovr_base -> o' < ovr_base -> oid k o = oid k' o' -> k = k' /\ o = o'.
Proof.
  intros H H' E. split.
  - rewrite <- (okey_oid k o H), <- (okey_oid k' o' H'), E. reflexivity.
  - rewrite <- (oovr_oid k o H), <- (oovr_oid k' o' H'), E. reflexivity.
Qed.

Definition f10_P (o : N) : project := [mkStep (oid 1 o) [10] [] [20]].
Definition f10_w : world := (src_of [(10, 5)], fun _ => None).

Lemma F10_engine_refuted :
  let y1 := rebuild_dyn mix_run [] empty_sys (f10_P 7) f10_w in
  let inc_code := rebuild_ovr_code mix_run (f10_P 7) y1 (f10_P 0) f10_w in
  let inc := rebuild_dyn mix_run (f10_P 7) y1 (f10_P 0) f10_w in
  let scr := rebuild_dyn mix_run [] empty_sys (f10_P 0) f10_w in
  wf (f10_P 0) = true /\
  stt y1 (oid 1 7) = Succeeded /\
  build_log mix_run (f10_P 0) (f10_P 0) (resync (f10_P 0) (retarget_ovr_code (f10_P 7) (f10_P 0) y1) f10_w) = [] /\
  stt inc_code (oid 1 0) = Succeeded /\ same_result_b (f10_P 0) inc_code scr = false /\
  build_log mix_run (f10_P 0) (f10_P 0) (resync (f10_P 0) (retarget (f10_P 7) (f10_P 0) y1) f10_w)
  = [(oid 1 0, true)] /\
  same_result_b (f10_P 0) inc scr = true.
Proof. vm_compute. repeat split; reflexivity. Qed.
