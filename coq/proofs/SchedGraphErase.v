(* C10: the traced functions of model/SchedGraph.v thread the state exactly as the functions of
   model/Graph.v: forgetting the emitted primitives gives back the transaction model. *)
From Coq Require Import List NArith Bool Arith Lia.
From SV Require Import lib.Bytes lib.Closure lib.SqlExpr gen.GenSched model.Graph model.Sched model.SchedGraph.
Import ListNotations.
Open Scope N_scope.

Lemma erase_bindT {S T} (r : tres S) (f : S -> tres T) (r0 : res S) (f0 : S -> res T) :
  erase r = r0 -> (forall s, erase (f s) = f0 s) -> erase (bindT r f) = bind r0 f0.
Proof.
  intros <- Hf. destruct r as [[s l]| |]; cbn [erase bindT bind]; try reflexivity.
  rewrite <- Hf. destruct (f s) as [[s2 l2]| |]; reflexivity.
Qed.

Lemma erase_foldT {A S} (ft : S -> A -> tres S) (f : S -> A -> res S) (l : list A) :
  (forall s a, erase (ft s a) = f s a) -> forall s, erase (foldT ft l s) = foldM f l s.
Proof.
  intros H. induction l as [|a l IH]; intros s; [reflexivity|]. cbn [foldT foldM].
  apply erase_bindT; [apply H | exact IH].
Qed.

Lemma erase_liftT {S} (r : res S) : erase (liftT r) = r.
Proof. destruct r; reflexivity. Qed.

Lemma erase_retT {S} (s : S) : erase (retT s) = Ok s.
Proof. reflexivity. Qed.

Lemma erase_bindT_ok {S T} (s1 : S) l (f : S -> tres T) : erase (bindT (Ok (s1, l)) f) = erase (f s1).
Proof. cbn [bindT]. destruct (f s1) as [[s2 l2]| |]; reflexivity. Qed.

Section Erase.
Variable idf : key -> N.

Lemma set_fstate_hash_e l new newh s : erase (set_fstate_hash_t idf l new newh s) = set_fstate_hash l new newh s.
Proof.
  unfold set_fstate_hash_t, set_fstate_hash. destruct (Graph.find_file l s) as [r|]; [|reflexivity].
  destruct (needs_hash new && _); [reflexivity|].
  destruct (fstate_eqb new FUndeclared && _); reflexivity.
Qed.
Lemma set_fstate_e l new s : erase (set_fstate_t idf l new s) = Graph.set_fstate l new s.
Proof. apply set_fstate_hash_e. Qed.

Lemma set_sstate_e l new d s : erase (set_sstate_t idf l new d s) = set_sstate l new d s.
Proof.
  unfold set_sstate_t, set_sstate. destruct (Graph.find_step l s); [|reflexivity].
  destruct (d && negb (sstate_eqb new SPending)); reflexivity.
Qed.
Lemma set_sstate_raw_e l new s : erase (set_sstate_raw_t idf l new s) = set_sstate_raw l new s.
Proof. unfold set_sstate_raw_t, set_sstate_raw. destruct (Graph.find_step l s); [apply set_sstate_e | reflexivity]. Qed.

Lemma mark_e fuel :
  (forall l s, erase (mark_step_pending_ft idf fuel l s) = mark_step_pending_f fuel l s) /\
  (forall f s, erase (mark_file_outdated_ft idf fuel f s) = mark_file_outdated_f fuel f s).
Proof.
  induction fuel as [|fuel [IHs IHf]]; [split; reflexivity|]. split.
  - intros l s. cbn [mark_step_pending_ft mark_step_pending_f].
    destruct (sstate_of l s) as [[]|]; try reflexivity;
      (apply erase_bindT; [apply set_sstate_e|]); intros s1; try reflexivity;
      (apply erase_foldT; intros s2 f; destruct (fstate_of f s2) as [[]|]; try reflexivity; apply IHf).
  - intros f s. cbn [mark_file_outdated_ft mark_file_outdated_f].
    destruct (fstate_of f s) as [[]|]; try reflexivity.
    apply erase_bindT; [apply set_fstate_e|]. intros s1. apply erase_foldT. intros s2 l. apply IHs.
Qed.
Lemma mark_step_pending_e l s : erase (mark_step_pending_t idf l s) = mark_step_pending l s.
Proof. apply (proj1 (mark_e _)). Qed.
Lemma mark_file_outdated_e f s : erase (mark_file_outdated_t idf f s) = mark_file_outdated f s.
Proof. apply (proj2 (mark_e _)). Qed.
Lemma mark_consumers_pending_e f s : erase (mark_consumers_pending_t idf f s) = mark_consumers_pending f s.
Proof. apply erase_foldT. intros s2 l. apply mark_step_pending_e. Qed.

Lemma after_lost_product_e k s : erase (after_lost_product_t idf k s) = after_lost_product k s.
Proof. unfold after_lost_product_t, after_lost_product. destruct (fst k); reflexivity. Qed.

Lemma node_detach_e k s : erase (node_detach_t idf k s) = node_detach k s.
Proof. unfold node_detach_t. destruct (node_detach k s); reflexivity. Qed.

Lemma node_reattach_e k c s : erase (node_reattach_t idf k c s) = node_reattach k c s.
Proof.
  unfold node_reattach_t, node_reattach.
  destruct (find_node k s) as [n|]; [|reflexivity]. destruct (find_node c s) as [cn|]; [|reflexivity].
  destruct (negb (ndet n)); [reflexivity|]. destruct (key_eqb c k); [reflexivity|].
  destruct (negb (creator_kind_ok (fst k) (fst c))); [reflexivity|].
  destruct (mem_key c (rec_products k s)); [reflexivity|].
  apply erase_bindT; [|reflexivity].
  destruct (ncre n) as [oc|]; [|reflexivity]. destruct (negb (is_detached oc s)); [reflexivity|].
  apply after_lost_product_e.
Qed.

Lemma file_initialize_row_e cr cdet l req s :
  erase (file_initialize_row_t idf cr cdet l req s) = file_initialize_row l req s.
Proof.
  unfold file_initialize_row_t, file_initialize_row.
  set (state := match req, Graph.find_file l s with
                | FUndeclared, Some r => _ | FPlanned, Some r => _ | _, _ => req end).
  apply erase_bindT.
  - destruct (Graph.find_file l s); [apply set_fstate_e|].
    destruct (needs_hash state); [reflexivity|]. destruct (fstate_eqb state FUndeclared && _); reflexivity.
  - intros s1. destruct state; try reflexivity. apply mark_file_outdated_e.
Qed.

Lemma create_e a k cr arg s : erase (create_t idf a k cr arg s) = create k cr arg s.
Proof.
  unfold create_t, create, bind. cbv zeta. destruct (creator_ok k cr s) as [u| |]; try reflexivity.
  destruct (find_node k s) as [n|].
  - destruct (negb (ndet n)); [reflexivity|].
    set (cdet := match cr with Some c => is_detached c s | None => true end).
    set (s1 := upd_node k (fun n0 => mkNode (nk n0) cr cdet) s).
    set (r2 := match ncre n with
               | Some oc => if negb (is_detached oc s) then Internal 114 else after_lost_product_t idf oc s1
               | None => retT s1 end).
    assert (H2 : erase r2 = match ncre n with
                            | Some oc => if negb (is_detached oc s) then Internal 114 else after_lost_product oc s1
                            | None => Ok s1 end).
    { unfold r2. destruct (ncre n) as [oc|]; [|reflexivity]. destruct (negb (is_detached oc s)); [reflexivity|].
      apply after_lost_product_e. }
    rewrite <- H2. destruct r2 as [[s2 ph]| |]; cbn [erase]; try reflexivity.
    unfold del_all_sources_t, del_deps_where_t.
    change (del_deps_where (fun d => key_eqb (dsnk d) k) s2) with (del_all_sources k s2).
    set (r4 := foldT (fun s0 p => node_detach_t idf p s0) (products k (del_all_sources k s2)) (del_all_sources k s2)).
    assert (H4 : erase r4 = foldM (fun s0 p => detach_any p s0) (products k (del_all_sources k s2)) (del_all_sources k s2)).
    { apply erase_foldT. intros s0 p. apply node_detach_e. }
    rewrite <- H4. destruct r4 as [[s4 px]| |]; cbn [erase]; try reflexivity.
    destruct arg.
    + rewrite erase_bindT_ok.
      pose proof (file_initialize_row_e cr cdet (snd k) f s4) as H5.
      destruct (file_initialize_row_t idf cr cdet (snd k) f s4) as [[s5 l5]| |]; cbn [erase bindT] in *; exact H5.
    + reflexivity.
    + reflexivity.
  - destruct arg.
    + apply file_initialize_row_e.
    + reflexivity.
    + reflexivity.
Qed.

Lemma add_dep_e x y dyn s : erase (add_dep_t idf x y dyn s) = add_dep x y dyn s.
Proof. unfold add_dep_t. destruct (add_dep x y dyn s); reflexivity. Qed.

Lemma declare_file_e a c l f s : erase (declare_file_t idf a c l f s) = declare_file c l f s.
Proof.
  unfold declare_file_t, declare_file. destruct f; try reflexivity;
    (apply erase_bindT; [apply create_e|]); intros s1; try reflexivity.
  destruct (attached_step_sinks l s1); reflexivity.
Qed.

Lemma declare_static_files_e a c paths s :
  erase (declare_static_files_t idf a c paths s) = declare_static_files c paths s.
Proof.
  unfold declare_static_files_t, declare_static_files. destruct (negb (is_some (find_node c s))); [reflexivity|].
  apply erase_bindT; [apply erase_liftT|]. intros todo. apply erase_foldT. intros s1 l. apply declare_file_e.
Qed.

Lemma resolve_supply_file_e a step l rn s :
  erase (resolve_supply_file_t idf a step l rn s) = resolve_supply_file step l rn s.
Proof.
  unfold resolve_supply_file_t, resolve_supply_file. apply erase_bindT.
  - destruct (find_node (KFile, l) s) as [n|]; [|apply create_e].
    destruct (ncre n); [|apply create_e]. destruct (fstate_of l s) as [[]|]; reflexivity.
  - intros s1. destruct (negb (negb (has_dep (KFile, l) (KStep, step) s1)) && rn); reflexivity.
Qed.

Lemma supply_files_e a step paths rn dyn s :
  erase (supply_files_t idf a step paths rn dyn s) = supply_files step paths rn dyn s.
Proof.
  unfold supply_files_t, supply_files. apply erase_bindT.
  - apply erase_foldT. intros acc l. apply erase_bindT; [apply resolve_supply_file_e | reflexivity].
  - intros r. destruct (match snd r with [] => false | _ => _ end); [reflexivity|].
    apply erase_foldT. intros s1 l. apply add_dep_e.
Qed.

Lemma add_output_edge_e step l dyn s : erase (add_output_edge_t idf step l dyn s) = add_output_edge step l dyn s.
Proof. unfold add_output_edge_t, add_output_edge. destruct (would_cycle _ _ s); [reflexivity | apply add_dep_e]. Qed.

Lemma define_step_new_e a c label inp env out vol nd s :
  erase (define_step_new_t idf a c label inp env out vol nd s) = define_step_new c label inp env out vol nd s.
Proof.
  unfold define_step_new_t, define_step_new.
  apply erase_bindT; [apply erase_liftT|]. intros _.
  apply erase_bindT; [apply erase_liftT|]. intros _.
  destruct (existsb _ out); [reflexivity|].
  apply erase_bindT; [apply create_e|]. intros s1.
  apply erase_bindT; [apply supply_files_e|]. intros s2.
  apply erase_bindT.
  - apply erase_foldT. intros s3 l. apply erase_bindT; [apply declare_file_e | intros s'; apply add_output_edge_e].
  - intros s4. apply erase_foldT. intros s3 l. apply erase_bindT; [apply declare_file_e | intros s'; apply add_output_edge_e].
Qed.

Lemma define_step_e a c label inp env out vol nd s :
  erase (define_step_t idf a c label inp env out vol nd s) = define_step c label inp env out vol nd s.
Proof.
  unfold define_step_t, define_step.
  destruct (negb (is_some (find_node c s))); [reflexivity|].
  destruct (key_eqb c root_key && root_has_step s); [reflexivity|].
  destruct (key_eqb c (KStep, label)); [reflexivity|].
  destruct (mem_key c (rec_products (KStep, label) s)); [reflexivity|].
  destruct (find_node (KStep, label) s) as [n|]; [|apply define_step_new_e].
  destruct (ndet n && can_recycle label inp env out vol s).
  - apply erase_bindT; [apply node_reattach_e|]. intros s1. cbn [bindT].
    set (s2 := upd_step label _ s1).
    assert (H : erase (match sstate_of label s2 with
                       | Some SFailed => mark_step_pending_t idf label s2 | _ => retT s2 end)
                = match sstate_of label s2 with Some SFailed => mark_step_pending label s2 | _ => Ok s2 end).
    { destruct (sstate_of label s2) as [[]|]; try reflexivity. apply mark_step_pending_e. }
    destruct (match sstate_of label s2 with Some SFailed => _ | _ => retT s2 end) as [[s3 l3]| |];
      cbn [erase] in *; rewrite <- H; reflexivity.
  - destruct (negb (ndet n)); [reflexivity | apply define_step_new_e].
Qed.

Lemma amend_step_e a label inp env out vol s :
  erase (amend_step_t idf a label inp env out vol s) = amend_step label inp env out vol s.
Proof.
  unfold amend_step_t, amend_step.
  destruct (negb (is_some (find_node (KStep, label) s) && is_some (Graph.find_step label s))); [reflexivity|].
  apply erase_bindT; [apply supply_files_e|]. intros s1.
  apply erase_bindT; [apply erase_liftT|]. intros out'.
  apply erase_bindT; [apply erase_liftT|]. intros vol'.
  destruct (existsb _ out'); [reflexivity|].
  apply erase_bindT.
  - apply erase_foldT. intros s3 l. apply erase_bindT; [apply declare_file_e | intros s'; apply add_output_edge_e].
  - intros s4. apply erase_foldT. intros s3 l. apply erase_bindT; [apply declare_file_e | intros s'; apply add_output_edge_e].
Qed.

Lemma handle_updated_file_e l s : erase (handle_updated_file_t idf l s) = handle_updated_file l s.
Proof.
  unfold handle_updated_file_t, handle_updated_file. destruct (fstate_of l s) as [[]|]; try reflexivity.
  - apply mark_consumers_pending_e.
  - destruct (step_creator_of_file l s); [apply mark_step_pending_e | reflexivity].
  - destruct (step_creator_of_file l s); [apply mark_step_pending_e | reflexivity].
Qed.
Lemma handle_deleted_file_e l s : erase (handle_deleted_file_t idf l s) = handle_deleted_file l s.
Proof.
  unfold handle_deleted_file_t, handle_deleted_file. apply erase_bindT.
  - destruct (fstate_of l s) as [[]|]; try reflexivity.
    destruct (step_creator_of_file l s); [apply mark_step_pending_e | reflexivity].
  - intros s1. apply mark_consumers_pending_e.
Qed.

Lemma update_file_hashes_e c hs s : erase (update_file_hashes_t idf c hs s) = update_file_hashes c hs s.
Proof.
  unfold update_file_hashes_t, update_file_hashes.
  apply erase_bindT; [apply erase_liftT|]. intros plan.
  apply erase_bindT; [apply erase_foldT; intros s1 x; apply set_fstate_hash_e|]. intros s1.
  apply erase_bindT; [apply erase_foldT; intros s2 l; apply handle_updated_file_e|]. intros s2.
  apply erase_bindT; [apply erase_foldT; intros s3 l; apply handle_deleted_file_e|]. intros s3.
  apply erase_foldT. intros s4 l. apply mark_consumers_pending_e.
Qed.

Lemma detach_created_steps_e step s : erase (detach_created_steps_t idf step s) = detach_created_steps step s.
Proof. apply erase_foldT. intros s1 k. apply node_detach_e. Qed.

Lemma reset_for_rerun_e step s : erase (reset_for_rerun_t idf step s) = reset_for_rerun step s.
Proof.
  unfold reset_for_rerun_t, reset_for_rerun, del_deps_where_t. rewrite erase_bindT_ok. cbv zeta.
  apply erase_bindT.
  - apply erase_foldT. intros s1 x. rewrite erase_bindT_ok. apply node_detach_e.
  - intros s3. apply erase_bindT; [apply detach_created_steps_e|]. intros s4.
    apply erase_bindT; [apply erase_foldT; intros s5 l; apply node_detach_e|]. intros s5.
    apply erase_bindT; [apply erase_foldT; intros s6 x; apply node_detach_e|]. intros s6.
    apply erase_foldT. intros s7 l. apply mark_file_outdated_e.
Qed.

Lemma mark_completed_e step ok wd s : erase (mark_completed_t idf step ok wd s) = mark_completed step ok wd s.
Proof.
  unfold mark_completed_t, mark_completed. destruct (negb (is_some (Graph.find_step step s))); [reflexivity|].
  destruct ok.
  - apply erase_bindT; [apply set_sstate_e|]. intros s1.
    apply erase_bindT; [|reflexivity].
    apply erase_foldT. intros s2 l. apply erase_bindT; [apply set_fstate_e | intros s'; apply mark_consumers_pending_e].
  - apply erase_bindT; [apply erase_foldT; intros s1 l; apply set_fstate_e|]. intros s1.
    apply erase_bindT.
    + destruct wd; [|apply set_sstate_e]. destruct (Graph.find_step step s1) as [r|]; [|reflexivity].
      cbv zeta. rewrite erase_bindT_ok. destruct (sdc r + 1 <=? defer_cap s); apply set_sstate_e.
    + intros s2. apply erase_bindT; [|reflexivity].
      destruct (sstate_of step s2) as [[]|]; try reflexivity. apply detach_created_steps_e.
Qed.

Lemma hold_e l s : erase (hold_t idf l s) = hold l s.
Proof. unfold hold_t. destruct (hold l s); reflexivity. Qed.
Lemma release_e l s : erase (release_t idf l s) = release l s.
Proof. unfold release_t. destruct (release l s); reflexivity. Qed.

Lemma dd_loop_e fuel : forall lost s, fst (dd_loop_t idf fuel lost s) = dd_loop fuel lost s.
Proof.
  induction fuel as [|fuel IH]; intros lost s; [reflexivity|]. cbn [dd_loop_t dd_loop].
  destruct (find (fun n => deletable n s) (nodes s)) as [n|]; [|reflexivity]. cbn [fst]. apply IH.
Qed.

Lemma delete_detached_e s : erase (delete_detached_t idf s) = delete_detached s.
Proof.
  unfold delete_detached_t, delete_detached. rewrite erase_bindT_ok. rewrite !dd_loop_e.
  apply erase_foldT. intros s1 c. destruct (find_node c s1); [apply after_lost_product_e | reflexivity].
Qed.

Lemma reset_interrupted_e s : erase (reset_interrupted_t idf s) = reset_interrupted s.
Proof.
  unfold reset_interrupted_t, reset_interrupted.
  apply erase_bindT; [apply erase_foldT; intros s1 r; destruct (sst r); try reflexivity; apply set_sstate_raw_e|]. intros s1.
  apply erase_bindT; [apply erase_foldT; intros s2 r; destruct (sst r); try reflexivity; apply set_sstate_raw_e|]. intros s2.
  apply erase_foldT. intros s3 r. destruct (sstate_of (sl r) s3) as [[]|]; try reflexivity.
  destruct (is_detached (KStep, sl r) s3); [reflexivity | apply mark_step_pending_e].
Qed.

Theorem step_op_erase a o s : erase (step_op_t idf a o s) = step_op o s.
Proof.
  destruct o; cbn [step_op_t step_op].
  - apply declare_static_files_e.
  - apply update_file_hashes_e.
  - apply define_step_e.
  - apply amend_step_e.
  - apply set_sstate_e.
  - apply reset_for_rerun_e.
  - apply erase_bindT; [apply update_file_hashes_e|]. intros s0.
    apply erase_bindT; [apply update_file_hashes_e|]. intros s1. apply mark_completed_e.
  - apply erase_bindT; [apply reset_for_rerun_e|]. intros s1. unfold delete_hash_t. rewrite erase_bindT_ok.
    apply set_sstate_e.
  - apply set_sstate_e.
  - apply mark_step_pending_e.
  - apply delete_detached_e.
  - apply hold_e.
  - apply release_e.
  - apply reset_interrupted_e.
Qed.

(* the traced transaction: same outcome class, same new state *)
Corollary step_op_t_ok a o s s' : step_op o s = Ok s' -> exists l, step_op_t idf a o s = Ok (s', l).
Proof.
  intros H. rewrite <- (step_op_erase a o s) in H. destruct (step_op_t idf a o s) as [[s2 l]| |]; cbn in H; try discriminate.
  inversion H; subst. exists l. reflexivity.
Qed.

End Erase.
