(* C01, graph level: Workflow.delete_detached (the cleanup transaction at the end of a successful
   build) preserves K = NoStaleSuccess in every state that satisfies C09's invariant.

   What is deleted is a detached node without products and without outgoing edges: it is no
   input of anything, and as an output it was exempt already (K does not look at detached
   outputs).  The step hash that after_lost_product removes belongs to the creator of a deleted
   node, and the creator of a detached node is detached itself (inv_local_b), so K does not look
   at it either.  Both facts need the invariant: the hypothesis is [inv_core_b s = true], which
   holds in every reachable state (C09_reachable_inv_core). *)
From Coq Require Import List NArith Bool Lia.
From SV Require Import lib.Bytes model.Graph model.GraphInv model.NoStale proofs.NoStaleProofs
     proofs.NoStaleMark proofs.NoStaleInv proofs.NoStaleOps.
Import ListNotations.
Open Scope N_scope.

(* ------------------------------------------------------------------------------------------ *)
(* Keys                                                                                        *)
(* ------------------------------------------------------------------------------------------ *)
Lemma kind_eqb_refl (a : kind) : kind_eqb a a = true.
Proof. destruct a; reflexivity. Qed.

Lemma key_eqb_refl (a : key) : key_eqb a a = true.
Proof. unfold key_eqb. rewrite kind_eqb_refl, str_eqb_refl. reflexivity. Qed.

Lemma key_eqb_neq (a b : key) : key_eqb a b = false -> a <> b.
Proof. intros H E. subst. rewrite key_eqb_refl in H. discriminate. Qed.

Lemma key_eqb_sym (a b : key) : key_eqb a b = key_eqb b a.
Proof.
  destruct (key_eqb a b) eqn:E.
  - apply key_eqb_eq in E. subst. symmetry. apply key_eqb_refl.
  - destruct (key_eqb b a) eqn:E'; [|reflexivity]. apply key_eqb_eq in E'. subst.
    rewrite key_eqb_refl in E. discriminate.
Qed.

Lemma find_filter_keep {A} (p q : A -> bool) (l : list A) :
  (forall x, p x = true -> q x = true) -> find p (filter q l) = find p l.
Proof.
  intros H. induction l as [|a l IH]; [reflexivity|]. cbn [filter find].
  destruct (q a) eqn:Eq; cbn [find].
  - destruct (p a); [reflexivity|exact IH].
  - destruct (p a) eqn:Ep; [rewrite (H a Ep) in Eq; discriminate|exact IH].
Qed.

Lemma find_filter_none {A} (p q : A -> bool) (l : list A) :
  (forall x, p x = true -> q x = false) -> find p (filter q l) = None.
Proof.
  intros H. induction l as [|a l IH]; [reflexivity|]. cbn [filter].
  destruct (q a) eqn:Eq; [|exact IH]. cbn [find].
  destruct (p a) eqn:Ep; [rewrite (H a Ep) in Eq; discriminate|exact IH].
Qed.

(* unique node keys *)
Definition UK (s : st) : Prop := nodup_by key_eqb (map nk (nodes s)) = true.

Lemma find_node_in (s : st) (n : node) : UK s -> In n (nodes s) -> find_node (nk n) s = Some n.
Proof.
  unfold UK, find_node. induction (nodes s) as [|a xs IH]; intros Hnd Hin; [contradiction|].
  cbn [map nodup_by] in Hnd. apply andb_true_iff in Hnd. destruct Hnd as [Hn Hnd'].
  cbn [find]. destruct Hin as [->|Hin]; [rewrite key_eqb_refl; reflexivity|].
  destruct (key_eqb (nk a) (nk n)) eqn:E; [|exact (IH Hnd' Hin)].
  exfalso. apply negb_true_iff in Hn.
  assert (Hex : existsb (key_eqb (nk a)) (map nk xs) = true).
  { apply existsb_exists. exists (nk n). split; [apply in_map; exact Hin|exact E]. }
  congruence.
Qed.

Lemma nodup_by_filter {A B} (eqb : B -> B -> bool) (f : A -> B) (q : A -> bool) (l : list A) :
  nodup_by eqb (map f l) = true -> nodup_by eqb (map f (filter q l)) = true.
Proof.
  induction l as [|a l IH]; intros H; [reflexivity|]. cbn [map nodup_by] in H.
  apply andb_true_iff in H. destruct H as [Ha Hl]. cbn [filter]. destruct (q a); [|exact (IH Hl)].
  cbn [map nodup_by]. rewrite (IH Hl), andb_true_r. apply negb_true_iff. apply negb_true_iff in Ha.
  destruct (existsb (eqb (f a)) (map f (filter q l))) eqn:E; [|reflexivity].
  apply existsb_exists in E. destruct E as (y & Hy & Hey). apply in_map_iff in Hy.
  destruct Hy as (x & <- & Hx). apply filter_In in Hx. destruct Hx as [Hx _].
  assert (Hex : existsb (eqb (f a)) (map f l) = true).
  { apply existsb_exists. exists (f x). split; [apply in_map; exact Hx|exact Hey]. }
  congruence.
Qed.

(* ------------------------------------------------------------------------------------------ *)
(* delete_node, component by component                                                         *)
(* ------------------------------------------------------------------------------------------ *)
Lemma nodes_delete_node (k : key) (s : st) :
  nodes (delete_node k s) = filter (fun n => negb (key_eqb (nk n) k)) (nodes s).
Proof. unfold delete_node. destruct (fst k); reflexivity. Qed.

Lemma deps_delete_node (k : key) (s : st) :
  deps (delete_node k s) = filter (fun d => negb (key_eqb (dsnk d) k)) (deps s).
Proof. unfold delete_node. destruct (fst k); reflexivity. Qed.

Lemma steps_delete_node (k : key) (s : st) :
  steps (delete_node k s) = match fst k with
                            | KStep => filter (fun r => negb (str_eqb (sl r) (snd k))) (steps s)
                            | _ => steps s end.
Proof. unfold delete_node. destruct (fst k); reflexivity. Qed.

Lemma files_delete_node (k : key) (s : st) :
  files (delete_node k s) = match fst k with
                            | KFile => filter (fun r => negb (str_eqb (fl r) (snd k))) (files s)
                            | _ => files s end.
Proof. unfold delete_node. destruct (fst k); reflexivity. Qed.

Lemma shash_delete_node (k : key) (s : st) :
  shash (delete_node k s) = match fst k with
                            | KStep => filter (fun x => negb (str_eqb x (snd k))) (shash s)
                            | _ => shash s end.
Proof. unfold delete_node. destruct (fst k); reflexivity. Qed.

Lemma find_node_delete_other (k c : key) (s : st) :
  key_eqb c k = false -> find_node c (delete_node k s) = find_node c s.
Proof.
  intros Hne. unfold find_node. rewrite nodes_delete_node. apply find_filter_keep.
  intros n Hn. apply key_eqb_eq in Hn. rewrite Hn, Hne. reflexivity.
Qed.

Lemma find_node_delete_self (k : key) (s : st) : find_node k (delete_node k s) = None.
Proof.
  unfold find_node. rewrite nodes_delete_node. apply find_filter_none.
  intros n Hn. rewrite Hn. reflexivity.
Qed.

Lemma is_detached_delete_other (k c : key) (s : st) :
  key_eqb c k = false -> is_detached c (delete_node k s) = is_detached c s.
Proof. intros Hne. unfold is_detached. rewrite (find_node_delete_other k c s Hne). reflexivity. Qed.

Lemma is_detached_delete_mono (k c : key) (s : st) :
  is_detached c s = true -> is_detached c (delete_node k s) = true.
Proof.
  intros H. destruct (key_eqb c k) eqn:E.
  - apply key_eqb_eq in E. subst c. unfold is_detached. rewrite find_node_delete_self. reflexivity.
  - rewrite (is_detached_delete_other k c s E). exact H.
Qed.

Lemma fstate_of_delete_other (k : key) (f : str) (s : st) :
  key_eqb (KFile, f) k = false -> fstate_of f (delete_node k s) = fstate_of f s.
Proof.
  intros Hne. unfold fstate_of, find_file. rewrite files_delete_node.
  destruct k as [kk kl]. cbn [fst snd] in *. destruct kk; try reflexivity.
  rewrite find_filter_keep; [reflexivity|]. intros r Hr. apply str_eqb_eq in Hr. rewrite Hr.
  unfold key_eqb in Hne. cbn in Hne. rewrite Hne. reflexivity.
Qed.

Lemma has_hash_filter_other (x l : str) (hs : list str) :
  x <> l -> existsb (str_eqb x) (filter (fun y => negb (str_eqb y l)) hs) = existsb (str_eqb x) hs.
Proof.
  intros Hne. induction hs as [|h hs IH]; [reflexivity|]. cbn [filter].
  destruct (str_eqb h l) eqn:E; cbn [negb existsb].
  - rewrite IH. apply str_eqb_eq in E. subst h. apply str_eqb_false in Hne. rewrite Hne. reflexivity.
  - rewrite IH. reflexivity.
Qed.

Lemma has_hash_delete_node_other (k : key) (x : str) (s : st) :
  key_eqb (KStep, x) k = false -> has_hash x (delete_node k s) = has_hash x s.
Proof.
  intros Hne. unfold has_hash. rewrite shash_delete_node.
  destruct k as [kk kl]. cbn [fst snd] in *. destruct kk; try reflexivity.
  apply has_hash_filter_other. intros ->. unfold key_eqb in Hne. cbn in Hne.
  rewrite str_eqb_refl in Hne. discriminate.
Qed.

(* ------------------------------------------------------------------------------------------ *)
(* One deletion preserves K                                                                    *)
(* ------------------------------------------------------------------------------------------ *)
Lemma K_delete_node (k : key) (s : st) :
  existsb (fun d => key_eqb (dsrc d) k) (deps s) = false ->
  K_b s = true -> K_b (delete_node k s) = true.
Proof.
  intros Hno HK. unfold K_b in *. rewrite forallb_forall in *. intros r Hr.
  (* the row is a row of [s] whose key is not [k] *)
  assert (Hrs : In r (steps s) /\ key_eqb (KStep, sl r) k = false).
  { rewrite steps_delete_node in Hr. destruct k as [kk kl]. cbn [fst snd] in *.
    destruct kk; try (split; [exact Hr|reflexivity]).
    apply filter_In in Hr. destruct Hr as [Hr Hne]. split; [exact Hr|].
    unfold key_eqb. cbn. apply negb_true_iff in Hne. exact Hne. }
  destruct Hrs as [Hin Hkey]. specialize (HK r Hin). unfold K_step_b in *.
  destruct (sstate_eqb (sst r) SSucceeded); [|reflexivity]. cbn [negb orb] in *.
  rewrite (is_detached_delete_other k _ s Hkey).
  destruct (is_detached (KStep, sl r) s); [reflexivity|]. cbn [orb] in *.
  apply andb_true_iff in HK. destruct HK as [HK Ho]. apply andb_true_iff in HK. destruct HK as [Hh Hi].
  rewrite (has_hash_delete_node_other k (sl r) s Hkey), Hh. cbn [andb].
  rewrite forallb_forall in Hi, Ho. apply andb_true_iff. split; rewrite forallb_forall.
  - (* inputs: a subset, and none of them is [k] (no outgoing edge) *)
    intros x Hx. unfold file_inputs_of_step, sources_of in Hx. rewrite deps_delete_node in Hx.
    apply filter_In in Hx. destruct Hx as [Hx Hkind]. apply in_map_iff in Hx.
    destruct Hx as (d & Hd & Hdin). apply filter_In in Hdin. destruct Hdin as [Hdin Hsnk].
    apply filter_In in Hdin. destruct Hdin as [Hdin _].
    assert (Hxk : key_eqb x k = false).
    { destruct (key_eqb x k) eqn:E; [|reflexivity].
      assert (Hex : existsb (fun d0 => key_eqb (dsrc d0) k) (deps s) = true).
      { apply existsb_exists. exists d. split; [exact Hdin|]. rewrite Hd. exact E. }
      congruence. }
    assert (Hxin : In x (file_inputs_of_step (sl r) s)).
    { unfold file_inputs_of_step, sources_of. apply filter_In. split; [|exact Hkind].
      apply in_map_iff. exists d. split; [exact Hd|]. apply filter_In. auto. }
    specialize (Hi x Hxin). unfold input_ok in *. rewrite (is_detached_delete_other k x s Hxk).
    destruct x as [xk xl]. cbn [fst snd] in *. apply kind_eqb_eq in Hkind. subst xk.
    rewrite (fstate_of_delete_other k xl s Hxk). exact Hi.
  - (* outputs: a subset whose members are not [k] (edges into [k] are gone) *)
    intros f Hf. destruct (file_sink_edge (sl r) f _ Hf) as (d & Hdin & Hsrc & Hsnk).
    rewrite deps_delete_node in Hdin. apply filter_In in Hdin. destruct Hdin as [Hdin Hkeep].
    rewrite Hsnk in Hkeep. apply negb_true_iff in Hkeep.
    assert (Hfin : In f (file_sinks_of_step (sl r) s)).
    { unfold file_sinks_of_step, sinks_of. apply in_map_iff. exists (KFile, f). split; [reflexivity|].
      apply filter_In. split; [|reflexivity]. apply in_map_iff. exists d. split; [exact Hsnk|].
      apply filter_In. split; [exact Hdin|]. rewrite Hsrc. apply key_eqb_refl. }
    specialize (Ho f Hfin). unfold output_ok in *.
    rewrite (is_detached_delete_other k _ s Hkeep), (fstate_of_delete_other k f s Hkeep). exact Ho.
Qed.

(* ------------------------------------------------------------------------------------------ *)
(* The creator of a detached node is detached                                                  *)
(* ------------------------------------------------------------------------------------------ *)
Definition Pdet (s : st) : Prop :=
  forall n c, In n (nodes s) -> ndet n = true -> ncre n = Some c -> is_detached c s = true.

Lemma inv_core_UK_Pdet (s : st) : inv_core_b s = true -> UK s /\ Pdet s.
Proof.
  intros H. destruct (inv_core_parts s H) as (Hl & _ & _).
  pose proof (inv_core_nodes s H) as Hn. unfold inv_nodes_b in Hn. apply andb_true_iff in Hn. destruct Hn as [Hn _].
  apply andb_true_iff in Hn. destruct Hn as [Huk Hroot].
  split; [exact Huk|]. intros n c Hin Hd Hc.
  unfold inv_local_b in Hl. rewrite forallb_forall in Hl. specialize (Hl n Hin).
  destruct (key_eqb (nk n) root_key) eqn:Er.
  - (* the root is attached *)
    exfalso. apply key_eqb_eq in Er. pose proof (find_node_in s n Huk Hin) as Hf. rewrite Er in Hf.
    rewrite Hf in Hroot. apply andb_true_iff in Hroot. destruct Hroot as [_ Hr].
    rewrite Hd in Hr. discriminate.
  - cbn [orb] in Hl. rewrite Hc in Hl. unfold is_detached.
    destruct (find_node c s) as [cn|]; [|reflexivity].
    apply andb_true_iff in Hl. destruct Hl as [Hl _]. apply andb_true_iff in Hl. destruct Hl as [Hl _].
    rewrite Hd in Hl. destruct (ndet cn); [reflexivity|discriminate].
Qed.

Lemma UK_delete_node (k : key) (s : st) : UK s -> UK (delete_node k s).
Proof. unfold UK. rewrite nodes_delete_node. apply nodup_by_filter. Qed.

Lemma Pdet_delete_node (k : key) (s : st) : Pdet s -> Pdet (delete_node k s).
Proof.
  intros HP n c Hin Hd Hc. rewrite nodes_delete_node in Hin. apply filter_In in Hin.
  destruct Hin as [Hin _]. apply is_detached_delete_mono. exact (HP n c Hin Hd Hc).
Qed.

(* ------------------------------------------------------------------------------------------ *)
(* The loop and the hashes of the creators that lost a product                                 *)
(* ------------------------------------------------------------------------------------------ *)
Definition DInv (s : st) (lost : list key) : Prop :=
  K_b s = true /\ UK s /\ Pdet s /\ (forall c, In c lost -> is_detached c s = true).

Lemma dd_loop_inv (fuel : nat) :
  forall lost s, DInv s lost -> DInv (fst (dd_loop fuel lost s)) (snd (dd_loop fuel lost s)).
Proof.
  induction fuel as [|fuel IH]; intros lost s HI; [exact HI|]. cbn [dd_loop].
  destruct (find (fun n => deletable n s) (nodes s)) as [n|] eqn:Ef; [|exact HI].
  apply find_some in Ef. destruct Ef as [Hin Hdel]. unfold deletable in Hdel.
  apply andb_true_iff in Hdel. destruct Hdel as [Hdel Hno]. apply andb_true_iff in Hdel.
  destruct Hdel as [Hd _]. apply negb_true_iff in Hno.
  destruct HI as (HK & Huk & HP & Hlost). apply IH.
  split; [exact (K_delete_node (nk n) s Hno HK)|]. split; [exact (UK_delete_node (nk n) s Huk)|].
  split; [exact (Pdet_delete_node (nk n) s HP)|].
  assert (Hold : forall c, In c (filter (fun x => negb (key_eqb x (nk n))) lost) ->
                           is_detached c (delete_node (nk n) s) = true).
  { intros c Hc. apply filter_In in Hc. destruct Hc as [Hc _]. apply is_detached_delete_mono.
    exact (Hlost c Hc). }
  destruct (ncre n) as [c|] eqn:Ec; [|exact Hold].
  destruct (mem_key c (filter (fun x => negb (key_eqb x (nk n))) lost)); [exact Hold|].
  intros c' Hc'. apply in_app_or in Hc'. destruct Hc' as [Hc'|[<-|[]]]; [exact (Hold c' Hc')|].
  apply is_detached_delete_mono. exact (HP n c Hin Hd Ec).
Qed.

Lemma K_delete_detached (s s' : st) :
  inv_core_b s = true -> delete_detached s = Ok s' -> K_b s = true -> K_b s' = true.
Proof.
  intros Hi H HK. destruct (inv_core_UK_Pdet s Hi) as [Huk HP]. unfold delete_detached in H.
  pose proof (dd_loop_inv (length (nodes s)) [] s
                (conj HK (conj Huk (conj HP (fun c (F : In c []) => match F with end))))) as HD.
  set (r := dd_loop (length (nodes s)) [] s) in *. cbv zeta in H.
  destruct HD as (K1 & _ & _ & Hlost).
  (* the fold of after_lost_product keeps K and the detachedness of the remaining creators *)
  assert (Hfold : forall lost t t',
             K_b t = true -> (forall c, In c lost -> is_detached c t = true) ->
             foldM (fun s0 c => match find_node c s0 with
                                | Some _ => after_lost_product c s0
                                | None => Ok s0 end) lost t = Ok t' -> K_b t' = true).
  { induction lost as [|c lost IHl]; intros t t' Kt Hl Hf; cbn [foldM] in Hf.
    - injection Hf as <-. exact Kt.
    - unfold bind in Hf.
      destruct (match find_node c t with Some _ => after_lost_product c t | None => Ok t end)
        as [t1| |] eqn:E1; try discriminate.
      assert (Hstep : K_b t1 = true /\ (forall x, is_detached x t1 = is_detached x t)).
      { destruct (find_node c t); [|injection E1 as <-; auto].
        unfold after_lost_product in E1. destruct c as [ck cl]. cbn [fst snd] in E1.
        destruct ck; try discriminate; injection E1 as <-; [|auto].
        split; [|reflexivity]. apply K_delete_hash; [|exact Kt]. intros r0 _ _. right.
        exact (Hl (KStep, cl) (or_introl eq_refl)). }
      destruct Hstep as [K1' Hsame]. apply (IHl t1 t' K1'); [|exact Hf].
      intros x Hx. rewrite Hsame. apply Hl. right. exact Hx. }
  exact (Hfold (snd r) (fst r) s' K1 Hlost H).
Qed.

Lemma K_op_delete_detached (s : st) :
  inv_core_b s = true -> K_b s = true -> K_b (apply_op s OpDeleteDetached) = true.
Proof.
  intros Hi HK. unfold apply_op. cbn [step_op].
  destruct (delete_detached s) as [s'| |] eqn:E; try exact HK.
  exact (K_delete_detached s s' Hi E HK).
Qed.
