(* C09: the composite operations of model/Graph.v (declarations, step definition and amendment,
   hash updates, step lifecycle, cleanup, restart) preserve Inv; in strict mode (request
   operations under their preconditions) they raise no internal error. *)
From Coq Require Import List NArith Bool Lia.
From SV Require Import lib.Bytes lib.Closure model.Graph model.GraphInv
  proofs.GraphBase proofs.GraphNodes proofs.GraphInvP proofs.GraphPrims proofs.GraphFrames proofs.GraphCreate.
Import ListNotations.
Open Scope N_scope.

Section HH.
Context {hh : bool}.

(* ------------------------------------------------------------------------------------------ *)
(* claims                                                                                      *)
(* ------------------------------------------------------------------------------------------ *)
Lemma existing_claim_spec l s :
  Inv hh s -> exists cl, existing_claim l s = Ok cl /\ (cl = None -> is_detached (KFile, l) s = true).
Proof.
  intros HI. pose proof (inv_nw _ HI) as HW. unfold existing_claim.
  rewrite is_detached_findn. unfold find_node, find_file.
  fold (findn (KFile, l) (nodes s)). fold (findf l (files s)).
  destruct (findn (KFile, l) (nodes s)) as [n|] eqn:Hn; [|exists None; auto].
  pose proof (findn_In _ _ _ Hn) as [Hin Hkey].
  assert (Hl : local_ok (nodes s) n). { apply (nw_local _ HW); [exact Hin | rewrite Hkey; discriminate]. }
  destruct (findf l (files s)) as [r|] eqn:Hr.
  - destruct (ndet n) eqn:Hd; [exists None; auto|].
    destruct (ncre n) as [c|] eqn:Hc.
    + destruct (role_of (fstt r)) as [ro|] eqn:Hro; [eexists; split; [reflexivity | discriminate]|].
      exfalso. assert (Hu : fstt r = FUndeclared) by (destruct (fstt r); cbn in Hro; congruence).
      pose proof (findf_In _ _ _ Hr) as [Hrin Hrl].
      pose proof (inv_ud _ HI r Hrin Hu n) as Hnone. rewrite Hrl in Hnone. specialize (Hnone Hn). congruence.
    + exfalso. unfold local_ok in Hl. rewrite Hc in Hl. congruence.
  - exfalso. apply findf_none in Hr. apply Hr. apply (rw_files _ _ _ _ _ (inv_rw _ HI)).
    rewrite <- Hkey. apply in_map. exact Hin.
Qed.

Lemma check_declaration_node_spec strict c l role s :
  Inv hh s -> wpg strict (check_declaration_node c l role s)
             (fun isnew => isnew = true -> is_detached (KFile, l) s = true).
Proof.
  intros HI. unfold check_declaration_node. destruct (existing_claim_spec l s HI) as [cl [-> Hcl]].
  cbn [bind]. destruct cl as [[ro cr]|]; [|cbn; auto].
  destruct ((ro =? role) && key_eqb cr c); cbn; [discriminate | exact I].
Qed.

Lemma check_declaration_phrase_spec strict l s :
  Inv hh s -> wpg strict (check_declaration_phrase l s) (fun _ => is_detached (KFile, l) s = true).
Proof.
  intros HI. unfold check_declaration_phrase. destruct (existing_claim_spec l s HI) as [cl [-> Hcl]].
  cbn [bind]. destruct cl as [x|]; [exact I | cbn; auto].
Qed.

(* the "todo" lists of declare_static_files / amend_step *)
Lemma todo_fold_spec strict c role s paths :
  Inv hh s -> forall acc,
  (forall l, In l acc -> is_detached (KFile, l) s = true) ->
  wpg strict (foldM (fun acc l => do isnew <- check_declaration_node c l role s;
                                  Ok (if isnew : bool then acc ++ [l] else acc)) paths acc)
      (fun todo => (forall l, In l todo -> is_detached (KFile, l) s = true) /\
                   (forall l, In l todo -> In l acc \/ In l paths) /\
                   (NoDup (acc ++ paths) -> NoDup todo)).
Proof.
  intros HI. induction paths as [|p paths IH]; intros acc Hacc; cbn [foldM].
  - cbn. split; [exact Hacc|]. split; [auto|]. rewrite app_nil_r. auto.
  - apply wpg_bind. apply wpg_bind.
    eapply wpg_weaken; [apply check_declaration_node_spec; exact HI|].
    intros isnew Hnew. cbn [wpg].
    eapply wpg_weaken.
    { apply IH. intros l Hl. destruct isnew; [|apply Hacc; exact Hl].
      apply in_app_or in Hl. destruct Hl as [Hl|[<-|[]]]; [apply Hacc; exact Hl | apply Hnew; reflexivity]. }
    intros todo [H1 [H2 H3]]. split; [exact H1|]. split.
    + intros l Hl. destruct (H2 l Hl) as [H|H]; [|right; right; exact H].
      destruct isnew; [|left; exact H]. apply in_app_or in H. destruct H as [H|[<-|[]]]; [left; exact H | right; left; reflexivity].
    + intros Hnd. apply H3. destruct isnew.
      * rewrite <- app_assoc. exact Hnd.
      * rewrite <- (app_nil_l paths) in Hnd at 1.
        replace (acc ++ p :: paths) with ((acc ++ [p]) ++ paths) in Hnd by (rewrite <- app_assoc; reflexivity).
        apply NoDup_remove_1 in Hnd.
        replace (acc ++ p :: paths) with (acc ++ [p] ++ paths) in * by reflexivity.
        exact Hnd.
Qed.

(* ------------------------------------------------------------------------------------------ *)
(* _declare_file                                                                               *)
(* ------------------------------------------------------------------------------------------ *)
Definition creator_good (k c : key) (s : st) : Prop :=
  find_node c s <> None /\ c <> k /\ creator_kind_ok (fst k) (fst c) = true.

Lemma creator_ok_good k c s : creator_good k c s -> creator_ok k (Some c) s = Ok tt.
Proof.
  intros [H1 [H2 H3]]. unfold creator_ok. apply is_some_true in H1. rewrite H1. cbn.
  apply key_eqb_neq in H2. rewrite H2, H3. reflexivity.
Qed.

Lemma declare_file_spec strict c l f s :
  Inv hh s ->
  (strict = true -> (f = FUnconfirmed \/ f = FPlanned \/ f = FVolatile) /\
                    creator_good (KFile, l) c s /\ is_detached (KFile, l) s = true) ->
  wpg strict (declare_file c l f s)
      (fun s' => Inv hh s' /\ NF [(KFile, l)] s s' /\ In (KFile, l) (KL (nodes s')) /\
                 creator_of (KFile, l) s' = Some c /\
                 (exists st, fstate_of l s' = Some st /\ (st = f \/ out_state st = true)) /\
                 (creator_quiet (Some c) f s -> GG s s')).
Proof.
  intros HI Hst. unfold declare_file.
  set (Q := fun s' => Inv hh s' /\ NF [(KFile, l)] s s' /\ In (KFile, l) (KL (nodes s')) /\
                      creator_of (KFile, l) s' = Some c /\
                      (exists st, fstate_of l s' = Some st /\ (st = f \/ out_state st = true)) /\
                      (creator_quiet (Some c) f s -> GG s s')).
  assert (Hbad : forall t, f <> FUnconfirmed -> f <> FPlanned -> f <> FVolatile -> wpg strict (@Internal st t) Q).
  { intros t H1 H2 H3. destruct strict; [|exact I]. cbn. destruct (Hst eq_refl) as [[H|[H|H]] _]; congruence. }
  assert (Hcreate : wpg strict (create (KFile, l) (Some c) (InitFile f) s) Q \/
                    (f <> FUnconfirmed /\ f <> FPlanned /\ f <> FVolatile)).
  { destruct f; try (right; repeat split; discriminate); left;
      (eapply wpg_weaken; [apply (@create_spec hh); [exact HI | split; [reflexivity | discriminate] |
         intros Hs; destruct (Hst Hs) as [_ [Hg Hd]]; split; [apply creator_ok_good; exact Hg|];
         split; [exact Hd | intros f0 Hf0; inversion Hf0; reflexivity]] |
       intros s' [H1 [H2 [H3 [_ [H5 [H6 [H7 _]]]]]]]; unfold Q; split; [exact H1|]; split; [exact H2|]; split; [exact H3|]; split; [exact H5|]; split; [apply (H6 _ eq_refl) | intros Hq; apply H7; intros f0 Hf0; inversion Hf0; subst f0; exact Hq]]). }
  destruct f; try (apply Hbad; discriminate);
    (destruct Hcreate as [Hc|[H1 [H2 H3]]]; [|congruence]);
    apply wpg_bind; eapply wpg_weaken; try exact Hc; intros s1 HQ1; cbn [wpg]; auto.
  destruct (attached_step_sinks l s1); cbn; auto.
Qed.

(* ------------------------------------------------------------------------------------------ *)
(* _resolve_supply_file, _supply_files                                                         *)
(* ------------------------------------------------------------------------------------------ *)
Lemma NF_nil_of_create k s s' :
  NF [k] s s' -> is_detached k s' = true -> NF [] s s'.
Proof.
  intros [H1 H2] Hk. split; [exact H1|]. intros x _ Hx.
  destruct (key_eq_dec x k) as [->|Hne]; [exact Hk|]. apply H2; [|exact Hx].
  intros [H|[]]. congruence.
Qed.

Lemma resolve_supply_file_spec strict step l rn s :
  Inv hh s ->
  wpg strict (resolve_supply_file step l rn s)
      (fun r => Inv hh (fst r) /\ NF [] s (fst r) /\ In (KFile, l) (KL (nodes (fst r))) /\ GG s (fst r)).
Proof.
  intros HI. pose proof (inv_nw _ HI) as HW. unfold resolve_supply_file.
  assert (Hcreate : is_detached (KFile, l) s = true ->
            wpg strict (create (KFile, l) None (InitFile FUndeclared) s)
                (fun s1 => Inv hh s1 /\ NF [] s s1 /\ In (KFile, l) (KL (nodes s1)) /\ GG s s1)).
  { intros Hd. eapply wpg_weaken.
    - apply (@create_spec hh); [exact HI | split; [reflexivity | reflexivity] |].
      intros _. split; [reflexivity|]. split; [exact Hd|]. intros f Hf. inversion Hf. reflexivity.
    - intros s1 [H1 [H2 [H3 [H4 [_ [_ [H7 _]]]]]]]. split; [exact H1|]. split; [|split; [exact H3|]].
      + eapply NF_nil_of_create; [exact H2 | exact H4].
      + apply H7. intros f0 _ x Hx. discriminate. }
  assert (Hfin : forall s1, Inv hh s1 -> NF [] s s1 -> In (KFile, l) (KL (nodes s1)) -> GG s s1 ->
            wpg strict (let isnew := negb (has_dep (KFile, l) (KStep, step) s1) in
                        if negb isnew && rn then Usage 205 else Ok (s1, isnew))
                (fun r => Inv hh (fst r) /\ NF [] s (fst r) /\ In (KFile, l) (KL (nodes (fst r))) /\ GG s (fst r))).
  { intros s1 H1 H2 H3 H4. cbn zeta. destruct (negb (negb (has_dep (KFile, l) (KStep, step) s1)) && rn); cbn; auto. }
  apply wpg_bind.
  destruct (find_node (KFile, l) s) as [n|] eqn:Hn.
  2:{ eapply wpg_weaken; [apply Hcreate; rewrite is_detached_findn; unfold find_node in Hn;
                          fold (findn (KFile, l) (nodes s)) in Hn; rewrite Hn; reflexivity|].
      intros s1 [H1 [H2 [H3 H4]]]. apply Hfin; assumption. }
  unfold find_node in Hn. fold (findn (KFile, l) (nodes s)) in Hn.
  pose proof (findn_In _ _ _ Hn) as [Hin Hkey].
  destruct (ncre n) as [c|] eqn:Hc.
  - destruct (fstate_of l s) as [fs|] eqn:Hfs.
    + assert (Hok : wpg strict (Ok s) (fun s1 => wpg strict
                 (let isnew := negb (has_dep (KFile, l) (KStep, step) s1) in
                  if negb isnew && rn then Usage 205 else Ok (s1, isnew))
                 (fun r => Inv hh (fst r) /\ NF [] s (fst r) /\ In (KFile, l) (KL (nodes (fst r))) /\ GG s (fst r)))).
      { cbn [wpg]. apply Hfin; [exact HI | apply NF_refl | | apply GG_refl]. rewrite <- Hkey. apply in_map. exact Hin. }
      destruct fs; try exact Hok. exact I.
    + destruct strict; [|exact I]. cbn. rewrite fstate_of_findf in Hfs.
      destruct (findf l (files s)) eqn:Hr; [discriminate|]. apply findf_none in Hr. apply Hr.
      apply (rw_files _ _ _ _ _ (inv_rw _ HI)). rewrite <- Hkey. apply in_map. exact Hin.
  - eapply wpg_weaken.
    + apply Hcreate. rewrite is_detached_findn, Hn.
      assert (Hl : local_ok (nodes s) n). { apply (nw_local _ HW); [exact Hin | rewrite Hkey; discriminate]. }
      unfold local_ok in Hl. rewrite Hc in Hl. exact Hl.
    + intros s1 [H1 [H2 [H3 H4]]]. apply Hfin; assumption.
Qed.

Lemma would_cycle_false sink srcs s :
  would_cycle sink srcs s = false -> forall x, In x srcs -> ~ path (EL (deps s)) sink x.
Proof.
  unfold would_cycle. intros H x Hx Hp. rewrite existsb_false_iff in H. specialize (H x Hx).
  apply rec_sinks_spec in Hp. congruence.
Qed.

Lemma path_app_edge ds a b dyn x y :
  path (EL (ds ++ [mkD a b dyn])) x y -> path (EL ds) x y \/ (path (EL ds) x a /\ path (EL ds) b y).
Proof.
  intros H. apply (path_add_edge (EL ds) a b). eapply path_incl; [|exact H].
  rewrite EL_app. intros e He. apply in_app_or in He. destruct He as [He|[<-|[]]]; [right; exact He | left; reflexivity].
Qed.

Lemma supply_files_spec strict step paths rn dyn s :
  Inv hh s -> In (KStep, step) (KL (nodes s)) ->
  wpg strict (supply_files step paths rn dyn s) (fun s' => Inv hh s' /\ NF [] s s' /\ GG s s').
Proof.
  intros HI Hstep. unfold supply_files. apply wpg_bind.
  eapply wpg_weaken.
  { apply (wpg_foldM strict _ (fun acc : st * list str =>
             Inv hh (fst acc) /\ NF [] s (fst acc) /\ (forall l, In l (snd acc) -> In (KFile, l) (KL (nodes (fst acc)))) /\
             GG s (fst acc))).
    - intros acc l _ [H1 [H2 [H3 H4]]]. apply wpg_bind.
      eapply wpg_weaken; [apply resolve_supply_file_spec; exact H1|].
      intros r [R1 [R2 [R3 R4]]]. cbn [wpg fst snd]. split; [exact R1|]. split; [eapply NF_trans; eassumption|].
      split; [|eapply GG_trans; eassumption].
      intros l' Hl'. destruct (snd r).
      + apply in_app_or in Hl'. destruct Hl' as [Hl'|[<-|[]]]; [|exact R3]. apply (proj1 R2). apply H3. exact Hl'.
      + apply (proj1 R2). apply H3. exact Hl'.
    - cbn. split; [exact HI|]. split; [apply NF_refl |]. split; [intros l [] | apply GG_refl]. }
  intros [s1 news] [H1 [H2 [H3 H4g]]]. cbn [fst snd] in *.
  assert (Hstep1 : In (KStep, step) (KL (nodes s1))) by (apply (proj1 H2); exact Hstep).
  assert (Hadd : (forall l, In l news -> ~ path (EL (deps s1)) (KStep, step) (KFile, l)) ->
            wpg strict (foldM (fun s l => add_dep (KFile, l) (KStep, step) dyn s) news s1)
                (fun s' => Inv hh s' /\ NF [] s s' /\ GG s s')).
  { intros Hnp. eapply wpg_weaken.
    - apply (wpg_foldM_rem strict _ (fun rest s' =>
               (Inv hh s' /\ G3 s1 s') /\ nodes s' = nodes s1 /\ incl rest news /\
               (forall l, In l rest -> ~ path (EL (deps s')) (KStep, step) (KFile, l)))).
      + intros s' l rest [[I1 I1g] [I2 [I3 I4]]]. eapply wpg_weaken.
        * apply (@add_dep_spec hh); [exact I1 | rewrite I2; apply H3; apply I3; left; reflexivity
                              | rewrite I2; exact Hstep1 | apply I4; left; reflexivity
                              | intros sl f Ha; discriminate | reflexivity].
        * intros s'' [J1 J2]. split; [split; [exact J1 | subst s''; eapply G3_trans; [exact I1g | apply set_deps_G3]]|].
          subst s''. cbn [nodes deps set_deps].
          split; [exact I2|]. split; [intros x Hx; apply I3; right; exact Hx|].
          intros l' Hl' Hp. apply path_app_edge in Hp. destruct Hp as [Hp|[Hp _]].
          -- apply (I4 l'); [right; exact Hl' | exact Hp].
          -- apply (I4 l); [left; reflexivity | exact Hp].
      + split; [split; [exact H1 | apply G3_refl]|]. split; [reflexivity|]. split; [apply incl_refl | exact Hnp].
    - intros s' [[J1 J1g] [J2 _]]. split; [exact J1|]. split; [eapply NF_nodes_eq; [exact H2 | exact J2]|].
      eapply GG_trans; [exact H4g | apply G3_GG; exact J1g]. }
  destruct news as [|l0 news'].
  - apply Hadd. intros l [].
  - destruct (would_cycle (KStep, step) (map (fun l => (KFile, l)) (l0 :: news')) s1) eqn:Ewc; [exact I|].
    apply Hadd. intros l Hl. eapply would_cycle_false; [exact Ewc|]. apply in_map. exact Hl.
Qed.

Lemma add_output_edge_spec strict step l dyn s :
  Inv hh s -> In (KStep, step) (KL (nodes s)) -> In (KFile, l) (KL (nodes s)) ->
  creator_of (KFile, l) s = Some (KStep, step) ->
  (exists st, fstate_of l s = Some st /\ out_state st = true) ->
  wpg strict (add_output_edge step l dyn s) (fun s' => Inv hh s' /\ nodes s' = nodes s /\ GG s s').
Proof.
  intros HI H1 H2 Hcre Hout. unfold add_output_edge.
  destruct (would_cycle (KFile, l) [(KStep, step)] s) eqn:Ewc; [exact I|].
  eapply wpg_weaken.
  - apply (@add_dep_spec hh); [exact HI | exact H1 | exact H2 | | | reflexivity].
    + eapply would_cycle_false; [exact Ewc | left; reflexivity].
    + intros sl f Ha Hb n c Hn Hc. inversion Ha; inversion Hb; subst sl f.
      unfold creator_of, find_node in Hcre. fold (findn (KFile, l) (nodes s)) in Hcre. rewrite Hn in Hcre.
      split; [congruence|]. destruct Hout as [st0 [Hs1 Hs2]]. rewrite fstate_of_findf in Hs1.
      destruct (findf l (files s)) as [r|]; [|discriminate]. exists r. split; [reflexivity|].
      cbn in Hs1. congruence.
  - intros s' [J1 ->]. split; [exact J1|]. split; [reflexivity | apply G3_GG; apply set_deps_G3].
Qed.

(* ------------------------------------------------------------------------------------------ *)
(* folds of declarations                                                                       *)
(* ------------------------------------------------------------------------------------------ *)
Lemma bind_ok_r {A} (r : res A) : bind r (fun x => Ok x) = r.
Proof. destruct r; reflexivity. Qed.

Lemma foldM_ext {A S} (f g : S -> A -> res S) l s :
  (forall s a, f s a = g s a) -> foldM f l s = foldM g l s.
Proof.
  intros H. revert s. induction l as [|a l IH]; intros s; cbn [foldM]; [reflexivity|].
  rewrite H. destruct (g s a); cbn [bind]; auto.
Qed.

Definition fkeys (ls : list str) : list key := map (fun l => (KFile, l)) ls.

Lemma In_fkeys l ls : In (KFile, l) (fkeys ls) <-> In l ls.
Proof.
  unfold fkeys. rewrite in_map_iff. split; [intros [x [Hx Hin]]; inversion Hx; subst; exact Hin | intros H; exists l; auto].
Qed.

Lemma creator_quiet_GG cr f s s' : creator_quiet cr f s -> GG s s' -> creator_quiet cr f s'.
Proof. intros Hq HG x Hx H1 H2 Hs. apply (Hq x Hx H1 H2). apply (gg_succ _ _ HG). exact Hs. Qed.

Lemma declare_fold_spec strict c f (after : str -> st -> res st) ls s :
  (f = FUnconfirmed \/ f = FPlanned \/ f = FVolatile) ->
  (forall l s1, Inv hh s1 -> In c (KL (nodes s1)) -> In (KFile, l) (KL (nodes s1)) ->
                creator_of (KFile, l) s1 = Some c ->
                (exists st, fstate_of l s1 = Some st /\ (st = f \/ out_state st = true)) ->
                wpg strict (after l s1) (fun s2 => Inv hh s2 /\ nodes s2 = nodes s1 /\ GG s1 s2)) ->
  Inv hh s -> In c (KL (nodes s)) ->
  (strict = true -> fst c <> KFile /\ creator_kind_ok KFile (fst c) = true /\ NoDup ls /\
                    forall l, In l ls -> is_detached (KFile, l) s = true) ->
  wpg strict (foldM (fun s l => do s' <- declare_file c l f s; after l s') ls s)
      (fun s' => Inv hh s' /\ NF (fkeys ls) s s' /\ (creator_quiet (Some c) f s -> GG s s')).
Proof.
  intros Hf Hafter HI Hc Hst.
  eapply wpg_weaken.
  - apply (wpg_foldM_rem strict _ (fun rest s' =>
             (Inv hh s' /\ (creator_quiet (Some c) f s -> GG s s')) /\ NF (fkeys ls) s s' /\ incl rest ls /\
             (strict = true -> NoDup rest /\ forall l, In l rest -> is_detached (KFile, l) s' = true))).
    + intros s' l rest [[I1 I1g] [I2 [I3 I4]]].
      assert (Hc' : In c (KL (nodes s'))) by (apply (proj1 I2); exact Hc).
      apply wpg_bind. eapply wpg_weaken.
      * apply declare_file_spec; [exact I1|]. intros Hs. destruct (Hst Hs) as [S1 [S2 _]].
        destruct (I4 Hs) as [S3 S4]. split; [exact Hf|]. split.
        -- split; [apply find_node_KL; exact Hc'|]. split; [intros He; apply S1; rewrite He; reflexivity | exact S2].
        -- apply S4. left. reflexivity.
      * intros s1 [J1 [J2 [J3 [J4 [J5 J6]]]]]. eapply wpg_weaken.
        -- apply Hafter; [exact J1 | apply (proj1 J2); exact Hc' | exact J3 | exact J4 | exact J5].
        -- intros s2 [K1 [K2 K3]]. split.
           { split; [exact K1|]. intros Hq. pose proof (I1g Hq) as G1.
             eapply GG_trans; [exact G1|]. eapply GG_trans; [|exact K3]. apply J6. eapply creator_quiet_GG; eassumption. }
           assert (HNF : NF (fkeys ls) s' s2).
           { eapply NF_nodes_eq; [|exact K2]. eapply NF_weaken; [|exact J2].
             intros x [<-|[]]. apply In_fkeys. apply I3. left. reflexivity. }
           split; [eapply NF_trans; eassumption|].
           split; [intros x Hx; apply I3; right; exact Hx|].
           intros Hs. destruct (I4 Hs) as [S3 S4]. inversion S3 as [|x xs Hnin Hnd]; subst.
           split; [exact Hnd|]. intros l' Hl'.
           rewrite is_detached_findn, K2. apply (proj2 J2).
           ++ intros [He|[]]. inversion He; subst. contradiction.
           ++ apply S4. right. exact Hl'.
    + split; [split; [exact HI | intros _; apply GG_refl]|]. split; [apply NF_refl|]. split; [apply incl_refl|].
      intros Hs. destruct (Hst Hs) as [_ [_ [S3 S4]]]. auto.
  - intros s' [[J1 J1g] [J2 _]]. auto.
Qed.

Lemma phrase_fold_spec strict ls s :
  Inv hh s ->
  wpg strict (foldM (fun (u : unit) l => do _ <- check_declaration_phrase l s; Ok tt) ls tt)
      (fun _ => forall l, In l ls -> is_detached (KFile, l) s = true).
Proof.
  intros HI. induction ls as [|l ls IH]; cbn [foldM]; [cbn; intros l []|].
  apply wpg_bind. apply wpg_bind. eapply wpg_weaken; [apply check_declaration_phrase_spec; exact HI|].
  intros u Hd. cbn [wpg]. eapply wpg_weaken; [exact IH|]. intros u' H l' [He|Hl']; [rewrite <- He; exact Hd | auto].
Qed.

Lemma fold_add_env_inv label dyn rep env s :
  Inv hh s -> In (KStep, label) (KL (nodes s)) ->
  Inv hh (fold_left (fun s e => add_env label e dyn rep s) env s) /\
  nodes (fold_left (fun s e => add_env label e dyn rep s) env s) = nodes s.
Proof.
  intros HI Hk.
  apply (fold_left_inv (fun s e => add_env label e dyn rep s) (fun s' => Inv hh s' /\ nodes s' = nodes s)).
  - intros s' e [H1 H2]. split.
    + apply add_env_inv; [exact H1|]. apply find_step_SL. apply (rw_steps _ _ _ _ _ (inv_rw _ H1)).
      rewrite H2. exact Hk.
    + destruct (add_env_frame label e dyn rep s') as [E _]. rewrite E. exact H2.
  - auto.
Qed.

Lemma overlap_false out vol : existsb (fun l => mem_str l vol) out = false ->
  forall l, In l out -> ~ In l vol.
Proof.
  intros H l Hl Hv. rewrite existsb_false_iff in H. specialize (H l Hl).
  apply mem_str_In in Hv. congruence.
Qed.

Lemma is_detached_nodes_eq x s s' : nodes s' = nodes s -> is_detached x s' = is_detached x s.
Proof. intros H. rewrite !is_detached_findn, H. reflexivity. Qed.

(* ------------------------------------------------------------------------------------------ *)
(* declare_static_files                                                                        *)
(* ------------------------------------------------------------------------------------------ *)
Lemma declare_static_files_spec strict c paths s :
  Inv hh s -> (strict = true -> find_node c s <> None /\ creator_kind_ok KFile (fst c) = true /\ NoDup paths) ->
  wpg strict (declare_static_files c paths s) (fun s' => Inv hh s' /\ GG s s').
Proof.
  intros HI Hst. unfold declare_static_files.
  destruct (is_some (find_node c s)) eqn:Ec; cbn [negb].
  2:{ destruct strict; [|exact I]. cbn. destruct (Hst eq_refl) as [H _]. apply is_some_true in H. congruence. }
  apply is_some_true in Ec. apply find_node_KL in Ec.
  apply wpg_bind. eapply wpg_weaken; [apply (todo_fold_spec strict c 61 s paths HI []); intros l []|].
  intros todo [T1 [T2 T3]].
  rewrite (foldM_ext _ (fun s l => do s' <- declare_file c l FUnconfirmed s; (fun _ s => Ok s) l s')).
  2:{ intros s0 a. rewrite bind_ok_r. reflexivity. }
  eapply wpg_weaken.
  - apply declare_fold_spec; [auto | | exact HI | exact Ec |].
    + intros l s1 H1 _ _ _ _. cbn. split; [exact H1|]. split; [reflexivity | apply GG_refl].
    + intros Hs. destruct (Hst Hs) as [_ [S2 S3]]. split; [|split; [exact S2|split; [apply T3; exact S3 | exact T1]]].
      intros He. rewrite He in S2. discriminate.
  - intros s' [H [_ HG]]. split; [exact H|]. apply HG. intros x _ Hx. congruence.
Qed.

(* ------------------------------------------------------------------------------------------ *)
(* define_step                                                                                 *)
(* ------------------------------------------------------------------------------------------ *)
Lemma fold_add_env_G3 label dyn rep env s :
  G3 s (fold_left (fun s e => add_env label e dyn rep s) env s).
Proof.
  apply (fold_left_inv (fun s e => add_env label e dyn rep s) (fun s' => G3 s s')); [|apply G3_refl].
  intros s' e H. eapply G3_trans; [exact H | apply add_env_G3].
Qed.

Lemma not_succ_GG l s s' : sstate_of l s <> Some SSucceeded -> GG s s' -> sstate_of l s' <> Some SSucceeded.
Proof. intros H HG Hs. apply H. apply (gg_succ _ _ HG). exact Hs. Qed.

Lemma define_step_new_spec strict creator label inp env out vol nd s :
  Inv hh s ->
  (strict = true -> creator_good (KStep, label) creator s /\ is_detached (KStep, label) s = true /\
                    NoDup out /\ NoDup vol) ->
  wpg strict (define_step_new creator label inp env out vol nd s) (fun s' => Inv hh s' /\ GG s s').
Proof.
  intros HI Hst. unfold define_step_new. set (k := (KStep, label)).
  apply wpg_bind. eapply wpg_weaken; [apply phrase_fold_spec; exact HI|]. intros u1 Hout. cbn beta in Hout.
  apply wpg_bind. eapply wpg_weaken; [apply phrase_fold_spec; exact HI|]. intros u2 Hvol. cbn beta in Hvol.
  destruct (existsb (fun l => mem_str l vol) out) eqn:Eov; [exact I|].
  pose proof (overlap_false _ _ Eov) as Hdisj.
  apply wpg_bind. eapply wpg_weaken.
  { apply (@create_spec hh); [exact HI | reflexivity |]. intros Hs. destruct (Hst Hs) as [S1 [S2 _]].
    split; [apply creator_ok_good; exact S1|]. split; [exact S2 | intros f Hf; discriminate]. }
  intros s1 [I1 [NF1 [K1 [_ [_ [_ [G1 P1]]]]]]].
  assert (G01 : GG s s1). { apply G1. intros f Hf. discriminate. }
  assert (Hp1 : sstate_of label s1 = Some SPending) by (apply (P1 nd); reflexivity).
  apply wpg_bind. eapply wpg_weaken; [apply supply_files_spec; [exact I1 | exact K1]|].
  intros s2 [I2 [NF2 G12]].
  assert (K2 : In k (KL (nodes s2))) by (apply (proj1 NF2); exact K1).
  destruct (fold_add_env_inv label false true env s2 I2 K2) as [I3 N3].
  pose proof (fold_add_env_G3 label false true env s2) as G23.
  set (s3 := fold_left (fun s e => add_env label e false true s) env s2) in *.
  assert (G03 : GG s s3). { eapply GG_trans; [exact G01|]. eapply GG_trans; [exact G12 | apply G3_GG; exact G23]. }
  assert (K3 : In k (KL (nodes s3))) by (rewrite N3; exact K2).
  assert (Hq3 : forall f, creator_quiet (Some k) f s3).
  { intros f x Hx _ _. inversion Hx; subst x. eapply not_succ_GG; [|eapply GG_trans; [exact G12 | apply G3_GG; exact G23]].
    rewrite Hp1. discriminate. }
  assert (Hdet3 : forall l, is_detached (KFile, l) s = true -> is_detached (KFile, l) s3 = true).
  { intros l Hd. rewrite (is_detached_nodes_eq _ _ _ N3). apply (proj2 NF2); [intros []|].
    apply (proj2 NF1); [|exact Hd]. intros [He|[]]. discriminate. }
  assert (Hafter : forall f, (f = FPlanned \/ f = FVolatile) ->
             forall l s1, Inv hh s1 -> In k (KL (nodes s1)) -> In (KFile, l) (KL (nodes s1)) ->
             creator_of (KFile, l) s1 = Some k ->
             (exists st, fstate_of l s1 = Some st /\ (st = f \/ out_state st = true)) ->
             wpg strict (add_output_edge label l false s1) (fun s2 => Inv hh s2 /\ nodes s2 = nodes s1 /\ GG s1 s2)).
  { intros f Hf l t H1 H2 H3 H4 [st0 [H5 H6]]. apply add_output_edge_spec; try assumption.
    exists st0. split; [exact H5|]. destruct H6 as [->|H6]; [destruct Hf as [->| ->]; reflexivity | exact H6]. }
  apply wpg_bind. eapply wpg_weaken.
  { apply (declare_fold_spec strict k FPlanned (fun l s => add_output_edge label l false s) out s3);
      [auto | apply Hafter; auto | exact I3 | exact K3 |].
    intros Hs. destruct (Hst Hs) as [_ [_ [S3 _]]]. split; [discriminate|]. split; [reflexivity|].
    split; [exact S3|]. intros l Hl. apply Hdet3. apply Hout. exact Hl. }
  intros s4 [I4 [NF4 G34]]. specialize (G34 (Hq3 FPlanned)).
  eapply wpg_weaken.
  { apply (declare_fold_spec strict k FVolatile (fun l s => add_output_edge label l false s) vol s4);
      [auto | apply Hafter; auto | exact I4 | apply (proj1 NF4); exact K3 |].
    intros Hs. destruct (Hst Hs) as [_ [_ [_ S4]]]. split; [discriminate|]. split; [reflexivity|].
    split; [exact S4|]. intros l Hl. apply (proj2 NF4).
    - intros Hin. apply In_fkeys in Hin. exact (Hdisj l Hin Hl).
    - apply Hdet3. apply Hvol. exact Hl. }
  intros s5 [I5 [_ G45]]. split; [exact I5|].
  eapply GG_trans; [exact G03|]. eapply GG_trans; [exact G34|]. apply G45.
  intros x _ _ Hv. exfalso. apply Hv. reflexivity.
Qed.

Lemma define_step_spec strict creator label inp env out vol nd s :
  Inv hh s ->
  (strict = true -> find_node creator s <> None /\
                    creator_kind_ok KStep (fst creator) = true /\ NoDup out /\ NoDup vol) ->
  wpg strict (define_step creator label inp env out vol nd s) (fun s' => Inv hh s' /\ GG s s').
Proof.
  intros HI Hst. unfold define_step. set (k := (KStep, label)).
  destruct (is_some (find_node creator s)) eqn:Ec; cbn [negb].
  2:{ destruct strict; [|exact I]. cbn. destruct (Hst eq_refl) as [H _]. apply is_some_true in H. congruence. }
  apply is_some_true in Ec.
  destruct (key_eqb creator root_key && root_has_step s); [exact I|].
  destruct (key_eqb creator k) eqn:Eself; [exact I|]. apply key_eqb_neq in Eself.
  destruct (mem_key creator (rec_products k s)) eqn:Ecyc; [exact I|].
  assert (Hnew : is_detached k s = true ->
            wpg strict (define_step_new creator label inp env out vol nd s) (fun s' => Inv hh s' /\ GG s s')).
  { intros Hd. apply define_step_new_spec; [exact HI|]. intros Hs.
    destruct (Hst Hs) as [S1 [S3 [S4 S5]]]. split; [|split; [exact Hd | split; assumption]].
    split; [exact S1 | split; [exact Eself | exact S3]]. }
  destruct (find_node k s) as [n|] eqn:Hn.
  2:{ apply Hnew. rewrite is_detached_findn. unfold find_node in Hn. fold (findn k (nodes s)) in Hn.
      rewrite Hn. reflexivity. }
  assert (Hdk : is_detached k s = ndet n).
  { rewrite is_detached_findn. unfold find_node in Hn. fold (findn k (nodes s)) in Hn. rewrite Hn. reflexivity. }
  destruct (ndet n) eqn:Hdn; cbn [andb negb].
  2:{ exact I. }
  destruct (can_recycle label inp env out vol s); [|apply Hnew; exact Hdk].
  (* full recycle *)
  apply wpg_bind. eapply wpg_weaken.
  { apply wpg_conj_lax.
    - apply (@node_reattach_spec hh); [exact HI | reflexivity |]. intros Hs.
      destruct (Hst Hs) as [S1 [S3 _]]. split; [rewrite Hn; discriminate|]. split; [exact S1|].
      split; [exact Hdk|]. split; [exact Eself | split; [exact S3 | exact Ecyc]].
    - apply (@node_reattach_G3 hh); [exact HI | reflexivity]. }
  intros s1 [[I1 [NO1 _]] G01].
  set (g := fun r : srow => mkS (sl r) (sst r) nd (sdef r) (sdc r) 0).
  destruct (upd_step_inv label g s1 I1) as [I2 SO2]; [reflexivity | |].
  { intros r Hr _. pose proof (inv_sw _ I1 r Hr) as Hok. unfold sw_ok_b, g in *. cbn [sdef sst shold].
    apply andb_true_iff in Hok. destruct Hok as [Hok _]. rewrite Hok. destruct hh; reflexivity. }
  assert (G12 : G3 s1 (upd_step label g s1)). { apply upd_step_G3; [reflexivity | intros r; left; reflexivity]. }
  fold g. set (s2 := upd_step label g s1) in *.
  assert (G02 : GG s s2). { apply G3_GG. eapply G3_trans; eassumption. }
  destruct (sstate_of label s2) as [st0|] eqn:Hss; [|cbn; split; assumption].
  destruct st0; try (cbn; split; assumption).
  eapply wpg_weaken.
  - apply wpg_conj_lax.
    + apply (@mark_step_pending_spec hh); [exact I2|]. intros _. unfold sstate_of in Hss.
      destruct (find_step label s2); [discriminate | discriminate].
    + apply (@mark_step_pending_GG hh). exact I2.
  - intros s3 [[I3 _] G23]. split; [exact I3 | eapply GG_trans; eassumption].
Qed.

(* ------------------------------------------------------------------------------------------ *)
(* amend_step                                                                                  *)
(* ------------------------------------------------------------------------------------------ *)
Lemma amend_step_spec strict label inp env out vol s :
  Inv hh s ->
  (strict = true -> find_node (KStep, label) s <> None /\ NoDup out /\ NoDup vol) ->
  wpg strict (amend_step label inp env out vol s)
      (fun s' => Inv hh s' /\ (sstate_of label s <> Some SSucceeded -> GG s s')).
Proof.
  intros HI Hst. unfold amend_step. set (k := (KStep, label)).
  destruct (is_some (find_node k s) && is_some (find_step label s)) eqn:Eg; cbn [negb].
  2:{ destruct strict; [|exact I]. cbn. destruct (Hst eq_refl) as [H _].
      unfold k in Eg. apply andb_false_iff in Eg. destruct Eg as [Eg|Eg].
      - apply is_some_true in H. congruence.
      - apply find_node_KL in H. apply (rw_steps _ _ _ _ _ (inv_rw _ HI)) in H. apply find_step_SL in H.
        apply is_some_true in H. congruence. }
  apply andb_true_iff in Eg. destruct Eg as [Ek _]. apply is_some_true in Ek. apply find_node_KL in Ek.
  apply wpg_bind. eapply wpg_weaken; [apply supply_files_spec; [exact HI | exact Ek]|].
  intros s1 [I1 [NF1 G01]].
  assert (K1 : In k (KL (nodes s1))) by (apply (proj1 NF1); exact Ek).
  destruct (fold_add_env_inv label true false env s1 I1 K1) as [I2 N2].
  pose proof (fold_add_env_G3 label true false env s1) as G12.
  set (s2 := fold_left (fun s e => add_env label e true false s) env s1) in *.
  assert (G02 : GG s s2). { eapply GG_trans; [exact G01 | apply G3_GG; exact G12]. }
  assert (K2 : In k (KL (nodes s2))) by (rewrite N2; exact K1).
  apply wpg_bind. eapply wpg_weaken; [apply (todo_fold_spec strict k 62 s2 out I2 []); intros l []|].
  intros out' [O1 [O2 O3]].
  apply wpg_bind. eapply wpg_weaken; [apply (todo_fold_spec strict k 63 s2 vol I2 []); intros l []|].
  intros vol' [V1 [V2 V3]].
  destruct (existsb (fun l => mem_str l vol') out') eqn:Eov; [exact I|].
  pose proof (overlap_false _ _ Eov) as Hdisj.
  assert (Hafter : forall f, (f = FPlanned \/ f = FVolatile) ->
             forall l s1, Inv hh s1 -> In k (KL (nodes s1)) -> In (KFile, l) (KL (nodes s1)) ->
             creator_of (KFile, l) s1 = Some k ->
             (exists st, fstate_of l s1 = Some st /\ (st = f \/ out_state st = true)) ->
             wpg strict (add_output_edge label l true s1) (fun s2 => Inv hh s2 /\ nodes s2 = nodes s1 /\ GG s1 s2)).
  { intros f Hf l t H1 H2 H3 H4 [st0 [H5 H6]]. apply add_output_edge_spec; try assumption.
    exists st0. split; [exact H5|]. destruct H6 as [->|H6]; [destruct Hf as [->| ->]; reflexivity | exact H6]. }
  apply wpg_bind. eapply wpg_weaken.
  { apply (declare_fold_spec strict k FPlanned (fun l s => add_output_edge label l true s) out' s2);
      [auto | apply Hafter; auto | exact I2 | exact K2 |].
    intros Hs. destruct (Hst Hs) as [_ [S3 _]]. split; [discriminate|]. split; [reflexivity|].
    split; [apply O3; exact S3 | exact O1]. }
  intros s3 [I3 [NF3 G23]].
  eapply wpg_weaken.
  { apply (declare_fold_spec strict k FVolatile (fun l s => add_output_edge label l true s) vol' s3);
      [auto | apply Hafter; auto | exact I3 | apply (proj1 NF3); exact K2 |].
    intros Hs. destruct (Hst Hs) as [_ [_ S4]]. split; [discriminate|]. split; [reflexivity|].
    split; [apply V3; exact S4|]. intros l Hl. apply (proj2 NF3).
    - intros Hin. apply In_fkeys in Hin. exact (Hdisj l Hin Hl).
    - apply V1. exact Hl. }
  intros s4 [I4 [_ G34]]. split; [exact I4|]. intros Hns.
  assert (Hq2 : creator_quiet (Some k) FPlanned s2).
  { intros x Hx _ _. inversion Hx; subst x. eapply not_succ_GG; eassumption. }
  eapply GG_trans; [exact G02|]. eapply GG_trans; [apply G23; exact Hq2|]. apply G34.
  intros x _ _ Hv. exfalso. apply Hv. reflexivity.
Qed.

End HH.
