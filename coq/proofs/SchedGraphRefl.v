(* C10: reflection of the decidable forms of the coupling and of the invariant J. *)
From Coq Require Import List NArith Bool Arith Lia.
From SV Require Import lib.Bytes lib.Closure lib.SqlExpr gen.GenSched model.Graph model.GraphInv model.Sched
  model.SchedGraph proofs.GraphBase proofs.GraphNodes proofs.GraphInvP proofs.SchedProofs proofs.SchedPrims
  proofs.SchedSeq proofs.SchedSkel proofs.SchedGraphCpl proofs.SchedGraphBelow proofs.SchedGraphSim.
Import ListNotations.
Open Scope N_scope.

Lemma list_eqb'_eq {A} (e : A -> A -> bool) : (forall x y, e x y = true -> x = y) ->
  forall l1 l2, list_eqb' e l1 l2 = true -> l1 = l2.
Proof.
  intros He. induction l1 as [|x l1 IH]; intros [|y l2] H; try discriminate; [reflexivity|].
  cbn [list_eqb'] in H. apply andb_true_iff in H. destruct H as [H1 H2]. f_equal; [apply He; exact H1 | apply IH; exact H2].
Qed.

Lemma list_eqb'_map {A B C} (e : A -> B -> bool) (f : A -> C) (h : B -> C) :
  (forall x y, e x y = true -> h y = f x) ->
  forall l1 l2, list_eqb' e l1 l2 = true -> map h l2 = map f l1.
Proof.
  intros He. induction l1 as [|x l1 IH]; intros [|y l2] H; try discriminate; [reflexivity|].
  cbn [list_eqb'] in H. apply andb_true_iff in H. destruct H as [H1 H2]. cbn [map]. f_equal; [apply He; exact H1 | apply IH; exact H2].
Qed.

Lemma oN_eqb_eq a b : oN_eqb a b = true -> a = b.
Proof. destruct a, b; cbn; intros H; try discriminate; [apply N.eqb_eq in H; congruence | reflexivity]. Qed.

Section Refl.
Variable idf : key -> N.

Lemma file_eqb'_eq a b : file_eqb' a b = true -> a = b.
Proof.
  unfold file_eqb'. rewrite !andb_true_iff. intros [[[[[H1 H2] H3] H4] H5] H6].
  destruct a, b. cbn in *. apply N.eqb_eq in H1. apply str_eqb_eq in H2. apply N.eqb_eq in H3.
  apply eqb_prop in H4. apply oN_eqb_eq in H5. apply eqb_prop in H6. congruence.
Qed.
Lemma onode_eqb'_eq a b : onode_eqb' a b = true -> a = b.
Proof.
  unfold onode_eqb'. rewrite !andb_true_iff. intros [[H1 H2] H3].
  destruct a, b. cbn in *. apply N.eqb_eq in H1. apply eqb_prop in H2. apply oN_eqb_eq in H3. congruence.
Qed.
Lemma dep_eqb'_eq a b : dep_eqb' a b = true -> a = b.
Proof.
  unfold dep_eqb'. rewrite !andb_true_iff. intros [[H1 H2] H3].
  destruct a, b. cbn in *. apply N.eqb_eq in H1. apply N.eqb_eq in H2. apply eqb_prop in H3. congruence.
Qed.

Lemma step_agrees_sk s r x : step_agrees idf s r x = true -> sk_step x = row_sk idf s r.
Proof.
  unfold step_agrees. rewrite !andb_true_iff. intros [[[[[[[[[H1 H2] H3] H4] H5] H6] H7] H8] H9] H10].
  apply N.eqb_eq in H1. apply N.eqb_eq in H2. apply N.eqb_eq in H3. apply eqb_prop in H4.
  apply N.eqb_eq in H5. apply N.eqb_eq in H6. apply eqb_prop in H7. apply eqb_prop in H9. apply eqb_prop in H10.
  assert (H8' : s_creator x = node_cre idf (KStep, sl r) s).
  { destruct (s_creator x), (node_cre idf (KStep, sl r) s); try discriminate; [apply N.eqb_eq in H8; congruence | reflexivity]. }
  unfold sk_step, row_sk. congruence.
Qed.

Theorem coupled_b_sound s g : coupled_b idf s g = true -> coupled idf s g.
Proof.
  unfold coupled_b. rewrite !andb_true_iff. intros [[[H1 H2] H3] H4]. constructor.
  - unfold sks. apply (list_eqb'_map (fun r x => step_agrees idf s r x) (row_sk idf s) sk_step); [|exact H1].
    intros r x. apply step_agrees_sk.
  - apply (list_eqb'_eq file_eqb' file_eqb'_eq). exact H2.
  - apply (list_eqb'_eq onode_eqb' onode_eqb'_eq). exact H3.
  - apply (list_eqb'_eq dep_eqb' dep_eqb'_eq). exact H4.
Qed.

End Refl.

Theorem ntc_b_sound s : ntc_b s = true -> NTC s.
Proof.
  unfold ntc_b. rewrite forallb_forall. intros H. split.
  - intros n Hn. specialize (H n Hn). apply andb_true_iff in H. destruct H as [H _].
    apply negb_true_iff in H. intros E. rewrite E in H. discriminate.
  - apply acyclic_edges. intros a b He Hp. apply pedges_In in He. destruct He as [n [Hn [Hk [Hc Hne]]]].
    specialize (H n Hn). apply andb_true_iff in H. destruct H as [_ H]. rewrite Hc in H.
    apply orb_true_iff in H. destruct H as [H|H].
    + apply key_eqb_eq in H. congruence.
    + apply negb_true_iff in H. rewrite rec_products_recl in H.
      assert (Hd : mem_key a (recl (nk n) (nodes s)) = true).
      { apply recl_spec. split; [congruence | rewrite Hk; exact Hp]. }
      congruence.
Qed.

Theorem J_b_sound s : inv_core_b s && ntc_b s = true -> J s.
Proof.
  intros H. apply andb_true_iff in H. destruct H as [H1 H2]. split; [apply inv_core_b_iff; exact H1 | apply ntc_b_sound; exact H2].
Qed.

(* the start of every history *)
Lemma init_minv idf cap targets tdirs avail thr :
  J (init_st cap) /\ coupled idf (init_st cap) (init_graph idf targets tdirs avail thr) /\
  FlagInv (init_graph idf targets tdirs avail thr).
Proof.
  split; [apply J_b_sound; vm_compute; reflexivity|]. split.
  - constructor; reflexivity.
  - split; [|split]; intros s [].
Qed.
